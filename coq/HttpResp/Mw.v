(* Executable model of the middleware machinery of crux_http (C16), as the code is after the fix:
   commits ad19b9f (Redirect resolves against the current URL) and d7f6296 (the command API sends
   through a Client, so request middleware runs there too):

     crux_http/src/client.rs               Client::send          (-> [client_send])
     crux_http/src/middleware.rs           Next::run             (-> [next_run])
     crux_http/src/middleware/redirect.rs  Redirect::handle      (-> [redirect_while], the loop with its u8 counter)
     crux_http/src/request_builder.rs      send / send_async     (-> [run] ACapSend / ACapAsync)
     crux_http/src/command.rs              build                 (-> [run] ACmdBuild)

   Middleware other than Redirect is user code; it is modelled by a small language of the three kinds
   the property speaks about (pass-through, short-circuiting, request-issuing) plus a retrying one
   (which runs the rest of the chain several times), each writing an enter and an exit mark.  The shell is
   a function from the request it receives to its answer (a redirect graph); every request that reaches
   it is a [Shell] mark in the same log.  URL parsing and joining are oracles (the url crate).

   The reference semantics ("what C16 says") is the same stack interpreter with the declarative redirect
   chain [follow]; ProofsMw.v proves the loop equal to it and the properties of [follow].  No proofs here. *)
From Coq Require Import List NArith Bool Ascii String.
From Crux Require Import HttpResp.Resp.
Import ListNotations.
Open Scope N_scope.

(* crux_http::Request as far as this property can observe it: what the shell would receive *)
Record request := { q_method : bytes; q_url : bytes; q_headers : list (bytes * bytes); q_body : bytes }.

Definition set_url (q : request) (u : bytes) : request :=
  {| q_method := q_method q; q_url := u; q_headers := q_headers q; q_body := q_body q |}.
(* Request::clone: http-types resolves the body of a clone to Body::empty() *)
Definition clone_req (q : request) : request :=
  {| q_method := q_method q; q_url := q_url q; q_headers := q_headers q; q_body := [] |}.
(* req.append_header(name, value) with a fresh name *)
Definition add_header (q : request) (h : bytes * bytes) : request :=
  {| q_method := q_method q; q_url := q_url q; q_headers := q_headers q ++ [h]; q_body := q_body q |}.
(* client.get(url) *)
Definition get_request (u : bytes) : request :=
  {| q_method := str "GET"; q_url := u; q_headers := []; q_body := [] |}.

Inductive mark := Enter (id : N) | Exit (id : N) | Shell (q : request).

Inductive url_parse := UAbs (u : bytes) | URel | UErr (msg : bytes).

(* a request a middleware sends on its own through the client it was handed: GET url, optionally with
   the Redirect middleware attached to that request *)
Inductive side := Side (url : bytes) (redirect : option N).

Inductive mw :=
| MPass (id : N) (add : option (bytes * bytes))    (* enter; maybe add a header; next.run; exit; hand the result on *)
| MShort (id : N) (r : http_result)                (* enter; exit; answer r without running the rest *)
| MIssue (id : N) (pre post : list side)           (* enter; side requests; next.run; side requests; exit *)
| MRetry (id : N) (n : N)                          (* enter; next.run on a clone n times; next.run; exit *)
| MRedirect (attempts : N).                        (* crux_http::middleware::Redirect::new(attempts) *)

Definition REDIRECT_CODES : list N := [301; 302; 303; 307; 308].
Definition is_redirect (s : N) : bool := existsb (N.eqb s) REDIRECT_CODES.


(* same method, headers and body; only the URL may differ *)
Definition same_but_url (q q' : request) : Prop :=
  q_method q' = q_method q /\ q_headers q' = q_headers q /\ q_body q' = q_body q.
(* a probe of q: same method and headers, no body *)
Definition probe_of (q p : request) : Prop :=
  q_method p = q_method q /\ q_headers p = q_headers q /\ q_body p = [].

(* stacks of pass-through middleware: their ids in order, and the request after their header additions *)
Fixpoint pass_ids (s : list mw) : option (list N) :=
  match s with
  | [] => Some []
  | MPass id _ :: tl => match pass_ids tl with Some l => Some (id :: l) | None => None end
  | _ => None
  end.
Fixpoint pass_request (s : list mw) (q : request) : request :=
  match s with
  | MPass _ (Some h) :: tl => pass_request tl (add_header q h)
  | _ :: tl => pass_request tl q
  | [] => q
  end.
(* how many times a stack of pass-through / short-circuiting / retrying middleware invokes the endpoint *)
Fixpoint runs (s : list mw) : option nat :=
  match s with
  | [] => Some 1%nat
  | MPass _ _ :: tl => runs tl
  | MShort _ _ :: _ => Some 0%nat
  | MRetry _ n :: tl => match runs tl with Some k => Some ((N.to_nat n + 1) * k)%nat | None => None end
  | _ => None
  end.

(* the APIs through which a request can be sent *)
Inductive api16 := ACapSend | ACmdBuild | ACapAsync.
Record trace16 := { g_log : list mark; g_events : list (hres response); g_panicked : bool }.
Definition finish16 (l : list mark) (o : hres response) : trace16 :=
  match o with
  | HPanic => {| g_log := l; g_events := []; g_panicked := true |}
  | _ => {| g_log := l; g_events := [o]; g_panicked := false |}
  end.
(* send_async hands the ResponseAsync over as it is: no classification *)
Definition raw_response (ra : resp_async) : hres response :=
  HOk {| rs_status := ra_status ra; rs_version := None; rs_headers := ra_headers ra; rs_body := Some (BBytes (ra_body ra)) |}.

Section Semantics.
  Variable shell : request -> http_result.
  Variable parse_abs : bytes -> url_parse.            (* Url::parse(location) *)
  Variable join : bytes -> bytes -> bytes + bytes.    (* Url::join(current, location): inl url | inr error text *)

  (* the endpoint closure of Client::send: the one place a request reaches the shell *)
  Definition endpoint (q : request) : list mark * hres resp_async :=
    ([Shell q], client_send0 (shell q)).

  (* res.header(LOCATION) then .last() *)
  Definition location (ra : resp_async) : hres (option bytes) :=
    match hm_get LOCATION (ra_headers ra) with
    | None => HOk None
    | Some vs => hbind (hv_last vs) (fun v => HOk (Some v))
    end.

  (* the URL a Location leads to, seen from the URL that has just answered *)
  Definition resolve (cur loc : bytes) : bytes + bytes :=
    match parse_abs loc with
    | UAbs u => inl u
    | URel => join cur loc
    | UErr msg => inr msg
    end.

  (* one probe: what Redirect does with the answer to a body-less clone *)
  Inductive probe_result := PStop | PGo (q : request) | PFail (e : http_error) | PPanic.
  Definition probe_step (q : request) (r : hres resp_async) : probe_result :=
    match r with
    | HErr e => PFail e                       (* client.send(r).await? *)
    | HPanic => PPanic
    | HOk ra =>
        if is_redirect (ra_status ra) then
          match location ra with
          | HOk None => PGo q                 (* no Location: the attempt is spent, same URL again *)
          | HOk (Some loc) =>
              match resolve (q_url q) loc with
              | inl u => PGo (set_url q u)
              | inr msg => PFail (EUrl msg)
              end
          | HErr e => PFail e
          | HPanic => PPanic
          end
        else PStop                            (* break *)
    end.

  (* ---------------------------------------------------------------- the code: Redirect::handle's loop
     `let mut redirect_count: u8 = 0; while redirect_count < self.attempts { redirect_count += 1; ... }`
     fuel bounds the number of iterations; 256 is enough for every u8 *)
  Fixpoint redirect_while (fuel : nat) (count attempts : N) (q : request) : list mark * hres request :=
    match fuel with
    | O => ([], HPanic)
    | S f =>
        if count <? attempts then
          let count' := count + 1 in
          let '(l1, r) := endpoint (clone_req q) in
          match probe_step q r with
          | PStop => (l1, HOk q)
          | PGo q' => let '(l2, r2) := redirect_while f count' attempts q' in (l1 ++ l2, r2)
          | PFail e => (l1, HErr e)
          | PPanic => (l1, HPanic)
          end
        else ([], HOk q)
    end.
  Definition redirect_impl (attempts : N) (q : request) := redirect_while 256 0 attempts q.

  (* ---------------------------------------------------------------- the statement: the redirect chain
     follow at most n redirects, each Location resolved against the current URL, stop at the first
     answer that is not a redirect, then forward the original request (only its URL changed) *)
  Fixpoint follow (n : nat) (q : request) : list mark * hres request :=
    match n with
    | O => ([], HOk q)
    | S k =>
        let p := clone_req q in
        match probe_step q (client_send0 (shell p)) with
        | PStop => ([Shell p], HOk q)
        | PGo q' => let '(l, r) := follow k q' in (Shell p :: l, r)
        | PFail e => ([Shell p], HErr e)
        | PPanic => ([Shell p], HPanic)
        end
    end.
  Definition redirect_spec (attempts : N) (q : request) := follow (N.to_nat attempts) q.

  (* ---------------------------------------------------------------- vocabulary of the statements *)
  (* what the client hands back for a request that reaches the shell *)
  Definition answer (p : request) : hres resp_async := client_send0 (shell p).
  (* what links a probe to the next request of the chain: the probe was answered by a redirect and the
     next URL is its (last) Location resolved against the URL of the probe that has just been answered,
     or the same URL when there is no Location *)
  Definition hop (p next : request) : Prop :=
    exists ra, answer p = HOk ra /\ is_redirect (ra_status ra) = true /\
      ((location ra = HOk None /\ q_url next = q_url p) \/
       (exists loc, location ra = HOk (Some loc) /\ resolve (q_url p) loc = inl (q_url next))).

  (* ---------------------------------------------------------------- the stack *)
  Section Stack.
    Variable redirect : N -> request -> list mark * hres request.

    (* a side request: Client::send on the inner client (empty stack) with the request's own middleware *)
    Definition side_send (s : side) : list mark :=
      let '(Side u red) := s in
      let q := get_request u in
      match red with
      | None => fst (endpoint q)
      | Some n =>
          let '(l1, r) := redirect n q in
          match r with HOk q' => l1 ++ fst (endpoint q') | _ => l1 end
      end.
    Definition side_sends (l : list side) : list mark := List.concat (map side_send l).

    (* From<HttpResponse> for ResponseAsync (public, panics where from_protocol reports an error) *)
    Definition from_public (r : http_result) : hres resp_async :=
      match r with
      | RErr e => HErr e
      | ROk resp => match from_protocol resp with HErr _ => HPanic | x => x end
      end.

    (* Next::run over the remaining slice *)
    Fixpoint next_run (stack : list mw) (q : request) : list mark * hres resp_async :=
      match stack with
      | [] => endpoint q
      | m :: rest =>
          match m with
          | MPass id add =>
              let q' := match add with Some h => add_header q h | None => q end in
              let '(l, r) := next_run rest q' in
              (Enter id :: l ++ [Exit id], r)
          | MShort id res => ([Enter id; Exit id], from_public res)
          | MIssue id pre post =>
              let '(l, r) := next_run rest q in
              (Enter id :: side_sends pre ++ l ++ side_sends post ++ [Exit id], r)
          | MRetry id n =>
              let '(lc, _) := next_run rest (clone_req q) in
              let '(l, r) := next_run rest q in
              (Enter id :: List.concat (repeat lc (N.to_nat n)) ++ l ++ [Exit id], r)
          | MRedirect attempts =>
              let '(l1, r1) := redirect attempts q in
              match r1 with
              | HOk q' => let '(l2, r2) := next_run rest q' in (l1 ++ l2, r2)
              | HErr e => (l1, HErr e)
              | HPanic => (l1, HPanic)
              end
          end
      end.

    (* Client::send: the client's stack, then the request's, then the endpoint; the client handed to
       middleware has an empty stack *)
    Definition client_send (client_stack : list mw) (q : request) (req_stack : list mw) : list mark * hres resp_async :=
      next_run (client_stack ++ req_stack) q.

    Definition run16 (a : api16) (cs : list mw) (q : request) (rs : list mw) : trace16 :=
      let '(l, r) := client_send (match a with ACmdBuild => [] | _ => cs end) q rs in
      match a with
      | ACapAsync => finish16 l (hbind r raw_response)
      | _ => finish16 l (hbind r response_new)      (* Response::new, then ExpectBytes *)
      end.
  End Stack.

  Definition run_impl := run16 redirect_impl.
  Definition run_spec := run16 redirect_spec.
End Semantics.

(* ------------------------------------------------------------------ decidable comparison of traces *)
Definition header_eqb (a b : bytes * bytes) : bool := bytes_eqb (fst a) (fst b) && bytes_eqb (snd a) (snd b).
(* request headers live in a map and are written to the wire sorted by name: compare as multisets *)
Fixpoint remove_one (h : bytes * bytes) (l : list (bytes * bytes)) : option (list (bytes * bytes)) :=
  match l with
  | [] => None
  | x :: tl => if header_eqb h x then Some tl else match remove_one h tl with Some r => Some (x :: r) | None => None end
  end.
Fixpoint multiset_eqb (a b : list (bytes * bytes)) : bool :=
  match a with
  | [] => match b with [] => true | _ => false end
  | h :: tl => match remove_one h b with Some b' => multiset_eqb tl b' | None => false end
  end.
Definition request_eqb (a b : request) : bool :=
  bytes_eqb (q_method a) (q_method b) && bytes_eqb (q_url a) (q_url b)
  && multiset_eqb (q_headers a) (q_headers b) && bytes_eqb (q_body a) (q_body b).
Definition mark_eqb (a b : mark) : bool :=
  match a, b with
  | Enter i, Enter j | Exit i, Exit j => N.eqb i j
  | Shell p, Shell q => request_eqb p q
  | _, _ => false
  end.

Definition trace16_eqb (a b : trace16) : bool :=
  list_eqb mark_eqb (g_log a) (g_log b)
  && list_eqb outcome_eqb (g_events a) (g_events b)
  && Bool.eqb (g_panicked a) (g_panicked b).

(* well-nested enter/exit marks *)
Fixpoint balanced_aux (open : list N) (l : list mark) : bool :=
  match l with
  | [] => match open with [] => true | _ => false end
  | Enter i :: tl => balanced_aux (i :: open) tl
  | Exit i :: tl => match open with j :: open' => N.eqb i j && balanced_aux open' tl | [] => false end
  | Shell _ :: tl => balanced_aux open tl
  end.
Definition balanced (l : list mark) : bool := balanced_aux [] l.

Definition count_shell (l : list mark) : nat :=
  List.length (filter (fun m => match m with Shell _ => true | _ => false end) l).

(* u8 attempt limits *)
Fixpoint side_valid (l : list side) : bool :=
  match l with [] => true | Side _ (Some n) :: tl => (n <=? 255) && side_valid tl | Side _ None :: tl => side_valid tl end.
Definition mw_valid (m : mw) : bool :=
  match m with
  | MRedirect n => n <=? 255
  | MIssue _ pre post => side_valid pre && side_valid post
  | _ => true
  end.
Definition stack_valid (s : list mw) : bool := forallb mw_valid s.

(* ------------------------------------------------------------------ generated cases *)
(* the shell as a table keyed by URL, with a default answer; the two URL oracles as tables *)
Record case16 := {
  c_api : api16;
  c_client : list mw;
  c_req : list mw;
  c_request : request;
  c_graph : list (bytes * http_result);
  c_default : http_result;
  c_parse : list (bytes * url_parse);
  c_join : list (bytes * bytes * (bytes + bytes));
  c_impl : trace16
}.
Definition tbl_shell (c : case16) (q : request) : http_result :=
  match assoc bytes_eqb (q_url q) (c_graph c) with Some r => r | None => c_default c end.
(* a missing oracle entry is answered with a marker the implementation cannot produce, so that a case
   whose tables do not cover what the semantics looks up is rejected rather than silently accepted *)
Definition MISSING : bytes := str "<<no oracle entry>>".
Definition tbl_parse (c : case16) (loc : bytes) : url_parse :=
  match assoc bytes_eqb loc (c_parse c) with Some r => r | None => UErr MISSING end.
Definition tbl_join (c : case16) (cur loc : bytes) : bytes + bytes :=
  match assoc (fun a b => bytes_eqb (fst a) (fst b) && bytes_eqb (snd a) (snd b)) (cur, loc) (c_join c) with
  | Some r => r | None => inr MISSING end.

Definition mentions_missing (t : trace16) : bool :=
  existsb (fun o => match o with HErr (EUrl m) => bytes_eqb m MISSING | _ => false end) (g_events t).

(* The trace predicate: the implementation's log (marks and the requests that reached the shell, in
   order) and its final event are those of the reference semantics.  No known class. *)
Definition C16_ok (c : case16) (t : trace16) : bool :=
  trace16_eqb (run_spec (tbl_shell c) (tbl_parse c) (tbl_join c) (c_api c) (c_client c) (c_request c) (c_req c)) t.

(* verdicts: 0 implementation = reference semantics = model of the code; 1 the model of the code
   differs from the implementation although the reference semantics agrees with it; 2 the
   implementation differs from the reference semantics; 9 the case is malformed (attempt limit above
   u8, or an oracle entry missing) *)
Definition case_verdict16 (c : case16) : N :=
  let spec := run_spec (tbl_shell c) (tbl_parse c) (tbl_join c) (c_api c) (c_client c) (c_request c) (c_req c) in
  let impl := run_impl (tbl_shell c) (tbl_parse c) (tbl_join c) (c_api c) (c_client c) (c_request c) (c_req c) in
  if negb (stack_valid (c_client c) && stack_valid (c_req c)) then 9
  else if mentions_missing spec then 9
  else if C16_ok c (c_impl c) then (if trace16_eqb impl (c_impl c) then 0 else 1)
  else 2.
Definition verdicts16 (cs : list case16) : list N := map case_verdict16 cs.

(* concrete syntax for generated files *)
Definition Rq (m u : bytes) (h : list (bytes * bytes)) (b : bytes) : request :=
  {| q_method := m; q_url := u; q_headers := h; q_body := b |}.
Definition Ge (u : bytes) (r : http_result) : bytes * http_result := (u, r).
Definition Pe (l : bytes) (r : url_parse) : bytes * url_parse := (l, r).
Definition Je (u l : bytes) (r : bytes + bytes) : bytes * bytes * (bytes + bytes) := (u, l, r).
Definition T16 (l : list mark) (e : list (hres response)) (p : bool) : trace16 := {| g_log := l; g_events := e; g_panicked := p |}.
Definition C16 (a : api16) (cs rs : list mw) (q : request) (g : list (bytes * http_result)) (d : http_result)
           (p : list (bytes * url_parse)) (j : list (bytes * bytes * (bytes + bytes))) (t : trace16) : case16 :=
  {| c_api := a; c_client := cs; c_req := rs; c_request := q; c_graph := g; c_default := d; c_parse := p; c_join := j; c_impl := t |}.
