(* Lemmas about coq/HttpResp/Mw.v (C16). *)
From Coq Require Import List NArith Bool Lia Arith.
From Crux Require Import HttpResp.Resp HttpResp.RespProofs HttpResp.Mw.
Import ListNotations.
Open Scope N_scope.

Section Proofs.
  Variable shell : request -> http_result.
  Variable parse_abs : bytes -> url_parse.
  Variable join : bytes -> bytes -> bytes + bytes.

  Notation follow := (follow shell parse_abs join).
  Notation redirect_while := (redirect_while shell parse_abs join).
  Notation redirect_impl := (redirect_impl shell parse_abs join).
  Notation redirect_spec := (redirect_spec shell parse_abs join).
  Notation probe_step := (probe_step parse_abs join).
  Notation resolve := (resolve parse_abs join).
  Notation endpoint := (endpoint shell).
  Notation answer := (answer shell).
  Notation hop := (hop shell parse_abs join).

  (* ---------------------------------------------------------------- the loop is the chain *)
  Lemma redirect_while_follow fuel : forall count attempts q,
    (N.to_nat (attempts - count) < fuel)%nat ->
    redirect_while fuel count attempts q = follow (N.to_nat (attempts - count)) q.
  Proof.
    induction fuel as [|f IH]; intros count attempts q Hf; [lia|].
    cbn [Mw.redirect_while].
    destruct (N.ltb_spec count attempts) as [Hlt | Hge].
    - assert (E : N.to_nat (attempts - count) = S (N.to_nat (attempts - (count + 1)))) by lia.
      rewrite E. cbn [Mw.follow]. unfold endpoint, Mw.endpoint.
      destruct (probe_step q (client_send0 (shell (clone_req q)))) eqn:P; try reflexivity.
      rewrite IH by lia. destruct (follow (N.to_nat (attempts - (count + 1))) q0). reflexivity.
    - assert (E : N.to_nat (attempts - count) = 0%nat) by lia. rewrite E. reflexivity.
  Qed.

  Lemma redirect_impl_spec attempts q : attempts <= 255 -> redirect_impl attempts q = redirect_spec attempts q.
  Proof.
    intros H. unfold redirect_impl, Mw.redirect_impl, redirect_spec, Mw.redirect_spec.
    rewrite redirect_while_follow by lia. rewrite N.sub_0_r. reflexivity.
  Qed.

  (* ---------------------------------------------------------------- properties of the chain *)
  Definition is_shell (m : mark) : bool := match m with Shell _ => true | _ => false end.

  Lemma follow_bounded n : forall q, (List.length (fst (follow n q)) <= n)%nat.
  Proof.
    induction n as [|k IH]; intros q; cbn [Mw.follow]; [simpl; lia|].
    destruct (probe_step q _) eqn:P; simpl; try lia.
    specialize (IH q0). destruct (follow k q0). simpl in *. lia.
  Qed.

  (* every request of the chain is the original with another URL; probes have no body *)
  Lemma same_but_url_refl q : same_but_url q q.
  Proof. repeat split. Qed.
  Lemma same_but_url_trans a b c : same_but_url a b -> same_but_url b c -> same_but_url a c.
  Proof. intros [A1 [A2 A3]] [B1 [B2 B3]]. repeat split; congruence. Qed.

  Lemma probe_step_go q r q' : probe_step q r = PGo q' -> same_but_url q q'.
  Proof.
    unfold probe_step, Mw.probe_step. destruct r as [ra | e |]; try discriminate.
    destruct (is_redirect (ra_status ra)); [|discriminate].
    destruct (location ra) as [[loc|] | e |]; try discriminate.
    - destruct (resolve (q_url q) loc); [|discriminate]. intros H; inversion H; subst. repeat split.
    - intros H; inversion H; subst. apply same_but_url_refl.
  Qed.

  Lemma follow_probes n : forall q, Forall (fun m => exists p, m = Shell p /\ probe_of q p) (fst (follow n q)).
  Proof.
    induction n as [|k IH]; intros q; cbn [Mw.follow]; [constructor|].
    assert (P0 : exists p, Shell (clone_req q) = Shell p /\ probe_of q p)
      by (eexists; split; [reflexivity | repeat split]).
    destruct (probe_step q _) eqn:P; simpl; try (constructor; [exact P0 | constructor]).
    specialize (IH q0). destruct (follow k q0) as [l r]. simpl in *.
    constructor; [exact P0|].
    apply probe_step_go in P. destruct P as [M [H B]].
    eapply Forall_impl; [|exact IH]. intros m [p [E [A1 [A2 A3]]]]. exists p. split; [exact E|].
    repeat split; congruence.
  Qed.

  Lemma follow_final n : forall q q', snd (follow n q) = HOk q' -> same_but_url q q'.
  Proof.
    induction n as [|k IH]; intros q q'; cbn [Mw.follow].
    - simpl. intros H; inversion H; subst. apply same_but_url_refl.
    - destruct (probe_step q _) eqn:P; simpl; try discriminate.
      + intros H; inversion H; subst. apply same_but_url_refl.
      + specialize (IH q0 q'). destruct (follow k q0) as [l r]. simpl in *. intros H.
        eapply same_but_url_trans; [apply (probe_step_go _ _ _ P) | apply IH; exact H].
  Qed.

  (* the chain starts with a probe of the original URL *)
  Lemma follow_head n q m l r : follow n q = (m :: l, r) -> m = Shell (clone_req q).
  Proof.
    destruct n as [|k]; cbn [Mw.follow]; [discriminate|].
    destruct (probe_step q _); try (intros H; inversion H; reflexivity).
    destruct (follow k q0). intros H; inversion H; reflexivity.
  Qed.

  (* a non-redirect answer ends probing at once and forwards the request unchanged *)
  Lemma follow_stop k q : probe_step q (answer (clone_req q)) = PStop ->
    follow (S k) q = ([Shell (clone_req q)], HOk q).
  Proof. intros H. cbn [Mw.follow]. unfold answer in H. rewrite H. reflexivity. Qed.

  Lemma probe_step_stop_iff q r : probe_step q r = PStop <-> exists ra, r = HOk ra /\ is_redirect (ra_status ra) = false.
  Proof.
    unfold probe_step, Mw.probe_step. split.
    - destruct r as [ra | e |]; try discriminate.
      destruct (is_redirect (ra_status ra)) eqn:E.
      + destruct (location ra) as [[loc|] | e |]; try discriminate. destruct (resolve _ loc); discriminate.
      + intros _. exists ra. split; [reflexivity | exact E].
    - intros [ra [E1 E2]]. subst r. rewrite E2. reflexivity.
  Qed.

  Lemma probe_step_go_hop q q' : probe_step q (answer (clone_req q)) = PGo q' -> hop (clone_req q) q'.
  Proof.
    unfold probe_step, Mw.probe_step, hop. destruct (answer (clone_req q)) as [ra | e |] eqn:A; try discriminate.
    destruct (is_redirect (ra_status ra)) eqn:E; [|discriminate].
    destruct (location ra) as [[loc|] | e |] eqn:L; try discriminate.
    - destruct (resolve (q_url q) loc) eqn:R; [|discriminate]. intros H; inversion H; subst.
      exists ra. repeat split; try assumption. right. exists loc. split; [first [exact L | reflexivity] | exact R].
    - intros H; inversion H; subst. exists ra. repeat split; try assumption. left. split; [first [exact L | reflexivity] | reflexivity].
  Qed.

  (* every probe that is followed by another one was answered by a redirect, and the next probe goes
     to the Location resolved against the URL of the probe that has just been answered *)
  Lemma follow_consecutive n : forall q l1 p p' l2 r,
    follow n q = (l1 ++ Shell p :: Shell p' :: l2, r) -> hop p p'.
  Proof.
    induction n as [|k IH]; intros q l1 p p' l2 r; cbn [Mw.follow].
    - intros H. inversion H. destruct l1; discriminate.
    - destruct (probe_step q (client_send0 (shell (clone_req q)))) eqn:P;
        try (intros H; inversion H as [[H1 H2]]; destruct l1 as [|m [|m' l1]]; discriminate).
      destruct (follow k q0) as [l r0] eqn:F. intros H. inversion H as [[H1 H2]]. subst r0.
      destruct l1 as [|m l1].
      + simpl in H1. inversion H1; subst.
        pose proof (follow_head k q0 _ _ _ F) as Hh. inversion Hh; subst.
        pose proof (probe_step_go_hop q q0 P) as Hop.
        destruct Hop as [ra [A [E D]]]. exists ra. repeat split; try assumption.
      + simpl in H1. inversion H1; subst. eapply IH. exact F.
  Qed.

  (* the request that is finally forwarded: after the last probe *)
  Lemma follow_last n : forall q l p q',
    follow n q = (l ++ [Shell p], HOk q') ->
    (exists ra, answer p = HOk ra /\ is_redirect (ra_status ra) = false /\ q_url q' = q_url p) \/ hop p q'.
  Proof.
    induction n as [|k IH]; intros q l p q'; cbn [Mw.follow].
    - intros H. inversion H. destruct l; discriminate.
    - destruct (probe_step q (client_send0 (shell (clone_req q)))) eqn:P.
      + intros H. inversion H as [[H1 H2]]. subst q'.
        destruct l as [|m l]; [|destruct l; discriminate]. simpl in H1. inversion H1; subst.
        left. apply probe_step_stop_iff in P. destruct P as [ra [A E]]. exists ra. repeat split; assumption.
      + destruct (follow k q0) as [l0 r0] eqn:F. intros H. inversion H as [[H1 H2]]. subst r0.
        destruct l as [|m l].
        * simpl in H1. inversion H1; subst. destruct k; cbn [Mw.follow] in F.
          -- inversion F; subst. right. apply probe_step_go_hop. exact P.
          -- exfalso. destruct (probe_step q0 _); try discriminate. destruct (follow k _). discriminate.
        * simpl in H1. inversion H1; subst. eapply IH. exact F.
      + intros H; inversion H.
      + intros H; inversion H.
  Qed.
End Proofs.

(* ==================================================================== the stack *)
Definition shell_only (l : list mark) : Prop := Forall (fun m => exists p, m = Shell p) l.

Lemma shell_only_app a b : shell_only a -> shell_only b -> shell_only (a ++ b).
Proof. intros A B. apply Forall_app. split; assumption. Qed.

(* a fragment that leaves the stack of open middleware as it found it *)
Definition bal (l : list mark) : Prop := forall open rest, balanced_aux open (l ++ rest) = balanced_aux open rest.

Lemma bal_nil : bal [].
Proof. intros o r. reflexivity. Qed.
Lemma bal_app a b : bal a -> bal b -> bal (a ++ b).
Proof. intros A B o r. rewrite <- app_assoc, A, B. reflexivity. Qed.
Lemma bal_shell_only l : shell_only l -> bal l.
Proof.
  induction 1 as [|m l [p E] _ IH]; [apply bal_nil|]. subst m. intros o r. simpl. apply IH.
Qed.
Lemma bal_wrap id l : bal l -> bal (Enter id :: l ++ [Exit id]).
Proof.
  intros B o r. simpl. rewrite <- app_assoc. rewrite B. simpl. rewrite N.eqb_refl. reflexivity.
Qed.
Lemma bal_concat ls : Forall bal ls -> bal (List.concat ls).
Proof. induction 1; simpl; [apply bal_nil | apply bal_app; assumption]. Qed.
Lemma bal_balanced l : bal l -> balanced l = true.
Proof. intros B. unfold balanced. rewrite <- (app_nil_r l). rewrite B. reflexivity. Qed.

Lemma count_shell_app a b : count_shell (a ++ b) = (count_shell a + count_shell b)%nat.
Proof. unfold count_shell. rewrite filter_app, app_length. reflexivity. Qed.
Lemma count_shell_concat_repeat l n : count_shell (List.concat (repeat l n)) = (n * count_shell l)%nat.
Proof. induction n; simpl; [reflexivity|]. rewrite count_shell_app, IHn. reflexivity. Qed.

Section Stack.
  Variable shell : request -> http_result.
  Variable parse_abs : bytes -> url_parse.
  Variable join : bytes -> bytes -> bytes + bytes.
  Notation endpoint := (endpoint shell).

  Section AnyRedirect.
    (* any redirect function whose own log consists of requests to the shell *)
    Variable R : N -> request -> list mark * hres request.
    Hypothesis R_shell_only : forall n q, shell_only (fst (R n q)).
    Notation next_run := (next_run shell R).
    Notation side_sends := (side_sends shell R).
    Notation side_send := (side_send shell R).

    Lemma side_send_shell_only s : shell_only (side_send s).
    Proof.
      destruct s as [u [n|]]; unfold side_send, Mw.side_send.
      - pose proof (R_shell_only n (get_request u)) as H. destruct (R n (get_request u)) as [l1 r]. simpl in H.
        destruct r; try exact H. apply shell_only_app; [exact H|]. simpl. constructor; [eexists; reflexivity | constructor].
      - simpl. constructor; [eexists; reflexivity | constructor].
    Qed.
    Lemma side_sends_shell_only l : shell_only (side_sends l).
    Proof.
      unfold side_sends, Mw.side_sends. induction l; simpl; [constructor|].
      apply shell_only_app; [apply side_send_shell_only | exact IHl].
    Qed.

    (* ---- enter/exit marks are well nested, for every stack, request and shell *)
    Lemma next_run_bal s : forall q, bal (fst (next_run s q)).
    Proof.
      induction s as [|m rest IH]; intros q; cbn [Mw.next_run].
      - simpl. apply bal_shell_only. constructor; [eexists; reflexivity | constructor].
      - destruct m as [id add | id res | id pre post | id n | attempts].
        + specialize (IH (match add with Some h => add_header q h | None => q end)).
          destruct (next_run rest _) as [l r]. simpl in *. apply bal_wrap. exact IH.
        + simpl. apply (bal_wrap id []). apply bal_nil.
        + specialize (IH q). destruct (next_run rest q) as [l r]. simpl in *.
          replace (side_sends pre ++ l ++ side_sends post ++ [Exit id]) with ((side_sends pre ++ l ++ side_sends post) ++ [Exit id])
            by (repeat rewrite <- app_assoc; reflexivity).
          apply bal_wrap. apply bal_app; [apply bal_shell_only, side_sends_shell_only|].
          apply bal_app; [exact IH | apply bal_shell_only, side_sends_shell_only].
        + pose proof (IH (clone_req q)) as IHc. specialize (IH q).
          destruct (next_run rest (clone_req q)) as [lc rc]. destruct (next_run rest q) as [l r]. simpl in *.
          replace (List.concat (repeat lc (N.to_nat n)) ++ l ++ [Exit id]) with ((List.concat (repeat lc (N.to_nat n)) ++ l) ++ [Exit id])
            by (rewrite <- app_assoc; reflexivity).
          apply bal_wrap. apply bal_app; [|exact IH]. apply bal_concat. apply Forall_forall. intros x Hx.
          apply repeat_spec in Hx. subst x. exact IHc.
        + pose proof (R_shell_only attempts q) as Hs. destruct (R attempts q) as [l1 r1]. simpl in Hs.
          destruct r1 as [q' | e |]; simpl; try (apply bal_shell_only; exact Hs).
          specialize (IH q'). destruct (next_run rest q') as [l2 r2]. simpl in *.
          apply bal_app; [apply bal_shell_only; exact Hs | exact IH].
    Qed.

    Theorem next_run_balanced s q : balanced (fst (next_run s q)) = true.
    Proof. apply bal_balanced, next_run_bal. Qed.

    (* ---- pass-through stacks: the exact log *)
    Lemma next_run_pass s : forall q ids, pass_ids s = Some ids ->
      next_run s q = (map Enter ids ++ [Shell (pass_request s q)] ++ map Exit (rev ids),
                      client_send0 (shell (pass_request s q))).
    Proof.
      induction s as [|m rest IH]; intros q ids H.
      - simpl in H. inversion H; subst. reflexivity.
      - destruct m as [id add | | | |]; try discriminate. cbn [pass_ids] in H.
        destruct (pass_ids rest) as [l|] eqn:P; [|discriminate]. inversion H; subst ids.
        cbn [Mw.next_run].
        assert (Q : pass_request (MPass id add :: rest) q = pass_request rest (match add with Some h => add_header q h | None => q end))
          by (destruct add; reflexivity).
        rewrite (IH _ l eq_refl). rewrite Q. cbn [map rev]. rewrite map_app. cbn [map].
        repeat rewrite <- app_assoc. reflexivity.
    Qed.

    Lemma pass_ids_app a b la lb : pass_ids a = Some la -> pass_ids b = Some lb -> pass_ids (a ++ b) = Some (la ++ lb).
    Proof.
      revert la. induction a as [|m a IH]; intros la Ha Hb.
      - simpl in Ha. inversion Ha; subst. exact Hb.
      - destruct m as [id add | | | |]; try discriminate. cbn [pass_ids] in Ha.
        destruct (pass_ids a) as [l|] eqn:P; [|discriminate]. inversion Ha; subst la.
        cbn [app pass_ids]. rewrite (IH l eq_refl Hb). reflexivity.
    Qed.

    (* client middleware, then per-request middleware, then the shell - once -, then back out *)
    Theorem client_send_order cs rs q ic ir :
      pass_ids cs = Some ic -> pass_ids rs = Some ir ->
      client_send shell R cs q rs =
      (map Enter ic ++ map Enter ir ++ [Shell (pass_request (cs ++ rs) q)] ++ map Exit (rev ir) ++ map Exit (rev ic),
       client_send0 (shell (pass_request (cs ++ rs) q))).
    Proof.
      intros Hc Hr. unfold client_send. rewrite (next_run_pass (cs ++ rs) q (ic ++ ir) (pass_ids_app _ _ _ _ Hc Hr)).
      rewrite rev_app_distr. repeat rewrite map_app. repeat rewrite <- app_assoc. reflexivity.
    Qed.

    (* ---- how often the shell is reached: once per invocation of the rest of the chain *)
    Theorem next_run_shell_count s : forall q k, runs s = Some k -> count_shell (fst (next_run s q)) = k.
    Proof.
      induction s as [|m rest IH]; intros q k H.
      - simpl in H. inversion H. reflexivity.
      - destruct m as [id add | id res | id pre post | id n | attempts]; try discriminate; cbn [runs] in H; cbn [Mw.next_run].
        + specialize (IH (match add with Some h => add_header q h | None => q end) k H).
          destruct (next_run rest _) as [l r]. simpl in *.
          change (Enter id :: l ++ [Exit id]) with ([Enter id] ++ l ++ [Exit id]).
          repeat rewrite count_shell_app. rewrite IH. unfold count_shell. simpl. lia.
        + inversion H. reflexivity.
        + destruct (runs rest) as [k0|] eqn:Rk; [|discriminate]. inversion H; subst k.
          pose proof (IH (clone_req q) k0 eq_refl) as IHc. specialize (IH q k0 eq_refl).
          destruct (next_run rest (clone_req q)) as [lc rc]. destruct (next_run rest q) as [l r]. simpl in *.
          change (Enter id :: List.concat (repeat lc (N.to_nat n)) ++ l ++ [Exit id]) with ([Enter id] ++ List.concat (repeat lc (N.to_nat n)) ++ l ++ [Exit id]).
          repeat rewrite count_shell_app. rewrite count_shell_concat_repeat, IH, IHc. unfold count_shell. simpl. lia.
    Qed.
  End AnyRedirect.
End Stack.

(* ==================================================================== the code refines the statement *)
Section Refinement.
  Variable shell : request -> http_result.
  Variable parse_abs : bytes -> url_parse.
  Variable join : bytes -> bytes -> bytes + bytes.
  Notation Rimpl := (redirect_impl shell parse_abs join).
  Notation Rspec := (redirect_spec shell parse_abs join).

  Lemma follow_shell_only n : forall q, shell_only (fst (follow shell parse_abs join n q)).
  Proof.
    intros q. eapply Forall_impl; [|apply follow_probes]. intros m [p [E _]]. exists p; exact E.
  Qed.
  Lemma Rspec_shell_only n q : shell_only (fst (Rspec n q)).
  Proof. apply follow_shell_only. Qed.

  Lemma side_valid_sends l : side_valid l = true -> side_sends shell Rimpl l = side_sends shell Rspec l.
  Proof.
    unfold side_sends. induction l as [|[u [n|]] l IH]; intros H; simpl in *; [reflexivity | |].
    - apply andb_prop in H as [H1 H2]. apply N.leb_le in H1.
      rewrite (redirect_impl_spec shell parse_abs join n _ H1). rewrite (IH H2). reflexivity.
    - rewrite (IH H). reflexivity.
  Qed.

  Lemma next_run_refines s : forall q, stack_valid s = true -> next_run shell Rimpl s q = next_run shell Rspec s q.
  Proof.
    induction s as [|m rest IH]; intros q H; [reflexivity|].
    unfold stack_valid in H. cbn [forallb] in H. apply andb_prop in H as [Hm Hr]. fold (stack_valid rest) in Hr.
    destruct m as [id add | id res | id pre post | id n | attempts]; cbn [next_run].
    - rewrite (IH _ Hr). reflexivity.
    - reflexivity.
    - simpl in Hm. apply andb_prop in Hm as [H1 H2].
      rewrite (IH _ Hr), (side_valid_sends pre H1), (side_valid_sends post H2). reflexivity.
    - rewrite (IH _ Hr), (IH _ Hr). reflexivity.
    - simpl in Hm. apply N.leb_le in Hm. rewrite (redirect_impl_spec shell parse_abs join attempts q Hm).
      destruct (Rspec attempts q) as [l1 [q' | e |]]; try reflexivity. rewrite (IH _ Hr). reflexivity.
  Qed.

  Lemma stack_valid_app a b : stack_valid (a ++ b) = stack_valid a && stack_valid b.
  Proof. unfold stack_valid. apply forallb_app. Qed.

  Theorem run_refines a cs q rs : stack_valid cs = true -> stack_valid rs = true ->
    run_impl shell parse_abs join a cs q rs = run_spec shell parse_abs join a cs q rs.
  Proof.
    intros Hc Hr. unfold run_impl, run_spec, run16, client_send.
    rewrite next_run_refines; [reflexivity|].
    rewrite stack_valid_app. destruct a; simpl; rewrite ?Hc, ?Hr; reflexivity.
  Qed.

  (* ---- the APIs: the command API is the capability API with an empty client stack; send_async only
     differs in what it does with the response at the end *)
  Theorem command_api_same R cs q rs : run16 shell R ACmdBuild cs q rs = run16 shell R ACapSend [] q rs.
  Proof. reflexivity. Qed.
  Theorem async_same_log R cs q rs : g_log (run16 shell R ACapAsync cs q rs) = g_log (run16 shell R ACapSend cs q rs).
  Proof.
    unfold run16. destruct (client_send shell R cs q rs) as [l r].
    destruct r as [ra | e |]; simpl; try reflexivity.
    unfold finish16. destruct (response_new ra); reflexivity.
  Qed.
End Refinement.

(* ==================================================================== the trace predicate holds of the model *)
Lemma header_eqb_refl h : header_eqb h h = true.
Proof. unfold header_eqb. rewrite !bytes_eqb_refl. reflexivity. Qed.
Lemma multiset_eqb_refl l : multiset_eqb l l = true.
Proof. induction l as [|h l IH]; simpl; [reflexivity|]. rewrite header_eqb_refl. exact IH. Qed.
Lemma request_eqb_refl q : request_eqb q q = true.
Proof. unfold request_eqb. rewrite !bytes_eqb_refl, multiset_eqb_refl. reflexivity. Qed.
Lemma mark_eqb_refl m : mark_eqb m m = true.
Proof. destruct m; simpl; [apply N.eqb_refl | apply N.eqb_refl | apply request_eqb_refl]. Qed.
Lemma list_eqb_refl {A} (eqb : A -> A -> bool) l : Forall (fun x => eqb x x = true) l -> list_eqb eqb l l = true.
Proof. induction 1; simpl; [reflexivity|]. rewrite H. exact IHForall. Qed.

Definition wf_map (m : hmap) : Prop := keys_nodup (map fst m) = true.
Lemma hmap_equiv_refl m : wf_map m -> hmap_equiv m m = true.
Proof.
  intros W. unfold hmap_equiv. rewrite Nat.eqb_refl, W. simpl. rewrite !andb_true_r.
  apply forallb_forall. intros [k vs] Hin. simpl. rewrite (hm_get_In k vs m W Hin). apply list_bytes_eqb_refl.
Qed.

Definition wf_outcome (o : hres response) : Prop := match o with HOk r => wf_map (rs_headers r) | _ => True end.
Lemma outcome_eqb_refl o : wf_outcome o -> outcome_eqb o o = true.
Proof.
  destruct o as [r | e |]; simpl; intros W; [|apply http_error_eqb_refl | reflexivity].
  unfold response_eqb. rewrite N.eqb_refl, (hmap_equiv_refl _ W). simpl.
  destruct (rs_version r); simpl; [rewrite N.eqb_refl|]; (destruct (rs_body r) as [b|]; simpl; [apply body_out_eqb_refl | reflexivity]).
Qed.

Definition wf_ra (r : hres resp_async) : Prop := match r with HOk ra => wf_map (ra_headers ra) | _ => True end.

Lemma from_protocol_wf resp : wf_ra (from_protocol resp).
Proof.
  destruct (from_protocol_cases resp) as [[msg E] | [_ [_ E]]]; rewrite E; simpl; [exact I|].
  destruct (Inv_build (r_headers resp) [] [] Inv_nil) as [Hn _]. exact Hn.
Qed.
Lemma client_send0_wf r : wf_ra (client_send0 r).
Proof. destruct r; simpl; [apply from_protocol_wf | exact I]. Qed.
Lemma from_public_wf r : wf_ra (from_public r).
Proof.
  destruct r as [resp | e]; simpl; [|exact I].
  pose proof (from_protocol_wf resp) as W. destruct (from_protocol resp); simpl in *; auto.
Qed.

Section Sound.
  Variable shell : request -> http_result.
  Variable R : N -> request -> list mark * hres request.

  Lemma next_run_wf s : forall q, wf_ra (snd (next_run shell R s q)).
  Proof.
    induction s as [|m rest IH]; intros q; cbn [next_run].
    - simpl. apply client_send0_wf.
    - destruct m as [id add | id res | id pre post | id n | attempts].
      + specialize (IH (match add with Some h => add_header q h | None => q end)). destruct (next_run shell R rest _). exact IH.
      + simpl. apply from_public_wf.
      + specialize (IH q). destruct (next_run shell R rest q). exact IH.
      + specialize (IH q). destruct (next_run shell R rest (clone_req q)). destruct (next_run shell R rest q). exact IH.
      + destruct (R attempts q) as [l1 [q' | e |]]; simpl; try exact I.
        specialize (IH q'). destruct (next_run shell R rest q'). exact IH.
  Qed.

  Definition wf_trace (t : trace16) : Prop := Forall wf_outcome (g_events t).

  Lemma finish16_wf l o : wf_outcome o -> wf_trace (finish16 l o).
  Proof. intros W. destruct o; unfold wf_trace; simpl; constructor; auto. Qed.

  Lemma run16_wf a cs q rs : wf_trace (run16 shell R a cs q rs).
  Proof.
    unfold run16, client_send.
    pose proof (next_run_wf (match a with ACmdBuild => [] | _ => cs end ++ rs) q) as W.
    destruct (next_run shell R _ q) as [l r]. simpl in W.
    destruct a; apply finish16_wf; destruct r as [ra | e |]; simpl in *; try exact I; try exact W;
      unfold response_new; simpl; destruct (is_client_error _ || is_server_error _); simpl; auto.
  Qed.

  Lemma trace16_eqb_refl t : wf_trace t -> trace16_eqb t t = true.
  Proof.
    intros W. unfold trace16_eqb.
    rewrite (list_eqb_refl mark_eqb); [|apply Forall_forall; intros; apply mark_eqb_refl].
    rewrite (list_eqb_refl outcome_eqb); [|eapply Forall_impl; [|exact W]; intros; apply outcome_eqb_refl; assumption].
    destruct (g_panicked t); reflexivity.
  Qed.
End Sound.

Theorem model_ok16 shell parse_abs join a cs q rs :
  stack_valid cs = true -> stack_valid rs = true ->
  trace16_eqb (run_spec shell parse_abs join a cs q rs) (run_impl shell parse_abs join a cs q rs) = true.
Proof.
  intros Hc Hr. rewrite (run_refines shell parse_abs join a cs q rs Hc Hr).
  apply trace16_eqb_refl. apply run16_wf.
Qed.

Theorem C16_ok_model c : stack_valid (c_client c) = true -> stack_valid (c_req c) = true ->
  C16_ok c (run_impl (tbl_shell c) (tbl_parse c) (tbl_join c) (c_api c) (c_client c) (c_request c) (c_req c)) = true.
Proof. intros Hc Hr. unfold C16_ok. apply model_ok16; assumption. Qed.

(* ---- forms used by Properties/C16.v *)
Lemma marks_well_nested shell parse_abs join s q :
  balanced (fst (next_run shell (redirect_spec shell parse_abs join) s q)) = true.
Proof. apply next_run_balanced. apply Rspec_shell_only. Qed.

Lemma stops_at_first_non_redirect shell parse_abs join k q ra :
  answer shell (clone_req q) = HOk ra -> is_redirect (ra_status ra) = false ->
  follow shell parse_abs join (S k) q = ([Shell (clone_req q)], HOk q).
Proof.
  intros A E. apply follow_stop. unfold answer in A.
  apply probe_step_stop_iff. exists ra. split; assumption.
Qed.

Lemma all_apis shell R cs q rs :
  run16 shell R ACmdBuild cs q rs = run16 shell R ACapSend [] q rs /\
  g_log (run16 shell R ACapAsync cs q rs) = g_log (run16 shell R ACapSend cs q rs).
Proof. split; [apply command_api_same | apply async_same_log]. Qed.

(* ---- link with C15: under pass-through middleware (in particular with no middleware at all) the event the
   app receives is the C15 classification of the shell's answer to the request that reached it *)
Lemma pass_stack_outcome_is_C15 shell R mime_charset decode json cs rs q ic ir :
  pass_ids cs = Some ic -> pass_ids rs = Some ir ->
  g_events (run16 shell R ACapSend cs q rs) =
  t_events (run mime_charset decode json ACap XBytes (shell (pass_request (cs ++ rs) q))) /\
  g_panicked (run16 shell R ACapSend cs q rs) =
  t_panicked (run mime_charset decode json ACap XBytes (shell (pass_request (cs ++ rs) q))).
Proof.
  intros Hc Hr. unfold run16. rewrite (client_send_order shell R cs rs q ic ir Hc Hr).
  unfold run, run_cap. destruct (client_send0 (shell (pass_request (cs ++ rs) q))) as [ra | e |]; simpl; try (split; reflexivity).
  unfold finish16, emit. destruct (response_new ra); split; reflexivity.
Qed.
