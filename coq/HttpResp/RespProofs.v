(* Lemmas about coq/HttpResp/Resp.v (C15). *)
From Coq Require Import List NArith Bool Lia.
From Crux Require Import HttpResp.Resp.
Import ListNotations.
Open Scope N_scope.

(* ------------------------------------------------------------------ equality tests *)
Lemma bytes_eqb_eq a b : bytes_eqb a b = true <-> a = b.
Proof.
  revert b; induction a as [|x a IH]; intros [|y b]; simpl; split; intros H; try congruence; try reflexivity.
  - apply andb_prop in H as [H1 H2]. apply N.eqb_eq in H1. apply IH in H2. congruence.
  - inversion H; subst. rewrite N.eqb_refl. simpl. apply IH. reflexivity.
Qed.
Lemma bytes_eqb_refl a : bytes_eqb a a = true.
Proof. apply bytes_eqb_eq; reflexivity. Qed.
Lemma bytes_eqb_neq a b : bytes_eqb a b = false <-> a <> b.
Proof.
  split; intros H.
  - intros E. apply bytes_eqb_eq in E. congruence.
  - destruct (bytes_eqb a b) eqn:E; [apply bytes_eqb_eq in E; contradiction | reflexivity].
Qed.
Lemma bytes_eqb_sym a b : bytes_eqb a b = bytes_eqb b a.
Proof.
  destruct (bytes_eqb a b) eqn:E.
  - apply bytes_eqb_eq in E; subst. symmetry; apply bytes_eqb_refl.
  - symmetry. apply bytes_eqb_neq. apply bytes_eqb_neq in E. congruence.
Qed.

Lemma list_bytes_eqb_eq a b : list_eqb bytes_eqb a b = true <-> a = b.
Proof.
  revert b; induction a as [|x a IH]; intros [|y b]; simpl; split; intros H; try congruence; try reflexivity.
  - apply andb_prop in H as [H1 H2]. apply bytes_eqb_eq in H1. apply IH in H2. congruence.
  - inversion H; subst. rewrite bytes_eqb_refl. simpl. apply IH. reflexivity.
Qed.
Lemma list_bytes_eqb_refl a : list_eqb bytes_eqb a a = true.
Proof. apply list_bytes_eqb_eq; reflexivity. Qed.

Lemma option_bytes_eqb_refl a : option_eqb bytes_eqb a a = true.
Proof. destruct a; simpl; [apply bytes_eqb_refl | reflexivity]. Qed.

(* ------------------------------------------------------------------ lower-casing *)
Lemma lower_byte_idem c : lower_byte (lower_byte c) = lower_byte c.
Proof.
  unfold lower_byte.
  destruct ((65 <=? c) && (c <=? 90)) eqn:E.
  - apply andb_prop in E as [E1 E2]. apply N.leb_le in E1, E2.
    destruct ((65 <=? c + 32) && (c + 32 <=? 90)) eqn:E'; [|reflexivity].
    apply andb_prop in E' as [_ E']. apply N.leb_le in E'. lia.
  - rewrite E. reflexivity.
Qed.
Lemma lower_idem b : lower (lower b) = lower b.
Proof. unfold lower. rewrite map_map. apply map_ext. intros; apply lower_byte_idem. Qed.

(* ------------------------------------------------------------------ the header map *)
Lemma hm_get_append_same k v m :
  hm_get k (hm_append k v m) = Some (match hm_get k m with Some vs => vs ++ [v] | None => [v] end).
Proof.
  induction m as [|[k' vs] m IH]; simpl.
  - rewrite bytes_eqb_refl. reflexivity.
  - destruct (bytes_eqb k k') eqn:E; simpl; rewrite E; [reflexivity | exact IH].
Qed.
Lemma hm_get_append_other k k' v m : k <> k' -> hm_get k (hm_append k' v m) = hm_get k m.
Proof.
  intros N. induction m as [|[k2 vs] m IH]; simpl.
  - apply bytes_eqb_neq in N. rewrite N. reflexivity.
  - destruct (bytes_eqb k' k2) eqn:E; simpl.
    + apply bytes_eqb_eq in E; subst k2. apply bytes_eqb_neq in N. rewrite N. reflexivity.
    + destruct (bytes_eqb k k2); [reflexivity | exact IH].
Qed.

Lemma hm_keys_append k v m :
  map fst (hm_append k v m) = if existsb (bytes_eqb k) (map fst m) then map fst m else map fst m ++ [k].
Proof.
  induction m as [|[k' vs] m IH]; simpl; [reflexivity|].
  destruct (bytes_eqb k k') eqn:E; simpl; [reflexivity|].
  rewrite IH. destruct (existsb (bytes_eqb k) (map fst m)); reflexivity.
Qed.

Lemma existsb_bytes_In k l : existsb (bytes_eqb k) l = true <-> In k l.
Proof.
  rewrite existsb_exists. split.
  - intros [x [H E]]. apply bytes_eqb_eq in E; subst; exact H.
  - intros H. exists k. split; [exact H | apply bytes_eqb_refl].
Qed.

Lemma keys_nodup_app_new l k : keys_nodup l = true -> existsb (bytes_eqb k) l = false -> keys_nodup (l ++ [k]) = true.
Proof.
  induction l as [|x l IH]; simpl; intros H E; [reflexivity|].
  apply andb_prop in H as [H1 H2]. apply orb_false_elim in E as [E1 E2].
  rewrite IH by assumption. rewrite andb_true_r.
  rewrite existsb_app. simpl. rewrite orb_false_r.
  apply negb_true_iff in H1. rewrite H1. simpl.
  rewrite bytes_eqb_sym. rewrite E1. reflexivity.
Qed.

Lemma keys_nodup_append k v m : keys_nodup (map fst m) = true -> keys_nodup (map fst (hm_append k v m)) = true.
Proof.
  intros H. rewrite hm_keys_append.
  destruct (existsb (bytes_eqb k) (map fst m)) eqn:E; [exact H | apply keys_nodup_app_new; assumption].
Qed.

Lemma hm_get_In k vs m : keys_nodup (map fst m) = true -> In (k, vs) m -> hm_get k m = Some vs.
Proof.
  induction m as [|[k' vs'] m IH]; simpl; intros H I; [contradiction|].
  apply andb_prop in H as [H1 H2].
  destruct I as [I | I].
  - inversion I; subst. rewrite bytes_eqb_refl. reflexivity.
  - destruct (bytes_eqb k k') eqn:E.
    + apply bytes_eqb_eq in E; subst k'. apply negb_true_iff in H1.
      assert (X : existsb (bytes_eqb k) (map fst m) = true).
      { apply existsb_bytes_In. apply in_map_iff. exists (k, vs). split; [reflexivity | exact I]. }
      congruence.
    + apply IH; assumption.
Qed.
Lemma hm_get_Some_In k vs m : hm_get k m = Some vs -> In (k, vs) m.
Proof.
  induction m as [|[k' vs'] m IH]; simpl; intros H; [discriminate|].
  destruct (bytes_eqb k k') eqn:E.
  - apply bytes_eqb_eq in E; subst. inversion H; subst. left; reflexivity.
  - right; apply IH; exact H.
Qed.


(* values sent under the (lower-case) key k, in order *)
Definition collect (k : bytes) (hs : list (bytes * bytes)) : list bytes :=
  map snd (filter (fun h => bytes_eqb (lower (fst h)) k) hs).
Definition opt_list (l : list bytes) : option (list bytes) := match l with [] => None | _ => Some l end.

Lemma shell_values_collect name hs : shell_values name hs = collect (lower name) hs.
Proof. reflexivity. Qed.

Lemma collect_app k a b : collect k (a ++ b) = collect k a ++ collect k b.
Proof. unfold collect. rewrite filter_app, map_app. reflexivity. Qed.

Lemma collect_single k n v : collect k [(n, v)] = if bytes_eqb (lower n) k then [v] else [].
Proof. unfold collect. simpl. destruct (bytes_eqb (lower n) k); reflexivity. Qed.

Lemma collect_nonempty_lower k hs : collect k hs <> [] -> lower k = k.
Proof.
  unfold collect. induction hs as [|h hs IH]; simpl; intros H; [congruence|].
  destruct (bytes_eqb (lower (fst h)) k) eqn:E.
  - apply bytes_eqb_eq in E. subst k. apply lower_idem.
  - apply IH; exact H.
Qed.

Lemma collect_In h hs : In h hs -> collect (lower (fst h)) hs <> [].
Proof.
  unfold collect. induction hs as [|h' hs IH]; simpl; intros H; [contradiction|].
  destruct H as [H | H].
  - subst h'. rewrite bytes_eqb_refl. simpl. congruence.
  - destruct (bytes_eqb (lower (fst h')) (lower (fst h))); simpl; [congruence | apply IH; exact H].
Qed.

(* the map built from a header list *)
Definition build (hs : list (bytes * bytes)) (m : hmap) : hmap :=
  fold_left (fun m h => hm_append (lower (fst h)) (snd h) m) hs m.

Definition Inv (hs0 : list (bytes * bytes)) (m : hmap) : Prop :=
  keys_nodup (map fst m) = true /\ forall k, hm_get k m = opt_list (collect k hs0).

Lemma Inv_nil : Inv [] [].
Proof. split; [reflexivity | intros k; reflexivity]. Qed.

Lemma opt_list_app_single l v : opt_list (l ++ [v]) = Some (l ++ [v]).
Proof. destruct l; reflexivity. Qed.

Lemma Inv_step hs0 m n v : Inv hs0 m -> Inv (hs0 ++ [(n, v)]) (hm_append (lower n) v m).
Proof.
  intros [Hn Hg]. split.
  - apply keys_nodup_append; exact Hn.
  - intros k. rewrite collect_app, collect_single.
    destruct (bytes_eqb (lower n) k) eqn:E.
    + apply bytes_eqb_eq in E. subst k.
      rewrite hm_get_append_same, Hg.
      rewrite opt_list_app_single.
      destruct (collect (lower n) hs0); reflexivity.
    + rewrite hm_get_append_other.
      * rewrite Hg. rewrite app_nil_r. reflexivity.
      * apply bytes_eqb_neq in E. congruence.
Qed.

Lemma Inv_build hs : forall hs0 m, Inv hs0 m -> Inv (hs0 ++ hs) (build hs m).
Proof.
  induction hs as [|[n v] hs IH]; intros hs0 m H; simpl.
  - rewrite app_nil_r. exact H.
  - replace (hs0 ++ (n, v) :: hs) with ((hs0 ++ [(n, v)]) ++ hs) by (rewrite <- app_assoc; reflexivity).
    apply IH. apply Inv_step. exact H.
Qed.

Lemma Inv_headers_same hs m : Inv hs m -> headers_same_b hs m = true.
Proof.
  intros [Hn Hg]. unfold headers_same_b.
  apply andb_true_intro; split; [apply andb_true_intro; split|].
  - apply forallb_forall. intros h Hin.
    rewrite Hg. rewrite shell_values_collect.
    pose proof (collect_In h hs Hin) as Hne.
    destruct (collect (lower (fst h)) hs) eqn:E; [congruence|].
    cbn [opt_list]. apply list_bytes_eqb_refl.
  - apply forallb_forall. intros [k vs] Hin. simpl.
    pose proof (hm_get_In k vs m Hn Hin) as G. rewrite Hg in G.
    assert (Hc : collect k hs = vs /\ vs <> []).
    { destruct (collect k hs) eqn:E; simpl in G; [discriminate|]. inversion G; subst. split; [reflexivity | congruence]. }
    destruct Hc as [Hc Hne].
    rewrite shell_values_collect.
    assert (L : lower k = k) by (apply (collect_nonempty_lower k hs); rewrite Hc; exact Hne).
    rewrite L, Hc. destruct vs; [congruence|]. apply (list_bytes_eqb_refl (b :: vs)).
  - exact Hn.
Qed.

(* values are never empty *)
Lemma Inv_nonempty hs m k vs : Inv hs m -> hm_get k m = Some vs -> vs <> [].
Proof.
  intros [_ Hg] G. rewrite Hg in G. destruct (collect k hs); simpl in G; [discriminate|]. inversion G; congruence.
Qed.

(* ------------------------------------------------------------------ set_body then remove: no net change *)
Lemma hm_remove_insert_absent k vs m : hm_get k m = None -> hm_remove k (hm_insert k vs m) = m.
Proof.
  induction m as [|[k' vs'] m IH]; simpl; intros H.
  - rewrite bytes_eqb_refl. reflexivity.
  - destruct (bytes_eqb k k') eqn:E; [discriminate|].
    simpl. rewrite E. simpl. f_equal. apply IH; exact H.
Qed.

Lemma set_body_roundtrip m :
  (if match hm_get CONTENT_TYPE m with Some _ => true | None => false end
   then copy_content_type m else hm_remove CONTENT_TYPE (copy_content_type m)) = m.
Proof.
  unfold copy_content_type. destruct (hm_get CONTENT_TYPE m) eqn:E; [reflexivity|].
  apply hm_remove_insert_absent; exact E.
Qed.

(* ------------------------------------------------------------------ add_headers / from_protocol *)
Lemma add_headers_ascii hs : forall m, all_ascii hs = true -> add_headers hs m = HOk (build hs m).
Proof.
  induction hs as [|[n v] hs IH]; intros m H; simpl; [reflexivity|].
  simpl in H. apply andb_prop in H as [H1 H2]. apply andb_prop in H1 as [Hn Hv]. simpl in Hn, Hv.
  rewrite Hn, Hv. simpl. apply IH; exact H2.
Qed.
Lemma add_headers_non_ascii hs : forall m, all_ascii hs = false -> exists msg, add_headers hs m = HErr (EIo msg).
Proof.
  induction hs as [|[n v] hs IH]; intros m H; simpl in *; [discriminate|].
  destruct (is_ascii n) eqn:En; simpl; [|eexists; reflexivity].
  destruct (is_ascii v) eqn:Ev; simpl; [|eexists; reflexivity].
  simpl in H. apply IH; exact H.
Qed.

Lemma from_protocol_unknown r : known_status (r_status r) = false -> from_protocol r = HErr (EIo (msg_status (r_status r))).
Proof. intros H. unfold from_protocol. rewrite H. reflexivity. Qed.

Lemma from_protocol_ok r : known_status (r_status r) = true -> all_ascii (r_headers r) = true ->
  from_protocol r = HOk {| ra_status := r_status r; ra_headers := build (r_headers r) []; ra_body := r_body r |}.
Proof.
  intros Hk Ha. unfold from_protocol. rewrite Hk. simpl.
  rewrite add_headers_ascii by exact Ha. simpl. rewrite set_body_roundtrip. reflexivity.
Qed.
Lemma from_protocol_non_ascii r : known_status (r_status r) = true -> all_ascii (r_headers r) = false ->
  exists msg, from_protocol r = HErr (EIo msg).
Proof.
  intros Hk Ha. unfold from_protocol. rewrite Hk. simpl.
  destruct (add_headers_non_ascii (r_headers r) [] Ha) as [msg E]. rewrite E. exists msg; reflexivity.
Qed.

(* the conversion never panics; a success carries a map built from the shell's headers *)
Lemma from_protocol_cases r :
  (exists msg, from_protocol r = HErr (EIo msg)) \/
  (known_status (r_status r) = true /\ all_ascii (r_headers r) = true /\
   from_protocol r = HOk {| ra_status := r_status r; ra_headers := build (r_headers r) []; ra_body := r_body r |}).
Proof.
  destruct (known_status (r_status r)) eqn:Hk.
  - destruct (all_ascii (r_headers r)) eqn:Ha.
    + right. repeat split. apply from_protocol_ok; assumption.
    + left. apply from_protocol_non_ascii; assumption.
  - left. eexists. apply from_protocol_unknown; exact Hk.
Qed.

(* ------------------------------------------------------------------ status table *)
Lemma known_status_range s : known_status s = true -> 100 <= s < 600.
Proof.
  unfold known_status. rewrite existsb_exists. intros [x [Hin E]]. apply N.eqb_eq in E. subst x.
  assert (F : Forall (fun x => 100 <= x < 600) known_status_table).
  { unfold known_status_table. repeat (constructor; [lia|]). constructor. }
  rewrite Forall_forall in F. apply F; exact Hin.
Qed.

Lemma error_range s : is_client_error s || is_server_error s = (400 <=? s) && (s <? 600).
Proof.
  unfold is_client_error, is_server_error.
  destruct (400 <=? s) eqn:A, (s <? 500) eqn:B, (500 <=? s) eqn:C, (s <? 600) eqn:D; simpl; try reflexivity;
  repeat match goal with
  | H : (_ <=? _) = true |- _ => apply N.leb_le in H
  | H : (_ <=? _) = false |- _ => apply N.leb_gt in H
  | H : (_ <? _) = true |- _ => apply N.ltb_lt in H
  | H : (_ <? _) = false |- _ => apply N.ltb_ge in H
  end; lia.
Qed.

Lemma lower_CONTENT_TYPE : lower CONTENT_TYPE = CONTENT_TYPE.
Proof. vm_compute. reflexivity. Qed.

Lemma http_error_eqb_refl e : http_error_eqb e e = true.
Proof.
  destruct e as [c m b| m | m | m |]; simpl; try apply bytes_eqb_refl; try reflexivity.
  rewrite N.eqb_refl, bytes_eqb_refl, option_bytes_eqb_refl. reflexivity.
Qed.

Section Main.
  Variable mime_charset : bytes -> option bytes.
  Variable decode : option bytes -> bytes -> bytes + bytes.
  Variable json : bytes -> bytes + bytes.

  Let run := run mime_charset decode json.
  Let run_cmd := run_cmd mime_charset decode json.
  Let run_cap := run_cap mime_charset decode json.
  Let decode_exp := decode_exp mime_charset decode json.
  Let C15_ok := C15_ok mime_charset decode json.
  Let expected_body := expected_body mime_charset decode json.

  (* ---- the two APIs are the same function of the shell's answer *)
  Lemma apis_agree x r : run_cmd x r = run_cap x r.
  Proof.
    unfold run_cmd, run_cap, Resp.run_cmd, Resp.run_cap, finish_cmd.
    destruct (client_send0 r); reflexivity.
  Qed.

  Lemma run_cmd_run a x r : run a x r = run_cmd x r.
  Proof. destruct a; [reflexivity | symmetry; apply apis_agree]. Qed.

  (* ---- a shell error is passed through unchanged, as the only event *)
  Lemma passthrough a x e : run a x (RErr e) = T1 (HErr e).
  Proof. rewrite run_cmd_run. reflexivity. Qed.

  (* ---- Response::new *)
  Lemma response_new_err ra : (400 <=? ra_status ra) && (ra_status ra <? 600) = true ->
    response_new ra = HErr (EHttp (ra_status ra) (dec (ra_status ra)) (Some (ra_body ra))).
  Proof. intros H. unfold response_new. simpl. rewrite error_range, H. reflexivity. Qed.
  Lemma response_new_ok ra : (400 <=? ra_status ra) && (ra_status ra <? 600) = false ->
    response_new ra = HOk {| rs_status := ra_status ra; rs_version := None; rs_headers := ra_headers ra; rs_body := Some (BBytes (ra_body ra)) |}.
  Proof. intros H. unfold response_new. simpl. rewrite error_range, H. reflexivity. Qed.

  (* ---- expectations on a response whose header map was built from a shell header list *)
  Lemma claimed_encoding_build hs :
    claimed_encoding mime_charset (build hs []) =
    HOk (match shell_content_type hs with Some v => mime_charset v | None => None end).
  Proof.
    pose proof (Inv_build hs [] [] Inv_nil) as [_ Hg]. simpl in Hg.
    unfold claimed_encoding, shell_content_type. rewrite Hg, shell_values_collect, lower_CONTENT_TYPE.
    destruct (collect CONTENT_TYPE hs) as [|v vs] eqn:E; [reflexivity|].
    cbn [opt_list]. unfold hv_last.
    destruct (rev (v :: vs)) as [|w ws] eqn:R.
    - exfalso. apply (f_equal (@List.length bytes)) in R. rewrite rev_length in R. discriminate.
    - reflexivity.
  Qed.

  Definition resp0 (resp : http_response) : response :=
    {| rs_status := r_status resp; rs_version := None; rs_headers := build (r_headers resp) [];
       rs_body := Some (BBytes (r_body resp)) |}.

  Lemma decode_exp_resp0 x resp :
    decode_exp x (resp0 resp) =
    match x with
    | XBytes => HOk (resp0 resp)
    | _ => match expected_body x resp with
           | Some b => HOk {| rs_status := r_status resp; rs_version := None; rs_headers := build (r_headers resp) []; rs_body := Some b |}
           | None => match x with
                     | XString => HErr (EHttp 500 (msg_decode match decode (match shell_content_type (r_headers resp) with Some v => mime_charset v | None => None end) (r_body resp) with inr n => n | inl _ => [] end) None)
                     | _ => HErr (EJson match json (r_body resp) with inr m => m | inl _ => [] end)
                     end
           end
    end.
  Proof.
    destruct x; [reflexivity | |].
    - unfold decode_exp, Resp.decode_exp, expect_string, expected_body, Resp.expected_body. simpl.
      rewrite claimed_encoding_build. simpl.
      destruct (decode _ (r_body resp)); reflexivity.
    - unfold decode_exp, Resp.decode_exp, expect_json, expected_body, Resp.expected_body. simpl.
      destruct (json (r_body resp)); reflexivity.
  Qed.

  (* ---- the whole path for a representable response *)
  Lemma run_representable a x resp :
    known_status (r_status resp) = true -> all_ascii (r_headers resp) = true ->
    run a x (ROk resp) =
    if (400 <=? r_status resp) && (r_status resp <? 600)
    then T1 (HErr (EHttp (r_status resp) (dec (r_status resp)) (Some (r_body resp))))
    else emit (decode_exp x (resp0 resp)).
  Proof.
    intros Hk Ha. rewrite run_cmd_run. unfold run_cmd, Resp.run_cmd, finish_cmd, client_send0.
    rewrite (from_protocol_ok resp Hk Ha). cbn [hbind].
    destruct ((400 <=? r_status resp) && (r_status resp <? 600)) eqn:E.
    - rewrite response_new_err by exact E. reflexivity.
    - rewrite response_new_ok by exact E. reflexivity.
  Qed.

  Lemma run_unrepresentable a x resp :
    known_status (r_status resp) && all_ascii (r_headers resp) = false ->
    exists msg, run a x (ROk resp) = T1 (HErr (EIo msg)).
  Proof.
    intros H. rewrite run_cmd_run. unfold run_cmd, Resp.run_cmd, finish_cmd, client_send0.
    destruct (from_protocol_cases resp) as [[msg E] | [Hk [Ha _]]].
    - rewrite E. exists msg. reflexivity.
    - rewrite Hk, Ha in H. discriminate.
  Qed.

  Lemma run_unknown_status a x resp : known_status (r_status resp) = false ->
    run a x (ROk resp) = T1 (HErr (EIo (msg_status (r_status resp)))).
  Proof.
    intros H. rewrite run_cmd_run. unfold run_cmd, Resp.run_cmd, finish_cmd, client_send0.
    rewrite from_protocol_unknown by exact H. reflexivity.
  Qed.

  (* ---- exactly one event, never a panic: for every input *)
  Lemma emit_decode_exp_resp0 x resp : exists o, emit (decode_exp x (resp0 resp)) = T1 o /\ o <> HPanic.
  Proof.
    rewrite decode_exp_resp0.
    destruct x.
    - eexists; split; [reflexivity | discriminate].
    - destruct (expected_body XString resp); eexists; (split; [reflexivity | discriminate]).
    - destruct (expected_body XJson resp); eexists; (split; [reflexivity | discriminate]).
  Qed.

  Theorem one_outcome a x r : exists o, run a x r = T1 o /\ o <> HPanic.
  Proof.
    destruct r as [resp | e].
    - destruct (known_status (r_status resp) && all_ascii (r_headers resp)) eqn:H.
      + apply andb_prop in H as [Hk Ha]. rewrite (run_representable a x resp Hk Ha).
        destruct ((400 <=? r_status resp) && (r_status resp <? 600)).
        * eexists; split; [reflexivity | discriminate].
        * apply emit_decode_exp_resp0.
      + destruct (run_unrepresentable a x resp H) as [msg E]. rewrite E.
        eexists; split; [reflexivity | discriminate].
    - rewrite passthrough. eexists; split; [reflexivity | discriminate].
  Qed.

  Theorem one_nonpanic_run a x r : one_nonpanic (run a x r) = true.
  Proof.
    destruct (one_outcome a x r) as [o [E N]]. rewrite E. unfold one_nonpanic. cbn [T1 t_panicked t_events negb andb].
    destruct o; [reflexivity | reflexivity | congruence].
  Qed.

  (* ---- classification *)
  Lemma headers_same_build hs : headers_same_b hs (build hs []) = true.
  Proof. apply Inv_headers_same. apply (Inv_build hs [] [] Inv_nil). Qed.

  Lemma body_out_eqb_refl b : body_out_eqb b b = true.
  Proof. destruct b; simpl; apply bytes_eqb_refl. Qed.

  Theorem success_faithful a x resp :
    known_status (r_status resp) = true -> all_ascii (r_headers resp) = true -> r_status resp < 400 ->
    match expected_body x resp with
    | Some b => exists o, run a x (ROk resp) = T1 (HOk o) /\ rs_status o = r_status resp /\
                          headers_same_b (r_headers resp) (rs_headers o) = true /\ rs_body o = Some b /\ rs_version o = None
    | None => exists e, run a x (ROk resp) = T1 (HErr e)
    end.
  Proof.
    intros Hk Ha Hs. rewrite (run_representable a x resp Hk Ha).
    assert (E : (400 <=? r_status resp) && (r_status resp <? 600) = false).
    { apply andb_false_iff. left. apply N.leb_gt. exact Hs. }
    rewrite E, decode_exp_resp0.
    destruct x.
    - simpl. eexists; repeat split. apply headers_same_build.
    - destruct (expected_body XString resp); [eexists; repeat split; apply headers_same_build | eexists; reflexivity].
    - destruct (expected_body XJson resp); [eexists; repeat split; apply headers_same_build | eexists; reflexivity].
  Qed.

  Theorem error_status a x resp :
    known_status (r_status resp) = true -> all_ascii (r_headers resp) = true -> 400 <= r_status resp ->
    run a x (ROk resp) = T1 (HErr (EHttp (r_status resp) (dec (r_status resp)) (Some (r_body resp)))).
  Proof.
    intros Hk Ha Hs. rewrite (run_representable a x resp Hk Ha).
    pose proof (known_status_range _ Hk) as R.
    assert (E : (400 <=? r_status resp) && (r_status resp <? 600) = true).
    { apply andb_true_intro. split; [apply N.leb_le; exact Hs | apply N.ltb_lt; lia]. }
    rewrite E. reflexivity.
  Qed.

  (* ---- the trace predicate holds of the model outside the two known classes *)
  Theorem model_ok a x r :
    known_unknown_status r = false -> known_non_ascii_header r = false -> C15_ok x r (run a x r) = true.
  Proof.
    intros K1 K2. destruct r as [resp | e].
    - unfold known_unknown_status in K1. unfold known_non_ascii_header in K2. apply negb_false_iff in K2.
      destruct (known_status (r_status resp)) eqn:Hk.
      + pose proof (known_status_range _ Hk) as R.
        destruct (N.ltb_spec (r_status resp) 400) as [Hs | Hs].
        * pose proof (success_faithful a x resp Hk K2 Hs) as S.
          assert (E1 : (400 <=? r_status resp) && (r_status resp <? 600) = false)
            by (apply andb_false_iff; left; apply N.leb_gt; exact Hs).
          assert (E2 : (100 <=? r_status resp) && (r_status resp <? 400) = true)
            by (apply andb_true_intro; split; [apply N.leb_le; lia | apply N.ltb_lt; exact Hs]).
          unfold C15_ok, Resp.C15_ok.
          destruct (expected_body x resp) as [b|] eqn:EB.
          -- destruct S as [o [Er [S1 [S2 [S3 S4]]]]]. fold run. rewrite Er. cbn [T1 t_panicked t_events negb andb].
             rewrite E1, E2. unfold faithful_success. fold expected_body. rewrite EB, S1, S2, S3, N.eqb_refl. simpl.
             apply body_out_eqb_refl.
          -- destruct S as [e Er]. fold run. rewrite Er. cbn [T1 t_panicked t_events negb andb].
             rewrite E1, E2. fold expected_body. rewrite EB. reflexivity.
        * unfold C15_ok, Resp.C15_ok. fold run. rewrite (error_status a x resp Hk K2 Hs).
          cbn [T1 t_panicked t_events negb andb].
          assert (E1 : (400 <=? r_status resp) && (r_status resp <? 600) = true)
            by (apply andb_true_intro; split; [apply N.leb_le; exact Hs | apply N.ltb_lt; lia]).
          rewrite E1, N.eqb_refl, bytes_eqb_refl. reflexivity.
      + (* status outside 100..599 and not in the table: an error value *)
        cbn [negb] in K1. rewrite andb_true_r in K1.
        unfold C15_ok, Resp.C15_ok. fold run. rewrite (run_unknown_status a x resp Hk).
        cbn [T1 t_panicked t_events negb andb].
        destruct ((400 <=? r_status resp) && (r_status resp <? 600)) eqn:E1.
        { apply andb_prop in E1 as [A B]. apply N.leb_le in A. apply N.ltb_lt in B.
          apply andb_false_iff in K1. destruct K1 as [K1 | K1]; [apply N.leb_gt in K1 | apply N.ltb_ge in K1]; lia. }
        destruct ((100 <=? r_status resp) && (r_status resp <? 400)) eqn:E2.
        { apply andb_prop in E2 as [A B]. apply N.leb_le in A. apply N.ltb_lt in B.
          apply andb_false_iff in K1. destruct K1 as [K1 | K1]; [apply N.leb_gt in K1 | apply N.ltb_ge in K1]; lia. }
        reflexivity.
    - unfold C15_ok, Resp.C15_ok. fold run. rewrite passthrough. cbn [T1 t_panicked t_events negb andb].
      apply http_error_eqb_refl.
  Qed.
End Main.

(* "the same headers", unfolded: under every name the app finds exactly the values the shell sent under
   that name (case-insensitively), in the shell's order *)
Lemma headers_lookup hs name :
  hm_get (lower name) (build hs []) = match shell_values name hs with [] => None | vs => Some vs end.
Proof.
  destruct (Inv_build hs [] [] Inv_nil) as [_ Hg]. simpl in Hg.
  rewrite Hg, shell_values_collect. destruct (collect (lower name) hs); reflexivity.
Qed.

(* the full classification statement fails on the faithful model: status 299 *)
Lemma full_statement_counterexample :
  exists mime_charset decode json a x r,
    C15_ok mime_charset decode json x r (run mime_charset decode json a x r) = false.
Proof.
  exists (fun _ => None), (fun _ b => inl b), (fun b => inl b), ACmd, XBytes,
         (ROk {| r_status := 299; r_headers := []; r_body := [104; 105] |}).
  reflexivity.
Qed.
