(* Executable model of the response path of crux_http (C15), as the code is after the fix:
   commits (c181421 headers, 649a428 unknown status, 621d2f7 non-ASCII header, 716537a BOM,
   d7f6296 command API through a Client):

     crux_http/src/protocol.rs            ResponseAsync::from_protocol   (-> [from_protocol])
     crux_http/src/response/response.rs   Response::new                  (-> [response_new])
                                          body_string / body_json        (-> [expect_string], [expect_json])
     crux_http/src/expect.rs              ExpectBytes/String/Json        (-> [decode_exp])
     crux_http/src/command.rs             RequestBuilder::build          (-> [run_cmd])
     crux_http/src/request_builder.rs     RequestBuilder::send           (-> [run_cap])
     crux_http/src/client.rs              Client::send, empty stacks     (-> [client_send0])

   and of the parts of http-types 2.12 they lean on: the status table, ASCII-only header names and
   values, names lower-cased, `append` onto a map keyed by name, `set_body`/`take_body` inventing a
   content type when there is none, `HeaderValues::last`.  Byte strings are [list N].  No proofs here. *)
From Coq Require Import List NArith Bool Ascii String.
Import ListNotations.
Open Scope N_scope.

Definition bytes := list N.

Definition str (s : string) : bytes := map N_of_ascii (list_ascii_of_string s).

Fixpoint bytes_eqb (a b : bytes) : bool :=
  match a, b with
  | [], [] => true
  | x :: a', y :: b' => N.eqb x y && bytes_eqb a' b'
  | _, _ => false
  end.

Fixpoint list_eqb {A} (eqb : A -> A -> bool) (a b : list A) : bool :=
  match a, b with
  | [], [] => true
  | x :: a', y :: b' => eqb x y && list_eqb eqb a' b'
  | _, _ => false
  end.

Definition option_eqb {A} (eqb : A -> A -> bool) (a b : option A) : bool :=
  match a, b with Some x, Some y => eqb x y | None, None => true | _, _ => false end.

(* decimal digits of a number (u16 status codes; 20 digits of fuel cover every u64) *)
Fixpoint dec_aux (fuel : nat) (n : N) (acc : bytes) : bytes :=
  match fuel with
  | O => acc
  | S f => if n <? 10 then (48 + n) :: acc else dec_aux f (n / 10) ((48 + n mod 10) :: acc)
  end.
Definition dec (n : N) : bytes := dec_aux 20 n [].

(* ------------------------------------------------------------------ protocol types *)
Record http_response := { r_status : N; r_headers : list (bytes * bytes); r_body : bytes }.

Inductive http_error :=
| EHttp (code : N) (msg : bytes) (body : option bytes)
| EJson (msg : bytes)
| EUrl (msg : bytes)
| EIo (msg : bytes)
| ETimeout.

Inductive http_result := ROk (r : http_response) | RErr (e : http_error).

(* result of a step that may fail with an error value or panic *)
Inductive hres (A : Type) := HOk (a : A) | HErr (e : http_error) | HPanic.
Arguments HOk {A} a.
Arguments HErr {A} e.
Arguments HPanic {A}.
Definition hbind {A B} (r : hres A) (f : A -> hres B) : hres B :=
  match r with HOk a => f a | HErr e => HErr e | HPanic => HPanic end.

(* ------------------------------------------------------------------ http-types *)
(* TryFrom<u16> for StatusCode: the 59 codes of http-types 2.12 (re-derived from the library by the
   harness on every run and compared with this list) *)
Definition known_status_table : list N :=
  [100; 101; 103; 200; 201; 202; 203; 204; 205; 206; 207; 226; 300; 301; 302; 303; 304; 307; 308;
   400; 401; 402; 403; 404; 405; 406; 407; 408; 409; 410; 411; 412; 413; 414; 415; 416; 417; 418;
   421; 422; 423; 424; 425; 426; 428; 429; 431; 451;
   500; 501; 502; 503; 504; 505; 506; 507; 508; 510; 511].
Definition known_status (s : N) : bool := existsb (N.eqb s) known_status_table.

Definition is_client_error (s : N) : bool := (400 <=? s) && (s <? 500).
Definition is_server_error (s : N) : bool := (500 <=? s) && (s <? 600).

Definition is_ascii (b : bytes) : bool := forallb (fun c => c <? 128) b.
Definition lower_byte (c : N) : N := if (65 <=? c) && (c <=? 90) then c + 32 else c.
Definition lower (b : bytes) : bytes := map lower_byte b.

(* Headers: HashMap<HeaderName, HeaderValues>.  Modelled as an association list without duplicate
   keys; its order is not observable (the harness sorts what it reads, comparisons are map
   comparisons). *)
Definition hmap := list (bytes * list bytes).

Fixpoint hm_get (k : bytes) (m : hmap) : option (list bytes) :=
  match m with
  | [] => None
  | (k', vs) :: m' => if bytes_eqb k k' then Some vs else hm_get k m'
  end.
(* Headers::insert: replaces the values of an existing name *)
Fixpoint hm_insert (k : bytes) (vs : list bytes) (m : hmap) : hmap :=
  match m with
  | [] => [(k, vs)]
  | (k', vs') :: m' => if bytes_eqb k k' then (k', vs) :: m' else (k', vs') :: hm_insert k vs m'
  end.
(* Headers::append: extends the values of an existing name, else inserts *)
Fixpoint hm_append (k : bytes) (v : bytes) (m : hmap) : hmap :=
  match m with
  | [] => [(k, [v])]
  | (k', vs) :: m' => if bytes_eqb k k' then (k', vs ++ [v]) :: m' else (k', vs) :: hm_append k v m'
  end.
Definition hm_remove (k : bytes) (m : hmap) : hmap :=
  filter (fun e => negb (bytes_eqb k (fst e))) m.

Definition CONTENT_TYPE : bytes := str "content-type".
Definition LOCATION : bytes := str "location".
Definition BYTE_STREAM : bytes := str "application/octet-stream".

(* Response::copy_content_type_from_body, run by set_body / replace_body / take_body *)
Definition copy_content_type (m : hmap) : hmap :=
  match hm_get CONTENT_TYPE m with None => hm_insert CONTENT_TYPE [BYTE_STREAM] m | Some _ => m end.

(* crux_http::ResponseAsync (an http_types::Response): what the model tracks of it *)
Record resp_async := { ra_status : N; ra_headers : hmap; ra_body : bytes }.

(* ------------------------------------------------------------------ protocol.rs: from_protocol *)
Definition msg_status (s : N) : bytes := str "unsupported HTTP status code " ++ dec s.
Definition msg_name (n : bytes) : bytes := str "HTTP response header name is not ASCII: " ++ n.
Definition msg_value (n : bytes) : bytes := str "value of HTTP response header " ++ n ++ str " is not ASCII".

Fixpoint add_headers (hs : list (bytes * bytes)) (m : hmap) : hres hmap :=
  match hs with
  | [] => HOk m
  | (n, v) :: tl =>
      if negb (is_ascii n) then HErr (EIo (msg_name n))
      else if negb (is_ascii v) then HErr (EIo (msg_value n))
      else add_headers tl (hm_append (lower n) v m)
  end.

Definition from_protocol (r : http_response) : hres resp_async :=
  if negb (known_status (r_status r)) then HErr (EIo (msg_status (r_status r)))
  else
    hbind (add_headers (r_headers r) []) (fun m =>
      let has_content_type := match hm_get CONTENT_TYPE m with Some _ => true | None => false end in
      let m1 := copy_content_type m in                                  (* res.set_body(body) *)
      let m2 := if has_content_type then m1 else hm_remove CONTENT_TYPE m1 in
      HOk {| ra_status := r_status r; ra_headers := m2; ra_body := r_body r |}).

(* ------------------------------------------------------------------ response.rs *)
Inductive body_out := BBytes (b : bytes) | BString (b : bytes) | BJson (b : bytes).
(* crux_http::Response<Body>; version: None, or Some _ (never produced on this path) *)
Record response := { rs_status : N; rs_version : option N; rs_headers : hmap; rs_body : option body_out }.

(* ResponseAsync::body_bytes = http_types take_body: the body comes out, the response left behind
   gains a content type if it had none *)
Definition take_body (ra : resp_async) : bytes * resp_async :=
  (ra_body ra, {| ra_status := ra_status ra; ra_headers := copy_content_type (ra_headers ra); ra_body := [] |}).

(* Response::new *)
Definition response_new (ra : resp_async) : hres response :=
  let headers := ra_headers ra in                 (* cloned before the body is taken *)
  let '(body, ra') := take_body ra in
  let status := ra_status ra' in
  if is_client_error status || is_server_error status
  then HErr (EHttp status (dec status) (Some body))
  else HOk {| rs_status := status; rs_version := None; rs_headers := headers; rs_body := Some (BBytes body) |}.

Inductive expectation := XBytes | XString | XJson.

Section Oracles.
  (* http-types' Mime parser followed by param("charset"), applied to a content-type value *)
  Variable mime_charset : bytes -> option bytes.
  (* encoding_rs (Encoding::for_label on the label or "utf-8", decode with BOM sniffing):
     inl text, or inr (the name reported for the failure) *)
  Variable decode : option bytes -> bytes -> bytes + bytes.
  (* serde_json::from_slice into the expected type: inl (canonical form of the value) or inr message *)
  Variable json : bytes -> bytes + bytes.

  (* HeaderValues::last: expect() on an empty list *)
  Definition hv_last (vs : list bytes) : hres bytes :=
    match rev vs with [] => HPanic | v :: _ => HOk v end.

  (* Response::content_type + the charset lookup of body_string *)
  Definition claimed_encoding (h : hmap) : hres (option bytes) :=
    match hm_get CONTENT_TYPE h with
    | None => HOk None
    | Some vs => hbind (hv_last vs) (fun v => HOk (mime_charset v))
    end.

  Definition msg_no_body : bytes := str "Body had no bytes".
  Definition msg_decode (name : bytes) : bytes := str "could not decode body as " ++ name.

  (* Response::<Vec<u8>>::body_bytes: takes the Option *)
  Definition body_bytes (r : response) : hres (bytes * response) :=
    match rs_body r with
    | Some (BBytes b) => HOk (b, {| rs_status := rs_status r; rs_version := rs_version r; rs_headers := rs_headers r; rs_body := None |})
    | _ => HErr (EHttp (rs_status r) msg_no_body None)
    end.
  Definition with_body (r : response) (b : body_out) : response :=
    {| rs_status := rs_status r; rs_version := rs_version r; rs_headers := rs_headers r; rs_body := Some b |}.

  (* ExpectString::decode = body_string then with_body; a decoding failure is an http_types::Error
     built from an io::Error, whose status is 500 *)
  Definition expect_string (r : response) : hres response :=
    hbind (body_bytes r) (fun '(b, r') =>
      hbind (claimed_encoding (rs_headers r')) (fun enc =>
        match decode enc b with
        | inl text => HOk (with_body r' (BString text))
        | inr name => HErr (EHttp 500 (msg_decode name) None)
        end)).
  Definition expect_json (r : response) : hres response :=
    hbind (body_bytes r) (fun '(b, r') =>
      match json b with
      | inl v => HOk (with_body r' (BJson v))
      | inr m => HErr (EJson m)
      end).
  Definition decode_exp (x : expectation) (r : response) : hres response :=
    match x with XBytes => HOk r | XString => expect_string r | XJson => expect_json r end.

  (* ---------------------------------------------------------------- the two APIs *)
  (* what the app observes: the events it received and whether the core panicked *)
  Record trace := { t_events : list (hres response); t_panicked : bool }.
  Definition emit (o : hres response) : trace :=
    match o with
    | HPanic => {| t_events := []; t_panicked := true |}
    | _ => {| t_events := [o]; t_panicked := false |}
    end.

  (* client.rs Client::send with an empty client stack and no request middleware: the endpoint
     (the general case, with middleware, is HttpResp/Mw.v) *)
  Definition client_send0 (r : http_result) : hres resp_async :=
    match r with ROk resp => from_protocol resp | RErr e => HErr e end.

  (* command.rs RequestBuilder::build (since d7f6296: through a Client whose effect sender is the
     command's context) + then_send: one event from the future's output *)
  Definition finish_cmd (x : expectation) (r : http_result) : hres response :=
    hbind (client_send0 r) (fun ra => hbind (response_new ra) (decode_exp x)).
  Definition run_cmd (x : expectation) (r : http_result) : trace := emit (finish_cmd x r).

  (* request_builder.rs RequestBuilder::send: one update_app on either branch *)
  Definition run_cap (x : expectation) (r : http_result) : trace :=
    match client_send0 r with
    | HErr e => emit (HErr e)
    | HPanic => emit HPanic
    | HOk ra => emit (hbind (response_new ra) (decode_exp x))
    end.

  Inductive api := ACmd | ACap.
  Definition run (a : api) (x : expectation) (r : http_result) : trace :=
    match a with ACmd => run_cmd x r | ACap => run_cap x r end.

End Oracles.

(* ------------------------------------------------------------------ what C15 demands (no reference to the code) *)
(* values the shell sent under a (case-insensitive) name, in order *)
Definition shell_values (name : bytes) (hs : list (bytes * bytes)) : list bytes :=
  map snd (filter (fun h => bytes_eqb (lower (fst h)) (lower name)) hs).

Fixpoint keys_nodup (ks : list bytes) : bool :=
  match ks with [] => true | k :: tl => negb (existsb (bytes_eqb k) tl) && keys_nodup tl end.

(* "carrying the same headers": every name the shell sent is present (names are case-insensitive in
   HTTP and are reported lower-cased) with exactly the shell's values for that name in the shell's
   order; no other name is present; no name is listed twice *)
Definition headers_same_b (hs : list (bytes * bytes)) (m : hmap) : bool :=
  forallb (fun h => match hm_get (lower (fst h)) m with
                    | Some vs => list_eqb bytes_eqb vs (shell_values (fst h) hs)
                    | None => false end) hs
  && forallb (fun e => match shell_values (fst e) hs with
                       | [] => false
                       | vs => list_eqb bytes_eqb vs (snd e) end) m
  && keys_nodup (map fst m).

(* the content-type value a conforming decoder looks at: the last one the shell sent *)
Definition shell_content_type (hs : list (bytes * bytes)) : option bytes :=
  match rev (shell_values CONTENT_TYPE hs) with [] => None | v :: _ => Some v end.

Definition is_err {A} (o : hres A) : bool := match o with HErr _ => true | _ => false end.

Section Spec.
  Variable mime_charset : bytes -> option bytes.
  Variable decode : option bytes -> bytes -> bytes + bytes.
  Variable json : bytes -> bytes + bytes.

  (* the body a success must carry under expectation x, or None when the conforming decoder
     rejects the body (then the outcome must be an error value) *)
  Definition expected_body (x : expectation) (resp : http_response) : option body_out :=
    match x with
    | XBytes => Some (BBytes (r_body resp))
    | XString =>
        let enc := match shell_content_type (r_headers resp) with Some v => mime_charset v | None => None end in
        match decode enc (r_body resp) with inl t => Some (BString t) | inr _ => None end
    | XJson => match json (r_body resp) with inl v => Some (BJson v) | inr _ => None end
    end.

  Definition body_out_eqb (a b : body_out) : bool :=
    match a, b with
    | BBytes x, BBytes y | BString x, BString y | BJson x, BJson y => bytes_eqb x y
    | _, _ => false
    end.

  Definition http_error_eqb (a b : http_error) : bool :=
    match a, b with
    | EHttp c m b, EHttp c' m' b' => N.eqb c c' && bytes_eqb m m' && option_eqb bytes_eqb b b'
    | EJson m, EJson m' | EUrl m, EUrl m' | EIo m, EIo m' => bytes_eqb m m'
    | ETimeout, ETimeout => true
    | _, _ => false
    end.

  (* a success that carries the shell's status, headers and (decoded) body *)
  Definition faithful_success (x : expectation) (resp : http_response) (o : response) : bool :=
    N.eqb (rs_status o) (r_status resp)
    && headers_same_b (r_headers resp) (rs_headers o)
    && match expected_body x resp, rs_body o with
       | Some b, Some b' => body_out_eqb b b'
       | _, _ => false
       end.

  (* The decidable trace predicate.  Exactly one event and no panic, and that event is:
     - shell error e                  => Err e, unchanged;
     - status 400..599                => Err Http{code = status, body = Some body};
     - status 100..399                => a faithful success, or - only when the conforming decoder
                                         rejects the body under the expectation - an error value;
     - status outside 100..599        => (the statement assigns no class) an error value or a
                                         faithful success: no panic, nothing silently altered. *)
  Definition C15_ok (x : expectation) (r : http_result) (t : trace) : bool :=
    negb (t_panicked t) &&
    match t_events t with
    | [o] =>
        match r with
        | RErr e => match o with HErr e' => http_error_eqb e e' | _ => false end
        | ROk resp =>
            let s := r_status resp in
            if (400 <=? s) && (s <? 600) then
              match o with
              | HErr (EHttp c _ (Some b)) => N.eqb c s && bytes_eqb b (r_body resp)
              | _ => false
              end
            else if (100 <=? s) && (s <? 400) then
              match o with
              | HOk o' => faithful_success x resp o'
              | HErr _ => match expected_body x resp with None => true | Some _ => false end
              | HPanic => false
              end
            else
              match o with
              | HOk o' => faithful_success x resp o'
              | HErr _ => true
              | HPanic => false
              end
        end
    | _ => false
    end.

  (* Known finding classes (KNOWN_FINDINGS.txt).  Both are limits of the http-types data model the
     response is converted into: a status outside its table cannot be stored in Response/HttpError,
     a non-ASCII header cannot be stored in Headers.  Since the fix: commits the outcome in these
     classes is an error value (HttpError::Io) instead of a panic. *)
  Definition known_unknown_status (r : http_result) : bool :=
    match r with
    | ROk resp => (100 <=? r_status resp) && (r_status resp <? 600) && negb (known_status (r_status resp))
    | RErr _ => false
    end.
  Definition all_ascii (hs : list (bytes * bytes)) : bool :=
    forallb (fun h => is_ascii (fst h) && is_ascii (snd h)) hs.
  Definition known_non_ascii_header (r : http_result) : bool :=
    match r with
    | ROk resp => negb (all_ascii (r_headers resp))
    | RErr _ => false
    end.

  (* ---- comparison of the model's trace with the implementation's *)
  Definition hmap_equiv (a b : hmap) : bool :=
    Nat.eqb (List.length a) (List.length b)
    && forallb (fun e => match hm_get (fst e) b with Some vs => list_eqb bytes_eqb vs (snd e) | None => false end) a
    && keys_nodup (map fst a) && keys_nodup (map fst b).
  Definition response_eqb (a b : response) : bool :=
    N.eqb (rs_status a) (rs_status b)
    && option_eqb N.eqb (rs_version a) (rs_version b)
    && hmap_equiv (rs_headers a) (rs_headers b)
    && option_eqb body_out_eqb (rs_body a) (rs_body b).
  Definition outcome_eqb (a b : hres response) : bool :=
    match a, b with
    | HOk x, HOk y => response_eqb x y
    | HErr x, HErr y => http_error_eqb x y
    | HPanic, HPanic => true
    | _, _ => false
    end.
  Definition trace_eqb (a b : trace) : bool :=
    Bool.eqb (t_panicked a) (t_panicked b) && list_eqb outcome_eqb (t_events a) (t_events b).

  (* what holds of every input, the known classes included: exactly one event, and it is not a panic *)
  Definition one_nonpanic (t : trace) : bool :=
    negb (t_panicked t) && match t_events t with [HPanic] => false | [_] => true | _ => false end.

  (* verdict of one correspondence case (see CONTRIBUTING.md):
     0 agree & ok; 1 model <> implementation (but the predicate that applies holds); 2 C15_ok fails
     outside every known class, or a panic / not exactly one event anywhere; 100 / 101: C15_ok fails
     inside unknown_status / non_ascii_header, with exactly the error value the model predicts *)
  Definition verdict (a : api) (x : expectation) (r : http_result) (impl : trace) : N :=
    let agree := trace_eqb (run mime_charset decode json a x r) impl in
    if C15_ok x r impl then (if agree then 0 else 1)
    else if negb (one_nonpanic impl) then 2
    else if known_non_ascii_header r then (if agree then 101 else 1)
    else if known_unknown_status r then (if agree then 100 else 1)
    else 2.
End Spec.

(* ------------------------------------------------------------------ oracle tables of a generated case *)
(* The harness computes the three oracles with the libraries themselves (http-types Mime, encoding_rs,
   serde_json) for the arguments a case can need and ships them as tables.  [covered] says that the
   arguments the specification looks up are present, otherwise the case is rejected (verdict 9). *)
Fixpoint assoc {A B} (eqb : A -> A -> bool) (k : A) (t : list (A * B)) : option B :=
  match t with [] => None | (k', v) :: t' => if eqb k k' then Some v else assoc eqb k t' end.

Record oracle_tables := {
  ot_mime : list (bytes * option bytes);
  ot_decode : list (option bytes * (bytes + bytes));
  ot_json : bytes + bytes   (* for the body of the case *)
}.
Definition tbl_mime (t : oracle_tables) (v : bytes) : option bytes :=
  match assoc bytes_eqb v (ot_mime t) with Some c => c | None => None end.
Definition tbl_decode (t : oracle_tables) (enc : option bytes) (_ : bytes) : bytes + bytes :=
  match assoc (option_eqb bytes_eqb) enc (ot_decode t) with Some r => r | None => inr [] end.
Definition tbl_json (t : oracle_tables) (_ : bytes) : bytes + bytes := ot_json t.

Definition covered (t : oracle_tables) (r : http_result) : bool :=
  match r with
  | RErr _ => true
  | ROk resp =>
      match shell_content_type (r_headers resp) with
      | None => match assoc (option_eqb bytes_eqb) None (ot_decode t) with Some _ => true | None => false end
      | Some v =>
          match assoc bytes_eqb v (ot_mime t) with
          | None => negb (is_ascii v)    (* no oracle entry is needed for a value the map cannot hold *)
          | Some c => match assoc (option_eqb bytes_eqb) c (ot_decode t) with Some _ => true | None => false end
          end
      end
  end.

Definition case := (api * expectation * http_result * oracle_tables * trace)%type.
Definition case_verdict (c : case) : N :=
  let '(a, x, r, t, impl) := c in
  if covered t r then verdict (tbl_mime t) (tbl_decode t) (tbl_json t) a x r impl else 9.
Definition verdicts (cs : list case) : list N := map case_verdict cs.

(* ------------------------------------------------------------------ concrete syntax of generated case files *)
(* Lossless abbreviations used by engines/httpresp_eng.py when it prints cases (long tuples, record
   syntax and lists of numerals are slow to elaborate): byte strings are written as lists of [Byte.byte] constructors
   (the literal form coqc elaborates fastest). *)
Definition bb (l : list Byte.byte) : bytes := map Byte.to_N l.
Definition T1 (o : hres response) : trace := {| t_events := [o]; t_panicked := false |}.
Definition Tn (l : list (hres response)) (p : bool) : trace := {| t_events := l; t_panicked := p |}.
Definition Rsp (s : N) (h : list (bytes * bytes)) (b : bytes) : http_result :=
  ROk {| r_status := s; r_headers := h; r_body := b |}.
Definition Hd (n v : bytes) : bytes * bytes := (n, v).
Definition Hv (n : bytes) (vs : list bytes) : bytes * list bytes := (n, vs).
Definition OkR (s : N) (v : option N) (h : hmap) (b : option body_out) : hres response :=
  HOk {| rs_status := s; rs_version := v; rs_headers := h; rs_body := b |}.
Definition Tbl (m : list (bytes * option bytes)) (d : list (option bytes * (bytes + bytes))) (j : bytes + bytes) : oracle_tables :=
  {| ot_mime := m; ot_decode := d; ot_json := j |}.
Definition Me (v : bytes) (c : option bytes) : bytes * option bytes := (v, c).
Definition De (l : option bytes) (r : bytes + bytes) : option bytes * (bytes + bytes) := (l, r).
Definition L (b : bytes) : bytes + bytes := inl b.
Definition R (b : bytes) : bytes + bytes := inr b.
Definition Cs (a : api) (x : expectation) (r : http_result) (t : oracle_tables) (impl : trace) : case := (a, x, r, t, impl).

(* The exhaustive status sweep: the i-th observation belongs to status [first + i]; headers, body and
   oracle tables are shared by all of them. *)
Fixpoint sweep_verdicts (a : api) (hs : list (bytes * bytes)) (body : bytes) (t : oracle_tables)
         (status : N) (obs : list trace) : list N :=
  match obs with
  | [] => []
  | o :: tl => case_verdict (a, XBytes, Rsp status hs body, t, o) :: sweep_verdicts a hs body t (status + 1) tl
  end.
