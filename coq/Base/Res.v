(* Outcome type shared by all models: every panic!/unwrap/expect on a modelled path is an
   explicit [Panic]; fuel exhaustion is [OutOfFuel], never a normal-looking value. *)
From Coq Require Import List ZArith.
Import ListNotations.

Inductive res (A : Type) : Type :=
| Ok (a : A)
| Err (e : Z)
| Panic
| OutOfFuel.
Arguments Ok {A} a.
Arguments Err {A} e.
Arguments Panic {A}.
Arguments OutOfFuel {A}.

Definition bind {A B} (r : res A) (f : A -> res B) : res B :=
  match r with Ok a => f a | Err e => Err e | Panic => Panic | OutOfFuel => OutOfFuel end.
Definition rmap {A B} (f : A -> B) (r : res A) : res B := bind r (fun a => Ok (f a)).

Definition is_ok {A} (r : res A) : bool := match r with Ok _ => true | _ => false end.
Definition is_reject {A} (r : res A) : bool := match r with Err _ | Panic => true | _ => false end.

(* Canonical observation of a result whose payload is a list of integers:
   0 :: payload for Ok, [1; e] for Err, [2] for Panic, [3] for OutOfFuel. *)
Definition obs_res (r : res (list Z)) : list Z :=
  match r with Ok l => 0%Z :: l | Err e => [1%Z; e] | Panic => [2%Z] | OutOfFuel => [3%Z] end.

Fixpoint list_Z_eqb (a b : list Z) : bool :=
  match a, b with
  | [], [] => true
  | x :: a', y :: b' => Z.eqb x y && list_Z_eqb a' b'
  | _, _ => false
  end.

Lemma list_Z_eqb_eq a b : list_Z_eqb a b = true <-> a = b.
Proof.
  revert b; induction a as [|x a IH]; intros [|y b]; simpl; split; intros H; try congruence; try reflexivity.
  - apply andb_prop in H as [H1 H2]. apply Z.eqb_eq in H1. apply IH in H2. congruence.
  - inversion H; subst. rewrite Z.eqb_refl. simpl. apply IH. reflexivity.
Qed.
