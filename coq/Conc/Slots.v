(* P1 - the executor slot protocol of crux_core/src/capability/executor.rs
   (`QueuingExecutor::run_all` / `run_task`) together with the effect drain of `Core::process`,
   as a small-step interleaving model (sequentially consistent; one label = one atomic shared
   access; a region under the `tasks` mutex is one step).  Any number of threads and tasks.

     run_all:  did := false                                       QEnter t
       spawn loop: spawn_queue.try_recv() = Ok                    QSpawnPop t
                   [lock; insert(Some(task)) = k; unlock]         QInsert t k
                   run_task(k)                                    (below; result ignored)
                   spawn_queue.try_recv() = Empty                 QSpawnEmpty t
       ready loop: ready_queue.try_recv() = Ok k                  QReadyPop t k
                   run_task(k) = Unavailable: ready_sender.send   QRequeue t k
                   ready_queue.try_recv() = Empty                 QReadyEmpty t did
                       did = true: again, did = false: return
     run_task(k): [lock; slot missing]                            QMissing t k
                  [lock; slot is None]                            QUnavail t k
                  [lock; take; unlock]                            QTaken t k
                  poll, unlocked: TaskWaker::wake (any thread)    Wake t k'
                                  an effect is sent               PEmit t e
                                  Spawner::spawn                  PSpawn t
                  [lock; put the future back]                     QPutBack t k
                  [lock; remove the slot]                         QRemove t k
     outside run_all (thread state Out): request.resolve(..) wakes a task   Wake t k
                  process_event / the event loop of process() spawn a command: XSpawn t
     process(), after run_all: requests.drain(): one pop          QDrainOne t e
                               channel empty: return              QDrainEnd t

   Ghost state: [pend k] = a wake for slot k has been sent and no poll of k has started since;
   [emitted] = every effect ever sent, in order; [rets] = (thread, effect) returned so far. *)
From Coq Require Import List Arith Bool Lia.
Import ListNotations.

Inductive slot := SAbsent | SPresent | STaken.

Inductive tpc :=
| Out (dirty : bool)                 (* not inside run_all; dirty: has queued work since *)
| SpawnLoop (did : bool)
| Inserting (did : bool)
| RunNew (k : nat)
| ReadyLoop (did : bool)
| RunReady (did : bool) (k : nat)
| Requeue (did : bool) (k : nat)
| Polling (from_spawn : bool) (k : nat)
| Post.                              (* run_all returned, in Core::process *)

Definition upd {A} (f : nat -> A) (t : nat) (x : A) : nat -> A :=
  fun t' => if Nat.eqb t' t then x else f t'.

Record st := mk {
  slots : nat -> slot;
  ready : list nat;
  spawnq : nat;
  effs : list nat;
  pcs : nat -> tpc;
  pend : nat -> bool;
  emitted : list nat;
  rets : list (nat * nat)
}.

Definition init : st :=
  mk (fun _ => SAbsent) [] 0 [] (fun _ => Out false) (fun _ => false) [] [].

Inductive label :=
| QEnter (t : nat) | QSpawnPop (t : nat) | QInsert (t k : nat) | QSpawnEmpty (t : nat)
| QReadyPop (t k : nat) | QTaken (t k : nat) | QMissing (t k : nat) | QUnavail (t k : nat)
| QRequeue (t k : nat) | QPutBack (t k : nat) | QRemove (t k : nat) | QReadyEmpty (t : nat) (did : bool)
| Wake (t k : nat) | PEmit (t e : nat) | PSpawn (t : nat) | XSpawn (t : nat)
| QDrainOne (t e : nat) | QDrainEnd (t : nat).

Definition set_pc (s : st) (t : nat) (p : tpc) : st :=
  mk (slots s) (ready s) (spawnq s) (effs s) (upd (pcs s) t p) (pend s) (emitted s) (rets s).

Definition slot_eqb (a b : slot) : bool :=
  match a, b with SAbsent, SAbsent | SPresent, SPresent | STaken, STaken => true | _, _ => false end.

Definition mem (x : nat) (l : list nat) : bool := existsb (Nat.eqb x) l.

Definition step (l : label) (s : st) : option st :=
  match l with
  | QEnter t =>
      match pcs s t with Out _ => Some (set_pc s t (SpawnLoop false)) | _ => None end
  | QSpawnPop t =>
      match pcs s t, spawnq s with
      | SpawnLoop d, S n => Some (mk (slots s) (ready s) n (effs s) (upd (pcs s) t (Inserting d)) (pend s) (emitted s) (rets s))
      | _, _ => None
      end
  | QInsert t k =>
      match pcs s t, slots s k with
      | Inserting _, SAbsent => Some (mk (upd (slots s) k SPresent) (ready s) (spawnq s) (effs s) (upd (pcs s) t (RunNew k)) (pend s) (emitted s) (rets s))
      | _, _ => None
      end
  | QSpawnEmpty t =>
      match pcs s t, spawnq s with
      | SpawnLoop d, 0 => Some (set_pc s t (ReadyLoop d))
      | _, _ => None
      end
  | QReadyPop t k =>
      match pcs s t, ready s with
      | ReadyLoop d, k' :: rest =>
          if Nat.eqb k k'
          then Some (mk (slots s) rest (spawnq s) (effs s) (upd (pcs s) t (RunReady d k)) (pend s) (emitted s) (rets s))
          else None
      | _, _ => None
      end
  | QTaken t k =>
      match slots s k with
      | SPresent =>
          match pcs s t with
          | RunNew k' => if Nat.eqb k k'
                         then Some (mk (upd (slots s) k STaken) (ready s) (spawnq s) (effs s) (upd (pcs s) t (Polling true k)) (upd (pend s) k false) (emitted s) (rets s))
                         else None
          | RunReady _ k' => if Nat.eqb k k'
                         then Some (mk (upd (slots s) k STaken) (ready s) (spawnq s) (effs s) (upd (pcs s) t (Polling false k)) (upd (pend s) k false) (emitted s) (rets s))
                         else None
          | _ => None
          end
      | _ => None
      end
  | QMissing t k =>
      match slots s k with
      | SAbsent =>
          match pcs s t with
          | RunNew k' => if Nat.eqb k k'
                         then Some (mk (slots s) (ready s) (spawnq s) (effs s) (upd (pcs s) t (SpawnLoop true)) (upd (pend s) k false) (emitted s) (rets s))
                         else None
          | RunReady d k' => if Nat.eqb k k'
                         then Some (mk (slots s) (ready s) (spawnq s) (effs s) (upd (pcs s) t (ReadyLoop d)) (upd (pend s) k false) (emitted s) (rets s))
                         else None
          | _ => None
          end
      | _ => None
      end
  | QUnavail t k =>
      match slots s k with
      | STaken =>
          match pcs s t with
          | RunNew k' => if Nat.eqb k k' then Some (set_pc s t (SpawnLoop true)) else None
          | RunReady d k' => if Nat.eqb k k' then Some (set_pc s t (Requeue d k)) else None
          | _ => None
          end
      | _ => None
      end
  | QRequeue t k =>
      match pcs s t with
      | Requeue d k' => if Nat.eqb k k'
                        then Some (mk (slots s) (ready s ++ [k]) (spawnq s) (effs s) (upd (pcs s) t (ReadyLoop d)) (pend s) (emitted s) (rets s))
                        else None
      | _ => None
      end
  | QPutBack t k =>
      match pcs s t with
      | Polling fs k' => if Nat.eqb k k'
                         then Some (mk (upd (slots s) k SPresent) (ready s) (spawnq s) (effs s)
                                       (upd (pcs s) t (if fs then SpawnLoop true else ReadyLoop true)) (pend s) (emitted s) (rets s))
                         else None
      | _ => None
      end
  | QRemove t k =>
      match pcs s t with
      | Polling fs k' => if Nat.eqb k k'
                         then Some (mk (upd (slots s) k SAbsent) (ready s) (spawnq s) (effs s)
                                       (upd (pcs s) t (if fs then SpawnLoop true else ReadyLoop true)) (pend s) (emitted s) (rets s))
                         else None
      | _ => None
      end
  | QReadyEmpty t did =>
      match pcs s t, ready s with
      | ReadyLoop d, [] => if Bool.eqb d did
                           then Some (set_pc s t (if did then SpawnLoop false else Post))
                           else None
      | _, _ => None
      end
  | Wake t k =>
      match pcs s t with
      | Post => None
      | p => Some (mk (slots s) (ready s ++ [k]) (spawnq s) (effs s)
                      (upd (pcs s) t (match p with Out _ => Out true | _ => p end))
                      (upd (pend s) k true) (emitted s) (rets s))
      end
  | PEmit t e =>
      match pcs s t with
      | Polling _ _ => if mem e (emitted s) then None
                       else Some (mk (slots s) (ready s) (spawnq s) (effs s ++ [e]) (pcs s) (pend s) (emitted s ++ [e]) (rets s))
      | _ => None
      end
  | PSpawn t =>
      match pcs s t with
      | Polling _ _ => Some (mk (slots s) (ready s) (S (spawnq s)) (effs s) (pcs s) (pend s) (emitted s) (rets s))
      | _ => None
      end
  | XSpawn t =>
      match pcs s t with
      | Out _ | Post => Some (mk (slots s) (ready s) (S (spawnq s)) (effs s) (upd (pcs s) t (Out true)) (pend s) (emitted s) (rets s))
      | _ => None
      end
  | QDrainOne t e =>
      match pcs s t, effs s with
      | Post, e' :: rest => if Nat.eqb e e'
                            then Some (mk (slots s) (ready s) (spawnq s) rest (pcs s) (pend s) (emitted s) (rets s ++ [(t, e)]))
                            else None
      | _, _ => None
      end
  | QDrainEnd t =>
      match pcs s t, effs s with
      | Post, [] => Some (set_pc s t (Out false))
      | _, _ => None
      end
  end.

Fixpoint run (ls : list label) (s : st) : option st :=
  match ls with
  | [] => Some s
  | l :: ls' => match step l s with Some s' => run ls' s' | None => None end
  end.

Definition reachable (s : st) : Prop := exists ls, run ls init = Some s.

(* thread t holds the id k it has taken off the ready queue *)
Definition holds (p : tpc) (k : nat) : Prop :=
  match p with RunReady _ k' | Requeue _ k' => k' = k | _ => False end.

(* every call has returned *)
Definition all_returned (s : st) : Prop := forall t, pcs s t = Out false.

(* ---- decidable outcome predicate on what the implementation returned ----
   every expected effect identity is returned exactly once (over all calls), nothing else is *)
Fixpoint count_occ_nat (l : list nat) (x : nat) : nat :=
  match l with [] => 0 | y :: r => (if Nat.eqb y x then 1 else 0) + count_occ_nat r x end.

Definition C08_effects_ok (expected returned : list nat) : bool :=
  forallb (fun e => Nat.eqb (count_occ_nat returned e) 1) expected &&
  forallb (fun e => mem e expected) returned.

Definition C08_queues_ok (spawn_len ready_len events_len effects_len : nat) : bool :=
  Nat.eqb spawn_len 0 && Nat.eqb ready_len 0 && Nat.eqb events_len 0 && Nat.eqb effects_len 0.
