(* Verdict functions used by the correspondence check of C08 (engines/conc_eng.py): every case
   carries the label sequence the harness observed on the real code and the implementation's own
   observations; the model is run on the same labels (vm_compute) and compared.
   verdict 0: model = implementation and the outcome predicate holds of the implementation;
           1: they differ (or the model cannot follow the labels) but the predicate holds;
           2: the outcome predicate fails on the implementation's observation. *)
From Coq Require Import List Arith Bool NArith.
From Crux Require Import Conc.Waker.
Import ListNotations.

Fixpoint nat_list_eqb (a b : list nat) : bool :=
  match a, b with
  | [], [] => true
  | x :: a', y :: b' => Nat.eqb x y && nat_list_eqb a' b'
  | _, _ => false
  end.

Definition maxN (a b : N) : N := if N.ltb a b then b else a.

(* ---------- P2 ---------- *)
(* one generation: order observed, labels, decision code (0 Suspended 1 Completed 2 Cancelled
   3 none), loaded woken (0/1, 2 = not observed), loaded count (99 = not observed), ids sent *)
Definition p2slice := (order * list label * (nat * nat * nat * nat))%type.

Definition order_is_count_first (o : order) : bool := match o with CountFirst => true | _ => false end.

Definition p2_slice_verdict (c : p2slice) : N :=
  let '(o, ls, (dec, w, cnt, sent)) := c in
  let agree :=
    order_is_count_first o &&
    match run CountFirst ls init with
    | None => false
    | Some s =>
        Nat.eqb (obs_decision s) dec && Nat.eqb (sends s) sent &&
        match ld_woken s with
        | Some b => Nat.eqb w (if b then 1 else 0)
        | None => Nat.eqb w 2
        end &&
        match ld_count s with
        | Some n => Nat.eqb cnt n
        | None => Nat.eqb cnt 99
        end
    end in
  if C08_evict_ok dec sent then (if agree then 0%N else 1%N) else 2%N.

(* end-to-end observation of one subscription: values whose resolve returned Ok, values the app
   received, spent (dropped / one-shot used), result of the probe resolve after the run
   (1 accepted, 0 rejected, 2 not probed) *)
Definition p2stream := (list nat * list nat * bool * nat)%type.

Definition p2_stream_ok (s : p2stream) : bool :=
  let '(ok, got, spent, probe) := s in
  nat_list_eqb ok got && (spent || Nat.eqb probe 1).

(* nothing lost or duplicated, no live subscription torn down, the task ended exactly once after
   every request was dropped and the command is done *)
Definition C08_e2e_p2 (streams : list p2stream) (ends : nat) (done : bool) : bool :=
  forallb p2_stream_ok streams && Nat.eqb ends 1 && done.

Definition p2case := (list p2slice * list p2stream * nat * bool)%type.

Definition p2_verdict (c : p2case) : N :=
  let '(sl, streams, ends, done) := c in
  let v := fold_left (fun acc x => maxN acc (p2_slice_verdict x)) sl 0%N in
  if C08_e2e_p2 streams ends done then v else 2%N.

Definition p2_verdicts (cs : list p2case) : list N := map p2_verdict cs.
