(* Verdict functions used by the correspondence check of C08 (engines/conc_eng.py): every case
   carries the label sequence the harness observed on the real code and the implementation's own
   observations; the model is run on the same labels (vm_compute) and compared.
   verdict 0: model = implementation and the outcome predicate holds of the implementation;
           1: they differ (or the model cannot follow the labels) but the predicate holds;
           2: the outcome predicate fails on the implementation's observation. *)
From Coq Require Import List Arith Bool NArith.
From Crux Require Conc.Waker Conc.Events Conc.Slots.
Import Conc.Waker.
Import ListNotations.

Definition nat_list_eqb := Events.nat_list_eqb.

Definition maxN (a b : N) : N := if N.ltb a b then b else a.

(* ---------- P2 ---------- *)
(* one generation: order observed, labels, decision code (0 Suspended 1 Completed 2 Cancelled
   3 none), loaded woken (0/1, 2 = not observed), loaded count (99 = not observed), ids sent *)
Definition p2slice := (order * list label * (nat * nat * nat * nat))%type.

Definition order_is_count_first (o : order) : bool := match o with CountFirst => true | _ => false end.

Definition p2_slice_verdict (c : p2slice) : N :=
  let '(o, ls, (dec, w, cnt, sent)) := c in
  let agree :=
    order_is_count_first o &&
    match run CountFirst ls init with
    | None => false
    | Some s =>
        Nat.eqb (obs_decision s) dec && Nat.eqb (sends s) sent &&
        match ld_woken s with
        | Some b => Nat.eqb w (if b then 1 else 0)
        | None => Nat.eqb w 2
        end &&
        match ld_count s with
        | Some n => Nat.eqb cnt n
        | None => Nat.eqb cnt 99
        end
    end in
  if C08_evict_ok dec sent then (if agree then 0%N else 1%N) else 2%N.

(* end-to-end observation of one subscription: values whose resolve returned Ok, values the app
   received, spent (dropped / one-shot used), result of the probe resolve after the run
   (1 accepted, 0 rejected, 2 not probed) *)
Definition p2stream := (list nat * list nat * bool * nat)%type.

Definition p2_stream_ok (s : p2stream) : bool :=
  let '(ok, got, spent, probe) := s in
  nat_list_eqb ok got && (spent || Nat.eqb probe 1).

(* nothing lost or duplicated, no live subscription torn down, the task ended exactly once after
   every request was dropped (unless a dropped one-shot made that impossible) and the command is done *)
Definition C08_e2e_p2 (streams : list p2stream) (ends expect_ends : nat) (done : bool) : bool :=
  forallb p2_stream_ok streams && Nat.eqb ends expect_ends && done.

(* expect_ends: 1, or 0 when a one-shot request was dropped unresolved (its future stays pending
   with no waker for ever, so the task is rightly evicted before its end) *)
Definition p2case := (list p2slice * list p2stream * (nat * nat) * bool)%type.

Definition p2_verdict (c : p2case) : N :=
  let '(sl, streams, (ends, expect_ends), done) := c in
  let v := fold_left (fun acc x => maxN acc (p2_slice_verdict x)) sl 0%N in
  if C08_e2e_p2 streams ends expect_ends done then v else 2%N.

Definition p2_verdicts (cs : list p2case) : list N := map p2_verdict cs.

(* ---------- P3 (Events.v) and P1 (Slots.v): one Core-level run carries both label sequences ---------- *)

(* P3 part: labels, the implementation's final log, the values view() returned (in call order),
   (task, number of events it sent), the codes of the events given to process_event *)
Definition p3part := (list Events.label * list Events.ev * list (list Events.ev) * list (nat * nat) * list nat)%type.

Definition count_direct (l : list Events.ev) (d : nat) : nat :=
  length (filter (fun e => match e with Events.Direct n => Nat.eqb n d | _ => false end) l).

Definition sent_task (sent : list (nat * nat)) (k : nat) : bool := existsb (fun kn => Nat.eqb (fst kn) k) sent.

(* the final log: every task's events exactly once and in the order sent, nothing from an unknown
   task, every process_event argument exactly once; every view a prefix of it *)
Definition C08_e2e_p3 (log : list Events.ev) (views : list (list Events.ev)) (sent : list (nat * nat)) (directs : list nat) : bool :=
  Events.C08_log_ok sent log &&
  forallb (fun e => match e with Events.Emitted k _ => sent_task sent k | Events.Direct d => existsb (Nat.eqb d) directs end) log &&
  forallb (fun d => Nat.eqb (count_direct log d) 1) directs &&
  forallb (Events.C08_view_ok log) views.

Fixpoint ev_lists_eqb (a b : list (list Events.ev)) : bool :=
  match a, b with
  | [], [] => true
  | x :: a', y :: b' => Events.ev_list_eqb x y && ev_lists_eqb a' b'
  | _, _ => false
  end.

Definition p3_verdict (c : p3part) : N :=
  let '(ls, log, views, sent, directs) := c in
  let agree :=
    match Events.run Events.PopUnderLock ls Events.init with
    | None => false
    | Some s => Events.ev_list_eqb (Events.log s) log &&
                ev_lists_eqb (rev (map snd (Events.views s))) views &&
                match Events.chan s with [] => true | _ => false end
    end in
  if C08_e2e_p3 log views sent directs then (if agree then 0%N else 1%N) else 2%N.

(* P1 part: labels, expected effect identities, (thread, effect) returned by the calls,
   queue lengths after the join (spawn, ready, events, effects), effects returned by the no-op
   probe, whether the probe found the core idle and every live stream still accepted a value *)
Definition p1part := (list Slots.label * list nat * list (nat * nat) * (nat * nat * nat * nat) * nat * bool)%type.

Definition C08_e2e_p1 (expected : list nat) (returned : list (nat * nat)) (lens : nat * nat * nat * nat)
  (probe_effects : nat) (probes_ok : bool) : bool :=
  let '(a, b, c, d) := lens in
  Slots.C08_effects_ok expected (map snd returned) && Slots.C08_queues_ok a b c d &&
  Nat.eqb probe_effects 0 && probes_ok.

Definition rets_of (t : nat) (l : list (nat * nat)) : list nat :=
  map snd (filter (fun p => Nat.eqb (fst p) t) l).

Definition p1_verdict (c : p1part) : N :=
  let '(ls, expected, returned, lens, pe, pok) := c in
  let agree :=
    match Slots.run ls Slots.init with
    | None => false
    | Some s =>
        forallb (fun t => nat_list_eqb (rets_of t (Slots.rets s)) (rets_of t returned)) (map fst returned ++ map fst (Slots.rets s)) &&
        forallb (fun t => match Slots.pcs s t with Slots.Out false => true | _ => false end) [0; 1; 2; 3; 99] &&
        match Slots.ready s, Slots.spawnq s, Slots.effs s with [], 0, [] => true | _, _, _ => false end
    end in
  if C08_e2e_p1 expected returned lens pe pok then (if agree then 0%N else 1%N) else 2%N.

Definition ccase := (p3part * p1part)%type.
Definition core_verdict (c : ccase) : N := maxN (p3_verdict (fst c)) (p1_verdict (snd c)).
Definition core_verdicts (cs : list ccase) : list N := map core_verdict cs.

(* ---------- gated and uncontrolled runs: schedule forced from the harness side only ----------
   (app-level gates inside update / view / task futures; no hook of the crux source is a parking
   point, threads may block on the model lock and race for it).  Only the outcome predicates are
   evaluated, plus the conservation invariant of the event channel sampled at the intermediate
   states where every thread is parked, finished or blocked:
   events sent = events applied + events queued  (lengths of Events.C08_event_order) *)
Definition C08_conserved (samples : list (nat * nat * nat)) : bool :=
  forallb (fun x => let '(sent, applied, queued) := x in Nat.eqb sent (applied + queued)) samples.

Definition gcase := (ccase * list (nat * nat * nat))%type.

Definition gate_verdict (c : gcase) : N :=
  let '((p3, p1), samples) := c in
  let '(_, log, views, sent, directs) := p3 in
  let '(_, expected, returned, lens, pe, pok) := p1 in
  if C08_e2e_p3 log views sent directs && C08_e2e_p1 expected returned lens pe pok && C08_conserved samples
  then 0%N else 2%N.
Definition gate_verdicts (cs : list gcase) : list N := map gate_verdict cs.
