(* P2 - the waker / eviction protocol of crux_core/src/command/executor.rs, as a small-step
   interleaving model (sequentially consistent; one label = one atomic shared access).

   One run of the model is one *generation*: the per-poll `Arc<CommandWaker>` that
   `Command::run_task` creates, the clones of it that the polled future leaves behind
   (channel `recv_task` cells, join-handle queues, a parent's AtomicWaker ...), and the threads that
   later wake the task through such a clone.

     runner (the thread inside run_task)          a clone ("holder"), on any thread
     ---------------------------------------      -------------------------------------------
     poll: may clone cx.waker() [RClone],         clone itself                       [HClone]
           may cx.waker().wake_by_ref()           wake()/wake_by_ref():
           [RSelfSend; RSelfStore; RSelfParent]     ready_queue.send(task_id)        [HStart]
     poll returns                 [RPollEnd]        woken.store(true)                [HStore]
     drop(waker)                  [RDropOwn]        parent_waker.wake()              [HParent]
     first load                   [RLoad1]          by value: drop(self) / by ref: - [HFinish]
     second load + decision       [RLoad2]        drop without waking                [HDrop]

   The model is parametric in the ORDER of the two loads: [WokenFirst] is
   `woken.load(); Arc::strong_count()` (the code as it was), [CountFirst] is
   `Arc::strong_count(); woken.load()` (the repaired code).  [count] is the Arc's strong count
   as an explicit field, changed only by clone and drop steps. *)
From Coq Require Import List Arith Bool Lia.
Import ListNotations.

Inductive order := WokenFirst | CountFirst.
Inductive decision := Suspended | Completed | Cancelled.

(* program counter of a clone *)
Inductive hpc :=
| HIdle                      (* alive, not inside a wake call *)
| HSent (byval : bool)       (* inside wake: id sent to the ready queue *)
| HStored (byval : bool)     (* ... and woken stored *)
| HWoke (byval : bool)       (* ... and parent waker woken *)
| HGone.                     (* dropped *)

(* program counter of the runner *)
Inductive rpc :=
| RPoll                      (* inside task.future.poll(cx) *)
| RSelf1 | RSelf2            (* inside cx.waker().wake_by_ref(): after send / after store *)
| RPolled (pending : bool)   (* poll returned *)
| RDropped (pending : bool)  (* drop(waker) done *)
| RLoaded (pending : bool)   (* first load done *)
| RDone (d : decision).

Record st := mk {
  woken : bool;              (* CommandWaker::woken *)
  count : nat;               (* Arc strong count *)
  sends : nat;               (* ghost: ids sent to the ready queue through this generation *)
  pwakes : nat;              (* ghost: parent_waker.wake() calls *)
  own : bool;                (* the runner's `waker` handle has not been dropped yet *)
  r : rpc;
  hs : list hpc;             (* every clone ever made, in creation order *)
  ld_woken : option bool;    (* what the runner's woken.load() returned *)
  ld_count : option nat      (* what the runner's Arc::strong_count() returned *)
}.

(* `let arc_waker = Arc::new(..); let waker = arc_waker.clone().into();` : count 2 *)
Definition init : st := mk false 2 0 0 true RPoll [] None None.

Inductive label :=
| RClone | RSelfSend | RSelfStore | RSelfParent
| RPollEnd (pending : bool) | RDropOwn | RLoad1 | RLoad2
| HClone (h : nat) | HStart (h : nat) (byval : bool) | HStore (h : nat) | HParent (h : nat)
| HFinish (h : nat) | HDrop (h : nat).

Fixpoint upd (l : list hpc) (h : nat) (x : hpc) : list hpc :=
  match l, h with
  | [], _ => []
  | _ :: t, 0 => x :: t
  | a :: t, S h' => a :: upd t h' x
  end.

Definition alive (p : hpc) : bool := match p with HGone => false | _ => true end.

Definition set_h (s : st) (h : nat) (x : hpc) : st :=
  mk (woken s) (count s) (sends s) (pwakes s) (own s) (r s) (upd (hs s) h x) (ld_woken s) (ld_count s).
Definition set_r (s : st) (x : rpc) : st :=
  mk (woken s) (count s) (sends s) (pwakes s) (own s) x (hs s) (ld_woken s) (ld_count s).

(* the decision of run_task from the poll result and the two loaded values *)
Definition decide (pending w : bool) (c : nat) : decision :=
  if pending then (if negb w && (c <? 2) then Cancelled else Suspended) else Completed.

Definition step (o : order) (l : label) (s : st) : option st :=
  match l with
  | RClone =>
      match r s with
      | RPoll => Some (mk (woken s) (S (count s)) (sends s) (pwakes s) (own s) (r s)
                          (hs s ++ [HIdle]) (ld_woken s) (ld_count s))
      | _ => None
      end
  | RSelfSend =>
      match r s with
      | RPoll => Some (mk (woken s) (count s) (S (sends s)) (pwakes s) (own s) RSelf1 (hs s)
                          (ld_woken s) (ld_count s))
      | _ => None
      end
  | RSelfStore =>
      match r s with
      | RSelf1 => Some (mk true (count s) (sends s) (pwakes s) (own s) RSelf2 (hs s)
                           (ld_woken s) (ld_count s))
      | _ => None
      end
  | RSelfParent =>
      match r s with
      | RSelf2 => Some (mk (woken s) (count s) (sends s) (S (pwakes s)) (own s) RPoll (hs s)
                           (ld_woken s) (ld_count s))
      | _ => None
      end
  | RPollEnd p =>
      match r s with
      | RPoll => Some (set_r s (RPolled p))
      | _ => None
      end
  | RDropOwn =>
      match r s with
      | RPolled p => Some (mk (woken s) (pred (count s)) (sends s) (pwakes s) false (RDropped p) (hs s)
                              (ld_woken s) (ld_count s))
      | _ => None
      end
  | RLoad1 =>
      match r s with
      | RDropped p =>
          match o with
          | WokenFirst => Some (mk (woken s) (count s) (sends s) (pwakes s) (own s) (RLoaded p) (hs s)
                                   (Some (woken s)) (ld_count s))
          | CountFirst => Some (mk (woken s) (count s) (sends s) (pwakes s) (own s) (RLoaded p) (hs s)
                                   (ld_woken s) (Some (count s)))
          end
      | _ => None
      end
  | RLoad2 =>
      match r s with
      | RLoaded p =>
          match o, ld_woken s, ld_count s with
          | WokenFirst, Some w, _ =>
              Some (mk (woken s) (count s) (sends s) (pwakes s) (own s) (RDone (decide p w (count s))) (hs s)
                       (Some w) (Some (count s)))
          | CountFirst, _, Some c =>
              Some (mk (woken s) (count s) (sends s) (pwakes s) (own s) (RDone (decide p (woken s) c)) (hs s)
                       (Some (woken s)) (Some c))
          | _, _, _ => None
          end
      | _ => None
      end
  | HClone h =>
      match nth_error (hs s) h with
      | Some p => if alive p
                  then Some (mk (woken s) (S (count s)) (sends s) (pwakes s) (own s) (r s)
                                (hs s ++ [HIdle]) (ld_woken s) (ld_count s))
                  else None
      | None => None
      end
  | HStart h bv =>
      match nth_error (hs s) h with
      | Some HIdle => Some (mk (woken s) (count s) (S (sends s)) (pwakes s) (own s) (r s)
                               (upd (hs s) h (HSent bv)) (ld_woken s) (ld_count s))
      | _ => None
      end
  | HStore h =>
      match nth_error (hs s) h with
      | Some (HSent bv) => Some (mk true (count s) (sends s) (pwakes s) (own s) (r s)
                                    (upd (hs s) h (HStored bv)) (ld_woken s) (ld_count s))
      | _ => None
      end
  | HParent h =>
      match nth_error (hs s) h with
      | Some (HStored bv) => Some (mk (woken s) (count s) (sends s) (S (pwakes s)) (own s) (r s)
                                      (upd (hs s) h (HWoke bv)) (ld_woken s) (ld_count s))
      | _ => None
      end
  | HFinish h =>
      match nth_error (hs s) h with
      | Some (HWoke true) => Some (mk (woken s) (pred (count s)) (sends s) (pwakes s) (own s) (r s)
                                      (upd (hs s) h HGone) (ld_woken s) (ld_count s))
      | Some (HWoke false) => Some (set_h s h HIdle)
      | _ => None
      end
  | HDrop h =>
      match nth_error (hs s) h with
      | Some HIdle => Some (mk (woken s) (pred (count s)) (sends s) (pwakes s) (own s) (r s)
                               (upd (hs s) h HGone) (ld_woken s) (ld_count s))
      | _ => None
      end
  end.

Fixpoint run (o : order) (ls : list label) (s : st) : option st :=
  match ls with
  | [] => Some s
  | l :: ls' => match step o l s with Some s' => run o ls' s' | None => None end
  end.

Definition reachable (o : order) (s : st) : Prop := exists ls, run o ls init = Some s.

(* number of clones that have not been dropped *)
Definition live (l : list hpc) : nat := length (filter alive l).

(* The property of this protocol: the runner never evicts a task for which a wake-up was sent. *)
Definition lost_wake (s : st) : Prop := r s = RDone Cancelled /\ 0 < sends s.

(* ---- decidable outcome predicate used on implementation traces ----
   an observed generation: the decision the implementation took (0 Suspended, 1 Completed,
   2 Cancelled, 3 none seen) and the number of wake-ups that were sent through it *)
Definition dec_code (d : decision) : nat := match d with Suspended => 0 | Completed => 1 | Cancelled => 2 end.
Definition obs_decision (s : st) : nat := match r s with RDone d => dec_code d | _ => 3 end.
Definition C08_evict_ok (decision_code sent : nat) : bool :=
  negb (Nat.eqb decision_code 2) || Nat.eqb sent 0.
