(* Invariants of the executor slot protocol (P1) over ALL interleavings, any number of threads. *)
From Coq Require Import List Arith Bool Lia.
From Crux Require Import Conc.Slots.
Import ListNotations.

Lemma upd_same {A} (f : nat -> A) t x : upd f t x t = x.
Proof. unfold upd. rewrite Nat.eqb_refl. reflexivity. Qed.

Lemma upd_other {A} (f : nat -> A) t t' x : t' <> t -> upd f t x t' = f t'.
Proof. intros H. unfold upd. apply Nat.eqb_neq in H. rewrite H. reflexivity. Qed.

Lemma witness_new (P : tpc -> Prop) f t x : P x -> exists t1, P (upd f t x t1).
Proof. intros H. exists t. rewrite upd_same. exact H. Qed.

Lemma witness_keep (P : tpc -> Prop) f t x :
  (exists t1, P (f t1)) -> (P (f t) -> P x) -> exists t1, P (upd f t x t1).
Proof.
  intros [t1 H1] Himp. destruct (Nat.eq_dec t1 t) as [->|Hn].
  - exists t. rewrite upd_same. auto.
  - exists t1. rewrite upd_other by exact Hn. exact H1.
Qed.

Lemma mem_false_not_in x l : mem x l = false -> ~ In x l.
Proof.
  unfold mem. intros H Hin. assert (existsb (Nat.eqb x) l = true).
  { apply existsb_exists. exists x. split; auto. apply Nat.eqb_refl. }
  congruence.
Qed.

(* a thread that still has to look at the ready queue before it can return *)
Definition active (p : tpc) : Prop :=
  match p with Out false | Post => False | _ => True end.

(* a thread that still has to look at the spawn queue before it can return *)
Definition recheck (p : tpc) : Prop :=
  match p with
  | Out true | SpawnLoop _ | Inserting _ | RunNew _ | Polling _ _ => True
  | ReadyLoop d | RunReady d _ | Requeue d _ => d = true
  | Out false | Post => False
  end.

Definition notidle (p : tpc) : Prop := p <> Out false.

Definition is_polling (p : tpc) : Prop := match p with Polling _ _ => True | _ => False end.

Record Inv (s : st) : Prop := {
  i_poll : forall t fs k, pcs s t = Polling fs k ->
           slots s k = STaken /\ forall t' fs', pcs s t' = Polling fs' k -> t' = t;
  i_pend : forall k, pend s k = true -> In k (ready s) \/ exists t, holds (pcs s t) k;
  i_ready : ready s <> [] -> exists t, active (pcs s t);
  i_spawn : 0 < spawnq s -> exists t, recheck (pcs s t);
  i_effs : effs s <> [] -> exists t, notidle (pcs s t);
  i_rets : map snd (rets s) ++ effs s = emitted s;
  i_nodup : NoDup (emitted s)
}.

Lemma inv_init : Inv init.
Proof.
  split; simpl; intros; try discriminate; try congruence; try lia; auto. constructor.
Qed.

(* -- the single-poller part, for the different shapes of step -- *)

Definition PollInv (sl : nat -> slot) (pc : nat -> tpc) : Prop :=
  forall t fs k, pc t = Polling fs k ->
    sl k = STaken /\ forall t' fs', pc t' = Polling fs' k -> t' = t.

Lemma poll_leave sl pc t x : PollInv sl pc -> ~ is_polling x -> PollInv sl (upd pc t x).
Proof.
  intros H Hx t0 fs k Hp.
  destruct (Nat.eq_dec t0 t) as [->|Hn]; [rewrite upd_same in Hp; subst x; simpl in Hx; tauto|].
  rewrite upd_other in Hp by exact Hn. destruct (H t0 fs k Hp) as [Hs Hu]. split; auto.
  intros t' fs' Hp'. destruct (Nat.eq_dec t' t) as [->|Hn']; [rewrite upd_same in Hp'; subst x; simpl in Hx; tauto|].
  rewrite upd_other in Hp' by exact Hn'. eauto.
Qed.

Lemma poll_take sl pc t fs k : PollInv sl pc -> sl k <> STaken -> ~ is_polling (pc t) ->
  PollInv (upd sl k STaken) (upd pc t (Polling fs k)).
Proof.
  intros H Hk Ht t0 fs0 k0 Hp.
  destruct (Nat.eq_dec t0 t) as [->|Hn].
  - rewrite upd_same in Hp. inversion Hp; subst. rewrite upd_same. split; auto.
    intros t' fs' Hp'. destruct (Nat.eq_dec t' t) as [->|Hn']; auto.
    rewrite upd_other in Hp' by exact Hn'. destruct (H t' fs' k0 Hp') as [Hs _]. congruence.
  - rewrite upd_other in Hp by exact Hn. destruct (H t0 fs0 k0 Hp) as [Hs Hu].
    assert (k0 <> k) by congruence. rewrite upd_other by assumption. split; auto.
    intros t' fs' Hp'. destruct (Nat.eq_dec t' t) as [->|Hn'].
    + rewrite upd_same in Hp'. inversion Hp'; subst. congruence.
    + rewrite upd_other in Hp' by exact Hn'. eauto.
Qed.

Lemma poll_release sl pc t fs k x v : PollInv sl pc -> pc t = Polling fs k -> ~ is_polling x ->
  PollInv (upd sl k v) (upd pc t x).
Proof.
  intros H Ht Hx t0 fs0 k0 Hp.
  destruct (Nat.eq_dec t0 t) as [->|Hn]; [rewrite upd_same in Hp; subst x; simpl in Hx; tauto|].
  rewrite upd_other in Hp by exact Hn. destruct (H t0 fs0 k0 Hp) as [Hs Hu].
  assert (k0 <> k). { intros ->. apply Hn. destruct (H t fs k Ht) as [_ Hu']. symmetry. eauto. }
  rewrite upd_other by assumption. split; auto.
  intros t' fs' Hp'. destruct (Nat.eq_dec t' t) as [->|Hn']; [rewrite upd_same in Hp'; subst x; simpl in Hx; tauto|].
  rewrite upd_other in Hp' by exact Hn'. eauto.
Qed.

Lemma poll_insert sl pc t k x : PollInv sl pc -> sl k <> STaken -> ~ is_polling x ->
  PollInv (upd sl k SPresent) (upd pc t x).
Proof.
  intros H Hk Hx. apply poll_leave; auto.
  intros t0 fs0 k0 Hp. destruct (H t0 fs0 k0 Hp) as [Hs Hu].
  assert (k0 <> k) by congruence. rewrite upd_other by assumption. auto.
Qed.

Lemma upd_self {A} (f : nat -> A) t x : f t = x -> forall t', upd f t x t' = f t'.
Proof.
  intros H t'. destruct (Nat.eq_dec t' t) as [->|Hn]; [rewrite upd_same; auto | apply upd_other; auto].
Qed.

Lemma poll_ext sl pc pc' : (forall t, pc' t = pc t) -> PollInv sl pc -> PollInv sl pc'.
Proof.
  intros He H t fs k Hp. rewrite He in Hp. destruct (H t fs k Hp) as [Hs Hu]. split; auto.
  intros t' fs' Hp'. rewrite He in Hp'. eauto.
Qed.

(* -- the pending-wake part -- *)

Definition PendInv (pd : nat -> bool) (rd : list nat) (pc : nat -> tpc) : Prop :=
  forall k, pd k = true -> In k rd \/ exists t, holds (pc t) k.

(* the moving thread neither held an id before nor after *)
Lemma pend_nohold pd rd pc t x : PendInv pd rd pc ->
  (forall k, ~ holds (pc t) k) -> PendInv pd rd (upd pc t x).
Proof.
  intros H Hno k Hk. destruct (H k Hk) as [Hin|[t1 Ht1]]; auto. right.
  destruct (Nat.eq_dec t1 t) as [->|Hn]; [elim (Hno k Ht1)|].
  exists t1. rewrite upd_other by exact Hn. exact Ht1.
Qed.

(* the moving thread keeps holding what it held *)
Lemma pend_keephold pd rd pc t x : PendInv pd rd pc ->
  (forall k, holds (pc t) k -> holds x k) -> PendInv pd rd (upd pc t x).
Proof.
  intros H Hkeep k Hk. destruct (H k Hk) as [Hin|[t1 Ht1]]; auto. right.
  destruct (Nat.eq_dec t1 t) as [->|Hn].
  - exists t. rewrite upd_same. auto.
  - exists t1. rewrite upd_other by exact Hn. exact Ht1.
Qed.

Ltac inv_some :=
  match goal with
  | H : Some _ = Some _ |- _ => inversion H; subst; clear H
  | H : None = Some _ |- _ => discriminate H
  end.

Ltac nb := match goal with H : Nat.eqb _ _ = true |- _ => apply Nat.eqb_eq in H; symmetry in H; subst end.

Lemma inv_step l s s' : Inv s -> step l s = Some s' -> Inv s'.
Proof.
  intros [Hp Hd Hr Hs He Ht Hn] Hst.
  change (PollInv (slots s) (pcs s)) in Hp. change (PendInv (pend s) (ready s) (pcs s)) in Hd.
  destruct l; simpl in Hst.
  - (* QEnter *)
    destruct (pcs s t) eqn:Ep; try discriminate. inv_some. split; simpl; auto.
    + apply poll_leave; simpl; auto.
    + apply pend_nohold; auto. intros kk. rewrite Ep. simpl. auto.
    + intros _. apply witness_new. simpl. auto.
    + intros _. apply witness_new. simpl. auto.
    + intros _. apply witness_new. unfold notidle. discriminate.
  - (* QSpawnPop *)
    destruct (pcs s t) eqn:Ep; try discriminate. destruct (spawnq s) eqn:Eq; try discriminate. inv_some.
    split; simpl; auto.
    + apply poll_leave; simpl; auto.
    + apply pend_nohold; auto. intros kk. rewrite Ep. simpl. auto.
    + intros _. apply witness_new. simpl. auto.
    + intros _. apply witness_new. simpl. auto.
    + intros _. apply witness_new. unfold notidle. discriminate.
  - (* QInsert *)
    destruct (pcs s t) eqn:Ep; try discriminate. destruct (slots s k) eqn:Ek; try discriminate. inv_some.
    split; simpl; auto.
    + apply poll_insert; simpl; auto. congruence.
    + apply pend_nohold; auto. intros kk. rewrite Ep. simpl. auto.
    + intros _. apply witness_new. simpl. auto.
    + intros _. apply witness_new. simpl. auto.
    + intros _. apply witness_new. unfold notidle. discriminate.
  - (* QSpawnEmpty *)
    destruct (pcs s t) eqn:Ep; try discriminate. destruct (spawnq s) eqn:Eq; try discriminate. inv_some.
    split; simpl; auto.
    + apply poll_leave; simpl; auto.
    + apply pend_nohold; auto. intros kk. rewrite Ep. simpl. auto.
    + intros _. apply witness_new. simpl. auto.
    + lia.
    + intros _. apply witness_new. unfold notidle. discriminate.
  - (* QReadyPop *)
    destruct (pcs s t) eqn:Ep; try discriminate. destruct (ready s) as [|k' rest] eqn:Er; try discriminate.
    destruct (Nat.eqb k k') eqn:Ek; try discriminate. nb. inv_some. split; simpl; auto.
    + apply poll_leave; simpl; auto.
    + intros kk Hkk. destruct (Hd kk Hkk) as [Hin|[t1 Ht1]].
      * simpl in Hin. destruct Hin as [->|Hin]; auto. right. exists t. rewrite upd_same. reflexivity.
      * right. destruct (Nat.eq_dec t1 t) as [->|Hne]; [rewrite Ep in Ht1; elim Ht1|].
        exists t1. rewrite upd_other by exact Hne. exact Ht1.
    + intros _. apply witness_new. simpl. auto.
    + intros Hpos. apply witness_keep; auto. rewrite Ep. simpl. auto.
    + intros _. apply witness_new. unfold notidle. discriminate.
  - (* QTaken *)
    destruct (slots s k) eqn:Ek; try discriminate.
    destruct (pcs s t) eqn:Ep; try discriminate;
    (destruct (Nat.eqb k _) eqn:Ekk; try discriminate; nb; inv_some; split; simpl; auto;
     [ apply poll_take; auto; [congruence | rewrite Ep; simpl; auto]
     | intros kk Hk0; destruct (Nat.eq_dec kk k) as [->|Hne]; [rewrite upd_same in Hk0; discriminate|];
       rewrite upd_other in Hk0 by exact Hne; destruct (Hd kk Hk0) as [Hin|[t1 Ht1]]; auto; right;
       destruct (Nat.eq_dec t1 t) as [->|Hne1];
       [ rewrite Ep in Ht1; simpl in Ht1; try tauto; congruence
       | exists t1; rewrite upd_other by exact Hne1; exact Ht1 ]
     | intros _; apply witness_new; simpl; auto
     | intros _; apply witness_new; simpl; auto
     | intros _; apply witness_new; unfold notidle; discriminate ]).
  - (* QMissing *)
    destruct (slots s k) eqn:Ek; try discriminate.
    destruct (pcs s t) eqn:Ep; try discriminate;
    (destruct (Nat.eqb k _) eqn:Ekk; try discriminate; nb; inv_some; split; simpl; auto;
     [ apply poll_leave; simpl; auto
     | intros kk Hk0; destruct (Nat.eq_dec kk k) as [->|Hne]; [rewrite upd_same in Hk0; discriminate|];
       rewrite upd_other in Hk0 by exact Hne; destruct (Hd kk Hk0) as [Hin|[t1 Ht1]]; auto; right;
       destruct (Nat.eq_dec t1 t) as [->|Hne1];
       [ rewrite Ep in Ht1; simpl in Ht1; try tauto; congruence
       | exists t1; rewrite upd_other by exact Hne1; exact Ht1 ]
     | intros _; apply witness_new; simpl; auto
     | intros Hpos; apply witness_keep; auto; rewrite Ep; simpl; auto
     | intros _; apply witness_new; unfold notidle; discriminate ]).
  - (* QUnavail *)
    destruct (slots s k) eqn:Ek; try discriminate.
    destruct (pcs s t) eqn:Ep; try discriminate;
    (destruct (Nat.eqb k _) eqn:Ekk; try discriminate; nb; inv_some; split; simpl; auto;
     [ apply poll_leave; simpl; auto
     | apply pend_keephold; auto; rewrite Ep; simpl; auto
     | intros _; apply witness_new; simpl; auto
     | intros Hpos; apply witness_keep; auto; rewrite Ep; simpl; auto
     | intros _; apply witness_new; unfold notidle; discriminate ]).
  - (* QRequeue *)
    destruct (pcs s t) eqn:Ep; try discriminate. destruct (Nat.eqb k k0) eqn:Ek; try discriminate. nb. inv_some.
    split; simpl; auto.
    + apply poll_leave; simpl; auto.
    + intros kk Hkk. destruct (Hd kk Hkk) as [Hin|[t1 Ht1]].
      * left. apply in_or_app. auto.
      * destruct (Nat.eq_dec t1 t) as [->|Hne].
        -- rewrite Ep in Ht1. simpl in Ht1. subst. left. apply in_or_app. right. simpl. auto.
        -- right. exists t1. rewrite upd_other by exact Hne. exact Ht1.
    + intros _. apply witness_new. simpl. auto.
    + intros Hpos. apply witness_keep; auto. rewrite Ep. simpl. auto.
    + intros _. apply witness_new. unfold notidle. discriminate.
  - (* QPutBack *)
    destruct (pcs s t) eqn:Ep; try discriminate. destruct (Nat.eqb k k0) eqn:Ek; try discriminate. nb. inv_some.
    split; simpl; auto.
    + eapply poll_release; eauto. destruct from_spawn; simpl; auto.
    + apply pend_nohold; auto. intros kk. rewrite Ep. simpl. auto.
    + intros _. apply witness_new. destruct from_spawn; simpl; auto.
    + intros _. apply witness_new. destruct from_spawn; simpl; auto.
    + intros _. apply witness_new. unfold notidle. destruct from_spawn; discriminate.
  - (* QRemove *)
    destruct (pcs s t) eqn:Ep; try discriminate. destruct (Nat.eqb k k0) eqn:Ek; try discriminate. nb. inv_some.
    split; simpl; auto.
    + eapply poll_release; eauto. destruct from_spawn; simpl; auto.
    + apply pend_nohold; auto. intros kk. rewrite Ep. simpl. auto.
    + intros _. apply witness_new. destruct from_spawn; simpl; auto.
    + intros _. apply witness_new. destruct from_spawn; simpl; auto.
    + intros _. apply witness_new. unfold notidle. destruct from_spawn; discriminate.
  - (* QReadyEmpty *)
    destruct (pcs s t) eqn:Ep; try discriminate. destruct (ready s) eqn:Er; try discriminate.
    destruct (Bool.eqb did0 did) eqn:Eb; try discriminate. apply Bool.eqb_prop in Eb. subst. inv_some.
    split; simpl; auto.
    + apply poll_leave; auto. destruct did; simpl; auto.
    + rewrite Er. apply pend_nohold; auto. intros kk. rewrite Ep. simpl. auto.
    + rewrite Er. congruence.
    + intros Hpos. destruct did.
      * apply witness_new. simpl. auto.
      * apply witness_keep; auto. rewrite Ep. simpl. discriminate.
    + intros Hne. destruct did.
      * apply witness_new. unfold notidle. discriminate.
      * apply witness_new. unfold notidle. discriminate.
  - (* Wake *)
    destruct (pcs s t) eqn:Ep; try discriminate; inv_some;
    (split; simpl; auto;
     [ first [ apply poll_leave; [assumption | simpl; tauto]
             | apply (poll_ext _ (pcs s)); [intros; apply upd_self; assumption | assumption] ]
     | intros kk Hk0; destruct (Nat.eq_dec kk k) as [->|Hne];
       [ left; apply in_or_app; right; simpl; auto |];
       rewrite upd_other in Hk0 by exact Hne; destruct (Hd kk Hk0) as [Hin|[t1 Ht1]];
       [ left; apply in_or_app; auto |];
       right; destruct (Nat.eq_dec t1 t) as [->|Hne1];
       [ exists t; rewrite upd_same; rewrite Ep in Ht1; simpl in Ht1; simpl; tauto
       | exists t1; rewrite upd_other by exact Hne1; exact Ht1 ]
     | intros _; apply witness_new; simpl; auto
     | intros Hpos; apply witness_keep; auto; rewrite Ep; simpl; auto
     | intros Hne; apply witness_new; unfold notidle; discriminate ]).
  - (* PEmit *)
    destruct (pcs s t) eqn:Ep; try discriminate. destruct (mem e (emitted s)) eqn:Em; try discriminate. inv_some.
    split; simpl; auto.
    + intros _. exists t. rewrite Ep. unfold notidle. discriminate.
    + rewrite app_assoc, Ht. reflexivity.
    + apply NoDup_app_remove_l with (l := []) || idtac.
      apply mem_false_not_in in Em.
      rewrite <- (rev_involutive (emitted s ++ [e])). apply NoDup_rev. rewrite rev_app_distr. simpl.
      constructor; [rewrite <- in_rev; exact Em | apply NoDup_rev; exact Hn].
  - (* PSpawn *)
    destruct (pcs s t) eqn:Ep; try discriminate. inv_some. split; simpl; auto.
    intros _. exists t. rewrite Ep. simpl. auto.
  - (* XSpawn *)
    destruct (pcs s t) eqn:Ep; try discriminate; inv_some;
    (split; simpl; auto;
     [ apply poll_leave; simpl; auto
     | apply pend_nohold; auto; intros kk; rewrite Ep; simpl; auto
     | intros _; apply witness_new; simpl; auto
     | intros _; apply witness_new; simpl; auto
     | intros _; apply witness_new; unfold notidle; discriminate ]).
  - (* QDrainOne *)
    destruct (pcs s t) eqn:Ep; try discriminate. destruct (effs s) as [|e' rest] eqn:Ee; try discriminate.
    destruct (Nat.eqb e e') eqn:Eq; try discriminate. nb. inv_some. split; simpl; auto.
    + intros _. exists t. rewrite Ep. unfold notidle. discriminate.
    + rewrite map_app. simpl. rewrite <- app_assoc. simpl. exact Ht.
  - (* QDrainEnd *)
    destruct (pcs s t) eqn:Ep; try discriminate. destruct (effs s) eqn:Ee; try discriminate. inv_some.
    split; simpl; auto.
    + apply poll_leave; simpl; auto.
    + apply pend_nohold; auto. intros kk. rewrite Ep. simpl. auto.
    + intros Hne. apply witness_keep; auto. rewrite Ep. simpl. auto.
    + intros Hpos. apply witness_keep; auto. rewrite Ep. simpl. auto.
    + rewrite Ee. congruence.
    + rewrite Ee. exact Ht.
Qed.

Lemma inv_run : forall ls s s', Inv s -> run ls s = Some s' -> Inv s'.
Proof.
  induction ls as [|l ls IH]; intros s s' Hi Hr; simpl in Hr.
  - inversion Hr; subst; auto.
  - destruct (step l s) eqn:Es; try discriminate. eapply IH; [|exact Hr]. eapply inv_step; eauto.
Qed.

Lemma inv_reachable s : reachable s -> Inv s.
Proof. intros [ls Hr]. exact (inv_run ls init s inv_init Hr). Qed.

(* a task is polled by at most one thread at a time, and while it is polled its slot is empty *)
Theorem single_poller : forall s, reachable s -> forall t1 t2 fs1 fs2 k,
  pcs s t1 = Polling fs1 k -> pcs s t2 = Polling fs2 k -> t1 = t2.
Proof.
  intros s Hr t1 t2 fs1 fs2 k H1 H2.
  destruct (i_poll s (inv_reachable s Hr) t2 fs2 k H2) as [_ Hu]. eauto.
Qed.

Theorem polled_slot_is_taken : forall s, reachable s -> forall t fs k,
  pcs s t = Polling fs k -> slots s k = STaken.
Proof. intros s Hr t fs k H. apply (i_poll s (inv_reachable s Hr) t fs k H). Qed.

(* a wake-up that has been sent and not yet followed by the start of a poll of that slot (or by
   the discovery that the task is gone) is still in the ready queue or in the hands of a thread
   that is about to run or re-queue it *)
Theorem no_lost_wake : forall s, reachable s -> forall k, pend s k = true ->
  In k (ready s) \/ exists t, holds (pcs s t) k.
Proof. intros s Hr. apply (i_pend s (inv_reachable s Hr)). Qed.

(* when every call has returned: both executor queues and the effect channel are empty and no
   wake-up is outstanding *)
Theorem quiescent_at_join : forall s, reachable s -> all_returned s ->
  ready s = [] /\ spawnq s = 0 /\ effs s = [] /\ forall k, pend s k = false.
Proof.
  intros s Hr Hall. pose proof (inv_reachable s Hr) as [Hp Hd Hrd Hs He Ht Hn].
  assert (Hready : ready s = []).
  { destruct (ready s) eqn:E; auto. destruct Hrd as [t Ha]; [congruence|]. rewrite (Hall t) in Ha. elim Ha. }
  repeat split; auto.
  - destruct (spawnq s) eqn:E; auto. destruct Hs as [t Ha]; [lia|]. rewrite (Hall t) in Ha. elim Ha.
  - destruct (effs s) eqn:E; auto. destruct He as [t Ha]; [congruence|]. rewrite (Hall t) in Ha. elim Ha. reflexivity.
  - intros k. destruct (pend s k) eqn:E; auto. destruct (Hd k E) as [Hin|[t Hh]].
    + rewrite Hready in Hin. elim Hin.
    + rewrite (Hall t) in Hh. elim Hh.
Qed.

(* every effect that was sent is, at any time, either still in the channel or has been returned
   by exactly one drain, in the order sent; identities are never duplicated *)
Theorem effect_once : forall s, reachable s ->
  map snd (rets s) ++ effs s = emitted s /\ NoDup (emitted s).
Proof. intros s Hr. pose proof (inv_reachable s Hr) as [_ _ _ _ _ Ht Hn]. auto. Qed.

Corollary effects_returned_exactly_once : forall s, reachable s -> all_returned s ->
  map snd (rets s) = emitted s /\ NoDup (map snd (rets s)).
Proof.
  intros s Hr Hall. destruct (effect_once s Hr) as [Ht Hn].
  destruct (quiescent_at_join s Hr Hall) as [_ [_ [He _]]]. rewrite He, app_nil_r in Ht.
  rewrite Ht. auto.
Qed.

Lemma count_nodup : forall l e, NoDup l -> In e l -> count_occ_nat l e = 1.
Proof.
  induction l as [|y l IH]; intros e Hn Hin; [elim Hin|]. inversion Hn as [|? ? Hy Hn']; subst. simpl.
  destruct Hin as [->|Hin].
  - rewrite Nat.eqb_refl. assert (count_occ_nat l e = 0); [|lia].
    clear -Hy. induction l as [|z l IH]; simpl; auto.
    destruct (Nat.eqb z e) eqn:E; [apply Nat.eqb_eq in E; subst; elim Hy; simpl; auto|].
    simpl. apply IH. intros H. apply Hy. simpl. auto.
  - destruct (Nat.eqb y e) eqn:E; [apply Nat.eqb_eq in E; subst; contradiction|]. simpl. auto.
Qed.

Lemma mem_in x l : In x l -> mem x l = true.
Proof. intros H. unfold mem. apply existsb_exists. exists x. split; auto. apply Nat.eqb_refl. Qed.

Theorem effects_ok_sound : forall s, reachable s -> all_returned s ->
  C08_effects_ok (emitted s) (map snd (rets s)) = true.
Proof.
  intros s Hr Hall. destruct (effects_returned_exactly_once s Hr Hall) as [He Hn].
  unfold C08_effects_ok. rewrite He. apply andb_true_intro. split; apply forallb_forall; intros e Hin.
  - apply Nat.eqb_eq. apply count_nodup; auto. rewrite <- He. exact Hn.
  - apply mem_in. exact Hin.
Qed.

(* non-vacuity: the contended path is reachable.  Thread 0 spawns a task (slot 0) and polls it; a
   wake-up for slot 0 arrives from thread 1, which enters run_all, finds the slot empty
   (Unavailable) and re-queues; thread 0 puts the task back; thread 1 polls it. *)
Definition contended : list label :=
  [XSpawn 0; QEnter 0; QSpawnPop 0; QInsert 0 0; QTaken 0 0; PEmit 0 7;
   Wake 1 0; QEnter 1; QSpawnEmpty 1; QReadyPop 1 0; QUnavail 1 0; QRequeue 1 0;
   QPutBack 0 0; QReadyPop 1 0; QTaken 1 0].

Example contended_reachable : exists s, run contended init = Some s /\
  pcs s 1 = Polling false 0 /\ pcs s 0 = SpawnLoop true /\ slots s 0 = STaken /\ pend s 0 = false.
Proof. eexists. split; [vm_compute; reflexivity|]. repeat split. Qed.
