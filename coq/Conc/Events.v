(* P3 - event application in crux_core/src/core/mod.rs (`Core::process`), as a small-step
   interleaving model (sequentially consistent; one label = one atomic shared access; a region
   under the model RwLock is one step).

     process_event(e):  [model.write(); update(e); unlock]   Call t (Some n)
     resolve(..):       request.resolve(..)                  Call t None
     process():         executor.run_all()                   Emit t k i ... ; RunEnd t
       code as it was   receive()                            Pop t
       (PopThenLock)    [model.write(); update(ev); unlock]  Apply t ev         -> run_all again
       repaired code    [model.write(); receive(); update(ev); unlock]
       (PopUnderLock)                                        PopApply t ev      -> run_all again
                        receive() = None; drain; return      Ret t
     view():            [model.read(); view]                 View t

   Events are either the argument of a process_event call ([Direct n]) or the [i]-th event sent by
   task [k] ([Emitted k i]); a task is polled by one thread at a time (P1), so it sends its events
   in order: [Emit t k i] is enabled only for [i = nxt k].  Any number of threads and tasks. *)
From Coq Require Import List Arith Bool Lia.
Import ListNotations.

Inductive ev := Direct (n : nat) | Emitted (k i : nat).
Inductive mode := PopThenLock | PopUnderLock.
Inductive tpc := TIdle | TRun | TLoop | THold (e : ev).

Definition ev_eqb (a b : ev) : bool :=
  match a, b with
  | Direct n, Direct m => Nat.eqb n m
  | Emitted k i, Emitted k' i' => Nat.eqb k k' && Nat.eqb i i'
  | _, _ => false
  end.

Definition upd {A} (f : nat -> A) (t : nat) (x : A) : nat -> A :=
  fun t' => if Nat.eqb t' t then x else f t'.

Record st := mk {
  chan : list ev;                 (* capability_events channel (FIFO) *)
  log : list ev;                  (* events passed to update, in order (the app's model) *)
  nxt : nat -> nat;               (* ghost: number of events task k has sent *)
  pcs : nat -> tpc;
  views : list (nat * list ev)    (* ghost: (length of the log, value returned) of every view() *)
}.

Definition init : st := mk [] [] (fun _ => 0) (fun _ => TIdle) [].

Inductive label :=
| Call (t : nat) (d : option nat)
| Emit (t k i : nat)
| RunEnd (t : nat)
| Pop (t : nat)
| Apply (t : nat) (e : ev)
| PopApply (t : nat) (e : ev)
| Ret (t : nat)
| View (t : nat).

Definition is_pop_then_lock (m : mode) : bool := match m with PopThenLock => true | _ => false end.

Definition step (m : mode) (l : label) (s : st) : option st :=
  match l with
  | Call t d =>
      match pcs s t with
      | TIdle => Some (mk (chan s) (log s ++ match d with Some n => [Direct n] | None => [] end)
                          (nxt s) (upd (pcs s) t TRun) (views s))
      | _ => None
      end
  | Emit t k i =>
      match pcs s t with
      | TRun => if Nat.eqb i (nxt s k)
                then Some (mk (chan s ++ [Emitted k i]) (log s) (upd (nxt s) k (S i)) (pcs s) (views s))
                else None
      | _ => None
      end
  | RunEnd t =>
      match pcs s t with
      | TRun => Some (mk (chan s) (log s) (nxt s) (upd (pcs s) t TLoop) (views s))
      | _ => None
      end
  | Pop t =>
      match is_pop_then_lock m, pcs s t, chan s with
      | true, TLoop, e :: rest => Some (mk rest (log s) (nxt s) (upd (pcs s) t (THold e)) (views s))
      | _, _, _ => None
      end
  | Apply t e =>
      match is_pop_then_lock m, pcs s t with
      | true, THold e' => if ev_eqb e e'
                          then Some (mk (chan s) (log s ++ [e']) (nxt s) (upd (pcs s) t TRun) (views s))
                          else None
      | _, _ => None
      end
  | PopApply t e =>
      match is_pop_then_lock m, pcs s t, chan s with
      | false, TLoop, e' :: rest =>
          if ev_eqb e e'
          then Some (mk rest (log s ++ [e']) (nxt s) (upd (pcs s) t TRun) (views s))
          else None
      | _, _, _ => None
      end
  | Ret t =>
      match pcs s t, chan s with
      | TLoop, [] => Some (mk [] (log s) (nxt s) (upd (pcs s) t TIdle) (views s))
      | _, _ => None
      end
  | View t =>
      match pcs s t with
      | TIdle => Some (mk (chan s) (log s) (nxt s) (pcs s) ((length (log s), log s) :: views s))
      | _ => None
      end
  end.

Fixpoint run (m : mode) (ls : list label) (s : st) : option st :=
  match ls with
  | [] => Some s
  | l :: ls' => match step m l s with Some s' => run m ls' s' | None => None end
  end.

Definition reachable (m : mode) (s : st) : Prop := exists ls, run m ls init = Some s.

(* the sequence numbers of task k's events in a list of events, in list order *)
Definition proj (k : nat) (l : list ev) : list nat :=
  flat_map (fun e => match e with Emitted k' i => if Nat.eqb k' k then [i] else [] | Direct _ => [] end) l.

(* ---- decidable outcome predicate, evaluated on the implementation's final log ----
   every task's events appear exactly once and in the order sent: the log restricted to task k is
   0, 1, .., n_k - 1 *)
Fixpoint nat_list_eqb (a b : list nat) : bool :=
  match a, b with
  | [], [] => true
  | x :: a', y :: b' => Nat.eqb x y && nat_list_eqb a' b'
  | _, _ => false
  end.

Definition C08_log_ok (sent : list (nat * nat)) (l : list ev) : bool :=
  forallb (fun kn => nat_list_eqb (proj (fst kn) l) (seq 0 (snd kn))) sent.

Fixpoint ev_list_eqb (a b : list ev) : bool :=
  match a, b with
  | [], [] => true
  | x :: a', y :: b' => ev_eqb x y && ev_list_eqb a' b'
  | _, _ => false
  end.

(* a view is the app's model after a prefix of the final log *)
Definition C08_view_ok (final : list ev) (v : list ev) : bool :=
  ev_list_eqb v (firstn (length v) final).
