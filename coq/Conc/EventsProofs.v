(* Invariants of the event-application protocol (P3) over ALL interleavings. *)
From Coq Require Import List Arith Bool Lia.
From Crux Require Import Conc.Events.
Import ListNotations.

Lemma upd_same {A} (f : nat -> A) t x : upd f t x t = x.
Proof. unfold upd. rewrite Nat.eqb_refl. reflexivity. Qed.

Lemma upd_other {A} (f : nat -> A) t t' x : t' <> t -> upd f t x t' = f t'.
Proof. intros H. unfold upd. apply Nat.eqb_neq in H. rewrite H. reflexivity. Qed.

Lemma proj_app k a b : proj k (a ++ b) = proj k a ++ proj k b.
Proof. unfold proj. apply flat_map_app. Qed.

Lemma ev_eqb_eq a b : ev_eqb a b = true -> a = b.
Proof.
  destruct a, b; simpl; intros H; try discriminate.
  - apply Nat.eqb_eq in H. congruence.
  - apply andb_prop in H as [H1 H2]. apply Nat.eqb_eq in H1, H2. congruence.
Qed.

Ltac inv_some :=
  match goal with
  | H : Some _ = Some _ |- _ => inversion H; subst; clear H
  | H : None = Some _ |- _ => discriminate H
  end.

(* ---------- pop under the lock ---------- *)

Record Inv (s : st) : Prop := {
  i_order : forall k, proj k (log s ++ chan s) = seq 0 (nxt s k);
  i_nohold : forall t e, pcs s t <> THold e;
  i_busy : chan s <> [] -> exists t, pcs s t <> TIdle;
  i_views : forall n v, In (n, v) (views s) -> v = firstn n (log s) /\ n <= length (log s)
}.

Lemma inv_init : Inv init.
Proof.
  split; simpl; intros; try discriminate; try contradiction; auto; congruence.
Qed.

Lemma views_grow (vs : list (nat * list ev)) (l x : list ev) :
  (forall n v, In (n, v) vs -> v = firstn n l /\ n <= length l) ->
  forall n v, In (n, v) vs -> v = firstn n (l ++ x) /\ n <= length (l ++ x).
Proof.
  intros H n v Hin. destruct (H n v Hin) as [Hv Hn]. split.
  - rewrite firstn_app. replace (n - length l) with 0 by lia. simpl. rewrite app_nil_r. exact Hv.
  - rewrite app_length. lia.
Qed.

Lemma busy_upd (s : st) t x : x <> TIdle -> exists t', upd (pcs s) t x t' <> TIdle.
Proof. intros H. exists t. rewrite upd_same. exact H. Qed.

Lemma inv_step l s s' : Inv s -> step PopUnderLock l s = Some s' -> Inv s'.
Proof.
  intros [Ho Hh Hb Hv] Hst. destruct l; simpl in Hst.
  - (* Call *) destruct (pcs s t) eqn:Ep; try discriminate. inv_some. split; simpl.
    + intros k. rewrite <- app_assoc, proj_app, proj_app.
      replace (proj k (match d with Some n => [Direct n] | None => [] end)) with (@nil nat)
        by (destruct d; reflexivity).
      simpl. rewrite <- proj_app. apply Ho.
    + intros t' e. destruct (Nat.eq_dec t' t) as [->|Hn]; [rewrite upd_same; discriminate|].
      rewrite upd_other by exact Hn. apply Hh.
    + intros _. apply busy_upd. discriminate.
    + apply views_grow. exact Hv.
  - (* Emit *) destruct (pcs s t) eqn:Ep; try discriminate.
    destruct (Nat.eqb i (nxt s k)) eqn:Ei; try discriminate. apply Nat.eqb_eq in Ei. inv_some.
    split; simpl; auto.
    + intros k'. rewrite app_assoc, proj_app, Ho.
      destruct (Nat.eq_dec k' k) as [->|Hn].
      * rewrite upd_same, seq_S. unfold proj. cbn [flat_map app]. rewrite Nat.eqb_refl.
        rewrite app_nil_r. reflexivity.
      * rewrite upd_other by exact Hn.
        assert (Hne : Nat.eqb k k' = false) by (apply Nat.eqb_neq; congruence).
        unfold proj. cbn [flat_map app]. rewrite Hne. rewrite app_nil_r. reflexivity.
    + intros _. exists t. rewrite Ep. discriminate.
  - (* RunEnd *) destruct (pcs s t) eqn:Ep; try discriminate. inv_some. split; simpl; auto.
    + intros t' e. destruct (Nat.eq_dec t' t) as [->|Hn]; [rewrite upd_same; discriminate|].
      rewrite upd_other by exact Hn. apply Hh.
    + intros _. apply busy_upd. discriminate.
  - (* Pop: disabled *) discriminate.
  - (* Apply: disabled *) discriminate.
  - (* PopApply *) destruct (pcs s t) eqn:Ep; try discriminate.
    destruct (chan s) as [|e' rest] eqn:Ec; try discriminate.
    destruct (ev_eqb e e') eqn:Ee; try discriminate. inv_some. split; simpl.
    + intros k. rewrite <- app_assoc. simpl. apply Ho.
    + intros t' e0. destruct (Nat.eq_dec t' t) as [->|Hn]; [rewrite upd_same; discriminate|].
      rewrite upd_other by exact Hn. apply Hh.
    + intros _. apply busy_upd. discriminate.
    + apply views_grow. exact Hv.
  - (* Ret *) destruct (pcs s t) eqn:Ep; try discriminate.
    destruct (chan s) eqn:Ec; try discriminate. inv_some. split; simpl.
    + intros k. apply Ho.
    + intros t' e. destruct (Nat.eq_dec t' t) as [->|Hn]; [rewrite upd_same; discriminate|].
      rewrite upd_other by exact Hn. apply Hh.
    + congruence.
    + exact Hv.
  - (* View *) destruct (pcs s t) eqn:Ep; try discriminate. inv_some. split; simpl; auto.
    intros n v [Heq|Hin]; [|apply Hv; exact Hin].
    inversion Heq; subst. split; [rewrite firstn_all; reflexivity | lia].
Qed.

Lemma inv_run : forall ls s s', Inv s -> run PopUnderLock ls s = Some s' -> Inv s'.
Proof.
  induction ls as [|l ls IH]; intros s s' Hi Hr; simpl in Hr.
  - inversion Hr; subst; auto.
  - destruct (step PopUnderLock l s) eqn:Es; try discriminate. eapply IH; [|exact Hr]. eapply inv_step; eauto.
Qed.

Lemma inv_reachable s : reachable PopUnderLock s -> Inv s.
Proof. intros [ls Hr]. exact (inv_run ls init s inv_init Hr). Qed.

(* The log followed by what is still queued is, for every task, exactly the events that task has
   sent, in the order sent: the log is an interleaving of the per-task emission sequences. *)
Theorem event_order : forall s, reachable PopUnderLock s ->
  forall k, proj k (log s ++ chan s) = seq 0 (nxt s k).
Proof. intros s Hr. apply (i_order s (inv_reachable s Hr)). Qed.

(* conservation: what a task has sent is what has been applied plus what is queued; nothing is
   ever held outside the channel and the log (sampled on the implementation's intermediate states
   by the gated runs) *)
Theorem event_conservation : forall s, reachable PopUnderLock s ->
  forall k, length (proj k (log s)) + length (proj k (chan s)) = nxt s k.
Proof.
  intros s Hr k. pose proof (event_order s Hr k) as H.
  apply (f_equal (@length nat)) in H. rewrite proj_app, app_length, seq_length in H. exact H.
Qed.

Theorem quiescent_when_idle : forall s, reachable PopUnderLock s ->
  (forall t, pcs s t = TIdle) -> chan s = [].
Proof.
  intros s Hr Hidle. destruct (chan s) eqn:Ec; auto.
  destruct (i_busy s (inv_reachable s Hr)) as [t Ht]; [congruence|]. elim Ht. apply Hidle.
Qed.

(* when every call has returned: every event any task sent has been applied exactly once, in
   the order that task sent them *)
Theorem events_exactly_once_in_order : forall s, reachable PopUnderLock s ->
  (forall t, pcs s t = TIdle) -> forall k, proj k (log s) = seq 0 (nxt s k).
Proof.
  intros s Hr Hidle k. pose proof (event_order s Hr k) as H.
  rewrite (quiescent_when_idle s Hr Hidle), app_nil_r in H. exact H.
Qed.

(* view() returns the app's model after a prefix of the final log; for any update function the
   value it shows is the fold of update over that prefix *)
Theorem view_consistent : forall s, reachable PopUnderLock s ->
  forall n v, In (n, v) (views s) -> v = firstn n (log s) /\ n <= length (log s).
Proof. intros s Hr. apply (i_views s (inv_reachable s Hr)). Qed.

Section Fold.
  Variable M : Type.
  Variable update : M -> ev -> M.
  Variable m0 : M.
  Theorem view_is_fold_of_prefix : forall s, reachable PopUnderLock s ->
    forall n v, In (n, v) (views s) ->
    fold_left update v m0 = fold_left update (firstn n (log s)) m0.
  Proof. intros s Hr n v Hin. destruct (view_consistent s Hr n v Hin) as [-> _]. reflexivity. Qed.
End Fold.

Theorem log_ok_sound : forall s, reachable PopUnderLock s -> (forall t, pcs s t = TIdle) ->
  forall ks, C08_log_ok (map (fun k => (k, nxt s k)) ks) (log s) = true.
Proof.
  intros s Hr Hidle ks. unfold C08_log_ok. apply forallb_forall. intros [k n] Hin.
  apply in_map_iff in Hin as [k' [Heq _]]. inversion Heq; subst. simpl.
  rewrite (events_exactly_once_in_order s Hr Hidle k).
  generalize (seq 0 (nxt s k)). induction l as [|x l IH]; simpl; auto. rewrite Nat.eqb_refl. exact IH.
Qed.

(* ---------- pop, then lock: the code as it was ---------- *)

(* caller 0: process_event(Start): the task spawned by update sends E(1,0), E(1,1); run_all
   returns; receive() = E(1,0).  caller 1: process_event(Noop); receive() = E(1,1);
   update(E(1,1)).  caller 0: update(E(1,0)).  Both return. *)
Definition witness : list label :=
  [Call 0 (Some 0); Emit 0 1 0; Emit 0 1 1; RunEnd 0; Pop 0;
   Call 1 (Some 1); RunEnd 1; Pop 1; Apply 1 (Emitted 1 1); RunEnd 1; Ret 1;
   Apply 0 (Emitted 1 0); RunEnd 0; Ret 0].

Theorem event_order_refuted : exists s, run PopThenLock witness init = Some s /\
  pcs s 0 = TIdle /\ pcs s 1 = TIdle /\ chan s = [] /\
  log s = [Direct 0; Direct 1; Emitted 1 1; Emitted 1 0] /\
  proj 1 (log s) = [1; 0] /\ proj 1 (log s) <> seq 0 (nxt s 1).
Proof.
  eexists. split; [vm_compute; reflexivity|]. simpl. repeat split; try reflexivity. discriminate.
Qed.

(* the same calls under the repaired code cannot produce that log: the interleaving is not even
   a run (Pop is not a step), and the closest one applies the events in order *)
Definition witness_fixed : list label :=
  [Call 0 (Some 0); Emit 0 1 0; Emit 0 1 1; RunEnd 0;
   Call 1 (Some 1); RunEnd 1; PopApply 1 (Emitted 1 0); RunEnd 1;
   PopApply 0 (Emitted 1 1); RunEnd 0; Ret 0; Ret 1].

Theorem witness_fixed_in_order : exists s, run PopUnderLock witness_fixed init = Some s /\
  log s = [Direct 0; Direct 1; Emitted 1 0; Emitted 1 1].
Proof. eexists. split; [vm_compute; reflexivity|]. reflexivity. Qed.
