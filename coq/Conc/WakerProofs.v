(* Invariants of the waker / eviction protocol (P2) over ALL interleavings, any number of clones. *)
From Coq Require Import List Arith Bool Lia.
From Crux Require Import Conc.Waker.
Import ListNotations.

Definition cntf (f : hpc -> bool) (l : list hpc) : nat := length (filter f l).
Definition is_sent (p : hpc) : bool := match p with HSent _ => true | _ => false end.
Definition b2n (b : bool) : nat := if b then 1 else 0.

Lemma live_cntf l : live l = cntf alive l.
Proof. reflexivity. Qed.

Lemma cntf_upd f : forall l h a x, nth_error l h = Some a ->
  cntf f (upd l h x) + b2n (f a) = cntf f l + b2n (f x).
Proof.
  unfold cntf. induction l as [|y l IH]; intros [|h] a x Hn; simpl in *; try discriminate.
  - inversion Hn; subst. destruct (f a), (f x); simpl; lia.
  - specialize (IH h a x Hn). destruct (f y); simpl; lia.
Qed.

Lemma cntf_snoc f l x : cntf f (l ++ [x]) = cntf f l + b2n (f x).
Proof. unfold cntf. rewrite filter_app, app_length. simpl. destruct (f x); simpl; lia. Qed.

Lemma sent_le_live l : cntf is_sent l <= cntf alive l.
Proof.
  unfold cntf. induction l as [|y l IH]; simpl; [lia|].
  destruct y; simpl; lia.
Qed.

Lemma nth_alive_pos : forall l h p, nth_error l h = Some p -> alive p = true -> 0 < cntf alive l.
Proof.
  unfold cntf. induction l as [|y l IH]; intros [|h] p Hn Ha; simpl in *; try discriminate.
  - inversion Hn; subst. rewrite Ha. simpl. lia.
  - specialize (IH h p Hn Ha). destruct (alive y); simpl; lia.
Qed.

Definition own_pc (x : rpc) : bool :=
  match x with RPoll | RSelf1 | RSelf2 | RPolled _ => true | _ => false end.
Definition self_sent (x : rpc) : nat := match x with RSelf1 => 1 | _ => 0 end.

(* Invariant for either order of the loads:
   - the strong count is 1 (arc_waker) + the runner's handle + the clones not yet dropped;
   - the runner's handle lives exactly until drop(waker);
   - while woken is still false, every id sent through this generation was sent by a wake call
     that has not reached its `woken.store` yet (so its clone is still alive). *)
Record Inv (s : st) : Prop := {
  i_count : count s = 1 + b2n (own s) + cntf alive (hs s);
  i_own : own s = own_pc (r s);
  i_sends : woken s = false -> sends s = cntf is_sent (hs s) + self_sent (r s)
}.

Lemma inv_init : Inv init.
Proof. split; simpl; auto. Qed.

Ltac inv_some :=
  match goal with
  | H : Some _ = Some _ |- _ => inversion H; subst; clear H
  | H : None = Some _ |- _ => discriminate H
  end.

Ltac fin3 Hc Ho Hs :=
  split; simpl; rewrite ?cntf_snoc; simpl;
  [ try (rewrite ?Ho in *; simpl in *; lia)
  | try (rewrite ?Ho; reflexivity); auto
  | try discriminate; try (let Hw := fresh "Hw" in intros Hw; specialize (Hs Hw); simpl in Hs; lia) ].

Ltac hcase s h En x :=
  let Ha := fresh "Ha" in let Hse := fresh "Hse" in
  pose proof (cntf_upd alive (hs s) h _ x En) as Ha;
  pose proof (cntf_upd is_sent (hs s) h _ x En) as Hse; simpl in Ha, Hse.

Lemma inv_step o l s s' : Inv s -> step o l s = Some s' -> Inv s'.
Proof.
  intros [Hc Ho Hs] Hst. destruct l; simpl in Hst.
  - destruct (r s) eqn:Er; try discriminate. inv_some. fin3 Hc Ho Hs.
  - destruct (r s) eqn:Er; try discriminate. inv_some. fin3 Hc Ho Hs.
  - destruct (r s) eqn:Er; try discriminate. inv_some. fin3 Hc Ho Hs.
  - destruct (r s) eqn:Er; try discriminate. inv_some. fin3 Hc Ho Hs.
  - destruct (r s) eqn:Er; try discriminate. inv_some. fin3 Hc Ho Hs.
  - destruct (r s) eqn:Er; try discriminate. inv_some. fin3 Hc Ho Hs.
  - destruct (r s) eqn:Er; try discriminate. destruct o; inv_some; fin3 Hc Ho Hs.
  - destruct (r s) eqn:Er; try discriminate.
    destruct o; destruct (ld_woken s); destruct (ld_count s); try discriminate; inv_some; fin3 Hc Ho Hs.
  - destruct (nth_error (hs s) h) as [p0|] eqn:En; try discriminate.
    destruct (alive p0) eqn:Ea; try discriminate. inv_some. fin3 Hc Ho Hs.
  - destruct (nth_error (hs s) h) as [p0|] eqn:En; try discriminate.
    destruct p0; try discriminate. inv_some. hcase s h En (HSent byval). fin3 Hc Ho Hs.
  - destruct (nth_error (hs s) h) as [p0|] eqn:En; try discriminate.
    destruct p0; try discriminate. inv_some. hcase s h En (HStored byval). fin3 Hc Ho Hs.
  - destruct (nth_error (hs s) h) as [p0|] eqn:En; try discriminate.
    destruct p0; try discriminate. inv_some. hcase s h En (HWoke byval). fin3 Hc Ho Hs.
  - destruct (nth_error (hs s) h) as [p0|] eqn:En; try discriminate.
    destruct p0; try discriminate. destruct byval; inv_some.
    + hcase s h En HGone. fin3 Hc Ho Hs.
    + hcase s h En HIdle. fin3 Hc Ho Hs.
  - destruct (nth_error (hs s) h) as [p0|] eqn:En; try discriminate.
    destruct p0; try discriminate. inv_some. hcase s h En HGone. fin3 Hc Ho Hs.
Qed.

Lemma inv_run o : forall ls s s', Inv s -> run o ls s = Some s' -> Inv s'.
Proof.
  induction ls as [|l ls IH]; intros s s' Hi Hr; simpl in Hr.
  - inversion Hr; subst; auto.
  - destruct (step o l s) eqn:Es; try discriminate. eapply IH; [|exact Hr]. eapply inv_step; eauto.
Qed.

Theorem count_is_one_plus_clones o s : reachable o s ->
  count s = 1 + b2n (own s) + live (hs s).
Proof. intros [ls Hr]. apply (inv_run o ls init s inv_init Hr). Qed.

(* ---------- the order count-then-woken is safe ---------- *)

(* dead s: no handle other than the runner's arc_waker exists; no clone can be made any more *)
Definition dead (s : st) : Prop := own s = false /\ cntf alive (hs s) = 0.

Definition InvC (s : st) : Prop :=
  (forall p, r s = RLoaded p -> exists c, ld_count s = Some c /\ (c < 2 -> dead s)) /\
  (r s = RDone Cancelled -> dead s /\ sends s = 0).

Lemma dead_no_holder s h p : dead s -> nth_error (hs s) h = Some p -> alive p = false.
Proof.
  intros [_ Hd] Hn. destruct (alive p) eqn:Ea; auto.
  pose proof (nth_alive_pos _ _ _ Hn Ea). lia.
Qed.

Lemma invc_step l s s' : Inv s -> InvC s -> step CountFirst l s = Some s' -> InvC s'.
Proof.
  intros Hi [HL HD] Hst.
  assert (Hi' : Inv s') by (eapply inv_step; eauto).
  destruct l; simpl in Hst.
  - destruct (r s) eqn:Er; try discriminate. inv_some. split; simpl; intros; rewrite ?Er in *; discriminate.
  - destruct (r s) eqn:Er; try discriminate. inv_some. split; simpl; intros; discriminate.
  - destruct (r s) eqn:Er; try discriminate. inv_some. split; simpl; intros; discriminate.
  - destruct (r s) eqn:Er; try discriminate. inv_some. split; simpl; intros; discriminate.
  - destruct (r s) eqn:Er; try discriminate. inv_some. split; simpl; intros; discriminate.
  - destruct (r s) eqn:Er; try discriminate. inv_some. split; simpl; intros; discriminate.
  - (* RLoad1: the count is read *)
    destruct (r s) eqn:Er; try discriminate. inv_some. split; simpl; [|intros; discriminate].
    intros p Hp. exists (count s). split; auto. intros Hlt.
    destruct Hi as [Hc Ho _]. rewrite Er in Ho. simpl in Ho. unfold dead. simpl. split; auto.
    rewrite Hc, Ho in Hlt. simpl in Hlt. lia.
  - (* RLoad2: woken is read, decision *)
    destruct (r s) eqn:Er; try discriminate.
    destruct (HL pending eq_refl) as [c [Hc Hdead]].
    rewrite Hc in Hst. destruct (ld_woken s); inv_some; (split; simpl; [intros; discriminate|]);
    intros Hd; inversion Hd as [Hd']; unfold decide in Hd';
    destruct pending; try discriminate;
    destruct (woken s) eqn:Ew; simpl in Hd'; try discriminate;
    destruct (c <? 2) eqn:Ec; try discriminate;
    apply Nat.ltb_lt in Ec; specialize (Hdead Ec);
    (split; [exact Hdead|]);
    destruct Hi as [_ _ Hs]; specialize (Hs Ew); rewrite Er in Hs; simpl in Hs;
    destruct Hdead as [_ Hz]; pose proof (sent_le_live (hs s)); lia.
  - (* HClone *) destruct (nth_error (hs s) h) eqn:En; try discriminate.
    destruct (alive h0) eqn:Ea; try discriminate. inv_some. split; simpl.
    + intros p Hp. destruct (HL p Hp) as [c [Hc Hd]]. exists c. split; auto. intros Hlt.
      specialize (Hd Hlt). rewrite (dead_no_holder _ _ _ Hd En) in Ea. discriminate.
    + intros Hd. destruct (HD Hd) as [Hdd _]. rewrite (dead_no_holder _ _ _ Hdd En) in Ea. discriminate.
  - (* HStart *) destruct (nth_error (hs s) h) eqn:En; try discriminate.
    destruct h0; try discriminate. inv_some. split; simpl.
    + intros p Hp. destruct (HL p Hp) as [c [Hc Hd]]. exists c. split; auto. intros Hlt.
      specialize (Hd Hlt). pose proof (dead_no_holder _ _ _ Hd En). discriminate.
    + intros Hd. destruct (HD Hd) as [Hdd _]. pose proof (dead_no_holder _ _ _ Hdd En). discriminate.
  - destruct (nth_error (hs s) h) eqn:En; try discriminate.
    destruct h0; try discriminate. inv_some. split; simpl.
    + intros p Hp. destruct (HL p Hp) as [c [Hc Hd]]. exists c. split; auto. intros Hlt.
      specialize (Hd Hlt). pose proof (dead_no_holder _ _ _ Hd En). discriminate.
    + intros Hd. destruct (HD Hd) as [Hdd _]. pose proof (dead_no_holder _ _ _ Hdd En). discriminate.
  - destruct (nth_error (hs s) h) eqn:En; try discriminate.
    destruct h0; try discriminate. inv_some. split; simpl.
    + intros p Hp. destruct (HL p Hp) as [c [Hc Hd]]. exists c. split; auto. intros Hlt.
      specialize (Hd Hlt). pose proof (dead_no_holder _ _ _ Hd En). discriminate.
    + intros Hd. destruct (HD Hd) as [Hdd _]. pose proof (dead_no_holder _ _ _ Hdd En). discriminate.
  - destruct (nth_error (hs s) h) eqn:En; try discriminate.
    destruct h0; try discriminate. destruct byval; inv_some; (split; simpl;
    [ intros p Hp; destruct (HL p Hp) as [c [Hc Hd]]; exists c; split; auto; intros Hlt;
      specialize (Hd Hlt); pose proof (dead_no_holder _ _ _ Hd En); discriminate
    | intros Hd; destruct (HD Hd) as [Hdd _]; pose proof (dead_no_holder _ _ _ Hdd En); discriminate ]).
  - destruct (nth_error (hs s) h) eqn:En; try discriminate.
    destruct h0; try discriminate. inv_some. split; simpl.
    + intros p Hp. destruct (HL p Hp) as [c [Hc Hd]]. exists c. split; auto. intros Hlt.
      specialize (Hd Hlt). pose proof (dead_no_holder _ _ _ Hd En). discriminate.
    + intros Hd. destruct (HD Hd) as [Hdd _]. pose proof (dead_no_holder _ _ _ Hdd En). discriminate.
Qed.

Lemma invc_init : InvC init.
Proof. split; simpl; intros; discriminate. Qed.

Lemma invc_run : forall ls s s', Inv s -> InvC s -> run CountFirst ls s = Some s' -> Inv s' /\ InvC s'.
Proof.
  induction ls as [|l ls IH]; intros s s' Hi Hc Hr; simpl in Hr.
  - inversion Hr; subst; auto.
  - destruct (step CountFirst l s) eqn:Es; try discriminate.
    eapply IH; [| |exact Hr]; [eapply inv_step | eapply invc_step]; eauto.
Qed.

(* With the count read first, an evicted task has never been sent a wake-up through this
   generation, no clone of its waker exists, and (the state being reachable-closed) that stays so
   in every continuation of the interleaving. *)
Theorem evict_safe_count_first : forall s, reachable CountFirst s ->
  r s = RDone Cancelled -> sends s = 0 /\ live (hs s) = 0 /\ own s = false.
Proof.
  intros s [ls Hr] Hd. destruct (invc_run ls init s inv_init invc_init Hr) as [_ [_ HD]].
  destruct (HD Hd) as [[Ho Hl] Hs]. auto.
Qed.

Corollary no_lost_wake_count_first : forall s, reachable CountFirst s -> ~ lost_wake s.
Proof.
  intros s Hr [Hd Hpos]. destruct (evict_safe_count_first s Hr Hd) as [Hs _]. lia.
Qed.

(* Once the task is evicted nothing can happen any more in this generation: no label is enabled. *)
Theorem evicted_is_final : forall s l, reachable CountFirst s -> r s = RDone Cancelled ->
  step CountFirst l s = None.
Proof.
  intros s l Hr Hd. destruct Hr as [ls Hr].
  destruct (invc_run ls init s inv_init invc_init Hr) as [_ [_ HD]].
  destruct (HD Hd) as [Hdead _].
  destruct l; simpl; rewrite ?Hd; auto;
  destruct (nth_error (hs s) h) eqn:En; auto;
  pose proof (dead_no_holder _ _ _ Hdead En) as Ha; destruct h0; simpl in Ha; try discriminate; auto.
Qed.

(* No false retention at the level of the protocol: a pending task that nobody holds a waker to
   and that was not woken IS evicted when the runner runs alone from the end of the poll. *)
Theorem evicts_abandoned : forall o s, reachable o s -> r s = RPolled true -> woken s = false ->
  live (hs s) = 0 ->
  exists s', run o [RDropOwn; RLoad1; RLoad2] s = Some s' /\ r s' = RDone Cancelled.
Proof.
  intros o s [ls Hr] Hp Hw Hl.
  pose proof (inv_run o ls init s inv_init Hr) as [Hc Ho _].
  rewrite Hp in Ho. simpl in Ho. rewrite live_cntf in Hl.
  assert (Hcnt : count s = 2) by (rewrite Hc, Ho, Hl; reflexivity).
  destruct o; simpl; rewrite Hp; simpl; rewrite ?Hw, ?Hcnt; simpl; eexists; split; reflexivity.
Qed.

(* ---------- the order woken-then-count is not ---------- *)

(* poll registers one clone and returns Pending; drop(waker); woken.load() = false;
   then the clone's owner runs wake() to completion (send, store, parent wake, drop);
   Arc::strong_count() = 1: Cancelled, although the task id sits in the ready queue. *)
Definition witness : list label :=
  [RClone; RPollEnd true; RDropOwn; RLoad1; HStart 0 true; HStore 0; HParent 0; HFinish 0; RLoad2].

Theorem evict_refuted_woken_first : exists s, run WokenFirst witness init = Some s /\
  r s = RDone Cancelled /\ sends s = 1 /\ woken s = true /\
  ld_woken s = Some false /\ ld_count s = Some 1.
Proof. eexists. split; [vm_compute; reflexivity|]. repeat split. Qed.

Corollary lost_wake_woken_first : exists s, reachable WokenFirst s /\ lost_wake s.
Proof.
  destruct evict_refuted_woken_first as [s [Hr [Hd [Hs _]]]].
  exists s. split; [exists witness; exact Hr|]. split; auto. lia.
Qed.

(* the same interleaving is harmless under the repaired order *)
Theorem witness_harmless_count_first : exists s, run CountFirst witness init = Some s /\
  r s = RDone Suspended /\ ld_woken s = Some true /\ ld_count s = Some 2.
Proof. eexists. split; [vm_compute; reflexivity|]. repeat split. Qed.

(* the outcome predicate holds of every run of the repaired model *)
Theorem evict_ok_sound : forall s, reachable CountFirst s ->
  C08_evict_ok (obs_decision s) (sends s) = true.
Proof.
  intros s Hr. unfold C08_evict_ok, obs_decision.
  destruct (r s) eqn:Er; simpl; auto. destruct d; simpl; auto.
  destruct (evict_safe_count_first s Hr Er) as [Hs _]. rewrite Hs. reflexivity.
Qed.
