(* The contract lemma poll_stable, and the invariant [inv] tying the model's state to the history
   automaton of Spec.v, with the case-analysis tactics used by the one-step lemmas. *)
From Coq Require Import List NArith Bool Arith Lia.
From Crux Require Import Timer.Machine Timer.Spec Timer.SpecProofs.
Import ListNotations.

(* ---- poll_stable: a second run of the task with nothing changed in between is a no-op ---- *)
Definition settled (t : timer) : Prop := run_task t = (t, [], [], false).

Ltac dchan c := let tx := fresh "tx" in let buf := fresh "buf" in let rx := fresh "rx" in let w := fresh "w" in
  destruct c as [tx buf rx w]; destruct tx; destruct buf; destruct rx; destruct w.

Lemma run_task_settles : forall t t1 e v,
  run_task t = (t1, e, v, false) -> settled t1.
Proof.
  intros [k id os ph wk] t1 e v H. unfold settled.
  destruct ph as [|rq|rq cl|rq cl].
  - destruct os as [w| |]; cbn in H; inversion H; subst; reflexivity.
  - dchan rq; destruct os as [w'| |]; cbn in H;
      try (destruct (class_start k id r) eqn:Hc; cbn in H); inversion H; subst; reflexivity.
  - dchan cl; destruct os as [w'| |]; cbn in H;
      try (destruct (class_clear id r) eqn:Hc; cbn in H); inversion H; subst; reflexivity.
  - cbn in H. inversion H; subst. reflexivity.
Qed.

Lemma run_n_settled : forall n t, settled t -> run_n n t = (t, [], [], false).
Proof.
  induction n as [|n IH]; intros t Hs; cbn [run_n]; [reflexivity|].
  rewrite Hs. rewrite (IH t Hs). reflexivity.
Qed.

Lemma run_n_S : forall n t,
  run_n (S n) t = let '(t1, e, v, p) := run_task t in (t1, e, v, p).
Proof.
  intros n t. cbn [run_n]. destruct (run_task t) as [[[t1 e] v] p] eqn:H.
  destruct p; [reflexivity|].
  rewrite (run_n_settled n t1 (run_task_settles _ _ _ _ H)). rewrite !app_nil_r. reflexivity.
Qed.

Definition nz (n : nat) : bool := negb (Nat.eqb n 0).
Definition os_rel (o : osst) (h : hist) (wk : nat) : bool :=
  match o with
  | OsOpen w => h_hdl h && negb (h_app h) && (w || nz wk)
  | OsSent => negb (h_hdl h) && h_app h && nz wk
  | OsClosed => negb (h_hdl h) && negb (h_app h)
  end.
Definition tx_live (t : txst) : bool := match t with TLive => true | _ => false end.
Definition buf_rel (cls : resp -> rclass) (c : chan) (pend : bool) (h : hist) (wk : nat) : bool :=
  match c_buf c with
  | Some r => c_rx c && pend && is_ok (cls r) && nz wk
  | None => negb pend && match c_tx c with TLive => c_rx c && (c_w c || nz wk) | TDropped => h_drop h | TUsed => false end
  end.
Definition os_closed (o : osst) : bool := match o with OsClosed => true | _ => false end.

Definition is_some {A} (o : option A) : bool := match o with Some _ => true | None => false end.
Definition inv (k : tkind) (id : N) (t : timer) (h : hist) : bool :=
  h_bad h ||
  match t_ph t with
  | PNew => negb (h_ans h) && negb (h_started h) && negb (h_clr h) && negb (h_out h) && negb (h_done h) && negb (h_pend h)
            && os_rel (t_os t) h (t_wakes t) && nz (t_wakes t)
  | PWait rq => negb (h_ans h) && h_started h && negb (h_clr h) && negb (h_out h) && negb (h_done h)
            && os_rel (t_os t) h (t_wakes t) && buf_rel (class_start k id) rq (h_pend h) h (t_wakes t)
  | PClr rq cl => h_started h && h_clr h && negb (h_out h) && negb (h_done h) && os_closed (t_os t)
            && buf_rel (class_clear id) cl (h_ans h) h (t_wakes t)
  | PFin rq cl => (h_out h || h_done h) && implb (is_some rq) (h_started h) && implb (is_some cl) (h_clr h)
            && (h_out h || match cl with
                           | Some c => negb (tx_live (c_tx c))
                           | None => match rq with Some c => negb (tx_live (c_tx c)) | None => true end
                           end)
  end.

Lemma run_wk0 : forall k id os ph, run (mkTimer k id os ph 0) = (mkTimer k id os ph 0, [], [], false).
Proof. reflexivity. Qed.
Lemma run_wkS : forall k id os ph n,
  run (mkTimer k id os ph (S n)) = let '(t1, e, v, p) := run_task (mkTimer k id os ph 0) in (t1, e, v, p).
Proof. intros. unfold run. cbn [t_wakes set_wakes t_kind t_id t_os t_ph]. apply run_n_S. Qed.

Ltac bools := repeat match goal with
  | H : _ && _ = true |- _ => apply andb_prop in H; destruct H
  | H : negb _ = true |- _ => apply negb_true_iff in H
  | H : _ || _ = true |- _ => apply orb_prop in H; destruct H
  end.
Definition step_ok (k : tkind) (id : N) (t : timer) (h : hist) (x : tin) : Prop :=
  let '(t', o) := tstep t x in
  if is_panic o then h_bad h = true
  else exists h', hstep k id h x o = Some h' /\ inv k id t' h' = true.

Ltac rwc := repeat match goal with
  | H : class_start _ _ _ = _ |- _ => rewrite H
  | H : class_clear _ _ = _ |- _ => rewrite H
  | H : is_ok _ = true |- _ => rewrite H end.
Ltac dbools := repeat match goal with b : bool |- _ => destruct b end.
Ltac fin0 := cbn; rewrite ?N.eqb_refl; rwc; cbn; rewrite ?orb_true_r; cbn;
  first [ discriminate | reflexivity
        | eexists; split; [reflexivity|]; cbn; rewrite ?N.eqb_refl; rwc; cbn; rewrite ?orb_true_r; reflexivity ].
Ltac fin := first [ fin0 | solve [dbools; fin0] | idtac ].

