(* Executable model of the legacy capability API of crux_time (crux_time/src/lib.rs): Time::notify_after /
   notify_at (spawn a task awaiting TimerFuture, then update_app(callback(response))), Time::clear
   (insert the id into the process-global CLEARED_TIMER_IDS set, spawn a task that notifies the shell
   with Clear{id}), TimerFuture::poll (if the id is in the set: remove it, Ready(Cleared{id}) without
   looking at the inner request; otherwise poll the inner legacy ShellRequest, which sends the request
   on its first poll and passes the shell's response through VERBATIM - no kind or id check), hosted
   under Core: every input below is one core call, which runs the executor to quiescence, so a task is
   polled exactly when it was spawned or woken in that call.  clear() wakes nobody.

   The id counter is the same wrapping usize counter as for the command API.  The global set is modelled
   as a duplicate-free list starting empty: stale ids left in the real set by earlier timers of the
   process (see class legacy_clear_after_outcome) are never equal to a later id (unique ids).
   No proofs here (LegacyProofs.v). *)
From Coq Require Import List NArith Bool Arith.
From Crux Require Import Timer.Machine.
Import ListNotations.

Inductive lreq := LqNone | LqLive | LqUsed | LqDropped.   (* what the shell holds for the timer's request *)
Record ltimer := mkLt { lt_kind : tkind; lt_id : N; lt_req : lreq; lt_done : bool }.
Record lsys := mkLs { ls_ctr : N; ls_cleared : list N; ls_ts : list ltimer }.

Definition mem (id : N) (l : list N) : bool := existsb (N.eqb id) l.
Definition ins (id : N) (l : list N) : list N := if mem id l then l else id :: l.
Definition rem (id : N) (l : list N) : list N := filter (fun x => negb (N.eqb id x)) l.

Inductive lin :=
| LStart (k : tkind)          (* update calls notify_after/notify_at *)
| LStartClear (k : tkind)     (* update calls notify_*, then clear(id) on the id it got, in the same update *)
| LClear (i : nat)            (* update calls clear(id of timer i) *)
| LFire (i : nat) (r : resp)  (* the shell resolves timer i's request with r *)
| LDropReq (i : nat)          (* the shell drops it *)
| LNoop.
Inductive lobs :=
| LStarted (id : N) (e : list eff) (v : list (nat * resp))
| LCall (code : N) (e : list eff) (v : list (nat * resp))   (* code as in Machine.ORes *)
| LRes (code : N)
| LBad.

Definition lstep (s : lsys) (x : lin) : lsys * lobs :=
  let n := length (ls_ts s) in
  match x with
  | LStart k =>
      let id := ls_ctr s in
      let ctr' := ((id + 1) mod USIZE)%N in
      if mem id (ls_cleared s)      (* TimerFuture::poll consults the set first *)
      then (mkLs ctr' (rem id (ls_cleared s)) (ls_ts s ++ [mkLt k id LqNone true]), LStarted id [] [(n, RCleared id)])
      else (mkLs ctr' (ls_cleared s) (ls_ts s ++ [mkLt k id LqLive false]), LStarted id [start_eff k id] [])
  | LStartClear k =>
      let id := ls_ctr s in
      let ctr' := ((id + 1) mod USIZE)%N in
      (* clear() inserts before any task runs; the timer task is polled first: cleared, the request is
         never sent; then the clear task notifies the shell *)
      (mkLs ctr' (rem id (ins id (ls_cleared s))) (ls_ts s ++ [mkLt k id LqNone true]),
       LStarted id [EClear id] [(n, RCleared id)])
  | LClear i =>
      match nth_error (ls_ts s) i with
      | None => (s, LBad)
      | Some t => (mkLs (ls_ctr s) (ins (lt_id t) (ls_cleared s)) (ls_ts s), LCall 3 [EClear (lt_id t)] [])
      end
  | LFire i r =>
      match nth_error (ls_ts s) i with
      | None => (s, LBad)
      | Some t =>
          match lt_req t with
          | LqLive =>
              if lt_done t then (mkLs (ls_ctr s) (ls_cleared s) (upd_nth (ls_ts s) i (mkLt (lt_kind t) (lt_id t) LqUsed true)), LCall 0 [] [])
              else if mem (lt_id t) (ls_cleared s)
              then (mkLs (ls_ctr s) (rem (lt_id t) (ls_cleared s)) (upd_nth (ls_ts s) i (mkLt (lt_kind t) (lt_id t) LqUsed true)),
                    LCall 0 [] [(i, RCleared (lt_id t))])
              else (mkLs (ls_ctr s) (ls_cleared s) (upd_nth (ls_ts s) i (mkLt (lt_kind t) (lt_id t) LqUsed true)),
                    LCall 0 [] [(i, r)])
          | LqUsed => (s, LCall 1 [] [])
          | _ => (s, LCall 2 [] [])
          end
      end
  | LDropReq i =>
      match nth_error (ls_ts s) i with
      | None => (s, LBad)
      | Some t =>
          match lt_req t with
          | LqLive | LqUsed => (mkLs (ls_ctr s) (ls_cleared s) (upd_nth (ls_ts s) i (mkLt (lt_kind t) (lt_id t) LqDropped (lt_done t))), LRes 3)
          | _ => (s, LRes 2)
          end
      end
  | LNoop => (s, LCall 3 [] [])
  end.

Fixpoint lrun (s : lsys) (xs : list lin) : list lobs :=
  match xs with [] => [] | x :: xs' => let '(s1, o) := lstep s x in o :: lrun s1 xs' end.
Definition lsys0 (c0 : N) : lsys := mkLs c0 [] [].

(* ---- the property's automaton for the legacy API ---- *)
Record lhist := mkLh { lh_started : bool; lh_clr : bool (* cleared by the app, not yet reported *); lh_out : bool }.
Definition lrec := (tkind * N * lhist)%type.

Definition resp_eqb (a b : resp) : bool :=
  match a, b with
  | RNow, RNow => true
  | RInstant x, RInstant y | RElapsed x, RElapsed y | RCleared x, RCleared y => N.eqb x y
  | _, _ => false
  end.
Definition lev_eqb (a b : nat * resp) : bool := Nat.eqb (fst a) (fst b) && resp_eqb (snd a) (snd b).
Definition levs_eqb := list_eqb lev_eqb.
Definition leffs_eqb := list_eqb eff_eqb.
Fixpoint lhas_id (id : N) (l : list lrec) : bool :=
  match l with [] => false | (_, i, _) :: l' => N.eqb i id || lhas_id id l' end.

(* [strict = true]: the property as stated.  [strict = false]: the two listed deviations of the legacy
   API are tolerated exactly as the code has them:
     class 1 legacy_clear_unrequested: a timer cleared before it was ever requested still sends Clear{id};
     class 2 legacy_clear_after_outcome: clear() after the outcome still sends Clear{id}
       (and leaves the id in the global set for ever). *)
Fixpoint lok (strict : bool) (st : list lrec) (xs : list lin) (os : list lobs) : bool :=
  match xs, os with
  | [], [] => true
  | LStart k :: xs', LStarted id e v :: os' =>
      negb (lhas_id id st) && leffs_eqb e [start_eff k id] && levs_eqb v []
      && lok strict (st ++ [(k, id, mkLh true false false)]) xs' os'
  | LStartClear k :: xs', LStarted id e v :: os' =>
      negb (lhas_id id st) && leffs_eqb e (if strict then [] else [EClear id])
      && levs_eqb v [(length st, RCleared id)]
      && lok strict (st ++ [(k, id, mkLh false false true)]) xs' os'
  | LClear i :: xs', o :: os' =>
      match nth_error st i, o with
      | None, LBad => lok strict st xs' os'
      | Some (k, id, h), LCall _ e v =>
          levs_eqb v [] &&
          (if lh_out h then leffs_eqb e (if strict then [] else [EClear id]) && lok strict st xs' os'
           else leffs_eqb e [EClear id] && lok strict (upd_nth st i (k, id, mkLh (lh_started h) true false)) xs' os')
      | _, _ => false
      end
  | LFire i r :: xs', o :: os' =>
      match nth_error st i, o with
      | None, LBad => lok strict st xs' os'
      | Some (k, id, h), LCall c e v =>
          leffs_eqb e [] &&
          (if N.eqb c 0 then
             lh_started h && negb (lh_out h)
             && levs_eqb v [(i, if lh_clr h then RCleared id else r)]
             && lok strict (upd_nth st i (k, id, mkLh true false true)) xs' os'
           else levs_eqb v [] && lok strict st xs' os')
      | _, _ => false
      end
  | LDropReq i :: xs', o :: os' =>
      match nth_error st i, o with
      | None, LBad => lok strict st xs' os'
      | Some _, LRes _ => lok strict st xs' os'
      | _, _ => false
      end
  | LNoop :: xs', LCall _ e v :: os' => leffs_eqb e [] && levs_eqb v [] && lok strict st xs' os'
  | _, _ => false
  end.

(* which listed class a case exercises (0 = none): syntactic in the inputs and the history *)
Fixpoint lclass (outs : list bool) (xs : list lin) (os : list lobs) : N :=
  match xs, os with
  | LStart _ :: xs', _ :: os' => lclass (outs ++ [false]) xs' os'
  | LStartClear _ :: _, _ => 1%N
  | LClear i :: xs', _ :: os' => if nth i outs false then 2%N else lclass outs xs' os'
  | LFire i _ :: xs', LCall c _ v :: os' =>
      lclass (if N.eqb c 0 then upd_nth outs i true else outs) xs' os'
  | _ :: xs', _ :: os' => lclass outs xs' os'
  | _, _ => 0%N
  end.

(* vocabulary of the derived theorems *)
Fixpoint levents_of (os : list lobs) : list (nat * resp) :=
  match os with
  | [] => []
  | LStarted _ _ v :: os' | LCall _ _ v :: os' => v ++ levents_of os'
  | _ :: os' => levents_of os'
  end.
Fixpoint lstarted_ids (os : list lobs) : list N :=
  match os with [] => [] | LStarted id _ _ :: os' => id :: lstarted_ids os' | _ :: os' => lstarted_ids os' end.
Definition count_for (i : nat) (evs : list (nat * resp)) : nat := length (filter (fun e => Nat.eqb (fst e) i) evs).
Definition lids_of (st : list lrec) : list N := map (fun r => snd (fst r)) st.

Definition lobs_eqb (a b : lobs) : bool :=
  match a, b with
  | LStarted x e v, LStarted y e' v' => N.eqb x y && leffs_eqb e e' && levs_eqb v v'
  | LCall x e v, LCall y e' v' => N.eqb x y && leffs_eqb e e' && levs_eqb v v'
  | LRes x, LRes y => N.eqb x y
  | LBad, LBad => true
  | _, _ => false
  end.

(* verdict of one correspondence case: 0 agree and accepted strictly; 1 model/implementation differ;
   2 rejected outside every listed class; 100+k rejected strictly, accepted with class k tolerated *)
Definition verdict_legacy (c0 : N) (xs : list lin) (impl : list lobs) : N :=
  let agree := list_eqb lobs_eqb (lrun (lsys0 c0) xs) impl in
  if lok true [] xs impl then (if agree then 0%N else 1%N)
  else if lok false [] xs impl then
    (match lclass [] xs impl with 0%N => 2%N | k => if agree then (100 + k)%N else 1%N end)
  else 2%N.
Definition verdicts_legacy (cs : list (N * list lin * list lobs)) : list N :=
  map (fun c => match c with (c0, xs, impl) => verdict_legacy c0 xs impl end) cs.

Fixpoint lsf_go (n fuel : nat) (xs : list lin) (os : list lobs) : nat :=
  match fuel with
  | 0 => n
  | S f => if lok false [] (firstn n xs) (firstn n os) then lsf_go (S n) f xs os else n
  end.
Definition shortest_fails_legacy (cs : list (N * list lin * list lobs)) : list nat :=
  map (fun c => match c with (_, xs, os) => lsf_go 1 (length xs) xs os end) cs.
