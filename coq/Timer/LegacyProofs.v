(* Proofs about the legacy capability API model (Legacy.v): the tolerant automaton accepts the model
   for ALL input sequences (state invariant incl. the global cleared set, induction over the sequence);
   outside the two listed classes it coincides with the property as stated; the two classes are
   witnessed; ids are unique and every timer has at most one outcome in every accepted trace. *)
From Coq Require Import List NArith Bool Arith Lia.
From Crux Require Import Timer.Machine Timer.Spec Timer.SpecProofs Timer.SpecWeak Timer.MachineProofs Timer.Legacy.
Import ListNotations.

(* ------------------------------------------------------------------ *)
(* ---- the set ---- *)
Lemma mem_ins : forall a b l, mem a (ins b l) = N.eqb a b || mem a l.
Proof.
  intros a b l. unfold ins. destruct (mem b l) eqn:Hb.
  - destruct (N.eqb a b) eqn:Hab; [|reflexivity]. apply N.eqb_eq in Hab. subst. rewrite Hb. reflexivity.
  - reflexivity.
Qed.
Lemma mem_rem : forall a b l, mem a (rem b l) = negb (N.eqb a b) && mem a l.
Proof.
  intros a b l. unfold mem, rem. induction l as [|x l IH]; simpl; [rewrite andb_false_r; reflexivity|].
  destruct (N.eqb b x) eqn:Hbx; simpl.
  - apply N.eqb_eq in Hbx. subst x. rewrite IH. destruct (N.eqb a b); reflexivity.
  - rewrite IH. destruct (N.eqb a x) eqn:Hax; simpl; [|reflexivity].
    apply N.eqb_eq in Hax. subst x. rewrite N.eqb_sym, Hbx. reflexivity.
Qed.

(* ---- invariant ---- *)
Definition lrel (t : ltimer) (r : lrec) : Prop :=
  match r with (k, id, h) =>
    lt_kind t = k /\ lt_id t = id /\ lt_done t = lh_out h /\
    (lt_req t = LqLive -> lh_started h = true /\ lh_out h = false)
  end.

Record linv (c0 : N) (s : lsys) (st : list lrec) : Prop := {
  li_rel : Forall2 lrel (ls_ts s) st;
  li_ids : forall j k id h, nth_error st j = Some (k, id, h) -> id = nth_id c0 j;
  li_ctr : ls_ctr s = nth_id c0 (length st);
  li_clr : forall j k id h, nth_error st j = Some (k, id, h) -> lh_out h = false -> mem id (ls_cleared s) = lh_clr h;
  li_sub : forall a, mem a (ls_cleared s) = true -> exists j, j < length st /\ a = nth_id c0 j
}.

Fixpoint count_lstarts (xs : list lin) : nat :=
  match xs with [] => 0 | (LStart _ | LStartClear _) :: xs' => S (count_lstarts xs') | _ :: xs' => count_lstarts xs' end.

Lemma lhas_id_false : forall c0 st id, (forall j k i h, nth_error st j = Some (k, i, h) -> i = nth_id c0 j) ->
  id = nth_id c0 (length st) -> (N.of_nat (length st) < USIZE)%N -> lhas_id id st = false.
Proof.
  intros c0 st id Hids Hid Hn.
  destruct (lhas_id id st) eqn:Hh; [|reflexivity]. exfalso.
  assert (exists j k h, nth_error st j = Some (k, id, h)) as [j [k [h Hj]]].
  { clear - Hh. induction st as [|[[k i] h] st IH]; cbn in Hh; [discriminate|].
    apply orb_prop in Hh as [Hh|Hh].
    - apply N.eqb_eq in Hh. subst. exists 0, k, h. reflexivity.
    - destruct (IH Hh) as [j [k' [h' Hj]]]. exists (S j), k', h'. exact Hj. }
  pose proof (Hids _ _ _ _ Hj) as E. assert (j < length st) by (apply nth_error_Some; congruence).
  rewrite Hid in E. apply nth_id_inj in E; lia.
Qed.

Lemma fresh_not_cleared : forall c0 s st, linv c0 s st -> (N.of_nat (length st) < USIZE)%N ->
  mem (ls_ctr s) (ls_cleared s) = false.
Proof.
  intros c0 s st I Hn. destruct (mem _ _) eqn:Hm; [|reflexivity]. exfalso.
  destruct (li_sub _ _ _ I _ Hm) as [j [Hj E]]. rewrite (li_ctr _ _ _ I) in E. apply nth_id_inj in E; lia.
Qed.

Lemma leffs_refl : forall e, leffs_eqb e e = true.
Proof. induction e as [|[x|x|x] e IH]; cbn; rewrite ?N.eqb_refl; auto. Qed.
Lemma resp_eqb_refl : forall r, resp_eqb r r = true.
Proof. intros [|x|x|x]; cbn; rewrite ?N.eqb_refl; reflexivity. Qed.

Lemma lev_refl : forall a, lev_eqb a a = true.
Proof. intros [i r]. unfold lev_eqb. cbn. rewrite Nat.eqb_refl, resp_eqb_refl. reflexivity. Qed.
Lemma nth_id_succ : forall c0 n, ((nth_id c0 n + 1) mod USIZE)%N = nth_id c0 (S n).
Proof.
  intros. unfold nth_id. rewrite N.add_mod_idemp_l by (unfold USIZE; discriminate). f_equal. lia.
Qed.

(* ------------------------------------------------------------------ *)
Lemma F2_len : forall A B (R : A -> B -> Prop) l1 l2, Forall2 R l1 l2 -> length l1 = length l2.
Proof. intros A B R l1 l2 H. induction H; cbn; congruence. Qed.
Lemma nth_app_last : forall A (l : list A) a, nth_error (l ++ [a]) (length l) = Some a.
Proof. intros. rewrite nth_error_app2 by lia. rewrite Nat.sub_diag. reflexivity. Qed.

Lemma nth_app_cases : forall A (l : list A) a j b, nth_error (l ++ [a]) j = Some b ->
  (j < length l /\ nth_error l j = Some b) \/ (j = length l /\ b = a).
Proof.
  intros A l a j b H. destruct (Nat.lt_ge_cases j (length l)) as [Hl|Hl].
  - left. split; [exact Hl|]. rewrite nth_error_app1 in H by exact Hl. exact H.
  - right. rewrite nth_error_app2 in H by exact Hl. destruct (j - length l) as [|m] eqn:E.
    + cbn in H. inversion H. split; [lia|reflexivity].
    + cbn in H. destruct m; discriminate.
Qed.

(* adding a new timer whose id is the counter *)
Lemma linv_start : forall c0 s st k rq dn h cl, linv c0 s st -> (N.of_nat (length st) < USIZE)%N ->
  (forall a, mem a cl = mem a (ls_cleared s)) ->
  dn = lh_out h -> (rq = LqLive -> lh_started h = true /\ lh_out h = false) ->
  (lh_out h = false -> lh_clr h = false) ->
  linv c0 (mkLs ((ls_ctr s + 1) mod USIZE) cl (ls_ts s ++ [mkLt k (ls_ctr s) rq dn])) (st ++ [(k, ls_ctr s, h)]).
Proof.
  intros c0 s st k rq dn h cl I Hn Hcl Hdn Hrq Hclr.
  pose proof (fresh_not_cleared _ _ _ I Hn) as Hfresh.
  constructor; cbn [ls_ts ls_ctr ls_cleared].
  - apply Forall2_app; [exact (li_rel _ _ _ I)|]. constructor; [|constructor]. cbn. auto.
  - intros j k' id h' Hj. apply nth_app_cases in Hj as [[Hl Hj]|[-> E]].
    + exact (li_ids _ _ _ I _ _ _ _ Hj).
    + inversion E; subst. exact (li_ctr _ _ _ I).
  - rewrite app_length. cbn. rewrite Nat.add_1_r, (li_ctr _ _ _ I). apply nth_id_succ.
  - intros j k' id h' Hj Ho. rewrite Hcl. apply nth_app_cases in Hj as [[Hl Hj]|[-> E]].
    + exact (li_clr _ _ _ I _ _ _ _ Hj Ho).
    + inversion E; subst. rewrite Hfresh. symmetry. apply Hclr. exact Ho.
  - intros a Ha. rewrite Hcl in Ha. destruct (li_sub _ _ _ I _ Ha) as [j [Hj E]].
    exists j. rewrite app_length. cbn. split; [lia|exact E].
Qed.

Lemma ids_distinct : forall c0 s st i j k1 id1 h1 k2 id2 h2, linv c0 s st -> (N.of_nat (length st) <= USIZE)%N ->
  nth_error st i = Some (k1, id1, h1) -> nth_error st j = Some (k2, id2, h2) -> i <> j -> N.eqb id2 id1 = false.
Proof.
  intros c0 s st i j k1 id1 h1 k2 id2 h2 I Hn Hi Hj Hne.
  apply N.eqb_neq. intros E.
  rewrite (li_ids _ _ _ I _ _ _ _ Hi), (li_ids _ _ _ I _ _ _ _ Hj) in E.
  assert (i < length st) by (apply nth_error_Some; congruence).
  assert (j < length st) by (apply nth_error_Some; congruence).
  apply nth_id_inj in E; lia.
Qed.

Lemma F2l_nth : forall l1 l2 i r, Forall2 lrel l1 l2 -> nth_error l2 i = Some r ->
  exists t, nth_error l1 i = Some t /\ lrel t r.
Proof. intros. eapply F2g_nth; eassumption. Qed.
Lemma F2l_none : forall (l1 : list ltimer) (l2 : list lrec) i, Forall2 lrel l1 l2 -> nth_error l2 i = None -> nth_error l1 i = None.
Proof.
  intros l1 l2 i H. revert i. induction H as [|a b l1 l2 Hab H IH]; intros [|i] Hn; cbn in *; try discriminate; auto.
Qed.

Theorem lok_sound_gen : forall c0 xs s st, linv c0 s st ->
  (N.of_nat (length st + count_lstarts xs) <= USIZE)%N ->
  lok false st xs (lrun s xs) = true.
Proof.
  intros c0 xs. induction xs as [|x xs IH]; intros s st I Hn; cbn [lrun]; [reflexivity|].
  destruct x as [k|k|i|i r|i|]; cbn [lstep count_lstarts] in *.
  - (* LStart *)
    assert (Hlt : (N.of_nat (length st) < USIZE)%N) by lia.
    rewrite (fresh_not_cleared _ _ _ I Hlt). cbn [lok].
    rewrite (lhas_id_false c0 st (ls_ctr s) (li_ids _ _ _ I) (li_ctr _ _ _ I) Hlt), leffs_refl. cbn [negb andb levs_eqb list_eqb].
    apply IH.
    + apply linv_start; auto; cbn; intros; try discriminate; auto.
    + rewrite app_length. cbn. lia.
  - (* LStartClear *)
    assert (Hlt : (N.of_nat (length st) < USIZE)%N) by lia.
    cbn [lok]. rewrite (lhas_id_false c0 st (ls_ctr s) (li_ids _ _ _ I) (li_ctr _ _ _ I) Hlt), leffs_refl.
    rewrite (F2_len _ _ _ _ _ (li_rel _ _ _ I)). cbn [negb andb levs_eqb list_eqb]. rewrite lev_refl. cbn [andb].
    apply IH.
    + apply linv_start; auto; cbn; try (intros; discriminate).
      intros a. rewrite mem_rem, mem_ins. destruct (N.eqb a (ls_ctr s)) eqn:E; cbn; [|reflexivity].
      apply N.eqb_eq in E. subst. symmetry. apply (fresh_not_cleared _ _ _ I Hlt).
    + rewrite app_length. cbn. lia.
  - (* LClear *)
    cbn [lok]. destruct (nth_error st i) as [[[k id] h]|] eqn:Hst.
    + destruct (F2l_nth _ _ _ _ (li_rel _ _ _ I) Hst) as [t [Ht [Hk [Hid [Hd Hr]]]]]. rewrite Ht, Hid.
      cbn [levs_eqb list_eqb andb]. rewrite leffs_refl.
      destruct (lh_out h) eqn:Ho; cbn [andb].
      * apply IH; [|exact Hn]. constructor; cbn [ls_ts ls_ctr ls_cleared]; try apply I.
        -- intros j k' id' h' Hj Ho'. rewrite mem_ins.
           destruct (Nat.eq_dec j i) as [->|Hne]. { rewrite Hst in Hj. inversion Hj; subst. congruence. }
           rewrite (ids_distinct _ _ _ _ _ _ _ _ _ _ _ I ltac:(lia) Hst Hj ltac:(congruence)). cbn.
           exact (li_clr _ _ _ I _ _ _ _ Hj Ho').
        -- intros a Ha. rewrite mem_ins in Ha. apply orb_prop in Ha as [Ha|Ha]; [|exact (li_sub _ _ _ I _ Ha)].
           apply N.eqb_eq in Ha. subst. exists i. split; [apply nth_error_Some; congruence|exact (li_ids _ _ _ I _ _ _ _ Hst)].
      * apply IH; [|rewrite upd_len; exact Hn]. constructor; cbn [ls_ts ls_ctr ls_cleared].
        -- assert (E : ls_ts s = upd_nth (ls_ts s) i t).
           { clear - Ht. revert i Ht. induction (ls_ts s) as [|a l IHl]; intros [|i] Ht; cbn in *; try discriminate; [congruence|f_equal; auto]. }
           rewrite E. apply F2g_upd; [exact (li_rel _ _ _ I)|]. cbn. repeat split; auto;
             try (rewrite Hd; exact Ho); match goal with Hq : lt_req t = LqLive |- _ => destruct (Hr Hq) as [Hs' _]; exact Hs' end.
        -- intros j k' id' h' Hj. destruct (Nat.eq_dec j i) as [->|Hne].
           ++ erewrite nth_upd_same in Hj by eassumption. inversion Hj; subst. exact (li_ids _ _ _ I _ _ _ _ Hst).
           ++ rewrite nth_upd_other in Hj by congruence. exact (li_ids _ _ _ I _ _ _ _ Hj).
        -- rewrite upd_len. exact (li_ctr _ _ _ I).
        -- intros j k' id' h' Hj Ho'. rewrite mem_ins. destruct (Nat.eq_dec j i) as [->|Hne].
           ++ erewrite nth_upd_same in Hj by eassumption. inversion Hj; subst. rewrite N.eqb_refl. reflexivity.
           ++ rewrite nth_upd_other in Hj by congruence.
              rewrite (ids_distinct _ _ _ _ _ _ _ _ _ _ _ I ltac:(lia) Hst Hj ltac:(congruence)). cbn.
              exact (li_clr _ _ _ I _ _ _ _ Hj Ho').
        -- intros a Ha. rewrite upd_len. rewrite mem_ins in Ha. apply orb_prop in Ha as [Ha|Ha]; [|exact (li_sub _ _ _ I _ Ha)].
           apply N.eqb_eq in Ha. subst. exists i. split; [apply nth_error_Some; congruence|exact (li_ids _ _ _ I _ _ _ _ Hst)].
    + rewrite (F2l_none _ _ _ (li_rel _ _ _ I) Hst). apply IH; assumption.
  - (* LFire *)
    cbn [lok]. destruct (nth_error st i) as [[[k id] h]|] eqn:Hst.
    + destruct (F2l_nth _ _ _ _ (li_rel _ _ _ I) Hst) as [t [Ht [Hk [Hid [Hd Hr]]]]]. rewrite Ht.
      destruct (lt_req t) eqn:Hq; try (cbn [leffs_eqb list_eqb levs_eqb N.eqb andb]; apply IH; assumption).
      destruct (Hr eq_refl) as [Hs' Ho]. rewrite Hd, Ho.
      assert (Hinv' : forall cl, (forall a, mem a cl = negb (N.eqb a id) && mem a (ls_cleared s) \/ (mem id (ls_cleared s) = false /\ mem a cl = mem a (ls_cleared s))) ->
                linv c0 (mkLs (ls_ctr s) cl (upd_nth (ls_ts s) i (mkLt (lt_kind t) (lt_id t) LqUsed true)))
                        (upd_nth st i (k, id, mkLh true false true))).
      { intros cl Hcl. constructor; cbn [ls_ts ls_ctr ls_cleared].
        - apply F2g_upd; [exact (li_rel _ _ _ I)|]. cbn. repeat split; auto. intros; discriminate.
        - intros j k' id' h' Hj. destruct (Nat.eq_dec j i) as [->|Hne].
          + erewrite nth_upd_same in Hj by eassumption. inversion Hj; subst. exact (li_ids _ _ _ I _ _ _ _ Hst).
          + rewrite nth_upd_other in Hj by congruence. exact (li_ids _ _ _ I _ _ _ _ Hj).
        - rewrite upd_len. exact (li_ctr _ _ _ I).
        - intros j k' id' h' Hj Ho'. destruct (Nat.eq_dec j i) as [->|Hne].
          + erewrite nth_upd_same in Hj by eassumption. inversion Hj; subst. discriminate.
          + rewrite nth_upd_other in Hj by congruence.
            destruct (Hcl id') as [E|[_ E]]; rewrite E; [|exact (li_clr _ _ _ I _ _ _ _ Hj Ho')].
            rewrite (ids_distinct _ _ _ _ _ _ _ _ _ _ _ I ltac:(lia) Hst Hj ltac:(congruence)). cbn.
            exact (li_clr _ _ _ I _ _ _ _ Hj Ho').
        - intros a Ha. rewrite upd_len. apply (li_sub _ _ _ I).
          destruct (Hcl a) as [E|[_ E]]; rewrite E in Ha; [apply andb_prop in Ha as [_ Ha]|]; exact Ha. }
      rewrite Hid in Hinv' |- *. pose proof (li_clr _ _ _ I _ _ _ _ Hst Ho) as Hm.
      destruct (mem id (ls_cleared s)) eqn:Hmem; cbn [lok leffs_eqb list_eqb N.eqb andb]; rewrite Hs', <- Hm;
        cbn [negb andb levs_eqb list_eqb]; rewrite lev_refl; cbn [andb].
      * apply IH; [|rewrite upd_len; exact Hn]. apply Hinv'. intros a. left. apply mem_rem.
      * apply IH; [|rewrite upd_len; exact Hn]. apply Hinv'. intros a. right. split; [first [exact Hmem|reflexivity]|reflexivity].
    + rewrite (F2l_none _ _ _ (li_rel _ _ _ I) Hst). apply IH; assumption.
  - (* LDropReq *)
    cbn [lok]. destruct (nth_error st i) as [[[k id] h]|] eqn:Hst.
    + destruct (F2l_nth _ _ _ _ (li_rel _ _ _ I) Hst) as [t [Ht [Hk [Hid [Hd Hr]]]]]. rewrite Ht.
      assert (Hinv' : linv c0 (mkLs (ls_ctr s) (ls_cleared s) (upd_nth (ls_ts s) i (mkLt (lt_kind t) (lt_id t) LqDropped (lt_done t)))) st).
      { constructor; cbn [ls_ts ls_ctr ls_cleared]; try apply I.
        assert (E : st = upd_nth st i (k, id, h)).
        { clear - Hst. revert i Hst. induction st as [|a l IHl]; intros [|i] Hst; cbn in *; try discriminate; [congruence|f_equal; auto]. }
        rewrite E. apply F2g_upd; [exact (li_rel _ _ _ I)|]. cbn. repeat split; auto; try (intros; discriminate). }
      destruct (lt_req t); try (apply IH; assumption).
    + rewrite (F2l_none _ _ _ (li_rel _ _ _ I) Hst). apply IH; assumption.
  - cbn [lok leffs_eqb levs_eqb list_eqb andb]. apply IH; assumption.
Qed.

Theorem legacy_model_ok : forall c0 xs, (c0 < USIZE)%N -> (N.of_nat (count_lstarts xs) <= USIZE)%N ->
  lok false [] xs (lrun (lsys0 c0) xs) = true.
Proof.
  intros c0 xs Hc Hn. apply (lok_sound_gen c0); [|exact Hn].
  constructor; cbn.
  - constructor.
  - intros [|j] k id h H; discriminate.
  - unfold nth_id. rewrite N.add_0_r. symmetry. apply N.mod_small. exact Hc.
  - intros [|j] k id h H; discriminate.
  - intros a H. discriminate.
Qed.

(* ------------------------------------------------------------------ *)
Definition orel (b : bool) (r : lrec) : Prop := match r with (_, _, h) => b = lh_out h end.

Lemma orel_nth : forall outs st i k id h, Forall2 orel outs st -> nth_error st i = Some (k, id, h) ->
  nth i outs false = lh_out h.
Proof.
  intros outs st i k id h H. revert i. induction H as [|b r outs st Hbr H IH]; intros [|i] Hn; cbn in *; try discriminate.
  - inversion Hn; subst. exact Hbr.
  - apply IH. exact Hn.
Qed.

(* outside the two listed classes the tolerant automaton and the property as stated coincide *)
Theorem lok_strict_on_complement : forall xs st os outs, lok false st xs os = true ->
  Forall2 orel outs st -> lclass outs xs os = 0%N -> lok true st xs os = true.
Proof.
  induction xs as [|x xs IH]; intros st os outs Hok HF Hc.
  - destruct os; [reflexivity|discriminate].
  - destruct x as [k|k|i|i r|i|]; destruct os as [|o os]; cbn [lok lclass] in *; try discriminate.
    + destruct o; try discriminate.
      repeat (apply andb_prop in Hok as [Hok ?]). rewrite Hok, H1, H0. cbn [andb].
      apply (IH _ _ (outs ++ [false])); auto. apply Forall2_app; [exact HF|]. constructor; [reflexivity|constructor].
    + destruct (nth_error st i) as [[[k id] h]|] eqn:Hst.
      * destruct o; try discriminate. rewrite (orel_nth _ _ _ _ _ _ HF Hst) in Hc.
        apply andb_prop in Hok as [Hv Hok]. rewrite Hv. cbn [andb].
        destruct (lh_out h) eqn:Ho; [discriminate|].
        apply andb_prop in Hok as [He Hok]. rewrite He. cbn [andb].
        apply (IH _ _ outs); auto.
        assert (E : outs = upd_nth outs i false).
        { pose proof (orel_nth _ _ _ _ _ _ HF Hst) as Hb. rewrite Ho in Hb. clear - HF Hst Hb.
          revert i Hst Hb. induction HF as [|b r outs st Hbr HF IHf]; intros [|i] Hst Hb; cbn in *; try discriminate; [congruence|].
          f_equal. eapply IHf; eauto. }
        rewrite E. apply F2g_upd; [exact HF|]. reflexivity.
      * destruct o; try discriminate.
        assert (Hno : nth i outs false = false).
        { clear - HF Hst. revert i Hst. induction HF as [|b r outs st Hbr HF IHf]; intros [|i] Hst; cbn in *; try discriminate; auto. }
        rewrite Hno in Hc. apply (IH _ _ outs); auto.
    + destruct (nth_error st i) as [[[k id] h]|] eqn:Hst.
      * destruct o as [? ? ?|c e v|?|]; try discriminate.
        apply andb_prop in Hok as [He Hok]. rewrite He. cbn [andb].
        destruct (N.eqb c 0).
        -- repeat (apply andb_prop in Hok as [Hok ?]). rewrite Hok, H1, H0. cbn [andb].
           apply (IH _ _ (upd_nth outs i true)); auto. apply F2g_upd; [exact HF|]. reflexivity.
        -- apply andb_prop in Hok as [Hv Hok]. rewrite Hv. cbn [andb]. apply (IH _ _ outs); auto.
      * destruct o as [? ? ?|c e v|?|]; try discriminate. apply (IH _ _ outs); auto.
    + destruct (nth_error st i) as [[[k id] h]|] eqn:Hst; destruct o; try discriminate; apply (IH _ _ outs); auto.
    + destruct o; try discriminate. repeat (apply andb_prop in Hok as [Hok ?]). rewrite Hok, H0. cbn [andb].
      apply (IH _ _ outs); auto.
Qed.

Theorem legacy_model_ok_strict : forall c0 xs, (c0 < USIZE)%N -> (N.of_nat (count_lstarts xs) <= USIZE)%N ->
  lclass [] xs (lrun (lsys0 c0) xs) = 0%N -> lok true [] xs (lrun (lsys0 c0) xs) = true.
Proof.
  intros c0 xs Hc Hn Hcl. apply (lok_strict_on_complement xs [] _ []); [apply legacy_model_ok; assumption|constructor|exact Hcl].
Qed.

(* the property as stated is false of the faithful model of the legacy API: two witnesses *)
Theorem legacy_clear_unrequested_refuted :
  exists xs, lok true [] xs (lrun (lsys0 1) xs) = false /\ lclass [] xs (lrun (lsys0 1) xs) = 1%N
             /\ lrun (lsys0 1) xs = [LStarted 1 [EClear 1] [(0, RCleared 1)]].
Proof. exists [LStartClear KAfter]. vm_compute. repeat split. Qed.
Theorem legacy_clear_after_outcome_refuted :
  exists xs, lok true [] xs (lrun (lsys0 1) xs) = false /\ lclass [] xs (lrun (lsys0 1) xs) = 2%N
             /\ lrun (lsys0 1) xs = [LStarted 1 [ENotifyAfter 1] []; LCall 0 [] [(0, RElapsed 1)]; LCall 3 [EClear 1] []].
Proof. exists [LStart KAfter; LFire 0 (RElapsed 1); LClear 0]. vm_compute. repeat split. Qed.

(* ------------------------------------------------------------------ *)
Lemma lhas_id_in : forall id st, lhas_id id st = true <-> In id (lids_of st).
Proof.
  intros id st. induction st as [|[[k i] h] st IH]; cbn; [split; [discriminate|tauto]|].
  rewrite orb_true_iff, IH, N.eqb_eq. tauto.
Qed.
Lemma lids_app : forall a b, lids_of (a ++ b) = lids_of a ++ lids_of b.
Proof. intros. unfold lids_of. apply map_app. Qed.
Lemma lids_upd : forall st i k id h h', nth_error st i = Some (k, id, h) -> lids_of (upd_nth st i (k, id, h')) = lids_of st.
Proof.
  induction st as [|a st IH]; intros [|i] k id h h' Hn; cbn in *; try discriminate.
  - inversion Hn; subst. reflexivity.
  - f_equal. eapply IH; eauto.
Qed.

(* ids handed out by the legacy API in an accepted run are pairwise distinct *)
Lemma lok_ids_nodup : forall b xs st os, lok b st xs os = true -> NoDup (lids_of st) ->
  NoDup (lids_of st ++ lstarted_ids os).
Proof.
  intros b. induction xs as [|x xs IH]; intros st os Hok Hnd.
  - destruct os; [cbn; rewrite app_nil_r; exact Hnd|discriminate].
  - destruct x as [k|k|i|i r|i|]; destruct os as [|o os]; cbn [lok lstarted_ids] in *; try discriminate.
    + destruct o; try discriminate. repeat (apply andb_prop in Hok as [Hok ?]). apply negb_true_iff in Hok.
      specialize (IH _ _ H). rewrite lids_app in IH. cbn [lids_of map fst snd] in IH. rewrite <- app_assoc in IH. apply IH.
      apply NoDup_snoc; [exact Hnd|]. intros Hin. apply lhas_id_in in Hin. congruence.
    + destruct o; try discriminate. repeat (apply andb_prop in Hok as [Hok ?]). apply negb_true_iff in Hok.
      specialize (IH _ _ H). rewrite lids_app in IH. cbn [lids_of map fst snd] in IH. rewrite <- app_assoc in IH. apply IH.
      apply NoDup_snoc; [exact Hnd|]. intros Hin. apply lhas_id_in in Hin. congruence.
    + destruct (nth_error st i) as [[[k id] h]|] eqn:Hst; destruct o; try discriminate; cbn [lstarted_ids].
      * apply andb_prop in Hok as [_ Hok]. destruct (lh_out h); apply andb_prop in Hok as [_ Hok].
        -- apply (IH _ _ Hok Hnd).
        -- specialize (IH _ _ Hok). erewrite lids_upd in IH by eassumption. apply IH. exact Hnd.
      * apply (IH _ _ Hok Hnd).
    + destruct (nth_error st i) as [[[k id] h]|] eqn:Hst; destruct o; try discriminate; cbn [lstarted_ids].
      * apply andb_prop in Hok as [_ Hok]. destruct (N.eqb code 0).
        -- repeat (apply andb_prop in Hok as [Hok ?]). specialize (IH _ _ H). erewrite lids_upd in IH by eassumption. apply IH. exact Hnd.
        -- apply andb_prop in Hok as [_ Hok]. apply (IH _ _ Hok Hnd).
      * apply (IH _ _ Hok Hnd).
    + destruct (nth_error st i) as [[[k id] h]|] eqn:Hst; destruct o; try discriminate; cbn [lstarted_ids]; apply (IH _ _ Hok Hnd).
    + destruct o; try discriminate. cbn [lstarted_ids]. repeat (apply andb_prop in Hok as [Hok ?]). apply (IH _ _ H Hnd).
Qed.

Definition lbudget (st : list lrec) (i : nat) : nat :=
  match nth_error st i with Some (_, _, h) => if lh_out h then 0 else 1 | None => 1 end.

Lemma lbudget_le1 : forall st j, lbudget st j <= 1.
Proof. intros. unfold lbudget. destruct (nth_error st j) as [[[? ?] h]|]; [destruct (lh_out h)|]; lia. Qed.
Lemma lbudget_none : forall st j, length st <= j -> lbudget st j = 1.
Proof. intros st j H. unfold lbudget. rewrite (proj2 (nth_error_None st j) H). reflexivity. Qed.
Lemma lbudget_app1 : forall st r j, j < length st -> lbudget (st ++ [r]) j = lbudget st j.
Proof. intros. unfold lbudget. rewrite nth_error_app1 by assumption. reflexivity. Qed.
Lemma levs_eqb_eq : forall a b, levs_eqb a b = true -> a = b.
Proof.
  apply list_eqb_eq. intros [i r] [j q] H. unfold lev_eqb in H. cbn in H. apply andb_prop in H as [H1 H2].
  apply Nat.eqb_eq in H1. subst. f_equal.
  destruct r, q; cbn in H2; try discriminate; try reflexivity; apply N.eqb_eq in H2; congruence.
Qed.

(* at most one outcome per timer, none after its outcome *)
Lemma lok_one_outcome : forall b xs st os, lok b st xs os = true ->
  forall i, count_for i (levents_of os) <= lbudget st i.
Proof.
  intros b. induction xs as [|x xs IH]; intros st os Hok j.
  - destruct os; [cbn; lia|discriminate].
  - destruct x as [k|k|i|i r|i|]; destruct os as [|o os]; cbn [lok levents_of] in *; try discriminate.
    + destruct o; try discriminate. repeat (apply andb_prop in Hok as [Hok ?]). apply levs_eqb_eq in H0. subst v. cbn [app].
      specialize (IH _ _ H j).
      destruct (Nat.lt_ge_cases j (length st)) as [Hl|Hl].
      * rewrite lbudget_app1 in IH by exact Hl. exact IH.
      * rewrite (lbudget_none st j Hl). pose proof (lbudget_le1 (st ++ [(k, id, {| lh_started := true; lh_clr := false; lh_out := false |})]) j). lia.
    + destruct o; try discriminate. repeat (apply andb_prop in Hok as [Hok ?]). apply levs_eqb_eq in H0. subst v. cbn [app].
      specialize (IH _ _ H j). unfold count_for in *. cbn [filter fst].
      destruct (Nat.eqb (length st) j) eqn:Ej.
      * apply Nat.eqb_eq in Ej. subst j. unfold lbudget in IH. rewrite nth_app_last in IH. cbn in IH. cbn [length].
        rewrite (lbudget_none st (length st) (le_n _)). lia.
      * apply Nat.eqb_neq in Ej. destruct (Nat.lt_ge_cases j (length st)) as [Hl|Hl].
        -- rewrite lbudget_app1 in IH by exact Hl. exact IH.
        -- rewrite (lbudget_none st j Hl). etransitivity; [exact IH|apply lbudget_le1].
    + destruct (nth_error st i) as [[[k id] h]|] eqn:Hst; destruct o; try discriminate.
      * apply andb_prop in Hok as [Hv Hok]. apply levs_eqb_eq in Hv. subst v. cbn [app].
        destruct (lh_out h) eqn:Ho; apply andb_prop in Hok as [_ Hok].
        -- apply (IH _ _ Hok j).
        -- specialize (IH _ _ Hok j). unfold lbudget in *. destruct (Nat.eq_dec j i) as [->|Hne].
           ++ erewrite nth_upd_same in IH by eassumption. rewrite Hst, Ho. exact IH.
           ++ rewrite nth_upd_other in IH by congruence. exact IH.
      * apply (IH _ _ Hok j).
    + destruct (nth_error st i) as [[[k id] h]|] eqn:Hst; destruct o; try discriminate.
      * apply andb_prop in Hok as [_ Hok]. destruct (N.eqb code 0).
        -- repeat (apply andb_prop in Hok as [Hok ?]). apply levs_eqb_eq in H0. subst v. cbn [app].
           match goal with Hx : negb (lh_out h) = true |- _ => apply negb_true_iff in Hx; rename Hx into Ho end.
           specialize (IH _ _ H j). unfold lbudget, count_for in *. cbn [filter fst].
           destruct (Nat.eq_dec j i) as [->|Hne].
           ++ erewrite nth_upd_same in IH by eassumption. cbn in IH. rewrite Nat.eqb_refl, Hst, Ho. cbn [length]. lia.
           ++ rewrite nth_upd_other in IH by congruence. destruct (Nat.eqb i j) eqn:E; [apply Nat.eqb_eq in E; congruence|]. exact IH.
        -- apply andb_prop in Hok as [Hv Hok]. apply levs_eqb_eq in Hv. subst v. cbn [app]. apply (IH _ _ Hok j).
      * apply (IH _ _ Hok j).
    + destruct (nth_error st i) as [[[k id] h]|] eqn:Hst; destruct o; try discriminate; apply (IH _ _ Hok j).
    + destruct o; try discriminate. repeat (apply andb_prop in Hok as [Hok ?]). apply levs_eqb_eq in H0. subst v. cbn [app].
      apply (IH _ _ H j).
Qed.
