From Coq Require Import List NArith Bool Arith Lia.
From Crux Require Import Timer.Machine Timer.MachineProofs Timer.Mixed.
Import ListNotations.

Lemma memN_in : forall x l, memN x l = true <-> In x l.
Proof.
  intros x l. induction l as [|y l IH]; cbn; [split; [discriminate|tauto]|].
  rewrite orb_true_iff, IH, N.eqb_eq. split; intros [H|H]; auto.
Qed.
Lemma nodupb_NoDup : forall l, nodupb l = true <-> NoDup l.
Proof.
  induction l as [|x l IH]; cbn; [split; [constructor|reflexivity]|].
  rewrite andb_true_iff, negb_true_iff, IH. split.
  - intros [H1 H2]. constructor; [|exact H2]. intros Hin. apply memN_in in Hin. congruence.
  - intros H. inversion H; subst. split; [|assumption].
    destruct (memN x l) eqn:E; [|reflexivity]. apply memN_in in E. contradiction.
Qed.

Lemma nodup_map_seq : forall c0 n a, (N.of_nat (a + n) <= USIZE)%N -> NoDup (map (mix_id c0) (seq a n)).
Proof.
  intros c0. induction n as [|n IH]; intros a Hb; cbn; constructor.
  - intros Hin. apply in_map_iff in Hin as [j [E Hj]]. apply in_seq in Hj.
    apply (nth_id_inj c0 j a) in E; lia.
  - apply IH. lia.
Qed.

Theorem mixed_ids_unique : forall c0 apis, (N.of_nat (length apis) <= USIZE)%N ->
  C18_ok_mixed (mixed_ids c0 apis) = true /\ length (mixed_ids c0 apis) = length apis.
Proof.
  intros c0 apis Hn. unfold C18_ok_mixed, mixed_ids. split; [|rewrite map_length, seq_length; reflexivity].
  apply nodupb_NoDup. apply nodup_map_seq. exact Hn.
Qed.
