(* Theorems about the outcome automaton of Spec.v itself: what every ACCEPTED (inputs, observations)
   pair satisfies, for all sequences (induction over the sequence with the history generalised).
   They apply to the model's traces (accepted for all inputs, MachineProofs.v) and to every
   implementation trace the check finds accepted. *)
From Coq Require Import List NArith Bool Arith Lia.
From Crux Require Import Timer.Machine Timer.Spec.
Import ListNotations.

(* ------------------------------------------------------------------ *)
Lemma eff_eqb_eq : forall a b, eff_eqb a b = true -> a = b.
Proof. intros [x|x|x] [y|y|y] H; cbn in H; try discriminate; apply N.eqb_eq in H; congruence. Qed.
Lemma outcome_eqb_eq : forall a b, outcome_eqb a b = true -> a = b.
Proof. intros [x|] [y|] H; cbn in H; try discriminate; try reflexivity; apply N.eqb_eq in H; congruence. Qed.
Lemma list_eqb_eq : forall A (f : A -> A -> bool), (forall a b, f a b = true -> a = b) ->
  forall l1 l2, list_eqb f l1 l2 = true -> l1 = l2.
Proof.
  intros A f Hf. induction l1 as [|a l1 IH]; intros [|b l2] H; cbn in H; try discriminate; [reflexivity|].
  apply andb_prop in H as [H1 H2]. f_equal; auto.
Qed.
Lemma effs_eqb_eq : forall a b, effs_eqb a b = true -> a = b.
Proof. apply list_eqb_eq, eff_eqb_eq. Qed.
Lemma outs_eqb_eq : forall a b, outs_eqb a b = true -> a = b.
Proof. apply list_eqb_eq, outcome_eqb_eq. Qed.
Lemma is_nil_eq : forall A (l : list A), is_nil l = true -> l = [].
Proof. intros A [|a l] H; [reflexivity|discriminate]. Qed.

(* what an accepted run of the command looks like, clause by clause *)
Inductive poll_shape (k : tkind) (id : N) (h : hist) : list eff -> list outcome -> bool -> Prop :=
| PsAfter : h_out h || h_done h = true -> poll_shape k id h [] [] true
| PsSilentCleared : h_out h || h_done h = false -> h_started h = false -> h_app h = true ->
    poll_shape k id h [] [Cleared] true
| PsStart : h_out h || h_done h = false -> h_started h = false -> h_app h = false ->
    poll_shape k id h [start_eff k id] [] false
| PsCompleted : h_out h || h_done h = false -> h_started h = true -> h_clr h = false -> h_pend h = true ->
    poll_shape k id h [] [Completed id] true
| PsClear : h_out h || h_done h = false -> h_started h = true -> h_clr h = false -> h_pend h = false ->
    h_app h = true -> poll_shape k id h [EClear id] [] false
| PsWait : forall d, h_out h || h_done h = false -> h_started h = true -> h_clr h = false -> h_pend h = false ->
    h_app h = false -> (d = true -> h_drop h = true /\ h_hdl h = false) -> poll_shape k id h [] [] d
| PsCleared : h_out h || h_done h = false -> h_started h = true -> h_clr h = true -> h_ans h = true ->
    poll_shape k id h [] [Cleared] true
| PsWaitClr : forall d, h_out h || h_done h = false -> h_started h = true -> h_clr h = true -> h_ans h = false ->
    (d = true -> h_drop h = true) -> poll_shape k id h [] [] d.

Lemma chk_poll_shape : forall k id h e v d, chk_poll k id h e v d = true -> poll_shape k id h e v d.
Proof.
  intros k id h e v d H. unfold chk_poll in H.
  destruct (h_out h || h_done h) eqn:Hod.
  { apply andb_prop in H as [H Hd]. apply andb_prop in H as [He Hv].
    apply is_nil_eq in He, Hv. subst. apply PsAfter. exact Hod. }
  destruct (h_started h) eqn:Hs; cbn [negb] in H.
  2:{ destruct (h_app h) eqn:Ha; apply andb_prop in H as [H Hd]; apply andb_prop in H as [He Hv].
      - apply is_nil_eq in He. apply outs_eqb_eq in Hv. subst. apply PsSilentCleared; assumption.
      - apply effs_eqb_eq in He. apply is_nil_eq in Hv. apply negb_true_iff in Hd. subst. apply PsStart; assumption. }
  destruct (h_clr h) eqn:Hc; cbn [negb] in H.
  - destruct (h_ans h) eqn:Hn; apply andb_prop in H as [H Hd]; apply andb_prop in H as [He Hv].
    + apply is_nil_eq in He. apply outs_eqb_eq in Hv. subst. apply PsCleared; assumption.
    + apply is_nil_eq in He, Hv. subst. apply PsWaitClr; try assumption.
      intros ->. cbn in Hd. exact Hd.
  - destruct (h_pend h) eqn:Hp.
    + apply andb_prop in H as [H Hd]; apply andb_prop in H as [He Hv].
      apply is_nil_eq in He. apply outs_eqb_eq in Hv. subst. apply PsCompleted; assumption.
    + destruct (h_app h) eqn:Ha; apply andb_prop in H as [H Hd]; apply andb_prop in H as [He Hv].
      * apply effs_eqb_eq in He. apply is_nil_eq in Hv. apply negb_true_iff in Hd. subst. apply PsClear; assumption.
      * apply is_nil_eq in He, Hv. subst. apply PsWait; try assumption.
        intros ->. cbn in Hd. apply andb_prop in Hd as [H1 H2]. apply negb_true_iff in H2. auto.
Qed.

(* ------------------------------------------------------------------ *)
(* one accepted, non-bad step, by cases; the history is opened into its flags *)
Ltac open_step Hst Hg :=
  unfold hstep in Hst;
  match type of Hst with context [h_bad ?h] => destruct h as [hs hp hf ha hh hc hn hd ho hdn hb] end;
  cbn [h_bad h_started h_pend h_fired h_app h_hdl h_clr h_ans h_drop h_out h_done] in *;
  subst;
  match type of Hst with
  | context [match ?x with IPoll => _ | _ => _ end] =>
      destruct x as [|r| | | |r| ]; cbn [good_in] in Hg;
      match type of Hst with context [match ?o with OPoll _ _ _ => _ | _ => _ end] =>
        destruct o as [e v d|c| | | ]; try discriminate Hst end
  end.

Ltac ifs H := repeat match type of H with
  | context [if ?b then _ else _] => let E := fresh "E" in destruct b eqn:E; try discriminate H
  end.

Definition hwf (h : hist) : bool :=
  implb (h_clr h) (h_app h && h_started h) && implb (h_ans h) (h_clr h) &&
  implb (h_app h) (negb (h_hdl h)) && implb (h_pend h) (h_started h && negb (h_clr h)) &&
  implb (h_out h) (h_done h) &&
  implb (h_done h && negb (h_out h))
        (h_started h && negb (h_pend h) && negb (h_hdl h) && (h_clr h || negb (h_app h)) && implb (h_clr h) (negb (h_ans h))).

Lemma hwf0 : hwf hist0 = true.
Proof. reflexivity. Qed.

Ltac bsolve := subst; repeat match goal with b : bool |- _ => destruct b end; cbn in *; try discriminate; try (split; reflexivity); try reflexivity.

Lemma hstep_good : forall k id h x o h', hstep k id h x o = Some h' -> h_bad h = false ->
  good_in k id x = true -> hwf h = true -> h_bad h' = false /\ hwf h' = true.
Proof.
  intros k id h x o h' Hst Hb Hg Hw.
  open_step Hst Hg.
  - destruct (chk_poll _ _ _ _ _ _) eqn:Hc; [|discriminate]. inversion Hst; subst; clear Hst.
    apply chk_poll_shape in Hc. unfold hwf in *. cbn in Hw.
    inversion Hc; subst; cbn in *; bsolve;
      exfalso; match goal with H : true = true -> _ |- _ => specialize (H eq_refl); intuition discriminate end.
  - rewrite Hg in Hst. ifs Hst; inversion Hst; subst; unfold hwf in *; cbn in *; bsolve.
  - ifs Hst; inversion Hst; subst; unfold hwf in *; cbn in *; bsolve.
  - inversion Hst; subst; unfold hwf in *; cbn in *; bsolve.
  - inversion Hst; subst; unfold hwf in *; cbn in *; bsolve.
  - rewrite Hg in Hst. ifs Hst; inversion Hst; subst; unfold hwf in *; cbn in *; bsolve.
  - ifs Hst; inversion Hst; subst; unfold hwf in *; cbn in *; bsolve.
Qed.

(* ------------------------------------------------------------------ *)
Section One.
Variables (k : tkind) (id : N).

(* common set-up of an induction over an accepted, good trace *)
Lemma ok1_step : forall h x xs o os, ok1 k id h (x :: xs) (o :: os) = true -> h_bad h = false ->
  hwf h = true -> good k id (x :: xs) = true ->
  is_panic o = false /\ good_in k id x = true /\ good k id xs = true /\
  exists h', hstep k id h x o = Some h' /\ ok1 k id h' xs os = true /\ h_bad h' = false /\ hwf h' = true.
Proof.
  intros h x xs o os Hok Hb Hw Hg. cbn [ok1] in Hok. unfold good in Hg. cbn [forallb] in Hg.
  apply andb_prop in Hg as [Hg1 Hg2].
  destruct (is_panic o) eqn:Hp. { rewrite Hb in Hok. discriminate. }
  destruct (hstep k id h x o) as [h'|] eqn:Hst; [|discriminate].
  destruct (hstep_good _ _ _ _ _ _ Hst Hb Hg1 Hw) as [Hb' Hw'].
  repeat split; auto. exists h'. auto.
Qed.

Ltac setup xs :=
  induction xs as [|x xs IH]; intros h os Hok Hb Hw Hg; destruct os as [|o os]; cbn [ok1] in Hok; try discriminate;
  [ | destruct (ok1_step _ _ _ _ _ Hok Hb Hw Hg) as [Hp [Hg1 [Hg2 [h' [Hst [Hok' [Hb' Hw']]]]]]];
      specialize (IH h' os Hok' Hb' Hw' Hg2); clear Hok Hg ].

Ltac poll_case Hst Hc :=
  destruct (chk_poll _ _ _ _ _ _) eqn:Hc; [|discriminate Hst]; inversion Hst; subst; clear Hst;
  apply chk_poll_shape in Hc; inversion Hc; subst; clear Hc;
  cbn [h_bad h_started h_pend h_fired h_app h_hdl h_clr h_ans h_drop h_out h_done] in *;
  repeat match goal with H : _ || _ = false |- _ => apply orb_false_elim in H; destruct H end; subst.

(* A: at most one outcome, and none after the outcome or after the command reported done *)
Lemma one_outcome_gen : forall xs h os, ok1 k id h xs os = true -> h_bad h = false -> hwf h = true ->
  good k id xs = true -> length (events_of os) <= (if h_out h || h_done h then 0 else 1).
Proof.
  setup xs. { cbn. destruct (_ || _); lia. }
  open_step Hst Hg1; cbn [events_of].
  - poll_case Hst Hc; cbn in *; rewrite ?app_length; cbn [length];
      try (destruct ho, hdn; try discriminate); try destruct d; cbn in *; lia.
  - rewrite Hg1 in Hst. ifs Hst; inversion Hst; subst; cbn in *; exact IH.
  - ifs Hst; inversion Hst; subst; cbn in *; exact IH.
  - inversion Hst; subst; cbn in *; exact IH.
  - inversion Hst; subst; cbn in *; exact IH.
  - rewrite Hg1 in Hst. ifs Hst; inversion Hst; subst; cbn in *; exact IH.
  - ifs Hst; inversion Hst; subst; cbn in *; exact IH.
Qed.

Ltac others Hst Hg1 := try rewrite Hg1 in Hst; ifs Hst; inversion Hst; subst; clear Hst; cbn in *.

(* B: Completed only if the shell answered the request, and it carries the timer's own id *)
Lemma completed_gen : forall xs h os, ok1 k id h xs os = true -> h_bad h = false -> hwf h = true ->
  good k id xs = true -> forall i, In (Completed i) (events_of os) ->
  i = id /\ (h_pend h = true \/ answered k id xs os = true).
Proof.
  setup xs. { intros i []. }
  intros i Hin. open_step Hst Hg1; cbn [events_of answered] in *.
  - poll_case Hst Hc; cbn in *;
      try (destruct Hin as [Hin|Hin]; [inversion Hin; subst; auto|]); try discriminate;
      destruct (IH i Hin) as [? [Hq|Hq]]; try discriminate; auto.
  - others Hst Hg1; destruct (IH i Hin) as [? [Hq|Hq]]; split; auto; rewrite ?E, ?Hg1, ?Hq, ?orb_true_r; cbn; auto.
  - others Hst Hg1; destruct (IH i Hin) as [? [Hq|Hq]]; split; auto.
  - others Hst Hg1; destruct (IH i Hin) as [? [Hq|Hq]]; split; auto.
  - others Hst Hg1; destruct (IH i Hin) as [? [Hq|Hq]]; split; auto.
  - others Hst Hg1; destruct (IH i Hin) as [? [Hq|Hq]]; split; auto.
  - others Hst Hg1; destruct (IH i Hin) as [? [Hq|Hq]]; split; auto.
Qed.

(* C: Cleared only if the app cleared the timer *)
Lemma cleared_gen : forall xs h os, ok1 k id h xs os = true -> h_bad h = false -> hwf h = true ->
  good k id xs = true -> In Cleared (events_of os) ->
  h_app h = true \/ (h_hdl h = true /\ app_cleared xs = true).
Proof.
  setup xs. { intros []. }
  intros Hin. open_step Hst Hg1; cbn [events_of app_cleared] in *.
  - unfold hwf in Hw. cbn in Hw. poll_case Hst Hc; cbn in *; auto;
      try (destruct Hin as [Hin|Hin]; [try discriminate|]); auto.
    left. destruct ha; [reflexivity|]. cbn in Hw. discriminate.
  - others Hst Hg1; auto.
  - others Hst Hg1; auto.
  - others Hst Hg1. destruct (IH Hin) as [Hq|[Hq _]]; [|discriminate].
    destruct ha; [auto|]. cbn in Hq. destruct hh; [auto|discriminate].
  - others Hst Hg1. destruct (IH Hin) as [Hq|[Hq _]]; [|discriminate]. rewrite orb_false_r in Hq. auto.
  - others Hst Hg1; auto.
  - others Hst Hg1; auto.
Qed.

(* D: a timer cleared before it was ever requested sends nothing to the shell, ever *)
Definition silent_pre (h : hist) (xs : list tin) : Prop :=
  h_out h || h_done h = true \/
  (h_started h = false /\ (h_app h = true \/ (h_hdl h = true /\ cleared_before_start xs = true))).
Lemma silent_gen : forall xs h os, ok1 k id h xs os = true -> h_bad h = false -> hwf h = true ->
  good k id xs = true -> silent_pre h xs -> effects_of os = [].
Proof.
  setup xs. { reflexivity. }
  intros Hq. unfold silent_pre in *. open_step Hst Hg1; cbn [effects_of cleared_before_start] in *.
  - poll_case Hst Hc; cbn in *; try (apply IH; left; rewrite ?orb_true_r; reflexivity);
      try (destruct Hq as [Hq|[Hq1 [Hq|[_ Hq]]]]; discriminate).
  - others Hst Hg1; apply IH; exact Hq.
  - others Hst Hg1; apply IH; exact Hq.
  - others Hst Hg1. apply IH. unfold live; destruct ho, hdn, hs, ha, hh; cbn in *; intuition congruence.
  - others Hst Hg1. apply IH. destruct ho, hdn, hs, ha, hh; cbn in *; intuition congruence.
  - others Hst Hg1; apply IH; exact Hq.
  - others Hst Hg1; apply IH; exact Hq.
Qed.

(* E: what is ever sent to the shell: the request at most once, then at most one Clear for this id *)
Definition eff_shape (h : hist) (l : list eff) : Prop :=
  if h_out h || h_done h then l = []
  else if negb (h_started h) then l = [] \/ l = [start_eff k id] \/ l = [start_eff k id; EClear id]
  else if negb (h_clr h) then l = [] \/ l = [EClear id]
  else l = [].
Lemma eff_shape_nil : forall h, eff_shape h [].
Proof. intros h. unfold eff_shape. destruct (_ || _), (negb (h_started h)), (negb (h_clr h)); auto. Qed.
Lemma effects_gen : forall xs h os, ok1 k id h xs os = true -> h_bad h = false -> hwf h = true ->
  good k id xs = true -> eff_shape h (effects_of os).
Proof.
  setup xs. { apply eff_shape_nil. }
  open_step Hst Hg1; cbn [effects_of] in *.
  - unfold hwf in Hw; cbn in Hw.
    poll_case Hst Hc; unfold eff_shape in *; cbn in *; rewrite ?orb_true_r in IH; cbn in IH; subst; auto;
      try (destruct d; cbn in IH; rewrite ?orb_true_r in IH; cbn in IH); try (destruct ho, hdn; try discriminate; cbn in *);
      try (destruct hc; cbn in *; try discriminate);
      try (destruct IH as [IH|IH]; rewrite IH); try rewrite IH; auto.
  - others Hst Hg1; exact IH.
  - others Hst Hg1; exact IH.
  - others Hst Hg1; exact IH.
  - others Hst Hg1; exact IH.
  - others Hst Hg1; exact IH.
  - others Hst Hg1; exact IH.
Qed.

(* F: after the outcome (or once the command reported done) every run is empty: late clears,
   answers, drops are ignored *)
Lemma quiet_gen : forall xs h os, ok1 k id h xs os = true -> h_bad h = false -> hwf h = true ->
  good k id xs = true -> h_out h || h_done h = true -> Forall quiet_obs os.
Proof.
  setup xs. { constructor. }
  intros Hq. open_step Hst Hg1.
  - poll_case Hst Hc; cbn in *; try discriminate.
    constructor; [cbn; auto|]. apply IH. destruct ho, hdn; try discriminate; reflexivity.
  - others Hst Hg1; (constructor; [exact I|apply IH; exact Hq]).
  - others Hst Hg1; (constructor; [exact I|apply IH; exact Hq]).
  - others Hst Hg1; (constructor; [exact I|apply IH; exact Hq]).
  - others Hst Hg1; (constructor; [exact I|apply IH; exact Hq]).
  - others Hst Hg1; (constructor; [exact I|apply IH; exact Hq]).
  - others Hst Hg1; (constructor; [exact I|apply IH; exact Hq]).
Qed.

(* G: under responses of the right kind and id nothing panics, and every input is observed *)
Lemma nopanic_gen : forall xs h os, ok1 k id h xs os = true -> h_bad h = false -> hwf h = true ->
  good k id xs = true -> ~ In OPanic os /\ length os = length xs.
Proof.
  setup xs. { split; [intros []|reflexivity]. }
  destruct IH as [IH1 IH2]. split.
  - intros [Hin|Hin]; [subst; discriminate|auto].
  - cbn. congruence.
Qed.

(* H: the command reports done without an outcome only if the shell dropped a request of this
   timer: dropping the handle alone never ends the timer *)
Definition has_done (os : list obs) : Prop := exists e v, In (OPoll e v true) os.
Lemma done_gen : forall xs h os, ok1 k id h xs os = true -> h_bad h = false -> hwf h = true ->
  good k id xs = true -> h_out h || h_done h = false -> has_done os -> events_of os = [] ->
  h_drop h = true \/ req_dropped xs os = true.
Proof.
  setup xs. { intros _ [e [v []]]. }
  intros Hl [e0 [v0 Hin]] Hev. open_step Hst Hg1; cbn [events_of req_dropped] in *.
  - apply app_eq_nil in Hev as [Hv Hev]. subst.
    poll_case Hst Hc; cbn in *; try discriminate.
    + destruct Hin as [Hin|Hin]; [discriminate|]. apply IH; auto. exists e0, v0; exact Hin.
    + destruct Hin as [Hin|Hin]; [discriminate|]. apply IH; auto. exists e0, v0; exact Hin.
    + destruct d. { left. match goal with
        | H : true = true -> _ /\ _ |- _ => destruct (H eq_refl) as [Hx _]; exact Hx
        | H : true = true -> _ |- _ => exact (H eq_refl) end. }
      destruct Hin as [Hin|Hin]; [discriminate|]. apply IH; auto. exists e0, v0; exact Hin.
    + destruct d. { left. match goal with
        | H : true = true -> _ /\ _ |- _ => destruct (H eq_refl) as [Hx _]; exact Hx
        | H : true = true -> _ |- _ => exact (H eq_refl) end. }
      destruct Hin as [Hin|Hin]; [discriminate|]. apply IH; auto. exists e0, v0; exact Hin.
  - destruct Hin as [Hin|Hin]; [discriminate|]. others Hst Hg1; apply IH; auto; exists e0, v0; exact Hin.
  - destruct Hin as [Hin|Hin]; [discriminate|]. others Hst Hg1; rewrite ?E; cbn; auto;
      try (apply IH; auto; exists e0, v0; exact Hin).
  - destruct Hin as [Hin|Hin]; [discriminate|]. others Hst Hg1; apply IH; auto; exists e0, v0; exact Hin.
  - destruct Hin as [Hin|Hin]; [discriminate|]. others Hst Hg1; apply IH; auto; exists e0, v0; exact Hin.
  - destruct Hin as [Hin|Hin]; [discriminate|]. others Hst Hg1; apply IH; auto; exists e0, v0; exact Hin.
  - destruct Hin as [Hin|Hin]; [discriminate|]. others Hst Hg1; rewrite ?E; cbn; auto;
      try (apply IH; auto; exists e0, v0; exact Hin).
Qed.
End One.

(* ------------------------------------------------------------------ *)
Lemma ok1_firstn : forall k id n xs h os, ok1 k id h xs os = true ->
  ok1 k id h (firstn n xs) (firstn n os) = true.
Proof.
  intros k id. induction n as [|n IH]; intros xs h os H; [reflexivity|].
  destruct xs as [|x xs], os as [|o os]; cbn in *; try discriminate; try reflexivity.
  destruct (is_panic o).
  - apply andb_prop in H as [H1 H2]. apply is_nil_eq in H2. subst. rewrite H1, firstn_nil. reflexivity.
  - destruct (hstep k id h x o); [apply IH; exact H|discriminate].
Qed.
Lemma good_firstn : forall k id n xs, good k id xs = true -> good k id (firstn n xs) = true.
Proof.
  intros k id. induction n as [|n IH]; intros [|x xs] H; cbn in *; try reflexivity.
  apply andb_prop in H as [H1 H2]. rewrite H1. apply IH. exact H2.
Qed.

Section Final.
Variables (k : tkind) (id : N) (xs : list tin) (os : list obs).
Hypothesis Hacc : C18_ok1 k id xs os = true.
Hypothesis Hgood : good k id xs = true.

Theorem acc_one_outcome : length (events_of os) <= 1.
Proof. exact (one_outcome_gen k id xs hist0 os Hacc eq_refl eq_refl Hgood). Qed.

Theorem acc_completed_only_if_answered : forall n i,
  In (Completed i) (events_of (firstn n os)) -> i = id /\ answered k id (firstn n xs) (firstn n os) = true.
Proof.
  intros n i Hin.
  destruct (completed_gen k id _ hist0 _ (ok1_firstn k id n _ _ _ Hacc) eq_refl eq_refl (good_firstn k id n _ Hgood) i Hin)
    as [H1 [H2|H2]]; [discriminate|auto].
Qed.

Theorem acc_cleared_only_if_cleared : forall n,
  In Cleared (events_of (firstn n os)) -> app_cleared (firstn n xs) = true.
Proof.
  intros n Hin.
  destruct (cleared_gen k id _ hist0 _ (ok1_firstn k id n _ _ _ Hacc) eq_refl eq_refl (good_firstn k id n _ Hgood) Hin)
    as [H|[_ H]]; [discriminate|exact H].
Qed.

Theorem acc_clear_before_start_silent : cleared_before_start xs = true -> effects_of os = [].
Proof.
  intros H. apply (silent_gen k id xs hist0 os Hacc eq_refl eq_refl Hgood). right. cbn. auto.
Qed.

Theorem acc_effects_shape :
  effects_of os = [] \/ effects_of os = [start_eff k id] \/ effects_of os = [start_eff k id; EClear id].
Proof. exact (effects_gen k id xs hist0 os Hacc eq_refl eq_refl Hgood). Qed.

Theorem acc_no_panic : ~ In OPanic os /\ length os = length xs.
Proof. exact (nopanic_gen k id xs hist0 os Hacc eq_refl eq_refl Hgood). Qed.

Theorem acc_done_only_if_request_dropped : forall n,
  has_done (firstn n os) -> events_of (firstn n os) = [] -> req_dropped (firstn n xs) (firstn n os) = true.
Proof.
  intros n Hd He.
  destruct (done_gen k id _ hist0 _ (ok1_firstn k id n _ _ _ Hacc) eq_refl eq_refl (good_firstn k id n _ Hgood) eq_refl Hd He)
    as [H|H]; [discriminate|exact H].
Qed.
End Final.

(* the state of the automaton after an accepted prefix *)
Fixpoint hrun (k : tkind) (id : N) (h : hist) (xs : list tin) (os : list obs) : option hist :=
  match xs, os with
  | x :: xs', o :: os' => match hstep k id h x o with Some h' => hrun k id h' xs' os' | None => None end
  | _, _ => Some h
  end.

Lemma ok1_app : forall k id xs1 os1 xs2 os2 h, length xs1 = length os1 ->
  ok1 k id h (xs1 ++ xs2) (os1 ++ os2) = true -> h_bad h = false -> hwf h = true -> good k id (xs1 ++ xs2) = true ->
  exists h', hrun k id h xs1 os1 = Some h' /\ ok1 k id h' xs2 os2 = true /\ h_bad h' = false /\ hwf h' = true
             /\ (h_out h' || h_done h' = true \/ (h_out h || h_done h = false -> events_of os1 = [] /\ ~ has_done os1)).
Proof.
  intros k id. induction xs1 as [|x xs1 IH]; intros [|o os1] xs2 os2 h Hl Hok Hb Hw Hg; cbn in Hl; try discriminate.
  - exists h. cbn. repeat split; auto. right. intros _. split; [reflexivity|]. intros [e [v []]].
  - cbn [app] in *. destruct (ok1_step k id _ _ _ _ _ Hok Hb Hw Hg) as [Hp [Hg1 [Hg2 [h1 [Hst [Hok1 [Hb1 Hw1]]]]]]].
    injection Hl as Hl. destruct (IH os1 xs2 os2 h1 Hl Hok1 Hb1 Hw1 Hg2) as [h' [Hr [Hok' [Hb' [Hw' Hev]]]]].
    exists h'. cbn [hrun]. rewrite Hst. repeat split; auto.
    destruct Hev as [Hev|Hev]; [left; exact Hev|].
    destruct (h_out h1 || h_done h1) eqn:Hod1.
    + (* the outcome/done was observed at this very step, or before: then it persists *)
      left. clear - Hok1 Hb1 Hw1 Hg2 Hod1 Hr Hl.
      revert h1 os1 Hl Hok1 Hb1 Hw1 Hg2 Hod1 Hr. clear. revert xs2 os2.
      induction xs1 as [|y ys IHy]; intros xs2 os2 h1 [|p ps] Hl Hok Hb Hw Hg Hod Hr; cbn in Hl; try discriminate.
      * cbn in Hr. inversion Hr; subst. exact Hod.
      * cbn [app] in *. destruct (ok1_step k id _ _ _ _ _ Hok Hb Hw Hg) as [_ [Hg1 [Hg2 [h2 [Hst [Hok2 [Hb2 Hw2]]]]]]].
        cbn [hrun] in Hr. rewrite Hst in Hr. injection Hl as Hl.
        apply (IHy xs2 os2 h2 ps Hl Hok2 Hb2 Hw2 Hg2); [|exact Hr].
        clear - Hst Hod Hb Hg1. open_step Hst Hg1.
        -- destruct (chk_poll _ _ _ _ _ _); [|discriminate]. inversion Hst; subst. cbn in *.
           destruct ho, hdn; cbn in *; try discriminate; rewrite ?orb_true_r; reflexivity.
        -- rewrite Hg1 in Hst. ifs Hst; inversion Hst; subst; cbn in *; exact Hod.
        -- ifs Hst; inversion Hst; subst; cbn in *; exact Hod.
        -- inversion Hst; subst; cbn in *; exact Hod.
        -- inversion Hst; subst; cbn in *; exact Hod.
        -- rewrite Hg1 in Hst. ifs Hst; inversion Hst; subst; cbn in *; exact Hod.
        -- ifs Hst; inversion Hst; subst; cbn in *; exact Hod.
    + right. intros Hod. destruct (Hev eq_refl) as [He Hd].
      clear - Hst Hod Hod1 He Hd Hg1 Hb. open_step Hst Hg1; cbn [events_of].
      * destruct (chk_poll _ _ _ _ _ _); [|discriminate]. inversion Hst; subst. cbn in *.
        apply orb_false_elim in Hod1 as [H1 H2]. apply orb_false_elim in H1 as [_ H1]. apply orb_false_elim in H2 as [_ H2].
        apply negb_false_iff in H1. apply is_nil_eq in H1. subst. split; [exact He|].
        intros [e0 [v0 [Hin|Hin]]]; [inversion Hin|apply Hd; exists e0, v0; exact Hin].
      * split; [exact He|]. intros [e0 [v0 [Hin|Hin]]]; [discriminate|apply Hd; exists e0, v0; exact Hin].
      * split; [exact He|]. intros [e0 [v0 [Hin|Hin]]]; [discriminate|apply Hd; exists e0, v0; exact Hin].
      * split; [exact He|]. intros [e0 [v0 [Hin|Hin]]]; [discriminate|apply Hd; exists e0, v0; exact Hin].
      * split; [exact He|]. intros [e0 [v0 [Hin|Hin]]]; [discriminate|apply Hd; exists e0, v0; exact Hin].
      * split; [exact He|]. intros [e0 [v0 [Hin|Hin]]]; [discriminate|apply Hd; exists e0, v0; exact Hin].
      * split; [exact He|]. intros [e0 [v0 [Hin|Hin]]]; [discriminate|apply Hd; exists e0, v0; exact Hin].
Qed.

(* late inputs are ignored: once an outcome has been reported (or the command reported done),
   every later run of the command is empty and still done *)
Theorem acc_late_ignored : forall k id xs1 os1 xs2 os2, length xs1 = length os1 ->
  C18_ok1 k id (xs1 ++ xs2) (os1 ++ os2) = true -> good k id (xs1 ++ xs2) = true ->
  events_of os1 <> [] \/ has_done os1 -> Forall quiet_obs os2.
Proof.
  intros k id xs1 os1 xs2 os2 Hl Hacc Hg Hev.
  destruct (ok1_app k id xs1 os1 xs2 os2 hist0 Hl Hacc eq_refl eq_refl Hg) as [h' [_ [Hok [Hb [Hw Hq]]]]].
  assert (Hg2 : good k id xs2 = true).
  { unfold good in *. rewrite forallb_app in Hg. apply andb_prop in Hg as [_ Hg]. exact Hg. }
  apply (quiet_gen k id xs2 h' os2 Hok Hb Hw Hg2).
  destruct Hq as [Hq|Hq]; [exact Hq|]. destruct (Hq eq_refl) as [He Hd]. destruct Hev as [Hev|Hev]; [contradiction|contradiction].
Qed.

(* ------------------------------------------------------------------ *)
Lemma proj_on_nil : forall i xs, proj_on i xs [] = [].
Proof. intros i [|[k|j x] xs]; reflexivity. Qed.
Lemma nth_upd_same : forall A (l : list A) i a b, nth_error l i = Some b -> nth_error (upd_nth l i a) i = Some a.
Proof. induction l as [|c l IH]; intros [|i] a b H; cbn in *; try discriminate; eauto. Qed.
Lemma nth_upd_other : forall A (l : list A) i j a, i <> j -> nth_error (upd_nth l j a) i = nth_error l i.
Proof.
  induction l as [|c l IH]; intros [|i] [|j] a H; cbn; try reflexivity; try congruence.
  apply IH. congruence.
Qed.
Lemma upd_len' : forall A (l : list A) i a, length (upd_nth l i a) = length l.
Proof. induction l as [|b l IH]; intros [|i] a; cbn; auto. Qed.

(* every timer of an accepted run of several timers is accepted by the one-timer automaton *)
Lemma sok_proj_existing : forall xs st os i k id h, sok st xs os = true ->
  nth_error st i = Some (k, id, h) ->
  ok1 k id h (map fst (proj_on i xs os)) (map snd (proj_on i xs os)) = true.
Proof.
  induction xs as [|x xs IH]; intros st os i k id h Hok Hn.
  - destruct os; cbn in *; [reflexivity|discriminate].
  - destruct x as [k'|j y]; destruct os as [|o os]; cbn [sok] in Hok; try discriminate.
    + destruct o; try discriminate. apply andb_prop in Hok as [_ Hok]. cbn [proj_on].
      apply (IH _ _ _ _ _ _ Hok). rewrite nth_error_app1; [exact Hn|]. apply nth_error_Some. congruence.
    + cbn [proj_on]. destruct (Nat.eqb j i) eqn:Hji.
      * apply Nat.eqb_eq in Hji. subst j. rewrite Hn in Hok. cbn [map fst snd ok1].
        destruct (is_panic o).
        -- apply andb_prop in Hok as [H1 H2]. apply is_nil_eq in H2. subst. rewrite H1, proj_on_nil. reflexivity.
        -- destruct (hstep k id h y o) as [h'|]; [|discriminate].
           apply (IH _ _ _ _ _ _ Hok). eapply nth_upd_same; eassumption.
      * apply Nat.eqb_neq in Hji.
        destruct (nth_error st j) as [[[k2 id2] h2]|] eqn:Hj.
        -- destruct (is_panic o).
           ++ apply andb_prop in Hok as [_ H2]. apply is_nil_eq in H2. subst. rewrite proj_on_nil. cbn.
              destruct xs; reflexivity.
           ++ destruct (hstep k2 id2 h2 y o) as [h'|]; [|discriminate].
              apply (IH _ _ _ _ _ _ Hok). rewrite nth_upd_other by congruence. exact Hn.
        -- destruct o; try discriminate. apply (IH _ _ _ _ _ _ Hok). exact Hn.
Qed.

Lemma ok1_nil_r : forall k id h xs, ok1 k id h xs [] = true -> xs = [].
Proof. intros k id h [|x xs] H; [reflexivity|discriminate]. Qed.

Lemma sok_proj_new : forall xs st os i k id l, sok st xs os = true -> length st <= i ->
  timer_view (length st) i xs os = Some (k, id, l) ->
  ok1 k id hist0 (map fst l) (map snd l) = true.
Proof.
  induction xs as [|x xs IH]; intros st os i k id l Hok Hi Hv.
  - destruct os; cbn in Hv; discriminate.
  - destruct x as [k'|j y]; destruct os as [|o os]; cbn [sok timer_view] in *; try discriminate.
    + destruct o; try discriminate. apply andb_prop in Hok as [_ Hok].
      destruct (Nat.eqb (length st) i) eqn:He.
      * apply Nat.eqb_eq in He. inversion Hv; subst.
        apply (sok_proj_existing _ _ _ _ _ _ _ Hok). rewrite nth_error_app2 by lia. rewrite Nat.sub_diag. reflexivity.
      * apply Nat.eqb_neq in He. apply (IH (st ++ [(k', id0, hist0)]) os i k id l Hok).
        -- rewrite app_length. cbn. lia.
        -- rewrite app_length. cbn. rewrite Nat.add_1_r. exact Hv.
    + destruct (nth_error st j) as [[[k2 id2] h2]|] eqn:Hj.
      * destruct (is_panic o).
        -- apply andb_prop in Hok as [_ H2]. apply is_nil_eq in H2. subst. destruct xs as [|[?|? ?] ?]; cbn in Hv; discriminate.
        -- destruct (hstep k2 id2 h2 y o) as [h'|]; [|discriminate].
           apply (IH _ os i k id l Hok); rewrite upd_len'; assumption.
      * destruct o; try discriminate. apply (IH _ os i k id l Hok); assumption.
Qed.

Lemma has_id_in : forall id st, has_id id st = true <-> In id (ids_of st).
Proof.
  intros id st. induction st as [|[[k i] h] st IH]; cbn; [split; [discriminate|tauto]|].
  rewrite orb_true_iff, IH, N.eqb_eq. tauto.
Qed.
Lemma ids_upd : forall st i k id h h', nth_error st i = Some (k, id, h) ->
  ids_of (upd_nth st i (k, id, h')) = ids_of st.
Proof.
  induction st as [|a st IH]; intros [|i] k id h h' Hn; cbn in *; try discriminate.
  - inversion Hn; subst. reflexivity.
  - f_equal. eapply IH; eauto.
Qed.
Lemma ids_of_app : forall a b, ids_of (a ++ b) = ids_of a ++ ids_of b.
Proof. intros. unfold ids_of. apply map_app. Qed.
Lemma NoDup_snoc : forall A (l : list A) a, NoDup l -> ~ In a l -> NoDup (l ++ [a]).
Proof.
  induction l as [|b l IH]; intros a Hnd Hn; cbn.
  - constructor; [intros []|constructor].
  - inversion Hnd; subst. constructor.
    + rewrite in_app_iff. cbn. intros [H|[H|[]]]; [contradiction|]. subst. apply Hn. left. reflexivity.
    + apply IH; [assumption|]. intros H. apply Hn. right. exact H.
Qed.

(* ids handed out in an accepted run are pairwise distinct *)
Lemma sok_ids_nodup : forall xs st os, sok st xs os = true -> NoDup (ids_of st) ->
  NoDup (ids_of st ++ started_ids xs os).
Proof.
  induction xs as [|x xs IH]; intros st os Hok Hnd.
  - destruct os; cbn in *; rewrite ?app_nil_r; [exact Hnd|discriminate].
  - destruct x as [k'|j y]; destruct os as [|o os]; cbn [sok started_ids] in *; try discriminate.
    + destruct o; try discriminate. apply andb_prop in Hok as [Hf Hok]. apply negb_true_iff in Hf.
      specialize (IH _ _ Hok). rewrite ids_of_app in IH. cbn [ids_of map fst snd] in IH.
      rewrite <- app_assoc in IH. cbn [app] in IH. apply IH.
      apply NoDup_snoc; [exact Hnd|]. intros Ha. apply has_id_in in Ha. congruence.
    + destruct (nth_error st j) as [[[k2 id2] h2]|] eqn:Hj.
      * destruct (is_panic o).
        -- apply andb_prop in Hok as [_ H2]. apply is_nil_eq in H2. subst.
           replace (started_ids xs []) with (@nil N) by (destruct xs as [|[?|? ?] ?]; reflexivity).
           rewrite app_nil_r. exact Hnd.
        -- destruct (hstep k2 id2 h2 y o) as [h'|]; [|discriminate].
           specialize (IH _ _ Hok). erewrite ids_upd in IH by eassumption. apply IH. exact Hnd.
      * destruct o; try discriminate. apply IH; assumption.
Qed.
