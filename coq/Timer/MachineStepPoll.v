(* One-step lemma of the invariant for a run of the command (IPoll): exhaustive case analysis over
   phase, oneshot state and channel fields. *)
From Coq Require Import List NArith Bool Arith Lia.
From Crux Require Import Timer.Machine Timer.Spec Timer.SpecProofs Timer.MachineInv.
Import ListNotations.

Lemma step_poll : forall k id os ph wk h,
  inv k id (mkTimer k id os ph wk) h = true -> step_ok k id (mkTimer k id os ph wk) h IPoll.
Proof.
  intros k id os ph wk [hs hp hf ha hh hc hn hd ho hdn hb] Hinv. unfold step_ok.
  destruct hb.
  { (* after a bad response nothing is required *)
    cbn [tstep]. destruct (run _) as [[[t1 e] v] p]. destruct p; cbn; [reflexivity|]. eexists; split; reflexivity. }
  unfold inv in Hinv. cbn [h_bad orb t_ph t_os t_wakes] in Hinv.
  cbn [tstep]. destruct wk as [|n]; [rewrite run_wk0 | rewrite run_wkS].
  - destruct ph as [|rq|rq cl|rq cl].
    + cbn in Hinv; bools; discriminate.
    + destruct os; dchan rq; cbn in Hinv; bools; subst; try discriminate; fin.
    + destruct os; dchan cl; cbn in Hinv; bools; subst; try discriminate; fin.
    + destruct rq as [[[] ? ? ?]|], cl as [[[] ? ? ?]|]; destruct hs, hc, ho, hdn; cbn in Hinv; try discriminate Hinv; fin0.
  - destruct ph as [|rq|rq cl|rq cl].
    + destruct os; cbn in Hinv; bools; subst; try discriminate; destruct k; fin.
    + destruct os; dchan rq; cbn in Hinv; bools; subst; try discriminate;
        try (destruct (class_start k id r) eqn:Hc; try discriminate); cbn; rewrite ?Hc; fin.
    + destruct os; dchan cl; cbn in Hinv; bools; subst; try discriminate;
        try (destruct (class_clear id r) eqn:Hc; try discriminate); cbn; rewrite ?Hc; fin.
    + destruct rq as [[[] ? ? ?]|], cl as [[[] ? ? ?]|]; destruct hs, hc, ho, hdn; cbn in Hinv; try discriminate Hinv; fin0.
Qed.

