(* Proofs about the timer model: the contract lemma poll_stable, the invariant tying the model's
   state to the history automaton of Spec.v, and soundness of C18_ok for ALL input sequences
   (induction over the sequence).  The one-step lemmas are closed by exhaustive case analysis over
   the finite parts of the state (phase, oneshot state, channel fields, history flags). *)
From Coq Require Import List NArith Bool Arith Lia.
From Crux Require Import Timer.Machine Timer.Spec Timer.SpecProofs.
Import ListNotations.

(* ------------------------------------------------------------------ *)
(* ---- poll_stable: a second run of the task with nothing changed in between is a no-op ---- *)
Definition settled (t : timer) : Prop := run_task t = (t, [], [], false).

Ltac dchan c := let tx := fresh "tx" in let buf := fresh "buf" in let rx := fresh "rx" in let w := fresh "w" in
  destruct c as [tx buf rx w]; destruct tx; destruct buf; destruct rx; destruct w.

Lemma run_task_settles : forall t t1 e v,
  run_task t = (t1, e, v, false) -> settled t1.
Proof.
  intros [k id os ph wk] t1 e v H. unfold settled.
  destruct ph as [|rq|rq cl|rq cl].
  - destruct os as [w| |]; cbn in H; inversion H; subst; reflexivity.
  - dchan rq; destruct os as [w'| |]; cbn in H;
      try (destruct (class_start k id r) eqn:Hc; cbn in H); inversion H; subst; reflexivity.
  - dchan cl; destruct os as [w'| |]; cbn in H;
      try (destruct (class_clear id r) eqn:Hc; cbn in H); inversion H; subst; reflexivity.
  - cbn in H. inversion H; subst. reflexivity.
Qed.

Lemma run_n_settled : forall n t, settled t -> run_n n t = (t, [], [], false).
Proof.
  induction n as [|n IH]; intros t Hs; cbn [run_n]; [reflexivity|].
  rewrite Hs. rewrite (IH t Hs). reflexivity.
Qed.

Lemma run_n_S : forall n t,
  run_n (S n) t = let '(t1, e, v, p) := run_task t in (t1, e, v, p).
Proof.
  intros n t. cbn [run_n]. destruct (run_task t) as [[[t1 e] v] p] eqn:H.
  destruct p; [reflexivity|].
  rewrite (run_n_settled n t1 (run_task_settles _ _ _ _ H)). rewrite !app_nil_r. reflexivity.
Qed.

(* ------------------------------------------------------------------ *)
Definition nz (n : nat) : bool := negb (Nat.eqb n 0).
Definition os_rel (o : osst) (h : hist) (wk : nat) : bool :=
  match o with
  | OsOpen w => h_hdl h && negb (h_app h) && (w || nz wk)
  | OsSent => negb (h_hdl h) && h_app h && nz wk
  | OsClosed => negb (h_hdl h) && negb (h_app h)
  end.
Definition tx_live (t : txst) : bool := match t with TLive => true | _ => false end.
Definition buf_rel (cls : resp -> rclass) (c : chan) (pend : bool) (h : hist) (wk : nat) : bool :=
  match c_buf c with
  | Some r => c_rx c && pend && is_ok (cls r) && nz wk
  | None => negb pend && match c_tx c with TLive => c_rx c && (c_w c || nz wk) | TDropped => h_drop h | TUsed => false end
  end.
Definition os_closed (o : osst) : bool := match o with OsClosed => true | _ => false end.

Definition is_some {A} (o : option A) : bool := match o with Some _ => true | None => false end.
Definition inv (k : tkind) (id : N) (t : timer) (h : hist) : bool :=
  h_bad h ||
  match t_ph t with
  | PNew => negb (h_ans h) && negb (h_started h) && negb (h_clr h) && negb (h_out h) && negb (h_done h) && negb (h_pend h)
            && os_rel (t_os t) h (t_wakes t) && nz (t_wakes t)
  | PWait rq => negb (h_ans h) && h_started h && negb (h_clr h) && negb (h_out h) && negb (h_done h)
            && os_rel (t_os t) h (t_wakes t) && buf_rel (class_start k id) rq (h_pend h) h (t_wakes t)
  | PClr rq cl => h_started h && h_clr h && negb (h_out h) && negb (h_done h) && os_closed (t_os t)
            && buf_rel (class_clear id) cl (h_ans h) h (t_wakes t)
  | PFin rq cl => (h_out h || h_done h) && implb (is_some rq) (h_started h) && implb (is_some cl) (h_clr h)
            && (h_out h || match cl with
                           | Some c => negb (tx_live (c_tx c))
                           | None => match rq with Some c => negb (tx_live (c_tx c)) | None => true end
                           end)
  end.

Lemma run_wk0 : forall k id os ph, run (mkTimer k id os ph 0) = (mkTimer k id os ph 0, [], [], false).
Proof. reflexivity. Qed.
Lemma run_wkS : forall k id os ph n,
  run (mkTimer k id os ph (S n)) = let '(t1, e, v, p) := run_task (mkTimer k id os ph 0) in (t1, e, v, p).
Proof. intros. unfold run. cbn [t_wakes set_wakes t_kind t_id t_os t_ph]. apply run_n_S. Qed.

Ltac bools := repeat match goal with
  | H : _ && _ = true |- _ => apply andb_prop in H; destruct H
  | H : negb _ = true |- _ => apply negb_true_iff in H
  | H : _ || _ = true |- _ => apply orb_prop in H; destruct H
  end.
Definition step_ok (k : tkind) (id : N) (t : timer) (h : hist) (x : tin) : Prop :=
  let '(t', o) := tstep t x in
  if is_panic o then h_bad h = true
  else exists h', hstep k id h x o = Some h' /\ inv k id t' h' = true.

Ltac rwc := repeat match goal with
  | H : class_start _ _ _ = _ |- _ => rewrite H
  | H : class_clear _ _ = _ |- _ => rewrite H
  | H : is_ok _ = true |- _ => rewrite H end.
Ltac dbools := repeat match goal with b : bool |- _ => destruct b end.
Ltac fin0 := cbn; rewrite ?N.eqb_refl; rwc; cbn; rewrite ?orb_true_r; cbn;
  first [ discriminate | reflexivity
        | eexists; split; [reflexivity|]; cbn; rewrite ?N.eqb_refl; rwc; cbn; rewrite ?orb_true_r; reflexivity ].
Ltac fin := first [ fin0 | solve [dbools; fin0] | idtac ].

Lemma step_poll : forall k id os ph wk h,
  inv k id (mkTimer k id os ph wk) h = true -> step_ok k id (mkTimer k id os ph wk) h IPoll.
Proof.
  intros k id os ph wk [hs hp hf ha hh hc hn hd ho hdn hb] Hinv. unfold step_ok.
  destruct hb.
  { (* after a bad response nothing is required *)
    cbn [tstep]. destruct (run _) as [[[t1 e] v] p]. destruct p; cbn; [reflexivity|]. eexists; split; reflexivity. }
  unfold inv in Hinv. cbn [h_bad orb t_ph t_os t_wakes] in Hinv.
  cbn [tstep]. destruct wk as [|n]; [rewrite run_wk0 | rewrite run_wkS].
  - destruct ph as [|rq|rq cl|rq cl].
    + cbn in Hinv; bools; discriminate.
    + destruct os; dchan rq; cbn in Hinv; bools; subst; try discriminate; fin.
    + destruct os; dchan cl; cbn in Hinv; bools; subst; try discriminate; fin.
    + destruct rq as [[[] ? ? ?]|], cl as [[[] ? ? ?]|]; destruct hs, hc, ho, hdn; cbn in Hinv; try discriminate Hinv; fin0.
  - destruct ph as [|rq|rq cl|rq cl].
    + destruct os; cbn in Hinv; bools; subst; try discriminate; destruct k; fin.
    + destruct os; dchan rq; cbn in Hinv; bools; subst; try discriminate;
        try (destruct (class_start k id r) eqn:Hc; try discriminate); cbn; rewrite ?Hc; fin.
    + destruct os; dchan cl; cbn in Hinv; bools; subst; try discriminate;
        try (destruct (class_clear id r) eqn:Hc; try discriminate); cbn; rewrite ?Hc; fin.
    + destruct rq as [[[] ? ? ?]|], cl as [[[] ? ? ?]|]; destruct hs, hc, ho, hdn; cbn in Hinv; try discriminate Hinv; fin0.
Qed.

(* ------------------------------------------------------------------ *)
Lemma step_other : forall k id os ph wk h x, x <> IPoll ->
  inv k id (mkTimer k id os ph wk) h = true -> step_ok k id (mkTimer k id os ph wk) h x.
Proof.
  intros k id os ph wk [hs hp hf ha hh hc hn hd ho hdn hb] x Hx Hinv. unfold step_ok.
  destruct hb.
  { destruct (tstep _ x) as [t' o] eqn:Ht. destruct (is_panic o) eqn:Hp; [reflexivity|].
    exists (mkHist hs hp hf ha hh hc hn hd ho hdn true). split; [|reflexivity].
    unfold hstep. reflexivity. }
  unfold inv in Hinv. cbn [h_bad orb t_ph t_os t_wakes] in Hinv.
  destruct x as [|r| | | |r| ]; [congruence| | | | | | ].
  - (* IFire *)
    destruct ph as [|rq|rq cl|rq cl].
    + destruct os; cbn in Hinv; bools; subst; try discriminate; destruct wk; fin.
    + destruct os; dchan rq; cbn in Hinv; bools; subst; try discriminate;
        destruct (class_start k id r) eqn:Hc; cbn; rewrite ?Hc; destruct wk; fin.
    + destruct os; dchan cl; cbn in Hinv; bools; subst; try discriminate; destruct rq as [tx b rx w]; destruct tx, rx, w; destruct wk; fin.
    + destruct rq as [rq|]; [dchan rq|]; destruct cl as [[[] ? ? ?]|]; destruct hs, hc, ho, hdn; cbn in Hinv; try discriminate Hinv; try (destruct (class_start k id r) eqn:Hc); destruct wk; fin0.
  - (* IDropReq *)
    destruct ph as [|rq|rq cl|rq cl].
    + destruct os; cbn in Hinv; bools; subst; try discriminate; destruct wk; fin.
    + destruct os; dchan rq; cbn in Hinv; bools; subst; try discriminate; destruct wk; fin.
    + destruct os; dchan cl; cbn in Hinv; bools; subst; try discriminate; destruct rq as [tx b rx w]; destruct tx, rx, w; destruct wk; fin.
    + destruct rq as [rq|]; [dchan rq|]; destruct cl as [[[] ? ? ?]|]; destruct hs, hc, ho, hdn; cbn in Hinv; try discriminate Hinv; try (destruct (class_start k id r) eqn:Hc); destruct wk; fin0.
  - (* IClear *)
    destruct ph as [|rq|rq cl|rq cl].
    + destruct os; cbn in Hinv; bools; subst; try discriminate; destruct wk; fin.
    + destruct os; dchan rq; cbn in Hinv; bools; subst; try discriminate; destruct wk; fin.
    + destruct os; dchan cl; cbn in Hinv; bools; subst; try discriminate; destruct wk; fin.
    + destruct os as [[]| |], rq as [[[] ? ? ?]|], cl as [[[] ? ? ?]|]; destruct hs, hc, ho, hdn; cbn in Hinv; try discriminate Hinv; fin0.
  - (* IDropHandle *)
    destruct ph as [|rq|rq cl|rq cl].
    + destruct os; cbn in Hinv; bools; subst; try discriminate; destruct wk; fin.
    + destruct os; dchan rq; cbn in Hinv; bools; subst; try discriminate; destruct wk; fin.
    + destruct os; dchan cl; cbn in Hinv; bools; subst; try discriminate; destruct wk; fin.
    + destruct os as [[]| |], rq as [[[] ? ? ?]|], cl as [[[] ? ? ?]|]; destruct hs, hc, ho, hdn; cbn in Hinv; try discriminate Hinv; fin0.
  - (* IAnsClr *)
    destruct ph as [|rq|rq cl|rq cl].
    + destruct os; cbn in Hinv; bools; subst; try discriminate; destruct wk; fin.
    + destruct os; dchan rq; cbn in Hinv; bools; subst; try discriminate; destruct wk; fin.
    + destruct os; dchan cl; cbn in Hinv; bools; subst; try discriminate;
        destruct (class_clear id r) eqn:Hc; cbn; rewrite ?Hc; destruct wk; fin.
    + destruct cl as [cl|]; [dchan cl|]; destruct rq as [[[] ? ? ?]|]; destruct hs, hc, ho, hdn; cbn in Hinv; try discriminate Hinv; try (destruct (class_clear id r) eqn:Hc); destruct wk; fin0.
  - (* IDropClr *)
    destruct ph as [|rq|rq cl|rq cl].
    + destruct os; cbn in Hinv; bools; subst; try discriminate; destruct wk; fin.
    + destruct os; dchan rq; cbn in Hinv; bools; subst; try discriminate; destruct wk; fin.
    + destruct os; dchan cl; cbn in Hinv; bools; subst; try discriminate; destruct wk; fin.
    + destruct cl as [cl|]; [dchan cl|]; destruct rq as [[[] ? ? ?]|]; destruct hs, hc, ho, hdn; cbn in Hinv; try discriminate Hinv; try (destruct (class_clear id r) eqn:Hc); destruct wk; fin0.
Qed.

(* ------------------------------------------------------------------ *)
Definition same_ki (t t' : timer) : Prop := t_kind t' = t_kind t /\ t_id t' = t_id t.

Lemma poll_fut_ki : forall t t1 e v r, poll_fut t = (t1, e, v, r) -> same_ki t t1.
Proof.
  intros [k id os ph wk] t1 e v r H. unfold poll_fut in H. cbn [t_kind t_id t_os t_ph t_wakes] in H.
  destruct ph as [|rq|rq cl|rq cl].
  - destruct os; inversion H; subst; split; reflexivity.
  - destruct (poll_chan rq) as [rq1 rp]. destruct rp as [r0|reg].
    + destruct (class_start k id r0); inversion H; subst; split; reflexivity.
    + destruct os; inversion H; subst; split; reflexivity.
  - destruct (poll_chan cl) as [cl1 rp]. destruct rp as [r0|reg].
    + destruct (class_clear id r0); inversion H; subst; split; reflexivity.
    + inversion H; subst; split; reflexivity.
  - inversion H; subst; split; reflexivity.
Qed.
Lemma evict_ki : forall t, same_ki t (evict t).
Proof. intros [k id os ph wk]. destruct ph; split; reflexivity. Qed.
Lemma same_ki_trans : forall a b c, same_ki a b -> same_ki b c -> same_ki a c.
Proof. unfold same_ki. intros a b c [H1 H2] [H3 H4]. split; congruence. Qed.
Lemma same_ki_refl : forall a, same_ki a a. Proof. split; reflexivity. Qed.

Lemma run_task_ki : forall t t1 e v p, run_task t = (t1, e, v, p) -> same_ki t t1.
Proof.
  intros t t1 e v p H. unfold run_task in H.
  destruct (t_ph t) eqn:Hph; try (inversion H; subst; apply same_ki_refl);
  destruct (poll_fut t) as [[[t2 e2] v2] r] eqn:Hp; apply poll_fut_ki in Hp;
  (destruct r as [[|n]| |]; inversion H; subst;
   [ eapply same_ki_trans; [exact Hp | apply evict_ki] | exact Hp | exact Hp | apply same_ki_refl ]).
Qed.
Lemma run_n_ki : forall n t t1 e v p, run_n n t = (t1, e, v, p) -> same_ki t t1.
Proof.
  induction n as [|n IH]; intros t t1 e v p H; cbn [run_n] in H.
  - inversion H; subst; apply same_ki_refl.
  - destruct (run_task t) as [[[t2 e2] v2] p2] eqn:Hr. apply run_task_ki in Hr.
    destruct p2. { inversion H; subst; exact Hr. }
    destruct (run_n n t2) as [[[t3 e3] v3] p3] eqn:Hn. apply IH in Hn. inversion H; subst.
    eapply same_ki_trans; eauto.
Qed.
Lemma tstep_ki : forall t x t' o, tstep t x = (t', o) -> same_ki t t'.
Proof.
  intros [k id os ph wk] x t' o H. destruct x; cbn [tstep] in H.
  - destruct (run _) as [[[t1 e] v] p] eqn:Hr. unfold run in Hr. apply run_n_ki in Hr.
    destruct p; inversion H; subst; exact Hr.
  - destruct (get_req _) as [c|]; [|inversion H; subst; apply same_ki_refl].
    destruct (resolve_chan c r) as [[c1 w] code]. inversion H; subst. destruct ph, w; split; reflexivity.
  - destruct (get_req _) as [c|]; [|inversion H; subst; apply same_ki_refl].
    destruct (dropreq_chan c) as [c1 w]. inversion H; subst. destruct ph, w; split; reflexivity.
  - cbn in H. destruct os as [w| |]; inversion H; subst; try apply same_ki_refl. destruct w; split; reflexivity.
  - cbn in H. destruct os as [w| |]; inversion H; subst; try apply same_ki_refl. destruct w; split; reflexivity.
  - destruct (get_clr _) as [c|]; [|inversion H; subst; apply same_ki_refl].
    destruct (resolve_chan c r) as [[c1 w] code]. inversion H; subst. destruct ph, w; split; reflexivity.
  - destruct (get_clr _) as [c|]; [|inversion H; subst; apply same_ki_refl].
    destruct (dropreq_chan c) as [c1 w]. inversion H; subst. destruct ph, w; split; reflexivity.
Qed.

Lemma step_all : forall k id t h x, t_kind t = k -> t_id t = id ->
  inv k id t h = true -> step_ok k id t h x.
Proof.
  intros k id [k' id' os ph wk] h x Hk Hi Hinv. cbn in Hk, Hi. subst k' id'.
  destruct x; try (apply step_other; [discriminate | exact Hinv]).
  apply step_poll; exact Hinv.
Qed.

Lemma inv_new : forall k id, inv k id (new_timer k id) hist0 = true.
Proof. reflexivity. Qed.

Theorem ok1_sound_gen : forall k id xs t h, t_kind t = k -> t_id t = id ->
  inv k id t h = true -> ok1 k id h xs (trun t xs) = true.
Proof.
  intros k id xs. induction xs as [|x xs IH]; intros t h Hk Hi Hinv; cbn [trun]; [reflexivity|].
  pose proof (step_all k id t h x Hk Hi Hinv) as Hs. unfold step_ok in Hs.
  destruct (tstep t x) as [t' o] eqn:Ht. cbn [ok1].
  destruct (is_panic o).
  - rewrite Hs. reflexivity.
  - destruct Hs as [h' [Hh Hinv']]. rewrite Hh. apply tstep_ki in Ht. destruct Ht as [Hk' Hi'].
    apply IH; congruence.
Qed.

Theorem model_ok1 : forall k id xs, C18_ok1 k id xs (trun (new_timer k id) xs) = true.
Proof. intros. apply ok1_sound_gen; reflexivity. Qed.

(* ------------------------------------------------------------------ *)
Definition trel (t : timer) (r : srec) : Prop :=
  match r with (k, id, h) => t_kind t = k /\ t_id t = id /\ inv k id t h = true end.

Lemma F2_nth : forall (l1 : list timer) (l2 : list srec) i r,
  Forall2 trel l1 l2 -> nth_error l2 i = Some r -> exists t, nth_error l1 i = Some t /\ trel t r.
Proof.
  intros l1 l2 i r H. revert i. induction H as [|a b l1 l2 Hab H IH]; intros [|i] Hn; cbn in Hn; try discriminate.
  - inversion Hn; subst. exists a. split; [reflexivity|assumption].
  - apply IH. exact Hn.
Qed.
Lemma F2_nth_none : forall (l1 : list timer) (l2 : list srec) i,
  Forall2 trel l1 l2 -> nth_error l2 i = None -> nth_error l1 i = None.
Proof.
  intros l1 l2 i H. revert i. induction H as [|a b l1 l2 Hab H IH]; intros [|i] Hn; cbn in *; try discriminate; auto.
Qed.
Lemma F2_upd : forall (l1 : list timer) (l2 : list srec) i t r,
  Forall2 trel l1 l2 -> trel t r -> Forall2 trel (upd_nth l1 i t) (upd_nth l2 i r).
Proof.
  intros l1 l2 i t r H. revert i. induction H as [|a b l1 l2 Hab H IH]; intros [|i] Hr; cbn; constructor; auto.
Qed.





Lemma upd_len : forall A (l : list A) i a, length (upd_nth l i a) = length l.
Proof. induction l as [|b l IH]; intros [|i] a; cbn; auto. Qed.

Definition nth_id (c0 : N) (j : nat) : N := ((c0 + N.of_nat j) mod USIZE)%N.
Definition ids_ok (c0 : N) (st : list srec) : Prop := ids_of st = map (nth_id c0) (seq 0 (length st)).

Lemma nth_id_inj : forall c0 i j, (N.of_nat i < USIZE)%N -> (N.of_nat j < USIZE)%N ->
  nth_id c0 i = nth_id c0 j -> i = j.
Proof.
  intros c0 i j Hi Hj H. unfold nth_id in H.
  assert (HU : (USIZE <> 0)%N) by (unfold USIZE; discriminate).
  pose proof (N.div_mod (c0 + N.of_nat i) USIZE HU) as E1.
  pose proof (N.div_mod (c0 + N.of_nat j) USIZE HU) as E2.
  rewrite H in E1.
  set (q1 := ((c0 + N.of_nat i) / USIZE)%N) in *. set (q2 := ((c0 + N.of_nat j) / USIZE)%N) in *.
  set (m := ((c0 + N.of_nat j) mod USIZE)%N) in *.
  assert (q1 = q2) by nia. subst q1. nia.
Qed.

Definition sinv (c0 : N) (s : sys) (st : list srec) : Prop :=
  Forall2 trel (s_ts s) st /\ ids_ok c0 st /\ s_ctr s = nth_id c0 (length st).

Fixpoint count_starts (xs : list sin) : nat :=
  match xs with [] => 0 | SStart _ :: xs' => S (count_starts xs') | _ :: xs' => count_starts xs' end.

Theorem sok_sound_gen : forall c0 xs s st, sinv c0 s st ->
  (N.of_nat (length st + count_starts xs) <= USIZE)%N ->
  sok st xs (srun s xs) = true.
Proof.
  intros c0 xs. induction xs as [|x xs IH]; intros s st [HF [Hids Hc]] Hn; cbn [srun]; [reflexivity|].
  destruct x as [k|i y]; cbn [sstep].
  - (* a new timer: its id is fresh *)
    cbn [sok is_panic]. cbn [count_starts] in Hn.
    assert (Hfresh : has_id (s_ctr s) st = false).
    { destruct (has_id (s_ctr s) st) eqn:Hh; [|reflexivity]. exfalso.
      apply has_id_in in Hh. rewrite Hids, Hc in Hh. apply in_map_iff in Hh. destruct Hh as [j [Hj Hin]].
      apply in_seq in Hin. apply nth_id_inj in Hj; lia. }
    rewrite Hfresh. cbn [negb andb]. apply IH.
    + split; [|split]; cbn [s_ts s_ctr].
      * apply Forall2_app; [exact HF|]. constructor; [|constructor]. cbn. repeat split.
      * unfold ids_ok in *. rewrite ids_of_app, Hids.
        rewrite app_length. cbn [length]. rewrite Nat.add_1_r, seq_S, map_app. cbn [map fst snd Nat.add]. rewrite Hc. reflexivity.
      * rewrite app_length. cbn [length]. rewrite Hc. unfold nth_id.
        rewrite N.add_mod_idemp_l by (unfold USIZE; discriminate). f_equal. lia.
    + rewrite app_length. cbn [length]. lia.
  - cbn [count_starts] in Hn. cbn [sok].
    destruct (nth_error st i) as [[[k id] h]|] eqn:Hst.
    + destruct (F2_nth _ _ _ _ HF Hst) as [t [Ht [Hk [Hi Hinv]]]]. rewrite Ht.
      pose proof (step_all k id t h y Hk Hi Hinv) as Hs. unfold step_ok in Hs.
      destruct (tstep t y) as [t' o] eqn:Hts. cbn [sok is_panic].
      destruct (is_panic o).
      * rewrite Hs. reflexivity.
      * destruct Hs as [h' [Hh Hinv']]. rewrite Hh. apply tstep_ki in Hts. destruct Hts as [Hk' Hi'].
        apply IH.
        -- split; [|split]; cbn [s_ts s_ctr].
           ++ apply F2_upd; [exact HF|]. cbn. repeat split; congruence.
           ++ unfold ids_ok. rewrite upd_len. erewrite ids_upd by eassumption. exact Hids.
           ++ rewrite upd_len. exact Hc.
        -- rewrite upd_len. exact Hn.
    + rewrite (F2_nth_none _ _ _ HF Hst). cbn [sok is_panic]. apply IH; [|exact Hn].
      split; [|split]; assumption.
Qed.

Theorem model_ok : forall c0 xs, (c0 < USIZE)%N -> (N.of_nat (count_starts xs) <= USIZE)%N ->
  C18_ok xs (srun (sys0 c0) xs) = true.
Proof.
  intros c0 xs Hc Hn. apply (sok_sound_gen c0); [|exact Hn].
  split; [constructor|split; [reflexivity|]]. cbn. unfold nth_id. rewrite N.add_0_r.
  symmetry. apply N.mod_small. exact Hc.
Qed.
