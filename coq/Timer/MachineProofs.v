(* Soundness of C18_ok for ALL input sequences (induction over the sequence) and any number of
   timers, from the one-step lemmas of MachineStepPoll.v / MachineStepOther.v. *)
From Coq Require Import List NArith Bool Arith Lia.
From Crux Require Import Timer.Machine Timer.Spec Timer.SpecProofs Timer.MachineInv Timer.MachineStepPoll Timer.MachineStepOther.
Import ListNotations.

Definition same_ki (t t' : timer) : Prop := t_kind t' = t_kind t /\ t_id t' = t_id t.

Lemma poll_fut_ki : forall t t1 e v r, poll_fut t = (t1, e, v, r) -> same_ki t t1.
Proof.
  intros [k id os ph wk] t1 e v r H. unfold poll_fut in H. cbn [t_kind t_id t_os t_ph t_wakes] in H.
  destruct ph as [|rq|rq cl|rq cl].
  - destruct os; inversion H; subst; split; reflexivity.
  - destruct (poll_chan rq) as [rq1 rp]. destruct rp as [r0|reg].
    + destruct (class_start k id r0); inversion H; subst; split; reflexivity.
    + destruct os; inversion H; subst; split; reflexivity.
  - destruct (poll_chan cl) as [cl1 rp]. destruct rp as [r0|reg].
    + destruct (class_clear id r0); inversion H; subst; split; reflexivity.
    + inversion H; subst; split; reflexivity.
  - inversion H; subst; split; reflexivity.
Qed.
Lemma evict_ki : forall t, same_ki t (evict t).
Proof. intros [k id os ph wk]. destruct ph; split; reflexivity. Qed.
Lemma same_ki_trans : forall a b c, same_ki a b -> same_ki b c -> same_ki a c.
Proof. unfold same_ki. intros a b c [H1 H2] [H3 H4]. split; congruence. Qed.
Lemma same_ki_refl : forall a, same_ki a a. Proof. split; reflexivity. Qed.

Lemma run_task_ki : forall t t1 e v p, run_task t = (t1, e, v, p) -> same_ki t t1.
Proof.
  intros t t1 e v p H. unfold run_task in H.
  destruct (t_ph t) eqn:Hph; try (inversion H; subst; apply same_ki_refl);
  destruct (poll_fut t) as [[[t2 e2] v2] r] eqn:Hp; apply poll_fut_ki in Hp;
  (destruct r as [[|n]| |]; inversion H; subst;
   [ eapply same_ki_trans; [exact Hp | apply evict_ki] | exact Hp | exact Hp | apply same_ki_refl ]).
Qed.
Lemma run_n_ki : forall n t t1 e v p, run_n n t = (t1, e, v, p) -> same_ki t t1.
Proof.
  induction n as [|n IH]; intros t t1 e v p H; cbn [run_n] in H.
  - inversion H; subst; apply same_ki_refl.
  - destruct (run_task t) as [[[t2 e2] v2] p2] eqn:Hr. apply run_task_ki in Hr.
    destruct p2. { inversion H; subst; exact Hr. }
    destruct (run_n n t2) as [[[t3 e3] v3] p3] eqn:Hn. apply IH in Hn. inversion H; subst.
    eapply same_ki_trans; eauto.
Qed.
Lemma tstep_ki : forall t x t' o, tstep t x = (t', o) -> same_ki t t'.
Proof.
  intros [k id os ph wk] x t' o H. destruct x; cbn [tstep] in H.
  - destruct (run _) as [[[t1 e] v] p] eqn:Hr. unfold run in Hr. apply run_n_ki in Hr.
    destruct p; inversion H; subst; exact Hr.
  - destruct (get_req _) as [c|]; [|inversion H; subst; apply same_ki_refl].
    destruct (resolve_chan c r) as [[c1 w] code]. inversion H; subst. destruct ph, w; split; reflexivity.
  - destruct (get_req _) as [c|]; [|inversion H; subst; apply same_ki_refl].
    destruct (dropreq_chan c) as [c1 w]. inversion H; subst. destruct ph, w; split; reflexivity.
  - cbn in H. destruct os as [w| |]; inversion H; subst; try apply same_ki_refl. destruct w; split; reflexivity.
  - cbn in H. destruct os as [w| |]; inversion H; subst; try apply same_ki_refl. destruct w; split; reflexivity.
  - destruct (get_clr _) as [c|]; [|inversion H; subst; apply same_ki_refl].
    destruct (resolve_chan c r) as [[c1 w] code]. inversion H; subst. destruct ph, w; split; reflexivity.
  - destruct (get_clr _) as [c|]; [|inversion H; subst; apply same_ki_refl].
    destruct (dropreq_chan c) as [c1 w]. inversion H; subst. destruct ph, w; split; reflexivity.
Qed.

Lemma step_all : forall k id t h x, t_kind t = k -> t_id t = id ->
  inv k id t h = true -> step_ok k id t h x.
Proof.
  intros k id [k' id' os ph wk] h x Hk Hi Hinv. cbn in Hk, Hi. subst k' id'.
  destruct x; try (apply step_other; [discriminate | exact Hinv]).
  apply step_poll; exact Hinv.
Qed.

Lemma inv_new : forall k id, inv k id (new_timer k id) hist0 = true.
Proof. reflexivity. Qed.

Theorem ok1_sound_gen : forall k id xs t h, t_kind t = k -> t_id t = id ->
  inv k id t h = true -> ok1 k id h xs (trun t xs) = true.
Proof.
  intros k id xs. induction xs as [|x xs IH]; intros t h Hk Hi Hinv; cbn [trun]; [reflexivity|].
  pose proof (step_all k id t h x Hk Hi Hinv) as Hs. unfold step_ok in Hs.
  destruct (tstep t x) as [t' o] eqn:Ht. cbn [ok1].
  destruct (is_panic o).
  - rewrite Hs. reflexivity.
  - destruct Hs as [h' [Hh Hinv']]. rewrite Hh. apply tstep_ki in Ht. destruct Ht as [Hk' Hi'].
    apply IH; congruence.
Qed.

Theorem model_ok1 : forall k id xs, C18_ok1 k id xs (trun (new_timer k id) xs) = true.
Proof. intros. apply ok1_sound_gen; reflexivity. Qed.

Definition trel (t : timer) (r : srec) : Prop :=
  match r with (k, id, h) => t_kind t = k /\ t_id t = id /\ inv k id t h = true end.

Lemma F2_nth : forall (l1 : list timer) (l2 : list srec) i r,
  Forall2 trel l1 l2 -> nth_error l2 i = Some r -> exists t, nth_error l1 i = Some t /\ trel t r.
Proof.
  intros l1 l2 i r H. revert i. induction H as [|a b l1 l2 Hab H IH]; intros [|i] Hn; cbn in Hn; try discriminate.
  - inversion Hn; subst. exists a. split; [reflexivity|assumption].
  - apply IH. exact Hn.
Qed.
Lemma F2_nth_none : forall (l1 : list timer) (l2 : list srec) i,
  Forall2 trel l1 l2 -> nth_error l2 i = None -> nth_error l1 i = None.
Proof.
  intros l1 l2 i H. revert i. induction H as [|a b l1 l2 Hab H IH]; intros [|i] Hn; cbn in *; try discriminate; auto.
Qed.
Lemma F2_upd : forall (l1 : list timer) (l2 : list srec) i t r,
  Forall2 trel l1 l2 -> trel t r -> Forall2 trel (upd_nth l1 i t) (upd_nth l2 i r).
Proof.
  intros l1 l2 i t r H. revert i. induction H as [|a b l1 l2 Hab H IH]; intros [|i] Hr; cbn; constructor; auto.
Qed.





Lemma upd_len : forall A (l : list A) i a, length (upd_nth l i a) = length l.
Proof. induction l as [|b l IH]; intros [|i] a; cbn; auto. Qed.

Definition nth_id (c0 : N) (j : nat) : N := ((c0 + N.of_nat j) mod USIZE)%N.
Definition ids_ok (c0 : N) (st : list srec) : Prop := ids_of st = map (nth_id c0) (seq 0 (length st)).

Lemma nth_id_inj : forall c0 i j, (N.of_nat i < USIZE)%N -> (N.of_nat j < USIZE)%N ->
  nth_id c0 i = nth_id c0 j -> i = j.
Proof.
  intros c0 i j Hi Hj H. unfold nth_id in H.
  assert (HU : (USIZE <> 0)%N) by (unfold USIZE; discriminate).
  pose proof (N.div_mod (c0 + N.of_nat i) USIZE HU) as E1.
  pose proof (N.div_mod (c0 + N.of_nat j) USIZE HU) as E2.
  rewrite H in E1.
  set (q1 := ((c0 + N.of_nat i) / USIZE)%N) in *. set (q2 := ((c0 + N.of_nat j) / USIZE)%N) in *.
  set (m := ((c0 + N.of_nat j) mod USIZE)%N) in *.
  assert (q1 = q2) by nia. subst q1. nia.
Qed.

Definition sinv (c0 : N) (s : sys) (st : list srec) : Prop :=
  Forall2 trel (s_ts s) st /\ ids_ok c0 st /\ s_ctr s = nth_id c0 (length st).

Fixpoint count_starts (xs : list sin) : nat :=
  match xs with [] => 0 | SStart _ :: xs' => S (count_starts xs') | _ :: xs' => count_starts xs' end.

Theorem sok_sound_gen : forall c0 xs s st, sinv c0 s st ->
  (N.of_nat (length st + count_starts xs) <= USIZE)%N ->
  sok st xs (srun s xs) = true.
Proof.
  intros c0 xs. induction xs as [|x xs IH]; intros s st [HF [Hids Hc]] Hn; cbn [srun]; [reflexivity|].
  destruct x as [k|i y]; cbn [sstep].
  - (* a new timer: its id is fresh *)
    cbn [sok is_panic]. cbn [count_starts] in Hn.
    assert (Hfresh : has_id (s_ctr s) st = false).
    { destruct (has_id (s_ctr s) st) eqn:Hh; [|reflexivity]. exfalso.
      apply has_id_in in Hh. rewrite Hids, Hc in Hh. apply in_map_iff in Hh. destruct Hh as [j [Hj Hin]].
      apply in_seq in Hin. apply nth_id_inj in Hj; lia. }
    rewrite Hfresh. cbn [negb andb]. apply IH.
    + split; [|split]; cbn [s_ts s_ctr].
      * apply Forall2_app; [exact HF|]. constructor; [|constructor]. cbn. repeat split.
      * unfold ids_ok in *. rewrite ids_of_app, Hids.
        rewrite app_length. cbn [length]. rewrite Nat.add_1_r, seq_S, map_app. cbn [map fst snd Nat.add]. rewrite Hc. reflexivity.
      * rewrite app_length. cbn [length]. rewrite Hc. unfold nth_id.
        rewrite N.add_mod_idemp_l by (unfold USIZE; discriminate). f_equal. lia.
    + rewrite app_length. cbn [length]. lia.
  - cbn [count_starts] in Hn. cbn [sok].
    destruct (nth_error st i) as [[[k id] h]|] eqn:Hst.
    + destruct (F2_nth _ _ _ _ HF Hst) as [t [Ht [Hk [Hi Hinv]]]]. rewrite Ht.
      pose proof (step_all k id t h y Hk Hi Hinv) as Hs. unfold step_ok in Hs.
      destruct (tstep t y) as [t' o] eqn:Hts. cbn [sok is_panic].
      destruct (is_panic o).
      * rewrite Hs. reflexivity.
      * destruct Hs as [h' [Hh Hinv']]. rewrite Hh. apply tstep_ki in Hts. destruct Hts as [Hk' Hi'].
        apply IH.
        -- split; [|split]; cbn [s_ts s_ctr].
           ++ apply F2_upd; [exact HF|]. cbn. repeat split; congruence.
           ++ unfold ids_ok. rewrite upd_len. erewrite ids_upd by eassumption. exact Hids.
           ++ rewrite upd_len. exact Hc.
        -- rewrite upd_len. exact Hn.
    + rewrite (F2_nth_none _ _ _ HF Hst). cbn [sok is_panic]. apply IH; [|exact Hn].
      split; [|split]; assumption.
Qed.

Theorem model_ok : forall c0 xs, (c0 < USIZE)%N -> (N.of_nat (count_starts xs) <= USIZE)%N ->
  C18_ok xs (srun (sys0 c0) xs) = true.
Proof.
  intros c0 xs Hc Hn. apply (sok_sound_gen c0); [|exact Hn].
  split; [constructor|split; [reflexivity|]]. cbn. unfold nth_id. rewrite N.add_0_r.
  symmetry. apply N.mod_small. exact Hc.
Qed.
