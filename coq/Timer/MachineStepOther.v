(* One-step lemma of the invariant for every input other than a run of the command. *)
From Coq Require Import List NArith Bool Arith Lia.
From Crux Require Import Timer.Machine Timer.Spec Timer.SpecProofs Timer.MachineInv.
Import ListNotations.

Lemma step_other : forall k id os ph wk h x, x <> IPoll ->
  inv k id (mkTimer k id os ph wk) h = true -> step_ok k id (mkTimer k id os ph wk) h x.
Proof.
  intros k id os ph wk [hs hp hf ha hh hc hn hd ho hdn hb] x Hx Hinv. unfold step_ok.
  destruct hb.
  { destruct (tstep _ x) as [t' o] eqn:Ht. destruct (is_panic o) eqn:Hp; [reflexivity|].
    exists (mkHist hs hp hf ha hh hc hn hd ho hdn true). split; [|reflexivity].
    unfold hstep. reflexivity. }
  unfold inv in Hinv. cbn [h_bad orb t_ph t_os t_wakes] in Hinv.
  destruct x as [|r| | | |r| ]; [congruence| | | | | | ].
  - (* IFire *)
    destruct ph as [|rq|rq cl|rq cl].
    + destruct os; cbn in Hinv; bools; subst; try discriminate; destruct wk; fin.
    + destruct os; dchan rq; cbn in Hinv; bools; subst; try discriminate;
        destruct (class_start k id r) eqn:Hc; cbn; rewrite ?Hc; destruct wk; fin.
    + destruct os; dchan cl; cbn in Hinv; bools; subst; try discriminate; destruct rq as [tx b rx w]; destruct tx, rx, w; destruct wk; fin.
    + destruct rq as [rq|]; [dchan rq|]; destruct cl as [[[] ? ? ?]|]; destruct hs, hc, ho, hdn; cbn in Hinv; try discriminate Hinv; try (destruct (class_start k id r) eqn:Hc); destruct wk; fin0.
  - (* IDropReq *)
    destruct ph as [|rq|rq cl|rq cl].
    + destruct os; cbn in Hinv; bools; subst; try discriminate; destruct wk; fin.
    + destruct os; dchan rq; cbn in Hinv; bools; subst; try discriminate; destruct wk; fin.
    + destruct os; dchan cl; cbn in Hinv; bools; subst; try discriminate; destruct rq as [tx b rx w]; destruct tx, rx, w; destruct wk; fin.
    + destruct rq as [rq|]; [dchan rq|]; destruct cl as [[[] ? ? ?]|]; destruct hs, hc, ho, hdn; cbn in Hinv; try discriminate Hinv; try (destruct (class_start k id r) eqn:Hc); destruct wk; fin0.
  - (* IClear *)
    destruct ph as [|rq|rq cl|rq cl].
    + destruct os; cbn in Hinv; bools; subst; try discriminate; destruct wk; fin.
    + destruct os; dchan rq; cbn in Hinv; bools; subst; try discriminate; destruct wk; fin.
    + destruct os; dchan cl; cbn in Hinv; bools; subst; try discriminate; destruct wk; fin.
    + destruct os as [[]| |], rq as [[[] ? ? ?]|], cl as [[[] ? ? ?]|]; destruct hs, hc, ho, hdn; cbn in Hinv; try discriminate Hinv; fin0.
  - (* IDropHandle *)
    destruct ph as [|rq|rq cl|rq cl].
    + destruct os; cbn in Hinv; bools; subst; try discriminate; destruct wk; fin.
    + destruct os; dchan rq; cbn in Hinv; bools; subst; try discriminate; destruct wk; fin.
    + destruct os; dchan cl; cbn in Hinv; bools; subst; try discriminate; destruct wk; fin.
    + destruct os as [[]| |], rq as [[[] ? ? ?]|], cl as [[[] ? ? ?]|]; destruct hs, hc, ho, hdn; cbn in Hinv; try discriminate Hinv; fin0.
  - (* IAnsClr *)
    destruct ph as [|rq|rq cl|rq cl].
    + destruct os; cbn in Hinv; bools; subst; try discriminate; destruct wk; fin.
    + destruct os; dchan rq; cbn in Hinv; bools; subst; try discriminate; destruct wk; fin.
    + destruct os; dchan cl; cbn in Hinv; bools; subst; try discriminate;
        destruct (class_clear id r) eqn:Hc; cbn; rewrite ?Hc; destruct wk; fin.
    + destruct cl as [cl|]; [dchan cl|]; destruct rq as [[[] ? ? ?]|]; destruct hs, hc, ho, hdn; cbn in Hinv; try discriminate Hinv; try (destruct (class_clear id r) eqn:Hc); destruct wk; fin0.
  - (* IDropClr *)
    destruct ph as [|rq|rq cl|rq cl].
    + destruct os; cbn in Hinv; bools; subst; try discriminate; destruct wk; fin.
    + destruct os; dchan rq; cbn in Hinv; bools; subst; try discriminate; destruct wk; fin.
    + destruct os; dchan cl; cbn in Hinv; bools; subst; try discriminate; destruct wk; fin.
    + destruct cl as [cl|]; [dchan cl|]; destruct rq as [[[] ? ? ?]|]; destruct hs, hc, ho, hdn; cbn in Hinv; try discriminate Hinv; try (destruct (class_clear id r) eqn:Hc); destruct wk; fin0.
Qed.

