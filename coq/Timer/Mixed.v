(* Ids across the whole process: every entry point that starts a timer - the command API in a direct
   Command, the command API from an app's update under Core, the legacy capability API - draws from
   the ONE wrapping counter of crux_time::get_timer_id, so the ids of a process run are consecutive
   (mod 2^64) in start order whatever the interleaving of entry points.  No proofs here. *)
From Coq Require Import List NArith Bool Arith.
From Crux Require Import Timer.Machine.
Import ListNotations.

Inductive api := ADirect | ACore | ALegacy.
Definition mix_id (c0 : N) (j : nat) : N := ((c0 + N.of_nat j) mod USIZE)%N.
(* the model does not look at which entry point is used: that IS the modelled fact *)
Definition mixed_ids (c0 : N) (apis : list api) : list N := map (mix_id c0) (seq 0 (length apis)).

Fixpoint memN (x : N) (l : list N) : bool := match l with [] => false | y :: l' => N.eqb x y || memN x l' end.
Fixpoint nodupb (l : list N) : bool := match l with [] => true | x :: l' => negb (memN x l') && nodupb l' end.
(* the property's clause: an id no other timer in the process has *)
Definition C18_ok_mixed (ids : list N) : bool := nodupb ids.

Definition verdict_mixed (c0 : N) (apis : list api) (impl : list N) : N :=
  if C18_ok_mixed impl && Nat.eqb (length impl) (length apis)
  then (if list_eqb N.eqb (mixed_ids c0 apis) impl then 0%N else 1%N) else 2%N.
Definition verdicts_mixed (cs : list (N * list api * list N)) : list N :=
  map (fun c => match c with (c0, apis, impl) => verdict_mixed c0 apis impl end) cs.
