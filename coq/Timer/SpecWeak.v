(* Accepted traces stay accepted when the done flag of every run is forgotten (a host such as Core
   cannot observe is_done of a hosted command): Spec.weak1 / Spec.weak. *)
From Coq Require Import List NArith Bool Arith Lia.
From Crux Require Import Timer.Machine Timer.Spec Timer.SpecProofs.
Import ListNotations.

Lemma bad_absorbs : forall k id xs h os b, h_bad h = true -> ok1 k id h xs os = true ->
  ok1 k id h xs (weak1 b os) = true.
Proof.
  intros k id. induction xs as [|x xs IH]; intros h os b Hb Hok; destruct os as [|o os]; cbn in *; try discriminate; auto.
  unfold hstep in *. rewrite Hb in *. cbn in *.
  destruct o; cbn in *; try (apply IH; assumption).
  apply is_nil_eq in Hok. subst. reflexivity.
Qed.

Lemma undone_bad : forall h, h_bad (undone h) = h_bad h. Proof. reflexivity. Qed.
Lemma undone_out : forall h, h_out (undone h) = h_out h. Proof. reflexivity. Qed.

Lemma hwf_facts : forall h, hwf h = true ->
  (h_out h = true -> h_done h = true) /\
  (h_done h = true -> h_out h = false ->
     h_started h = true /\ h_pend h = false /\ h_hdl h = false /\
     (h_clr h = false -> h_app h = false) /\ (h_clr h = true -> h_ans h = false)).
Proof.
  intros [hs hp hf ha hh hc hn hd ho hdn hb] H. unfold hwf in H. cbn in *.
  destruct ho, hdn; cbn in H; rewrite ?andb_true_r, ?andb_false_r in H; try discriminate;
    (split; [intros; try reflexivity; discriminate|]); intros H1 H2; try discriminate.
  destruct hs, hp, hh, hc, ha, hn; cbn in H; try discriminate; repeat split; intros; try reflexivity; try discriminate.
Qed.

(* a step either makes the history bad (a wrong response was accepted) or keeps it well-formed *)
Lemma hstep_bad_or_wf : forall k id h x o h1, hstep k id h x o = Some h1 -> h_bad h = false -> hwf h = true ->
  h_bad h1 = true \/ hwf h1 = true.
Proof.
  intros k id h x o h1 Hst Hb Hw.
  destruct (good_in k id x) eqn:Hg.
  { right. exact (proj2 (hstep_good _ _ _ _ _ _ Hst Hb Hg Hw)). }
  unfold hstep in Hst. rewrite Hb in Hst.
  destruct x as [|r| | | |r| ]; cbn in Hg; try discriminate; destruct o as [e v d|c| | | ]; try discriminate Hst;
    rewrite Hg in Hst; ifs Hst; inversion Hst; subst; auto.
Qed.

(* one step of the automaton commutes with forgetting the done flag *)
Lemma hstep_weak : forall k id h x o h1, hstep k id h x o = Some h1 -> h_bad h = false -> hwf h = true ->
  match o with
  | OPoll e v d => hstep k id (undone h) x (OPoll e v (h_out h || negb (is_nil v))) = Some (undone h1)
                   /\ h_out h1 = h_out h || negb (is_nil v)
  | _ => hstep k id (undone h) x o = Some (undone h1) /\ h_out h1 = h_out h
  end.
Proof.
  intros k id h x o h1 Hst Hb Hw.
  destruct (hwf_facts h Hw) as [Fod Fev].
  unfold hstep in Hst |- *. rewrite undone_bad, Hb in *.
  destruct h as [hs hp hf ha hh hc hn hd ho hdn hb]. cbn in Hb, Fod, Fev. subst hb.
  destruct x as [|r| | | |r| ]; destruct o as [e v d|c| | | ]; try discriminate Hst.
  - destruct (chk_poll _ _ _ _ _ _) eqn:Hc; [|discriminate]. inversion Hst; subst; clear Hst.
    apply chk_poll_shape in Hc.
    inversion Hc; subst; clear Hc;
      cbn [h_bad h_started h_pend h_fired h_app h_hdl h_clr h_ans h_drop h_out h_done] in *; subst.
    + (* after the outcome, or gone without one *)
      destruct ho.
      * rewrite (Fod eq_refl). cbn. split; reflexivity.
      * cbn in H. subst hdn. destruct (Fev eq_refl eq_refl) as [-> [-> [-> [Fa Fn]]]].
        destruct hc.
        -- rewrite (Fn eq_refl). cbn. split; reflexivity.
        -- rewrite (Fa eq_refl). cbn. split; reflexivity.
    + apply orb_false_elim in H as [-> ->]. cbn. split; reflexivity.
    + apply orb_false_elim in H as [-> ->]. destruct k; cbn; rewrite N.eqb_refl; cbn; split; reflexivity.
    + apply orb_false_elim in H as [-> ->]. cbn. rewrite N.eqb_refl. cbn. split; reflexivity.
    + apply orb_false_elim in H as [-> ->]. cbn. rewrite N.eqb_refl. cbn. split; reflexivity.
    + apply orb_false_elim in H as [-> ->]. cbn. split; reflexivity.
    + apply orb_false_elim in H as [-> ->]. cbn. split; reflexivity.
    + apply orb_false_elim in H as [-> ->]. cbn. split; reflexivity.
  - cbn [h_bad h_started h_pend h_fired h_app h_hdl h_clr h_ans h_drop h_out h_done live undone] in *.
    destruct (c =? 0)%N; [|destruct (c =? 3)%N; inversion Hst; subst; split; reflexivity].
    destruct hs; cbn in *; [|discriminate].
    destruct ho, hdn, hc; cbn in *; try discriminate; try (specialize (Fod eq_refl); discriminate);
      destruct (is_ok (class_start k id r)); inversion Hst; subst; split; reflexivity.
  - cbn [h_bad h_started h_pend h_fired h_app h_hdl h_clr h_ans h_drop h_out h_done live undone] in *.
    destruct (c =? 3)%N; [|inversion Hst; subst; split; reflexivity].
    destruct hs; inversion Hst; subst; split; reflexivity.
  - cbn [h_bad h_started h_pend h_fired h_app h_hdl h_clr h_ans h_drop h_out h_done live undone] in *.
    inversion Hst; subst; clear Hst. unfold set_app, live. cbn.
    destruct ho, hdn; cbn; try (specialize (Fod eq_refl); discriminate); try (split; reflexivity).
    destruct (Fev eq_refl eq_refl) as [_ [_ [-> _]]]. cbn. split; reflexivity.
  - inversion Hst; subst; split; reflexivity.
  - cbn [h_bad h_started h_pend h_fired h_app h_hdl h_clr h_ans h_drop h_out h_done live undone] in *.
    destruct (c =? 0)%N; [|destruct (c =? 3)%N; inversion Hst; subst; split; reflexivity].
    destruct hc; cbn in *; [|discriminate].
    destruct ho, hdn; cbn in *; try discriminate; try (specialize (Fod eq_refl); discriminate);
      destruct (is_ok (class_clear id r)); inversion Hst; subst; split; reflexivity.
  - cbn [h_bad h_started h_pend h_fired h_app h_hdl h_clr h_ans h_drop h_out h_done live undone] in *.
    destruct (c =? 3)%N; [|inversion Hst; subst; split; reflexivity].
    destruct hc; inversion Hst; subst; split; reflexivity.
Qed.

Lemma bad_weak : forall k id xs h os b, h_bad h = true -> ok1 k id h xs os = true ->
  ok1 k id (undone h) xs (weak1 b os) = true.
Proof.
  intros k id. induction xs as [|x xs IH]; intros h os b Hb Hok; destruct os as [|o os]; cbn in *; try discriminate; auto.
  unfold hstep in *. rewrite ?undone_bad in *. rewrite Hb in *. cbn in *.
  destruct o; cbn in *; try (apply IH; assumption).
  apply is_nil_eq in Hok. subst. reflexivity.
Qed.

Theorem weak1_ok : forall k id xs h os, ok1 k id h xs os = true -> (h_bad h = true \/ hwf h = true) ->
  ok1 k id (undone h) xs (weak1 (h_out h) os) = true.
Proof.
  intros k id. induction xs as [|x xs IH]; intros h os Hok Hw.
  { destruct os; cbn in *; [reflexivity|discriminate]. }
  destruct (h_bad h) eqn:Hb. { apply bad_weak; assumption. }
  destruct Hw as [Hw|Hw]; [discriminate|].
  destruct os as [|o os]; cbn [ok1 weak1] in *; try discriminate.
  destruct (is_panic o) eqn:Hp. { rewrite Hb in Hok. discriminate. }
  destruct (hstep k id h x o) as [h1|] eqn:Hst; [|discriminate].
  pose proof (hstep_bad_or_wf _ _ _ _ _ _ Hst Hb Hw) as Hw1. pose proof (hstep_weak _ _ _ _ _ _ Hst Hb Hw) as Hm.
  destruct o as [e v d|c| | | ]; cbn [weak1 ok1 is_panic] in *; try discriminate;
    destruct Hm as [Hm Ho]; rewrite Hm, <- Ho; apply IH; assumption.
Qed.


Definition usrec (r : srec) : srec := match r with (k, id, h) => (k, id, undone h) end.
Definition wrel (b : bool) (r : srec) : Prop :=
  match r with (k, id, h) => h_bad h = true \/ (hwf h = true /\ b = h_out h) end.

Lemma F2g_nth : forall A B (R : A -> B -> Prop) l1 l2 i b,
  Forall2 R l1 l2 -> nth_error l2 i = Some b -> exists a, nth_error l1 i = Some a /\ R a b.
Proof.
  intros A B R l1 l2 i b H. revert i. induction H as [|a0 b0 l1 l2 Hab H IH]; intros [|i] Hn; cbn in Hn; try discriminate.
  - inversion Hn; subst. exists a0. split; [reflexivity|assumption].
  - apply IH. exact Hn.
Qed.
Lemma F2g_upd : forall A B (R : A -> B -> Prop) l1 l2 i a b,
  Forall2 R l1 l2 -> R a b -> Forall2 R (upd_nth l1 i a) (upd_nth l2 i b).
Proof.
  intros A B R l1 l2 i a b H. revert i. induction H as [|a0 b0 l1 l2 Hab H IH]; intros [|i] Hr; cbn; constructor; auto.
Qed.
Lemma F2g_upd_r : forall A B (R : A -> B -> Prop) l1 l2 i a b,
  Forall2 R l1 l2 -> nth_error l1 i = Some a -> R a b -> Forall2 R l1 (upd_nth l2 i b).
Proof.
  intros A B R l1 l2 i a b H. revert i. induction H as [|a0 b0 l1 l2 Hab H IH]; intros [|i] Hn Hr; cbn in *; try discriminate.
  - inversion Hn; subst. constructor; assumption.
  - constructor; [assumption|]. apply IH; assumption.
Qed.
Lemma nth_error_nth_d : forall A (l : list A) i a d, nth_error l i = Some a -> nth i l d = a.
Proof. induction l as [|b l IH]; intros [|i] a d H; cbn in *; try discriminate; [congruence|auto]. Qed.
Lemma map_upd : forall A B (f : A -> B) l i a, map f (upd_nth l i a) = upd_nth (map f l) i (f a).
Proof. induction l as [|b l IH]; intros [|i] a; cbn; try reflexivity. f_equal. apply IH. Qed.
Lemma upd_map_us : forall st i k id h,
  upd_nth (map usrec st) i (k, id, undone h) = map usrec (upd_nth st i (k, id, h)).
Proof. intros. rewrite map_upd. reflexivity. Qed.
Lemma has_id_us : forall id st, has_id id (map usrec st) = has_id id st.
Proof. intros id st. induction st as [|[[k i] h] st IH]; cbn; [reflexivity|]. rewrite IH. reflexivity. Qed.
Lemma weak_nil : forall outs xs, weak outs xs [] = [].
Proof. intros outs [|[k|i x] xs]; reflexivity. Qed.

Theorem weak_sok : forall xs st os outs, sok st xs os = true -> Forall2 wrel outs st ->
  sok (map usrec st) xs (weak outs xs os) = true.
Proof.
  induction xs as [|x xs IH]; intros st os outs Hok HF.
  - destruct os; cbn in *; [reflexivity|discriminate].
  - destruct x as [k'|i y]; destruct os as [|o os]; cbn [sok] in Hok; try discriminate.
    + destruct o; try discriminate. apply andb_prop in Hok as [Hf Hok]. cbn [weak sok].
      rewrite has_id_us, Hf. cbn [andb].
      specialize (IH (st ++ [(k', id, hist0)]) os (outs ++ [false]) Hok).
      rewrite map_app in IH. cbn [map usrec] in IH. apply IH.
      apply Forall2_app; [exact HF|]. constructor; [|constructor]. cbn. right. split; reflexivity.
    + destruct (nth_error st i) as [[[k id] h]|] eqn:Hst.
      * destruct (F2g_nth _ _ _ _ _ _ _ HF Hst) as [b [Hb Hrel]].
        assert (Hst' : nth_error (map usrec st) i = Some (k, id, undone h)) by (rewrite nth_error_map, Hst; reflexivity).
        destruct (is_panic o) eqn:Hp.
        -- destruct o; try discriminate. apply andb_prop in Hok as [H1 H2]. apply is_nil_eq in H2. subst.
           cbn [weak sok is_panic]. rewrite Hst'. cbn [is_panic]. rewrite undone_bad, H1, weak_nil. reflexivity.
        -- destruct (hstep k id h y o) as [h1|] eqn:Hh; [|discriminate].
           destruct (h_bad h) eqn:Hbad.
           ++ (* a bad timer accepts anything *)
              assert (h1 = h) by (unfold hstep in Hh; rewrite Hbad in Hh; congruence). subst h1.
              assert (Hany : forall o', hstep k id (undone h) y o' = Some (undone h))
                by (intros; unfold hstep; rewrite undone_bad, Hbad; reflexivity).
              destruct o as [e v d|c| | | ]; cbn [weak sok is_panic] in *; try discriminate;
                rewrite Hst'; cbn [is_panic]; rewrite Hany; rewrite upd_map_us;
                apply IH; try exact Hok;
                first [ apply F2g_upd; [exact HF|cbn; left; exact Hbad]
                      | eapply F2g_upd_r; [exact HF|exact Hb|cbn; left; exact Hbad] ].
           ++ destruct Hrel as [Hrel|[Hw Hout]]; [congruence|].
              pose proof (hstep_bad_or_wf _ _ _ _ _ _ Hh Hbad Hw) as Hw1.
              pose proof (hstep_weak _ _ _ _ _ _ Hh Hbad Hw) as Hm.
              destruct o as [e v d|c| | | ]; cbn [weak sok is_panic] in *; try discriminate;
                destruct Hm as [Hm Ho]; rewrite Hst'; cbn [is_panic].
              ** rewrite (nth_error_nth_d _ _ _ _ false Hb), Hout, Hm.
                 rewrite upd_map_us. apply IH; [exact Hok|].
                 apply F2g_upd; [exact HF|]. cbn. destruct Hw1 as [Hw1|Hw1]; [left; exact Hw1|right; split; [exact Hw1|]].
                 rewrite Ho. reflexivity.
              ** rewrite Hm. rewrite upd_map_us. apply IH; [exact Hok|].
                 eapply F2g_upd_r; [exact HF|exact Hb|]. cbn.
                 destruct Hw1 as [Hw1|Hw1]; [left; exact Hw1|right; split; [exact Hw1|congruence]].
              ** rewrite Hm. rewrite upd_map_us. apply IH; [exact Hok|].
                 eapply F2g_upd_r; [exact HF|exact Hb|]. cbn.
                 destruct Hw1 as [Hw1|Hw1]; [left; exact Hw1|right; split; [exact Hw1|congruence]].
              ** rewrite Hm. rewrite upd_map_us. apply IH; [exact Hok|].
                 eapply F2g_upd_r; [exact HF|exact Hb|]. cbn.
                 destruct Hw1 as [Hw1|Hw1]; [left; exact Hw1|right; split; [exact Hw1|congruence]].
      * assert (Hst' : nth_error (map usrec st) i = None) by (rewrite nth_error_map, Hst; reflexivity).
        destruct o; try discriminate. cbn [weak sok]. rewrite Hst'. apply IH; assumption.
Qed.

Theorem weak_ok : forall xs os, C18_ok xs os = true -> C18_ok xs (weak [] xs os) = true.
Proof. intros xs os H. exact (weak_sok xs [] os [] H (Forall2_nil _)). Qed.
