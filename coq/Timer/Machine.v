(* Executable model of one crux_time command-API timer (crux_time/src/command.rs, notify_after /
   notify_at wrapped in `then_send`) as an explicit state machine, together with the pieces of
   futures 0.3.31 and of the crux_core Command executor that decide when the timer future is
   polled, woken and evicted.  No proofs here (see MachineProofs.v).

   What is modelled, function for function:
   - oneshot channel between TimerHandle and the future  ([osst]: Inner.complete / data / rx_task);
     Sender::send + Drop (drop_tx: complete:=true, take+wake rx_task), Receiver::try_recv,
     Receiver::poll (recv), FusedFuture::is_terminated, Receiver::drop;
   - the private mpsc::unbounded channel of every `ctx.request_from_shell` ([chan]): the sender
     lives in the Request's Resolve::Once closure held by the shell ([c_tx]); `recv_task` is an
     AtomicWaker in the shared inner, so it survives the receiver ([c_w]);  ShellRequest =
     Fuse<StreamFuture<ShellStream>> : closed-and-empty => Pending WITHOUT registering, for ever;
   - select_biased!: response first, then the oneshot receiver unless is_terminated; the request
     future is dropped when the select block ends, i.e. before the Clear request is made;
   - the response-kind and id checks as Panic;
   - Command executor: ready queue as a counter of pending wake-ups of the single task
     ([t_wakes], Command::new enqueues the task once), run_until_settled drains it, run_task polls
     with a fresh waker and evicts (Cancelled) when the poll is Pending and no cell took a clone of
     this poll's waker ([PrPending 0]: Arc::strong_count < 2; the timer never wakes itself);
     a wake-up of a task that no longer exists is TaskState::Missing. *)
From Coq Require Import List NArith Bool Arith.
Import ListNotations.

Definition USIZE : N := 18446744073709551616%N.      (* 2^64: usize on the 64-bit targets *)

Inductive tkind := KAfter | KAt.
(* TimeResponse *)
Inductive resp := RNow | RInstant (id : N) | RElapsed (id : N) | RCleared (id : N).
(* TimerOutcome; Completed carries the CompletedTimerHandle's id *)
Inductive outcome := Completed (id : N) | Cleared.
(* TimeRequest as seen by the shell (durations/instants are not part of this property) *)
Inductive eff := ENotifyAfter (id : N) | ENotifyAt (id : N) | EClear (id : N).

(* what the shell holds for a request: unresolved Once / resolved (Resolve::Never) / dropped *)
Inductive txst := TLive | TUsed | TDropped.
Record chan := mkChan {
  c_tx : txst;
  c_buf : option resp;      (* message queued in the mpsc channel *)
  c_rx : bool;              (* the receiver exists and is not terminated (inner is Some) *)
  c_w : bool                (* recv_task holds a waker of the timer's task *)
}.
(* the oneshot: OsOpen w = sender alive, rx_task registered iff w; OsSent = complete, data = Some id
   (clear() was called); OsClosed = complete and no data (handle dropped, data taken, or receiver
   dropped) *)
Inductive osst := OsOpen (w : bool) | OsSent | OsClosed.
(* states of the async block: not yet polled; in select_biased! (request sent); awaiting the Clear
   request (the first request's future already dropped); task gone (finished or evicted).  The
   request channels stay in the state after the task is gone because the shell may still hold the
   requests. *)
Inductive phase := PNew | PWait (rq : chan) | PClr (rq cl : chan) | PFin (rq cl : option chan).

Record timer := mkTimer {
  t_kind : tkind; t_id : N; t_os : osst; t_ph : phase; t_wakes : nat
}.

Definition new_timer (k : tkind) (id : N) : timer := mkTimer k id (OsOpen false) PNew 1.

Definition set_os (t : timer) (o : osst) := mkTimer (t_kind t) (t_id t) o (t_ph t) (t_wakes t).
Definition set_ph (t : timer) (p : phase) := mkTimer (t_kind t) (t_id t) (t_os t) p (t_wakes t).
Definition set_wakes (t : timer) (n : nat) := mkTimer (t_kind t) (t_id t) (t_os t) (t_ph t) n.
Definition add_wake (t : timer) (b : bool) := if b then set_wakes t (S (t_wakes t)) else t.

Inductive rclass := RcOk | RcWrongId | RcWrongKind.
Definition class_start (k : tkind) (id : N) (r : resp) : rclass :=
  match k, r with
  | KAfter, RElapsed i => if N.eqb i id then RcOk else RcWrongId
  | KAt, RInstant i => if N.eqb i id then RcOk else RcWrongId
  | _, _ => RcWrongKind
  end.
Definition class_clear (id : N) (r : resp) : rclass :=
  match r with RCleared i => if N.eqb i id then RcOk else RcWrongId | _ => RcWrongKind end.
Definition right_start (k : tkind) (id : N) : resp :=
  match k with KAfter => RElapsed id | KAt => RInstant id end.
Definition start_eff (k : tkind) (id : N) : eff :=
  match k with KAfter => ENotifyAfter id | KAt => ENotifyAt id end.

(* ---- the mpsc channel of one shell request ---- *)
Definition fresh_chan : chan := mkChan TLive None true true.
  (* ShellStream::ReadyToSend polls the receiver (registers the waker), then sends the effect *)
(* receiver dropped: close + drain; recv_task is NOT cleared *)
Definition drop_rx (c : chan) : chan := mkChan (c_tx c) None false (c_w c).

Inductive rpoll := RpReady (r : resp) | RpPending (registered : bool).
(* ShellRequest::poll after the request was sent *)
Definition poll_chan (c : chan) : chan * rpoll :=
  if c_rx c then
    match c_buf c with
    | Some r => (mkChan (c_tx c) None false (c_w c), RpReady r)     (* the rest of the stream is dropped *)
    | None =>
        match c_tx c with
        | TLive => (mkChan TLive None true true, RpPending true)    (* register, Pending *)
        | _ => (mkChan (c_tx c) None false (c_w c), RpPending false) (* closed: Ready(None) => Pending, fused *)
        end
    end
  else (c, RpPending false).

(* Request::resolve by the shell: (new channel, task woken?, result code 0 = Ok, 1 = Err(Never),
   2 = the shell no longer holds the request) *)
Definition resolve_chan (c : chan) (r : resp) : chan * bool * N :=
  match c_tx c with
  | TLive =>
      if c_rx c then (mkChan TUsed (Some r) true false, c_w c, 0%N)      (* queue, take+wake recv_task *)
      else (mkChan TUsed None false false, c_w c, 0%N)                   (* send fails silently; sender drop wakes *)
  | TUsed => (c, false, 1%N)
  | TDropped => (c, false, 2%N)
  end.
(* the shell drops the request: last sender gone => close_channel => take+wake recv_task *)
Definition dropreq_chan (c : chan) : chan * bool :=
  match c_tx c with
  | TLive => (mkChan TDropped (c_buf c) (c_rx c) false, c_w c)
  | TUsed => (mkChan TDropped (c_buf c) (c_rx c) (c_w c), false)
  | TDropped => (c, false)
  end.

(* ---- one poll of the timer future ---- *)
(* PrPending n: Pending, n cells hold a clone of this poll's waker at the end of the poll *)
Inductive pres := PrPending (regs : nat) | PrReady | PrPanic.
Definition b2n (b : bool) : nat := if b then 1 else 0.

Definition poll_fut (t : timer) : timer * list eff * list outcome * pres :=
  let k := t_kind t in let id := t_id t in let wk := t_wakes t in
  match t_ph t with
  | PNew =>
      match t_os t with
      | OsSent =>   (* try_recv = Ok(Some id), id = timer_id: return Cleared; nothing was sent *)
          (mkTimer k id OsClosed (PFin None None) wk, [], [Cleared], PrReady)
      | OsOpen _ => (* try_recv = Ok(None); select: request sent, both cells registered *)
          (mkTimer k id (OsOpen true) (PWait fresh_chan) wk, [start_eff k id], [], PrPending 2)
      | OsClosed => (* try_recv = Err(Canceled); select: receiver is_terminated, skipped *)
          (mkTimer k id OsClosed (PWait fresh_chan) wk, [start_eff k id], [], PrPending 1)
      end
  | PWait rq =>
      let '(rq1, rp) := poll_chan rq in
      match rp with
      | RpReady r =>
          match class_start k id r with
          | RcOk => (mkTimer k id OsClosed (PFin (Some rq1) None) wk, [], [Completed id], PrReady)
          | _ => (t, [], [], PrPanic)
          end
      | RpPending reg =>
          match t_os t with
          | OsClosed => (mkTimer k id OsClosed (PWait rq1) wk, [], [], PrPending (b2n reg))
          | OsOpen _ => (mkTimer k id (OsOpen true) (PWait rq1) wk, [], [], PrPending (S (b2n reg)))
          | OsSent =>   (* Ready(Ok id): select ends, request future dropped, Clear requested and polled *)
              (mkTimer k id OsClosed (PClr (drop_rx rq1) fresh_chan) wk, [EClear id], [], PrPending (S (b2n reg)))
          end
      end
  | PClr rq cl =>
      let '(cl1, rp) := poll_chan cl in
      match rp with
      | RpReady r =>
          match class_clear id r with
          | RcOk => (mkTimer k id OsClosed (PFin (Some rq) (Some cl1)) wk, [], [Cleared], PrReady)
          | _ => (t, [], [], PrPanic)
          end
      | RpPending reg => (mkTimer k id (t_os t) (PClr rq cl1) wk, [], [], PrPending (b2n reg))
      end
  | PFin _ _ => (t, [], [], PrReady)
  end.

(* the task is removed while Pending: its future (all receivers) is dropped *)
Definition evict (t : timer) : timer :=
  match t_ph t with
  | PWait rq => mkTimer (t_kind t) (t_id t) OsClosed (PFin (Some (drop_rx rq)) None) (t_wakes t)
  | PClr rq cl => mkTimer (t_kind t) (t_id t) OsClosed (PFin (Some rq) (Some (drop_rx cl))) (t_wakes t)
  | _ => t
  end.

(* Command::run_task for the timer's task; the bool is "panicked" *)
Definition run_task (t : timer) : timer * list eff * list outcome * bool :=
  match t_ph t with
  | PFin _ _ => (t, [], [], false)                       (* TaskState::Missing *)
  | _ =>
      let '(t1, e, v, r) := poll_fut t in
      match r with
      | PrPanic => (t, e, v, true)
      | PrReady => (t1, e, v, false)
      | PrPending 0 => (evict t1, e, v, false)           (* Cancelled *)
      | PrPending _ => (t1, e, v, false)                 (* Suspended *)
      end
  end.

(* run_until_settled: one run_task per id in the ready queue *)
Fixpoint run_n (n : nat) (t : timer) : timer * list eff * list outcome * bool :=
  match n with
  | 0 => (t, [], [], false)
  | S n' =>
      let '(t1, e1, v1, p1) := run_task t in
      if p1 then (t1, e1, v1, true)
      else let '(t2, e2, v2, p2) := run_n n' t1 in (t2, e1 ++ e2, v1 ++ v2, p2)
  end.
Definition run (t : timer) := run_n (t_wakes t) (set_wakes t 0).

Definition is_fin (t : timer) : bool := match t_ph t with PFin _ _ => true | _ => false end.

(* ---- inputs of one timer and their observations ---- *)
Inductive tin :=
| IPoll                    (* the command is run and drained: effects(), events(), is_done() *)
| IFire (r : resp)         (* the shell resolves the NotifyAfter/NotifyAt request with r *)
| IDropReq                 (* the shell drops that request *)
| IClear                   (* the app calls handle.clear() *)
| IDropHandle              (* the app drops the handle *)
| IAnsClr (r : resp)       (* the shell resolves the Clear request with r *)
| IDropClr.                (* the shell drops the Clear request *)

Inductive obs :=
| OPoll (e : list eff) (v : list outcome) (done : bool)
| ORes (code : N)          (* 0 Ok, 1 Err, 2 no such request held, 3 app-side action (no result) *)
| OPanic
| OStarted (id : N)
| OBad.                    (* input addressed a timer that does not exist *)

Definition get_req (t : timer) : option chan :=
  match t_ph t with PNew => None | PWait rq => Some rq | PClr rq _ => Some rq | PFin rq _ => rq end.
Definition set_req (t : timer) (c : chan) : timer :=
  match t_ph t with
  | PNew => t | PWait _ => set_ph t (PWait c) | PClr _ cl => set_ph t (PClr c cl)
  | PFin _ cl => set_ph t (PFin (Some c) cl)
  end.
Definition get_clr (t : timer) : option chan :=
  match t_ph t with PClr _ cl => Some cl | PFin _ cl => cl | _ => None end.
Definition set_clr (t : timer) (c : chan) : timer :=
  match t_ph t with
  | PClr rq _ => set_ph t (PClr rq c) | PFin rq _ => set_ph t (PFin rq (Some c)) | _ => t
  end.

Definition drop_code (c : chan) : obs := match c_tx c with TDropped => ORes 2 | _ => ORes 3 end.

Definition tstep (t : timer) (x : tin) : timer * obs :=
  match x with
  | IPoll =>
      let '(t1, e, v, p) := run t in
      if p then (t1, OPanic) else (t1, OPoll e v (is_fin t1))
  | IFire r =>
      match get_req t with
      | None => (t, ORes 2)
      | Some c => let '(c1, w, code) := resolve_chan c r in (add_wake (set_req t c1) w, ORes code)
      end
  | IDropReq =>
      match get_req t with
      | None => (t, ORes 2)
      | Some c => let '(c1, w) := dropreq_chan c in (add_wake (set_req t c1) w, drop_code c)
      end
  | IAnsClr r =>
      match get_clr t with
      | None => (t, ORes 2)
      | Some c => let '(c1, w, code) := resolve_chan c r in (add_wake (set_clr t c1) w, ORes code)
      end
  | IDropClr =>
      match get_clr t with
      | None => (t, ORes 2)
      | Some c => let '(c1, w) := dropreq_chan c in (add_wake (set_clr t c1) w, drop_code c)
      end
  | IClear =>    (* Sender::send then Drop; Err (ignored) when the receiver is gone *)
      match t_os t with
      | OsOpen w => (add_wake (set_os t OsSent) w, ORes 3)
      | _ => (t, ORes 3)
      end
  | IDropHandle =>
      match t_os t with
      | OsOpen w => (add_wake (set_os t OsClosed) w, ORes 3)
      | _ => (t, ORes 3)
      end
  end.

Definition is_panic (o : obs) : bool := match o with OPanic => true | _ => false end.

(* a panic ends the trace (the harness stops driving a command whose task panicked) *)
Fixpoint trun (t : timer) (xs : list tin) : list obs :=
  match xs with
  | [] => []
  | x :: xs' => let '(t1, o) := tstep t x in o :: (if is_panic o then [] else trun t1 xs')
  end.

(* ---- several timers and the id counter ---- *)
Inductive sin := SStart (k : tkind) | SOn (i : nat) (x : tin).
Record sys := mkSys { s_ctr : N; s_ts : list timer }.

Fixpoint upd_nth {A} (l : list A) (i : nat) (a : A) : list A :=
  match l, i with
  | [], _ => []
  | _ :: l', 0 => a :: l'
  | b :: l', S i' => b :: upd_nth l' i' a
  end.

(* get_timer_id: COUNTER.fetch_add(1, Relaxed) returns the old value and wraps *)
Definition sstep (s : sys) (x : sin) : sys * obs :=
  match x with
  | SStart k => (mkSys ((s_ctr s + 1) mod USIZE) (s_ts s ++ [new_timer k (s_ctr s)]), OStarted (s_ctr s))
  | SOn i y =>
      match nth_error (s_ts s) i with
      | None => (s, OBad)
      | Some t => let '(t1, o) := tstep t y in (mkSys (s_ctr s) (upd_nth (s_ts s) i t1), o)
      end
  end.
Fixpoint srun (s : sys) (xs : list sin) : list obs :=
  match xs with
  | [] => []
  | x :: xs' => let '(s1, o) := sstep s x in o :: (if is_panic o then [] else srun s1 xs')
  end.
Definition sys0 (c0 : N) : sys := mkSys c0 [].

(* ---- decidable equality of observations (used by the correspondence check) ---- *)
Definition eff_eqb (a b : eff) : bool :=
  match a, b with
  | ENotifyAfter x, ENotifyAfter y | ENotifyAt x, ENotifyAt y | EClear x, EClear y => N.eqb x y
  | _, _ => false
  end.
Definition outcome_eqb (a b : outcome) : bool :=
  match a, b with Completed x, Completed y => N.eqb x y | Cleared, Cleared => true | _, _ => false end.
Fixpoint list_eqb {A} (f : A -> A -> bool) (a b : list A) : bool :=
  match a, b with
  | [], [] => true
  | x :: a', y :: b' => f x y && list_eqb f a' b'
  | _, _ => false
  end.
Definition obs_eqb (a b : obs) : bool :=
  match a, b with
  | OPoll e v d, OPoll e' v' d' => list_eqb eff_eqb e e' && list_eqb outcome_eqb v v' && Bool.eqb d d'
  | ORes x, ORes y => N.eqb x y
  | OPanic, OPanic => true
  | OStarted x, OStarted y => N.eqb x y
  | OBad, OBad => true
  | _, _ => false
  end.
Definition trace_eqb := list_eqb obs_eqb.
