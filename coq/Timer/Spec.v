(* The outcome automaton of C18, as a decidable predicate over (inputs, observations) of one timer
   and of several timers.  It does not mention wakers, channels, ready queues or eviction counts:
   its state [hist] only records what has happened to the timer so far, in the vocabulary of the
   property ("the shell answered its request", "the app cleared it", "a clear request was sent"...).
   [C18_ok] is evaluated on the IMPLEMENTATION's observations by the check, and is proved to hold
   of the model's observations for all input sequences (MachineProofs.v).  No proofs here. *)
From Coq Require Import List NArith Bool Arith.
From Crux Require Import Timer.Machine.
Import ListNotations.

Record hist := mkHist {
  h_started : bool;   (* the NotifyAfter/NotifyAt request has been sent to the shell *)
  h_pend : bool;      (* the shell answered it (right kind and id, accepted) and the timer has not run since *)
  h_fired : bool;     (* ... at some point *)
  h_app : bool;       (* the app called clear() while it held the handle and before any outcome *)
  h_hdl : bool;       (* the app still holds the handle *)
  h_clr : bool;       (* a Clear request has been sent *)
  h_ans : bool;       (* the shell answered the Clear request (right kind and id, accepted) *)
  h_drop : bool;      (* the shell dropped a request of this timer *)
  h_out : bool;       (* the outcome has been reported *)
  h_done : bool;      (* the command reported is_done *)
  h_bad : bool        (* a response of the wrong kind or id was accepted while the timer was waiting
                         for it: the code's documented reaction is a panic; nothing is required after *)
}.
Definition hist0 : hist := mkHist false false false false true false false false false false false.

Definition live (h : hist) : bool := negb (h_out h) && negb (h_done h).

Definition effs_eqb := list_eqb eff_eqb.
Definition outs_eqb := list_eqb outcome_eqb.
Definition is_nil {A} (l : list A) : bool := match l with [] => true | _ => false end.

(* what a run of the timer's command must produce, given the history; result: accepted? *)
Definition chk_poll (k : tkind) (id : N) (h : hist) (e : list eff) (v : list outcome) (d : bool) : bool :=
  if h_out h || h_done h then is_nil e && is_nil v && d                 (* after the outcome: nothing, ever *)
  else if negb (h_started h) then
    if h_app h then is_nil e && outs_eqb v [Cleared] && d                (* cleared before requested: silent *)
    else effs_eqb e [start_eff k id] && is_nil v && negb d               (* first run: the request, once *)
  else if negb (h_clr h) then
    if h_pend h then is_nil e && outs_eqb v [Completed id] && d          (* answer waiting: Completed, no clear *)
    else if h_app h then effs_eqb e [EClear id] && is_nil v && negb d    (* cleared while pending: one Clear{id} *)
    else is_nil e && is_nil v && implb d (h_drop h && negb (h_hdl h))    (* done without outcome only if the
                                                   request was dropped and the handle is gone too *)
  else
    if h_ans h then is_nil e && outs_eqb v [Cleared] && d                (* Clear answered: Cleared *)
    else is_nil e && is_nil v && implb d (h_drop h).

Definition hist_poll (h : hist) (e : list eff) (v : list outcome) (d : bool) : hist :=
  mkHist (h_started h || negb (is_nil e)) false (h_fired h) (h_app h) (h_hdl h)
         (h_clr h || (h_started h && negb (is_nil e))) (h_ans h) (h_drop h)
         (h_out h || negb (is_nil v)) (h_done h || d) (h_bad h).

Definition set_pend (h : hist) := mkHist (h_started h) true true (h_app h) (h_hdl h) (h_clr h) (h_ans h) (h_drop h) (h_out h) (h_done h) (h_bad h).
Definition set_bad (h : hist) := mkHist (h_started h) (h_pend h) (h_fired h) (h_app h) (h_hdl h) (h_clr h) (h_ans h) (h_drop h) (h_out h) (h_done h) true.
Definition set_ans (h : hist) := mkHist (h_started h) (h_pend h) (h_fired h) (h_app h) (h_hdl h) (h_clr h) true (h_drop h) (h_out h) (h_done h) (h_bad h).
Definition set_drop (h : hist) := mkHist (h_started h) (h_pend h) (h_fired h) (h_app h) (h_hdl h) (h_clr h) (h_ans h) true (h_out h) (h_done h) (h_bad h).
Definition set_app (h : hist) (a : bool) := mkHist (h_started h) (h_pend h) (h_fired h) (h_app h || a) false (h_clr h) (h_ans h) (h_drop h) (h_out h) (h_done h) (h_bad h).

Definition is_ok (c : rclass) : bool := match c with RcOk => true | _ => false end.

(* one step of the automaton: None = rejected *)
Definition hstep (k : tkind) (id : N) (h : hist) (x : tin) (o : obs) : option hist :=
  if h_bad h then Some h else
  match x, o with
  | IPoll, OPoll e v d => if chk_poll k id h e v d then Some (hist_poll h e v d) else None
  | IFire r, ORes code =>
      if N.eqb code 0 then
        if negb (h_started h) then None                      (* nothing was sent that could be answered *)
        else if h_done h && negb (h_out h) && negb (h_clr h) then None   (* gone without outcome: its request was dropped *)
        else if live h && negb (h_clr h) then
          (if is_ok (class_start k id r) then Some (set_pend h) else Some (set_bad h))
        else Some h                                          (* late answer: ignored *)
      else if N.eqb code 3 then None else Some h             (* duplicate / no such request: ignored *)
  | IAnsClr r, ORes code =>
      if N.eqb code 0 then
        if negb (h_clr h) then None
        else if h_done h && negb (h_out h) then None         (* gone without outcome: the Clear request was dropped *)
        else if live h then (if is_ok (class_clear id r) then Some (set_ans h) else Some (set_bad h))
        else Some h
      else if N.eqb code 3 then None else Some h
  | IDropReq, ORes code => if N.eqb code 3 then (if h_started h then Some (set_drop h) else None) else Some h
  | IDropClr, ORes code => if N.eqb code 3 then (if h_clr h then Some (set_drop h) else None) else Some h
  | IClear, ORes _ => Some (set_app h (h_hdl h && live h))
  | IDropHandle, ORes _ => Some (set_app h false)
  | _, _ => None                                             (* OPanic without a bad response, or a shape mismatch *)
  end.

(* one timer: the trace may end early only with a panic *)
Fixpoint ok1 (k : tkind) (id : N) (h : hist) (xs : list tin) (os : list obs) : bool :=
  match xs, os with
  | [], [] => true
  | x :: xs', o :: os' =>
      if is_panic o then h_bad h && is_nil os'
      else match hstep k id h x o with Some h' => ok1 k id h' xs' os' | None => false end
  | _, _ => false
  end.
Definition C18_ok1 (k : tkind) (id : N) (xs : list tin) (os : list obs) : bool := ok1 k id hist0 xs os.

(* several timers: ids handed out are pairwise distinct, and every timer follows the automaton *)
Definition srec := (tkind * N * hist)%type.
Fixpoint has_id (id : N) (l : list srec) : bool :=
  match l with [] => false | (_, i, _) :: l' => N.eqb i id || has_id id l' end.
Fixpoint sok (st : list srec) (xs : list sin) (os : list obs) : bool :=
  match xs, os with
  | [], [] => true
  | SStart k :: xs', OStarted id :: os' =>
      negb (has_id id st) && sok (st ++ [(k, id, hist0)]) xs' os'
  | SOn i x :: xs', o :: os' =>
      match nth_error st i with
      | None => match o with OBad => sok st xs' os' | _ => false end
      | Some (k, id, h) =>
          if is_panic o then h_bad h && is_nil os'
          else match hstep k id h x o with
               | Some h' => sok (upd_nth st i (k, id, h')) xs' os'
               | None => false
               end
      end
  | _, _ => false
  end.
Definition C18_ok (xs : list sin) (os : list obs) : bool := sok [] xs os.

(* inputs under which the theorems promise "never panics": every response has the right kind and id *)
Definition good_in (k : tkind) (id : N) (x : tin) : bool :=
  match x with
  | IFire r => is_ok (class_start k id r)
  | IAnsClr r => is_ok (class_clear id r)
  | _ => true
  end.

(* ---- vocabulary of the derived theorems (SpecProofs.v): simple scans of inputs/observations ---- *)
Fixpoint events_of (os : list obs) : list outcome :=
  match os with [] => [] | OPoll _ v _ :: os' => v ++ events_of os' | _ :: os' => events_of os' end.
Fixpoint effects_of (os : list obs) : list eff :=
  match os with [] => [] | OPoll e _ _ :: os' => e ++ effects_of os' | _ :: os' => effects_of os' end.
(* the shell answered the timer's request: a response of the right kind and id was accepted (Ok) *)
Fixpoint answered (k : tkind) (id : N) (xs : list tin) (os : list obs) : bool :=
  match xs, os with
  | IFire r :: xs', ORes c :: os' => (is_ok (class_start k id r) && N.eqb c 0) || answered k id xs' os'
  | _ :: xs', _ :: os' => answered k id xs' os'
  | _, _ => false
  end.
(* the app cleared the timer: the first thing it does with the handle is clear() (not drop) *)
Fixpoint app_cleared (xs : list tin) : bool :=
  match xs with [] => false | IClear :: _ => true | IDropHandle :: _ => false | _ :: xs' => app_cleared xs' end.
(* ... and it does so before the command is ever run *)
Fixpoint cleared_before_start (xs : list tin) : bool :=
  match xs with [] => false | IClear :: _ => true | IDropHandle :: _ => false | IPoll :: _ => false
  | _ :: xs' => cleared_before_start xs' end.
(* the shell dropped a request of this timer (start or clear request) *)
Fixpoint req_dropped (xs : list tin) (os : list obs) : bool :=
  match xs, os with
  | IDropReq :: xs', ORes c :: os' => N.eqb c 3 || req_dropped xs' os'
  | IDropClr :: xs', ORes c :: os' => N.eqb c 3 || req_dropped xs' os'
  | _ :: xs', _ :: os' => req_dropped xs' os'
  | _, _ => false
  end.
Definition good (k : tkind) (id : N) (xs : list tin) : bool := forallb (good_in k id) xs.
Definition quiet_obs (o : obs) : Prop := match o with OPoll e v d => e = [] /\ v = [] /\ d = true | _ => True end.

(* the inputs and observations of timer number i within a run of several timers *)
Fixpoint proj_on (i : nat) (xs : list sin) (os : list obs) : list (tin * obs) :=
  match xs, os with
  | SOn j x :: xs', o :: os' => if Nat.eqb j i then (x, o) :: proj_on i xs' os' else proj_on i xs' os'
  | SStart _ :: xs', _ :: os' => proj_on i xs' os'
  | _, _ => []
  end.
(* kind, id and projected trace of the timer that is the i-th to be started (n timers exist already) *)
Fixpoint timer_view (n i : nat) (xs : list sin) (os : list obs) : option (tkind * N * list (tin * obs)) :=
  match xs, os with
  | SStart k :: xs', OStarted id :: os' =>
      if Nat.eqb n i then Some (k, id, proj_on i xs' os') else timer_view (S n) i xs' os'
  | SOn _ _ :: xs', _ :: os' => timer_view n i xs' os'
  | _, _ => None
  end.
Definition ids_of (st : list srec) : list N := map (fun r => snd (fst r)) st.
Fixpoint started_ids (xs : list sin) (os : list obs) : list N :=
  match xs, os with
  | SStart _ :: xs', OStarted id :: os' => id :: started_ids xs' os'
  | _ :: xs', _ :: os' => started_ids xs' os'
  | _, _ => []
  end.

(* A host that cannot observe is_done of a hosted command (Core): the done flag of every run is
   replaced by "an outcome has been reported so far".  Accepted traces stay accepted (SpecProofs). *)
Fixpoint weak1 (out : bool) (os : list obs) : list obs :=
  match os with
  | [] => []
  | OPoll e v d :: os' => let out' := out || negb (is_nil v) in OPoll e v out' :: weak1 out' os'
  | o :: os' => o :: weak1 out os'
  end.
Fixpoint weak (outs : list bool) (xs : list sin) (os : list obs) : list obs :=
  match xs, os with
  | SStart _ :: xs', o :: os' => o :: weak (outs ++ [false]) xs' os'
  | SOn i _ :: xs', OPoll e v d :: os' =>
      let out' := nth i outs false || negb (is_nil v) in
      OPoll e v out' :: weak (upd_nth outs i out') xs' os'
  | _ :: xs', o :: os' => o :: weak outs xs' os'
  | _, _ => os
  end.
Definition undone (h : hist) : hist :=
  mkHist (h_started h) (h_pend h) (h_fired h) (h_app h) (h_hdl h) (h_clr h) (h_ans h) (h_drop h) (h_out h) (h_out h) (h_bad h).

(* verdict of one correspondence case (see CONTRIBUTING.md): 0 agree and C18_ok; 1 differ but
   C18_ok holds of the implementation's trace; 2 C18_ok fails on the implementation's trace *)
Definition verdict (c0 : N) (xs : list sin) (impl : list obs) : N :=
  if C18_ok xs impl then (if trace_eqb (srun (sys0 c0) xs) impl then 0%N else 1%N) else 2%N.
Definition verdicts (cs : list (N * list sin * list obs)) : list N :=
  map (fun c => match c with (c0, xs, impl) => verdict c0 xs impl end) cs.

(* Core host: the harness regroups every core call into "the input, then a run of every timer" and
   cannot observe done flags *)
Definition verdict_core (c0 : N) (xs : list sin) (impl : list obs) : N :=
  if C18_ok xs impl then (if trace_eqb (weak [] xs (srun (sys0 c0) xs)) impl then 0%N else 1%N) else 2%N.
Definition verdicts_core (cs : list (N * list sin * list obs)) : list N :=
  map (fun c => match c with (c0, xs, impl) => verdict_core c0 xs impl end) cs.

(* shrinking: C18_ok is prefix-closed (SpecProofs.ok1_firstn), so a rejected case has a shortest rejected
   prefix; the check reports its length with every failing case *)
Fixpoint sf_go (n fuel : nat) (xs : list sin) (os : list obs) : nat :=
  match fuel with
  | 0 => n
  | S f => if C18_ok (firstn n xs) (firstn n os) then sf_go (S n) f xs os else n
  end.
Definition shortest_fail (xs : list sin) (os : list obs) : nat := sf_go 1 (length xs) xs os.
Definition shortest_fails (cs : list (N * list sin * list obs)) : list nat :=
  map (fun c => match c with (_, xs, os) => shortest_fail xs os end) cs.
