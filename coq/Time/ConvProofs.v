From Coq Require Import List ZArith Bool Lia.
From Crux Require Import Base.Res Time.Conv.
Import ListNotations.
Open Scope Z_scope.

Ltac unf := unfold TD_MAX in *; unfold U64, I64MAX, I64MIN, U32, NPS, NPM, TS_MIN, TS_MAX in *.
Ltac brk :=
  repeat match goal with
  | H : _ && _ = true |- _ => apply andb_prop in H; destruct H
  | H : _ || _ = true |- _ => apply orb_prop in H
  | H : (_ <=? _) = true |- _ => apply Z.leb_le in H
  | H : (_ <? _) = true |- _ => apply Z.ltb_lt in H
  | H : (_ <=? _) = false |- _ => apply Z.leb_gt in H
  | H : (_ <? _) = false |- _ => apply Z.ltb_ge in H
  | H : (_ =? _) = true |- _ => apply Z.eqb_eq in H
  | H : (_ =? _) = false |- _ => apply Z.eqb_neq in H
  | H : negb _ = true |- _ => apply negb_true_iff in H
  | H : negb _ = false |- _ => apply negb_false_iff in H
  end.

Ltac fin := first [reflexivity | cbn; rewrite ?Z.eqb_refl; reflexivity].

Lemma lzeq_refl l : list_Z_eqb l l = true.
Proof. apply list_Z_eqb_eq; reflexivity. Qed.

(* C19_ok holds of the model's own observation for every constructible input outside the known class *)
Lemma model_ok op a b :
  valid_in op a b = true -> known_invalid_nanos op a b = false ->
  C19_ok op a b (conv op a b) = true.
Proof.
  intros Hv Hk. unfold C19_ok.
  destruct op; cbn [valid_in known_invalid_nanos spec conv] in *; brk.
  - (* from_millis *) unfold dur_from_millis, one_obs. destruct (a * NPM <? U64); fin.
  - unfold dur_from_secs, one_obs. destruct (a * NPS <? U64); fin.
  - unfold dur_of_std, one_obs. destruct (a * NPS + b <? U64); fin.
  - unfold std_of_dur, pair_obs. fin.
  - unfold instant_new, pair_obs. destruct (b <? NPS); fin.
  - unfold instant_of_systime, pair_obs. rewrite Z.ltb_antisym. destruct (0 <=? a); fin.
  - (* systime_of_instant, b < NPS by Hk *)
    unfold systime_of_instant, pair_obs.
    assert (Hb: b / NPS = 0) by (apply Z.div_small; unf; lia).
    assert (Hm: b mod NPS = b) by (apply Z.mod_small; unf; lia).
    rewrite Hb, Hm, Z.add_0_r.
    assert (Hlt: (b <? NPS) = true) by (apply Z.ltb_lt; lia). rewrite Hlt. cbn [andb].
    destruct (a <=? I64MAX) eqn:E1.
    + apply Z.leb_le in E1.
      assert (E2: (U64 <=? a) = false) by (apply Z.leb_gt; unf; lia).
      assert (E3: (I64MAX <? a) = false) by (apply Z.ltb_ge; lia).
      rewrite E2, E3. fin.
    + apply Z.leb_gt in E1.
      destruct (U64 <=? a); [reflexivity|].
      assert (E3: (I64MAX <? a) = true) by (apply Z.ltb_lt; lia). rewrite E3. reflexivity.
  - unfold dur_of_timedelta, one_obs. rewrite (Z.ltb_antisym 0 a).
    destruct (0 <=? a); cbn; [|reflexivity]. destruct (a <? U64); fin.
  - unfold timedelta_of_dur, one_obs. destruct (a <=? TD_MAX); fin.
  - (* datetime_of_instant, b < NPS *)
    unfold datetime_of_instant, from_timestamp, pair_obs.
    assert (Hlt: (b <? NPS) = true) by (apply Z.ltb_lt; lia). rewrite Hlt. cbn [andb].
    assert (E0: (a <? TS_MIN) = false) by (apply Z.ltb_ge; unf; lia). rewrite E0. cbn [orb].
    assert (E4: (2 * NPS <=? b) = false) by (apply Z.leb_gt; unf; lia).
    assert (E5: (NPS <=? b) = false) by (apply Z.leb_gt; lia).
    rewrite E4, E5. cbn [andb].
    destruct (a <=? TS_MAX) eqn:E1.
    + apply Z.leb_le in E1.
      assert (E2: (I64MAX <? a) = false) by (apply Z.ltb_ge; unf; lia).
      assert (E3: (TS_MAX <? a) = false) by (apply Z.ltb_ge; lia).
      rewrite E2, E3. fin.
    + apply Z.leb_gt in E1.
      assert (E3: (TS_MAX <? a) = true) by (apply Z.ltb_lt; lia).
      destruct (I64MAX <? a); [reflexivity|]. rewrite E3. reflexivity.
  - unfold instant_of_datetime, pair_obs. rewrite (Z.ltb_antisym 0 a).
    destruct (0 <=? a); cbn; [|reflexivity].
    rewrite (Z.leb_antisym b NPS). destruct (b <? NPS); fin.
  - (* instant_deser, b < NPS *)
    unfold instant_deser, pair_obs.
    assert (Hlt: (b <? NPS) = true) by (apply Z.ltb_lt; lia). rewrite Hlt. fin.
Qed.

(* Round trips, stated directly *)
Lemma std_dur_roundtrip n : 0 <= n < U64 ->
  bind (std_of_dur n) (fun p => dur_of_std (fst p) (snd p)) = Ok n.
Proof.
  intros Hn. unfold std_of_dur, dur_of_std, bind. cbn [fst snd].
  assert (E: n / NPS * NPS + n mod NPS = n) by (unf; rewrite Z.mul_comm; symmetry; apply Z.div_mod; lia).
  rewrite E. assert (L: (n <? U64) = true) by (apply Z.ltb_lt; lia). rewrite L. reflexivity.
Qed.

Lemma dur_std_roundtrip s ns : 0 <= s -> 0 <= ns < NPS -> s * NPS + ns < U64 ->
  bind (dur_of_std s ns) std_of_dur = Ok (s, ns).
Proof.
  intros Hs Hns Hlt. unfold dur_of_std, std_of_dur, bind.
  assert (L: (s * NPS + ns <? U64) = true) by (apply Z.ltb_lt; lia). rewrite L.
  f_equal. f_equal.
  - rewrite Z.div_add_l by (unf; lia). rewrite Z.div_small by lia. lia.
  - rewrite Z.add_comm, Z.mod_add by (unf; lia). apply Z.mod_small; lia.
Qed.

Lemma dur_std_rejects s ns : 0 <= s -> 0 <= ns < NPS -> U64 <= s * NPS + ns ->
  dur_of_std s ns = Panic.
Proof.
  intros Hs Hns Hge. unfold dur_of_std.
  assert (L: (s * NPS + ns <? U64) = false) by (apply Z.ltb_ge; lia). rewrite L. reflexivity.
Qed.

Lemma td_dur_roundtrip n : 0 <= n < U64 ->
  bind (timedelta_of_dur n) dur_of_timedelta = Ok n.
Proof.
  intros Hn. unfold timedelta_of_dur, dur_of_timedelta, bind.
  assert (L1: (n <=? TD_MAX) = true) by (apply Z.leb_le; unf; lia). rewrite L1.
  assert (L2: (n <? 0) = false) by (apply Z.ltb_ge; lia). rewrite L2.
  assert (L3: (n <? U64) = true) by (apply Z.ltb_lt; lia). rewrite L3. reflexivity.
Qed.

Lemma td_negative_rejected t : t < 0 -> dur_of_timedelta t = Err E_InvalidDuration.
Proof. intros H. unfold dur_of_timedelta. assert (L: (t <? 0) = true) by (apply Z.ltb_lt; lia). rewrite L. reflexivity. Qed.

Lemma sys_instant_roundtrip s ns : 0 <= s <= I64MAX -> 0 <= ns < NPS ->
  bind (instant_of_systime s ns) (fun p => systime_of_instant (fst p) (snd p)) = Ok (s, ns).
Proof.
  intros Hs Hns. unfold instant_of_systime, systime_of_instant, bind.
  assert (L: (s <? 0) = false) by (apply Z.ltb_ge; lia). rewrite L. cbn [fst snd].
  rewrite Z.div_small, Z.mod_small, Z.add_0_r by lia.
  assert (L1: (U64 <=? s) = false) by (apply Z.leb_gt; unf; lia).
  assert (L2: (I64MAX <? s) = false) by (apply Z.ltb_ge; lia). rewrite L1, L2. reflexivity.
Qed.

Lemma dt_instant_roundtrip s ns : 0 <= s <= TS_MAX -> 0 <= ns < NPS ->
  bind (datetime_of_instant s ns) (fun p => instant_of_datetime (fst p) (snd p)) = Ok (s, ns).
Proof.
  intros Hs Hns. unfold datetime_of_instant, from_timestamp, instant_of_datetime, bind.
  assert (L0: (I64MAX <? s) = false) by (apply Z.ltb_ge; unf; lia).
  assert (L1: (s <? TS_MIN) = false) by (apply Z.ltb_ge; unf; lia).
  assert (L2: (TS_MAX <? s) = false) by (apply Z.ltb_ge; lia).
  assert (L3: (2 * NPS <=? ns) = false) by (apply Z.leb_gt; unf; lia).
  assert (L4: (NPS <=? ns) = false) by (apply Z.leb_gt; lia).
  rewrite L0, L1, L2, L3, L4. cbn [orb andb fst snd].
  assert (L5: (s <? 0) = false) by (apply Z.ltb_ge; lia). rewrite L5, L4. reflexivity.
Qed.

(* The known class is real on the faithful model: an invalid sub-second part is accepted by
   deserialisation and silently normalised by the conversion to SystemTime. *)
Lemma invalid_nanos_refuted :
  exists s ns, valid_in OInstantDeser s ns = true /\ spec OInstantDeser s ns = None /\
    instant_deser s ns = Ok (s, ns) /\ systime_of_instant s ns = Ok (3, 0).
Proof. exists 1, 2000000000. vm_compute. repeat split. Qed.
