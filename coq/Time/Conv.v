(* Executable model of crux_time/src/protocol/{duration,instant,chrono}.rs on Z, every wrap and
   every panic explicit.  One function per conversion; [conv op args] is the uniform entry point
   used by the correspondence check (same op codes as harness/src/bin/time_conv.rs). *)
From Coq Require Import List ZArith Bool.
From Crux Require Import Base.Res.
Import ListNotations.
Open Scope Z_scope.

Definition U64 : Z := 18446744073709551616.      (* 2^64 *)
Definition I64MAX : Z := 9223372036854775807.
Definition I64MIN : Z := -9223372036854775808.
Definition U32 : Z := 4294967296.
Definition NPS : Z := 1000000000.                 (* NANOS_PER_SEC *)
Definition NPM : Z := 1000000.                    (* NANOS_PER_MILLI *)

(* error codes of TimeError, in declaration order *)
Definition E_InvalidTime : Z := 0.
Definition E_InvalidDuration : Z := 1.
Definition E_InvalidInstant : Z := 2.

(* ---- duration.rs ---- *)
(* Duration::from_millis / from_secs: checked_mul(..).expect(..) *)
Definition dur_from_millis (m : Z) : res Z := if m * NPM <? U64 then Ok (m * NPM) else Panic.
Definition dur_from_secs (s : Z) : res Z := if s * NPS <? U64 then Ok (s * NPS) else Panic.
(* From<std::time::Duration>: u64::try_from(as_nanos()).expect(..)   [after the fix: commit;
   before it the code was `as_nanos() as u64`, i.e. (s*NPS+ns) mod U64] *)
Definition dur_of_std (s ns : Z) : res Z :=
  let t := s * NPS + ns in if t <? U64 then Ok t else Panic.
(* From<Duration> for std Duration: from_nanos *)
Definition std_of_dur (n : Z) : res (Z * Z) := Ok (n / NPS, n mod NPS).

(* ---- instant.rs ---- *)
Definition instant_new (s ns : Z) : res (Z * Z) := if ns <? NPS then Ok (s, ns) else Panic.
(* From<SystemTime>: duration_since(UNIX_EPOCH).unwrap(); the argument is given as the
   (secs, nanos) distance from the epoch, negative secs meaning "before the epoch" *)
Definition instant_of_systime (s ns : Z) : res (Z * Z) := if s <? 0 then Panic else Ok (s, ns).
(* From<Instant> for SystemTime: UNIX_EPOCH + std Duration::new(seconds, nanos).
   Duration::new carries nanos >= 1e9 into the seconds with a checked add (panic), and the
   SystemTime addition panics when the seconds leave i64. *)
Definition systime_of_instant (s ns : Z) : res (Z * Z) :=
  let s' := s + ns / NPS in
  if U64 <=? s' then Panic
  else if I64MAX <? s' then Panic
  else Ok (s', ns mod NPS).
(* derive(Deserialize) for Instant: two integers, no validation *)
Definition instant_deser (s ns : Z) : res (Z * Z) := Ok (s, ns).

(* ---- chrono.rs ---- *)
(* a TimeDelta is modelled by its exact total number of nanoseconds (|t| <= i64::MAX ms) *)
Definition TD_MAX : Z := I64MAX * NPM.
(* TryFrom<TimeDelta> for Duration [after the fix: commit]: whole seconds into u64, sub-second part
   non-negative, checked multiply-add *)
Definition dur_of_timedelta (t : Z) : res Z :=
  if t <? 0 then Err E_InvalidDuration
  else if t <? U64 then Ok t else Err E_InvalidDuration.
(* TryFrom<Duration> for TimeDelta [after the fix: commit]: TimeDelta::new(n / 1e9, n % 1e9) *)
Definition timedelta_of_dur (n : Z) : res Z :=
  if n <=? TD_MAX then Ok n else Err E_InvalidDuration.

(* chrono 0.4.40 DateTime::<Utc>::from_timestamp range (MIN_UTC / MAX_UTC timestamps) *)
Definition TS_MIN : Z := -8334601228800.
Definition TS_MAX : Z := 8210266876799.
Definition from_timestamp (secs nsecs : Z) : option (Z * Z) :=
  if (secs <? TS_MIN) || (TS_MAX <? secs) then None
  else if 2 * NPS <=? nsecs then None
  else if (NPS <=? nsecs) && negb ((secs mod 86400) mod 60 =? 59) then None
  else Some (secs, nsecs).
(* TryFrom<Instant> for DateTime<Utc> *)
Definition datetime_of_instant (s ns : Z) : res (Z * Z) :=
  if I64MAX <? s then Err E_InvalidInstant
  else match from_timestamp s ns with Some r => Ok r | None => Err E_InvalidInstant end.
(* TryFrom<DateTime<Utc>> for Instant [after the fix: commit: a leap-second sub-second part
   (>= 1e9) is rejected]; the argument is (timestamp, timestamp_subsec_nanos) *)
Definition instant_of_datetime (ts sub : Z) : res (Z * Z) :=
  if ts <? 0 then Err E_InvalidTime
  else if NPS <=? sub then Err E_InvalidTime
  else Ok (ts, sub).

(* ---- uniform entry point ---- *)
Definition pair_obs (r : res (Z * Z)) : list Z := obs_res (rmap (fun p => [fst p; snd p]) r).
Definition one_obs (r : res Z) : list Z := obs_res (rmap (fun x => [x]) r).

Inductive cop := OFromMillis | OFromSecs | ODurOfStd | OStdOfDur | OInstantNew | OInstantOfSys | OSysOfInstant | ODurOfTd | OTdOfDur | ODtOfInstant | OInstantOfDt | OInstantDeser.

Definition conv (op : cop) (a b : Z) : list Z :=
  match op with
  | OFromMillis => one_obs (dur_from_millis a)
  | OFromSecs => one_obs (dur_from_secs a)
  | ODurOfStd => one_obs (dur_of_std a b)
  | OStdOfDur => pair_obs (std_of_dur a)
  | OInstantNew => pair_obs (instant_new a b)
  | OInstantOfSys => pair_obs (instant_of_systime a b)
  | OSysOfInstant => pair_obs (systime_of_instant a b)
  | ODurOfTd => one_obs (dur_of_timedelta a)
  | OTdOfDur => one_obs (timedelta_of_dur a)
  | ODtOfInstant => pair_obs (datetime_of_instant a b)
  | OInstantOfDt => pair_obs (instant_of_datetime a b)
  | OInstantDeser => pair_obs (instant_deser a b)
  end.

(* ---- what the property demands, stated without reference to the code ----
   [spec op a b] is [Some v] when the mathematical value denoted by the input is representable in
   the target type (then the conversion must return exactly v) and [None] when it is not (then the
   conversion must reject: an error value or a documented panic).  Inputs outside [valid_in] cannot
   be constructed through the source type at all. *)
Definition valid_in (op : cop) (a b : Z) : bool :=
  match op with
  | OFromMillis | OFromSecs | OStdOfDur | OTdOfDur => (0 <=? a) && (a <? U64)
  | ODurOfStd => (0 <=? a) && (a <? U64) && (0 <=? b) && (b <? NPS)
  | OInstantNew | OSysOfInstant | ODtOfInstant | OInstantDeser => (0 <=? a) && (a <? U64) && (0 <=? b) && (b <? U32)
  | OInstantOfSys => (I64MIN <=? a) && (a <=? I64MAX) && (0 <=? b) && (b <? NPS)
  | ODurOfTd => (- TD_MAX <=? a) && (a <=? TD_MAX)
  | OInstantOfDt => (TS_MIN <=? a) && (a <=? TS_MAX) && (0 <=? b) && (b <? 2 * NPS)
          && ((b <? NPS) || ((a mod 86400) mod 60 =? 59))
  end.

Definition spec (op : cop) (a b : Z) : option (list Z) :=
  match op with
  | OFromMillis => if a * NPM <? U64 then Some [a * NPM] else None
  | OFromSecs => if a * NPS <? U64 then Some [a * NPS] else None
  | ODurOfStd => if a * NPS + b <? U64 then Some [a * NPS + b] else None
  | OStdOfDur => Some [a / NPS; a mod NPS]
  | OInstantNew | OInstantDeser => if b <? NPS then Some [a; b] else None
  | OInstantOfSys => if 0 <=? a then Some [a; b] else None
  | OSysOfInstant => if (b <? NPS) && (a <=? I64MAX) then Some [a; b] else None
  | ODurOfTd => if (0 <=? a) && (a <? U64) then Some [a] else None
  | OTdOfDur => if a <=? TD_MAX then Some [a] else None
  | ODtOfInstant => if (b <? NPS) && (a <=? TS_MAX) then Some [a; b] else None
  | OInstantOfDt => if (0 <=? a) && (b <? NPS) then Some [a; b] else None
  end.

(* the decidable trace predicate, evaluated on the implementation's observation too *)
Definition C19_ok (op : cop) (a b : Z) (obs : list Z) : bool :=
  match spec op a b with
  | Some v => list_Z_eqb obs (0 :: v)
  | None => match obs with [1; _] | [2] => true | _ => false end
  end.

(* Known finding class (KNOWN_FINDINGS.txt, class=instant_invalid_nanos): an Instant whose nanos
   field is >= 1e9 can only come from deserialisation, which does not validate it; the conversions
   that then receive it normalise or accept it instead of rejecting. *)
Definition known_invalid_nanos (op : cop) (a b : Z) : bool :=
  match op with OSysOfInstant | ODtOfInstant | OInstantDeser => NPS <=? b | _ => false end.

(* per-case verdict used by generated case files:
   0 = model and implementation agree and C19_ok holds of the implementation's observation
   1 = model and implementation differ (C19_ok holds of the implementation's observation)
   2 = C19_ok fails on the implementation's observation, input outside every known class
   100 = C19_ok fails, input in class instant_invalid_nanos
   9 = the harness produced an input outside valid_in (harness bug) *)
Definition verdict (op : cop) (a b : Z) (impl : list Z) : N :=
  if negb (valid_in op a b) then 9%N
  else if C19_ok op a b impl then (if list_Z_eqb impl (conv op a b) then 0%N else 1%N)
  else if known_invalid_nanos op a b then 100%N else 2%N.
Definition verdicts (cs : list (cop * Z * Z * list Z)) : list N :=
  map (fun c => match c with (op, a, b, impl) => verdict op a b impl end) cs.
