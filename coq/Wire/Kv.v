(* Model of crux_kv: the five calls of both APIs, the response unwrapping, the Value conversions, and
   the image of operations and results in the wire schema (coq/Wire/Codec.v).

   Transcribed from /repo/crux_kv/src/lib.rs (capability API: `get`/`set`/`delete`/`exists`/`list_keys`
   free functions at the bottom of the file, `KeyValueResult::unwrap_*`), /repo/crux_kv/src/command.rs
   (command API) and /repo/crux_kv/src/value.rs.  Strings are their UTF-8 bytes.  Model file:
   definitions only; lemmas in KvProofs.v. *)
From Coq Require Import String List ZArith NArith Bool.
From Crux Require Import Wire.Codec.
Import ListNotations.

Definition bytes := list byte.

(* ---- protocol types (crux_kv/src/lib.rs, value.rs, error.rs) *)
Inductive kv_op : Type :=
| OGet (key : bytes)
| OSet (key : bytes) (value : bytes)
| ODelete (key : bytes)
| OExists (key : bytes)
| OListKeys (prefix : bytes) (cursor : N).

Inductive kv_value : Type := KNone | KBytes (b : bytes).

Inductive kv_error : Type :=
| EIo (message : bytes) | ETimeout | ECursorNotFound | EOther (message : bytes).

Inductive kv_response : Type :=
| RGet (value : kv_value)
| RSet (previous : kv_value)
| RDelete (previous : kv_value)
| RExists (is_present : bool)
| RListKeys (keys : list bytes) (next_cursor : N).

Inductive kv_result : Type := KOk (response : kv_response) | KErr (error : kv_error).

(* ---- what the app asks for and what it is handed back *)
Inductive api : Type := Capability | Command.

Inductive call : Type :=
| CGet (key : bytes)
| CSet (key : bytes) (value : bytes)
| CDelete (key : bytes)
| CExists (key : bytes)
| CListKeys (prefix : bytes) (cursor : N).

Inductive payload : Type :=
| PData (d : option bytes)                 (* Result<Option<Vec<u8>>, _>::Ok *)
| PStatus (b : bool)                       (* Result<bool, _>::Ok *)
| PKeys (keys : list bytes) (cursor : N).  (* Result<(Vec<String>, u64), _>::Ok *)

Inductive outcome : Type :=
| Delivered (p : payload)     (* the callback / then_send event carries Ok(p) *)
| Failed (e : kv_error)       (* ... carries Err(e) *)
| Panicked.                   (* app / capability code panicked; not produced by crux_kv since fix e5ed299 *)

(* ---- specification side: kinds, and what "unchanged" means *)
Inductive kind : Type := KGet | KSet | KDelete | KExists | KList.
Definition kind_eqb (a b : kind) : bool :=
  match a, b with
  | KGet, KGet | KSet, KSet | KDelete, KDelete | KExists, KExists | KList, KList => true
  | _, _ => false
  end.
Definition call_kind (c : call) : kind :=
  match c with CGet _ => KGet | CSet _ _ => KSet | CDelete _ => KDelete | CExists _ => KExists | CListKeys _ _ => KList end.
Definition op_kind (o : kv_op) : kind :=
  match o with OGet _ => KGet | OSet _ _ => KSet | ODelete _ => KDelete | OExists _ => KExists | OListKeys _ _ => KList end.
Definition response_kind (r : kv_response) : kind :=
  match r with RGet _ => KGet | RSet _ => KSet | RDelete _ => KDelete | RExists _ => KExists | RListKeys _ _ => KList end.

(* value.rs *)
Definition option_of_value (v : kv_value) : option bytes :=
  match v with KNone => None | KBytes b => Some b end.
Definition value_of_option (o : option bytes) : kv_value :=
  match o with None => KNone | Some b => KBytes b end.
Definition value_of_vec (b : bytes) : kv_value := KBytes b.

(* lib.rs:309-359 - one `request_from_shell` per call, arguments moved into the operation *)
Definition emit_capability (c : call) : list kv_op :=
  match c with
  | CGet key => [OGet key]
  | CSet key value => [OSet key value]
  | CDelete key => [ODelete key]
  | CExists key => [OExists key]
  | CListKeys prefix cursor => [OListKeys prefix cursor]
  end.

(* command.rs - `Command::request_from_shell(KeyValueOperation::..)` *)
Definition emit_command (c : call) : list kv_op :=
  match c with
  | CGet key => [OGet key]
  | CSet key value => [OSet key value]
  | CDelete key => [ODelete key]
  | CExists key => [OExists key]
  | CListKeys prefix cursor => [OListKeys prefix cursor]
  end.

Definition emit (a : api) (c : call) : list kv_op :=
  match a with Capability => emit_capability c | Command => emit_command c end.

(* lib.rs `unwrap_get` ... `unwrap_list_keys` (since fix e5ed299): a well-formed response of another
   kind than the call expects is reported to the app as
   KeyValueError::Other { message: "unexpected response: expected <Kind>" } - it used to panic *)
Definition kind_name (k : kind) : string :=
  match k with KGet => "Get" | KSet => "Set" | KDelete => "Delete" | KExists => "Exists" | KList => "ListKeys" end.
Definition mismatch_error (k : kind) : kv_error :=
  EOther (list_byte_of_string ("unexpected response: expected " ++ kind_name k)).

Definition unwrap_get (r : kv_result) : outcome :=
  match r with
  | KOk (RGet value) => Delivered (PData (option_of_value value))
  | KOk _ => Failed (mismatch_error KGet)
  | KErr e => Failed e
  end.
Definition unwrap_set (r : kv_result) : outcome :=
  match r with
  | KOk (RSet previous) => Delivered (PData (option_of_value previous))
  | KOk _ => Failed (mismatch_error KSet)
  | KErr e => Failed e
  end.
Definition unwrap_delete (r : kv_result) : outcome :=
  match r with
  | KOk (RDelete previous) => Delivered (PData (option_of_value previous))
  | KOk _ => Failed (mismatch_error KDelete)
  | KErr e => Failed e
  end.
Definition unwrap_exists (r : kv_result) : outcome :=
  match r with
  | KOk (RExists is_present) => Delivered (PStatus is_present)
  | KOk _ => Failed (mismatch_error KExists)
  | KErr e => Failed e
  end.
Definition unwrap_list_keys (r : kv_result) : outcome :=
  match r with
  | KOk (RListKeys keys next_cursor) => Delivered (PKeys keys next_cursor)
  | KOk _ => Failed (mismatch_error KList)
  | KErr e => Failed e
  end.

(* both APIs: `.await.unwrap_x()` / `.map(|r| r.unwrap_x())` *)
Definition deliver (a : api) (c : call) (r : kv_result) : outcome :=
  match c with
  | CGet _ => unwrap_get r
  | CSet _ _ => unwrap_set r
  | CDelete _ => unwrap_delete r
  | CExists _ => unwrap_exists r
  | CListKeys _ _ => unwrap_list_keys r
  end.

(* the operation that says exactly what the call said *)
Definition op_of_call (c : call) : kv_op :=
  match c with
  | CGet key => OGet key
  | CSet key value => OSet key value
  | CDelete key => ODelete key
  | CExists key => OExists key
  | CListKeys prefix cursor => OListKeys prefix cursor
  end.
Definition call_of_op (o : kv_op) : call :=
  match o with
  | OGet key => CGet key
  | OSet key value => CSet key value
  | ODelete key => CDelete key
  | OExists key => CExists key
  | OListKeys prefix cursor => CListKeys prefix cursor
  end.

(* what the shell put into a response, as the app-facing payload *)
Definition payload_of_response (r : kv_response) : payload :=
  match r with
  | RGet v | RSet v | RDelete v => PData (option_of_value v)
  | RExists b => PStatus b
  | RListKeys keys cursor => PKeys keys cursor
  end.
(* the response a shell builds to report payload [p] for a call of kind [k] *)
Definition response_of_payload (k : kind) (p : payload) : option kv_response :=
  match k, p with
  | KGet, PData d => Some (RGet (value_of_option d))
  | KSet, PData d => Some (RSet (value_of_option d))
  | KDelete, PData d => Some (RDelete (value_of_option d))
  | KExists, PStatus b => Some (RExists b)
  | KList, PKeys keys cursor => Some (RListKeys keys cursor)
  | _, _ => None
  end.

(* ---- image in the wire schema (names and field order as in the traced registry) *)
Definition v_op (o : kv_op) : value :=
  match o with
  | OGet key => VEnum 0 (VList [VBytes key])
  | OSet key value => VEnum 1 (VList [VBytes key; VBytes value])
  | ODelete key => VEnum 2 (VList [VBytes key])
  | OExists key => VEnum 3 (VList [VBytes key])
  | OListKeys prefix cursor => VEnum 4 (VList [VBytes prefix; VInt (Z.of_N cursor)])
  end.
Definition v_value (v : kv_value) : value :=
  match v with KNone => VEnum 0 VUnit | KBytes b => VEnum 1 (VBytes b) end.
Definition v_error (e : kv_error) : value :=
  match e with
  | EIo m => VEnum 0 (VList [VBytes m])
  | ETimeout => VEnum 1 VUnit
  | ECursorNotFound => VEnum 2 VUnit
  | EOther m => VEnum 3 (VList [VBytes m])
  end.
Definition v_response (r : kv_response) : value :=
  match r with
  | RGet v => VEnum 0 (VList [v_value v])
  | RSet v => VEnum 1 (VList [v_value v])
  | RDelete v => VEnum 2 (VList [v_value v])
  | RExists b => VEnum 3 (VList [VBool b])
  | RListKeys keys cursor => VEnum 4 (VList [VList (map VBytes keys); VInt (Z.of_N cursor)])
  end.
Definition v_result (r : kv_result) : value :=
  match r with
  | KOk resp => VEnum 0 (VList [v_response resp])
  | KErr e => VEnum 1 (VList [v_error e])
  end.

(* reading a schema value back as a protocol value *)
Definition op_of_v (v : value) : option kv_op :=
  match v with
  | VEnum 0 (VList [VBytes key]) => Some (OGet key)
  | VEnum 1 (VList [VBytes key; VBytes value]) => Some (OSet key value)
  | VEnum 2 (VList [VBytes key]) => Some (ODelete key)
  | VEnum 3 (VList [VBytes key]) => Some (OExists key)
  | VEnum 4 (VList [VBytes prefix; VInt cursor]) => Some (OListKeys prefix (Z.to_N cursor))
  | _ => None
  end.
Definition value_of_v (v : value) : option kv_value :=
  match v with
  | VEnum 0 VUnit => Some KNone
  | VEnum 1 (VBytes b) => Some (KBytes b)
  | _ => None
  end.
Definition error_of_v (v : value) : option kv_error :=
  match v with
  | VEnum 0 (VList [VBytes m]) => Some (EIo m)
  | VEnum 1 VUnit => Some ETimeout
  | VEnum 2 VUnit => Some ECursorNotFound
  | VEnum 3 (VList [VBytes m]) => Some (EOther m)
  | _ => None
  end.
Fixpoint keys_of_vs (vs : list value) : option (list bytes) :=
  match vs with
  | [] => Some []
  | VBytes k :: vs' => match keys_of_vs vs' with Some ks => Some (k :: ks) | None => None end
  | _ => None
  end.
Definition response_of_v (v : value) : option kv_response :=
  match v with
  | VEnum 0 (VList [x]) => option_map RGet (value_of_v x)
  | VEnum 1 (VList [x]) => option_map RSet (value_of_v x)
  | VEnum 2 (VList [x]) => option_map RDelete (value_of_v x)
  | VEnum 3 (VList [VBool b]) => Some (RExists b)
  | VEnum 4 (VList [VList ks; VInt cursor]) =>
    match keys_of_vs ks with Some keys => Some (RListKeys keys (Z.to_N cursor)) | None => None end
  | _ => None
  end.
Definition result_of_v (v : value) : option kv_result :=
  match v with
  | VEnum 0 (VList [x]) => option_map KOk (response_of_v x)
  | VEnum 1 (VList [x]) => option_map KErr (error_of_v x)
  | _ => None
  end.

(* side conditions under which a protocol value is a value of its Rust type: strings are UTF-8,
   lengths fit u64 (always true of a Rust value; stated because [bytes] is an unbounded list) *)
Definition str_ok (s : bytes) : bool := len_ok (length s) && utf8_valid s.
Definition blob_ok (s : bytes) : bool := len_ok (length s).
Definition u64_ok (n : N) : bool := (n <? U64MAX1)%N.
Definition op_ok (o : kv_op) : bool :=
  match o with
  | OGet k | ODelete k | OExists k => str_ok k
  | OSet k v => str_ok k && blob_ok v
  | OListKeys p c => str_ok p && u64_ok c
  end.
Definition value_ok (v : kv_value) : bool := match v with KNone => true | KBytes b => blob_ok b end.
Definition error_ok (e : kv_error) : bool := match e with EIo m | EOther m => str_ok m | _ => true end.
Definition response_ok (r : kv_response) : bool :=
  match r with
  | RGet v | RSet v | RDelete v => value_ok v
  | RExists _ => true
  | RListKeys keys c => len_ok (length keys) && forallb str_ok keys && u64_ok c
  end.
Definition result_ok (r : kv_result) : bool := match r with KOk x => response_ok x | KErr e => error_ok e end.

(* ---- bridge path: operation out through the codec, result back in through the codec *)
Definition F_op : format := FTypeName "KeyValueOperation".
Definition F_result : format := FTypeName "KeyValueResult".

Definition bridge_out (reg : registry) (o : kv_op) : list byte := encode reg F_op (v_op o).
Definition shell_reads (reg : registry) (b : list byte) : option kv_op :=
  match decode reg F_op b with Some (v, []) => op_of_v v | _ => None end.
Definition shell_writes (reg : registry) (r : kv_result) : list byte := encode reg F_result (v_result r).
Definition bridge_in (reg : registry) (b : list byte) : option kv_result :=
  match decode reg F_result b with Some (v, _) => result_of_v v | None => None end.

(* one whole exchange, typed or over the bridge: what the shell sees and what the app gets *)
Definition exchange_typed (a : api) (c : call) (r : kv_result) : list kv_op * outcome :=
  (emit a c, deliver a c r).
Definition exchange_bridge (reg : registry) (a : api) (c : call) (r : kv_result)
  : list (option kv_op) * option outcome :=
  (map (fun o => shell_reads reg (bridge_out reg o)) (emit a c),
   match bridge_in reg (shell_writes reg r) with Some r' => Some (deliver a c r') | None => None end).
