(* The trace predicates of Cases.v hold of the model. *)
From Coq Require Import String List ZArith NArith Bool.
From Coq Require Strings.Byte.
From Crux Require Import Wire.Codec Wire.CodecProofs Wire.Cases.
Import ListNotations.

Lemma bytes_eqb_refl b : bytes_eqb b b = true.
Proof. induction b as [|x b IH]; cbn [bytes_eqb]; [reflexivity|]. rewrite IH, andb_true_r. now apply Coq.Strings.Byte.byte_dec_lb. Qed.

Lemma bytes_eqb_eq a b : bytes_eqb a b = true <-> a = b.
Proof.
  split; [|intros ->; apply bytes_eqb_refl].
  revert b; induction a as [|x a IH]; intros [|y b] H; cbn [bytes_eqb] in H; try discriminate; [reflexivity|].
  apply andb_prop in H as [H1 H2]. apply Coq.Strings.Byte.byte_dec_bl in H1. apply IH in H2. congruence.
Qed.

(* (b): whatever the model writes for a well-typed value passes C10_ok_b *)
Lemma model_ok_b reg f v : has_type reg f v -> verdict_b reg f (encode reg f v) = 0%N.
Proof.
  intros H. unfold verdict_b, C10_ok_b.
  pose proof (roundtrip reg f v [] H) as R. rewrite app_nil_r in R. rewrite R.
  now rewrite bytes_eqb_refl.
Qed.

(* (a): the model accepts its own encoding completely and writes it back *)
Lemma model_ok_a reg f v : has_type reg f v ->
  let hb := encode reg f v in
  match model_a reg f hb with (acc, strict, same) => verdict_a reg f hb acc strict same = 0%N end.
Proof.
  intros H hb. unfold model_a, verdict_a, C10_ok_a.
  pose proof (roundtrip reg f v [] H) as R. rewrite app_nil_r in R. subst hb. rewrite R.
  now rewrite app_nil_r, bytes_eqb_refl.
Qed.

(* conversely a passing verdict certifies the bytes: they are the model's encoding of a well-typed value *)
Lemma verdict_b_sound reg f b : verdict_b reg f b = 0%N -> exists v, has_type reg f v /\ b = encode reg f v.
Proof.
  unfold verdict_b, C10_ok_b. destruct (decode reg f b) as [[v r]|] eqn:E; [|discriminate].
  destruct r; [|discriminate]. intros _. apply canonical in E as [Eb Ht]. exists v. now rewrite app_nil_r in Eb.
Qed.

(* (c): the model accepts its own encoding of a well-typed value, whatever follows it *)
Lemma model_ok_c reg f v rest : has_type reg f v -> verdict_c reg f (encode reg f v ++ rest) true = 0%N.
Proof. intros H. unfold verdict_c. now rewrite (roundtrip reg f v rest H). Qed.
