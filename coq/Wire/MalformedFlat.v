(* [no_zst_seq] is defined along the dependency order (sizes of names are looked up in the rest of the
   list).  For a well-formed registry that is the same as looking every name up globally: every
   container of the registry passes [cseq_ok] with the global minimum sizes [rmin reg]. *)
From Coq Require Import String List ZArith NArith Bool Lia.
From Crux Require Import Wire.Codec Wire.CodecProofs Wire.CodecFlat Wire.Malformed.
Import ListNotations.

Section Ext.
  Variables M1 M2 : string -> nat.

  Lemma fmin_ext f : (forall n, In n (frefs f) -> M1 n = M2 n) -> fmin M1 f = fmin M2 f.
  Proof.
    induction f using format_ind'; intros HR; cbn [fmin]; try reflexivity.
    - apply HR. cbn. auto.
    - cbn [frefs] in HR. induction H as [|f fs Hf _ IH]; cbn [fold_right]; [reflexivity|].
      rewrite Hf, IH; [reflexivity| |]; intros n Hn; apply HR; cbn [flat_map]; apply in_or_app; auto.
    - rewrite IHf; [reflexivity|exact HR].
  Qed.

  Lemma fseq_ok_ext f : (forall n, In n (frefs f) -> M1 n = M2 n) -> fseq_ok M1 f = fseq_ok M2 f.
  Proof.
    induction f using format_ind'; intros HR; cbn [fseq_ok]; try reflexivity.
    - now apply IHf.
    - rewrite (fmin_ext f HR), IHf; [reflexivity|exact HR].
    - cbn [frefs] in HR.
      rewrite (fmin_ext f1), (fmin_ext f2), IHf1, IHf2; try reflexivity; intros n Hn; apply HR; apply in_or_app; auto.
    - cbn [frefs] in HR. induction H as [|f fs Hf _ IH]; cbn [forallb]; [reflexivity|].
      rewrite Hf, IH; [reflexivity| |]; intros n Hn; apply HR; cbn [flat_map]; apply in_or_app; auto.
    - now apply IHf.
  Qed.

  Lemma forallb_fseq_ext fs : (forall n, In n (flat_map frefs fs) -> M1 n = M2 n) ->
    forallb (fseq_ok M1) fs = forallb (fseq_ok M2) fs.
  Proof.
    intros HR. induction fs as [|f fs IH]; cbn [forallb]; [reflexivity|].
    rewrite (fseq_ok_ext f), IH; [reflexivity| |]; intros n Hn; apply HR; cbn [flat_map]; apply in_or_app; auto.
  Qed.
  Lemma forallb_fields_ext (fields : list (string * format)) :
    (forall n, In n (flat_map (fun nf => frefs (snd nf)) fields) -> M1 n = M2 n) ->
    forallb (fun nf => fseq_ok M1 (snd nf)) fields = forallb (fun nf => fseq_ok M2 (snd nf)) fields.
  Proof.
    intros HR. induction fields as [|x l IH]; cbn [forallb]; [reflexivity|].
    rewrite (fseq_ok_ext (snd x)), IH; [reflexivity| |]; intros n Hn; apply HR; cbn [flat_map]; apply in_or_app; auto.
  Qed.

  Lemma vseq_ok_ext v : (forall n, In n (vrefs v) -> M1 n = M2 n) -> vseq_ok M1 v = vseq_ok M2 v.
  Proof.
    destruct v; cbn [vseq_ok vrefs]; intros HR; [reflexivity|now apply fseq_ok_ext|now apply forallb_fseq_ext|now apply forallb_fields_ext].
  Qed.

  Lemma cseq_ok_ext c : (forall n, In n (crefs c) -> M1 n = M2 n) -> cseq_ok M1 c = cseq_ok M2 c.
  Proof.
    destruct c; cbn [cseq_ok crefs]; intros HR;
      [reflexivity|now apply fseq_ok_ext|now apply forallb_fseq_ext|now apply forallb_fields_ext|].
    induction variants as [|e vs IH]; cbn [forallb]; [reflexivity|].
    rewrite (vseq_ok_ext (snd (snd e))), IH; [reflexivity| |]; intros n Hn; apply HR; cbn [flat_map]; apply in_or_app; auto.
  Qed.
End Ext.

Lemma rmin_skip m c reg name : name <> m -> rmin ((m, c) :: reg) name = rmin reg name.
Proof. intros H. cbn [rmin]. destruct (String.eqb name m) eqn:E; [apply String.eqb_eq in E; contradiction|reflexivity]. Qed.

Theorem no_zst_seq_flat reg : wf_registry reg = true -> no_zst_seq reg = true ->
  forall n c, lookup reg n = Some c -> cseq_ok (rmin reg) c = true.
Proof.
  induction reg as [|[m c0] reg IH]; intros W Z n c L; cbn [lookup] in L; [discriminate|].
  cbn [wf_registry] in W. apply andb_prop in W as [W W4]. apply andb_prop in W as [W W3]. apply andb_prop in W as [W1 W2].
  cbn [no_zst_seq] in Z. apply andb_prop in Z as [Z1 Z2].
  assert (Hm : ~ In m (names reg)).
  { intros H. apply mem_name_In in H. rewrite H in W1. discriminate. }
  assert (Htail : forall x, In x (names reg) -> rmin reg x = rmin ((m, c0) :: reg) x).
  { intros x Hx. rewrite rmin_skip; [reflexivity|]. intros ->. contradiction. }
  destruct (String.eqb n m).
  - inversion L; subst c0. rewrite <- Z1. symmetry. apply cseq_ok_ext. intros x Hx. apply Htail.
    rewrite forallb_forall in W2. apply mem_name_In. now apply W2.
  - rewrite <- (IH W4 Z2 n c L). symmetry. apply cseq_ok_ext. intros x Hx. apply Htail.
    exact (lookup_refs_defined reg W4 n c L x Hx).
Qed.
