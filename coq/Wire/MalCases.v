(* Verdicts for C12 case files (bincode probes; JSON probes have no model prediction). *)
From Coq Require Import String List ZArith NArith Bool.
From Crux Require Import Wire.Codec Wire.Kv Wire.Malformed.
Import ListNotations.
Local Open Scope N_scope.

(* target: 0 event, 1 one-shot request, 2 stream, 3 notification (an entry that expects no response) *)
Definition predict (reg : registry) (target : N) (f : format) (b : list byte) : bool :=
  if target =? 3 then false
  else match decode reg f b with Some _ => true | None => false end.

(* C12_ok on one probe: the call returned (no panic; a hang would have killed the run), no single
   allocation beyond the decoder's cap plus a small multiple of the input, and a rejected event left
   the view as it was *)
Definition alloc_ok (len max_single : N) : bool := max_single <=? MAX_PREALLOC_BYTES + 16 * len + 65536.
Definition C12_ok (target : N) (accepted panicked view_same : bool) (len max_single : N) : bool :=
  negb panicked && alloc_ok len max_single &&
  (if (target =? 0) && negb accepted then view_same else true).

Definition verdict_c12 (reg : registry) (target : N) (f : format) (b : list byte)
           (accepted panicked view_same : bool) (max_single : N) : N :=
  let len := N.of_nat (length b) in
  if C12_ok target accepted panicked view_same len max_single
  then (if Bool.eqb (predict reg target f b) accepted then 0 else 1)
  else 2.
