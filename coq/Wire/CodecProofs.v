(* Lemmas about the wire codec: every codec built from the combinators of Codec.v round-trips and is
   canonical; hence so is the codec of every format in every registry. *)
From Coq Require Import String List ZArith NArith Bool Lia.
From Coq Require Strings.Byte.
From Crux Require Import Wire.Codec.
Import ListNotations.
Local Open Scope N_scope.

(* what is proved of each codec *)
Definition rt_ok (c : codec) : Prop :=
  forall v rest, ctyp c v = true -> cdec c (cenc c v ++ rest) = Some (v, rest).
Definition canon_ok (c : codec) : Prop :=
  forall b v rest, cdec c b = Some (v, rest) -> b = cenc c v ++ rest /\ ctyp c v = true.
Definition good (c : codec) : Prop := rt_ok c /\ canon_ok c.

(* ------------------------------------------------------------------ bytes *)
Lemma N_of_byte_lt x : N_of_byte x < 256.
Proof. unfold N_of_byte. pose proof (Coq.Strings.Byte.to_N_bounded x). lia. Qed.

Lemma N_of_byte_of_N n : N_of_byte (byte_of_N n) = n mod 256.
Proof.
  unfold N_of_byte, byte_of_N.
  destruct (Coq.Strings.Byte.of_N (n mod 256)) as [b|] eqn:E.
  - apply Coq.Strings.Byte.to_of_N in E. exact E.
  - apply Coq.Strings.Byte.of_N_None_iff in E.
    pose proof (N.mod_upper_bound n 256). lia.
Qed.

Lemma byte_of_N_of_byte x : byte_of_N (N_of_byte x) = x.
Proof.
  unfold byte_of_N. rewrite N.mod_small by apply N_of_byte_lt.
  unfold N_of_byte. rewrite Coq.Strings.Byte.of_to_N. reflexivity.
Qed.

Lemma byte_of_N_add x n : byte_of_N (N_of_byte x + 256 * n) = x.
Proof.
  rewrite <- (byte_of_N_of_byte x) at 2. unfold byte_of_N.
  replace ((N_of_byte x + 256 * n) mod 256) with (N_of_byte x mod 256); [reflexivity|].
  rewrite (N.mul_comm 256 n), N.mod_add by lia. reflexivity.
Qed.

Lemma N_of_byte_inj x y : N_of_byte x = N_of_byte y -> x = y.
Proof. intros H. rewrite <- (byte_of_N_of_byte x), <- (byte_of_N_of_byte y), H. reflexivity. Qed.

(* ------------------------------------------------------------------ little-endian integers *)
Lemma le_enc_length w n : length (le_enc w n) = w.
Proof. revert n; induction w as [|w IH]; intros n; cbn [le_enc length]; [reflexivity|now rewrite IH]. Qed.

Lemma le_rt w : forall n rest, n < 256 ^ N.of_nat w -> le_dec w (le_enc w n ++ rest) = Some (n, rest).
Proof.
  induction w as [|w IH]; intros n rest Hn.
  - cbn [le_enc le_dec app]. change (256 ^ N.of_nat 0) with 1 in Hn. f_equal. f_equal. lia.
  - cbn [le_enc le_dec app].
    rewrite Nat2N.inj_succ, N.pow_succ_r' in Hn.
    rewrite IH by (apply N.div_lt_upper_bound; lia).
    rewrite N_of_byte_of_N. f_equal. f_equal.
    pose proof (N.div_mod' n 256). lia.
Qed.

Lemma le_canon w : forall b n r, le_dec w b = Some (n, r) -> b = le_enc w n ++ r /\ n < 256 ^ N.of_nat w.
Proof.
  induction w as [|w IH]; intros b n r H.
  - cbn [le_dec] in H. inversion H; subst. cbn [le_enc app]. split; [reflexivity|].
    change (256 ^ N.of_nat 0) with 1. lia.
  - cbn [le_dec] in H. destruct b as [|x b']; [discriminate|].
    destruct (le_dec w b') as [[n' r']|] eqn:E; [|discriminate].
    assert (Hn : N_of_byte x + 256 * n' = n) by congruence.
    assert (Hr : r' = r) by congruence. clear H. subst n r'. apply IH in E as [Eb Hn'].
    cbn [le_enc app]. rewrite byte_of_N_add.
    replace ((N_of_byte x + 256 * n') / 256) with n'.
    2:{ pose proof (N_of_byte_lt x). symmetry. rewrite N.add_comm, N.mul_comm, N.div_add_l by lia.
        rewrite N.div_small by assumption. lia. }
    split; [now rewrite <- Eb|].
    rewrite Nat2N.inj_succ, N.pow_succ_r'. pose proof (N_of_byte_lt x). lia.
Qed.

Lemma le_dec_short w : forall b, (length b < w)%nat -> le_dec w b = None.
Proof.
  induction w as [|w IH]; intros b Hb; [lia|].
  cbn [le_dec]. destruct b as [|x b']; [reflexivity|]. cbn [length] in Hb.
  rewrite IH by lia. reflexivity.
Qed.

Lemma wmod_pow w : Z.of_N (256 ^ N.of_nat (wbytes w)) = wmod w.
Proof. destruct w; reflexivity. Qed.
Lemma whalf_wmod w : (wmod w = 2 * whalf w)%Z.
Proof. destruct w; reflexivity. Qed.
Lemma whalf_pos w : (0 < whalf w)%Z.
Proof. destruct w; reflexivity. Qed.

Lemma int_good s w : good (int_codec s w).
Proof.
  pose proof (wmod_pow w) as HP. pose proof (whalf_wmod w) as HM. pose proof (whalf_pos w) as HH.
  split.
  - intros v rest Ht. cbn [int_codec ctyp cenc cdec] in *.
    destruct v as [| |z| | | | |]; try discriminate.
    unfold int_dec, int_enc.
    assert (Hr : (0 <= z mod wmod w < wmod w)%Z) by (apply Z.mod_pos_bound; lia).
    rewrite le_rt.
    2:{ apply N2Z.inj_lt. rewrite HP, Z2N.id by lia. lia. }
    rewrite Z2N.id by lia.
    f_equal. f_equal. f_equal.
    unfold int_ok in Ht. destruct s.
    + apply andb_prop in Ht as [H1 H2]. apply Z.leb_le in H1. apply Z.ltb_lt in H2.
      cbn [andb]. destruct (Z_lt_le_dec z 0) as [Hneg|Hpos].
      * assert (E : (z mod wmod w = z + wmod w)%Z).
        { rewrite <- (Z_mod_plus_full z 1 (wmod w)). rewrite Z.mod_small by lia. lia. }
        rewrite E. destruct (whalf w <=? z + wmod w)%Z eqn:C; [lia|]. apply Z.leb_gt in C. lia.
      * rewrite Z.mod_small by lia.
        destruct (whalf w <=? z)%Z eqn:C; [apply Z.leb_le in C; lia|reflexivity].
    + apply andb_prop in Ht as [H1 H2]. apply Z.leb_le in H1. apply Z.ltb_lt in H2.
      cbn [andb]. apply Z.mod_small. lia.
  - intros b v rest Hd. cbn [int_codec ctyp cenc cdec] in *.
    unfold int_dec in Hd. destruct (le_dec (wbytes w) b) as [[n r]|] eqn:E; [|discriminate].
    inversion Hd; subst; clear Hd. apply le_canon in E as [Eb Hn].
    apply N2Z.inj_lt in Hn. rewrite HP in Hn. pose proof (N2Z.is_nonneg n) as Hn0.
    unfold int_enc, int_ok.
    destruct (s && (whalf w <=? Z.of_N n)%Z) eqn:C.
    + apply andb_prop in C as [Cs C]. subst s. apply Z.leb_le in C.
      assert (Em : ((Z.of_N n - wmod w) mod wmod w = Z.of_N n)%Z).
      { replace (Z.of_N n - wmod w)%Z with (Z.of_N n + (-1) * wmod w)%Z by lia.
        rewrite Z_mod_plus_full. apply Z.mod_small. lia. }
      rewrite Em, N2Z.id. split; [exact Eb|].
      apply andb_true_intro; split; [apply Z.leb_le|apply Z.ltb_lt]; lia.
    + rewrite Z.mod_small by lia. rewrite N2Z.id. split; [exact Eb|].
      destruct s.
      * cbn [andb] in C. apply Z.leb_gt in C.
        apply andb_true_intro; split; [apply Z.leb_le|apply Z.ltb_lt]; lia.
      * apply andb_true_intro; split; [apply Z.leb_le|apply Z.ltb_lt]; lia.
Qed.

(* ------------------------------------------------------------------ unit, bool *)
Lemma unit_good : good unit_codec.
Proof.
  split.
  - intros v rest Ht. destruct v; try discriminate. reflexivity.
  - intros b v rest Hd. cbn in Hd. inversion Hd; subst. split; reflexivity.
Qed.

Lemma N_of_byte_1 : N_of_byte (byte_of_N 1) = 1. Proof. reflexivity. Qed.
Lemma N_of_byte_0 : N_of_byte (byte_of_N 0) = 0. Proof. reflexivity. Qed.

Lemma bool_good : good bool_codec.
Proof.
  split.
  - intros v rest Ht. destruct v as [|[]| | | | | |]; try discriminate; reflexivity.
  - intros b v rest Hd. cbn [bool_codec cdec] in Hd. destruct b as [|x r]; [discriminate|].
    destruct (N_of_byte x =? 0) eqn:E0.
    + inversion Hd; subst. apply N.eqb_eq in E0. cbn [bool_codec cenc ctyp app].
      split; [|reflexivity]. f_equal. apply N_of_byte_inj. now rewrite E0.
    + destruct (N_of_byte x =? 1) eqn:E1; [|discriminate].
      inversion Hd; subst. apply N.eqb_eq in E1. cbn [bool_codec cenc ctyp app].
      split; [|reflexivity]. f_equal. apply N_of_byte_inj. now rewrite E1.
Qed.

(* ------------------------------------------------------------------ char *)
Ltac rw_bools := repeat match goal with H : _ = true |- _ => rewrite H | H : _ = false |- _ => rewrite H end.

Lemma utf8_first_app c r b : utf8_first b = Some (c, r) -> b = c ++ r /\ utf8_first c = Some (c, []).
Proof.
  unfold utf8_first. destruct b as [|x0 b]; [discriminate|].
  destruct (N_of_byte x0 <? 128) eqn:C1.
  { intros H; inversion H; subst. split; [reflexivity|]. rw_bools. reflexivity. }
  destruct (N_of_byte x0 <? 194) eqn:C2; [discriminate|].
  destruct (N_of_byte x0 <? 224) eqn:C3.
  { destruct b as [|x1 b]; [discriminate|]. destruct (cont x1) eqn:K1; [|discriminate].
    intros H; inversion H; subst. split; [reflexivity|]. rw_bools. reflexivity. }
  destruct (N_of_byte x0 <? 240) eqn:C4.
  { destruct b as [|x1 [|x2 b]]; try discriminate.
    match goal with |- context [if ?c then _ else _] => destruct c eqn:K end; [|discriminate].
    intros H; inversion H; subst. split; [reflexivity|]. rw_bools. reflexivity. }
  destruct (N_of_byte x0 <? 245) eqn:C5; [|discriminate].
  destruct b as [|x1 [|x2 [|x3 b]]]; try discriminate.
  match goal with |- context [if ?c then _ else _] => destruct c eqn:K end; [|discriminate].
  intros H; inversion H; subst. split; [reflexivity|]. rw_bools. reflexivity.
Qed.

Lemma utf8_first_ext c rest : utf8_first c = Some (c, []) -> utf8_first (c ++ rest) = Some (c, rest).
Proof.
  unfold utf8_first. destruct c as [|x0 c]; [discriminate|]. cbn [app].
  destruct (N_of_byte x0 <? 128) eqn:C1.
  { intros H; inversion H; subst. reflexivity. }
  destruct (N_of_byte x0 <? 194) eqn:C2; [discriminate|].
  destruct (N_of_byte x0 <? 224) eqn:C3.
  { destruct c as [|x1 c]; [discriminate|]. cbn [app]. destruct (cont x1) eqn:K1; [|discriminate].
    intros H; inversion H; subst. reflexivity. }
  destruct (N_of_byte x0 <? 240) eqn:C4.
  { destruct c as [|x1 [|x2 c]]; try discriminate. cbn [app].
    match goal with |- context [if ?c then _ else _] => destruct c eqn:K end; [|discriminate].
    intros H; inversion H; subst. reflexivity. }
  destruct (N_of_byte x0 <? 245) eqn:C5; [|discriminate].
  destruct c as [|x1 [|x2 [|x3 c]]]; try discriminate. cbn [app].
  match goal with |- context [if ?c then _ else _] => destruct c eqn:K end; [|discriminate].
  intros H; inversion H; subst. reflexivity.
Qed.

Lemma is_char_first bs : is_char bs = true -> utf8_first bs = Some (bs, []).
Proof.
  unfold is_char. destruct (utf8_first bs) as [[c r]|] eqn:E; [|discriminate].
  destruct r; [|discriminate]. intros _. apply utf8_first_app in E as [E1 E2].
  rewrite app_nil_r in E1. now subst.
Qed.

Lemma char_good : good char_codec.
Proof.
  split.
  - intros v rest Ht. cbn [char_codec ctyp cenc cdec] in *. destruct v; try discriminate.
    apply is_char_first in Ht. rewrite (utf8_first_ext _ rest Ht). reflexivity.
  - intros b v rest Hd. cbn [char_codec ctyp cenc cdec] in *.
    destruct (utf8_first b) as [[c r]|] eqn:E; [|discriminate]. inversion Hd; subst.
    apply utf8_first_app in E as [E1 E2]. split; [exact E1|]. unfold is_char. now rewrite E2.
Qed.

(* ------------------------------------------------------------------ str / bytes *)
Lemma u64_pow : 256 ^ N.of_nat 8 = U64MAX1. Proof. reflexivity. Qed.
Lemma u32_pow : 256 ^ N.of_nat 4 = U32MAX1. Proof. reflexivity. Qed.

Lemma take_bytes_rt bs rest : len_ok (length bs) = true ->
  take_bytes (u64_enc (N.of_nat (length bs)) ++ bs ++ rest) = Some (bs, rest).
Proof.
  intros Hl. unfold len_ok in Hl. apply N.ltb_lt in Hl.
  unfold take_bytes, u64_dec, u64_enc. rewrite le_rt by (rewrite u64_pow; exact Hl).
  rewrite app_length, Nat2N.inj_add.
  destruct (N.of_nat (length bs) <=? N.of_nat (length bs) + N.of_nat (length rest)) eqn:C.
  2:{ apply N.leb_gt in C. lia. }
  rewrite Nat2N.id. rewrite firstn_app, Nat.sub_diag, firstn_all. cbn [firstn]. rewrite app_nil_r.
  rewrite skipn_app, Nat.sub_diag, skipn_all. cbn [skipn app]. reflexivity.
Qed.

Lemma take_bytes_canon b bs r : take_bytes b = Some (bs, r) ->
  b = u64_enc (N.of_nat (length bs)) ++ bs ++ r /\ len_ok (length bs) = true.
Proof.
  unfold take_bytes, u64_dec. destruct (le_dec 8 b) as [[n r0]|] eqn:E; [|discriminate].
  apply le_canon in E as [Eb Hn]. rewrite u64_pow in Hn.
  destruct (n <=? N.of_nat (length r0)) eqn:C; [|discriminate]. apply N.leb_le in C.
  intros H; inversion H; subst bs r; clear H.
  assert (Hlen : length (firstn (N.to_nat n) r0) = N.to_nat n) by (apply firstn_length_le; lia).
  rewrite Hlen, N2Nat.id. rewrite firstn_skipn. split; [exact Eb|].
  unfold len_ok. rewrite N2Nat.id. apply N.ltb_lt. exact Hn.
Qed.

Lemma bytes_good chk : good (bytes_codec chk).
Proof.
  split.
  - intros v rest Ht. cbn [bytes_codec ctyp cenc cdec] in *. destruct v; try discriminate.
    apply andb_prop in Ht as [Hl Hc]. rewrite <- app_assoc, take_bytes_rt by exact Hl.
    now rewrite Hc.
  - intros b v rest Hd. cbn [bytes_codec ctyp cenc cdec] in *.
    destruct (take_bytes b) as [[bs r]|] eqn:E; [|discriminate].
    destruct (chk bs) eqn:Hc; [|discriminate]. inversion Hd; subst.
    apply take_bytes_canon in E as [Eb Hl]. rewrite <- app_assoc. split; [exact Eb|].
    now rewrite Hl, Hc.
Qed.

(* ------------------------------------------------------------------ option *)
Lemma option_good c : good c -> good (option_codec c).
Proof.
  intros [Hrt Hcan]. split.
  - intros v rest Ht. cbn [option_codec ctyp cenc cdec] in *.
    destruct v; try discriminate.
    + reflexivity.
    + cbn [app]. rewrite N_of_byte_1. cbn [N.eqb Pos.eqb]. now rewrite Hrt.
  - intros b v rest Hd. cbn [option_codec cdec] in Hd. destruct b as [|x r]; [discriminate|].
    destruct (N_of_byte x =? 0) eqn:E0.
    + inversion Hd; subst. apply N.eqb_eq in E0. cbn [option_codec cenc ctyp app].
      split; [|reflexivity]. f_equal. apply N_of_byte_inj. now rewrite E0.
    + destruct (N_of_byte x =? 1) eqn:E1; [|discriminate]. apply N.eqb_eq in E1.
      destruct (cdec c r) as [[v' r']|] eqn:E; [|discriminate]. inversion Hd; subst.
      apply Hcan in E as [Eb Ht]. cbn [option_codec cenc ctyp app]. split; [|exact Ht].
      rewrite Eb. f_equal. apply N_of_byte_inj. now rewrite E1.
Qed.

(* ------------------------------------------------------------------ counted repetition *)
Fixpoint iter_nat (d : decoder) (n : nat) (s : dstate) : option dstate :=
  match n with
  | O => Some s
  | S k => match dstep d s with None => None | Some s' => iter_nat d k s' end
  end.

Lemma iter_nat_add d a : forall b s,
  iter_nat d (a + b) s = match iter_nat d a s with None => None | Some s' => iter_nat d b s' end.
Proof.
  induction a as [|a IH]; intros b s; cbn [iter_nat Nat.add]; [reflexivity|].
  destruct (dstep d s); [apply IH|reflexivity].
Qed.

Lemma iter_pos_nat d p : forall s, iter_pos d p s = iter_nat d (Pos.to_nat p) s.
Proof.
  induction p as [p IH|p IH|]; intros s; cbn [iter_pos].
  - rewrite Pos2Nat.inj_xI. cbn [iter_nat]. destruct (dstep d s) as [s1|]; [|reflexivity].
    replace (2 * Pos.to_nat p)%nat with (Pos.to_nat p + Pos.to_nat p)%nat by lia.
    rewrite iter_nat_add, IH. destruct (iter_nat d (Pos.to_nat p) s1); [apply IH|reflexivity].
  - rewrite Pos2Nat.inj_xO.
    replace (2 * Pos.to_nat p)%nat with (Pos.to_nat p + Pos.to_nat p)%nat by lia.
    rewrite iter_nat_add, IH. destruct (iter_nat d (Pos.to_nat p) s); [apply IH|reflexivity].
  - change (Pos.to_nat 1) with 1%nat. cbn [iter_nat]. destruct (dstep d s); reflexivity.
Qed.

(* the plain recursive reading of "n elements" *)
Fixpoint dec_list (d : decoder) (n : nat) (b : list byte) : option (list value * list byte) :=
  match n with
  | O => Some ([], b)
  | S k =>
    match d b with
    | None => None
    | Some (v, r) => match dec_list d k r with None => None | Some (vs, r') => Some (v :: vs, r') end
    end
  end.

Lemma iter_nat_dec_list d n : forall acc b,
  iter_nat d n (acc, b) =
  match dec_list d n b with None => None | Some (vs, r) => Some (rev vs ++ acc, r) end.
Proof.
  induction n as [|n IH]; intros acc b; cbn [iter_nat dec_list]; [reflexivity|].
  unfold dstep. cbn [fst snd]. destruct (d b) as [[v r]|]; [|reflexivity].
  rewrite IH. destruct (dec_list d n r) as [[vs r']|]; [|reflexivity].
  cbn [rev]. now rewrite <- app_assoc.
Qed.

Lemma dec_count_list d n b : dec_count d n b = dec_list d (N.to_nat n) b.
Proof.
  destruct n as [|p]; [reflexivity|]. unfold dec_count. rewrite iter_pos_nat, iter_nat_dec_list.
  cbn [N.to_nat]. destruct (dec_list d (Pos.to_nat p) b) as [[vs r]|]; [|reflexivity].
  now rewrite app_nil_r, rev_involutive.
Qed.

Lemma dec_list_rt c : rt_ok c -> forall vs rest, forallb (ctyp c) vs = true ->
  dec_list (cdec c) (length vs) (flat_map (cenc c) vs ++ rest) = Some (vs, rest).
Proof.
  intros Hrt. induction vs as [|v vs IH]; intros rest Ht; [reflexivity|].
  cbn [forallb] in Ht. apply andb_prop in Ht as [H1 H2].
  cbn [length dec_list flat_map]. rewrite <- app_assoc, Hrt by exact H1. now rewrite IH.
Qed.

Lemma dec_list_canon c : canon_ok c -> forall n b vs r, dec_list (cdec c) n b = Some (vs, r) ->
  b = flat_map (cenc c) vs ++ r /\ forallb (ctyp c) vs = true /\ length vs = n.
Proof.
  intros Hcan. induction n as [|n IH]; intros b vs r H; cbn [dec_list] in H.
  - inversion H; subst. repeat split.
  - destruct (cdec c b) as [[v r1]|] eqn:E; [|discriminate].
    destruct (dec_list (cdec c) n r1) as [[vs' r']|] eqn:E2; [|discriminate].
    inversion H; subst. apply Hcan in E as [Eb Ht]. apply IH in E2 as (Eb2 & Ht2 & Hl).
    cbn [flat_map forallb length]. rewrite <- app_assoc, <- Eb2. repeat split; auto.
    now rewrite Ht, Ht2.
Qed.

Lemma seq_good c : good c -> good (seq_codec c).
Proof.
  intros [Hrt Hcan]. split.
  - intros v rest Ht. cbn [seq_codec ctyp cenc cdec] in *. destruct v; try discriminate.
    apply andb_prop in Ht as [Hl Hts]. unfold len_ok in Hl. apply N.ltb_lt in Hl.
    unfold u64_dec, u64_enc. rewrite <- app_assoc, le_rt by (rewrite u64_pow; exact Hl).
    rewrite dec_count_list, Nat2N.id, dec_list_rt by assumption. reflexivity.
  - intros b v rest Hd. cbn [seq_codec cdec] in Hd. unfold u64_dec in Hd.
    destruct (le_dec 8 b) as [[n r0]|] eqn:E; [|discriminate].
    rewrite dec_count_list in Hd.
    destruct (dec_list (cdec c) (N.to_nat n) r0) as [[vs r']|] eqn:E2; [|discriminate].
    inversion Hd; subst. apply le_canon in E as [Eb Hn]. rewrite u64_pow in Hn.
    apply (dec_list_canon c Hcan) in E2 as (Eb2 & Ht & Hl).
    cbn [seq_codec cenc ctyp]. rewrite Hl, N2Nat.id. unfold u64_enc. rewrite <- app_assoc, <- Eb2.
    split; [exact Eb|]. unfold len_ok. rewrite Ht, andb_true_r. apply N.ltb_lt. lia.
Qed.

(* ------------------------------------------------------------------ tuples *)
Lemma tuple_good cs : Forall good cs -> good (tuple_codec cs).
Proof.
  intros HF. split.
  - intros v rest Ht. cbn [tuple_codec ctyp cenc cdec] in *. destruct v as [| | | | | |vs|]; try discriminate.
    enough (H : tuple_dec cs (tuple_enc cs vs ++ rest) = Some (vs, rest)) by now rewrite H.
    revert vs rest Ht. induction HF as [|c cs [Hrt _] _ IH]; intros vs rest Ht.
    + destruct vs; [reflexivity|discriminate].
    + destruct vs as [|v vs]; [discriminate|]. cbn [tuple_typ] in Ht.
      apply andb_prop in Ht as [H1 H2]. cbn [tuple_enc tuple_dec].
      rewrite <- app_assoc, Hrt by exact H1. now rewrite IH.
  - intros b v rest Hd. cbn [tuple_codec cdec] in Hd.
    destruct (tuple_dec cs b) as [[vs r]|] eqn:E; [|discriminate]. inversion Hd; subst.
    cbn [tuple_codec cenc ctyp]. clear Hd. revert b vs rest E.
    induction HF as [|c cs [_ Hcan] _ IH]; intros b vs rest E; cbn [tuple_dec] in E.
    + inversion E; subst. split; reflexivity.
    + destruct (cdec c b) as [[v r1]|] eqn:E1; [|discriminate].
      destruct (tuple_dec cs r1) as [[vs' r']|] eqn:E2; [|discriminate].
      inversion E; subst. apply Hcan in E1 as [Eb Ht]. apply IH in E2 as [Eb2 Ht2].
      cbn [tuple_enc tuple_typ]. rewrite <- app_assoc, <- Eb2, Ht, Ht2. split; [exact Eb|reflexivity].
Qed.

Lemma repeat_Forall {A} (P : A -> Prop) x n : P x -> Forall P (repeat x n).
Proof. intros H. induction n; cbn; constructor; auto. Qed.

(* ------------------------------------------------------------------ formats, containers, registries *)
Section FormatInd.
  Variable P : format -> Prop.
  Hypothesis Hname : forall n, P (FTypeName n).
  Hypothesis Hunit : P FUnit.
  Hypothesis Hbool : P FBool.
  Hypothesis Hint : forall s w, P (FInt s w).
  Hypothesis Hfloat : forall w, P (FFloat w).
  Hypothesis Hchar : P FChar.
  Hypothesis Hstr : P FStr.
  Hypothesis Hbytes : P FBytes.
  Hypothesis Hopt : forall f, P f -> P (FOption f).
  Hypothesis Hseq : forall f, P f -> P (FSeq f).
  Hypothesis Hmap : forall k v, P k -> P v -> P (FMap k v).
  Hypothesis Htuple : forall fs, Forall P fs -> P (FTuple fs).
  Hypothesis Harr : forall f n, P f -> P (FTupleArray f n).

  Fixpoint format_ind' (f : format) : P f :=
    match f with
    | FTypeName n => Hname n
    | FUnit => Hunit
    | FBool => Hbool
    | FInt s w => Hint s w
    | FFloat w => Hfloat w
    | FChar => Hchar
    | FStr => Hstr
    | FBytes => Hbytes
    | FOption f' => Hopt f' (format_ind' f')
    | FSeq f' => Hseq f' (format_ind' f')
    | FMap k v => Hmap k v (format_ind' k) (format_ind' v)
    | FTuple fs =>
      Htuple fs ((fix go (l : list format) : Forall P l :=
                    match l with
                    | [] => Forall_nil P
                    | x :: l' => Forall_cons x (format_ind' x) (go l')
                    end) fs)
    | FTupleArray f' n => Harr f' n (format_ind' f')
    end.
End FormatInd.

Section Good.
  Variable R : string -> codec.
  Hypothesis HR : forall n, good (R n).

  Lemma fcodec_good f : good (fcodec R f).
  Proof.
    induction f using format_ind'; cbn [fcodec].
    - apply HR.
    - apply unit_good.
    - apply bool_good.
    - apply int_good.
    - apply int_good.
    - apply char_good.
    - apply bytes_good.
    - apply bytes_good.
    - now apply option_good.
    - now apply seq_good.
    - apply seq_good. apply tuple_good. constructor; [assumption|]. constructor; [assumption|]. constructor.
    - apply tuple_good. apply Forall_map. exact H.
    - apply tuple_good. now apply repeat_Forall.
  Qed.

  Lemma fields_good fields : good (fields_codec R fields).
  Proof. apply tuple_good. apply Forall_map. apply Forall_forall. intros; apply fcodec_good. Qed.

  Lemma flist_good fs : good (tuple_codec (map (fcodec R) fs)).
  Proof. apply tuple_good. apply Forall_map. apply Forall_forall. intros; apply fcodec_good. Qed.

  Lemma vcodec_good v : good (vcodec R v).
  Proof.
    destruct v; cbn [vcodec].
    - apply unit_good.
    - apply fcodec_good.
    - apply flist_good.
    - apply fields_good.
  Qed.

  Lemma enum_good vs : good (enum_codec R vs).
  Proof.
    split.
    - intros v rest Ht. cbn [enum_codec ctyp cenc cdec] in *. destruct v as [| | | | | | |idx p]; try discriminate.
      apply andb_prop in Ht as [Hi Ht]. apply N.ltb_lt in Hi.
      unfold u32_dec, u32_enc. rewrite <- app_assoc, le_rt by (rewrite u32_pow; exact Hi).
      destruct (find_variant vs idx) as [va|]; [|discriminate].
      destruct (vcodec_good va) as [Hrt _]. now rewrite Hrt.
    - intros b v rest Hd. cbn [enum_codec cdec] in Hd. unfold u32_dec in Hd.
      destruct (le_dec 4 b) as [[idx r]|] eqn:E; [|discriminate].
      destruct (find_variant vs idx) as [va|] eqn:Ef; [|discriminate].
      destruct (cdec (vcodec R va) r) as [[p r']|] eqn:E2; [|discriminate].
      inversion Hd; subst. apply le_canon in E as [Eb Hi]. rewrite u32_pow in Hi.
      destruct (vcodec_good va) as [_ Hcan]. apply Hcan in E2 as [Eb2 Ht].
      cbn [enum_codec cenc ctyp]. rewrite Ef, Ht. unfold u32_enc. rewrite <- app_assoc, <- Eb2.
      split; [exact Eb|]. rewrite andb_true_r. now apply N.ltb_lt.
  Qed.

  Lemma ccodec_good c : good (ccodec R c).
  Proof.
    destruct c; cbn [ccodec].
    - apply unit_good.
    - apply fcodec_good.
    - apply flist_good.
    - apply fields_good.
    - apply enum_good.
  Qed.
End Good.

Lemma fail_good : good fail_codec.
Proof. split; [intros ? ? H|intros ? ? ? H]; discriminate. Qed.

Lemma rcodec_good reg : forall name, good (rcodec reg name).
Proof.
  induction reg as [|[n c] reg IH]; intros name; cbn [rcodec].
  - apply fail_good.
  - destruct (String.eqb name n); [apply ccodec_good; exact IH|apply IH].
Qed.

Theorem roundtrip reg f v rest :
  has_type reg f v -> decode reg f (encode reg f v ++ rest) = Some (v, rest).
Proof. intros H. destruct (fcodec_good _ (rcodec_good reg) f) as [Hrt _]. now apply Hrt. Qed.

Theorem canonical reg f b v rest :
  decode reg f b = Some (v, rest) -> b = encode reg f v ++ rest /\ has_type reg f v.
Proof. intros H. destruct (fcodec_good _ (rcodec_good reg) f) as [_ Hcan]. now apply Hcan. Qed.

(* consequences used by the other properties *)
Corollary decode_injective reg f b1 b2 v r1 r2 :
  decode reg f b1 = Some (v, r1) -> decode reg f b2 = Some (v, r2) -> r1 = r2 -> b1 = b2.
Proof. intros H1 H2 ->. apply canonical in H1 as [-> _]. apply canonical in H2 as [-> _]. reflexivity. Qed.

Corollary encode_injective reg f v1 v2 :
  has_type reg f v1 -> has_type reg f v2 -> encode reg f v1 = encode reg f v2 -> v1 = v2.
Proof.
  intros H1 H2 E. pose proof (roundtrip reg f v1 [] H1) as R1. pose proof (roundtrip reg f v2 [] H2) as R2.
  rewrite E in R1. rewrite R1 in R2. now inversion R2.
Qed.

Corollary decode_prefix_free reg f v1 v2 rest :
  has_type reg f v1 -> has_type reg f v2 -> encode reg f v1 = encode reg f v2 ++ rest -> v1 = v2 /\ rest = [].
Proof.
  intros H1 H2 E. pose proof (roundtrip reg f v1 [] H1) as R1. pose proof (roundtrip reg f v2 rest H2) as R2.
  rewrite app_nil_r in R1. rewrite E in R1. rewrite R1 in R2. inversion R2; subst. split; reflexivity.
Qed.
