(* Lemmas about the crux_kv model (Kv.v). *)
From Coq Require Import String List ZArith NArith Bool Lia.
From Crux Require Import Wire.Codec Wire.CodecProofs Wire.Kv.
From Crux Require Import Gen.Registry_protocol Gen.Registry_kvapp.
Import ListNotations.

(* ------------------------------------------------------------------ calls and operations *)
Lemma emit_one a c : emit a c = [op_of_call c].
Proof. destruct a, c; reflexivity. Qed.

Lemma call_of_op_of_call c : call_of_op (op_of_call c) = c.
Proof. destruct c; reflexivity. Qed.
Lemma op_of_call_of_op o : op_of_call (call_of_op o) = o.
Proof. destruct o; reflexivity. Qed.
Lemma op_of_call_inj c1 c2 : op_of_call c1 = op_of_call c2 -> c1 = c2.
Proof. intros H. rewrite <- (call_of_op_of_call c1), <- (call_of_op_of_call c2), H. reflexivity. Qed.
Lemma op_kind_call c : op_kind (op_of_call c) = call_kind c.
Proof. destruct c; reflexivity. Qed.

Lemma same_both_apis c r :
  emit Capability c = emit Command c /\ deliver Capability c r = deliver Command c r.
Proof. destruct c; split; reflexivity. Qed.

(* ------------------------------------------------------------------ Value <-> Option<Vec<u8>> *)
Lemma value_option_value v : value_of_option (option_of_value v) = v.
Proof. destruct v; reflexivity. Qed.
Lemma option_value_option o : option_of_value (value_of_option o) = o.
Proof. destruct o; reflexivity. Qed.
Lemma absent_not_empty : option_of_value KNone <> option_of_value (KBytes []).
Proof. discriminate. Qed.
Lemma value_of_vec_some b : option_of_value (value_of_vec b) = Some b.
Proof. reflexivity. Qed.

(* ------------------------------------------------------------------ responses *)
Lemma kind_eqb_eq a b : kind_eqb a b = true <-> a = b.
Proof. destruct a, b; cbn; split; intros H; try reflexivity; try discriminate. Qed.

Lemma deliver_matching a c r : response_kind r = call_kind c ->
  deliver a c (KOk r) = Delivered (payload_of_response r).
Proof. destruct c, r; cbn; intros H; try discriminate; reflexivity. Qed.

Lemma deliver_error a c e : deliver a c (KErr e) = Failed e.
Proof. destruct c; reflexivity. Qed.

Lemma deliver_mismatch a c r : response_kind r <> call_kind c ->
  deliver a c (KOk r) = Failed (mismatch_error (call_kind c)).
Proof. destruct c, r; cbn; intros H; try reflexivity; exfalso; apply H; reflexivity. Qed.

(* crux_kv never panics, whatever the shell answers *)
Lemma deliver_total a c r : deliver a c r <> Panicked.
Proof. destruct c, r as [[]|]; discriminate. Qed.

(* what the shell meant is what the app gets *)
Lemma deliver_payload a c p r : response_of_payload (call_kind c) p = Some r -> deliver a c (KOk r) = Delivered p.
Proof.
  destruct c, p; cbn; intros H; try discriminate; inversion H; subst; cbn; now rewrite ?option_value_option.
Qed.

(* nothing is merged: different results of the expected kind reach the app as different outcomes *)
Lemma deliver_injective a c r1 r2 :
  response_kind r1 = call_kind c -> response_kind r2 = call_kind c ->
  deliver a c (KOk r1) = deliver a c (KOk r2) -> r1 = r2.
Proof.
  intros K1 K2. rewrite (deliver_matching _ _ _ K1), (deliver_matching _ _ _ K2).
  destruct r1, r2; cbn in *; try congruence; intros H; inversion H; subst; try reflexivity;
    f_equal; rewrite <- (value_option_value value), <- (value_option_value value0) || idtac;
    try (rewrite <- (value_option_value previous), <- (value_option_value previous0)); congruence.
Qed.

Lemma outcome_trichotomy a c r :
  match deliver a c r with
  | Delivered p => exists x, r = KOk x /\ response_kind x = call_kind c /\ p = payload_of_response x
  | Failed e => r = KErr e \/ (exists x, r = KOk x /\ response_kind x <> call_kind c /\ e = mismatch_error (call_kind c))
  | Panicked => False
  end.
Proof.
  destruct r as [x|e]; [|rewrite deliver_error; now left].
  destruct c, x; cbn; try (eexists; repeat split; congruence);
    right; eexists; repeat split; discriminate.
Qed.

(* ------------------------------------------------------------------ schema image *)
Lemma op_of_v_op o : op_of_v (v_op o) = Some o.
Proof. destruct o; cbn; try reflexivity. now rewrite N2Z.id. Qed.
Lemma value_of_v_value v : value_of_v (v_value v) = Some v.
Proof. destruct v; reflexivity. Qed.
Lemma error_of_v_error e : error_of_v (v_error e) = Some e.
Proof. destruct e; reflexivity. Qed.
Lemma keys_of_vs_map ks : keys_of_vs (map VBytes ks) = Some ks.
Proof. induction ks as [|k ks IH]; cbn; [reflexivity|now rewrite IH]. Qed.
Lemma response_of_v_response r : response_of_v (v_response r) = Some r.
Proof.
  destruct r; cbn; rewrite ?value_of_v_value; try reflexivity.
  rewrite keys_of_vs_map, N2Z.id. reflexivity.
Qed.
Lemma result_of_v_result r : result_of_v (v_result r) = Some r.
Proof. destruct r; cbn; [rewrite response_of_v_response|rewrite error_of_v_error]; reflexivity. Qed.

Lemma v_op_inj o1 o2 : v_op o1 = v_op o2 -> o1 = o2.
Proof. intros H. pose proof (op_of_v_op o1) as E. rewrite H, op_of_v_op in E. congruence. Qed.
Lemma v_result_inj r1 r2 : v_result r1 = v_result r2 -> r1 = r2.
Proof. intros H. pose proof (result_of_v_result r1) as E. rewrite H, result_of_v_result in E. congruence. Qed.

(* ------------------------------------------------------------------ typing against the regenerated schema *)
Lemma u64_int_ok c : u64_ok c = true -> int_ok false W8 (Z.of_N c) = true.
Proof.
  unfold u64_ok, int_ok. intros H. apply N.ltb_lt in H.
  apply andb_true_intro; split; [apply Z.leb_le; lia|apply Z.ltb_lt].
  change (wmod W8) with (Z.of_N U64MAX1). lia.
Qed.

Lemma forallb_keys ks : forallb str_ok ks = true ->
  forallb (ctyp (bytes_codec utf8_valid)) (map VBytes ks) = true.
Proof.
  induction ks as [|k ks IH]; cbn [forallb map]; [reflexivity|]. intros H.
  apply andb_prop in H as [H1 H2]. rewrite IH by exact H2. cbn [bytes_codec ctyp]. unfold str_ok in H1. now rewrite H1.
Qed.

Ltac kv_reduce reg :=
  unfold has_type, has_type_b, F_op, F_result; cbn [fcodec];
  lazy [rcodec reg String.eqb Ascii.eqb Bool.eqb ccodec enum_codec ctyp find_variant N.eqb Pos.eqb
        vcodec fields_codec map snd fcodec tuple_codec tuple_typ bytes_codec int_codec seq_codec
        bool_codec unit_codec FU64 v_op v_value v_error v_response v_result].

Ltac kv_finish :=
  repeat match goal with
         | H : andb _ _ = true |- _ => apply andb_prop in H as [? ?]
         end;
  unfold str_ok, blob_ok, value_ok in *;
  repeat match goal with
         | H : andb _ _ = true |- _ => apply andb_prop in H as [? ?]
         end;
  repeat match goal with
         | H : ?x = true |- context [?x] => rewrite H
         end;
  try reflexivity.

Section Typing.
  Lemma op_typed_protocol o : op_ok o = true -> has_type Registry_protocol F_op (v_op o).
  Proof.
    destruct o; cbn [op_ok]; intros H; kv_reduce Registry_protocol; kv_finish.
    now rewrite u64_int_ok.
  Qed.
  Lemma op_typed_kvapp o : op_ok o = true -> has_type Registry_kvapp F_op (v_op o).
  Proof.
    destruct o; cbn [op_ok]; intros H; kv_reduce Registry_kvapp; kv_finish.
    now rewrite u64_int_ok.
  Qed.

  Lemma result_typed_protocol r : result_ok r = true -> has_type Registry_protocol F_result (v_result r).
  Proof.
    destruct r as [[[|b]|[|b]|[|b]|b|keys c]|[m| | |m]]; cbn [result_ok response_ok error_ok value_ok]; intros H;
      kv_reduce Registry_protocol; kv_finish.
    fold (map VBytes keys). rewrite map_length.
    repeat match goal with H : ?x = true |- context [?x] => rewrite H end.
    pose proof (forallb_keys keys H1) as E. cbn [bytes_codec ctyp] in E. unfold bytes in *. rewrite E, H, (u64_int_ok _ H0). reflexivity.
  Qed.
  Lemma result_typed_kvapp r : result_ok r = true -> has_type Registry_kvapp F_result (v_result r).
  Proof.
    destruct r as [[[|b]|[|b]|[|b]|b|keys c]|[m| | |m]]; cbn [result_ok response_ok error_ok value_ok]; intros H;
      kv_reduce Registry_kvapp; kv_finish.
    fold (map VBytes keys). rewrite map_length.
    repeat match goal with H : ?x = true |- context [?x] => rewrite H end.
    pose proof (forallb_keys keys H1) as E. cbn [bytes_codec ctyp] in E. unfold bytes in *. rewrite E, H, (u64_int_ok _ H0). reflexivity.
  Qed.
End Typing.

(* ------------------------------------------------------------------ the bridge path *)
Section Bridge.
  Variable reg : registry.
  Hypothesis op_typed : forall o, op_ok o = true -> has_type reg F_op (v_op o).
  Hypothesis result_typed : forall r, result_ok r = true -> has_type reg F_result (v_result r).

  Lemma bridge_op o : op_ok o = true -> shell_reads reg (bridge_out reg o) = Some o.
  Proof.
    intros H. unfold shell_reads, bridge_out.
    pose proof (roundtrip reg F_op (v_op o) [] (op_typed o H)) as R. rewrite app_nil_r in R.
    rewrite R. apply op_of_v_op.
  Qed.

  Lemma bridge_result r trailing : result_ok r = true -> bridge_in reg (shell_writes reg r ++ trailing) = Some r.
  Proof.
    intros H. unfold bridge_in, shell_writes.
    rewrite (roundtrip reg F_result (v_result r) trailing (result_typed r H)). apply result_of_v_result.
  Qed.

  (* distinct operations / results never share bytes *)
  Lemma bridge_out_inj o1 o2 : op_ok o1 = true -> op_ok o2 = true -> bridge_out reg o1 = bridge_out reg o2 -> o1 = o2.
  Proof.
    intros H1 H2 E. apply v_op_inj. eapply encode_injective; eauto.
  Qed.
  Lemma shell_writes_inj r1 r2 : result_ok r1 = true -> result_ok r2 = true -> shell_writes reg r1 = shell_writes reg r2 -> r1 = r2.
  Proof.
    intros H1 H2 E. apply v_result_inj. eapply encode_injective; eauto.
  Qed.

  (* the whole exchange over the bridge is the image of the typed one *)
  Lemma exchange_bridge_typed a c r : op_ok (op_of_call c) = true -> result_ok r = true ->
    exchange_bridge reg a c r =
    (map Some (fst (exchange_typed a c r)), Some (snd (exchange_typed a c r))).
  Proof.
    intros Ho Hr. unfold exchange_bridge, exchange_typed. cbn [fst snd].
    rewrite emit_one. cbn [map]. rewrite bridge_op by exact Ho.
    pose proof (bridge_result r [] Hr) as B. rewrite app_nil_r in B. now rewrite B.
  Qed.
End Bridge.

(* ------------------------------------------------------------------ the trace predicate holds of the model *)
From Crux Require Import Wire.Cases Wire.CasesProofs Wire.KvCases.

Lemma keys_eqb_refl k : keys_eqb k k = true.
Proof. induction k as [|x k IH]; cbn [keys_eqb]; [reflexivity|]. now rewrite bytes_eqb_refl, IH. Qed.
Lemma op_eqb_refl o : op_eqb o o = true.
Proof. destruct o; cbn [op_eqb]; rewrite ?bytes_eqb_refl, ?N.eqb_refl; reflexivity. Qed.
Lemma error_eqb_refl e : error_eqb e e = true.
Proof. destruct e; cbn [error_eqb]; rewrite ?bytes_eqb_refl; reflexivity. Qed.
Lemma payload_eqb_refl p : payload_eqb p p = true.
Proof.
  destruct p as [[d|]|b|k c]; cbn [payload_eqb]; rewrite ?bytes_eqb_refl, ?keys_eqb_refl, ?N.eqb_refl; try reflexivity.
  now destruct b.
Qed.

Definition seen_of (o : outcome) : seen :=
  match o with Delivered p => SDelivered p | Failed e => SFailed e | Panicked => SPanicked end.
Lemma seen_eqb_refl o : seen_eqb o (seen_of o) = true.
Proof. destruct o; cbn [seen_eqb seen_of]; [apply payload_eqb_refl|apply error_eqb_refl|reflexivity]. Qed.

(* the model's delivery is the specified one, for every call and every response *)
Lemma deliver_expected a c r : deliver a c r = expected c r.
Proof.
  destruct r as [x|e]; [|apply deliver_error]. unfold expected.
  destruct (kind_eqb (response_kind x) (call_kind c)) eqn:K.
  - apply kind_eqb_eq in K. now apply deliver_matching.
  - apply deliver_mismatch. intros E. apply kind_eqb_eq in E. congruence.
Qed.

Lemma model_ok_typed a c r :
  verdict_typed a c r (fst (exchange_typed a c r)) 0 (seen_of (snd (exchange_typed a c r))) = 0%N.
Proof.
  unfold verdict_typed, exchange_typed, C17_ok. cbn [fst snd]. rewrite emit_one.
  cbn [ops_eqb]. rewrite op_eqb_refl. cbn [andb N.eqb].
  rewrite <- deliver_expected with (a := a). now rewrite seen_eqb_refl.
Qed.
