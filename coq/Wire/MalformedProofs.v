(* Lemmas for C12 (Malformed.v). *)
From Coq Require Import String List ZArith NArith Bool Lia.
From Crux Require Import Wire.Codec Wire.CodecProofs Wire.Malformed.
Import ListNotations.

Section BridgeProofs.
  Variable reg : registry.
  Variable ev_fmt : format.
  Variable app : Type.
  Variable on_event : app -> value -> core_res app.
  Variable on_output : app -> N -> value -> core_res app.
  Variable alloc_id : list (N * entry) -> N.

  Notation process_event := (process_event reg ev_fmt app on_event alloc_id).
  Notation handle_response := (handle_response reg app on_output alloc_id).
  Notation finish := (finish app alloc_id).
  Notation step := (step reg ev_fmt app on_event on_output alloc_id).
  Notation run := (run reg ev_fmt app on_event on_output alloc_id).
  Notation bstate := (bstate app).

  Lemma finish_ok a es effs : exists s out, finish a es effs = BOk s out.
  Proof. unfold Malformed.finish. destruct (register alloc_id es effs) as [es' out]. eauto. Qed.

  (* ---- events *)
  Lemma event_panic_is_apps s b : process_event s b = BPanic ->
    exists v rest, decode reg ev_fmt b = Some (v, rest) /\ has_type reg ev_fmt v /\
                   (on_event (core s) v = CPanic \/ on_event (core s) v = CFinished).
  Proof.
    unfold Malformed.process_event. destruct (decode reg ev_fmt b) as [[v rest]|] eqn:E; [|discriminate].
    intros H. exists v, rest. split; [reflexivity|]. split; [apply (canonical _ _ _ _ _ E)|].
    destruct (on_event (core s) v) as [| |a effs]; auto.
    destruct (finish_ok a (entries s) effs) as (s' & out & F). rewrite F in H. discriminate.
  Qed.

  Lemma event_total :
    (forall a v, has_type reg ev_fmt v -> exists a' effs, on_event a v = CDone a' effs) ->
    forall s b, process_event s b <> BPanic.
  Proof.
    intros Happ s b H. apply event_panic_is_apps in H as (v & rest & _ & Ht & [P|P]);
      destruct (Happ (core s) v Ht) as (a' & effs & E); congruence.
  Qed.

  Lemma rejected_event_noop s b e s' : process_event s b = BErr e s' ->
    s' = s /\ e = EDeserializeEvent /\ decode reg ev_fmt b = None.
  Proof.
    unfold Malformed.process_event. destruct (decode reg ev_fmt b) as [[v rest]|] eqn:E.
    - destruct (on_event (core s) v) as [| |a effs]; try discriminate.
      destruct (finish_ok a (entries s) effs) as (s1 & out & F). rewrite F. discriminate.
    - intros H. inversion H; subst. auto.
  Qed.

  Lemma accepted_event_decodes s b s' out : process_event s b = BOk s' out ->
    exists v rest, decode reg ev_fmt b = Some (v, rest) /\ has_type reg ev_fmt v /\ b = encode reg ev_fmt v ++ rest.
  Proof.
    unfold Malformed.process_event. destruct (decode reg ev_fmt b) as [[v rest]|] eqn:E; [|discriminate].
    intros _. exists v, rest. destruct (canonical _ _ _ _ _ E) as [Eb Ht]. auto.
  Qed.

  (* ---- responses *)
  Lemma find_remove_other id id' es : id' <> id ->
    find_entry id' (remove_entry id es) = find_entry id' es.
  Proof.
    intros Hne. induction es as [|[i e] es IH]; cbn [remove_entry find_entry]; [reflexivity|].
    destruct (N.eqb i id) eqn:E1.
    - apply N.eqb_eq in E1. subst i. destruct (N.eqb id id') eqn:E2; [apply N.eqb_eq in E2; congruence|exact IH].
    - cbn [find_entry]. destruct (N.eqb i id'); [reflexivity|exact IH].
  Qed.
  Lemma find_remove_same id es : find_entry id (remove_entry id es) = None.
  Proof.
    induction es as [|[i e] es IH]; cbn [remove_entry find_entry]; [reflexivity|].
    destruct (N.eqb i id) eqn:E1; [exact IH|]. cbn [find_entry]. now rewrite E1.
  Qed.

  Lemma response_panic_is_apps s id b : handle_response s id b = BPanic ->
    exists f v rest, (find_entry id (entries s) = Some (ROnce f) \/ find_entry id (entries s) = Some (RMany f)) /\
      decode reg f b = Some (v, rest) /\ has_type reg f v /\
      (on_output (core s) id v = CPanic \/
       (on_output (core s) id v = CFinished /\ find_entry id (entries s) = Some (ROnce f))).
  Proof.
    unfold Malformed.handle_response.
    destruct (find_entry id (entries s)) as [[|f|f]|] eqn:F; try discriminate.
    - destruct (decode reg f b) as [[v rest]|] eqn:E; [|discriminate]. intros H.
      exists f, v, rest. split; [auto|]. split; [exact E|]. split; [apply (canonical _ _ _ _ _ E)|].
      destruct (on_output (core s) id v) as [| |a effs]; auto.
      destruct (finish_ok a (remove_entry id (entries s)) effs) as (s' & out & Fi). rewrite Fi in H. discriminate.
    - destruct (decode reg f b) as [[v rest]|] eqn:E; [|discriminate]. intros H.
      exists f, v, rest. split; [auto|]. split; [exact E|]. split; [apply (canonical _ _ _ _ _ E)|].
      destruct (on_output (core s) id v) as [| |a effs]; auto; try discriminate.
      destruct (finish_ok a (entries s) effs) as (s' & out & Fi). rewrite Fi in H. discriminate.
  Qed.

  Lemma response_total :
    (forall s id f v, find_entry id (entries s) = Some (ROnce f) \/ find_entry id (entries s) = Some (RMany f) ->
                      has_type reg f v -> on_output (core s) id v <> CPanic) ->
    (forall s id f v, find_entry id (entries s) = Some (ROnce f) -> on_output (core s) id v <> CFinished) ->
    forall s id b, handle_response s id b <> BPanic.
  Proof.
    intros H1 H2 s id b H. apply response_panic_is_apps in H as (f & v & rest & Hf & _ & Ht & [P|[P Q]]).
    - exact (H1 s id f v Hf Ht P).
    - exact (H2 s id f v Q P).
  Qed.

  Lemma rejected_response_local s id b e s' : handle_response s id b = BErr e s' ->
    core s' = core s /\ forall id', id' <> id -> find_entry id' (entries s') = find_entry id' (entries s).
  Proof.
    unfold Malformed.handle_response.
    destruct (find_entry id (entries s)) as [[|f|f]|] eqn:F.
    - intros H. inversion H; subst. cbn [core entries]. split; [reflexivity|]. intros id' Hne. now apply find_remove_other.
    - destruct (decode reg f b) as [[v rest]|] eqn:E.
      + destruct (on_output (core s) id v) as [| |a effs]; try discriminate.
        destruct (finish_ok a (remove_entry id (entries s)) effs) as (s1 & out & Fi). rewrite Fi. discriminate.
      + intros H. inversion H; subst. cbn [core entries]. split; [reflexivity|]. intros id' Hne. now apply find_remove_other.
    - destruct (decode reg f b) as [[v rest]|] eqn:E.
      + destruct (on_output (core s) id v) as [| |a effs]; try discriminate.
        * intros H. inversion H; subst. auto.
        * destruct (finish_ok a (entries s) effs) as (s1 & out & Fi). rewrite Fi. discriminate.
      + intros H. inversion H; subst. auto.
    - intros H. inversion H; subst. auto.
  Qed.

  (* a rejected response to a stream, or to an id nobody waits for, changes nothing at all *)
  Lemma rejected_response_noop s id b e s' :
    (find_entry id (entries s) = None \/ exists f, find_entry id (entries s) = Some (RMany f)) ->
    handle_response s id b = BErr e s' -> s' = s.
  Proof.
    unfold Malformed.handle_response. intros [F|[f F]]; rewrite F.
    - intros H. now inversion H.
    - destruct (decode reg f b) as [[v rest]|].
      + destruct (on_output (core s) id v) as [| |a effs]; try discriminate.
        * intros H. now inversion H.
        * destruct (finish_ok a (entries s) effs) as (s1 & out & Fi). rewrite Fi. discriminate.
      + intros H. now inversion H.
  Qed.

  (* a rejected response to a one-shot request: that request is gone, nothing else *)
  Lemma rejected_response_once s id b e s' f :
    find_entry id (entries s) = Some (ROnce f) -> handle_response s id b = BErr e s' ->
    e = EDeserializeOutput /\ decode reg f b = None /\
    s' = {| core := core s; entries := remove_entry id (entries s) |} /\ find_entry id (entries s') = None.
  Proof.
    unfold Malformed.handle_response. intros F. rewrite F.
    destruct (decode reg f b) as [[v rest]|].
    - destruct (on_output (core s) id v) as [| |a effs]; try discriminate.
      destruct (finish_ok a (remove_entry id (entries s)) effs) as (s1 & out & Fi). rewrite Fi. discriminate.
    - intros H. inversion H; subst. cbn [entries]. repeat split. apply find_remove_same.
  Qed.

  (* ---- histories: an input that is rejected without changing the state can be deleted *)
  Fixpoint final (s : bstate) (h : list (input)) : option bstate :=
    match h with
    | [] => Some s
    | i :: h' => match state_after app s (step s i) with Some s' => final s' h' | None => None end
    end.

  Lemma run_app s h1 h2 :
    run s (h1 ++ h2) = run s h1 ++ match final s h1 with Some s1 => run s1 h2 | None => [] end.
  Proof.
    revert s; induction h1 as [|i h1 IH]; intros s; cbn [List.app Malformed.run final]; [reflexivity|].
    destruct (state_after app s (step s i)) as [s'|]; [now rewrite IH|reflexivity].
  Qed.

  Lemma skip_rejected s pre i post s1 e :
    final s pre = Some s1 -> step s1 i = BErr e s1 ->
    run s (pre ++ i :: post) = run s pre ++ BErr e s1 :: run s1 post /\
    run s (pre ++ post) = run s pre ++ run s1 post.
  Proof.
    intros F R. rewrite !run_app, F. split; [|reflexivity].
    cbn [Malformed.run]. rewrite R. reflexivity.
  Qed.
End BridgeProofs.

(* ------------------------------------------------------------------ consumption *)
Lemma decode_consumes reg f b v rest : decode reg f b = Some (v, rest) -> (length rest <= length b)%nat.
Proof. intros H. apply canonical in H as [-> _]. rewrite app_length. lia. Qed.

Definition sized (c : codec) (m : nat) : Prop := forall v, ctyp c v = true -> (m <= length (cenc c v))%nat.

Lemma sized_weaken c m m' : sized c m -> (m' <= m)%nat -> sized c m'.
Proof. intros H L v Ht. specialize (H v Ht). lia. Qed.

Lemma unit_sized : sized unit_codec 0. Proof. intros v _. lia. Qed.
Lemma bool_sized : sized bool_codec 1.
Proof. intros v Ht. destruct v as [|[]| | | | | |]; try discriminate; cbn; lia. Qed.
Lemma int_sized s w : sized (int_codec s w) (wbytes w).
Proof. intros v Ht. destruct v; try discriminate. cbn [int_codec cenc]. unfold int_enc. now rewrite le_enc_length. Qed.
Lemma char_sized : sized char_codec 1.
Proof.
  intros v Ht. destruct v as [| | |bs| | | |]; try discriminate. cbn [char_codec ctyp cenc] in *.
  apply is_char_first in Ht. destruct bs; [discriminate|cbn; lia].
Qed.
Lemma bytes_sized chk : sized (bytes_codec chk) 8.
Proof.
  intros v Ht. destruct v; try discriminate. cbn [bytes_codec cenc]. unfold u64_enc.
  rewrite app_length, le_enc_length. lia.
Qed.
Lemma option_sized c : sized (option_codec c) 1.
Proof. intros v Ht. destruct v; try discriminate; cbn; lia. Qed.
Lemma seq_sized c : sized (seq_codec c) 8.
Proof.
  intros v Ht. destruct v; try discriminate. cbn [seq_codec cenc]. unfold u64_enc.
  rewrite app_length, le_enc_length. lia.
Qed.
Lemma enum_sized R vs : sized (enum_codec R vs) 4.
Proof.
  intros v Ht. destruct v; try discriminate. cbn [enum_codec cenc]. unfold u32_enc.
  rewrite app_length, le_enc_length. lia.
Qed.

Lemma tuple_sized cs ms : Forall2 sized cs ms -> sized (tuple_codec cs) (fold_right Nat.add 0%nat ms).
Proof.
  intros HF v Ht. destruct v as [| | | | | |vs|]; try discriminate. cbn [tuple_codec ctyp cenc] in *.
  revert vs Ht. induction HF as [|c m cs ms Hc _ IH]; intros vs Ht.
  - cbn. lia.
  - destruct vs as [|v vs]; [discriminate|]. cbn [tuple_typ] in Ht. apply andb_prop in Ht as [H1 H2].
    cbn [tuple_enc fold_right]. rewrite app_length. specialize (Hc v H1). specialize (IH vs H2). lia.
Qed.

Section Sized.
  Variable R : string -> codec.
  Variable M : string -> nat.
  Hypothesis HRM : forall n, sized (R n) (M n).

  Lemma flist_sized fs : (forall f, In f fs -> sized (fcodec R f) (fmin M f)) ->
    sized (tuple_codec (map (fcodec R) fs)) (fsmin M fs).
  Proof.
    intros H. unfold fsmin.
    replace (fold_right (fun f acc => (fmin M f + acc)%nat) 0%nat fs) with (fold_right Nat.add 0%nat (map (fmin M) fs)).
    2:{ induction fs as [|f fs IH]; cbn; [reflexivity|]. rewrite IH; [reflexivity|]. intros; apply H; now right. }
    apply tuple_sized. induction fs as [|f fs IH]; cbn [map]; constructor.
    - apply H. now left.
    - apply IH. intros; apply H; now right.
  Qed.

  Lemma fcodec_sized f : sized (fcodec R f) (fmin M f).
  Proof.
    induction f using format_ind'; cbn [fcodec fmin].
    - apply HRM.
    - apply unit_sized.
    - apply bool_sized.
    - apply int_sized.
    - apply int_sized.
    - apply char_sized.
    - apply bytes_sized.
    - apply bytes_sized.
    - apply option_sized.
    - apply seq_sized.
    - apply seq_sized.
    - apply flist_sized. apply Forall_forall. exact H.
    - unfold array_codec.
      replace (n * fmin M f)%nat with (fold_right Nat.add 0%nat (repeat (fmin M f) n)).
      2:{ induction n as [|n IHn]; cbn [repeat fold_right]; [reflexivity|]. rewrite IHn. lia. }
      apply tuple_sized. induction n; cbn [repeat]; constructor; auto.
  Qed.

  Lemma fields_sized fields : sized (fields_codec R fields) (fields_min M fields).
  Proof.
    unfold fields_codec, fields_min.
    replace (fold_right (fun nf acc => (fmin M (snd nf) + acc)%nat) 0%nat fields)
      with (fold_right Nat.add 0%nat (map (fun nf => fmin M (snd nf)) fields)).
    2:{ induction fields as [|x l IH]; cbn; [reflexivity|]. now rewrite IH. }
    apply tuple_sized. induction fields as [|x l IH]; cbn [map]; constructor; [apply fcodec_sized|exact IH].
  Qed.

  Lemma ccodec_sized c : sized (ccodec R c) (cmin M c).
  Proof.
    destruct c; cbn [ccodec cmin].
    - apply unit_sized.
    - apply fcodec_sized.
    - apply flist_sized. intros; apply fcodec_sized.
    - apply fields_sized.
    - apply enum_sized.
  Qed.
End Sized.

Lemma fail_sized m : sized fail_codec m.
Proof. intros v Ht. discriminate. Qed.

Lemma rcodec_sized reg : forall name, sized (rcodec reg name) (rmin reg name).
Proof.
  induction reg as [|[n c] reg IH]; intros name; cbn [rcodec rmin].
  - apply fail_sized.
  - destruct (String.eqb name n); [apply ccodec_sized; exact IH|apply IH].
Qed.

Lemma decode_min reg f b v rest : decode reg f b = Some (v, rest) ->
  (length rest + fmin (rmin reg) f <= length b)%nat.
Proof.
  intros H. apply canonical in H as [-> Ht]. rewrite app_length.
  pose proof (fcodec_sized _ _ (rcodec_sized reg) f v Ht) as S. unfold encode. lia.
Qed.

(* ------------------------------------------------------------------ a huge length prefix cannot make the decoder spin *)
Definition consuming (d : decoder) : Prop := forall b v r, d b = Some (v, r) -> (length r < length b)%nat.

Fixpoint calls_nat (d : decoder) (n : nat) (s : dstate) : nat :=
  match n with
  | O => O
  | S k => match dstep d s with None => 1 | Some s' => S (calls_nat d k s') end
  end.

Lemma calls_nat_add d a : forall b s,
  calls_nat d (a + b) s =
  match iter_nat d a s with None => calls_nat d a s | Some s' => (calls_nat d a s + calls_nat d b s')%nat end.
Proof.
  induction a as [|a IH]; intros b s; cbn [calls_nat iter_nat Nat.add]; [reflexivity|].
  destruct (dstep d s) as [s1|]; [|reflexivity]. rewrite IH.
  destruct (iter_nat d a s1); reflexivity.
Qed.

Lemma calls_pos_nat d p : forall s, calls_pos d p s = calls_nat d (Pos.to_nat p) s.
Proof.
  induction p as [p IH|p IH|]; intros s; cbn [calls_pos].
  - rewrite Pos2Nat.inj_xI. cbn [calls_nat]. destruct (dstep d s) as [s1|]; [|reflexivity].
    replace (2 * Pos.to_nat p)%nat with (Pos.to_nat p + Pos.to_nat p)%nat by lia.
    rewrite calls_nat_add, iter_pos_nat, !IH.
    destruct (iter_nat d (Pos.to_nat p) s1); [rewrite IH|]; reflexivity.
  - rewrite Pos2Nat.inj_xO.
    replace (2 * Pos.to_nat p)%nat with (Pos.to_nat p + Pos.to_nat p)%nat by lia.
    rewrite calls_nat_add, iter_pos_nat, !IH.
    destruct (iter_nat d (Pos.to_nat p) s); [rewrite IH|]; reflexivity.
  - change (Pos.to_nat 1) with 1%nat. cbn [calls_nat]. destruct (dstep d s); reflexivity.
Qed.

Lemma calls_nat_bound d : consuming d -> forall n s, (calls_nat d n s <= length (snd s) + 1)%nat.
Proof.
  intros Hc. induction n as [|n IH]; intros s; cbn [calls_nat]; [lia|].
  unfold dstep. destruct (d (snd s)) as [[v r]|] eqn:E; [|lia].
  apply Hc in E. specialize (IH (v :: fst s, r)). cbn [snd] in IH. lia.
Qed.
Lemma calls_nat_le_n d n s : (calls_nat d n s <= n)%nat.
Proof. revert s; induction n as [|n IH]; intros s; cbn [calls_nat]; [lia|]. destruct (dstep d s); [specialize (IH d0)|]; lia. Qed.

Lemma seq_attempts_bound d n b : consuming d ->
  (seq_attempts d n b <= length b + 1)%nat /\ (seq_attempts d n b <= N.to_nat n)%nat.
Proof.
  intros Hc. destruct n as [|p]; cbn [seq_attempts N.to_nat]; [lia|].
  rewrite calls_pos_nat. split; [apply (calls_nat_bound d Hc _ ([], b))|apply calls_nat_le_n].
Qed.

Lemma nonempty_consuming reg f : (0 < fmin (rmin reg) f)%nat -> consuming (cdec (fcodec (rcodec reg) f)).
Proof. intros Hm b v r E. pose proof (decode_min reg f b v r E). lia. Qed.

(* ------------------------------------------------------------------ length fields are checked before anything is taken *)
Lemma take_bytes_checked b n r : u64_dec b = Some (n, r) -> (N.of_nat (length r) < n)%N -> take_bytes b = None.
Proof.
  intros E L. unfold take_bytes. rewrite E. destruct (n <=? N.of_nat (length r))%N eqn:C; [|reflexivity].
  apply N.leb_le in C. lia.
Qed.
Lemma take_bytes_len b bs r : take_bytes b = Some (bs, r) -> (length bs + 8 + length r = length b)%nat.
Proof.
  intros H. apply take_bytes_canon in H as [-> _]. unfold u64_enc. rewrite !app_length, le_enc_length. lia.
Qed.

(* ------------------------------------------------------------------ allocation cap *)
Lemma cautious_bound hint es : (cautious hint es * es <= MAX_PREALLOC_BYTES)%N.
Proof.
  unfold cautious. destruct (N.eqb es 0) eqn:E; [cbn; unfold MAX_PREALLOC_BYTES; lia|].
  apply N.eqb_neq in E.
  assert (H : (N.min hint (MAX_PREALLOC_BYTES / es) <= MAX_PREALLOC_BYTES / es)%N) by apply N.le_min_r.
  pose proof (N.mul_div_le MAX_PREALLOC_BYTES es E).
  assert ((N.min hint (MAX_PREALLOC_BYTES / es) * es <= MAX_PREALLOC_BYTES / es * es)%N) by (apply N.mul_le_mono_r; exact H).
  lia.
Qed.
Lemma cautious_le_hint hint es : (cautious hint es <= hint)%N.
Proof. unfold cautious. destruct (N.eqb es 0); [lia|apply N.le_min_l]. Qed.

(* ------------------------------------------------------------------ the crux_kv instance: no byte string panics it *)
From Crux Require Import Wire.Kv Wire.KvProofs.

Lemma kv_respond_total reg c b : kv_respond reg c b <> BPanic.
Proof.
  unfold kv_respond, Malformed.handle_response, kv_waiting. cbn [entries core find_entry N.eqb].
  destruct (decode reg F_result b) as [[v rest]|]; [|discriminate].
  unfold kv_continuation. destruct (result_of_v v) as [r|].
  - pose proof (deliver_total Command c r) as T.
    destruct (deliver Command c r); try contradiction; unfold Malformed.finish; cbn; discriminate.
  - unfold Malformed.finish; cbn; discriminate.
Qed.

(* what the app is told when the bytes are a well-formed result of another kind *)
Lemma kv_respond_mismatch reg c b x :
  bridge_in reg b = Some (KOk x) -> response_kind x <> call_kind c ->
  exists r, bridge_in reg b = Some r /\ deliver Command c r = Failed (mismatch_error (call_kind c)).
Proof. intros E Hne. exists (KOk x). split; [exact E|now apply deliver_mismatch]. Qed.
