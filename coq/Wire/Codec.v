(* Schema-directed model of the bridge's wire format.

   [format]/[container]/[registry] mirror serde_reflection 0.4.0 (Format, ContainerFormat, Registry),
   the object `crux_core::typegen::TypeGen` hands to the foreign-code generators.  A registry printed by
   the harness (coq/Gen/Registry_*.v) is a term of type [registry].

   [encode]/[decode] model bincode 1.3.3 as configured by crux_core/src/bridge/mod.rs
   (DefaultOptions + with_fixint_encoding + allow_trailing_bytes, no size limit, slice reader):
   fixed-width little-endian integers, u64 lengths, u32 variant indices, one byte 0/1 for bool and
   for the Option tag, chars as their UTF-8 bytes, str checked with std's UTF-8 rules, maps as a
   sequence of key/value pairs, structs and tuples as the concatenation of their fields, and the
   bytes left over are returned.

   Model file: executable definitions only; lemmas are in CodecProofs.v. This file is self-contained
   (standard library only) so that other engines can import it. *)
From Coq Require Import String List ZArith NArith Bool Lia.
From Coq Require Strings.Byte.
Import ListNotations.
Local Open Scope N_scope.

Notation byte := Coq.Init.Byte.byte.

(* ------------------------------------------------------------------ schema *)
Inductive width : Type := W1 | W2 | W4 | W8 | W16.
Definition wbytes (w : width) : nat :=
  match w with W1 => 1 | W2 => 2 | W4 => 4 | W8 => 8 | W16 => 16 end%nat.

Inductive format : Type :=
| FTypeName (n : string)
| FUnit
| FBool
| FInt (signed : bool) (w : width)      (* I8..I128, U8..U128 *)
| FFloat (w : width)                    (* F32, F64: carried as the IEEE bit pattern *)
| FChar
| FStr
| FBytes
| FOption (f : format)
| FSeq (f : format)
| FMap (k v : format)
| FTuple (fs : list format)
| FTupleArray (f : format) (size : nat).

Definition FI8 := FInt true W1.   Definition FI16 := FInt true W2.   Definition FI32 := FInt true W4.
Definition FI64 := FInt true W8.  Definition FI128 := FInt true W16.
Definition FU8 := FInt false W1.  Definition FU16 := FInt false W2.  Definition FU32 := FInt false W4.
Definition FU64 := FInt false W8. Definition FU128 := FInt false W16.
Definition FF32 := FFloat W4.     Definition FF64 := FFloat W8.

Inductive variant : Type :=
| VarUnit
| VarNewType (f : format)
| VarTuple (fs : list format)
| VarStruct (fields : list (string * format)).

Inductive container : Type :=
| CUnitStruct
| CNewType (f : format)
| CTupleStruct (fs : list format)
| CStruct (fields : list (string * format))
| CEnum (variants : list (N * (string * variant))).

(* Dependency-ordered: an entry may refer only to entries AFTER it (checked by [wf_registry]). *)
Definition registry : Type := list (string * container).

(* ------------------------------------------------------------------ values *)
(* A value's shape is determined by the format it is read at: newtype structs are transparent,
   tuples / structs / arrays / sequences are [VList], a map is a [VList] of two-element [VList]s,
   str, bytes and char are their bytes, floats are their bit pattern. *)
Inductive value : Type :=
| VUnit
| VBool (b : bool)
| VInt (z : Z)
| VBytes (bs : list byte)
| VNone
| VSome (v : value)
| VList (vs : list value)
| VEnum (idx : N) (v : value).

(* ------------------------------------------------------------------ bytes and integers *)
Definition byte_of_N (n : N) : byte :=
  match Coq.Strings.Byte.of_N (n mod 256) with Some b => b | None => Coq.Init.Byte.x00 end.
Definition N_of_byte (b : byte) : N := Coq.Strings.Byte.to_N b.

Fixpoint le_enc (w : nat) (n : N) : list byte :=
  match w with
  | O => []
  | S w' => byte_of_N n :: le_enc w' (n / 256)
  end.

Fixpoint le_dec (w : nat) (b : list byte) : option (N * list byte) :=
  match w with
  | O => Some (0, b)
  | S w' =>
    match b with
    | [] => None
    | x :: b' =>
      match le_dec w' b' with
      | None => None
      | Some (n, r) => Some (N_of_byte x + 256 * n, r)
      end
    end
  end.

Definition wbits (w : width) : Z := 8 * Z.of_nat (wbytes w).
Definition wmod (w : width) : Z := 2 ^ wbits w.
Definition whalf (w : width) : Z := 2 ^ (wbits w - 1).

Definition int_ok (signed : bool) (w : width) (z : Z) : bool :=
  if signed then ((- whalf w <=? z) && (z <? whalf w))%Z
  else ((0 <=? z) && (z <? wmod w))%Z.

Definition int_enc (w : width) (z : Z) : list byte :=
  le_enc (wbytes w) (Z.to_N (z mod wmod w)).

Definition int_dec (signed : bool) (w : width) (b : list byte) : option (Z * list byte) :=
  match le_dec (wbytes w) b with
  | None => None
  | Some (n, r) =>
    let z := Z.of_N n in
    Some (if signed && (whalf w <=? z)%Z then (z - wmod w)%Z else z, r)
  end.

(* u64 length prefix / u32 variant index *)
Definition U64MAX1 : N := 18446744073709551616.
Definition U32MAX1 : N := 4294967296.
Definition len_ok (n : nat) : bool := N.of_nat n <? U64MAX1.
Definition u64_enc (n : N) : list byte := le_enc 8 n.
Definition u64_dec (b : list byte) := le_dec 8 b.
Definition u32_enc (n : N) : list byte := le_enc 4 n.
Definition u32_dec (b : list byte) := le_dec 4 b.

(* ------------------------------------------------------------------ UTF-8 (std::str::from_utf8) *)
Definition in_range (lo hi : N) (x : byte) : bool :=
  let n := N_of_byte x in (lo <=? n) && (n <=? hi).
Definition cont (x : byte) : bool := in_range 128 191 x.

(* Splits one well-formed scalar value off the front (Unicode table 3-7: no overlong forms, no
   surrogates, nothing above U+10FFFF). *)
Definition utf8_first (b : list byte) : option (list byte * list byte) :=
  match b with
  | [] => None
  | x0 :: r =>
    let n0 := N_of_byte x0 in
    if n0 <? 128 then Some ([x0], r)
    else if n0 <? 194 then None
    else if n0 <? 224 then
      match r with
      | x1 :: r' => if cont x1 then Some ([x0; x1], r') else None
      | _ => None
      end
    else if n0 <? 240 then
      match r with
      | x1 :: x2 :: r' =>
        if in_range (if n0 =? 224 then 160 else 128) (if n0 =? 237 then 159 else 191) x1 && cont x2
        then Some ([x0; x1; x2], r') else None
      | _ => None
      end
    else if n0 <? 245 then
      match r with
      | x1 :: x2 :: x3 :: r' =>
        if in_range (if n0 =? 240 then 144 else 128) (if n0 =? 244 then 143 else 191) x1
           && cont x2 && cont x3
        then Some ([x0; x1; x2; x3], r') else None
      | _ => None
      end
    else None
  end.

Fixpoint utf8_valid_fuel (fuel : nat) (b : list byte) : bool :=
  match b with
  | [] => true
  | _ :: _ =>
    match fuel with
    | O => false
    | S k => match utf8_first b with None => false | Some (_, r) => utf8_valid_fuel k r end
    end
  end.
(* every scalar takes at least one byte, so [length b] steps always suffice *)
Definition utf8_valid (b : list byte) : bool := utf8_valid_fuel (length b) b.

Definition is_char (bs : list byte) : bool :=
  match utf8_first bs with Some (_, []) => true | _ => false end.

(* ------------------------------------------------------------------ codecs and combinators *)
Definition decoder : Type := list byte -> option (value * list byte).

Record codec : Type := Codec {
  ctyp : value -> bool;               (* which values inhabit the type *)
  cenc : value -> list byte;          (* what Rust writes *)
  cdec : decoder                      (* what Rust accepts, and what is left *)
}.

Definition fail_codec : codec := Codec (fun _ => false) (fun _ => []) (fun _ => None).

Definition unit_codec : codec :=
  Codec (fun v => match v with VUnit => true | _ => false end)
        (fun _ => [])
        (fun b => Some (VUnit, b)).

Definition bool_codec : codec :=
  Codec (fun v => match v with VBool _ => true | _ => false end)
        (fun v => match v with VBool true => [byte_of_N 1] | _ => [byte_of_N 0] end)
        (fun b => match b with
                  | [] => None
                  | x :: r => if N_of_byte x =? 0 then Some (VBool false, r)
                              else if N_of_byte x =? 1 then Some (VBool true, r) else None
                  end).

Definition int_codec (signed : bool) (w : width) : codec :=
  Codec (fun v => match v with VInt z => int_ok signed w z | _ => false end)
        (fun v => match v with VInt z => int_enc w z | _ => [] end)
        (fun b => match int_dec signed w b with Some (z, r) => Some (VInt z, r) | None => None end).

Definition char_codec : codec :=
  Codec (fun v => match v with VBytes bs => is_char bs | _ => false end)
        (fun v => match v with VBytes bs => bs | _ => [] end)
        (fun b => match utf8_first b with Some (c, r) => Some (VBytes c, r) | None => None end).

(* `len` as u64, then that many bytes; the slice reader refuses a length larger than what is left
   BEFORE anything is allocated (bincode de/read.rs get_byte_slice). *)
Definition take_bytes (b : list byte) : option (list byte * list byte) :=
  match u64_dec b with
  | None => None
  | Some (n, r) =>
    if n <=? N.of_nat (length r) then Some (firstn (N.to_nat n) r, skipn (N.to_nat n) r) else None
  end.

Definition bytes_codec (check : list byte -> bool) : codec :=
  Codec (fun v => match v with VBytes bs => len_ok (length bs) && check bs | _ => false end)
        (fun v => match v with VBytes bs => u64_enc (N.of_nat (length bs)) ++ bs | _ => [] end)
        (fun b => match take_bytes b with
                  | Some (bs, r) => if check bs then Some (VBytes bs, r) else None
                  | None => None
                  end).

Definition option_codec (c : codec) : codec :=
  Codec (fun v => match v with VNone => true | VSome v' => ctyp c v' | _ => false end)
        (fun v => match v with VSome v' => byte_of_N 1 :: cenc c v' | _ => [byte_of_N 0] end)
        (fun b => match b with
                  | [] => None
                  | x :: r =>
                    if N_of_byte x =? 0 then Some (VNone, r)
                    else if N_of_byte x =? 1 then
                      match cdec c r with Some (v, r') => Some (VSome v, r') | None => None end
                    else None
                  end).

(* n elements one after the other; the accumulator is reversed.  [iter_pos] runs the element decoder
   exactly n times (binary recursion on the count, so a count of 2^64-1 is a legal input) and stops
   at the first failure, as serde's `Vec` visitor does. *)
Definition dstate : Type := (list value * list byte)%type.
Definition dstep (d : decoder) (s : dstate) : option dstate :=
  match d (snd s) with None => None | Some (v, r) => Some (v :: fst s, r) end.

Fixpoint iter_pos (d : decoder) (p : positive) (s : dstate) : option dstate :=
  match p with
  | xH => dstep d s
  | xO p' => match iter_pos d p' s with None => None | Some s' => iter_pos d p' s' end
  | xI p' =>
    match dstep d s with
    | None => None
    | Some s1 => match iter_pos d p' s1 with None => None | Some s2 => iter_pos d p' s2 end
    end
  end.

Definition dec_count (d : decoder) (n : N) (b : list byte) : option (list value * list byte) :=
  match n with
  | N0 => Some ([], b)
  | Npos p => match iter_pos d p ([], b) with None => None | Some (acc, r) => Some (rev acc, r) end
  end.

Definition seq_codec (c : codec) : codec :=
  Codec (fun v => match v with VList vs => len_ok (length vs) && forallb (ctyp c) vs | _ => false end)
        (fun v => match v with
                  | VList vs => u64_enc (N.of_nat (length vs)) ++ flat_map (cenc c) vs
                  | _ => [] end)
        (fun b => match u64_dec b with
                  | None => None
                  | Some (n, r) =>
                    match dec_count (cdec c) n r with
                    | Some (vs, r') => Some (VList vs, r')
                    | None => None
                    end
                  end).

(* fixed number of elements, no prefix: tuples, structs, arrays *)
Fixpoint tuple_typ (cs : list codec) (vs : list value) : bool :=
  match cs, vs with
  | [], [] => true
  | c :: cs', v :: vs' => ctyp c v && tuple_typ cs' vs'
  | _, _ => false
  end.
Fixpoint tuple_enc (cs : list codec) (vs : list value) : list byte :=
  match cs, vs with
  | c :: cs', v :: vs' => cenc c v ++ tuple_enc cs' vs'
  | _, _ => []
  end.
Fixpoint tuple_dec (cs : list codec) (b : list byte) : option (list value * list byte) :=
  match cs with
  | [] => Some ([], b)
  | c :: cs' =>
    match cdec c b with
    | None => None
    | Some (v, r) =>
      match tuple_dec cs' r with None => None | Some (vs, r') => Some (v :: vs, r') end
    end
  end.

Definition tuple_codec (cs : list codec) : codec :=
  Codec (fun v => match v with VList vs => tuple_typ cs vs | _ => false end)
        (fun v => match v with VList vs => tuple_enc cs vs | _ => [] end)
        (fun b => match tuple_dec cs b with Some (vs, r) => Some (VList vs, r) | None => None end).

Definition pair_codec (a b : codec) : codec := tuple_codec [a; b].
Definition map_codec (k v : codec) : codec := seq_codec (pair_codec k v).
Definition array_codec (c : codec) (n : nat) : codec := tuple_codec (repeat c n).

(* ------------------------------------------------------------------ formats *)
Section WithNames.
  (* how a type name is read: supplied by the registry (below) *)
  Variable R : string -> codec.

  Fixpoint fcodec (f : format) : codec :=
    match f with
    | FTypeName n => R n
    | FUnit => unit_codec
    | FBool => bool_codec
    | FInt s w => int_codec s w
    | FFloat w => int_codec false w
    | FChar => char_codec
    | FStr => bytes_codec utf8_valid
    | FBytes => bytes_codec (fun _ => true)
    | FOption f' => option_codec (fcodec f')
    | FSeq f' => seq_codec (fcodec f')
    | FMap k v => map_codec (fcodec k) (fcodec v)
    | FTuple fs => tuple_codec (map fcodec fs)
    | FTupleArray f' n => array_codec (fcodec f') n
    end.

  Definition fields_codec (fields : list (string * format)) : codec :=
    tuple_codec (map (fun nf => fcodec (snd nf)) fields).

  Definition vcodec (v : variant) : codec :=
    match v with
    | VarUnit => unit_codec
    | VarNewType f => fcodec f
    | VarTuple fs => tuple_codec (map fcodec fs)
    | VarStruct fields => fields_codec fields
    end.

  Fixpoint find_variant (vs : list (N * (string * variant))) (idx : N) : option variant :=
    match vs with
    | [] => None
    | (i, (_, v)) :: vs' => if i =? idx then Some v else find_variant vs' idx
    end.

  Definition enum_codec (vs : list (N * (string * variant))) : codec :=
    Codec (fun v => match v with
                    | VEnum idx p =>
                      (idx <? U32MAX1) &&
                      match find_variant vs idx with Some va => ctyp (vcodec va) p | None => false end
                    | _ => false end)
          (fun v => match v with
                    | VEnum idx p =>
                      u32_enc idx ++
                      match find_variant vs idx with Some va => cenc (vcodec va) p | None => [] end
                    | _ => [] end)
          (fun b => match u32_dec b with
                    | None => None
                    | Some (idx, r) =>
                      match find_variant vs idx with
                      | None => None
                      | Some va =>
                        match cdec (vcodec va) r with
                        | Some (p, r') => Some (VEnum idx p, r')
                        | None => None
                        end
                      end
                    end).

  Definition ccodec (c : container) : codec :=
    match c with
    | CUnitStruct => unit_codec
    | CNewType f => fcodec f
    | CTupleStruct fs => tuple_codec (map fcodec fs)
    | CStruct fields => fields_codec fields
    | CEnum vs => enum_codec vs
    end.
End WithNames.

(* ------------------------------------------------------------------ registries *)
(* A name denotes the container registered under it; the names inside that container are resolved in
   the REST of the (dependency-ordered) registry.  An unknown name has no values and decodes nothing. *)
Fixpoint rcodec (reg : registry) (name : string) : codec :=
  match reg with
  | [] => fail_codec
  | (n, c) :: reg' => if String.eqb name n then ccodec (rcodec reg') c else rcodec reg' name
  end.

Definition has_type_b (reg : registry) (f : format) (v : value) : bool := ctyp (fcodec (rcodec reg) f) v.
Definition has_type (reg : registry) (f : format) (v : value) : Prop := has_type_b reg f v = true.
Definition encode (reg : registry) (f : format) (v : value) : list byte := cenc (fcodec (rcodec reg) f) v.
Definition decode (reg : registry) (f : format) (b : list byte) : option (value * list byte) :=
  cdec (fcodec (rcodec reg) f) b.

(* ------------------------------------------------------------------ well-formed registries *)
Fixpoint frefs (f : format) : list string :=
  match f with
  | FTypeName n => [n]
  | FOption f' | FSeq f' | FTupleArray f' _ => frefs f'
  | FMap k v => frefs k ++ frefs v
  | FTuple fs => flat_map frefs fs
  | _ => []
  end.
Definition vrefs (v : variant) : list string :=
  match v with
  | VarUnit => []
  | VarNewType f => frefs f
  | VarTuple fs => flat_map frefs fs
  | VarStruct fields => flat_map (fun nf => frefs (snd nf)) fields
  end.
Definition crefs (c : container) : list string :=
  match c with
  | CUnitStruct => []
  | CNewType f => frefs f
  | CTupleStruct fs => flat_map frefs fs
  | CStruct fields => flat_map (fun nf => frefs (snd nf)) fields
  | CEnum vs => flat_map (fun e => vrefs (snd (snd e))) vs
  end.

Definition mem_name (n : string) (l : list string) : bool := existsb (String.eqb n) l.
Definition names (reg : registry) : list string := map fst reg.

(* variant indices 0,1,2,... in order (serde_reflection keeps them in a BTreeMap<u32,_>) and below 2^32 *)
Fixpoint contiguous_from (i : N) (vs : list (N * (string * variant))) : bool :=
  match vs with
  | [] => true
  | (j, _) :: vs' => (j =? i) && contiguous_from (i + 1) vs'
  end.
Definition cwf (c : container) : bool :=
  match c with
  | CEnum vs => contiguous_from 0 vs && (N.of_nat (length vs) <=? U32MAX1)
  | _ => true
  end.

(* closed and acyclic: every name used by an entry is defined later in the list, no name is
   defined twice; enums are numbered from 0 without gaps *)
Fixpoint wf_registry (reg : registry) : bool :=
  match reg with
  | [] => true
  | (n, c) :: reg' =>
    negb (mem_name n (names reg')) && forallb (fun m => mem_name m (names reg')) (crefs c)
    && cwf c && wf_registry reg'
  end.

(* flat lookup, the way the code generators read a Registry (a BTreeMap keyed by name) *)
Fixpoint lookup (reg : registry) (name : string) : option container :=
  match reg with
  | [] => None
  | (n, c) :: reg' => if String.eqb name n then Some c else lookup reg' name
  end.

(* does any registered type contain a map (Rust maps are canonical only up to entry order) *)
Fixpoint fhas_map (f : format) : bool :=
  match f with
  | FMap _ _ => true
  | FOption f' | FSeq f' | FTupleArray f' _ => fhas_map f'
  | FTuple fs => existsb fhas_map fs
  | _ => false
  end.
Definition vhas_map (v : variant) : bool :=
  match v with
  | VarUnit => false
  | VarNewType f => fhas_map f
  | VarTuple fs => existsb fhas_map fs
  | VarStruct fields => existsb (fun nf => fhas_map (snd nf)) fields
  end.
Definition chas_map (c : container) : bool :=
  match c with
  | CUnitStruct => false
  | CNewType f => fhas_map f
  | CTupleStruct fs => existsb fhas_map fs
  | CStruct fields => existsb (fun nf => fhas_map (snd nf)) fields
  | CEnum vs => existsb (fun e => vhas_map (snd (snd e))) vs
  end.
Definition registry_has_map (reg : registry) : bool := existsb (fun e => chas_map (snd e)) reg.

(* ------------------------------------------------------------------ byte lists as numbers (case files) *)
Definition bytes_of_Ns (l : list N) : list byte := map byte_of_N l.
Definition Ns_of_bytes (l : list byte) : list N := map N_of_byte l.
Fixpoint bytes_eqb (a b : list byte) : bool :=
  match a, b with
  | [], [] => true
  | x :: a', y :: b' => Coq.Strings.Byte.eqb x y && bytes_eqb a' b'
  | _, _ => false
  end.
