(* Helpers for the generated case files of the wire engine (evaluated by vm_compute inside coqc):
   byte strings arrive as hex string literals, verdicts are numbers (CONTRIBUTING.md, step 3). *)
From Coq Require Import String Ascii List ZArith NArith Bool.
From Crux Require Import Wire.Codec.
Import ListNotations.
Local Open Scope N_scope.

Definition hexval (a : ascii) : N :=
  let n := N_of_ascii a in
  if (48 <=? n) && (n <=? 57) then n - 48
  else if (97 <=? n) && (n <=? 102) then n - 87
  else 0.

Fixpoint bytes_of_hex (s : string) : list byte :=
  match s with
  | String a (String b r) => byte_of_N (16 * hexval a + hexval b) :: bytes_of_hex r
  | _ => []
  end.

Definition VB (s : string) : value := VBytes (bytes_of_hex s).

(* ---- C10, direction (a): bytes written by the harness' schema-directed encoder for a generated value
   of a registered type, and what Rust's bincode did with them: accepted with the Bridge's options /
   with trailing bytes forbidden / wrote the same bytes back.  The bytes are a "schema-valid encoding a
   shell can produce" exactly when the model decodes them with nothing left over (C10_canonical); if it
   does not, the generator is at fault (verdict 9). *)
Definition C10_ok_a (accepted strict same : bool) : bool := accepted && strict && same.

Definition verdict_a (reg : registry) (f : format) (hb : list byte) (accepted strict same : bool) : N :=
  match decode reg f hb with
  | Some (v, []) => if C10_ok_a accepted strict same then 0 else 2
  | _ => 9
  end.

(* what the model says Rust does with bytes [b] read at [f]: (accepted, nothing left, writes them back) *)
Definition model_a (reg : registry) (f : format) (b : list byte) : bool * bool * bool :=
  match decode reg f b with
  | Some (v, r) => (true, match r with [] => true | _ => false end, bytes_eqb (encode reg f v ++ r) b)
  | None => (false, false, false)
  end.

(* ---- C10, direction (b): bytes Rust wrote must decode under the schema with nothing left over and
   re-encode to themselves *)
Definition C10_ok_b (reg : registry) (f : format) (b : list byte) : bool :=
  match decode reg f b with
  | Some (v, []) => bytes_eqb (encode reg f v) b
  | _ => false
  end.
Definition verdict_b (reg : registry) (f : format) (b : list byte) : N :=
  if C10_ok_b reg f b then 0 else 2.

Definition case_a : Type := (string * list byte * bool * bool * bool)%type.
Definition run_a (reg : registry) (c : case_a) : N :=
  match c with (ty, hb, acc, strict, same) => verdict_a reg (FTypeName ty) hb acc strict same end.
Definition case_b : Type := (format * list byte)%type.
Definition run_b (reg : registry) (c : case_b) : N := verdict_b reg (fst c) (snd c).
