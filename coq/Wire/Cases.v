(* Helpers for the generated case files of the wire engine (evaluated by vm_compute inside coqc):
   byte strings arrive as hex string literals, verdicts are numbers (CONTRIBUTING.md, step 3). *)
From Coq Require Import String Ascii List ZArith NArith Bool.
From Crux Require Import Wire.Codec.
Import ListNotations.
Local Open Scope N_scope.

Definition hexval (a : ascii) : N :=
  let n := N_of_ascii a in
  if (48 <=? n) && (n <=? 57) then n - 48
  else if (97 <=? n) && (n <=? 102) then n - 87
  else 0.

Fixpoint bytes_of_hex (s : string) : list byte :=
  match s with
  | String a (String b r) => byte_of_N (16 * hexval a + hexval b) :: bytes_of_hex r
  | _ => []
  end.

Definition VB (s : string) : value := VBytes (bytes_of_hex s).

(* compact byte strings: large values are written as runs *)
Inductive bspec : Type := Lit (l : list byte) | Rep (b : byte) (n : N) | Cat (x y : bspec).
Fixpoint rep_pos (b : byte) (p : positive) : list byte :=
  match p with
  | xH => [b]
  | xO p' => let l := rep_pos b p' in l ++ l
  | xI p' => let l := rep_pos b p' in b :: l ++ l
  end.
Fixpoint bytes_of (s : bspec) : list byte :=
  match s with
  | Lit l => l
  | Rep b N0 => []
  | Rep b (Npos p) => rep_pos b p
  | Cat x y => bytes_of x ++ bytes_of y
  end.


(* ---- C10, direction (a): bytes written by the harness' schema-directed encoder for a generated value
   of a registered type, and what Rust's bincode did with them: accepted with the Bridge's options /
   with trailing bytes forbidden / wrote the same bytes back.  The bytes are a "schema-valid encoding a
   shell can produce" exactly when the model decodes them with nothing left over (C10_canonical); if it
   does not, the generator is at fault (verdict 9). *)
Definition C10_ok_a (accepted strict same : bool) : bool := accepted && strict && same.

Definition verdict_a (reg : registry) (f : format) (hb : list byte) (accepted strict same : bool) : N :=
  match decode reg f hb with
  | Some (v, []) => if C10_ok_a accepted strict same then 0 else 2
  | _ => 9
  end.

(* what the model says Rust does with bytes [b] read at [f]: (accepted, nothing left, writes them back) *)
Definition model_a (reg : registry) (f : format) (b : list byte) : bool * bool * bool :=
  match decode reg f b with
  | Some (v, r) => (true, match r with [] => true | _ => false end, bytes_eqb (encode reg f v ++ r) b)
  | None => (false, false, false)
  end.

(* ---- C10, direction (b): bytes Rust wrote must decode under the schema with nothing left over and
   re-encode to themselves *)
Definition C10_ok_b (reg : registry) (f : format) (b : list byte) : bool :=
  match decode reg f b with
  | Some (v, []) => bytes_eqb (encode reg f v) b
  | _ => false
  end.
Definition verdict_b (reg : registry) (f : format) (b : list byte) : N :=
  if C10_ok_b reg f b then 0 else 2.

Definition case_a : Type := (string * list byte * bool * bool * bool)%type.
Definition run_a (reg : registry) (c : case_a) : N :=
  match c with (ty, hb, acc, strict, same) => verdict_a reg (FTypeName ty) hb acc strict same end.
Definition case_b : Type := (format * list byte)%type.
Definition run_b (reg : registry) (c : case_b) : N := verdict_b reg (fst c) (snd c).

(* ---- C10, direction (c): a schema-valid encoding of an event, or of the output of an outstanding
   request, offered to the real `Bridge` (its own private options, not a copy of them): the core must
   accept it.  Verdict 9 when the model does not decode the bytes (generator fault). *)
Definition verdict_c (reg : registry) (f : format) (b : list byte) (accepted : bool) : N :=
  match decode reg f b with
  | Some (_, _) => if accepted then 0 else 2
  | None => 9
  end.
Definition case_c : Type := (format * bspec * bool)%type.
Definition run_c (reg : registry) (c : case_c) : N :=
  match c with (f, b, acc) => verdict_c reg f (bytes_of b) acc end.
