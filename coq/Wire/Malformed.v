(* C12 model: what the bridge does with an arbitrary byte string offered as an event or as the
   response to a request, and how much work the decoder can be made to do.

   Transcribed from /repo/crux_core/src/bridge/mod.rs (`BridgeWithSerializer::process`),
   bridge/registry.rs (`ResolveRegistry::resume`, as of fix 117dd88: an id with no entry is an error)
   and bridge/request_serde.rs (`ResolveSerialized::resolve`, `Resolve::deserializing`).
   The core underneath (app update, continuations of requests) is a Section parameter: the runtime is
   modelled by other engines; a parameter may report that app / capability code panicked.
   Model file: definitions only; lemmas in MalformedProofs.v. *)
From Coq Require Import String List ZArith NArith Bool.
From Crux Require Import Wire.Codec.
Import ListNotations.

(* BridgeError, by kind *)
Inductive berr : Type := EDeserializeEvent | EDeserializeOutput | ENever | EFinishedMany.

(* ResolveSerialized, with the format of the output the closure deserializes *)
Inductive entry : Type := RNever | ROnce (f : format) | RMany (f : format).

(* an effect handed to the bridge by the core: how it can be resolved, and its payload *)
Definition effect : Type := (entry * list byte)%type.

Section Bridge.
  Variable reg : registry.
  Variable ev_fmt : format.                 (* A::Event *)
  Variable app : Type.                      (* everything below the bridge: model + runtime state *)

  Inductive core_res : Type :=
  | CPanic                                   (* app or capability code panicked *)
  | CFinished                                (* a stream whose receiver is gone (ResolveError::FinishedMany) *)
  | CDone (a : app) (effs : list effect).

  Variable on_event : app -> value -> core_res.         (* Core::process_event on the decoded event *)
  Variable on_output : app -> N -> value -> core_res.   (* resolve closure of request id, then Core::process *)
  Variable alloc_id : list (N * entry) -> N.            (* where the slab puts the next entry *)

  Record bstate : Type := { core : app; entries : list (N * entry) }.

  Fixpoint find_entry (id : N) (es : list (N * entry)) : option entry :=
    match es with
    | [] => None
    | (i, e) :: es' => if N.eqb i id then Some e else find_entry id es'
    end.
  Fixpoint remove_entry (id : N) (es : list (N * entry)) : list (N * entry) :=
    match es with
    | [] => []
    | (i, e) :: es' => if N.eqb i id then remove_entry id es' else (i, e) :: remove_entry id es'
    end.

  (* `effects.map(|eff| registry.register(eff))` *)
  Fixpoint register (es : list (N * entry)) (effs : list effect) : list (N * entry) * list (N * list byte) :=
    match effs with
    | [] => (es, [])
    | (e, payload) :: effs' =>
      let id := alloc_id es in
      let '(es', out) := register ((id, e) :: es) effs' in
      (es', (id, payload) :: out)
    end.

  Inductive bres : Type :=
  | BOk (s : bstate) (out : list (N * list byte))
  | BErr (e : berr) (s : bstate)
  | BPanic.

  Definition finish (a : app) (es : list (N * entry)) (effs : list effect) : bres :=
    let '(es', out) := register es effs in BOk {| core := a; entries := es' |} out.

  (* Bridge::process_event *)
  Definition process_event (s : bstate) (b : list byte) : bres :=
    match decode reg ev_fmt b with
    | None => BErr EDeserializeEvent s
    | Some (v, _) =>
      match on_event (core s) v with
      | CPanic => BPanic
      | CFinished => BPanic            (* not a possible answer to an event *)
      | CDone a effs => finish a (entries s) effs
      end
    end.

  (* Bridge::handle_response *)
  Definition handle_response (s : bstate) (id : N) (b : list byte) : bres :=
    match find_entry id (entries s) with
    | None => BErr ENever s
    | Some RNever => BErr ENever {| core := core s; entries := remove_entry id (entries s) |}
    | Some (ROnce f) =>
      (* the entry is turned into Never before the closure runs, and removed afterwards whatever it returns *)
      let es := remove_entry id (entries s) in
      match decode reg f b with
      | None => BErr EDeserializeOutput {| core := core s; entries := es |}
      | Some (v, _) =>
        match on_output (core s) id v with
        | CPanic => BPanic
        | CFinished => BPanic
        | CDone a effs => finish a es effs
        end
      end
    | Some (RMany f) =>
      match decode reg f b with
      | None => BErr EDeserializeOutput s
      | Some (v, _) =>
        match on_output (core s) id v with
        | CPanic => BPanic
        | CFinished => BErr EFinishedMany s
        | CDone a effs => finish a (entries s) effs
        end
      end
    end.

  (* histories *)
  Inductive input : Type := IEvent (b : list byte) | IResponse (id : N) (b : list byte).
  Definition step (s : bstate) (i : input) : bres :=
    match i with IEvent b => process_event s b | IResponse id b => handle_response s id b end.
  Definition state_after (s : bstate) (r : bres) : option bstate :=
    match r with BOk s' _ => Some s' | BErr _ s' => Some s' | BPanic => None end.
  Fixpoint run (s : bstate) (h : list input) : list bres :=
    match h with
    | [] => []
    | i :: h' =>
      let r := step s i in
      r :: match state_after s r with Some s' => run s' h' | None => [] end
    end.
End Bridge.

Arguments BOk {app}. Arguments BErr {app}. Arguments BPanic {app}.
Arguments CPanic {app}. Arguments CFinished {app}. Arguments CDone {app}.
Arguments core {app}. Arguments entries {app}.

(* ------------------------------------------------------------------ how much work decoding can be *)
(* the number of element-decoder invocations [iter_pos] makes (it stops at the first failure) *)
Fixpoint calls_pos (d : decoder) (p : positive) (s : dstate) : nat :=
  match p with
  | xH => 1
  | xO p' =>
    match iter_pos d p' s with
    | None => calls_pos d p' s
    | Some s' => calls_pos d p' s + calls_pos d p' s'
    end
  | xI p' =>
    match dstep d s with
    | None => 1
    | Some s1 =>
      S (match iter_pos d p' s1 with
         | None => calls_pos d p' s1
         | Some s2 => calls_pos d p' s1 + calls_pos d p' s2
         end)
    end
  end%nat.
Definition seq_attempts (d : decoder) (n : N) (b : list byte) : nat :=
  match n with N0 => O | Npos p => calls_pos d p ([], b) end.

(* least number of bytes an encoding of the format occupies *)
Section MinSize.
  Variable M : string -> nat.
  Fixpoint fmin (f : format) : nat :=
    match f with
    | FTypeName n => M n
    | FUnit => 0
    | FBool => 1
    | FInt _ w | FFloat w => wbytes w
    | FChar => 1
    | FStr | FBytes => 8
    | FOption _ => 1
    | FSeq _ | FMap _ _ => 8
    | FTuple fs => fold_right (fun f acc => fmin f + acc) 0 fs
    | FTupleArray f' n => n * fmin f'
    end%nat.
  Definition fsmin (fs : list format) : nat := fold_right (fun f acc => fmin f + acc)%nat O fs.
  Definition fields_min (fields : list (string * format)) : nat :=
    fold_right (fun nf acc => fmin (snd nf) + acc)%nat O fields.
  Definition cmin (c : container) : nat :=
    match c with
    | CUnitStruct => 0
    | CNewType f => fmin f
    | CTupleStruct fs => fsmin fs
    | CStruct fields => fields_min fields
    | CEnum _ => 4
    end%nat.

  (* every sequence / map element occupies at least one byte *)
  Fixpoint fseq_ok (f : format) : bool :=
    match f with
    | FSeq f' => Nat.ltb 0 (fmin f') && fseq_ok f'
    | FMap k v => Nat.ltb 0 (fmin k + fmin v) && fseq_ok k && fseq_ok v
    | FOption f' | FTupleArray f' _ => fseq_ok f'
    | FTuple fs => forallb fseq_ok fs
    | _ => true
    end.
  Definition vseq_ok (v : variant) : bool :=
    match v with
    | VarUnit => true
    | VarNewType f => fseq_ok f
    | VarTuple fs => forallb fseq_ok fs
    | VarStruct fields => forallb (fun nf => fseq_ok (snd nf)) fields
    end.
  Definition cseq_ok (c : container) : bool :=
    match c with
    | CUnitStruct => true
    | CNewType f => fseq_ok f
    | CTupleStruct fs => forallb fseq_ok fs
    | CStruct fields => forallb (fun nf => fseq_ok (snd nf)) fields
    | CEnum vs => forallb (fun e => vseq_ok (snd (snd e))) vs
    end.
End MinSize.

Fixpoint rmin (reg : registry) (name : string) : nat :=
  match reg with
  | [] => O
  | (n, c) :: reg' => if String.eqb name n then cmin (rmin reg') c else rmin reg' name
  end.

(* no registered type contains a sequence of zero-sized elements (for such a type a huge length
   prefix would make bincode loop that many times without consuming input) *)
Fixpoint no_zst_seq (reg : registry) : bool :=
  match reg with
  | [] => true
  | (_, c) :: reg' => cseq_ok (rmin reg') c && no_zst_seq reg'
  end.

(* ------------------------------------------------------------------ allocation *)
(* serde 1.0.219 de/size_hint.rs `cautious`: what a `Vec<T>` visitor reserves up front for a sequence
   whose length prefix says [hint] (bincode passes the prefix as the size hint): never more than 1 MiB,
   whatever the prefix says.  Strings and byte buffers are only taken after the slice reader has
   checked the length against what is left ([take_bytes]). *)
Definition MAX_PREALLOC_BYTES : N := 1048576.
Definition cautious (hint elem_size : N) : N :=
  if N.eqb elem_size 0 then 0%N else N.min hint (MAX_PREALLOC_BYTES / elem_size)%N.

(* ------------------------------------------------------------------ the crux_kv instance *)
From Crux Require Import Wire.Kv.
(* a bridge whose only outstanding request is a key-value call [c] made through crux_kv: the
   continuation is crux_kv's unwrap function for that call (a panic there would be a panic of
   Bridge::handle_response; since fix e5ed299 there is none) *)
Definition kv_continuation (c : call) (_ : unit) (_ : N) (v : value) : core_res unit :=
  match result_of_v v with
  | Some r => match deliver Command c r with Panicked => CPanic | _ => CDone tt [] end
  | None => CDone tt []   (* not reachable from Rust: a deserialized KeyValueResult is one *)
  end.
Definition kv_waiting : bstate unit := {| core := tt; entries := [(0%N, ROnce F_result)] |}.
Definition kv_respond (reg : registry) (c : call) (b : list byte) : bres unit :=
  handle_response reg unit (kv_continuation c) (fun _ => 1%N) kv_waiting 0%N b.
