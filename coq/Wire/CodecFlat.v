(* The dependency-ordered reading of a registry (a name is resolved in the rest of the list) coincides
   with the flat one (a Registry is a map from names to containers, every name resolved globally)
   whenever the registry is well-formed: the ordered codec is a solution of the flat equations
     codec(name) = container_codec(lookup name)  with every inner name read by codec again. *)
From Coq Require Import String List ZArith NArith Bool Lia.
From Crux Require Import Wire.Codec Wire.CodecProofs.
Import ListNotations.

Definition codec_eq (c1 c2 : codec) : Prop :=
  (forall v, ctyp c1 v = ctyp c2 v) /\ (forall v, cenc c1 v = cenc c2 v) /\ (forall b, cdec c1 b = cdec c2 b).

Lemma codec_eq_refl c : codec_eq c c.
Proof. repeat split. Qed.
Lemma codec_eq_trans a b c : codec_eq a b -> codec_eq b c -> codec_eq a c.
Proof. intros (A1 & A2 & A3) (B1 & B2 & B3). repeat split; intros; congruence. Qed.
Lemma codec_eq_sym a b : codec_eq a b -> codec_eq b a.
Proof. intros (A1 & A2 & A3). repeat split; intros; congruence. Qed.

Lemma option_eq c1 c2 : codec_eq c1 c2 -> codec_eq (option_codec c1) (option_codec c2).
Proof.
  intros (T & E & D). repeat split; intros x; cbn [option_codec ctyp cenc cdec].
  - destruct x; auto.
  - destruct x; auto. now rewrite E.
  - destruct x as [|y r]; [reflexivity|]. destruct (N_of_byte y =? 0)%N; [reflexivity|].
    destruct (N_of_byte y =? 1)%N; [|reflexivity]. now rewrite D.
Qed.

Lemma dstep_eq d1 d2 s : (forall b, d1 b = d2 b) -> dstep d1 s = dstep d2 s.
Proof. intros H. unfold dstep. now rewrite H. Qed.
Lemma iter_pos_eq d1 d2 : (forall b, d1 b = d2 b) -> forall p s, iter_pos d1 p s = iter_pos d2 p s.
Proof.
  intros H. induction p as [p IH|p IH|]; intros s; cbn [iter_pos].
  - rewrite (dstep_eq d1 d2 s H). destruct (dstep d2 s) as [s1|]; [|reflexivity].
    rewrite IH. destruct (iter_pos d2 p s1); [apply IH|reflexivity].
  - rewrite IH. destruct (iter_pos d2 p s); [apply IH|reflexivity].
  - apply dstep_eq, H.
Qed.

Lemma seq_eq c1 c2 : codec_eq c1 c2 -> codec_eq (seq_codec c1) (seq_codec c2).
Proof.
  intros (T & E & D). repeat split; intros x; cbn [seq_codec ctyp cenc cdec].
  - destruct x; auto. f_equal. induction vs as [|v vs IH]; cbn [forallb]; [reflexivity|]. now rewrite T, IH.
  - destruct x; auto. f_equal. induction vs as [|v vs IH]; cbn [flat_map]; [reflexivity|]. now rewrite E, IH.
  - destruct (u64_dec x) as [[n r]|]; [|reflexivity]. unfold dec_count. destruct n as [|p]; [reflexivity|].
    now rewrite (iter_pos_eq _ _ D).
Qed.

Lemma tuple_eq cs1 cs2 : Forall2 codec_eq cs1 cs2 -> codec_eq (tuple_codec cs1) (tuple_codec cs2).
Proof.
  intros HF. repeat split; intros x; cbn [tuple_codec ctyp cenc cdec].
  - destruct x as [| | | | | |vs|]; auto. revert vs. induction HF as [|c1 c2 l1 l2 (T & _ & _) _ IH]; intros vs; cbn [tuple_typ]; [reflexivity|].
    destruct vs as [|v vs]; [reflexivity|]. now rewrite T, IH.
  - destruct x as [| | | | | |vs|]; auto. revert vs. induction HF as [|c1 c2 l1 l2 (_ & E & _) _ IH]; intros vs; cbn [tuple_enc]; [reflexivity|].
    destruct vs as [|v vs]; [reflexivity|]. now rewrite E, IH.
  - enough (H : tuple_dec cs1 x = tuple_dec cs2 x) by now rewrite H.
    revert x. induction HF as [|c1 c2 l1 l2 (_ & _ & D) _ IH]; intros x; cbn [tuple_dec]; [reflexivity|].
    rewrite D. destruct (cdec c2 x) as [[v r]|]; [|reflexivity]. now rewrite IH.
Qed.

Lemma repeat_Forall2 {A} (P : A -> A -> Prop) x y n : P x y -> Forall2 P (repeat x n) (repeat y n).
Proof. intros H. induction n; cbn; constructor; auto. Qed.

Section Ext.
  Variables R1 R2 : string -> codec.

  Lemma fcodec_ext f : (forall n, In n (frefs f) -> codec_eq (R1 n) (R2 n)) -> codec_eq (fcodec R1 f) (fcodec R2 f).
  Proof.
    induction f using format_ind'; intros HR; cbn [fcodec]; try apply codec_eq_refl.
    - apply HR. cbn. auto.
    - apply option_eq. apply IHf. exact HR.
    - apply seq_eq. apply IHf. exact HR.
    - apply seq_eq. apply tuple_eq. cbn [frefs] in HR. constructor; [|constructor; [|constructor]].
      + apply IHf1. intros n Hn. apply HR. apply in_or_app. auto.
      + apply IHf2. intros n Hn. apply HR. apply in_or_app. auto.
    - apply tuple_eq. cbn [frefs] in HR. induction H as [|f fs Hf _ IH]; cbn [map]; constructor.
      + apply Hf. intros n Hn. apply HR. cbn [flat_map]. apply in_or_app. auto.
      + apply IH. intros n Hn. apply HR. cbn [flat_map]. apply in_or_app. auto.
    - apply tuple_eq. apply repeat_Forall2. apply IHf. exact HR.
  Qed.

  Lemma flist_ext fs : (forall n, In n (flat_map frefs fs) -> codec_eq (R1 n) (R2 n)) ->
    codec_eq (tuple_codec (map (fcodec R1) fs)) (tuple_codec (map (fcodec R2) fs)).
  Proof.
    intros HR. apply tuple_eq. induction fs as [|f fs IH]; cbn [map]; constructor.
    - apply fcodec_ext. intros n Hn. apply HR. cbn [flat_map]. apply in_or_app. auto.
    - apply IH. intros n Hn. apply HR. cbn [flat_map]. apply in_or_app. auto.
  Qed.

  Lemma fields_ext fields : (forall n, In n (flat_map (fun nf => frefs (snd nf)) fields) -> codec_eq (R1 n) (R2 n)) ->
    codec_eq (fields_codec R1 fields) (fields_codec R2 fields).
  Proof.
    intros HR. apply tuple_eq. induction fields as [|x l IH]; cbn [map]; constructor.
    - apply fcodec_ext. intros n Hn. apply HR. cbn [flat_map]. apply in_or_app. auto.
    - apply IH. intros n Hn. apply HR. cbn [flat_map]. apply in_or_app. auto.
  Qed.

  Lemma vcodec_ext v : (forall n, In n (vrefs v) -> codec_eq (R1 n) (R2 n)) -> codec_eq (vcodec R1 v) (vcodec R2 v).
  Proof.
    destruct v; cbn [vcodec vrefs]; intros HR.
    - apply codec_eq_refl.
    - now apply fcodec_ext.
    - now apply flist_ext.
    - now apply fields_ext.
  Qed.

  Lemma enum_ext vs : (forall n, In n (flat_map (fun e => vrefs (snd (snd e))) vs) -> codec_eq (R1 n) (R2 n)) ->
    codec_eq (enum_codec R1 vs) (enum_codec R2 vs).
  Proof.
    intros HR.
    assert (HV : forall idx va, find_variant vs idx = Some va -> codec_eq (vcodec R1 va) (vcodec R2 va)).
    { induction vs as [|[i [nm va0]] vs' IH]; intros idx va; cbn [find_variant]; [discriminate|].
      destruct (i =? idx)%N.
      - intros E; inversion E; subst. apply vcodec_ext. intros n Hn. apply HR. cbn [flat_map snd]. apply in_or_app. auto.
      - apply IH. intros n Hn. apply HR. cbn [flat_map]. apply in_or_app. auto. }
    repeat split; intros x; cbn [enum_codec ctyp cenc cdec].
    - destruct x; auto. destruct (find_variant vs idx) as [va|] eqn:F; [|reflexivity].
      destruct (HV _ _ F) as (T & _ & _). now rewrite T.
    - destruct x; auto. destruct (find_variant vs idx) as [va|] eqn:F; [|reflexivity].
      destruct (HV _ _ F) as (_ & E & _). now rewrite E.
    - destruct (u32_dec x) as [[idx r]|]; [|reflexivity]. destruct (find_variant vs idx) as [va|] eqn:F; [|reflexivity].
      destruct (HV _ _ F) as (_ & _ & D). now rewrite D.
  Qed.

  Lemma ccodec_ext c : (forall n, In n (crefs c) -> codec_eq (R1 n) (R2 n)) -> codec_eq (ccodec R1 c) (ccodec R2 c).
  Proof.
    destruct c; cbn [ccodec crefs]; intros HR.
    - apply codec_eq_refl.
    - now apply fcodec_ext.
    - now apply flist_ext.
    - now apply fields_ext.
    - now apply enum_ext.
  Qed.
End Ext.

(* ------------------------------------------------------------------ well-formed registries *)
Lemma mem_name_In n l : mem_name n l = true <-> In n l.
Proof.
  unfold mem_name. rewrite existsb_exists. split.
  - intros (x & Hx & E). apply String.eqb_eq in E. now subst.
  - intros H. exists n. split; [exact H|apply String.eqb_refl].
Qed.

Lemma rcodec_skip m c reg name : name <> m -> rcodec ((m, c) :: reg) name = rcodec reg name.
Proof. intros H. cbn [rcodec]. destruct (String.eqb name m) eqn:E; [apply String.eqb_eq in E; contradiction|reflexivity]. Qed.

Lemma lookup_refs_defined reg : wf_registry reg = true -> forall n c, lookup reg n = Some c ->
  forall x, In x (crefs c) -> In x (names reg).
Proof.
  induction reg as [|[m c0] reg IH]; intros W n c L x Hx; cbn [lookup] in L; [discriminate|].
  cbn [wf_registry] in W. apply andb_prop in W as [W W4]. apply andb_prop in W as [W W3]. apply andb_prop in W as [W1 W2].
  cbn [names map fst]. right.
  destruct (String.eqb n m).
  - inversion L; subst c0. rewrite forallb_forall in W2. apply mem_name_In. now apply W2.
  - exact (IH W4 n c L x Hx).
Qed.

Theorem flat_resolution reg : wf_registry reg = true -> forall n c, lookup reg n = Some c ->
  codec_eq (rcodec reg n) (ccodec (rcodec reg) c).
Proof.
  induction reg as [|[m c0] reg IH]; intros W n c L; cbn [lookup] in L; [discriminate|].
  pose proof W as W'. cbn [wf_registry] in W. apply andb_prop in W as [W W4]. apply andb_prop in W as [W W3]. apply andb_prop in W as [W1 W2].
  assert (Hm : ~ In m (names reg)).
  { intros H. apply mem_name_In in H. rewrite H in W1. discriminate. }
  (* every name defined in the tail reads the same in the tail and in the whole list *)
  assert (Htail : forall x, In x (names reg) -> codec_eq (rcodec reg x) (rcodec ((m, c0) :: reg) x)).
  { intros x Hx. rewrite rcodec_skip; [apply codec_eq_refl|]. intros ->. contradiction. }
  cbn [rcodec]. destruct (String.eqb n m) eqn:E.
  - inversion L; subst c0. apply ccodec_ext. intros x Hx. apply Htail.
    rewrite forallb_forall in W2. apply mem_name_In. now apply W2.
  - eapply codec_eq_trans; [apply (IH W4 n c L)|]. apply ccodec_ext. intros x Hx. apply Htail.
    exact (lookup_refs_defined reg W4 n c L x Hx).
Qed.

(* an unknown name has no values; a known one has exactly the values of its container *)
Corollary unknown_name_empty reg n : lookup reg n = None -> forall v, has_type_b reg (FTypeName n) v = false.
Proof.
  unfold has_type_b. cbn [fcodec]. induction reg as [|[m c] reg IH]; cbn [lookup rcodec]; [reflexivity|].
  destruct (String.eqb n m); [discriminate|exact IH].
Qed.
