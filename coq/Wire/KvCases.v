(* Trace predicate and verdicts for C17 case files. *)
From Coq Require Import String List ZArith NArith Bool.
From Crux Require Import Wire.Codec Wire.Cases Wire.Kv.
Import ListNotations.
Local Open Scope N_scope.

(* decidable equality of protocol values *)
Fixpoint keys_eqb (a b : list bytes) : bool :=
  match a, b with
  | [], [] => true
  | x :: a', y :: b' => bytes_eqb x y && keys_eqb a' b'
  | _, _ => false
  end.
Definition op_eqb (a b : kv_op) : bool :=
  match a, b with
  | OGet k, OGet k' | ODelete k, ODelete k' | OExists k, OExists k' => bytes_eqb k k'
  | OSet k v, OSet k' v' => bytes_eqb k k' && bytes_eqb v v'
  | OListKeys p c, OListKeys p' c' => bytes_eqb p p' && (c =? c')
  | _, _ => false
  end.
Fixpoint ops_eqb (a b : list kv_op) : bool :=
  match a, b with
  | [], [] => true
  | x :: a', y :: b' => op_eqb x y && ops_eqb a' b'
  | _, _ => false
  end.
Definition error_eqb (a b : kv_error) : bool :=
  match a, b with
  | EIo m, EIo m' | EOther m, EOther m' => bytes_eqb m m'
  | ETimeout, ETimeout | ECursorNotFound, ECursorNotFound => true
  | _, _ => false
  end.
Definition payload_eqb (a b : payload) : bool :=
  match a, b with
  | PData None, PData None => true
  | PData (Some x), PData (Some y) => bytes_eqb x y
  | PStatus x, PStatus y => Bool.eqb x y
  | PKeys k c, PKeys k' c' => keys_eqb k k' && (c =? c')
  | _, _ => false
  end.

(* what the harness saw: the key-value operations among the effects of the event, how many effects
   of any other kind came with them, and what the app was handed afterwards *)
Inductive seen : Type :=
| SDelivered (p : payload) | SFailed (e : kv_error) | SPanicked | SNothing.

Definition seen_eqb (o : outcome) (s : seen) : bool :=
  match o, s with
  | Delivered p, SDelivered p' => payload_eqb p p'
  | Failed e, SFailed e' => error_eqb e e'
  | Panicked, SPanicked => true
  | _, _ => false
  end.

(* C17_ok: exactly one operation, of the call's kind, carrying the call's arguments unchanged, and
   nothing else; the matching response reaches the app unchanged (absent stays distinct from empty),
   an error is passed through, and a response of another kind is neither turned into some value nor
   allowed to panic the core: the app is told (KeyValueError::Other "unexpected response: ...") *)
Definition expected (c : call) (r : kv_result) : outcome :=
  match r with
  | KErr e => Failed e
  | KOk x => if kind_eqb (response_kind x) (call_kind c) then Delivered (payload_of_response x)
             else Failed (mismatch_error (call_kind c))
  end.
Definition C17_ok (c : call) (r : kv_result) (ops : list kv_op) (others : N) (s : seen) : bool :=
  ops_eqb ops [op_of_call c] && (others =? 0) && seen_eqb (expected c r) s.

Definition verdict_typed (a : api) (c : call) (r : kv_result) (ops : list kv_op) (others : N) (s : seen) : N :=
  let '(mops, mout) := exchange_typed a c r in
  let agree := ops_eqb ops mops && seen_eqb mout s in
  if C17_ok c r ops others s then (if agree then 0 else 1) else 2.

(* bridge path: the request batch as bytes (decoded here, under the regenerated schema), the bytes the
   harness' Rust shell wrote for the result, and what the app was handed *)
Fixpoint variant_named (vs : list (N * (string * variant))) (name : string) : option N :=
  match vs with
  | [] => None
  | (i, (n, _)) :: vs' => if String.eqb n name then Some i else variant_named vs' name
  end.
(* index of the effect variant that carries key-value operations, read off the schema *)
Definition kv_effect_index (reg : registry) : option N :=
  match lookup reg "Effect" with Some (CEnum vs) => variant_named vs "KeyValue" | _ => None end.

Definition kv_ops_of_batch (reg : registry) (b : list byte) : option (list kv_op * N) :=
  match kv_effect_index reg, decode reg (FSeq (FTypeName "Request")) b with
  | Some kv, Some (VList reqs, []) =>
    fold_right (fun rq acc =>
                  match acc, rq with
                  | Some (ops, others), VList [VInt _; VEnum i vo] =>
                    if i =? kv then match op_of_v vo with Some o => Some (o :: ops, others) | None => None end
                    else Some (ops, others + 1)
                  | _, _ => None
                  end) (Some ([], 0)) reqs
  | _, _ => None
  end.

Definition verdict_bridge (reg : registry) (a : api) (c : call) (r : kv_result)
           (batch : list byte) (written : list byte) (s : seen) : N :=
  match kv_ops_of_batch reg batch with
  | None => 2
  | Some (ops, others) =>
    let '(mops, mout) := exchange_bridge reg a c r in
    let agree := match mout with Some o => seen_eqb o s | None => false end
                 && bytes_eqb written (shell_writes reg r)
                 && ops_eqb ops (flat_map (fun o => match o with Some x => [x] | None => [] end) mops) in
    if C17_ok c r ops others s then (if agree then 0 else 1) else 2
  end.
