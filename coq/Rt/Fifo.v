(* The output queues of a command are FIFO queues, through every function of the runtime, on every command, at
   every nesting level: whatever runs (a poll, Stream::poll_next of any command, run_until_settled, a wake, drop
   glue), the event queue and the effect queue of every command change only by losing elements at the FRONT and
   gaining elements at the BACK.  So what one command emits is handed to its host in emission order, nothing is
   inserted in the middle, nothing is reordered (C03: per-command event order; C01: effects likewise).
   An instance of the primitive-aware frame principle (Frame2.v). *)
From Coq Require Import List Arith Bool Lia.
From Crux Require Import Rt.Lang Rt.Rt Rt.Tables Rt.Frame Rt.Frame2.
Import ListNotations.

(* new = (a suffix of old) ++ (something appended) *)
Definition fifo {A} (old new : list A) : Prop := exists d k a, old = d ++ k /\ new = k ++ a.
Lemma fifo_refl {A} (l : list A) : fifo l l.
Proof. exists [], l, []. split; [reflexivity | symmetry; apply app_nil_r]. Qed.
Lemma fifo_trans {A} (a b c : list A) : fifo a b -> fifo b c -> fifo a c.
Proof.
  intros (d1 & k1 & a1 & E1 & E2) (d2 & k2 & a2 & E3 & E4). subst a c.
  rewrite E3 in E2. symmetry in E2. apply app_eq_app in E2 as [l [[-> ->]|[-> ->]]].
  - exists (d1 ++ d2), l, (a1 ++ a2). split; rewrite <- ?app_assoc; reflexivity.
  - exists (d1 ++ k1), [], (k2 ++ a2). split; [rewrite app_nil_r; reflexivity | reflexivity].
Qed.
Lemma fifo_push {A} (l : list A) x : fifo l (l ++ [x]).
Proof. exists [], l, [x]. split; reflexivity. Qed.
Lemma fifo_pop {A} (x : A) l : fifo (x :: l) l.
Proof. exists [x], l, []. split; [reflexivity | symmetry; apply app_nil_r]. Qed.
Lemma fifo_clear {A} (l : list A) : fifo l [].
Proof. exists l, [], []. split; [symmetry; apply app_nil_r | reflexivity]. Qed.
Lemma fifo_from_nil {A} (l : list A) : fifo [] l.
Proof. exists [], [], l. split; reflexivity. Qed.

Definition Rfifo (H H' : heap) : Prop :=
  forall c, fifo (c_evs (gcmd c H)) (c_evs (gcmd c H')) /\ fifo (c_eff (gcmd c H)) (c_eff (gcmd c H')).
Lemma Rfifo_refl H : Rfifo H H. Proof. intros c; split; apply fifo_refl. Qed.
Lemma Rfifo_trans a b c : Rfifo a b -> Rfifo b c -> Rfifo a c.
Proof. intros A B x. destruct (A x) as (A1 & A2). destruct (B x) as (B1 & B2). split; eapply fifo_trans; eassumption. Qed.
Lemma Rfifo_same H H' : cmds H' = cmds H -> Rfifo H H'.
Proof. intros E c. unfold gcmd. rewrite E. split; apply fifo_refl. Qed.

Lemma prim_fifo f : prim f -> forall cm, fifo (c_evs cm) (c_evs (f cm)) /\ fifo (c_eff cm) (c_eff (f cm)).
Proof.
  intros P cm. destruct P; unfold spawn_one, slab_insert, slab_set, slab_remove, slab_clear, set_slab,
    set_ready, set_spawnq, set_eff, set_evs, set_atomic, set_alive; destruct cm; simpl;
    repeat match goal with |- context[if ?b then _ else _] => destruct b end; simpl;
    (split; first [apply fifo_refl | apply fifo_push | apply fifo_clear]).
Qed.

Lemma Rfifo_ucmd_at c f H :
  (fifo (c_evs (gcmd c H)) (c_evs (f (gcmd c H))) /\ fifo (c_eff (gcmd c H)) (c_eff (f (gcmd c H)))) -> Rfifo H (ucmd c f H).
Proof.
  intros Hf c'. destruct (Nat.eq_dec c c') as [->|Hn].
  - rewrite gcmd_ucmd_same. exact Hf.
  - rewrite gcmd_ucmd_other by exact Hn. split; apply fifo_refl.
Qed.
Lemma Rfifo_ucmd c f H : prim f -> Rfifo H (ucmd c f H).
Proof. intros P. apply Rfifo_ucmd_at. apply prim_fifo, P. Qed.
Lemma Rfifo_pop_ev c e rest H : c_evs (gcmd c H) = e :: rest -> Rfifo H (ucmd c (set_evs rest) H).
Proof.
  intros E. apply Rfifo_ucmd_at. rewrite E. destruct (gcmd c H); unfold set_evs; simpl. split; [apply fifo_pop | apply fifo_refl].
Qed.
Lemma Rfifo_pop_eff c e rest H : c_eff (gcmd c H) = e :: rest -> Rfifo H (ucmd c (set_eff rest) H).
Proof.
  intros E. apply Rfifo_ucmd_at. rewrite E. destruct (gcmd c H); unfold set_eff; simpl. split; [apply fifo_refl | apply fifo_pop].
Qed.
Lemma Rfifo_add_cmd cn H : Rfifo H (mkH (chans H) (tfl H) (cmds H ++ [cn]) (woken H) (xready H) (aborted H) (log H) (hout H)).
Proof.
  intros c. unfold gcmd, getd; cbn [cmds]. destruct (lt_dec c (length (cmds H))) as [L|G].
  - rewrite app_nth1 by exact L. split; apply fifo_refl.
  - rewrite (nth_overflow (cmds H)) by lia. cbn [cmd0 c_evs c_eff]. split; apply fifo_from_nil.
Qed.

Definition frame_fifo := frame_all Rfifo Rfifo_refl Rfifo_trans Rfifo_ucmd Rfifo_pop_ev Rfifo_pop_eff
  (fun c f H _ => Rfifo_same H (uch c f H) eq_refl)
  (fun u f H _ => Rfifo_same H (utf u f H) eq_refl)
  (fun n H => Rfifo_same H (note n H) eq_refl)
  (fun g H => Rfifo_same H (set_woken g H) eq_refl)
  (fun q H => Rfifo_same H (push_xready q H) eq_refl)
  (fun c H => Rfifo_same H (mkH (chans H ++ [c]) (tfl H) (cmds H) (woken H) (xready H) (aborted H) (log H) (hout H)) eq_refl)
  (fun t H => Rfifo_same H (mkH (chans H) (tfl H ++ [t]) (cmds H) (woken H) (xready H) (aborted H) (log H) (hout H)) eq_refl)
  (fun H => Rfifo_same H (mkH (chans H) (tfl H) (cmds H) (woken H ++ [false]) (xready H) (aborted H) (log H) (hout H)) eq_refl)
  (fun n H => Rfifo_same H (add_aborted n H) eq_refl)
  (fun e H => Rfifo_same H (push_hout e H) eq_refl)
  Rfifo_add_cmd.

Theorem fifo_settle fuel cid H H' : settle fuel cid H = Some H' -> Rfifo H H'.
Proof. apply (frame_fifo fuel). Qed.
Theorem fifo_poll_next fuel cid w H r H' : poll_next fuel cid w H = Some (r, H') -> Rfifo H H'.
Proof. apply (frame_fifo fuel). Qed.
Theorem fifo_poll fuel c w fs H r H' : poll fuel c w fs H = Some (r, H') -> Rfifo H H'.
Proof. apply (frame_fifo fuel). Qed.
Theorem fifo_run_task fuel cid s H r H' : run_task fuel cid s H = Some (r, H') -> Rfifo H H'.
Proof. apply (frame_fifo fuel). Qed.

(* what Stream::poll_next hands to the host is the FIRST element of the command's queue at that moment
   (events before effects), and exactly that element leaves the queue *)
Theorem poll_next_hands_over_the_head : forall fuel cid w H r H',
  poll_next (S fuel) cid w H = Some (r, H') ->
  exists H1, settle fuel cid (ucmd cid (set_atomic (Some w)) H) = Some H1 /\
    match r with
    | PNEvent e => exists rest, c_evs (gcmd cid H1) = e :: rest /\ H' = ucmd cid (set_evs rest) H1
    | PNEffect e => exists rest, c_evs (gcmd cid H1) = [] /\ c_eff (gcmd cid H1) = e :: rest /\ H' = ucmd cid (set_eff rest) H1
    | _ => c_evs (gcmd cid H1) = [] /\ c_eff (gcmd cid H1) = []
    end.
Proof.
  intros fuel cid w H r H' E. unfold poll_next in E. cbn [funs step_funs rpoll_next] in E. unfold poll_next_body in E.
  unfold settle. destruct (rsettle (funs fuel) cid (ucmd cid (set_atomic (Some w)) H)) as [H1|]; [|discriminate].
  exists H1. split; [reflexivity|].
  destruct (c_evs (gcmd cid H1)) as [|ev evs].
  - destruct (c_eff (gcmd cid H1)) as [|ef efs].
    + destruct (rsettle (funs fuel) cid H1) as [H2|]; [|discriminate].
      destruct (c_eff (gcmd cid H2)); [destruct (c_evs (gcmd cid H2)); [destruct (c_len (gcmd cid H2) =? 0)|]|];
        inversion E; subst; split; reflexivity.
    + inversion E; subst. exists efs. repeat split; reflexivity.
  - inversion E; subst. exists evs. split; reflexivity.
Qed.

(* One hop of the way up: the future that hosts command x inside a task of command c.  When x's Stream::poll_next
   yields an item - by the theorem above the head of x's queue, which thereby leaves it - the host appends exactly
   that item (through its effect / event mapping) to the BACK of c's queue, once, and goes on polling. *)
Theorem host_hop_effect : forall f c w fs H x meff mev k e H1,
  f_leaf fs = LHost x meff mev k -> poll_next f x w H = Some (PNEffect e, H1) ->
  poll (S f) c w fs H = poll f c w fs (push_eff c (map_eff meff e) H1).
Proof.
  intros f c w fs H x meff mev k e H1 EL E. unfold poll, poll_next in *. cbn [funs step_funs rpoll]. unfold poll_body.
  rewrite EL. rewrite E. reflexivity.
Qed.
Theorem host_hop_event : forall f c w fs H x meff mev k e H1,
  f_leaf fs = LHost x meff mev k -> poll_next f x w H = Some (PNEvent e, H1) ->
  poll (S f) c w fs H = poll f c w fs (push_ev c (map_ev mev e) H1).
Proof.
  intros f c w fs H x meff mev k e H1 EL E. unfold poll, poll_next in *. cbn [funs step_funs rpoll]. unfold poll_body.
  rewrite EL. rewrite E. reflexivity.
Qed.
Lemma push_eff_appends c e H : c_eff (gcmd c (push_eff c e H)) = c_eff (gcmd c H) ++ [e].
Proof. unfold push_eff. rewrite gcmd_ucmd_same. destruct (gcmd c H); reflexivity. Qed.
Lemma push_ev_appends c e H : c_evs (gcmd c (push_ev c e H)) = c_evs (gcmd c H) ++ [e].
Proof. unfold push_ev. rewrite gcmd_ucmd_same. destruct (gcmd c H); reflexivity. Qed.
