(* Eviction soundness, the hosting leaf (C07; C05 "no live subscription is torn down between layers"):
   a task that hosts a command is never discarded as unwakeable.

   Stream::poll_next registers the host's waker in the hosted command's AtomicWaker before anything runs;
   the only thing that ever empties that cell is a wake of one of the hosted command's tasks, which then
   wakes the registered waker - and a CommandWaker marks itself woken before it does anything else.  So when
   the hosting task's poll returns Pending, either the cell still holds this poll's waker (a clone survives:
   strong count >= 2) or the waker was woken during the poll; in both cases run_task answers Suspended.

   The argument needs one structural fact about heaps: nobody polls a hosted command except its host.  In the
   flat heap of the model that is the ORDER invariant "a task of command c only ever hosts commands with a
   larger id" (a hosted command is created after its host's command), which every runtime step preserves; it
   implies that settling command x only ever polls commands above x, hence never re-registers x's cell. *)
From Coq Require Import List Arith Bool Lia.
From Crux Require Import Rt.Lang Rt.Rt Rt.Tables Rt.Frame Rt.Props Rt.Evict Rt.Perm.
Import ListNotations.

Definition host_gt (c : nat) (fs : fstate) : Prop :=
  match f_leaf fs with LHost x _ _ _ => c < x | _ => True end.
Definition tasks_of (cm : cmdst) (t : trec) : Prop := In (Occ t) (c_ent cm) \/ In t (c_spawnq cm).
(* ... and the cell of a command only ever holds a waker of a command created earlier (its host's) or of the executor *)
Definition waker_lt (w : waker) (x : nat) : Prop := match w with WCmd c _ _ => c < x | WExec _ => True end.
Definition waker_in (c : nat) (w : waker) : Prop := match w with WCmd c' _ _ => c' = c | WExec _ => True end.
Definition OrdH (H : heap) : Prop :=
  (forall c t, tasks_of (gcmd c H) t -> host_gt c (t_fs t)) /\
  (forall z w, c_atomic (gcmd z H) = Some w -> waker_lt w z).

(* the cell of command P still holds w0, or w0 has been woken *)
(* "w has been woken": the flag of the poll it belongs to is set, or - for the waker of an executor task - the task
   is in the executor's ready queue *)
Definition wokenx (w : waker) (H : heap) : Prop :=
  match w with WCmd _ _ g => getd false g (woken H) = true | WExec q => In q (xready H) end.
Definition Rwx (H H' : heap) : Prop := Rwoken H H' /\ incl (xready H) (xready H').
Lemma Rwx_refl H : Rwx H H. Proof. split; [apply Rwoken_refl | apply incl_refl]. Qed.
Lemma Rwx_trans a b c : Rwx a b -> Rwx b c -> Rwx a c.
Proof. intros (A1 & A2) (B1 & B2). split; [eapply Rwoken_trans; eassumption | eapply incl_tran; eassumption]. Qed.
Lemma Rwx_same H H' : woken H' = woken H -> xready H' = xready H -> Rwx H H'.
Proof. intros E1 E2. split; [apply Rwoken_same; exact E1 | rewrite E2; apply incl_refl]. Qed.
Lemma wokenx_woken_of w H : wokenx w H -> woken_of w H.
Proof. destruct w; [intros X; exact X | intros _; exact I]. Qed.
Definition Q (P : nat) (w0 : waker) (H : heap) : Prop := c_atomic (gcmd P H) = Some w0 \/ wokenx w0 H.

(* what a step may do: keep the order invariant, keep Q, never shrink the command table *)
Definition St (P : nat) (w0 : waker) (H H' : heap) : Prop :=
  (OrdH H -> OrdH H') /\ (Q P w0 H -> Q P w0 H') /\ length (cmds H) <= length (cmds H').

Section Steps.
  Variables (P : nat) (w0 : waker).
  Notation St := (St P w0).
  Notation Q := (Q P w0).

  Lemma St_refl H : St H H. Proof. split; [auto | split; [auto | apply le_n]]. Qed.
  Lemma St_trans a b c : St a b -> St b c -> St a c.
  Proof. intros (A1 & A2 & A3) (B1 & B2 & B3). split; [auto | split; [auto | lia]]. Qed.

  Lemma woken_of_mono H H' : Rwx H H' -> wokenx w0 H -> wokenx w0 H'.
  Proof. intros (R & I). unfold wokenx. destruct w0; [apply R | apply I]. Qed.
  (* steps that leave the command table alone and only ever set woken flags *)
  Lemma St_cmds_same H H' : cmds H' = cmds H -> Rwx H H' -> St H H'.
  Proof.
    intros E R. split; [|split].
    - unfold OrdH, gcmd. rewrite E. auto.
    - intros [A|W]; [left; unfold gcmd in *; rewrite E; exact A | right; eapply woken_of_mono; eauto].
    - rewrite E. lia.
  Qed.
  Lemma St_same H H' : cmds H' = cmds H -> woken H' = woken H -> xready H' = xready H -> St H H'.
  Proof. intros E1 E2 E3. apply St_cmds_same; [exact E1 | apply Rwx_same; assumption]. Qed.

  (* an update of one command that keeps its cell and adds no task that breaks the order *)
  Lemma St_ucmd c f H :
    (forall cm, c_atomic (f cm) = c_atomic cm) ->
    (forall cm t, tasks_of (f cm) t -> tasks_of cm t \/ host_gt c (t_fs t)) -> St H (ucmd c f H).
  Proof.
    intros Fa Ft. split; [|split].
    - intros (O & Oa). split.
      + intros c' t T. destruct (Nat.eq_dec c c') as [->|Hne].
        * rewrite gcmd_ucmd_same in T. destruct (Ft _ _ T) as [T'|G]; [apply O; exact T' | exact G].
        * rewrite gcmd_ucmd_other in T by exact Hne. apply O; exact T.
      + intros z w A. destruct (Nat.eq_dec c z) as [->|Hne].
        * rewrite gcmd_ucmd_same, Fa in A. apply Oa; exact A.
        * rewrite gcmd_ucmd_other in A by exact Hne. apply Oa; exact A.
    - intros [A|W]; [left | right; exact W].
      destruct (Nat.eq_dec c P) as [->|Hne]; [rewrite gcmd_ucmd_same, Fa; exact A | rewrite gcmd_ucmd_other by exact Hne; exact A].
    - unfold ucmd; simpl. apply length_updd.
  Qed.
  (* ... in particular one that touches neither the cell nor the tasks *)
  Lemma St_ucmd_plain c f H :
    (forall cm, c_atomic (f cm) = c_atomic cm) -> (forall cm, c_ent (f cm) = c_ent cm) -> (forall cm, c_spawnq (f cm) = c_spawnq cm) ->
    St H (ucmd c f H).
  Proof. intros Fa Fe Fs. apply St_ucmd; [exact Fa|]. intros cm t T. left. unfold tasks_of in *. rewrite Fe, Fs in T. exact T. Qed.
  Ltac plain := apply St_ucmd_plain; intros cm; destruct cm; reflexivity.

  (* registering a waker in the cell of another command *)
  Lemma St_set_atomic c a H : c <> P -> match a with Some w => waker_lt w c | None => True end -> St H (ucmd c (set_atomic a) H).
  Proof.
    intros Hne Ha. split; [|split].
    - intros (O & Oa). split.
      + intros c' t T. destruct (Nat.eq_dec c c') as [->|Hn].
        * rewrite gcmd_ucmd_same in T. apply O. destruct (gcmd c' H); exact T.
        * rewrite gcmd_ucmd_other in T by exact Hn. apply O; exact T.
      + intros z w A. destruct (Nat.eq_dec c z) as [->|Hn].
        * rewrite gcmd_ucmd_same in A. destruct (gcmd z H); cbn in A. destruct a as [w'|]; [inversion A; subst; exact Ha | discriminate].
        * rewrite gcmd_ucmd_other in A by exact Hn. apply Oa; exact A.
    - intros [A|W]; [left; rewrite gcmd_ucmd_other by exact Hne; exact A | right; exact W].
    - unfold ucmd; simpl. apply length_updd.
  Qed.

  (* ---------- wake ---------- *)
  Lemma wake_sets_woken_any : forall f c s g H, getd false g (woken (wake f (WCmd c s g) H)) = true.
  Proof.
    intros f c s g H. destruct f as [|f]; unfold wake; fold wake;
      set (H1 := if c_alive (gcmd c H) then ucmd c (fun cm => set_ready (c_ready cm ++ [s]) cm) H else H);
      (assert (E : getd false g (woken (set_woken g H1)) = true) by (unfold set_woken; simpl; apply getd_updd_same));
      (destruct (c_atomic (gcmd c (set_woken g H1))) as [w'|]; [|exact E]).
    - exact E.
    - assert (R : Rwoken (set_woken g H1) (wake f w' (ucmd c (set_atomic None) (set_woken g H1)))).
      { eapply Rwoken_trans; [apply (Rwoken_same _ (ucmd c (set_atomic None) (set_woken g H1))); reflexivity|].
        apply (R_wake Rwoken Rwoken_refl Rwoken_trans (fun c f H _ => Rwoken_same H (ucmd c f H) eq_refl)
                 (fun n H => Rwoken_same H (note n H) eq_refl) Rwoken_set (fun q H => Rwoken_same H (push_xready q H) eq_refl)). }
      apply R, E.
  Qed.
  Lemma wake_exec f q H : wake f (WExec q) H = push_xready q H.
  Proof. destruct f; reflexivity. Qed.
  Lemma wake_woken_of f H : wokenx w0 (wake f w0 H).
  Proof.
    unfold wokenx. destruct w0 as [c s g|q]; [apply wake_sets_woken_any|].
    rewrite wake_exec. unfold push_xready; cbn [xready]. apply in_or_app. right. left. reflexivity.
  Qed.
  Lemma Rwoken_wake f w H : Rwoken H (wake f w H).
  Proof.
    apply (R_wake Rwoken Rwoken_refl Rwoken_trans (fun c f H _ => Rwoken_same H (ucmd c f H) eq_refl)
             (fun n H => Rwoken_same H (note n H) eq_refl) Rwoken_set (fun q H => Rwoken_same H (push_xready q H) eq_refl)).
  Qed.

  Lemma incl_xready_wake f w H : incl (xready H) (xready (wake f w H)).
  Proof.
    assert (X : Perm.Rxready H (wake f w H)).
    { apply (R_wake Perm.Rxready Perm.Rxready_refl Perm.Rxready_trans (fun c f H _ => Perm.Rxready_same H (ucmd c f H) eq_refl)
               (fun n H => Perm.Rxready_same H (note n H) eq_refl) (fun g H => Perm.Rxready_same H (set_woken g H) eq_refl)).
      intros q H0. exists [q]. reflexivity. }
    destruct X as [l E]. rewrite E. apply incl_appl, incl_refl.
  Qed.
  Lemma Rwx_wake f w H : Rwx H (wake f w H).
  Proof. split; [apply Rwoken_wake | apply incl_xready_wake]. Qed.

  Lemma wake_St : forall fuel w H, St H (wake fuel w H).
  Proof.
    induction fuel as [|f IH]; intros w H; unfold wake; fold wake;
      (destruct w as [c s g|q]; [|apply St_cmds_same; [reflexivity | split; [apply Rwoken_same; reflexivity | unfold push_xready; cbn [xready]; apply incl_appl, incl_refl]]]);
      set (H1 := if c_alive (gcmd c H) then ucmd c (fun cm => set_ready (c_ready cm ++ [s]) cm) H else H);
      (assert (S1 : St H H1) by (subst H1; destruct (c_alive (gcmd c H)); [plain | apply St_refl]));
      (assert (S2 : St H (set_woken g H1)) by (eapply St_trans; [exact S1 | apply St_cmds_same; [reflexivity | split; [apply Rwoken_set | apply incl_refl]]]));
      destruct (c_atomic (gcmd c (set_woken g H1))) as [w'|] eqn:EA; try (eapply St_trans; [exact S2 | apply St_same; reflexivity]).
    all: try exact S2.
    (* the cell is emptied and its waker woken *)
    set (H3 := ucmd c (set_atomic None) (set_woken g H1)) in *.
    destruct (Nat.eq_dec c P) as [->|Hne].
    - (* this is P's cell *)
      destruct S2 as (O2 & Q2 & L2).
      assert (S3 : (OrdH (set_woken g H1) -> OrdH H3) /\ length (cmds (set_woken g H1)) <= length (cmds H3)).
      { split; [|unfold H3, ucmd; simpl; apply length_updd].
        intros (O & Oa). split.
        - intros c' t T. unfold H3 in T. destruct (Nat.eq_dec P c') as [->|Hn].
          + rewrite gcmd_ucmd_same in T. apply O. destruct (gcmd c' (set_woken g H1)); exact T.
          + rewrite gcmd_ucmd_other in T by exact Hn. apply O; exact T.
        - intros z w1 A. unfold H3 in A. destruct (Nat.eq_dec P z) as [->|Hn].
          + rewrite gcmd_ucmd_same in A. destruct (gcmd z (set_woken g H1)); cbn in A. discriminate.
          + rewrite gcmd_ucmd_other in A by exact Hn. apply Oa; exact A. }
      destruct (IH w' H3) as (O4 & Q4 & L4). destruct S3 as (O3 & L3). split; [intros O0; apply O4, O3, O2, O0 | split; [|lia]].
      intros Q0. specialize (Q2 Q0). destruct Q2 as [A|W].
      + (* the cell held w0: it is woken now *)
        rewrite EA in A. inversion A; subst w'. right. apply wake_woken_of.
      + right. eapply woken_of_mono; [|exact W]. eapply Rwx_trans; [|apply Rwx_wake]. apply Rwx_same; reflexivity.
    - eapply St_trans; [exact S2|]. eapply St_trans; [apply (St_set_atomic c None); [exact Hne | exact I] | apply IH].
  Qed.

  Lemma St_fold {A} (g : heap -> A -> heap) (l : list A) : (forall x H, St H (g H x)) -> forall H, St H (fold_left g l H).
  Proof. intros Hg. induction l as [|x l IH]; intros H; simpl; [apply St_refl|]. eapply St_trans; [apply Hg | apply IH]. Qed.

  (* ---------- channels, drop glue ---------- *)
  Lemma St_uch c f H : St H (uch c f H). Proof. apply St_same; reflexivity. Qed.
  Lemma St_utf u f H : St H (utf u f H). Proof. apply St_same; reflexivity. Qed.
  Lemma St_note n H : St H (note n H). Proof. apply St_same; reflexivity. Qed.
  Lemma St_wake_cell ch H : St H (wake_cell ch H).
  Proof. unfold wake_cell. destruct (ch_wk (gch ch H)); [|apply St_refl]. eapply St_trans; [apply St_uch | apply wake_St]. Qed.
  Lemma St_chan_send ch v H : St H (snd (chan_send ch v H)).
  Proof. unfold chan_send. destruct (ch_rx (gch ch H)); simpl; [|apply St_note]. eapply St_trans; [apply St_uch | apply St_wake_cell]. Qed.
  Lemma St_chan_drop_tx ch H : St H (chan_drop_tx ch H).
  Proof. unfold chan_drop_tx. destruct (ch_tx (gch ch H)); [|apply St_refl]. eapply St_trans; [apply St_uch | apply St_wake_cell]. Qed.
  Lemma St_chan_drop_rx ch H : St H (chan_drop_rx ch H). Proof. apply St_uch. Qed.
  Lemma St_chan_reg ch w H : St H (chan_reg ch w H). Proof. apply St_uch. Qed.
  Lemma St_drop_req e H : St H (drop_req e H).
  Proof. unfold drop_req. destruct (e_res e); [apply St_refl | apply St_chan_drop_tx | apply St_chan_drop_tx | apply St_refl]. Qed.
  Lemma St_kill_flag u H : St H (kill_flag u H). Proof. apply St_utf. Qed.
  Lemma St_sub_drop q H : St H (sub_drop q H).
  Proof. unfold sub_drop. destruct q as [s d tg v ch|m|s tg v ch|u]; [|apply St_refl|apply St_chan_drop_rx|apply St_refl]. destruct d; [apply St_refl | apply St_chan_drop_rx]. Qed.
  Lemma St_push_ev c e H : St H (push_ev c e H). Proof. unfold push_ev. plain. Qed.
  Lemma St_push_eff c e H : St H (push_eff c e H). Proof. unfold push_eff. plain. Qed.

  Lemma St_drop : forall fuel, (forall fs H, St H (drop_fs fuel fs H)) /\ (forall cid H, St H (drop_cmd fuel cid H)).
  Proof.
    induction fuel as [|f [IHfs IHcmd]]; split; intros; try apply St_refl.
    - unfold drop_fs; fold drop_fs; fold drop_cmd.
      match goal with |- St H (fold_left ?g ?l ?H1) => eapply St_trans; [|apply (St_fold g)] end.
      + destruct (f_leaf fs); try apply St_refl.
        * destruct dead; [apply St_refl | apply St_chan_drop_rx].
        * apply IHcmd.
        * apply St_chan_drop_rx.
        * eapply St_trans; apply St_sub_drop.
        * eapply St_trans; apply St_sub_drop.
      + intros fr Hh. apply St_chan_drop_rx.
    - unfold drop_cmd; fold drop_fs; fold drop_cmd.
      repeat match goal with |- St _ (fold_left ?g ?l ?H1) => eapply St_trans; [|apply (St_fold g)] end.
      + apply St_ucmd; [intros cm; destruct cm; reflexivity|].
        intros cm t T. destruct cm; unfold tasks_of in T; simpl in T. destruct T as [[]|[]].
      + intros e Hh. apply St_drop_req.
      + intros t Hh. eapply St_trans; [apply IHfs | apply St_kill_flag].
      + intros e Hh. destruct e; [|apply St_refl]. eapply St_trans; [apply IHfs | apply St_kill_flag].
  Qed.
  Lemma St_drop_fs fuel fs H : St H (drop_fs fuel fs H). Proof. apply St_drop. Qed.
  Lemma St_drop_cmd fuel cid H : St H (drop_cmd fuel cid H). Proof. apply St_drop. Qed.
End Steps.

(* ---------- tasks under the slab operations ---------- *)
Lemma In_updd {A} (d : A) n f l x : In x (updd d n f l) -> x = f (getd d n l) \/ In x l \/ x = d.
Proof.
  unfold getd. revert l; induction n as [|n IH]; intros [|y l]; simpl.
  - intros [<-|[]]. left; reflexivity.
  - intros [<-|I]; [left; reflexivity | right; left; right; exact I].
  - intros [<-|I]; [right; right; reflexivity|]. apply IH in I. rewrite nth_nil in I. destruct I as [E|[[]|E]]; [left; exact E | right; right; exact E].
  - intros [<-|I]; [right; left; left; reflexivity|]. apply IH in I. destruct I as [E|[I|E]]; [left; exact E | right; left; right; exact I | right; right; exact E].
Qed.
Lemma tasks_slab_set s t cm t' : tasks_of (slab_set s t cm) t' -> t' = t \/ tasks_of cm t'.
Proof.
  unfold tasks_of, slab_set, set_slab. destruct cm; simpl. intros [I|I]; [|right; right; exact I].
  apply In_updd in I. destruct I as [E|[I|E]]; [left; inversion E; reflexivity | right; left; exact I | discriminate].
Qed.
Lemma tasks_slab_remove s cm t' : tasks_of (slab_remove s cm) t' -> tasks_of cm t'.
Proof.
  unfold tasks_of, slab_remove, set_slab. destruct cm; simpl. intros [I|I]; [|right; exact I].
  apply In_updd in I. destruct I as [E|[I|E]]; [discriminate | left; exact I | discriminate].
Qed.
Lemma tasks_spawn_one t cm t' : tasks_of (spawn_one t cm) t' -> t' = t \/ tasks_of cm t'.
Proof.
  unfold tasks_of, spawn_one, slab_insert. destruct cm; simpl.
  match goal with |- context[if ?b then _ else _] => destruct b end; simpl; unfold set_ready, set_slab; simpl.
  - intros [I|I]; [|right; right; exact I]. apply in_app_or in I. destruct I as [I|[E|[]]]; [right; left; exact I | left; inversion E; reflexivity].
  - intros [I|I]; [|right; right; exact I]. apply In_updd in I. destruct I as [E|[I|E]]; [left; inversion E; reflexivity | right; left; exact I | discriminate].
Qed.
Lemma slab_get_tasks s cm t : slab_get s cm = Some t -> tasks_of cm t.
Proof.
  unfold slab_get, tasks_of. destruct (nth_error (c_ent cm) s) as [[t'|n]|] eqn:E; try discriminate.
  intros X; inversion X; subst. left. eapply nth_error_In; exact E.
Qed.
Lemma slab_get_lt s c H t : slab_get s (gcmd c H) = Some t -> c < length (cmds H).
Proof.
  intros E. destruct (Nat.lt_ge_cases c (length (cmds H))) as [L|L]; [exact L|].
  unfold gcmd, getd in E. rewrite nth_overflow in E by exact L. unfold slab_get in E. simpl in E. destruct s; discriminate.
Qed.

Section Steps2.
  Variables (P : nat) (w0 : waker).
  Notation St := (St P w0).
  Ltac plain := apply St_ucmd_plain; intros cm; destruct cm; reflexivity.

  Lemma St_add_gen H : St H (mkH (chans H) (tfl H) (cmds H) (woken H ++ [false]) (xready H) (aborted H) (log H) (hout H)).
  Proof. apply St_cmds_same; [reflexivity | split; [apply Rwoken_add_gen | apply incl_refl]]. Qed.
  Lemma St_new_chan H ch H1 : new_chan H = (ch, H1) -> St H H1.
  Proof. unfold new_chan. intros E; inversion E; subst. apply St_same; reflexivity. Qed.
  Lemma St_new_tflag H u H1 : new_tflag H = (u, H1) -> St H H1.
  Proof. unfold new_tflag. intros E; inversion E; subst. apply St_same; reflexivity. Qed.
  (* a task freshly made from a task term hosts nothing yet *)
  Lemma St_push_spawn c t H : host_gt c (t_fs t) -> St H (ucmd c (fun cm => set_spawnq (c_spawnq cm ++ [t]) cm) H).
  Proof.
    intros G. apply St_ucmd; [intros cm; destruct cm; reflexivity|].
    intros cm t' T. destruct cm; unfold tasks_of in *; simpl in *. destruct T as [I|I]; [left; left; exact I|].
    apply in_app_or in I. destruct I as [I|[<-|[]]]; [left; right; exact I | right; exact G].
  Qed.
  Lemma St_add_cmd cnew H : (forall t, tasks_of cnew t -> host_gt (length (cmds H)) (t_fs t)) -> c_atomic cnew = None ->
    St H (mkH (chans H) (tfl H) (cmds H ++ [cnew]) (woken H) (xready H) (aborted H) (log H) (hout H)).
  Proof.
    intros Tn An. split; [|split]; simpl.
    - intros (O & Oa). split.
      + intros c t T. unfold gcmd, getd in T; simpl in T.
        destruct (Nat.lt_ge_cases c (length (cmds H))) as [L|L].
        * rewrite app_nth1 in T by exact L. apply O. exact T.
        * destruct (Nat.eq_dec c (length (cmds H))) as [->|Hne].
          -- rewrite app_nth2 in T by lia. rewrite Nat.sub_diag in T. simpl in T. apply Tn; exact T.
          -- rewrite nth_overflow in T by (rewrite app_length; simpl; lia). destruct T as [[]|[]].
      + intros z w A. unfold gcmd, getd in A; simpl in A.
        destruct (Nat.lt_ge_cases z (length (cmds H))) as [L|L].
        * rewrite app_nth1 in A by exact L. apply Oa. exact A.
        * destruct (Nat.eq_dec z (length (cmds H))) as [->|Hne].
          -- rewrite app_nth2 in A by lia. rewrite Nat.sub_diag in A. simpl in A. rewrite An in A. discriminate.
          -- rewrite nth_overflow in A by (rewrite app_length; simpl; lia). discriminate.
    - intros [A|W]; [left | right; exact W]. unfold gcmd, getd in *; simpl.
      destruct (Nat.lt_ge_cases P (length (cmds H))) as [L|L]; [rewrite app_nth1 by exact L; exact A|].
      rewrite nth_overflow in A by exact L. discriminate.
    - rewrite app_length; simpl; lia.
  Qed.
  Lemma new_cmd_cid names ep en m ex H cid H1 : new_cmd names ep en m ex H = (cid, H1) -> cid = length (cmds H).
  Proof. unfold new_cmd, new_tflag. intros E. inversion E; subst. reflexivity. Qed.
  Lemma St_new_cmd names ep en m ex H cid H1 : new_cmd names ep en m ex H = (cid, H1) -> St H H1.
  Proof.
    unfold new_cmd, new_tflag. intros E. inversion E; subst; clear E.
    match goal with |- St H (fold_left ?g ex ?Hb) => eapply St_trans; [|apply (St_fold P w0 g)] end.
    - match goal with |- St H (mkH ?a ?b (?cs ++ [?c]) ?d ?e ?f ?g ?h) =>
        apply (St_trans P w0 _ (mkH a b cs d e f g h)); [apply St_same; reflexivity|];
        apply (St_add_cmd c (mkH a b cs d e f g h)) end; [|reflexivity].
      intros t T. unfold tasks_of in T; simpl in T. destruct T as [[E|[]]|[]]. inversion E; subst. exact I.
    - intros t Hh. cbv beta iota. eapply St_trans; [|apply St_push_spawn; exact I]. apply St_same; reflexivity.
  Qed.

  Lemma St_req_poll c w sent dead tg v ch H o s' d' H' : req_poll c w sent dead tg v ch H = (o, s', d', H') -> St H H'.
  Proof.
    unfold req_poll. destruct dead; [intros E; inversion E; subst; apply St_refl|].
    destruct (negb sent).
    - intros E; inversion E; subst. eapply St_trans; [apply St_chan_reg | apply St_push_eff].
    - destruct (ch_buf (gch ch H)).
      + destruct (ch_tx (gch ch H)); intros E; inversion E; subst; [apply St_chan_reg|].
        eapply St_trans; [apply St_chan_drop_rx | apply St_note].
      + intros E; inversion E; subst. apply St_chan_drop_rx.
  Qed.
  Lemma St_push_hout e H : St H (push_hout e H). Proof. apply St_same; reflexivity. Qed.
  Lemma St_sub_poll c w q H q' H' : sub_poll c w q H = (q', H') -> St H H'.
  Proof.
    unfold sub_poll. destruct q as [sent dead tg v ch|m|sent tg v ch|u].
    - destruct (req_poll c w sent dead tg v ch H) as [[[o s'] d'] H1] eqn:E1. apply St_req_poll in E1.
      destruct o; intros E; inversion E; subst; exact E1.
    - intros E; inversion E; subst; apply St_refl.
    - set (H1 := if sent then H else push_hout (mkEff tg v [] (RLegacy ch)) H).
      assert (S1 : St H H1) by (subst H1; destruct sent; [apply St_refl | apply St_push_hout]).
      destruct (ch_buf (gch ch H1)); intros E; inversion E; subst.
      + eapply St_trans; [exact S1 | apply St_chan_reg].
      + eapply St_trans; [exact S1 | apply St_chan_drop_rx].
    - destruct (tf_fin (gtf u H)); [intros E; inversion E; subst; apply St_refl|].
      destruct (tf_alive (gtf u H)); intros E; inversion E; subst; [apply St_utf | apply St_note].
  Qed.
  Lemma St_finish_task cid s t H : St H (finish_task cid s t H).
  Proof.
    unfold finish_task. cbv zeta.
    eapply St_trans; [|apply St_kill_flag]. eapply St_trans; [|apply St_drop_fs].
    match goal with |- St _ (fold_left ?g ?l ?Hx) => eapply St_trans; [|apply (St_fold P w0 g)] end.
    - apply (St_trans P w0 _ (ucmd cid (slab_remove s) H)); [|apply St_utf].
      apply St_ucmd; [intros cm; destruct cm; reflexivity|]. intros cm t' T. left. apply tasks_slab_remove in T. exact T.
    - intros wk Hh. apply wake_St.
  Qed.
End Steps2.

(* ---------- the runtime functions ---------- *)
Definition specH (F : rtfuns) : Prop :=
  (forall P w0 c w fs H r H', P <= c -> c < length (cmds H) -> host_gt c fs -> waker_in c w -> OrdH H ->
      rpoll F c w fs H = Some (r, H') ->
      St P w0 H H' /\
      match r with
      | Pend fs' => host_gt c fs' /\ (forall x me mv k, f_leaf fs' = LHost x me mv k -> Q x w H')
      | Rdy => True
      end) /\
  (forall P w0 x w H r H', P < x -> waker_lt w x -> OrdH H -> rpoll_next F x w H = Some (r, H') ->
      St P w0 H H' /\ (r = PNPending -> Q x w H')) /\
  (forall P w0 c H H', P <= c -> OrdH H -> rsettle F c H = Some H' -> St P w0 H H') /\
  (forall P w0 c H H', P <= c -> OrdH H -> rloop F c H = Some H' -> St P w0 H H') /\
  (forall P w0 c H H', P <= c -> OrdH H -> rdrain F c H = Some H' -> St P w0 H H') /\
  (forall P w0 c s H r H', P <= c -> OrdH H -> rrun_task F c s H = Some (r, H') -> St P w0 H H').

Lemma specH0 : specH funs0.
Proof. unfold specH. split; [|split; [|split; [|split; [|split]]]]; simpl; intros; discriminate. Qed.

Lemma St_ord P w0 H H' : St P w0 H H' -> OrdH H -> OrdH H'. Proof. intros (A & _ & _). exact A. Qed.
Lemma St_len P w0 H H' c : St P w0 H H' -> c < length (cmds H) -> c < length (cmds H'). Proof. intros (_ & _ & A) L. lia. Qed.

Ltac hg := unfold host_gt; simpl; try exact I; try assumption.
(* E : rpoll F c w fs1 H1 = Some (r, H'), with S01 : St P w0 H H1 and the hypotheses about H *)
Ltac rec_poll IHp P w0 Pc Lc O S01 G1 E :=
  let S1 := fresh "S1" in let R := fresh "R" in
  match type of E with rpoll _ ?c0 ?w1 ?fs1 ?H1 = Some (?r1, ?H2) =>
    match goal with Win : waker_in c0 w1 |- _ =>
    destruct (IHp P w0 c0 w1 fs1 H1 r1 H2 Pc (St_len P w0 _ _ _ S01 Lc) (G1 : host_gt c0 fs1) Win (St_ord P w0 _ _ S01 O) E) as (S1 & R) end;
    split; [eapply St_trans; [exact S01 | exact S1] | exact R]
  end.
Ltac ret_pend S01 := split; [exact S01 | split; [hg | intros ? ? ? ? EL'; simpl in EL'; discriminate]].

Lemma specH_step : forall F, specH F -> specH (step_funs F).
Proof.
  intros F (IHp & IHn & IHs & IHl & IHd & IHr).
  unfold specH. split; [|split; [|split; [|split; [|split]]]].
  - (* poll *)
    intros P w0 c w fs H r H' Pc Lc G Win O E. cbn [step_funs rpoll] in E. unfold poll_body in E.
    destruct (f_leaf fs) as [t|sent dead tg v ch x k| |u k|cid meff mev k|n k|lsent ltg lv lch lx k|qa qb x1 x2 k|qa qb x k] eqn:EL.
    + (* LRun *)
      destruct t.
      * destruct (f_stack fs).
        -- inversion E; subst. split; [apply St_refl | exact I].
        -- rec_poll IHp P w0 Pc Lc O (St_refl P w0 H) I E.
      * rec_poll IHp P w0 Pc Lc O (St_push_ev P w0 c (mkEv tg (eval (f_env fs) e) []) H) I E.
      * rec_poll IHp P w0 Pc Lc O (St_push_eff P w0 c (mkEff tg (eval (f_env fs) e) [] RNever) H) I E.
      * destruct (new_chan H) as [ch H1] eqn:E1. rec_poll IHp P w0 Pc Lc O (St_new_chan P w0 _ _ _ E1) I E.
      * destruct (new_chan H) as [ch H1] eqn:E1. rec_poll IHp P w0 Pc Lc O (St_new_chan P w0 _ _ _ E1) I E.
      * destruct (new_tflag H) as [u H1] eqn:E1.
        assert (S01 : St P w0 H (ucmd c (fun cm => set_spawnq (c_spawnq cm ++ [mkT u (fs_of (f_env fs) t1)]) cm) H1)).
        { eapply St_trans; [apply (St_new_tflag P w0 _ _ _ E1) | apply St_push_spawn; exact I]. }
        rec_poll IHp P w0 Pc Lc O S01 I E.
      * rec_poll IHp P w0 Pc Lc O (St_refl P w0 H) I E.
      * rec_poll IHp P w0 Pc Lc O (St_utf P w0 (getd 0 h (f_env fs)) (fun tf => mkTF (tf_fin tf) true (tf_alive tf) (tf_joinw tf)) H) I E.
      * rec_poll IHp P w0 Pc Lc O (St_refl P w0 H) I E.
      * destruct (new_chan H) as [ch H1] eqn:E1. rec_poll IHp P w0 Pc Lc O (St_new_chan P w0 _ _ _ E1) I E.
      * assert (S01 : St P w0 H (add_aborted name H)) by (apply St_same; reflexivity).
        rec_poll IHp P w0 Pc Lc O S01 I E.
      * destruct (new_chan H) as [ch1 H1] eqn:E1. destruct (new_chan H1) as [ch2 H2] eqn:E2.
        assert (S01 : St P w0 H H2) by (eapply St_trans; [apply (St_new_chan P w0 _ _ _ E1) | apply (St_new_chan P w0 _ _ _ E2)]).
        rec_poll IHp P w0 Pc Lc O S01 I E.
      * destruct (new_chan H) as [ch1 H1] eqn:E1. destruct (new_chan H1) as [ch2 H2] eqn:E2.
        assert (S01 : St P w0 H H2) by (eapply St_trans; [apply (St_new_chan P w0 _ _ _ E1) | apply (St_new_chan P w0 _ _ _ E2)]).
        rec_poll IHp P w0 Pc Lc O S01 I E.
      * destruct (new_chan H) as [ch H1] eqn:E1. rec_poll IHp P w0 Pc Lc O (St_new_chan P w0 _ _ _ E1) I E.
      * destruct (new_chan H) as [ch1 H1] eqn:E1. destruct (new_chan H1) as [ch2 H2] eqn:E2.
        assert (S01 : St P w0 H H2) by (eapply St_trans; [apply (St_new_chan P w0 _ _ _ E1) | apply (St_new_chan P w0 _ _ _ E2)]).
        rec_poll IHp P w0 Pc Lc O S01 I E.
      * destruct (new_cmd names (Some (c_epoch (gcmd c H))) (f_env fs) t1 extra H) as [cid H1] eqn:E1.
        pose proof (new_cmd_cid _ _ _ _ _ _ _ _ E1) as Ec.
        assert (G1 : host_gt c (mkF (f_env fs) (LHost cid meff mev t2) (f_stack fs))) by (unfold host_gt; simpl; lia).
        rec_poll IHp P w0 Pc Lc O (St_new_cmd P w0 _ _ _ _ _ _ _ _ E1) G1 E.
    + (* LReq *)
      destruct (req_poll c w sent dead tg v ch H) as [[[o s'] d'] H1] eqn:E1. pose proof (St_req_poll P w0 _ _ _ _ _ _ _ _ _ _ _ _ E1) as S01.
      destruct o.
      * rec_poll IHp P w0 Pc Lc O S01 I E.
      * inversion E; subst. ret_pend S01.
    + (* LStr *)
      destruct (f_stack fs) as [|fr rest] eqn:ES; [inversion E; subst; split; [apply St_refl | exact I]|].
      destruct (negb (fr_sent fr)).
      * inversion E; subst. assert (S01 : St P w0 H (push_eff c (mkEff (fr_tg fr) (fr_v fr) [] (RMany (fr_ch fr))) (chan_reg (fr_ch fr) w H)))
          by (eapply St_trans; [apply St_chan_reg | apply St_push_eff]).
        ret_pend S01.
      * destruct (ch_buf (gch (fr_ch fr) H)).
        -- destruct (ch_tx (gch (fr_ch fr) H)).
           ++ inversion E; subst. split; [apply St_chan_reg | split; [exact G | intros ? ? ? ? EL'; rewrite EL in EL'; discriminate]].
           ++ assert (S01 : St P w0 H (note B_StreamEnd (chan_drop_rx (fr_ch fr) H))) by (eapply St_trans; [apply St_chan_drop_rx | apply St_note]).
              rec_poll IHp P w0 Pc Lc O S01 I E.
        -- rec_poll IHp P w0 Pc Lc O (St_uch P w0 (fr_ch fr) (fun cc => mkChan l (ch_tx cc) (ch_rx cc) (ch_wk cc)) H) I E.
    + (* LJoin *)
      destruct (tf_fin (gtf u H)); [rec_poll IHp P w0 Pc Lc O (St_refl P w0 H) I E|].
      destruct (tf_alive (gtf u H)).
      * inversion E; subst. split; [apply St_utf | split; [exact G | intros ? ? ? ? EL'; rewrite EL in EL'; discriminate]].
      * rec_poll IHp P w0 Pc Lc O (St_note P w0 B_JoinDead H) I E.
    + (* LHost *)
      assert (Gx : c < cid) by (unfold host_gt in G; rewrite EL in G; exact G).
      destruct (rpoll_next F cid w H) as [[rr H1]|] eqn:E1; [|discriminate].
      assert (Wl : waker_lt w cid) by (destruct w as [c0 s0 g0|q]; cbn in *; [subst; lia | exact I]).
      destruct (IHn P w0 cid w H rr H1 ltac:(lia) Wl O E1) as (S01 & Qp).
      destruct rr.
      * inversion E; subst. split; [exact S01 | split; [exact G|]].
        intros x' me mv k' EL'. rewrite EL in EL'. inversion EL'; subst. apply Qp. reflexivity.
      * assert (S02 : St P w0 H (note B_HostDone (drop_cmd (dfuel H1) cid H1))).
        { eapply St_trans; [exact S01|]. eapply St_trans; [apply St_drop_cmd | apply St_note]. }
        rec_poll IHp P w0 Pc Lc O S02 I E.
      * assert (S02 : St P w0 H (push_eff c (map_eff meff e) H1)) by (eapply St_trans; [exact S01 | apply St_push_eff]).
        rec_poll IHp P w0 Pc Lc O S02 G E.
      * assert (S02 : St P w0 H (push_ev c (map_ev mev e) H1)) by (eapply St_trans; [exact S01 | apply St_push_ev]).
        rec_poll IHp P w0 Pc Lc O S02 G E.
    + (* LYield *)
      destruct n; [rec_poll IHp P w0 Pc Lc O (St_refl P w0 H) I E|].
      inversion E; subst. ret_pend (wake_St P w0 (wfuel w) w H).
    + (* LLeg *)
      set (H1 := if lsent then H else push_hout (mkEff ltg lv [] (RLegacy lch)) H) in *.
      assert (S01 : St P w0 H H1) by (subst H1; destruct lsent; [apply St_refl | apply St_push_hout]).
      destruct (ch_buf (gch lch H1)).
      * inversion E; subst. assert (S02 : St P w0 H (chan_reg lch w H1)) by (eapply St_trans; [exact S01 | apply St_chan_reg]).
        ret_pend S02.
      * assert (S02 : St P w0 H (chan_drop_rx lch H1)) by (eapply St_trans; [exact S01 | apply St_chan_drop_rx]).
        rec_poll IHp P w0 Pc Lc O S02 I E.
    + (* LBoth *)
      destruct (sub_poll c w qa H) as [a' H1] eqn:E1. destruct (sub_poll c w qb H1) as [b' H2] eqn:E2.
      assert (S02 : St P w0 H H2) by (eapply St_trans; [apply (St_sub_poll P w0 _ _ _ _ _ _ E1) | apply (St_sub_poll P w0 _ _ _ _ _ _ E2)]).
      destruct a'; try (inversion E; subst; ret_pend S02).
      destruct b'; try (inversion E; subst; ret_pend S02).
      rec_poll IHp P w0 Pc Lc O S02 I E.
    + (* LRace *)
      destruct (sub_poll c w qa H) as [a' H1] eqn:E1. pose proof (St_sub_poll P w0 _ _ _ _ _ _ E1) as S01.
      destruct a'.
      * destruct (sub_poll c w qb H1) as [b' H2] eqn:E2.
        assert (S02 : St P w0 H H2) by (eapply St_trans; [exact S01 | apply (St_sub_poll P w0 _ _ _ _ _ _ E2)]).
        destruct b'; try (inversion E; subst; ret_pend S02).
        match type of E with rpoll F c w _ (sub_drop ?q H2) = _ => assert (S03 : St P w0 H (sub_drop q H2)) by (eapply St_trans; [exact S02 | apply St_sub_drop]) end.
        rec_poll IHp P w0 Pc Lc O S03 I E.
      * match type of E with rpoll F c w _ (sub_drop ?q H1) = _ => assert (S03 : St P w0 H (sub_drop q H1)) by (eapply St_trans; [exact S01 | apply St_sub_drop]) end.
        rec_poll IHp P w0 Pc Lc O S03 I E.
      * destruct (sub_poll c w qb H1) as [b' H2] eqn:E2.
        assert (S02 : St P w0 H H2) by (eapply St_trans; [exact S01 | apply (St_sub_poll P w0 _ _ _ _ _ _ E2)]).
        destruct b'; try (inversion E; subst; ret_pend S02).
        match type of E with rpoll F c w _ (sub_drop ?q H2) = _ => assert (S03 : St P w0 H (sub_drop q H2)) by (eapply St_trans; [exact S02 | apply St_sub_drop]) end.
        rec_poll IHp P w0 Pc Lc O S03 I E.
      * destruct (sub_poll c w qb H1) as [b' H2] eqn:E2.
        assert (S02 : St P w0 H H2) by (eapply St_trans; [exact S01 | apply (St_sub_poll P w0 _ _ _ _ _ _ E2)]).
        destruct b'; try (inversion E; subst; ret_pend S02).
        match type of E with rpoll F c w _ (sub_drop ?q H2) = _ => assert (S03 : St P w0 H (sub_drop q H2)) by (eapply St_trans; [exact S02 | apply St_sub_drop]) end.
        rec_poll IHp P w0 Pc Lc O S03 I E.
  - (* poll_next *)
    intros P w0 x w H r H' Px Wl O E. cbn [step_funs rpoll_next] in E. unfold poll_next_body in E.
    set (H0' := ucmd x (set_atomic (Some w)) H) in *.
    assert (S0 : forall P' w', P' < x -> St P' w' H H0') by (intros P' w' L; apply St_set_atomic; [lia | exact Wl]).
    assert (Q0 : Q x w H0') by (left; unfold H0'; rewrite gcmd_ucmd_same; destruct (gcmd x H); reflexivity).
    assert (O0 : OrdH H0') by (apply (St_ord P w0 _ _ (S0 P w0 Px) O)).
    destruct (rsettle F x H0') as [H1|] eqn:E1; [|discriminate].
    pose proof (IHs P w0 x H0' H1 ltac:(lia) O0 E1) as S1.
    pose proof (IHs x w x H0' H1 (le_n x) O0 E1) as (_ & Sq1 & _).
    assert (S01 : St P w0 H H1) by (eapply St_trans; [apply S0; exact Px | exact S1]).
    destruct (c_evs (gcmd x H1)) as [|e rest].
    + destruct (c_eff (gcmd x H1)) as [|e rest].
      * destruct (rsettle F x H1) as [H2|] eqn:E2; [|discriminate].
        pose proof (St_ord P w0 _ _ S01 O) as O1.
        pose proof (IHs P w0 x H1 H2 ltac:(lia) O1 E2) as S2.
        pose proof (IHs x w x H1 H2 (le_n x) O1 E2) as (_ & Sq2 & _).
        assert (S02 : St P w0 H H2) by (eapply St_trans; [exact S01 | exact S2]).
        assert (Q2 : Q x w H2) by (apply Sq2, Sq1, Q0).
        destruct (c_eff (gcmd x H2)); [destruct (c_evs (gcmd x H2)); [destruct (c_len (gcmd x H2) =? 0)|]|];
          inversion E; subst; (split; [exact S02 | intros _; try exact Q2; try discriminate]).
      * inversion E; subst. split; [|intros X; discriminate].
        eapply St_trans; [exact S01|]. apply St_ucmd_plain; intros cm; destruct cm; reflexivity.
    + inversion E; subst. split; [|intros X; discriminate].
      eapply St_trans; [exact S01|]. apply St_ucmd_plain; intros cm; destruct cm; reflexivity.
  - (* settle *)
    intros P w0 c H H' Pc O E. cbn [step_funs rsettle] in E. unfold settle_body in E.
    destruct (was_aborted c H).
    + inversion E; subst; clear E.
      eapply St_trans; [|apply St_note].
      match goal with |- St P w0 H (fold_left ?g ?l ?H1) => eapply St_trans; [|apply (St_fold P w0 g)] end.
      * apply St_ucmd; [intros cm; destruct cm; reflexivity|].
        intros cm t T. left. destruct cm; unfold tasks_of in *; simpl in *. destruct T as [[]|T]; right; exact T.
      * intros e Hh. destruct e; [|apply St_refl]. eapply St_trans; [apply St_drop_fs | apply St_kill_flag].
    + eapply IHl; eauto.
  - (* loop *)
    intros P w0 c H H' Pc O E. cbn [step_funs rloop] in E. unfold loop_body in E.
    match type of E with context[fold_left ?g ?l ?H0] => set (H1 := fold_left g l H0) in * end.
    assert (S01 : St P w0 H H1).
    { subst H1.
      assert (Gl : forall t, In t (c_spawnq (gcmd c H)) -> host_gt c (t_fs t)) by (intros t It; apply (proj1 O c t); right; exact It).
      eapply St_trans.
      - apply (St_ucmd P w0 c (set_spawnq [])); [intros cm; destruct cm; reflexivity|].
        intros cm t T. left. destruct cm; unfold tasks_of in *; simpl in *. destruct T as [T|[]]. left; exact T.
      - generalize (ucmd c (set_spawnq []) H). revert Gl. generalize (c_spawnq (gcmd c H)) as l.
        induction l as [|t l IHl0]; intros Gl Hx; simpl; [apply St_refl|].
        eapply St_trans; [|apply IHl0; intros t' It'; apply Gl; right; exact It'].
        apply St_ucmd.
        + intros cm. unfold spawn_one, slab_insert. destruct cm; simpl.
          match goal with |- context[if ?b then _ else _] => destruct b end; reflexivity.
        + intros cm t' T. apply tasks_spawn_one in T. destruct T as [->|T]; [right; apply Gl; left; reflexivity | left; exact T]. }
    destruct (c_ready (gcmd c H1)); [inversion E; subst; exact S01|].
    destruct (rdrain F c H1) as [H2|] eqn:E2; [|discriminate].
    pose proof (St_ord P w0 _ _ S01 O) as O1.
    pose proof (IHd P w0 c H1 H2 Pc O1 E2) as S2.
    pose proof (IHl P w0 c H2 H' Pc (St_ord P w0 _ _ S2 O1) E) as S3.
    eapply St_trans; [exact S01|]. eapply St_trans; [exact S2 | exact S3].
  - (* drain *)
    intros P w0 c H H' Pc O E. cbn [step_funs rdrain] in E. unfold drain_body in E.
    destruct (c_ready (gcmd c H)) as [|s rest]; [inversion E; subst; apply St_refl|].
    assert (S0 : St P w0 H (ucmd c (set_ready rest) H)) by (apply St_ucmd_plain; intros cm; destruct cm; reflexivity).
    destruct (rrun_task F c s (ucmd c (set_ready rest) H)) as [[st H2]|] eqn:E2; [|discriminate].
    pose proof (IHr P w0 c s _ st H2 Pc (St_ord P w0 _ _ S0 O) E2) as S2.
    assert (S02 : St P w0 H H2) by (eapply St_trans; [exact S0 | exact S2]).
    match type of E with rdrain F c ?H3 = _ => assert (S03 : St P w0 H H3) end.
    { destruct st; try exact S02; (destruct (slab_get s (gcmd c H2)) as [t|]; [eapply St_trans; [exact S02 | apply St_finish_task] | exact S02]). }
    pose proof (IHd P w0 c _ H' Pc (St_ord P w0 _ _ S03 O) E) as S4.
    eapply St_trans; [exact S03 | exact S4].
  - (* run_task *)
    intros P w0 c s H r H' Pc O E. cbn [step_funs rrun_task] in E. unfold run_task_body in E.
    destruct (slab_get s (gcmd c H)) as [t|] eqn:ES; [|inversion E; subst; apply St_note].
    match type of E with (if ?b then _ else _) = _ => destruct b end; [inversion E; subst; apply St_note|].
    pose proof (slab_get_lt _ _ _ _ ES) as Lc. pose proof (proj1 O c t (slab_get_tasks _ _ _ ES)) as G.
    match type of E with context[rpoll F c ?w ?fs ?H1] => destruct (rpoll F c w fs H1) as [[pr H2]|] eqn:E2; [|discriminate] end.
    assert (S0 : St P w0 H (mkH (chans H) (tfl H) (cmds H) (woken H ++ [false]) (xready H) (aborted H) (log H) (hout H))) by apply St_add_gen.
    match type of E2 with rpoll _ _ ?w1 ?fs1 ?Hx = _ =>
      destruct (IHp P w0 c w1 fs1 Hx pr H2 Pc Lc G (eq_refl : waker_in c w1) (St_ord P w0 _ _ S0 O) E2) as (S2 & R) end.
    assert (S02 : St P w0 H H2) by (eapply St_trans; [exact S0 | exact S2]).
    destruct pr as [fs'|].
    + destruct R as (G' & _).
      assert (S03 : St P w0 H (ucmd c (slab_set s (mkT (t_uid t) fs')) H2)).
      { eapply St_trans; [exact S02|]. apply St_ucmd; [intros cm; destruct cm; reflexivity|].
        intros cm t' T. apply tasks_slab_set in T. destruct T as [->|T]; [right; exact G' | left; exact T]. }
      match type of E with context[if ?b then _ else _] => destruct b end; inversion E; subst; [exact S03|].
      eapply St_trans; [exact S03 | apply St_note].
    + inversion E; subst. eapply St_trans; [exact S02|]. apply St_ucmd; [intros cm; destruct cm; reflexivity|].
      intros cm t' T. apply tasks_slab_set in T. destruct T as [->|T]; [right; exact I | left; exact T].
Qed.

Theorem specH_all : forall fuel, specH (funs fuel).
Proof. induction fuel as [|f IH]; [apply specH0 | apply specH_step; exact IH]. Qed.

(* ---------- consequences ---------- *)
(* a Pending poll of a hosting task leaves the poll's waker in the hosted command's cell, or woken *)
Theorem poll_registers_host : forall fuel c w fs H fs' H' x me mv k,
  c < length (cmds H) -> host_gt c fs -> waker_in c w -> OrdH H ->
  poll fuel c w fs H = Some (Pend fs', H') -> f_leaf fs' = LHost x me mv k ->
  c < x /\ Q x w H' /\ OrdH H'.
Proof.
  intros fuel c w fs H fs' H' x me mv k Lc G Win O E EL.
  destruct (specH_all fuel) as (Sp & _).
  destruct (Sp c w c w fs H (Pend fs') H' (le_n c) Lc G Win O E) as (S1 & G' & Qx).
  split; [unfold host_gt in G'; rewrite EL in G'; exact G' | split; [eapply Qx; exact EL | apply (St_ord _ _ _ _ S1 O)]].
Qed.

Lemma holds_of_atomic x c s g H : c_atomic (gcmd x H) = Some (WCmd c s g) -> holds g H = true.
Proof.
  intros E. unfold holds. apply orb_true_iff; right.
  assert (L : x < length (cmds H)).
  { destruct (Nat.lt_ge_cases x (length (cmds H))) as [L|L]; [exact L|]. unfold gcmd, getd in E. rewrite nth_overflow in E by exact L. discriminate. }
  apply existsb_exists. exists (gcmd x H). split; [unfold gcmd, getd; apply nth_In; exact L|]. rewrite E. simpl. apply Nat.eqb_refl.
Qed.

(* run_task never discards a task that hosts a command: what is evicted is blocked on requests whose
   sender is gone, and on nothing else (evict_sound, now without the exception for the hosting leaf) *)
Definition evictable_strict (fs' : fstate) : Prop :=
  match f_leaf fs' with
  | LReq _ dead _ _ _ _ _ => dead = true
  | LBoth a b _ _ _ | LRace a b _ _ => closed_sub a /\ closed_sub b
  | LHost _ _ _ _ | LRun _ | LStr | LJoin _ _ | LYield _ _ | LLeg _ _ _ _ _ _ => False
  end.

Theorem evict_sound_full : forall fuel cid slot H H',
  OrdH H -> run_task (S fuel) cid slot H = Some (Cancelled, H') ->
  exists t, slab_get slot (gcmd cid H') = Some t /\ evictable_strict (t_fs t).
Proof.
  intros fuel cid slot H H' O E. pose proof E as E0.
  destruct (evict_sound fuel cid slot H H' E) as (t' & Es' & Ev).
  exists t'. split; [exact Es'|].
  unfold evictable in Ev. unfold evictable_strict.
  destruct (f_leaf (t_fs t')) as [t0|sent dead tg v ch x k| |u k|x meff mev k|n k|lsent ltg lv lch lx k|qa qb x1 x2 k|qa qb x k] eqn:EL; try exact Ev.
  (* the hosting leaf: impossible *)
  exfalso. clear Ev.
  unfold run_task in E. cbn [funs step_funs rrun_task] in E. unfold run_task_body in E.
  destruct (slab_get slot (gcmd cid H)) as [t|] eqn:ES; [|discriminate].
  match type of E with (if ?b then _ else _) = _ => destruct b end; [discriminate|].
  set (g := length (woken H)) in *. set (w := WCmd cid slot g) in *.
  match type of E with context[rpoll (funs fuel) cid w ?fs ?H1] => destruct (rpoll (funs fuel) cid w fs H1) as [[pr H2]|] eqn:E2; [|discriminate] end.
  destruct pr as [fs'|]; [|discriminate].
  set (H3 := ucmd cid (slab_set slot (mkT (t_uid t) fs')) H2) in *.
  destruct (getd false g (woken H3) || holds g H3) eqn:EH; [discriminate|].
  inversion E; subst H'. clear E.
  apply orb_false_iff in EH as (EW & EHo).
  (* the task written back is the one found afterwards *)
  assert (Et : t' = mkT (t_uid t) fs').
  { assert (X : slab_get slot (gcmd cid (note B_Evict H3)) = Some (mkT (t_uid t) fs')).
    { unfold note; simpl. unfold H3. unfold gcmd at 1. unfold ucmd; simpl.
      change (getd cmd0 cid (updd cmd0 cid (slab_set slot (mkT (t_uid t) fs')) (cmds H2))) with
             (gcmd cid (ucmd cid (slab_set slot (mkT (t_uid t) fs')) H2)).
      rewrite gcmd_ucmd_same. unfold slab_get, slab_set, set_slab; simpl.
      destruct (nth_error (updd (Vac 0) slot (fun _ => Occ (mkT (t_uid t) fs')) (c_ent (gcmd cid H2))) slot) eqn:EN.
      - assert (Y : getd (Vac 0) slot (updd (Vac 0) slot (fun _ => Occ (mkT (t_uid t) fs')) (c_ent (gcmd cid H2))) = Occ (mkT (t_uid t) fs'))
          by apply getd_updd_same.
        unfold getd in Y. apply nth_error_nth with (d := Vac 0) in EN. rewrite Y in EN. subst e. reflexivity.
      - apply nth_error_None in EN. pose proof (lt_length_updd (Vac 0) slot (fun _ => Occ (mkT (t_uid t) fs')) (c_ent (gcmd cid H2))). lia. }
    rewrite X in Es'. inversion Es'. reflexivity. }
  subst t'. cbn [t_fs] in EL.
  assert (Lc : cid < length (cmds H)) by (eapply slab_get_lt; exact ES).
  assert (G : host_gt cid (t_fs t)) by (apply (proj1 O cid t), slab_get_tasks with (s := slot); exact ES).
  assert (O1 : OrdH (mkH (chans H) (tfl H) (cmds H) (woken H ++ [false]) (xready H) (aborted H) (log H) (hout H)))
    by (apply (St_ord 0 w _ _ (St_add_gen 0 w H) O)).
  match type of E2 with rpoll _ _ _ _ ?Hx = _ =>
    destruct (poll_registers_host fuel cid w (t_fs t) Hx fs' H2 x meff mev k Lc G (eq_refl : waker_in cid w) O1 E2 EL) as (Gx & Qx & _) end.
  destruct Qx as [A|W].
  - (* the cell still holds this poll's waker: a clone survives *)
    assert (A3 : c_atomic (gcmd x H3) = Some w) by (unfold H3; rewrite gcmd_ucmd_other by lia; exact A).
    unfold w in A3. rewrite (holds_of_atomic x cid slot g H3 A3) in EHo. discriminate.
  - (* it was woken during the poll *)
    unfold wokenx, w in W. assert (EW' : getd false g (woken H2) = false) by exact EW. rewrite W in EW'. discriminate.
Qed.

(* ---------- the order invariant holds in every state a host can reach ---------- *)
From Crux Require Import Rt.Host.
Lemma OrdH_H0 : OrdH H0.
Proof.
  split; [intros c t T; unfold gcmd, getd in T; simpl in T; destruct c; destruct T as [[]|[]]|].
  intros z w A. unfold gcmd, getd in A. simpl in A. destruct z; discriminate.
Qed.
Lemma OrdH_new_cmd names ep en m ex H cid H1 : new_cmd names ep en m ex H = (cid, H1) -> OrdH H -> OrdH H1.
Proof. intros E. apply (St_ord 0 (WExec 0) _ _ (St_new_cmd 0 (WExec 0) _ _ _ _ _ _ _ _ E)). Qed.
Lemma OrdH_settle fuel c H H' : settle fuel c H = Some H' -> OrdH H -> OrdH H'.
Proof.
  intros E O. destruct (specH_all fuel) as (_ & _ & Ss & _).
  apply (St_ord 0 (WExec 0) _ _ (Ss 0 (WExec 0) c H H' (Nat.le_0_l c) O E) O).
Qed.
Lemma OrdH_resolve_req e v H : OrdH H -> OrdH (snd (resolve_req e v H)).
Proof.
  intros O. unfold resolve_req. destruct (e_res e) as [|ch|ch|ch]; [exact O| | |].
  - destruct (chan_send ch v H) as [b H1] eqn:E. cbn [snd].
    apply (St_ord 0 (WExec 0) _ _ (St_chan_drop_tx 0 (WExec 0) ch H1)).
    replace H1 with (snd (chan_send ch v H)) by (rewrite E; reflexivity). apply (St_ord 0 (WExec 0) _ _ (St_chan_send 0 (WExec 0) ch v H) O).
  - destruct (chan_send ch v H) as [b H1] eqn:E. cbn [snd].
    replace H1 with (snd (chan_send ch v H)) by (rewrite E; reflexivity). apply (St_ord 0 (WExec 0) _ _ (St_chan_send 0 (WExec 0) ch v H) O).
  - destruct (chan_send ch v H) as [b H1] eqn:E. cbn [snd].
    replace H1 with (snd (chan_send ch v H)) by (rewrite E; reflexivity). apply (St_ord 0 (WExec 0) _ _ (St_chan_send 0 (WExec 0) ch v H) O).
Qed.

Theorem dstep_OrdH fuel top a st o st' : dstep fuel top a st = Some (o, st') -> OrdH (d_H st) -> OrdH (d_H st').
Proof.
  intros E O. destruct a; cbn [dstep] in E.
  - destruct (settle fuel top (d_H st)) as [H1|] eqn:E1; [|discriminate]. inversion E; subst; cbn [d_H].
    apply (St_ord 0 (WExec 0) _ _ (St_ucmd_plain 0 (WExec 0) top (set_eff []) H1 ltac:(intros cm; destruct cm; reflexivity)
             ltac:(intros cm; destruct cm; reflexivity) ltac:(intros cm; destruct cm; reflexivity))).
    eapply OrdH_settle; eauto.
  - destruct (settle fuel top (d_H st)) as [H1|] eqn:E1; [|discriminate]. inversion E; subst; cbn [d_H].
    apply (St_ord 0 (WExec 0) _ _ (St_ucmd_plain 0 (WExec 0) top (set_evs []) H1 ltac:(intros cm; destruct cm; reflexivity)
             ltac:(intros cm; destruct cm; reflexivity) ltac:(intros cm; destruct cm; reflexivity))).
    eapply OrdH_settle; eauto.
  - destruct (settle fuel top (d_H st)) as [H1|] eqn:E1; [|discriminate]. inversion E; subst; cbn [d_H]. eapply OrdH_settle; eauto.
  - destruct (find_rq tg v occ 0 (d_reqs st)) as [i|]; [|inversion E; subst; exact O].
    destruct (rq_dropped _); [inversion E; subst; exact O|].
    match type of E with context[resolve_req ?e ?x ?Hh] =>
      pose proof (OrdH_resolve_req e x Hh O) as O'; destruct (resolve_req e x Hh) as [[code e'] H1] end. cbn [snd] in O'.
    inversion E; subst; cbn [d_H]. exact O'.
  - destruct (find_rq tg v occ 0 (d_reqs st)) as [i|]; [|inversion E; subst; exact O].
    destruct (rq_dropped _); inversion E; subst; [exact O|]. cbn [d_H].
    apply (St_ord 0 (WExec 0) _ _ (St_drop_req 0 (WExec 0) _ (d_H st)) O).
  - inversion E; subst; cbn [d_H]. apply (St_ord 0 (WExec 0) _ _ (St_same 0 (WExec 0) (d_H st) (add_aborted name (d_H st)) eq_refl eq_refl eq_refl) O).
  - inversion E; subst. exact O.
  - inversion E; subst. exact O.
  - destruct (new_tflag (d_H st)) as [u H1] eqn:E1. inversion E; subst; cbn [d_H].
    apply (St_ord 0 (WExec 0) _ _ (St_push_spawn 0 (WExec 0) top (mkT u (fs_of [] t)) H1 I)).
    apply (St_ord 0 (WExec 0) _ _ (St_new_tflag 0 (WExec 0) _ _ _ E1) O).
Qed.

(* every state of every run of the direct host satisfies the order invariant *)
Inductive dreach (fuel top : nat) : dstate -> dstate -> Prop :=
| dr_refl st : dreach fuel top st st
| dr_step st a o st1 st2 : dstep fuel top a st = Some (o, st1) -> dreach fuel top st1 st2 -> dreach fuel top st st2.
Theorem dreach_OrdH fuel top st st' : dreach fuel top st st' -> OrdH (d_H st) -> OrdH (d_H st').
Proof. induction 1 as [st|st a o st1 st2 E _ IH]; intros O; [exact O | apply IH; eapply dstep_OrdH; eauto]. Qed.
Theorem direct_start_OrdH c : OrdH (snd (new_cmd (cx_name (compile c)) None [] (cx_main (compile c)) (cx_extra (compile c)) H0)).
Proof.
  destruct (new_cmd (cx_name (compile c)) None [] (cx_main (compile c)) (cx_extra (compile c)) H0) as [top H] eqn:E. cbn [snd].
  eapply OrdH_new_cmd; [exact E | apply OrdH_H0].
Qed.

(* ---------- a hosted command that reports Pending is quiet and its host is subscribed ---------- *)
From Crux Require Import Rt.Silent.
Lemma suffix_of_nil {A} (l : list A) : is_suffix l [] -> l = [].
Proof. intros [pre E]. symmetry in E. apply app_eq_nil in E. tauto. Qed.

(* the settle hidden in is_done() at the end of poll_next adds no output: either the command has been aborted
   (its queues can only shrink) or its own queues are empty and there is nothing to run *)
Lemma second_settle_no_output fuel x H1 H2 :
  x < length (cmds H1) -> c_evs (gcmd x H1) = [] -> c_eff (gcmd x H1) = [] ->
  (was_aborted x H1 = false -> c_ready (gcmd x H1) = [] /\ c_spawnq (gcmd x H1) = []) ->
  settle fuel x H1 = Some H2 ->
  c_evs (gcmd x H2) = [] /\ c_eff (gcmd x H2) = [] /\
  (was_aborted x H1 = false -> c_ready (gcmd x H2) = [] /\ c_spawnq (gcmd x H2) = []).
Proof.
  intros L EV EF Qu E. destruct (was_aborted x H1) eqn:A.
  - destruct (aborted_outputs_only_shrink_settle x fuel x H1 H2 L A E) as (S1 & S2).
    rewrite EF in S1. rewrite EV in S2. split; [apply suffix_of_nil; exact S2 | split; [apply suffix_of_nil; exact S1 | discriminate]].
  - destruct (Qu eq_refl) as (Er & Es).
    destruct fuel as [|f]; [discriminate|].
    unfold settle in E. cbn [funs step_funs rsettle] in E. unfold settle_body in E. rewrite A in E.
    destruct f as [|f']; [discriminate|]. cbn [funs step_funs rloop] in E. unfold loop_body in E.
    rewrite Es in E. cbn [fold_left] in E.
    assert (Er' : c_ready (gcmd x (ucmd x (set_spawnq []) H1)) = []) by (rewrite gcmd_ucmd_same; destruct (gcmd x H1); exact Er).
    rewrite Er' in E. assert (X : ucmd x (set_spawnq []) H1 = H2) by congruence. subst H2.
    rewrite gcmd_ucmd_same. destruct (gcmd x H1); cbn in *. repeat split; auto.
Qed.

(* When Stream::poll_next of command x answers Pending to its host (waker w): x has no pending output, x's own
   ready queue and spawn queue are empty (unless x has been aborted: then its tasks are gone), and x's cell still
   holds w or w has been woken - so whatever happens to x later either finds the host subscribed (a wake queues
   the host's task: Chain.wake_queues_task) or the host is queued already.  One layer of "a call runs to
   quiescence and no wake-up is lost between layers". *)
Theorem poll_next_pending_quiet_and_subscribed_any : forall fuel x w H H',
  OrdH H -> waker_lt w x -> x < length (cmds H) -> poll_next (S fuel) x w H = Some (PNPending, H') ->
  c_evs (gcmd x H') = [] /\ c_eff (gcmd x H') = [] /\
  (was_aborted x H' = false -> c_ready (gcmd x H') = [] /\ c_spawnq (gcmd x H') = []) /\
  Q x w H' /\ OrdH H'.
Proof.
  intros fuel x w H H' O Wl L E.
  destruct (specH_all fuel) as (_ & _ & Ss & _).
  unfold poll_next in E. cbn [funs step_funs rpoll_next] in E. unfold poll_next_body in E.
  set (H0' := ucmd x (set_atomic (Some w)) H) in *.
  assert (L0 : x < length (cmds H0')) by (unfold H0', ucmd; simpl; pose proof (length_updd cmd0 x (set_atomic (Some w)) (cmds H)); lia).
  assert (O0 : OrdH H0') by (apply (St_ord (S x) (WExec 0) _ _ (St_set_atomic (S x) (WExec 0) x (Some w) H ltac:(lia) Wl) O)).
  assert (Q0 : Q x w H0') by (left; unfold H0'; rewrite gcmd_ucmd_same; destruct (gcmd x H); reflexivity).
  destruct (rsettle (funs fuel) x H0') as [H1|] eqn:E1; [|discriminate].
  pose proof (Ss x w x H0' H1 (le_n x) O0 E1) as (O1f & Q1f & Len1).
  assert (L1 : x < length (cmds H1)) by lia.
  destruct (c_evs (gcmd x H1)) as [|e rest] eqn:EV1; [|discriminate].
  destruct (c_eff (gcmd x H1)) as [|e rest] eqn:EF1; [|discriminate].
  destruct (rsettle (funs fuel) x H1) as [H2|] eqn:E2; [|discriminate].
  pose proof (Ss x w x H1 H2 (le_n x) (O1f O0) E2) as (O2f & Q2f & Len2).
  assert (Qu : was_aborted x H1 = false -> c_ready (gcmd x H1) = [] /\ c_spawnq (gcmd x H1) = []).
  { intros A1. apply (settle_quiescent fuel x H0' H1); [|exact E1].
    eapply was_aborted_false_back; [exact L0 | apply (proj1 (proj2 (proj2 (frame_meta fuel))) _ _ _ E1) | exact A1]. }
  destruct (second_settle_no_output fuel x H1 H2 L1 EV1 EF1 Qu E2) as (EV2 & EF2 & Qu2).
  rewrite EF2, EV2 in E.
  assert (X : H2 = H') by (destruct (c_len (gcmd x H2) =? 0); [discriminate | congruence]). subst H'.
  split; [exact EV2 | split; [exact EF2 | split; [|split; [apply Q2f, Q1f, Q0 | apply O2f, O1f, O0]]]].
  intros A2. apply Qu2. eapply was_aborted_false_back; [exact L1 | apply (proj1 (proj2 (proj2 (frame_meta fuel))) _ _ _ E2) | exact A2].
Qed.
Theorem poll_next_pending_quiet_and_subscribed : forall fuel x' w H H',
  OrdH H -> waker_lt w (S x') -> S x' < length (cmds H) -> poll_next (S fuel) (S x') w H = Some (PNPending, H') ->
  c_evs (gcmd (S x') H') = [] /\ c_eff (gcmd (S x') H') = [] /\
  (was_aborted (S x') H' = false -> c_ready (gcmd (S x') H') = [] /\ c_spawnq (gcmd (S x') H') = []) /\
  Q (S x') w H' /\ OrdH H'.
Proof. intros fuel x'. apply poll_next_pending_quiet_and_subscribed_any. Qed.

(* ---------- a wake always has enough fuel ---------- *)
(* Wakes start with fuel [wfuel w] = S (the waker's command id).  The cell of a command only ever holds a waker of a
   command created earlier, so the ids along a chain of hosts strictly decrease and the fuel cannot run out: more
   fuel changes nothing.  The model has no bound on the nesting depth. *)
Definition AOrd (H : heap) : Prop := forall z w, c_atomic (gcmd z H) = Some w -> waker_lt w z.
Lemma OrdH_AOrd H : OrdH H -> AOrd H. Proof. intros (_ & A). exact A. Qed.
Lemma AOrd_keep c f H : (forall cm, c_atomic (f cm) = c_atomic cm \/ c_atomic (f cm) = None) -> AOrd H -> AOrd (ucmd c f H).
Proof.
  intros Fa A z w E. destruct (Nat.eq_dec c z) as [->|Hne].
  - rewrite gcmd_ucmd_same in E. destruct (Fa (gcmd z H)) as [X|X]; rewrite X in E; [apply A; exact E | discriminate].
  - rewrite gcmd_ucmd_other in E by exact Hne. apply A; exact E.
Qed.
Theorem wake_one_more_changes_nothing : forall f w H, AOrd H -> wfuel w <= f -> wake (S f) w H = wake f w H.
Proof.
  induction f as [|f IH]; intros w H A L.
  - destruct w as [c s g|q]; [cbn [wfuel] in L; lia | reflexivity].
  - destruct w as [c s g|q]; [|reflexivity]. cbn [wfuel] in L.
    change (wake (S (S f)) (WCmd c s g) H) with
      (let H1 := if c_alive (gcmd c H) then ucmd c (fun cm => set_ready (c_ready cm ++ [s]) cm) H else H in
       let H2 := set_woken g H1 in
       match c_atomic (gcmd c H2) with Some w' => wake (S f) w' (ucmd c (set_atomic None) H2) | None => note B_AtomicEmpty H2 end).
    change (wake (S f) (WCmd c s g) H) with
      (let H1 := if c_alive (gcmd c H) then ucmd c (fun cm => set_ready (c_ready cm ++ [s]) cm) H else H in
       let H2 := set_woken g H1 in
       match c_atomic (gcmd c H2) with Some w' => wake f w' (ucmd c (set_atomic None) H2) | None => note B_AtomicEmpty H2 end).
    cbv zeta.
    set (H1 := if c_alive (gcmd c H) then ucmd c (fun cm => set_ready (c_ready cm ++ [s]) cm) H else H).
    assert (A1 : AOrd H1) by (subst H1; destruct (c_alive (gcmd c H)); [apply AOrd_keep; [intros cm; left; destruct cm; reflexivity | exact A] | exact A]).
    assert (A2 : AOrd (set_woken g H1)) by exact A1.
    destruct (c_atomic (gcmd c (set_woken g H1))) as [w'|] eqn:EA; [|reflexivity].
    apply IH.
    + apply AOrd_keep; [intros cm; right; destruct cm; reflexivity | exact A2].
    + pose proof (A2 c w' EA) as Lt. destruct w' as [c' s' g'|q']; cbn [wfuel waker_lt] in *; lia.
Qed.
Corollary wake_fuel_suffices : forall n w H, AOrd H -> wake (n + wfuel w) w H = wake (wfuel w) w H.
Proof.
  induction n as [|n IH]; intros w H A; [reflexivity|].
  change (S n + wfuel w) with (S (n + wfuel w)). rewrite wake_one_more_changes_nothing by (exact A || lia). apply IH; exact A.
Qed.
