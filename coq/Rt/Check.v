(* Verdict functions and decidable trace predicates evaluated by the generated case files (engine rt).
   Each C0n_ok is evaluated on the IMPLEMENTATION's trace; Proofs files show it holds of the model's. *)
From Coq Require Import List Arith Bool NArith.
From Crux Require Import Rt.Lang Rt.Rt Rt.Host Rt.Legacy.
Import ListNotations.

(* (under a Core?, drained?, command, handlers, schedule, implementation trace); a case of the legacy
   capability API carries its handler table separately (lcase below) and is folded into an rtcase with
   an empty command-API table so that the Core predicates C01_ok / C03_ok apply to it unchanged *)
Definition rtcase := (bool * bool * cmd * handlers * list action * list obs)%type.

Definition model_trace (c : rtcase) : option (list obs) :=
  match c with (core, _, p, hs, acts, _) => if core then under_core FUEL0 hs acts else direct FUEL0 p acts end.

Definition no_panic (t : list obs) : bool := forallb (fun o => match o with OPanic => false | _ => true end) t.

Fixpoint is_prefix (a b : list event) : bool :=
  match a, b with
  | [], _ => true
  | x :: a', y :: b' => event_eqb x y && is_prefix a' b'
  | _ :: _, [] => false
  end.

(* ---- C01 (Core host): a Noop probe directly after a call returns no effects and only appends itself
        to the log: nothing runnable was left behind, nothing was deferred to a later call ---- *)
Fixpoint C01_probes (acts : list action) (t : list obs) (prev : option (list event)) : bool :=
  match acts, t with
  | a :: acts', o :: t' =>
    match o with
    | OCall 0 effs lg =>
      let ok := match a, prev with
                | AEvent 99 0, Some plog =>
                    match effs with [] => list_eqb event_eqb lg (plog ++ [mkEv 99 0 []]) | _ :: _ => false end
                | _, _ => true
                end in
      ok && C01_probes acts' t' (Some lg)
    | OCall _ _ _ => C01_probes acts' t' prev   (* rejected resolution: process() did not run *)
    | OResolve _ | OLive _ => C01_probes acts' t' prev    (* no such request / a read-only hook: nothing was called *)
    | _ => C01_probes acts' t' None      (* a drop / abort in between: the next call legitimately finds work *)
    end
  | _, _ => true
  end.
Definition C01_ok (c : rtcase) : bool :=
  match c with (core, _, _, _, acts, t) => no_panic t && (negb core || C01_probes acts t None) end.

(* ---- C03 (Core host): the log only grows, a submitted event is applied first and exactly once ---- *)
Fixpoint C03_log (acts : list action) (t : list obs) (plog : list event) : bool :=
  match acts, t with
  | a :: acts', o :: t' =>
    match o with
    | OCall _ _ lg =>
      is_prefix plog lg &&
      match a with
      | AEvent tg v => match skipn (length plog) lg with e :: _ => event_eqb e (mkEv tg v []) | [] => false end
      | _ => true
      end && C03_log acts' t' lg
    | _ => C03_log acts' t' plog
    end
  | _, _ => true
  end.
Definition C03_ok (c : rtcase) : bool :=
  match c with (core, _, _, _, acts, t) => no_panic t && (negb core || C03_log acts t []) end.

(* ---- C06 (direct host, abort of the outermost command): after the abort, outputs already emitted can
        be taken once; nothing new ever appears; done as soon as both have been taken; late resolutions
        do not panic ---- *)
Definition top_names (p : cmd) : list nat := cx_name (compile p).
Fixpoint C06_after (t : list obs) (acts : list action) (seen_eff seen_ev : bool) : bool :=
  match acts, t with
  | _ :: acts', o :: t' =>
    match o with
    | OEffects l => (negb seen_eff || match l with [] => true | _ => false end) && C06_after t' acts' true seen_ev
    | OEvents l => (negb seen_ev || match l with [] => true | _ => false end) && C06_after t' acts' seen_eff true
    | ODone b _ => (negb (seen_eff && seen_ev) || b) && C06_after t' acts' seen_eff seen_ev
    | OPanic => false
    | _ => C06_after t' acts' seen_eff seen_ev
    end
  | _, _ => true
  end.
Fixpoint C06_scan (names : list nat) (acts : list action) (t : list obs) : bool :=
  match acts, t with
  | a :: acts', _ :: t' =>
    match a with
    | AAbort n => if existsb (Nat.eqb n) names then C06_after t' acts' false false else C06_scan names acts' t'
    | _ => C06_scan names acts' t'
    end
  | _, _ => true
  end.
(* ---- C06 (direct host, abort of a command at ANY nesting level): cancelled work never produces another output.
        The values the harness delivers are unique within a run and far from every constant of the program (1000 + 10 k;
        maps add at most 9), so a value shows where it went: once a command has been aborted through its handle, a value
        delivered afterwards to one of ITS requests must never show up in any later event or effect - its continuation
        would have had to run.  (A command kept under name n is the whole subtree of `CAbortable n`; the abort is noticed
        lazily, at the command's next run_until_settled, which comes before any of its tasks is polled.)  Evaluated on
        implementation traces; not derived from the model (the model's own traces pass it on every generated case). ---- *)
Fixpoint task_rtags (t : task) : list nat :=
  match t with
  | TRet => []
  | TEmit _ _ k | TNotify _ _ k | TJoin _ k | TAbortT _ k | TYield _ k | TAbortC _ k => task_rtags k
  | TReq tg _ _ k | TLegReq tg _ _ k => tg :: task_rtags k
  | TForEach tg _ _ b k => tg :: task_rtags b ++ task_rtags k
  | TSpawn c _ k => task_rtags c ++ task_rtags k
  | TBoth t1 _ _ t2 _ _ k | TBothL t1 _ _ t2 _ _ k | TRace t1 _ t2 _ _ k => t1 :: t2 :: task_rtags k
  | TBothJ _ tg _ _ k => tg :: task_rtags k
  | THost _ _ _ m ex k => task_rtags m ++ flat_map task_rtags ex ++ task_rtags k
  end.
Fixpoint rb_rtags (r : rbld) : list nat :=
  match r with RbReq tg _ => [tg] | RbMap r' _ => rb_rtags r' | RbThenReq r' tg => tg :: rb_rtags r' end.
Fixpoint sb_rtags (s : sbld) : list nat :=
  match s with
  | SbStr tg _ => [tg]
  | SbMap s' _ => sb_rtags s'
  | SbThenReq s' tg | SbThenStr s' tg => tg :: sb_rtags s'
  | SbOfReq r tg => tg :: rb_rtags r
  end.
Fixpoint cmd_rtags (c : cmd) : list nat :=
  match c with
  | CNew m ex => task_rtags m ++ flat_map task_rtags ex
  | CThen a b | CAnd a b => cmd_rtags a ++ cmd_rtags b
  | CAll cs => flat_map cmd_rtags cs
  | CMapEff _ c' | CMapEv _ c' | CIdEff c' | CIdEv c' | CInto c' | CAbortable _ c' => cmd_rtags c'
  | CSendR r _ => rb_rtags r
  | CSendS s _ => sb_rtags s
  end.
(* the requests of everything kept under the name n *)
Fixpoint abortable_rtags (n : nat) (c : cmd) : list nat :=
  match c with
  | CNew _ _ | CSendR _ _ | CSendS _ _ => []
  | CThen a b | CAnd a b => abortable_rtags n a ++ abortable_rtags n b
  | CAll cs => flat_map (abortable_rtags n) cs
  | CMapEff _ c' | CMapEv _ c' | CIdEff c' | CIdEv c' | CInto c' => abortable_rtags n c'
  | CAbortable m c' => if Nat.eqb m n then cmd_rtags c' else abortable_rtags n c'
  end.
Fixpoint nodupb (l : list nat) : bool := match l with [] => true | x :: r => negb (existsb (Nat.eqb x) r) && nodupb r end.
Definition poisoned (poison : list nat) (v : nat) : bool := existsb (fun o => Nat.leb o v && Nat.leb v (o + 9)) poison.
Definition obs_clean (poison : list nat) (o : obs) : bool :=
  match o with
  | OEffects l => forallb (fun e => negb (poisoned poison (oe_val e))) l
  | OEvents l => forallb (fun e => negb (poisoned poison (v_val e))) l
  | _ => true
  end.
Fixpoint C06_causal_scan (p : cmd) (acts : list action) (t : list obs) (dead poison : list nat) : bool :=
  match acts, t with
  | a :: acts', o :: t' =>
    obs_clean poison o &&
    match a with
    | AAbort n => C06_causal_scan p acts' t' (abortable_rtags n p ++ dead) poison
    | AResolve tg _ _ out => C06_causal_scan p acts' t' dead (if existsb (Nat.eqb tg) dead && Nat.leb 1000 out then out :: poison else poison)
    | _ => C06_causal_scan p acts' t' dead poison
    end
  | _, _ => true
  end.
Definition C06_causal (p : cmd) (acts : list action) (t : list obs) : bool :=
  negb (nodupb (cmd_rtags p)) || C06_causal_scan p acts t [] [].
Definition C06_ok (c : rtcase) : bool :=
  match c with (core, _, p, _, acts, t) => no_panic t && (core || (C06_scan (top_names p) acts t && C06_causal p acts t)) end.

(* ---- C07 (direct host): done implies no task is held; once every request has been resolved or
        dropped (drain phase of the harness) the command reports done ---- *)
Definition C07_done_sound (t : list obs) : bool :=
  forallb (fun o => match o with ODone true (S _) => false | _ => true end) t.
(* once a command has reported done nothing more can come out of it, unless a new task is spawned on it *)
Fixpoint C07_done_final (acts : list action) (t : list obs) (done : bool) : bool :=
  match acts, t with
  | a :: acts', o :: t' =>
    let done' := match a with ASpawn _ => false | _ => done end in
    match o with
    | OEffects l => (negb done' || match l with [] => true | _ => false end) && C07_done_final acts' t' done'
    | OEvents l => (negb done' || match l with [] => true | _ => false end) && C07_done_final acts' t' done'
    | ODone b _ => (negb done' || b) && C07_done_final acts' t' (done' || b)
    | _ => C07_done_final acts' t' done'
    end
  | _, _ => true
  end.
Definition C07_ok (c : rtcase) : bool :=
  match c with (core, drained, _, _, acts, t) =>
    no_panic t && (core || (C07_done_sound t && C07_done_final acts t false &&
      (negb drained || match last t ONone with ODone true 0 => true | _ => false end)))
  end.

(* verdicts: 0 agree and ok; 1 model <> implementation but ok holds of the implementation's trace;
   2 ok fails on the implementation's trace; 3 model out of fuel *)
(* programs using then_stream on a stream (flatten_unordered) are outside the runtime model: for them the
   verdict rests on [ok] alone (C04_ok / RC_ok compare them with the reference semantics) *)
Definition case_flat (c : rtcase) : bool :=
  match c with (_, _, p, hs, _, _) => cmd_flat p || existsb (fun h => cmd_flat (snd h)) hs end.
(* recorded finding (KNOWN_FINDINGS.txt class flat_task_never_evicted): the history drops a one-shot request
   made inside a builder chain with a then_stream on a stream; the task is then never evicted *)
Definition leak_class (c : rtcase) : bool :=
  match c with (_, _, p, hs, acts, _) =>
    let tags := cmd_flat_once_tags p ++ flat_map (fun h => cmd_flat_once_tags (snd h)) hs in
    existsb (fun a => match a with ADropReq tg _ _ => existsb (Nat.eqb tg) tags | _ => false end) acts
  end.
Definition verdict_with (ok : rtcase -> bool) (c : rtcase) : N :=
  match c with (_, _, _, _, _, impl) =>
    if negb (ok c) then (if leak_class c then 101%N else 2%N) else
    if case_flat c then 0%N else
    match model_trace c with
    | None => 3%N
    | Some t => if list_eqb obs_eqb t impl then 0%N else 1%N
    end
  end.
Definition verdicts_C01 (cs : list rtcase) : list N := map (verdict_with C01_ok) cs.
Definition verdicts_C03 (cs : list rtcase) : list N := map (verdict_with C03_ok) cs.
Definition verdicts_C06 (cs : list rtcase) : list N := map (verdict_with C06_ok) cs.
Definition verdicts_C07 (cs : list rtcase) : list N := map (verdict_with C07_ok) cs.
(* coverage: which model branches a case reaches (direct host only) *)
Definition branches (c : rtcase) : list nat :=
  match c with (core, _, p, _, acts, _) => if core then [] else direct_log FUEL0 p acts end.

(* ---------- C05: one command under many hosts ---------- *)
Definition hstep := (list oeff * list event * option bool)%type.
Definition obool_agree (check_done : bool) (a b : option bool) : bool :=
  match a, b with Some x, Some y => negb check_done || Bool.eqb x y | _, _ => true end.
Definition hstep_eqb (check_done : bool) (a b : hstep) : bool :=
  match a, b with (e1, v1, d1), (e2, v2, d2) =>
    list_eqb oeff_eqb e1 e2 && list_eqb event_eqb v1 v2 && obool_agree check_done d1 d2 end.
Definition has_abort (inputs : list action) : bool :=
  existsb (fun a => match a with AAbort _ => true | _ => false end) inputs.
(* the property itself, on implementation traces only: every host shows what the direct host shows,
   step for step.  is_done is compared unless a hosted command was aborted (an abort wakes nobody, so
   a wrapper notices it at its next poll; the property speaks of effects and events) *)
Definition C05_ok (inputs : list action) (traces : list (list hstep)) : bool :=
  match traces with
  | [] => false
  | base :: others => forallb (fun t => list_eqb (hstep_eqb (negb (has_abort inputs))) base t) others
  end.
(* the model's direct trace for the schedule [inspect; input; inspect; ...], folded to hsteps *)
Fixpoint fold_hsteps (t : list obs) : option (list hstep) :=
  match t with
  | [] => Some []
  | OEffects e1 :: OEvents v :: OEffects e2 :: ODone d _ :: rest =>
      match fold_hsteps rest with Some r => Some ((e1 ++ e2, v, Some d) :: r) | None => None end
  | _ :: rest => fold_hsteps rest      (* the observation of the input itself *)
  end.
Definition hcase := (cmd * list action * list action * list (list hstep))%type.
Definition verdict_C05 (c : hcase) : N :=
  match c with (p, inputs, acts, traces) =>
    if negb (C05_ok inputs traces) then 2%N else
    if cmd_flat p then 0%N else
    match direct FUEL0 p acts with
    | None => 3%N
    | Some t => match fold_hsteps t, traces with
                | Some m, base :: _ => if list_eqb (hstep_eqb true) m base then 0%N else 1%N
                | _, _ => 1%N
                end
    end
  end.
Definition verdicts_C05 (cs : list hcase) : list N := map verdict_C05 cs.

(* ---------- C04: the implementation against the reference semantics (Ref.v) ---------- *)
From Crux Require Import Rt.Ref.
Fixpoint remove_first {A} (eqb : A -> A -> bool) (x : A) (l : list A) : option (list A) :=
  match l with
  | [] => None
  | y :: r => if eqb x y then Some r else match remove_first eqb x r with Some r' => Some (y :: r') | None => None end
  end.
Fixpoint ms_eqb {A} (eqb : A -> A -> bool) (a b : list A) : bool :=
  match a with
  | [] => match b with [] => true | _ => false end
  | x :: a' => match remove_first eqb x b with Some b' => ms_eqb eqb a' b' | None => false end
  end.
Definition reff_oeff_eqb (r : reff) (o : oeff) : bool :=
  Nat.eqb (re_tag r) (oe_tag o) && Nat.eqb (re_val r) (oe_val o) && list_eqb Nat.eqb (re_maps r) (oe_maps o).
Definition oeff_of_reff (r : reff) : oeff := mkOE (re_tag r) (re_val r) (re_maps r) KNever.
(* per step: same effects and same events up to order within the step, same done, same result code *)
Definition robs_obs_eqb (r : robs) (o : obs) : bool :=
  match r, o with
  | ROEffects l, OEffects l' => ms_eqb oeff_eqb (map oeff_of_reff l) l'
  | ROEvents l, OEvents l' => ms_eqb event_eqb l l'
  | RODone b, ODone b' _ => Bool.eqb b b'
  | ROResolve c, OResolve c' => Nat.eqb c c'
  | RONone, ONone => true
  | RONone, OLive _ => true      (* the reference semantics has no executor *)
  | _, _ => false
  end.
Fixpoint list_eqb2 {A B} (eqb : A -> B -> bool) (a : list A) (b : list B) : bool :=
  match a, b with
  | [], [] => true
  | x :: a', y :: b' => eqb x y && list_eqb2 eqb a' b'
  | _, _ => false
  end.
Definition in_fragment (c : rtcase) : bool :=
  match c with (core, _, p, _, acts, _) => negb core && cmd_abort_free p && cmd_flat_ok p && sched_abort_free acts end.
Definition C04_ok (c : rtcase) : bool :=
  match c with (_, _, p, _, acts, t) =>
    no_panic t &&
    (negb (in_fragment c) ||
     match ref_direct RF p acts with
     | Some r => list_eqb2 robs_obs_eqb r t
     | None => false
     end)
  end.
Definition verdicts_C04 (cs : list rtcase) : list N := map (verdict_with C04_ok) cs.
Definition fragment_flags (cs : list rtcase) : list N := map (fun c => if in_fragment c then 1%N else 0%N) cs.

(* ---------- cases of the legacy capability API host ---------- *)
Definition lcase := (lhandlers * list action * list obs)%type.
Definition as_rtcase (c : lcase) : rtcase := match c with (_, acts, t) => (true, false, c_done, [], acts, t) end.
Definition verdict_legacy (ok : rtcase -> bool) (c : lcase) : N :=
  match c with (hs, acts, impl) =>
    if negb (ok (as_rtcase c)) then 2%N else
    match under_legacy_core hs acts with
    | None => 3%N
    | Some t => if list_eqb obs_eqb t impl then 0%N else 1%N
    end
  end.
Definition verdicts_legacy_C01 (cs : list lcase) : list N := map (verdict_legacy C01_ok) cs.
Definition verdicts_legacy_C03 (cs : list lcase) : list N := map (verdict_legacy C03_ok) cs.
Definition verdicts_legacy_any (cs : list lcase) : list N := map (verdict_legacy (fun c => match c with (_, _, _, _, _, t) => no_panic t end)) cs.

(* ---------- the implementation under a Core against the reference semantics (RefCore.v) ---------- *)
From Crux Require Import Rt.RefCore.
Definition kobs_obs_eqb (r : kobs) (o : obs) : bool :=
  match r, o with
  | KCall c effs lg, OCall c' effs' lg' =>
      Nat.eqb c c' && ms_eqb oeff_eqb (map oeff_of_reff effs) effs' && ms_eqb event_eqb lg lg'
  | KResolve c, OResolve c' => Nat.eqb c c'
  | KNone, ONone => true
  | KNone, OLive _ => true
  | _, _ => false
  end.
Definition in_core_fragment (c : rtcase) : bool :=
  match c with (core, _, _, hs, acts, _) => core && handlers_cancel_free hs && forallb (fun h => cmd_flat_ok (snd h)) hs && sched_abort_free acts end.
(* 0 outside the fragment | 1 inside, request names ambiguous somewhere | 2 inside and compared *)
Definition core_fragment_flag (c : rtcase) : N :=
  if negb (in_core_fragment c) then 0%N else
  match c with (_, _, _, hs, acts, _) =>
    match ref_core hs acts with Some (_, false) => 2%N | _ => 1%N end end.
(* per call: the effects handed over and the events applied so far are, as multisets, exactly those of
   the reference semantics; same result codes *)
Definition RC_ok (c : rtcase) : bool :=
  match c with (_, _, _, hs, acts, t) =>
    no_panic t &&
    (negb (in_core_fragment c) ||
     match ref_core hs acts with
     | Some (r, false) => list_eqb2 kobs_obs_eqb r t
     | Some (_, true) => true
     | None => false
     end)
  end.
Definition verdicts_RC (cs : list rtcase) : list N := map (verdict_with RC_ok) cs.
(* C01 and C04 under a Core: their own predicate and the reference semantics *)
Definition verdicts_C01R (cs : list rtcase) : list N := map (verdict_with (fun c => C01_ok c && RC_ok c)) cs.
Definition verdicts_C04R (cs : list rtcase) : list N := map (verdict_with (fun c => C04_ok c && RC_ok c)) cs.
(* C03 under a Core: its own log predicate and, for cancellation-free apps, the reference semantics (every event
   emitted was applied exactly once by the time the call returned: RC_ok compares the whole log as a multiset) *)
Definition verdicts_C03R (cs : list rtcase) : list N := map (verdict_with (fun c => C03_ok c && RC_ok c)) cs.
Definition core_fragment_flags (cs : list rtcase) : list N := map core_fragment_flag cs.
Definition flat_flags (cs : list rtcase) : list N := map (fun c => if case_flat c then 1%N else 0%N) cs.
