(* Verdict functions evaluated by the generated case files (engine rt). *)
From Coq Require Import List Arith Bool NArith.
From Crux Require Import Rt.Lang Rt.Rt Rt.Host.
Import ListNotations.

(* (under_core?, command, handlers, schedule, implementation trace) *)
Definition rtcase := (bool * cmd * handlers * list action * list obs)%type.

Definition model_trace (c : rtcase) : option (list obs) :=
  match c with (core, p, hs, acts, _) => if core then under_core hs acts else direct p acts end.

(* 0 = model and implementation agree; 1 = they differ; 3 = model out of fuel *)
Definition verdict_rt (c : rtcase) : N :=
  match c with (_, _, _, _, impl) =>
    match model_trace c with
    | None => 3%N
    | Some t => if list_eqb obs_eqb t impl then 0%N else 1%N
    end
  end.
Definition verdicts_rt (cs : list rtcase) : list N := map verdict_rt cs.
