(* Task and command language shared by the runtime model (Rt.v), the reference semantics (Ref.v)
   and the Rust harness interpreter (harness/src/bin/rt_run.rs builds REAL Commands from the same AST). *)
From Coq Require Import List Arith Bool.
Import ListNotations.

Inductive expr := K (n : nat) | V (x : nat) | Plus (a b : expr).

(* A task is the body of one async block.  [THost] is internal: it is what the combinators
   (then / and / all / map_effect / map_event / into) compile to; the harness never builds it
   directly because hosting is only reachable through those combinators in the public API. *)
Inductive task :=
| TRet
| TEmit (tg : nat) (e : expr) (k : task)                       (* ctx.send_event *)
| TNotify (tg : nat) (e : expr) (k : task)                     (* ctx.notify_shell *)
| TReq (tg : nat) (e : expr) (x : nat) (k : task)              (* let x = ctx.request_from_shell(..).await *)
| TForEach (tg : nat) (e : expr) (x : nat) (body k : task)     (* while let Some(x) = stream.next().await { body } *)
| TSpawn (child : task) (h : nat) (k : task)                   (* let h = ctx.spawn(child) *)
| TJoin (h : nat) (k : task)                                   (* h.await *)
| TAbortT (h : nat) (k : task)                                 (* h.abort() *)
| TYield (n : nat) (k : task)                                  (* wake self and return Pending, n times *)
| TLegReq (tg : nat) (e : expr) (x : nat) (k : task)          (* let x = legacy_capability.request_from_shell(op).await inside a Command task *)
| TAbortC (name : nat) (k : task)                              (* call the AbortHandle kept under [name] from inside a task *)
| TBoth (tg1 : nat) (e1 : expr) (x1 : nat) (tg2 : nat) (e2 : expr) (x2 : nat) (k : task)
     (* let (x1, x2) = futures::join!(request(op1), request(op2)) *)
| TBothL (tg1 : nat) (e1 : expr) (x1 : nat) (tg2 : nat) (e2 : expr) (x2 : nat) (k : task)
     (* join!(legacy_capability.request(op1), ctx.request(op2)): the two APIs awaited together *)
| TBothJ (h : nat) (tg : nat) (e : expr) (x : nat) (k : task)
     (* let ((), x) = join!(h, ctx.request(op)): a JoinHandle awaited together with a request *)
| TRace (tg1 : nat) (e1 : expr) (tg2 : nat) (e2 : expr) (x : nat) (k : task)
     (* x = select_biased! { a = request(op1) => a, b = request(op2) => b }; the loser is dropped *)
| THost (names : list nat) (meff mev : nat) (main : task) (extra : list task) (k : task).
   (* host a command (main task + spawned extras) whose outputs are mapped by meff / mev (0 = not
      mapped) and forwarded to this task's command; names = the abort handles retained for that command
      (a.and(b) shares a's flag, so one command can be known under several names) *)

(* builder chains (command/builder.rs): a request builder yields one value, a stream builder many *)
Inductive rbld :=
| RbReq (tg : nat) (e : expr)                (* Command::request_from_shell(op) *)
| RbMap (r : rbld) (n : nat)                 (* .map(|v| v + n) *)
| RbThenReq (r : rbld) (tg : nat).           (* .then_request(|v| request(op tg v)) *)
Inductive sbld :=
| SbStr (tg : nat) (e : expr)                (* Command::stream_from_shell(op) *)
| SbMap (s : sbld) (n : nat)
| SbThenReq (s : sbld) (tg : nat)            (* stream.then_request: one request per item, in item order *)
| SbOfReq (r : rbld) (tg : nat)              (* request.then_stream(|v| stream(op tg v)) *)
| SbThenStr (s : sbld) (tg : nat).           (* stream.then_stream(|v| stream(op tg v)): one inner stream per item, all
                                                inner streams merged as their items arrive (flatten_unordered) *)

Inductive cmd :=
| CNew (main : task) (extra : list task)      (* Command::new(main) followed by cmd.spawn(extra_i) *)
| CThen (a b : cmd)
| CAnd (a b : cmd)
| CAll (cs : list cmd)
| CMapEff (k : nat) (c : cmd)                 (* k >= 1; wraps every effect in marker k *)
| CMapEv (k : nat) (c : cmd)
| CIdEff (c : cmd)                            (* map_effect(|e| e) *)
| CIdEv (c : cmd)                             (* map_event(|e| e) *)
| CInto (c : cmd)                             (* Command::into / from with identity conversions *)
| CAbortable (name : nat) (c : cmd)           (* keep c.abort_handle() under [name] (>= 1) *)
| CSendR (r : rbld) (evtag : nat)             (* builder.then_send(|v| Event(evtag, v)) *)
| CSendS (s : sbld) (evtag : nat).

(* What the harness does with a program: a command (with its handler table when run under Core)
   and a schedule of shell actions. *)
Inductive action :=
| AEffects                       (* cmd.effects() / under Core: nothing (effects are returned by calls) *)
| AEvents
| AIsDone
| AResolve (tg v occ : nat) (out : nat)   (* resolve the occ-th request received with operation (tg,v) *)
| ADropReq (tg v occ : nat)
| AAbort (name : nat)
| AEvent (tg v : nat)            (* under Core: process_event *)
| ALive                          (* observe how many tasks the host holds (verification hook), no settling *)
| ASpawn (t : task).             (* direct host: cmd.spawn(t) on the outermost command, at any time *)

(* Convenience constructors mirroring the public builders *)
Definition c_done := CNew TRet [].
Definition c_event tg n := CNew (TEmit tg (K n) TRet) [].
Definition c_notify tg n := CNew (TNotify tg (K n) TRet) [].
Definition c_req_send tg n evtag := CNew (TReq tg (K n) 0 (TEmit evtag (V 0) TRet)) [].
Definition c_stream_send tg n evtag := CNew (TForEach tg (K n) 0 (TEmit evtag (V 0) TRet) TRet) [].

(* builder chains are single tasks: each stage awaits the previous one's output; a stream stage runs
   its continuation once per item, sequentially (StreamExt::then).  The value in flight lives in
   variables 20 / 21, which generated programs do not use. *)
Fixpoint task_of_rb (r : rbld) (k : expr -> task) : task :=
  match r with
  | RbReq tg e => TReq tg e 20 (k (V 20))
  | RbMap r' n => task_of_rb r' (fun v => k (Plus v (K n)))
  | RbThenReq r' tg => task_of_rb r' (fun v => TReq tg v 20 (k (V 20)))
  end.
Fixpoint task_of_sb (s : sbld) (body : expr -> task) : task :=
  match s with
  | SbStr tg e => TForEach tg e 20 (body (V 20)) TRet
  | SbMap s' n => task_of_sb s' (fun v => body (Plus v (K n)))
  | SbThenReq s' tg => task_of_sb s' (fun v => TReq tg v 21 (body (V 21)))
  | SbOfReq r tg => task_of_rb r (fun v => TForEach tg v 20 (body (V 20)) TRet)
  (* MEANING of then_stream on a stream when nothing downstream blocks (map / then_stream / then_send only):
     every item opens one more loop that runs beside the others; the whole is finished when all are.
     The code does this inside ONE task with futures' flatten_unordered, which the runtime model Rt.v does
     not model: programs containing SbThenStr are compared with the reference semantics only (sb_flat). *)
  | SbThenStr s' tg => task_of_sb s' (fun v => TSpawn (TForEach tg v 20 (body (V 20)) TRet) 22 TRet)
  end.
Fixpoint sb_flat (s : sbld) : bool :=
  match s with
  | SbStr _ _ | SbOfReq _ _ => false
  | SbMap s' _ | SbThenReq s' _ => sb_flat s'
  | SbThenStr _ _ => true
  end.
(* then_request after then_stream pulls the merged stream one item at a time: outside what the meaning above covers *)
Fixpoint sb_flat_ok (s : sbld) : bool :=
  match s with
  | SbStr _ _ | SbOfReq _ _ => true
  | SbMap s' _ | SbThenStr s' _ => sb_flat_ok s'
  | SbThenReq s' _ => negb (sb_flat s') && sb_flat_ok s'
  end.

(* does the command contain a then_stream on a stream (compared with the reference semantics only)? *)
Fixpoint cmd_flat (c : cmd) : bool :=
  match c with
  | CNew _ _ | CSendR _ _ => false
  | CThen a b | CAnd a b => cmd_flat a || cmd_flat b
  | CAll cs => existsb cmd_flat cs
  | CMapEff _ c' | CMapEv _ c' | CIdEff c' | CIdEv c' | CInto c' | CAbortable _ c' => cmd_flat c'
  | CSendS s _ => sb_flat s
  end.
Fixpoint cmd_flat_ok (c : cmd) : bool :=
  match c with
  | CNew _ _ | CSendR _ _ => true
  | CThen a b | CAnd a b => cmd_flat_ok a && cmd_flat_ok b
  | CAll cs => forallb cmd_flat_ok cs
  | CMapEff _ c' | CMapEv _ c' | CIdEff c' | CIdEv c' | CInto c' | CAbortable _ c' => cmd_flat_ok c'
  | CSendS s _ => sb_flat_ok s
  end.

(* the one-shot requests made inside a builder chain that contains a then_stream on a stream *)
Fixpoint rb_tags (r : rbld) : list nat :=
  match r with RbReq tg _ => [tg] | RbMap r' _ => rb_tags r' | RbThenReq r' tg => tg :: rb_tags r' end.
Fixpoint sb_once_tags (s : sbld) : list nat :=
  match s with
  | SbStr _ _ => []
  | SbMap s' _ | SbThenStr s' _ => sb_once_tags s'
  | SbThenReq s' tg => tg :: sb_once_tags s'
  | SbOfReq r _ => rb_tags r
  end.
Fixpoint cmd_flat_once_tags (c : cmd) : list nat :=
  match c with
  | CNew _ _ | CSendR _ _ => []
  | CThen a b | CAnd a b => cmd_flat_once_tags a ++ cmd_flat_once_tags b
  | CAll cs => flat_map cmd_flat_once_tags cs
  | CMapEff _ c' | CMapEv _ c' | CIdEff c' | CIdEv c' | CInto c' | CAbortable _ c' => cmd_flat_once_tags c'
  | CSendS s _ => if sb_flat s then sb_once_tags s else []
  end.

(* compile: the combinators as the code defines them (command/mod.rs) *)
Record cx := mkCx { cx_name : list nat; cx_main : task; cx_extra : list task }.
Definition host_of (meff mev : nat) (c : cx) (k : task) : task :=
  THost (cx_name c) meff mev (cx_main c) (cx_extra c) k.

Fixpoint compile (c : cmd) : cx :=
  match c with
  | CNew m ex => mkCx [] m ex
  | CThen a b => mkCx [] (host_of 0 0 (compile a) (host_of 0 0 (compile b) TRet)) []
  | CAnd a b => let ca := compile a in
                mkCx (cx_name ca) (cx_main ca) (cx_extra ca ++ [host_of 0 0 (compile b) TRet])
  | CAll cs => mkCx [] TRet (map (fun c' => host_of 0 0 (compile c') TRet) cs)
  | CMapEff k c' => mkCx [] (host_of k 0 (compile c') TRet) []
  | CMapEv k c' => mkCx [] (host_of 0 k (compile c') TRet) []
  | CIdEff c' => mkCx [] (host_of 0 0 (compile c') TRet) []
  | CIdEv c' => mkCx [] (host_of 0 0 (compile c') TRet) []
  | CInto c' => mkCx [] (host_of 0 0 (mkCx [] (host_of 0 0 (compile c') TRet) []) TRet) []
  | CAbortable n c' => let cc := compile c' in mkCx (n :: cx_name cc) (cx_main cc) (cx_extra cc)
  | CSendR r ev => mkCx [] (task_of_rb r (fun v => TEmit ev v TRet)) []
  | CSendS s ev => mkCx [] (task_of_sb s (fun v => TEmit ev v TRet)) []
  end.
