(* The wake chain (C05 "noticed by the outermost host in the same call"): CommandWaker::wake_by_ref
   enqueues the task in its own command, marks the poll's waker as woken and wakes whatever the
   command's AtomicWaker cell holds - the waker of the task that hosts the command - and so on upwards.
   If every host on the path has its waker registered (poll_next registers before it settles), the wake
   reaches the executor's ready queue, and on the way every hosting task has been queued in its own
   command.  Proved for every nesting depth. *)
From Coq Require Import List Arith Bool Lia.
From Crux Require Import Rt.Lang Rt.Rt Rt.Tables Rt.Frame Rt.Props.
Import ListNotations.

(* a path of registered wakers from a task waker up to the executor task q; l lists the commands on it *)
Inductive chain (H : heap) : waker -> list nat -> nat -> Prop :=
| ch_exec q : chain H (WExec q) [] q
| ch_cmd c s g w' l q :
    c_atomic (gcmd c H) = Some w' -> ~ In c l -> chain H w' l q -> chain H (WCmd c s g) (c :: l) q.

(* the chain only looks at the AtomicWaker cells of the commands on it *)
Lemma chain_frame H H' w l q :
  (forall c, In c l -> c_atomic (gcmd c H') = c_atomic (gcmd c H)) -> chain H w l q -> chain H' w l q.
Proof.
  intros Hf Ch. induction Ch as [q|c s g w' l q E Ni Ch IH].
  - constructor.
  - econstructor; [rewrite Hf by (left; reflexivity); exact E | exact Ni | apply IH; intros c' Hc'; apply Hf; right; exact Hc'].
Qed.

Lemma xready_ucmd c f H : xready (ucmd c f H) = xready H. Proof. reflexivity. Qed.
Lemma xready_set_woken g H : xready (set_woken g H) = xready H. Proof. reflexivity. Qed.
Lemma gcmd_set_woken c g H : gcmd c (set_woken g H) = gcmd c H. Proof. reflexivity. Qed.

(* one step of wake on a command whose cell is full *)
Lemma wake_step f c s g H w' :
  c_atomic (gcmd c H) = Some w' ->
  exists H2, wake (S f) (WCmd c s g) H = wake f w' H2 /\ xready H2 = xready H /\
             (forall c', c' <> c -> gcmd c' H2 = gcmd c' H) /\
             (c_alive (gcmd c H) = true -> In s (c_ready (gcmd c H2))) /\
             getd false g (woken H2) = true.
Proof.
  intros E. unfold wake; fold wake.
  set (H1 := if c_alive (gcmd c H) then ucmd c (fun cm => set_ready (c_ready cm ++ [s]) cm) H else H).
  assert (Ea : c_atomic (gcmd c (set_woken g H1)) = Some w').
  { rewrite gcmd_set_woken. subst H1. destruct (c_alive (gcmd c H)); [|exact E].
    rewrite gcmd_ucmd_same. destruct (gcmd c H); simpl in *. exact E. }
  rewrite Ea. exists (ucmd c (set_atomic None) (set_woken g H1)). split; [reflexivity|]. split; [|split; [|split]].
  - rewrite xready_ucmd, xready_set_woken. subst H1. destruct (c_alive (gcmd c H)); reflexivity.
  - intros c' Hne. assert (Hne' : c <> c') by (intros X; apply Hne; symmetry; exact X).
    rewrite gcmd_ucmd_other by exact Hne'. rewrite gcmd_set_woken. subst H1.
    destruct (c_alive (gcmd c H)); [apply gcmd_ucmd_other; exact Hne' | reflexivity].
  - intros Al. rewrite gcmd_ucmd_same, gcmd_set_woken. subst H1. rewrite Al. rewrite gcmd_ucmd_same.
    destruct (gcmd c H); simpl. apply in_or_app. right. left. reflexivity.
  - unfold ucmd; simpl. apply getd_updd_same.
Qed.

Lemma chain_inv_nil H w q : chain H w [] q -> w = WExec q.
Proof. intros Ch. inversion Ch; reflexivity. Qed.
Lemma chain_inv_cons H w c l q : chain H w (c :: l) q ->
  exists s g w', w = WCmd c s g /\ c_atomic (gcmd c H) = Some w' /\ ~ In c l /\ chain H w' l q.
Proof. intros Ch. inversion Ch; subst. do 3 eexists. repeat split; eauto. Qed.

Theorem wake_reaches_executor : forall l H w q fuel,
  chain H w l q -> length l < fuel ->
  xready (wake fuel w H) = xready H ++ [q].
Proof.
  induction l as [|c l IH]; intros H w q fuel Ch Lf.
  - apply chain_inv_nil in Ch. subst w. destruct fuel; [simpl in Lf; lia|]. reflexivity.
  - apply chain_inv_cons in Ch as (s & g & w' & -> & E & Ni & Ch).
    destruct fuel as [|f]; [simpl in Lf; lia|].
    destruct (wake_step f c s g H w' E) as (H2 & Ew & Ex & Eo & _ & _).
    rewrite Ew. rewrite <- Ex. apply IH; [|simpl in Lf; lia].
    eapply chain_frame; [|exact Ch]. intros c' Hc'. rewrite Eo; [reflexivity|]. intros ->. contradiction.
Qed.

(* ... and the woken task itself is queued in its (live) command and its poll's waker is marked woken *)
Theorem wake_queues_task : forall H c s g w' f,
  c_atomic (gcmd c H) = Some w' -> c_alive (gcmd c H) = true ->
  exists H2, wake (S f) (WCmd c s g) H = wake f w' H2 /\ In s (c_ready (gcmd c H2)) /\ getd false g (woken H2) = true.
Proof.
  intros H c s g w' f E Al. destruct (wake_step f c s g H w' E) as (H2 & Ew & _ & _ & Er & Ewk).
  exists H2. repeat split; auto.
Qed.

(* poll_next registers the host's waker before anything else: the first link of every chain *)
Lemma poll_next_registers_first : forall F cid w H,
  rpoll_next (step_funs F) cid w H = poll_next_body F cid w H /\
  c_atomic (gcmd cid (ucmd cid (set_atomic (Some w)) H)) = Some w.
Proof.
  intros. split; [reflexivity|]. rewrite gcmd_ucmd_same. destruct (gcmd cid H); reflexivity.
Qed.
