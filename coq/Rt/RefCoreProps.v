(* Theorems about the reference semantics under a Core (RefCore.v), the part of C02 it carries:
   request ids are never reused, at most one waiter exists per id in every reachable state, and an
   answer is received - unchanged, in the variable the task named - by exactly the strand that asked. *)
From Coq Require Import List Arith Bool Lia ZifyBool.
From Crux Require Import Rt.Lang Rt.Rt Rt.Host Rt.Ref Rt.RefCore.
Import ListNotations.

Local Arguments Nat.eqb : simpl never.
Local Arguments Nat.leb : simpl never.
Local Arguments Nat.ltb : simpl never.

Definition b2n (b : bool) : nat := if b then 1 else 0.
(* 1 when n <= r < n' *)
Definition inr (n n' r : nat) : nat := b2n ((n <=? r) && (r <? n')).

Ltac bl := unfold inr, b2n in *;
  repeat match goal with
         | |- context[if ?b then _ else _] => destruct b eqn:?
         | H : context[if ?b then _ else _] |- _ => destruct b eqn:?
         end; try lia.

Lemma ls_cons a l : list_sum (a :: l) = a + list_sum l. Proof. reflexivity. Qed.
Lemma ls_nil : list_sum [] = 0. Proof. reflexivity. Qed.

Section Count.
  Variable r : nat.
  Definition cw_slot (q : rslot) : nat := match q with SWait r' => b2n (Nat.eqb r' r) | _ => 0 end.
  Definition cw_leaf (l : rleaf) : nat :=
    match l with
    | RReq r' _ _ => b2n (Nat.eqb r' r)
    | RBoth a b _ _ _ | RRace a b _ _ => cw_slot a + cw_slot b
    | RBothJ _ b _ _ => cw_slot b
    | _ => 0
    end.
  Fixpoint cw_frames (st : list rframe) : nat :=
    match st with [] => 0 | fr :: t => b2n (Nat.eqb (rf_rid fr) r) + cw_frames t end.
  Definition cw_strand (s : rstrand) : nat := cw_leaf (s_leaf s) + cw_frames (s_stack s).
  Fixpoint cw_strands (l : list rstrand) : nat := match l with [] => 0 | s :: t => cw_strand s + cw_strands t end.
  Definition cw_opt (o : option rstrand) : nat := match o with Some s => cw_strand s | None => 0 end.
  Definition cw_bag (b : rbag) : nat := cw_strands (b_strands b).
  Fixpoint cw_rc (c : rc) : nat :=
    match c with
    | RBag b => cw_bag b
    | RSeq a _ => cw_rc a
    | RPar l => list_sum (map cw_rc l)
    | RMapEff _ a | RMapEv _ a => cw_rc a
    end.
  Definition cw_cmds (l : list kcmd) : nat := list_sum (map (fun c => cw_rc (kc_rc c)) l).

  Lemma cw_strands_app a b : cw_strands (a ++ b) = cw_strands a + cw_strands b.
  Proof. induction a as [|x a IH]; simpl; [reflexivity | rewrite IH; lia]. Qed.
  Lemma cw_strands_rev a : cw_strands (rev a) = cw_strands a.
  Proof. induction a as [|x a IH]; simpl; [reflexivity | rewrite cw_strands_app, IH; simpl; lia]. Qed.
  Lemma cw_frames_map f st : (forall fr, rf_rid (f fr) = rf_rid fr) -> cw_frames (map f st) = cw_frames st.
  Proof. intros Hf. induction st as [|fr st IH]; simpl; [reflexivity | rewrite Hf, IH; reflexivity]. Qed.
  Lemma cw_cmds_app a b : cw_cmds (a ++ b) = cw_cmds a + cw_cmds b.
  Proof. unfold cw_cmds. rewrite map_app, list_sum_app. reflexivity. Qed.
  Lemma cw_cmds_one en c : cw_cmds [mkKC en c] = cw_rc c.
  Proof. unfold cw_cmds. cbn [map kc_rc]. rewrite ls_cons, ls_nil. lia. Qed.
End Count.

(* ---------- one strand ---------- *)
Lemma run_strand_cw : forall fuel s nu n acc o os acc' nu' n' o',
  run_strand fuel s nu n acc o = Some (os, acc', nu', n', o') ->
  n <= n' /\ forall r, cw_opt r os + cw_strands r acc' <= cw_strand r s + cw_strands r acc + inr n n' r.
Proof.
  induction fuel as [|f IH]; intros s nu n acc o os acc' nu' n' o' E; [discriminate|].
  cbn [run_strand] in E. destruct s as [u en lf st]. cbn [s_uid s_env s_stack s_leaf] in E.
  Ltac fin E := inversion E; subst; clear E; split; [lia | intros rr; unfold cw_opt, cw_strand; simpl; bl].
  Ltac rec IH E := apply IH in E; destruct E as [L C]; split; [lia | intros rr; specialize (C rr); revert C; unfold cw_strand; simpl; try rewrite cw_strands_app; simpl; bl].
  destruct lf as [t|rid x k| |uid k| |a b x1 x2 k|a b x k|uid b x k].
  - destruct t.
    + destruct st; [fin E | rec IH E].
    + rec IH E.
    + rec IH E.
    + fin E.
    + fin E.
    + rec IH E.
    + fin E.
    + rec IH E.
    + rec IH E.
    + fin E.
    + rec IH E.
    + fin E.
    + fin E.
    + fin E.
    + fin E.
    + rec IH E.
  - fin E.
  - destruct st as [|fr rest]; [fin E|].
    destruct (rf_buf fr) as [|m more] eqn:EB.
    + destruct (rf_closed fr); [rec IH E | fin E].
    + rec IH E.
  - fin E.
  - fin E.
  - destruct a, b; try (fin E); rec IH E.
  - destruct a, b; try (fin E); rec IH E.
  - fin E.
Qed.

(* ---------- a bag of strands ---------- *)
Lemma pick_cw b : forall l pre p s q, pick b pre l = Some (p, s, q) ->
  forall r, cw_strands r p + cw_strand r s + cw_strands r q = cw_strands r pre + cw_strands r l.
Proof.
  induction l as [|x l IH]; intros pre p s q E rr; simpl in E; [discriminate|].
  destruct (can_move b x).
  - inversion E; subst. rewrite cw_strands_rev. simpl. lia.
  - apply IH with (r := rr) in E. simpl in *. lia.
Qed.
Lemma unblock_cw r s : cw_strand r (unblock s) = cw_strand r s.
Proof. unfold unblock, cw_strand. destruct (s_leaf s) eqn:E; simpl; rewrite ?E; reflexivity. Qed.

Lemma inr_trans n n1 n2 r : n <= n1 -> n1 <= n2 -> inr n n1 r + inr n1 n2 r <= inr n n2 r.
Proof. intros. bl. Qed.

Lemma run_bag_cw : forall fuel b n o b' n' o',
  run_bag fuel b n o = Some (b', n', o') ->
  n <= n' /\ forall r, cw_bag r b' <= cw_bag r b + inr n n' r.
Proof.
  induction fuel as [|f IH]; intros b n o b' n' o' E; [discriminate|].
  cbn [run_bag] in E.
  destruct (pick b [] (b_strands b)) as [[[pre s] post]|] eqn:EP.
  2:{ inversion E; subst. split; [lia | intros rr; bl]. }
  pose proof (pick_cw b _ _ _ _ _ EP) as P.
  destruct (run_strand SF (unblock s) (b_next b) n [] o) as [[[[[os spawned] nu] n1] o1]|] eqn:ES; [|discriminate].
  apply run_strand_cw in ES. destruct ES as [L1 C1].
  destruct os as [s'|]; apply IH in E; destruct E as [L2 C2]; (split; [lia|]); intros rr;
    specialize (C2 rr); specialize (C1 rr); specialize (P rr); pose proof (inr_trans n n1 n' rr L1 L2);
    unfold cw_bag in *; simpl in *; repeat rewrite cw_strands_app in C2; simpl in *; rewrite unblock_cw in C1; lia.
Qed.

Lemma start_bag_cw r en m ex : cw_bag r (start_bag en m ex) = 0.
Proof.
  unfold start_bag, cw_bag. cbn [b_strands cw_strands]. unfold cw_strand at 1. cbn [s_leaf s_stack cw_leaf cw_frames].
  induction (combine (seq 0 (length ex)) ex) as [|x l IH]; cbn [map cw_strands]; [reflexivity|].
  unfold cw_strand at 1. cbn [s_leaf s_stack cw_leaf cw_frames]. exact IH.
Qed.
Lemma start_cw r : forall c en, cw_rc r (start en c) = 0.
Proof.
  fix IH 1. intros c en.
  destruct c as [m ex|a b|a b|cs|k c'|k c'|c'|c'|c'|nm c'|rb ev|sb ev]; cbn [start cw_rc].
  - apply start_bag_cw.
  - apply IH.
  - cbn [map]; rewrite ?ls_cons, ?ls_nil. rewrite !IH. reflexivity.
  - induction cs as [|x cs IHl]; cbn [map]; rewrite ?ls_cons, ?ls_nil; [reflexivity|]. rewrite IH. exact IHl.
  - apply IH.
  - apply IH.
  - apply IH.
  - apply IH.
  - apply IH.
  - apply IH.
  - apply start_bag_cw.
  - apply start_bag_cw.
Qed.

(* ---------- a residual command ---------- *)
(* the kernel must never unfold the fuel numerals while re-checking these proofs *)
Strategy opaque [SF RF].
Lemma run_cw : forall fuel en c n c' n' o,
  run fuel en c n = Some (c', n', o) ->
  n <= n' /\ forall r, cw_rc r c' <= cw_rc r c + inr n n' r.
Proof.
  induction fuel as [|f IH]; intros en c n c' n' o E; [discriminate|].
  destruct c as [b|a b|l|k a|k a]; cbn [run] in E.
  - destruct (run_bag SF b n ro0) as [[[b1 n1] o1]|] eqn:EB; [|discriminate].
    inversion E; subst. apply run_bag_cw in EB. exact EB.
  - destruct (run f en a n) as [[[a1 n1] o1]|] eqn:EA; [|discriminate].
    apply IH in EA. destruct EA as [L1 C1].
    destruct (rdone a1).
    + destruct (run f en (start en b) n1) as [[[b2 n2] o2]|] eqn:EB; [|discriminate].
      inversion E; subst. apply IH in EB. destruct EB as [L2 C2]. split; [lia|]. intros rr.
      specialize (C2 rr). rewrite start_cw in C2. pose proof (inr_trans n n1 n' rr L1 L2). simpl. bl.
    + inversion E; subst. split; [lia|]. intros rr. simpl. apply C1.
  - match type of E with match ?g l n with _ => _ end = _ => set (go := g) in * end.
    assert (G : forall l n l' n' o, go l n = Some (l', n', o) ->
                n <= n' /\ forall r, list_sum (map (cw_rc r) l') <= list_sum (map (cw_rc r) l) + inr n n' r).
    { clear E. induction l0 as [|x l0 IHl]; intros n0 l' n0' o0 E0; simpl in E0.
      - inversion E0; subst. split; [lia | intros rr; simpl; bl].
      - destruct (run f en x n0) as [[[x1 n1] o1]|] eqn:EX; [|discriminate].
        destruct (go l0 n1) as [[[r1 n2] o2]|] eqn:EG; [|discriminate].
        inversion E0; subst. apply IH in EX. destruct EX as [L1 C1]. apply IHl in EG. destruct EG as [L2 C2].
        split; [lia|]. intros rr. specialize (C1 rr). specialize (C2 rr). pose proof (inr_trans n0 n1 n0' rr L1 L2). simpl. lia. }
    destruct (go l n) as [[[l1 n1] o1]|] eqn:EG; [|discriminate].
    inversion E; subst. apply G in EG. exact EG.
  - destruct (run f en a n) as [[[a1 n1] o1]|] eqn:EA; [|discriminate]. inversion E; subst. apply IH in EA. exact EA.
  - destruct (run f en a n) as [[[a1 n1] o1]|] eqn:EA; [|discriminate]. inversion E; subst. apply IH in EA. exact EA.
Qed.

(* ---------- the shell's inputs never create a waiter ---------- *)
Lemma fill_slot_cw r rid v q : cw_slot r (snd (fill_slot rid v q)) <= cw_slot r q.
Proof. unfold fill_slot. destruct q as [r'| |]; simpl; try lia. destruct (Nat.eqb r' rid); simpl; lia. Qed.
Lemma gone_slot_cw r rid q : cw_slot r (gone_slot rid q) <= cw_slot r q.
Proof. unfold gone_slot. destruct q as [r'| |]; simpl; try lia. destruct (Nat.eqb r' rid); simpl; lia. Qed.

Definition buf_frame rid v (fr : rframe) : rframe :=
  if Nat.eqb (rf_rid fr) rid then mkRF (rf_rid fr) (rf_x fr) (rf_body fr) (rf_k fr) (rf_buf fr ++ [v]) (rf_closed fr) else fr.
Lemma buf_frame_rid rid v fr : rf_rid (buf_frame rid v fr) = rf_rid fr.
Proof. unfold buf_frame. destruct (Nat.eqb (rf_rid fr) rid); reflexivity. Qed.
Definition close_frame rid (fr : rframe) : rframe :=
  if Nat.eqb (rf_rid fr) rid then mkRF (rf_rid fr) (rf_x fr) (rf_body fr) (rf_k fr) (rf_buf fr) true else fr.
Lemma close_frame_rid rid fr : rf_rid (close_frame rid fr) = rf_rid fr.
Proof. unfold close_frame. destruct (Nat.eqb (rf_rid fr) rid); reflexivity. Qed.

Lemma deliver_strand_cw r rid v s : cw_strand r (snd (deliver_strand rid v s)) <= cw_strand r s.
Proof.
  unfold deliver_strand, cw_strand.
  pose proof (cw_frames_map r (buf_frame rid v) (s_stack s) (buf_frame_rid rid v)) as FM. unfold buf_frame in FM.
  destruct (s_leaf s) as [t|r' x k| |u k| |a b x1 x2 k|a b x k|uid b x k] eqn:EL; cbn [snd s_leaf s_stack]; try (rewrite FM, ?EL; simpl; lia).
  - destruct (Nat.eqb r' rid); cbn [snd s_leaf s_stack]; [simpl; lia | rewrite FM, ?EL; simpl; lia].
  - pose proof (fill_slot_cw r rid v a). pose proof (fill_slot_cw r rid v b).
    destruct (fill_slot rid v a) as [ta a'], (fill_slot rid v b) as [tb b']. cbn [snd] in *.
    destruct (ta || tb); cbn [snd s_leaf s_stack]; [simpl; lia | rewrite FM, ?EL; simpl; lia].
  - pose proof (fill_slot_cw r rid v a). pose proof (fill_slot_cw r rid v b).
    destruct (fill_slot rid v a) as [ta a'], (fill_slot rid v b) as [tb b']. cbn [snd] in *.
    destruct (ta || tb); cbn [snd s_leaf s_stack]; [simpl; lia | rewrite FM, ?EL; simpl; lia].
  - pose proof (fill_slot_cw r rid v b).
    destruct (fill_slot rid v b) as [tb b']. cbn [snd] in *.
    destruct tb; cbn [snd s_leaf s_stack]; [simpl; lia | rewrite FM, ?EL; simpl; lia].
Qed.

Lemma deliver_cw r rid v : forall c, cw_rc r (snd (deliver rid v c)) <= cw_rc r c.
Proof.
  fix IH 1. intros c. destruct c as [b|a b|l|k a|k a]; cbn [deliver].
  - cbn [snd cw_rc]. unfold cw_bag. cbn [b_strands]. induction (b_strands b) as [|s l IHl]; cbn [map cw_strands]; [lia|].
    pose proof (deliver_strand_cw r rid v s). lia.
  - specialize (IH a). destruct (deliver rid v a) as [t a']. cbn [snd cw_rc] in *. exact IH.
  - cbn [snd cw_rc]. induction l as [|x l IHl]; cbn [map]; rewrite ?ls_cons, ?ls_nil; [lia|]. specialize (IH x). lia.
  - specialize (IH a). destruct (deliver rid v a) as [t a']. cbn [snd cw_rc] in *. exact IH.
  - specialize (IH a). destruct (deliver rid v a) as [t a']. cbn [snd cw_rc] in *. exact IH.
Qed.

Lemma close_frames_cw r rid s : cw_strand r (close_frames rid s) = cw_strand r s.
Proof.
  unfold close_frames, cw_strand. cbn [s_leaf s_stack].
  pose proof (cw_frames_map r (close_frame rid) (s_stack s) (close_frame_rid rid)) as FM. unfold close_frame in FM. rewrite FM. reflexivity.
Qed.
Lemma kill_waiter_cw r rid s : cw_strand r (kill_waiter rid s) <= cw_strand r s.
Proof.
  unfold kill_waiter. destruct (waits_once rid s).
  - unfold cw_strand; simpl. lia.
  - destruct (s_leaf s) as [t|r' x k| |u k| |a b x1 x2 k|a b x k|uid b x k] eqn:EL; rewrite close_frames_cw; try lia.
    + unfold cw_strand. cbn [s_leaf s_stack]. rewrite EL. simpl.
      pose proof (gone_slot_cw r rid a). pose proof (gone_slot_cw r rid b). lia.
    + unfold cw_strand. cbn [s_leaf s_stack]. rewrite EL. simpl.
      pose proof (gone_slot_cw r rid a). pose proof (gone_slot_cw r rid b). lia.
    + unfold cw_strand. cbn [s_leaf s_stack]. rewrite EL. simpl.
      pose proof (gone_slot_cw r rid b). lia.
Qed.
Lemma dropreq_cw r rid : forall c, cw_rc r (dropreq rid c) <= cw_rc r c.
Proof.
  fix IH 1. intros c. destruct c as [b|a b|l|k a|k a]; cbn [dropreq cw_rc].
  - unfold cw_bag. cbn [b_strands]. induction (b_strands b) as [|s l IHl]; cbn [map cw_strands]; [lia|].
    pose proof (kill_waiter_cw r rid s). lia.
  - apply IH.
  - induction l as [|x l IHl]; cbn [map]; rewrite ?ls_cons, ?ls_nil; [lia|]. specialize (IH x). lia.
  - apply IH.
  - apply IH.
Qed.

(* ---------- all the commands of the app ---------- *)
Lemma run_cmds_cw : forall fuel l n l' n' o,
  run_cmds fuel l n = Some (l', n', o) ->
  n <= n' /\ forall r, cw_cmds r l' <= cw_cmds r l + inr n n' r.
Proof.
  intros fuel. induction l as [|c l IH]; intros n l' n' o E; cbn [run_cmds] in E.
  - inversion E; subst. split; [lia | intros rr; bl].
  - destruct (run fuel (kc_env c) (kc_rc c) n) as [[[c1 n1] o1]|] eqn:EC; [|discriminate].
    destruct (run_cmds fuel l n1) as [[[l2 n2] o2]|] eqn:EL; [|discriminate].
    apply run_cw in EC. destruct EC as [L1 C1]. apply IH in EL. destruct EL as [L2 C2].
    inversion E; subst. split; [lia|]. intros rr. specialize (C1 rr). specialize (C2 rr).
    pose proof (inr_trans n n1 n' rr L1 L2). unfold cw_cmds in *.
    destruct (rdone c1); cbn [map kc_rc]; rewrite ?ls_cons, ?ls_nil; lia.
Qed.

Lemma kprocess_cw : forall fuel hs st st',
  kprocess fuel hs st = Some st' ->
  ks_n st <= ks_n st' /\ forall r, cw_cmds r (ks_cmds st') <= cw_cmds r (ks_cmds st) + inr (ks_n st) (ks_n st') r.
Proof.
  induction fuel as [|f IH]; intros hs st st' E; [discriminate|]. cbn [kprocess] in E.
  destruct (run_cmds RF (ks_cmds st) (ks_n st)) as [[[l1 n1] o1]|] eqn:ER; [|discriminate].
  apply run_cmds_cw in ER. destruct ER as [L1 C1].
  destruct (ks_q st ++ ro_evs o1) as [|e rest].
  - inversion E; subst. cbn [ks_n ks_cmds]. split; [exact L1 | exact C1].
  - apply IH in E. cbn [ks_n ks_cmds] in E. destruct E as [L2 C2]. split; [lia|]. intros rr.
    specialize (C1 rr). specialize (C2 rr). rewrite cw_cmds_app, cw_cmds_one, start_cw in C2. pose proof (inr_trans (ks_n st) n1 (ks_n st') rr L1 L2). lia.
Qed.

(* ---------- the invariant of every reachable state ---------- *)
Definition Inv (st : kst) : Prop :=
  forall r, cw_cmds r (ks_cmds st) <= 1 /\ (1 <= cw_cmds r (ks_cmds st) -> r < ks_n st).

Lemma Inv_step n l n' l' :
  n <= n' -> (forall r, cw_cmds r l' <= cw_cmds r l + inr n n' r) ->
  (forall r, cw_cmds r l <= 1 /\ (1 <= cw_cmds r l -> r < n)) ->
  forall r, cw_cmds r l' <= 1 /\ (1 <= cw_cmds r l' -> r < n').
Proof. intros L C I rr. specialize (C rr). specialize (I rr). bl. Qed.

Lemma kdeliver_cw r rid v l : cw_cmds r (snd (kdeliver rid v l)) <= cw_cmds r l.
Proof.
  unfold kdeliver. cbn [snd]. unfold cw_cmds. induction l as [|c l IH]; cbn [map]; rewrite ?ls_cons, ?ls_nil; [lia|].
  pose proof (deliver_cw r rid v (kc_rc c)). destruct (deliver rid v (kc_rc c)) as [t c']. cbn [snd kc_rc] in *. lia.
Qed.
Lemma kdrop_cw r rid l : cw_cmds r (map (fun c => mkKC (kc_env c) (dropreq rid (kc_rc c))) l) <= cw_cmds r l.
Proof.
  unfold cw_cmds. induction l as [|c l IH]; cbn [map kc_rc]; rewrite ?ls_cons, ?ls_nil; [lia|]. pose proof (dropreq_cw r rid (kc_rc c)). lia.
Qed.

Lemma Inv_kprocess hs st st' :
  kprocess RF hs st = Some st' -> Inv st -> Inv st'.
Proof. intros E I. apply kprocess_cw in E. destruct E as [L C]. unfold Inv. eapply Inv_step; eauto. Qed.
Lemma Inv_kreturn st : Inv st -> Inv (snd (kreturn st)).
Proof. intros I. exact I. Qed.
Lemma Inv_weaken st l : ks_n st = ks_n st -> (forall r, cw_cmds r l <= cw_cmds r (ks_cmds st)) -> Inv st -> Inv (with_cmds l st).
Proof. intros _ C I rr. specialize (C rr). specialize (I rr). unfold with_cmds; cbn [ks_cmds ks_n]. lia. Qed.

Theorem Inv_kstep hs a st o st' : kstep hs a st = Some (o, st') -> Inv st -> Inv st'.
Proof.
  intros E I. destruct a; cbn [kstep] in E; try (inversion E; subst; exact I).
  - (* AResolve *)
    destruct (find_rr tg v occ 0 (ks_reqs st)) as [i|]; [|inversion E; subst; exact I].
    set (q := nth i (ks_reqs st) _) in *.
    destruct (rr_state q) as [|[|[|k]]]; try (inversion E; subst; exact I).
    + destruct (kdeliver (re_rid (rr_eff q)) out (ks_cmds st)) as [t l'] eqn:ED.
      match type of E with match kprocess RF hs ?s1 with _ => _ end = _ => destruct (kprocess RF hs s1) as [st2|] eqn:EP; [|discriminate] end.
      inversion E; subst. apply Inv_kreturn. eapply Inv_kprocess; [exact EP|].
      intros rr. pose proof (kdeliver_cw rr (re_rid (rr_eff q)) out (ks_cmds st)) as D. rewrite ED in D. cbn [snd] in D.
      specialize (I rr). unfold with_reqs, with_cmds; cbn [ks_cmds ks_n]. lia.
    + destruct (kdeliver (re_rid (rr_eff q)) out (ks_cmds st)) as [t l'] eqn:ED.
      destruct t; [|inversion E; subst; exact I].
      match type of E with match kprocess RF hs ?s1 with _ => _ end = _ => destruct (kprocess RF hs s1) as [st2|] eqn:EP; [|discriminate] end.
      inversion E; subst. apply Inv_kreturn. eapply Inv_kprocess; [exact EP|].
      intros rr. pose proof (kdeliver_cw rr (re_rid (rr_eff q)) out (ks_cmds st)) as D. rewrite ED in D. cbn [snd] in D.
      specialize (I rr). unfold with_cmds; cbn [ks_cmds ks_n]. lia.
  - (* ADropReq *)
    destruct (find_rr tg v occ 0 (ks_reqs st)) as [i|]; [|inversion E; subst; exact I].
    set (q := nth i (ks_reqs st) _) in *.
    destruct (rr_state q) as [|[|[|[|k]]]]; try (inversion E; subst; exact I);
      (destruct (Nat.eqb (re_kind (rr_eff q)) 3); inversion E; subst; try exact I;
       intros rr; pose proof (kdrop_cw rr (re_rid (rr_eff q)) (ks_cmds st)); specialize (I rr);
       unfold with_reqs, with_cmds; cbn [ks_cmds ks_n]; lia).
  - (* AEvent *)
    match type of E with match kprocess RF hs ?s1 with _ => _ end = _ => destruct (kprocess RF hs s1) as [st2|] eqn:EP; [|discriminate] end.
    inversion E; subst. apply Inv_kreturn. eapply Inv_kprocess; [exact EP|].
    intros rr. cbn [ks_cmds ks_n]. rewrite cw_cmds_app, cw_cmds_one, start_cw.
    specialize (I rr). lia.
Qed.

Lemma Inv0 : Inv ks0.
Proof. intros rr. unfold ks0, cw_cmds; simpl. lia. Qed.

(* every state a history of shell inputs can reach *)
Inductive reach (hs : handlers) : kst -> Prop :=
| reach0 : reach hs ks0
| reach_step a st o st' : reach hs st -> kstep hs a st = Some (o, st') -> reach hs st'.
Lemma reach_step' hs a st st' : reach hs st -> option_map snd (kstep hs a st) = Some st' -> reach hs st'.
Proof. intros R E. destruct (kstep hs a st) as [[o s1]|] eqn:EK; [|discriminate]. inversion E; subst. eapply reach_step; eauto. Qed.
Theorem reach_Inv hs st : reach hs st -> Inv st.
Proof. induction 1 as [|a st o st' R IH E]; [exact Inv0 | eapply Inv_kstep; eauto]. Qed.

(* ---------- delivery is exact ---------- *)
Lemma fill_slot_other rid v q : cw_slot rid q = 0 -> fill_slot rid v q = (false, q).
Proof. unfold fill_slot, cw_slot. destruct q as [r'| |]; try reflexivity. destruct (Nat.eqb r' rid); [discriminate | reflexivity]. Qed.
Lemma frames_other rid v st : cw_frames rid st = 0 ->
  existsb (fun fr => Nat.eqb (rf_rid fr) rid) st = false /\
  map (fun fr => if Nat.eqb (rf_rid fr) rid then mkRF (rf_rid fr) (rf_x fr) (rf_body fr) (rf_k fr) (rf_buf fr ++ [v]) (rf_closed fr) else fr) st = st.
Proof.
  induction st as [|fr st IH]; cbn [cw_frames existsb map]; intros E; [split; reflexivity|].
  destruct (Nat.eqb (rf_rid fr) rid); [discriminate|]. cbn [b2n] in E. destruct (IH E) as [-> ->]. split; reflexivity.
Qed.
Lemma deliver_strand_other rid v s : cw_strand rid s = 0 -> deliver_strand rid v s = (false, s).
Proof.
  unfold cw_strand, deliver_strand. destruct s as [u en lf st]. cbn [s_leaf s_stack s_uid s_env]. intros E.
  assert (EF : cw_frames rid st = 0) by lia. destruct (frames_other rid v st EF) as [X M]. rewrite X, M.
  destruct lf as [t|r' x k| |u' k| |a b x1 x2 k|a b x k|uid b x k]; try reflexivity; cbn [cw_leaf] in E.
  - destruct (Nat.eqb r' rid); [discriminate | reflexivity].
  - rewrite (fill_slot_other rid v a), (fill_slot_other rid v b) by lia. reflexivity.
  - rewrite (fill_slot_other rid v a), (fill_slot_other rid v b) by lia. reflexivity.
  - rewrite (fill_slot_other rid v b) by lia. reflexivity.
Qed.
Lemma deliver_strand_req rid v s x k : s_leaf s = RReq rid x k ->
  deliver_strand rid v s = (true, mkRS (s_uid s) (setv x v (s_env s)) (RRun k) (s_stack s)).
Proof. intros E. unfold deliver_strand. rewrite E, Nat.eqb_refl. reflexivity. Qed.

(* every strand of a residual command, of an app *)
Fixpoint strands_rc (c : rc) : list rstrand :=
  match c with
  | RBag b => b_strands b
  | RSeq a _ => strands_rc a
  | RPar l => concat (map strands_rc l)
  | RMapEff _ a | RMapEv _ a => strands_rc a
  end.
Definition strands_of (l : list kcmd) : list rstrand := concat (map (fun c => strands_rc (kc_rc c)) l).

Lemma cw_strands_concat r ll : cw_strands r (concat ll) = list_sum (map (cw_strands r) ll).
Proof. induction ll as [|x ll IH]; cbn [concat map]; rewrite ?ls_cons, ?ls_nil; [reflexivity|]. rewrite cw_strands_app, IH. reflexivity. Qed.
Lemma cw_rc_strands r : forall c, cw_rc r c = cw_strands r (strands_rc c).
Proof.
  fix IH 1. intros c. destruct c as [b|a b|l|k a|k a]; cbn [cw_rc strands_rc]; try apply IH; [reflexivity|].
  rewrite cw_strands_concat, map_map. induction l as [|x l IHl]; cbn [map]; rewrite ?ls_cons, ?ls_nil; [reflexivity|]. rewrite IH, IHl. reflexivity.
Qed.
Lemma cw_cmds_strands r l : cw_cmds r l = cw_strands r (strands_of l).
Proof.
  unfold cw_cmds, strands_of. rewrite cw_strands_concat, map_map.
  induction l as [|c l IH]; cbn [map]; rewrite ?ls_cons, ?ls_nil; [reflexivity|]. rewrite cw_rc_strands, IH. reflexivity.
Qed.

Lemma deliver_strands rid v : forall c,
  strands_rc (snd (deliver rid v c)) = map (fun s => snd (deliver_strand rid v s)) (strands_rc c).
Proof.
  fix IH 1. intros c. destruct c as [b|a b|l|k a|k a]; cbn [deliver].
  - cbn [snd strands_rc b_strands]. rewrite map_map. reflexivity.
  - specialize (IH a). destruct (deliver rid v a) as [t a']. exact IH.
  - cbn [snd strands_rc]. rewrite concat_map, !map_map. f_equal.
    induction l as [|x l IHl]; cbn [map]; [reflexivity|]. rewrite IH, IHl. reflexivity.
  - specialize (IH a). destruct (deliver rid v a) as [t a']. exact IH.
  - specialize (IH a). destruct (deliver rid v a) as [t a']. exact IH.
Qed.
Lemma kdeliver_strands rid v l :
  strands_of (snd (kdeliver rid v l)) = map (fun s => snd (deliver_strand rid v s)) (strands_of l).
Proof.
  unfold kdeliver, strands_of. cbn [snd]. rewrite concat_map, !map_map. f_equal.
  induction l as [|c l IH]; cbn [map]; [reflexivity|]. rewrite <- IH. f_equal.
  pose proof (deliver_strands rid v (kc_rc c)) as D. destruct (deliver rid v (kc_rc c)) as [t c']. exact D.
Qed.

Lemma cw_zero_elsewhere r pre s post :
  cw_strands r (pre ++ s :: post) <= 1 -> 1 <= cw_strand r s ->
  (forall s', In s' pre -> cw_strand r s' = 0) /\ (forall s', In s' post -> cw_strand r s' = 0).
Proof.
  rewrite cw_strands_app. cbn [cw_strands]. intros L S.
  assert (Z : forall l, cw_strands r l = 0 -> forall s', In s' l -> cw_strand r s' = 0).
  { induction l as [|y l IH]; cbn [cw_strands In]; intros E s' I; [contradiction|]. destruct I as [->|I]; [lia | apply IH; [lia | exact I]]. }
  split; apply Z; lia.
Qed.
Lemma map_other rid v l : (forall s', In s' l -> cw_strand rid s' = 0) ->
  map (fun s => snd (deliver_strand rid v s)) l = l.
Proof.
  induction l as [|y l IH]; cbn [map]; intros Z; [reflexivity|].
  rewrite (deliver_strand_other rid v y) by (apply Z; left; reflexivity). cbn [snd]. rewrite IH; [reflexivity|].
  intros s' I. apply Z. right. exact I.
Qed.

(* C02 on the reference semantics: in every reachable state of every app, the value the shell
   passes when resolving request [rid] is stored - unchanged - in the variable named by the strand
   that issued [rid], that strand resumes, and no other strand of the app changes at all *)
Theorem delivery_exact hs st pre s post rid x k v :
  reach hs st ->
  strands_of (ks_cmds st) = pre ++ s :: post -> s_leaf s = RReq rid x k ->
  strands_of (snd (kdeliver rid v (ks_cmds st))) =
  pre ++ mkRS (s_uid s) (setv x v (s_env s)) (RRun k) (s_stack s) :: post.
Proof.
  intros R ES EL. pose proof (reach_Inv hs st R rid) as [I1 _].
  rewrite cw_cmds_strands, ES in I1.
  assert (S1 : 1 <= cw_strand rid s) by (unfold cw_strand; rewrite EL; cbn [cw_leaf]; rewrite Nat.eqb_refl; cbn [b2n]; lia).
  destruct (cw_zero_elsewhere rid pre s post I1 S1) as [Zp Zq].
  rewrite kdeliver_strands, ES, map_app. cbn [map].
  rewrite (map_other rid v pre Zp), (map_other rid v post Zq), (deliver_strand_req rid v s x k EL). reflexivity.
Qed.

(* a request id names the strand that issued it: the strand that emits a one-shot request is the one
   that then waits on the id the effect carries, and that id was never used before *)
Lemma request_owner f u en tg e x k st nu n acc o :
  run_strand (S f) (mkRS u en (RRun (TReq tg e x k)) st) nu n acc o =
  Some (Some (mkRS u en (RReq n x k) st), acc, nu, S n, ro_app o (mkRO [mkRE tg (eval en e) [] n 1] [])).
Proof. reflexivity. Qed.
Theorem fresh_ids hs st : reach hs st -> forall r, ks_n st <= r -> cw_cmds r (ks_cmds st) = 0.
Proof. intros R rr L. destruct (reach_Inv hs st R rr) as [_ I2]. lia. Qed.
