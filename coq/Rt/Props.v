(* Theorems about the runtime model obtained from the frame principle (Frame.v). *)
From Coq Require Import List Arith Bool Lia.
From Crux Require Import Rt.Lang Rt.Rt Rt.Tables Rt.Frame.
Import ListNotations.

(* ---------- instance 1: abort bookkeeping is never touched by the runtime ---------- *)
Definition Rmeta (H H' : heap) : Prop :=
  (exists l, aborted H' = l ++ aborted H) /\
  length (cmds H) <= length (cmds H') /\
  forall c, c < length (cmds H) -> meta (gcmd c H') = meta (gcmd c H).

Lemma Rmeta_refl H : Rmeta H H.
Proof. repeat split; auto. exists []. reflexivity. Qed.
Lemma Rmeta_trans a b c : Rmeta a b -> Rmeta b c -> Rmeta a c.
Proof.
  intros ([l1 A1] & A2 & A3) ([l2 B1] & B2 & B3). repeat split; try lia.
  - exists (l2 ++ l1). rewrite B1, A1. apply app_assoc.
  - intros x Hx. rewrite B3 by lia. apply A3; exact Hx.
Qed.
Lemma Rmeta_same_cmds H H' : aborted H' = aborted H -> cmds H' = cmds H -> Rmeta H H'.
Proof. intros A B. unfold Rmeta, gcmd. rewrite A, B. repeat split; auto. exists []. reflexivity. Qed.

Lemma Rmeta_ucmd c f H : good f -> Rmeta H (ucmd c f H).
Proof.
  intros G. repeat split.
  - exists []. reflexivity.
  - unfold ucmd; simpl. apply length_updd.
  - intros x Hx. destruct (Nat.eq_dec c x) as [->|Hne].
    + rewrite gcmd_ucmd_same. apply (proj1 (G _)).
    + rewrite gcmd_ucmd_other by exact Hne. reflexivity.
Qed.
Lemma Rmeta_add_cmd c H : Rmeta H (mkH (chans H) (tfl H) (cmds H ++ [c]) (woken H) (xready H) (aborted H) (log H) (hout H)).
Proof.
  repeat split; simpl.
  - exists []. reflexivity.
  - rewrite app_length; simpl; lia.
  - intros x Hx. unfold gcmd, getd; simpl. rewrite app_nth1 by exact Hx. reflexivity.
Qed.

Lemma Rmeta_add_aborted n H : Rmeta H (add_aborted n H).
Proof.
  unfold Rmeta, add_aborted, gcmd; simpl. repeat split; auto.
  exists [(n, length (cmds H))]. reflexivity.
Qed.

Definition frame_meta := frame_all Rmeta Rmeta_refl Rmeta_trans Rmeta_ucmd
  (fun c f H _ => Rmeta_same_cmds H (uch c f H) eq_refl eq_refl)
  (fun u f H _ => Rmeta_same_cmds H (utf u f H) eq_refl eq_refl)
  (fun n H => Rmeta_same_cmds H (note n H) eq_refl eq_refl)
  (fun g H => Rmeta_same_cmds H (set_woken g H) eq_refl eq_refl)
  (fun q H => Rmeta_same_cmds H (push_xready q H) eq_refl eq_refl)
  (fun c H => Rmeta_same_cmds H _ eq_refl eq_refl)
  (fun t H => Rmeta_same_cmds H _ eq_refl eq_refl)
  (fun H => Rmeta_same_cmds H _ eq_refl eq_refl)
  Rmeta_add_aborted
  (fun e H => Rmeta_same_cmds H (push_hout e H) eq_refl eq_refl)
  Rmeta_add_cmd.

Lemma was_aborted_mono cid H H' : cid < length (cmds H) -> Rmeta H H' -> was_aborted cid H = true -> was_aborted cid H' = true.
Proof.
  intros Hc ([l A] & _ & M). unfold was_aborted. specialize (M cid Hc). unfold meta in M.
  inversion M as [[Mn Me]]. rewrite A, Mn, Me. intros E.
  apply existsb_exists in E as (x & Hx & Ex). apply existsb_exists. exists x. split; [exact Hx|].
  apply existsb_exists in Ex as (a & Ha & Ea). apply existsb_exists. exists a. split; [|exact Ea].
  apply in_or_app. right. exact Ha.
Qed.
Lemma was_aborted_false_back cid H H' : cid < length (cmds H) -> Rmeta H H' -> was_aborted cid H' = false -> was_aborted cid H = false.
Proof.
  intros Hc R E. destruct (was_aborted cid H) eqn:E0; [|reflexivity].
  rewrite (was_aborted_mono cid H H' Hc R E0) in E. discriminate.
Qed.

(* ---------- C01 / C07: run_until_settled leaves the command's own queues empty ---------- *)
Lemma spawn_fold_queues cid l H :
  c_spawnq (gcmd cid H) = [] -> c_spawnq (gcmd cid (fold_left (fun Hh t => ucmd cid (spawn_one t) Hh) l H)) = [].
Proof.
  revert H; induction l as [|t l IH]; intros H E; simpl; [exact E|].
  apply IH. rewrite gcmd_ucmd_same. unfold spawn_one, slab_insert.
  destruct (gcmd cid H); simpl in *.
  match goal with |- context[if ?b then _ else _] => destruct b end; simpl; exact E.
Qed.

(* the loop of run_until_settled ends only with both of the command's own queues empty *)
Theorem loop_quiescent : forall fuel cid H H',
  settle_loop fuel cid H = Some H' ->
  c_ready (gcmd cid H') = [] /\ c_spawnq (gcmd cid H') = [].
Proof.
  induction fuel as [|f IH]; intros cid H H' E; [discriminate|].
  unfold settle_loop in E. cbn [funs step_funs rloop] in E. unfold loop_body in E.
  set (H1 := fold_left (fun Hh t => ucmd cid (spawn_one t) Hh) (c_spawnq (gcmd cid H)) (ucmd cid (set_spawnq []) H)) in *.
  assert (Hq : c_spawnq (gcmd cid H1) = []).
  { subst H1. apply spawn_fold_queues. rewrite gcmd_ucmd_same. destruct (gcmd cid H); reflexivity. }
  destruct (c_ready (gcmd cid H1)) as [|s rest] eqn:ER.
  - inversion E; subst H'. split; auto.
  - destruct (rdrain (funs f) cid H1) as [H2|] eqn:E2; [|discriminate].
    apply (IH cid H2 H'). exact E.
Qed.
(* run_until_settled of a command that is not aborted on entry returns only with its ready queue and
   spawn queue empty - whatever its tasks did meanwhile, aborting their own command included *)
Theorem settle_quiescent : forall fuel cid H H',
  was_aborted cid H = false -> settle fuel cid H = Some H' ->
  c_ready (gcmd cid H') = [] /\ c_spawnq (gcmd cid H') = [].
Proof.
  intros [|f] cid H H' Hab E; [discriminate|].
  unfold settle in E. cbn [funs step_funs rsettle] in E. unfold settle_body in E. rewrite Hab in E.
  apply (loop_quiescent f cid H H'). exact E.
Qed.

(* an aborted command is never polled: its settle step does not depend on the recursive functions *)
Theorem settle_aborted_no_poll : forall F G cid H,
  was_aborted cid H = true -> rsettle (step_funs F) cid H = rsettle (step_funs G) cid H.
Proof. intros F G cid H Hab. cbn [step_funs rsettle]. unfold settle_body. rewrite Hab. reflexivity. Qed.

(* abort is permanent through every runtime step *)
Theorem abort_permanent_settle : forall fuel cid' cid H H',
  cid < length (cmds H) -> settle fuel cid' H = Some H' -> was_aborted cid H = true -> was_aborted cid H' = true.
Proof.
  intros fuel cid' cid H H' Hc E. apply was_aborted_mono; [exact Hc|].
  unfold settle in E. apply (frame_meta fuel) in E. exact E.
Qed.
Theorem abort_permanent_poll_next : forall fuel cid' w cid H r H',
  cid < length (cmds H) -> poll_next fuel cid' w H = Some (r, H') -> was_aborted cid H = true -> was_aborted cid H' = true.
Proof.
  intros fuel cid' w cid H r H' Hc E. apply was_aborted_mono; [exact Hc|].
  unfold poll_next in E. apply (frame_meta fuel) in E. exact E.
Qed.

(* add_aborted only ever adds: an aborted command stays aborted when further handles are used *)
Lemma was_aborted_add n cid H : was_aborted cid H = true -> was_aborted cid (add_aborted n H) = true.
Proof.
  unfold was_aborted, add_aborted, gcmd; simpl. intros E.
  apply existsb_exists in E as (x & Hx & Ex). apply existsb_exists. exists x. split; [exact Hx|].
  simpl. rewrite Ex. apply orb_true_r.
Qed.
