(* The order invariant (EvictHost.OrdH: a task only hosts commands created after its own command; the cell of a
   command only holds a waker of an earlier command or of the executor) on the CORE host: it holds of the empty
   core and is preserved by Stream::poll_next on a top-level command, by QueuingExecutor::run_task / run_all, by
   CommandSpawner::spawn, by the event loop and by every shell action - hence of every state the Core model can
   reach, for every app, history and fuel.  With it the theorems that assume the invariant (eviction soundness,
   "a wake never runs out of fuel", "the hosting poll keeps its waker registered") apply to every reachable state
   of an app under a Core.  Also: the wake chain reaches the executor at ANY nesting depth (no fuel hypothesis). *)
From Coq Require Import List Arith Bool Lia.
From Crux Require Import Rt.Lang Rt.Rt Rt.Tables Rt.Frame Rt.Props Rt.Perm Rt.Evict Rt.EvictHost Rt.Host Rt.Chain.
Import ListNotations.

(* ---------- poll_next on any command, with any waker that respects the order ---------- *)
Lemma OrdH_plain c f H :
  (forall cm, c_atomic (f cm) = c_atomic cm) -> (forall cm, c_ent (f cm) = c_ent cm) -> (forall cm, c_spawnq (f cm) = c_spawnq cm) ->
  OrdH H -> OrdH (ucmd c f H).
Proof. intros A B C. apply (St_ord 0 (WExec 0) _ _ (St_ucmd_plain 0 (WExec 0) c f H A B C)). Qed.

Lemma OrdH_poll_next fuel x w H r H' :
  waker_lt w x -> poll_next fuel x w H = Some (r, H') -> OrdH H -> OrdH H'.
Proof.
  intros Wl E O. destruct fuel as [|fuel]; [discriminate|].
  unfold poll_next in E. cbn [funs step_funs rpoll_next] in E. unfold poll_next_body in E.
  assert (O0 : OrdH (ucmd x (set_atomic (Some w)) H)).
  { apply (St_ord (S x) (WExec 0) _ _ (St_set_atomic (S x) (WExec 0) x (Some w) H ltac:(lia) Wl) O). }
  set (H0' := ucmd x (set_atomic (Some w)) H) in *.
  destruct (rsettle (funs fuel) x H0') as [H1|] eqn:E1; [|discriminate].
  assert (O1 : OrdH H1) by (eapply (OrdH_settle fuel); [exact E1 | exact O0]).
  destruct (c_evs (gcmd x H1)) as [|e rest] eqn:EV1.
  - destruct (c_eff (gcmd x H1)) as [|e rest] eqn:EF1.
    + destruct (rsettle (funs fuel) x H1) as [H2|] eqn:E2; [|discriminate].
      assert (O2 : OrdH H2) by (eapply (OrdH_settle fuel); [exact E2 | exact O1]).
      destruct (c_eff (gcmd x H2)); destruct (c_evs (gcmd x H2)); try destruct (c_len (gcmd x H2) =? 0); inversion E; subst; exact O2.
    + inversion E; subst. apply OrdH_plain; try (intros cm; destruct cm; reflexivity). exact O1.
  - inversion E; subst. apply OrdH_plain; try (intros cm; destruct cm; reflexivity). exact O1.
Qed.

Lemma OrdH_same H H' : cmds H' = cmds H -> OrdH H -> OrdH H'.
Proof. intros E. unfold OrdH, gcmd. rewrite E. auto. Qed.

(* ---------- the Core host ---------- *)
Section WithFuel.
Variable FUEL : nat.

Lemma xrun_task_OrdH : forall fuel q k k', xrun_task FUEL fuel q k = Some k' -> OrdH (k_H k) -> OrdH (k_H k').
Proof.
  induction fuel as [|f IH]; intros q k k' E O; [discriminate|]. cbn [xrun_task] in E.
  destruct (xget q (k_slab k)) as [cid|]; [|inversion E; subst; exact O].
  destruct (poll_next FUEL cid (WExec q) (k_H k)) as [[r H1]|] eqn:EP; [|discriminate].
  pose proof (OrdH_poll_next FUEL cid (WExec q) (k_H k) r H1 I EP O) as O1.
  destruct r; first
    [ apply IH in E; [exact E|]; cbn [k_H]; first [exact O1 | eapply OrdH_same; [|exact O1]; reflexivity]
    | inversion E; subst; first [exact O1 | cbn [k_H]; apply (St_ord 0 (WExec 0) _ _ (St_drop_cmd 0 (WExec 0) (dfuel H1) _ H1) O1)] ].
Qed.

Lemma xspawn_all_OrdH : forall fuel k k', xspawn_all FUEL fuel k = Some k' -> OrdH (k_H k) -> OrdH (k_H k').
Proof.
  induction fuel as [|f IH]; intros k k' E O; [discriminate|]. cbn [xspawn_all] in E.
  destruct (k_spawn k) as [|cid rest]; [inversion E; subst; exact O|].
  destruct (xinsert cid (k_slab k)) as [q sl].
  match type of E with context[xrun_task FUEL FUEL q ?kk] => destruct (xrun_task FUEL FUEL q kk) as [k1|] eqn:E1; [|discriminate] end.
  apply IH in E; [exact E|]. apply xrun_task_OrdH in E1; [exact E1 | exact O].
Qed.
Lemma xready_all_OrdH : forall fuel k k', xready_all FUEL fuel k = Some k' -> OrdH (k_H k) -> OrdH (k_H k').
Proof.
  induction fuel as [|f IH]; intros k k' E O; [discriminate|]. cbn [xready_all] in E.
  destruct (xready (k_H k)) as [|q rest]; [inversion E; subst; exact O|].
  match type of E with context[xrun_task FUEL FUEL q ?kk] => destruct (xrun_task FUEL FUEL q kk) as [k1|] eqn:E1; [|discriminate] end.
  apply IH in E; [exact E|]. apply xrun_task_OrdH in E1; [exact E1|]. cbn [setH k_H]. eapply OrdH_same; [|exact O]. reflexivity.
Qed.
Lemma run_all_OrdH : forall fuel k k', run_all FUEL fuel k = Some k' -> OrdH (k_H k) -> OrdH (k_H k').
Proof.
  induction fuel as [|f IH]; intros k k' E O; [discriminate|]. cbn [run_all] in E.
  assert (X : match xspawn_all FUEL FUEL k with None => None | Some k1 =>
              match xready_all FUEL FUEL k1 with None => None | Some k2 => run_all FUEL f k2 end end = Some k' \/ k' = k).
  { destruct (k_spawn k); destruct (xready (k_H k)); try (left; exact E). right. inversion E; reflexivity. }
  destruct X as [X| ->]; [|exact O].
  destruct (xspawn_all FUEL FUEL k) as [k1|] eqn:E1; [|discriminate].
  destruct (xready_all FUEL FUEL k1) as [k2|] eqn:E2; [|discriminate].
  apply IH in X; [exact X|]. eapply xready_all_OrdH; [exact E2|]. eapply xspawn_all_OrdH; [exact E1 | exact O].
Qed.

Lemma spawn_cmd_OrdH c en k : OrdH (k_H k) -> OrdH (k_H (spawn_cmd c en k)).
Proof.
  intros O. unfold spawn_cmd.
  destruct (new_cmd (cx_name (compile c)) None en (cx_main (compile c)) (cx_extra (compile c)) (k_H k)) as [cid H1] eqn:E.
  cbn [k_H]. eapply OrdH_new_cmd; [exact E | exact O].
Qed.

Lemma process_OrdH : forall fuel hs k k', process FUEL fuel hs k = Some k' -> OrdH (k_H k) -> OrdH (k_H k').
Proof.
  induction fuel as [|f IH]; intros hs k k' E O; [discriminate|]. cbn [process] in E.
  destruct (run_all FUEL FUEL k) as [k1|] eqn:E1; [|discriminate].
  pose proof (run_all_OrdH _ _ _ E1 O) as O1.
  destruct (k_events k1) as [|e rest]; [inversion E; subst; exact O1|].
  apply IH in E; [exact E|]. apply spawn_cmd_OrdH. cbn [k_H]. exact O1.
Qed.

Theorem cstep_OrdH hs a k o k' : cstep FUEL hs a k = Some (o, k') -> OrdH (k_H k) -> OrdH (k_H k').
Proof.
  intros E O. destruct a; cbn [cstep] in E; try (inversion E; subst; exact O).
  - (* AResolve *)
    destruct (find_rq tg v occ 0 (k_reqs k)) as [i|]; [|inversion E; subst; exact O].
    destruct (rq_dropped _); [inversion E; subst; exact O|].
    match type of E with context[resolve_req ?e ?x ?Hh] =>
      pose proof (OrdH_resolve_req e x Hh O) as O'; destruct (resolve_req e x Hh) as [[code e'] H1] end. cbn [snd] in O'.
    destruct (Nat.eqb code 0).
    + match type of E with context[process FUEL FUEL hs ?kk] => destruct (process FUEL FUEL hs kk) as [k2|] eqn:E2; [|discriminate] end.
      apply process_OrdH in E2; [|cbn [k_H]; exact O'].
      inversion E; subst. cbn [take_out snd k_H]. eapply OrdH_same; [|exact E2]. reflexivity.
    + inversion E; subst. cbn [k_H]. exact O'.
  - (* ADropReq *)
    destruct (find_rq tg v occ 0 (k_reqs k)) as [i|]; [|inversion E; subst; exact O].
    destruct (rq_dropped _); inversion E; subst; [exact O|]. cbn [k_H].
    apply (St_ord 0 (WExec 0) _ _ (St_drop_req 0 (WExec 0) _ (k_H k)) O).
  - (* AEvent *)
    match type of E with context[process FUEL FUEL hs ?kk] => destruct (process FUEL FUEL hs kk) as [k2|] eqn:E2; [|discriminate] end.
    apply process_OrdH in E2; [|apply spawn_cmd_OrdH; cbn [k_H]; exact O].
    inversion E; subst. cbn [take_out snd k_H]. eapply OrdH_same; [|exact E2]. reflexivity.
Qed.

(* ---------- one layer of quiescence at the core: what run_task leaves behind ---------- *)
(* QueuingExecutor::run_task on the task hosting top-level command cid: it forwards the command's effects and events
   until Stream::poll_next answers Pending (or the command is finished and its slot is freed).  If the slot still
   hosts cid afterwards, then cid has no output left, its own ready and spawn queues are empty (unless it has been
   aborted: then its tasks are gone), and its AtomicWaker cell holds the executor task's waker OR the executor task is
   already in the executor's ready queue again: whatever happens to the command later finds the executor subscribed
   (a wake of the cell's waker queues the task: Chain.wake_reaches_executor) or about to look.  One layer of "a call
   runs to quiescence and no wake-up is lost".  For every state satisfying the order invariant. *)
Lemma xget_xremove q s : xget q (xremove q s) = None.
Proof. unfold xget, xremove. cbn [fst]. rewrite Tables.getd_updd_same. reflexivity. Qed.

Theorem xrun_task_leaves_command_quiet_and_subscribed : forall FUEL' fuel q k k' cid,
  OrdH (k_H k) -> xget q (k_slab k) = Some cid -> cid < length (cmds (k_H k)) ->
  xrun_task (S FUEL') fuel q k = Some k' -> xget q (k_slab k') = Some cid ->
  c_evs (gcmd cid (k_H k')) = [] /\ c_eff (gcmd cid (k_H k')) = [] /\
  (was_aborted cid (k_H k') = false -> c_ready (gcmd cid (k_H k')) = [] /\ c_spawnq (gcmd cid (k_H k')) = []) /\
  (c_atomic (gcmd cid (k_H k')) = Some (WExec q) \/ In q (xready (k_H k'))) /\ OrdH (k_H k').
Proof.
  intros FUEL'. induction fuel as [|f IH]; intros q k k' cid O G L E G'; [discriminate|]. cbn [xrun_task] in E.
  rewrite G in E.
  destruct (poll_next (S FUEL') cid (WExec q) (k_H k)) as [[r H1]|] eqn:EP; [|discriminate].
  pose proof (OrdH_poll_next (S FUEL') cid (WExec q) (k_H k) r H1 I EP O) as O1.
  assert (L1 : cid < length (cmds H1)).
  { pose proof (Perm.pm_cmds _ _ (Perm.perm_poll_next (S FUEL') cid (WExec q) (k_H k) r H1 EP)). lia. }
  destruct r as [| |e|e].
  - inversion E; subst. cbn [setH k_H].
    exact (poll_next_pending_quiet_and_subscribed_any FUEL' cid (WExec q) (k_H k) H1 O I L EP).
  - (* finished: the slot is freed *)
    inversion E; subst. cbn [k_slab] in G'. rewrite xget_xremove in G'. discriminate.
  - (* an effect: handed to the request channel, poll again *)
    eapply (IH q _ k' cid); [| | |exact E|exact G']; cbn [k_H k_slab]; [eapply OrdH_same; [|exact O1]; reflexivity | exact G | exact L1].
  - eapply (IH q _ k' cid); [| | |exact E|exact G']; cbn [k_H k_slab]; [exact O1 | exact G | exact L1].
Qed.

(* the last hop: the executor task moves what the top-level command hands over to the back of the core's event channel
   (an event) or of its request channel (an effect), and polls again *)
Lemma xrun_task_moves_event f q k cid e H1 :
  xget q (k_slab k) = Some cid -> poll_next FUEL cid (WExec q) (k_H k) = Some (PNEvent e, H1) ->
  xrun_task FUEL (S f) q k = xrun_task FUEL f q (mkC H1 (k_spawn k) (k_slab k) (k_events k ++ [e]) (k_out k) (k_log k) (k_reqs k)).
Proof. intros G E. cbn [xrun_task]. rewrite G, E. reflexivity. Qed.
Lemma xrun_task_moves_effect f q k cid e H1 :
  xget q (k_slab k) = Some cid -> poll_next FUEL cid (WExec q) (k_H k) = Some (PNEffect e, H1) ->
  xrun_task FUEL (S f) q k = xrun_task FUEL f q (mkC (push_hout e H1) (k_spawn k) (k_slab k) (k_events k) (k_out k) (k_log k) (k_reqs k)).
Proof. intros G E. cbn [xrun_task]. rewrite G, E. reflexivity. Qed.

(* ... and when the command is finished the executor releases it: the slot is freed and the Command value dropped *)
Lemma xrun_task_done_releases f q k cid H1 :
  xget q (k_slab k) = Some cid -> poll_next FUEL cid (WExec q) (k_H k) = Some (PNDone, H1) -> cid < length (cmds H1) ->
  exists k', xrun_task FUEL (S f) q k = Some k' /\ xget q (k_slab k') = None /\ c_alive (gcmd cid (k_H k')) = false.
Proof.
  intros G E L. cbn [xrun_task]. rewrite G, E. eexists. split; [reflexivity|]. cbn [k_slab k_H].
  split; [apply xget_xremove | unfold dfuel; apply Perm.drop_cmd_dead; exact L].
Qed.

(* every state of every run of an app under a Core satisfies the order invariant *)
Inductive creach (hs : handlers) : core -> core -> Prop :=
| cr_refl k : creach hs k k
| cr_step k a o k1 k2 : cstep FUEL hs a k = Some (o, k1) -> creach hs k1 k2 -> creach hs k k2.
Theorem creach_OrdH hs k k' : creach hs k k' -> OrdH (k_H k) -> OrdH (k_H k').
Proof. induction 1 as [k|k a o k1 k2 E _ IH]; intros O; [exact O | apply IH; eapply cstep_OrdH; eauto]. Qed.
Corollary core_reachable_OrdH hs k : creach hs core0 k -> OrdH (k_H k).
Proof. intros R. eapply creach_OrdH; [exact R | exact OrdH_H0]. Qed.
End WithFuel.

(* ---------- the wake chain reaches the executor at any depth ---------- *)
(* Chain.wake_reaches_executor needs more fuel than the chain is long; wakes start with wfuel w, and under the order
   invariant that is always enough *)
Theorem wake_reaches_executor_any_depth : forall l H w q,
  OrdH H -> chain H w l q -> xready (wake (wfuel w) w H) = xready H ++ [q].
Proof.
  intros l H w q O Ch.
  rewrite <- (wake_fuel_suffices (S (length l)) w H (OrdH_AOrd H O)).
  eapply wake_reaches_executor; [exact Ch | lia].
Qed.
