(* More laws of the reference semantics (C04): done is a RIGHT unit for then, a unit for and on either
   side, and all of nothing is done.  The wrappers here are not uniform (then c done turns into the
   residual of done once c has finished; the done part of an and runs once and is then an empty bag), so
   the transparency argument of RefProps.v is generalised from a wrapper function to a simulation
   RELATION between residual commands: related residuals answer run / deliver / drop alike, and after a
   run they agree on done.  Every schedule of inspections, resolutions and drops then gives both commands
   exactly the same trace (result codes and done flags included). *)
From Coq Require Import List Arith Bool Lia.
From Crux Require Import Rt.Lang Rt.Rt Rt.Ref Rt.RefProps Rt.RefCoreProps Rt.RefQuiesce.
Import ListNotations.

Section Sim.
  Variables fl fr : nat.            (* fuel of the left (wrapped) and of the right (bare) run *)
  Variable R : rc -> rc -> Prop.
  Hypothesis R_run : forall a b n, R a b ->
    match run fl [] a n, run fr [] b n with
    | Some (a', n1, o1), Some (b', n2, o2) =>
        R a' b' /\ n1 = n2 /\ ro_effs o1 = ro_effs o2 /\ ro_evs o1 = ro_evs o2 /\ rdone a' = rdone b'
    | None, None => True
    | _, _ => False
    end.
  Hypothesis R_deliver : forall rid v a b, R a b ->
    fst (deliver rid v a) = fst (deliver rid v b) /\ R (snd (deliver rid v a)) (snd (deliver rid v b)).
  Hypothesis R_drop : forall rid a b, R a b -> R (dropreq rid a) (dropreq rid b).

  (* related states; [dn] = the two residuals are known to agree on done (true after every run) *)
  Definition simR (s1 s2 : rstate) : Prop :=
    R (r_c s1) (r_c s2) /\ r_n s1 = r_n s2 /\ r_effs s1 = r_effs s2 /\ r_evs s1 = r_evs s2 /\ r_reqs s1 = r_reqs s2.

  Lemma simR_advance s1 s2 : simR s1 s2 ->
    match radvance fl s1, radvance fr s2 with
    | Some a1, Some a2 => simR a1 a2 /\ rdone (r_c a1) = rdone (r_c a2)
    | None, None => True
    | _, _ => False
    end.
  Proof.
    intros (Rc & En & Ee & Ev & Er). unfold radvance. rewrite En.
    pose proof (R_run (r_c s1) (r_c s2) (r_n s2) Rc) as A.
    destruct (run fl [] (r_c s1) (r_n s2)) as [[[a' n1] o1]|], (run fr [] (r_c s2) (r_n s2)) as [[[b' n2] o2]|]; try contradiction; [|exact I].
    destruct A as (R' & -> & E1 & E2 & D). split; [|exact D].
    unfold simR; cbn [r_c r_n r_effs r_evs r_reqs]. rewrite Ee, Ev, Er, E1, E2. repeat split; try reflexivity. exact R'.
  Qed.

  Lemma simR_step a s1 s2 : not_spawn a = true -> simR s1 s2 ->
    match rstep fl a s1, rstep fr a s2 with
    | Some (o1, t1), Some (o2, t2) => o1 = o2 /\ simR t1 t2
    | None, None => True
    | _, _ => False
    end.
  Proof.
    intros NS S0. pose proof S0 as (Rc & En & Ee & Ev & Er).
    destruct a; unfold rstep; try discriminate NS.
    - pose proof (simR_advance s1 s2 S0) as A.
      destruct (radvance fl s1) as [a1|], (radvance fr s2) as [a2|]; try contradiction; [|exact I].
      destruct A as ((Ac & An & Ae & Av & Ar) & _). rewrite Ae, Av, Ar, An. split; [reflexivity|].
      unfold simR; cbn [r_c r_n r_effs r_evs r_reqs]. repeat split; try reflexivity. exact Ac.
    - pose proof (simR_advance s1 s2 S0) as A.
      destruct (radvance fl s1) as [a1|], (radvance fr s2) as [a2|]; try contradiction; [|exact I].
      destruct A as ((Ac & An & Ae & Av & Ar) & _). rewrite Ae, Av, Ar, An. split; [reflexivity|].
      unfold simR; cbn [r_c r_n r_effs r_evs r_reqs]. repeat split; try reflexivity. exact Ac.
    - pose proof (simR_advance s1 s2 S0) as A.
      destruct (radvance fl s1) as [a1|], (radvance fr s2) as [a2|]; try contradiction; [|exact I].
      destruct A as (A & D). pose proof A as (Ac & An & Ae & Av & Ar). rewrite Ae, Av, D. split; [reflexivity|exact A].
    - (* AResolve *)
      rewrite Er. destruct (find_rr tg v occ 0 (r_reqs s2)) as [i|]; [|split; [reflexivity|exact S0]].
      set (r := nth i (r_reqs s2) _).
      pose proof (R_deliver (re_rid (rr_eff r)) out (r_c s1) (r_c s2) Rc) as (Df & Dr).
      destruct (rr_state r) as [|[|[|k]]].
      + split; [reflexivity|exact S0].
      + destruct (deliver (re_rid (rr_eff r)) out (r_c s1)) as [t1 c1], (deliver (re_rid (rr_eff r)) out (r_c s2)) as [t2 c2].
        cbn [fst snd] in *. split; [reflexivity|].
        unfold simR; cbn [r_c r_n r_effs r_evs r_reqs]. rewrite En, Ee, Ev. repeat split; try reflexivity. exact Dr.
      + destruct (deliver (re_rid (rr_eff r)) out (r_c s1)) as [t1 c1], (deliver (re_rid (rr_eff r)) out (r_c s2)) as [t2 c2].
        cbn [fst snd] in *. subst t2. destruct t1.
        * split; [reflexivity|]. unfold simR; cbn [r_c r_n r_effs r_evs r_reqs]. rewrite En, Ee, Ev. repeat split; try reflexivity. exact Dr.
        * split; [reflexivity|exact S0].
      + split; [reflexivity|exact S0].
    - (* ADropReq *)
      rewrite Er. destruct (find_rr tg v occ 0 (r_reqs s2)) as [i|]; [|split; [reflexivity|exact S0]].
      set (r := nth i (r_reqs s2) _).
      pose proof (R_drop (re_rid (rr_eff r)) (r_c s1) (r_c s2) Rc) as Dr.
      destruct (rr_state r) as [|[|[|[|k]]]]; try (split; [reflexivity|exact S0]);
        (split; [reflexivity|]; unfold simR; cbn [r_c r_n r_effs r_evs r_reqs]; rewrite ?En, ?Ee, ?Ev; repeat split; try reflexivity; assumption).
    - split; [reflexivity|exact S0].
    - split; [reflexivity|exact S0].
    - split; [reflexivity|exact S0].
  Qed.

  Theorem simR_trace : forall acts s1 s2, no_spawn acts = true -> simR s1 s2 -> rrun fl acts s1 = rrun fr acts s2.
  Proof.
    induction acts as [|a acts IH]; intros s1 s2 NS S0; cbn [rrun]; [reflexivity|].
    unfold no_spawn in NS. cbn [forallb] in NS. apply andb_prop in NS as [NS1 NS2].
    pose proof (simR_step a s1 s2 NS1 S0) as A.
    destruct (rstep fl a s1) as [[o1 t1]|], (rstep fr a s2) as [[o2 t2]|]; try contradiction; [|reflexivity].
    destruct A as (-> & S1). rewrite (IH t1 t2 NS2 S1). reflexivity.
  Qed.
End Sim.

(* ---------- the residuals of Command::done() ---------- *)
Definition done_bag0 := RBag (start_bag [] TRet []).     (* not yet run *)
Definition done_bag1 := RBag (mkRB [] 1 [0]).             (* after its only strand has returned *)
Definition is_done_bag (d : rc) : Prop := d = done_bag0 \/ d = done_bag1.

Lemma done_bag_run f n d : is_done_bag d -> run (S f) [] d n = Some (done_bag1, n, ro0).
Proof. intros [->| ->]; reflexivity. Qed.
Lemma done_bag_deliver rid v d : is_done_bag d -> deliver rid v d = (false, d).
Proof. intros [->| ->]; reflexivity. Qed.
Lemma done_bag_drop rid d : is_done_bag d -> dropreq rid d = d.
Proof. intros [->| ->]; reflexivity. Qed.
Lemma done_bag1_is : is_done_bag done_bag1. Proof. right; reflexivity. Qed.
Lemma done_bag0_is : is_done_bag done_bag0. Proof. left; reflexivity. Qed.
Lemma start_done : start [] c_done = done_bag0. Proof. reflexivity. Qed.

Lemma ro_app_nil_r_effs o : ro_effs (ro_app o ro0) = ro_effs o. Proof. apply app_nil_r. Qed.
Lemma ro_app_nil_r_evs o : ro_evs (ro_app o ro0) = ro_evs o. Proof. apply app_nil_r. Qed.

(* ---------- then c done = c ---------- *)
  (* either c is still being run in front of the done, or c has finished (and stays so) and what is
     left of the sequence is the finished done *)
  Definition Rtd (f : nat) (a b : rc) : Prop :=
    a = RSeq b c_done \/
    (rdone b = true /\ a = done_bag1 /\ forall m, run f [] b m = Some (b, m, ro0)).

  Lemma Rtd_run f a b n : Rtd f a b ->
    match run (S f) [] a n, run f [] b n with
    | Some (a', n1, o1), Some (b', n2, o2) =>
        Rtd f a' b' /\ n1 = n2 /\ ro_effs o1 = ro_effs o2 /\ ro_evs o1 = ro_evs o2 /\ rdone a' = rdone b'
    | None, None => True
    | _, _ => False
    end.
  Proof.
    intros [-> | (D & -> & St)].
    - cbn [run]. destruct (run f [] b n) as [[[b' n1] o1]|] eqn:EB; [|exact I].
      destruct (rdone b') eqn:ED.
      + assert (Ef : exists f', f = S f') by (destruct f as [|f']; [discriminate EB | exists f'; reflexivity]).
        destruct Ef as [f' Ef]. rewrite start_done.
        assert (Ed : run f [] done_bag0 n1 = Some (done_bag1, n1, ro0)) by (rewrite Ef; apply done_bag_run, done_bag0_is).
        rewrite Ed.
        split; [|split; [reflexivity | split; [apply ro_app_nil_r_effs | split; [apply ro_app_nil_r_evs | try rewrite ED; reflexivity]]]].
        right. split; [exact ED | split; [reflexivity|]]. intros m. eapply run_idem; [exact EB | apply le_n].
      + split; [left; reflexivity | split; [reflexivity | split; [reflexivity | split; [reflexivity | try rewrite ED; reflexivity]]]].
    - rewrite (done_bag_run f n _ done_bag1_is), St.
      split; [|split; [reflexivity | split; [reflexivity | split; [reflexivity | try rewrite D; reflexivity]]]].
      right. split; [exact D | split; [reflexivity | exact St]].
  Qed.
  Lemma Rtd_deliver f rid v a b : Rtd f a b ->
    fst (deliver rid v a) = fst (deliver rid v b) /\ Rtd f (snd (deliver rid v a)) (snd (deliver rid v b)).
  Proof.
    intros [-> | (D & -> & St)].
    - cbn [deliver]. destruct (deliver rid v b) as [t b']. cbn [fst snd]. split; [reflexivity | left; reflexivity].
    - destruct (done_is_final b D) as (_ & Dl & _ & _). rewrite Dl, (done_bag_deliver rid v _ done_bag1_is). cbn [fst snd].
      split; [reflexivity|]. right. split; [exact D | split; [reflexivity | exact St]].
  Qed.
  Lemma Rtd_drop f rid a b : Rtd f a b -> Rtd f (dropreq rid a) (dropreq rid b).
  Proof.
    intros [-> | (D & -> & St)].
    - left. reflexivity.
    - destruct (done_is_final b D) as (_ & _ & Dr & _). rewrite Dr, (done_bag_drop rid _ done_bag1_is).
      right. split; [exact D | split; [reflexivity | exact St]].
  Qed.

Theorem then_done_right : forall f c acts, no_spawn acts = true ->
  ref_direct (S f) (CThen c c_done) acts = ref_direct f c acts.
Proof.
  intros f c acts NS. unfold ref_direct. cbn [start].
  apply (simR_trace (S f) f (Rtd f) (Rtd_run f) (Rtd_deliver f) (Rtd_drop f)); [exact NS|].
  unfold simR; cbn [r_c r_n r_effs r_evs r_reqs]. repeat split; try reflexivity. left. reflexivity.
Qed.

(* ---------- and done c = c = and c done ---------- *)
Definition Rand_l (a b : rc) : Prop := exists d, is_done_bag d /\ a = RPar [d; b].
Definition Rand_r (a b : rc) : Prop := exists d, is_done_bag d /\ a = RPar [b; d].

Lemma par2_run f (x y : rc) n :
  run (S f) [] (RPar [x; y]) n =
  match run f [] x n with
  | None => None
  | Some (x', n1, o1) =>
    match run f [] y n1 with
    | None => None
    | Some (y', n2, o2) => Some (RPar [x'; y'], n2, ro_app o1 (ro_app o2 ro0))
    end
  end.
Proof.
  cbn [run]. destruct (run f [] x n) as [[[x' n1] o1]|]; [|reflexivity].
  destruct (run f [] y n1) as [[[y' n2] o2]|]; reflexivity.
Qed.

Lemma Rand_l_run f a b n : Rand_l a b ->
  match run (S f) [] a n, run f [] b n with
  | Some (a', n1, o1), Some (b', n2, o2) =>
      Rand_l a' b' /\ n1 = n2 /\ ro_effs o1 = ro_effs o2 /\ ro_evs o1 = ro_evs o2 /\ rdone a' = rdone b'
  | None, None => True
  | _, _ => False
  end.
Proof.
  intros (d & Hd & ->). rewrite par2_run. destruct f as [|f']; [reflexivity|].
  rewrite (done_bag_run f' n d Hd). destruct (run (S f') [] b n) as [[[b' n1] o1]|]; [|exact I].
  split; [exists done_bag1; split; [apply done_bag1_is | reflexivity]|].
  split; [reflexivity|]. cbn [ro_app ro_effs ro_evs ro0 app]. rewrite !app_nil_r.
  split; [reflexivity | split; [reflexivity|]]. cbn [rdone forallb done_bag1 b_strands]. rewrite andb_true_r. reflexivity.
Qed.
Lemma Rand_l_deliver rid v a b : Rand_l a b ->
  fst (deliver rid v a) = fst (deliver rid v b) /\ Rand_l (snd (deliver rid v a)) (snd (deliver rid v b)).
Proof.
  intros (d & Hd & ->). cbn [deliver map existsb]. rewrite (done_bag_deliver rid v d Hd). cbn [fst snd].
  rewrite orb_false_r. split; [reflexivity|]. exists d. split; [exact Hd | reflexivity].
Qed.
Lemma Rand_l_drop rid a b : Rand_l a b -> Rand_l (dropreq rid a) (dropreq rid b).
Proof.
  intros (d & Hd & ->). cbn [dropreq map]. rewrite (done_bag_drop rid d Hd). exists d. split; [exact Hd | reflexivity].
Qed.

Theorem and_done_left : forall f c acts, no_spawn acts = true ->
  ref_direct (S f) (CAnd c_done c) acts = ref_direct f c acts.
Proof.
  intros f c acts NS. unfold ref_direct. cbn [start]. rewrite start_done.
  apply (simR_trace (S f) f Rand_l (Rand_l_run f) Rand_l_deliver Rand_l_drop); [exact NS|].
  unfold simR; cbn [r_c r_n r_effs r_evs r_reqs]. repeat split; try reflexivity.
  exists done_bag0. split; [apply done_bag0_is | reflexivity].
Qed.

Lemma Rand_r_run f a b n : Rand_r a b ->
  match run (S f) [] a n, run f [] b n with
  | Some (a', n1, o1), Some (b', n2, o2) =>
      Rand_r a' b' /\ n1 = n2 /\ ro_effs o1 = ro_effs o2 /\ ro_evs o1 = ro_evs o2 /\ rdone a' = rdone b'
  | None, None => True
  | _, _ => False
  end.
Proof.
  intros (d & Hd & ->). rewrite par2_run. destruct (run f [] b n) as [[[b' n1] o1]|] eqn:EB; [|exact I].
  destruct f as [|f']; [discriminate EB|].
  rewrite (done_bag_run f' n1 d Hd).
  split; [exists done_bag1; split; [apply done_bag1_is | reflexivity]|].
  split; [reflexivity|]. cbn [ro_app ro_effs ro_evs ro0 app]. rewrite !app_nil_r.
  split; [reflexivity | split; [reflexivity|]]. cbn [rdone forallb done_bag1 b_strands]. rewrite !andb_true_r. reflexivity.
Qed.
Lemma Rand_r_deliver rid v a b : Rand_r a b ->
  fst (deliver rid v a) = fst (deliver rid v b) /\ Rand_r (snd (deliver rid v a)) (snd (deliver rid v b)).
Proof.
  intros (d & Hd & ->). cbn [deliver map existsb]. rewrite (done_bag_deliver rid v d Hd). cbn [fst snd].
  rewrite !orb_false_r. split; [reflexivity|]. exists d. split; [exact Hd | reflexivity].
Qed.
Lemma Rand_r_drop rid a b : Rand_r a b -> Rand_r (dropreq rid a) (dropreq rid b).
Proof.
  intros (d & Hd & ->). cbn [dropreq map]. rewrite (done_bag_drop rid d Hd). exists d. split; [exact Hd | reflexivity].
Qed.

Theorem and_done_right : forall f c acts, no_spawn acts = true ->
  ref_direct (S f) (CAnd c c_done) acts = ref_direct f c acts.
Proof.
  intros f c acts NS. unfold ref_direct. cbn [start]. rewrite start_done.
  apply (simR_trace (S f) f Rand_r (Rand_r_run f) Rand_r_deliver Rand_r_drop); [exact NS|].
  unfold simR; cbn [r_c r_n r_effs r_evs r_reqs]. repeat split; try reflexivity.
  exists done_bag0. split; [apply done_bag0_is | reflexivity].
Qed.

(* ---------- all of nothing is done ---------- *)
Definition Rall0 (a b : rc) : Prop := a = RPar [] /\ is_done_bag b.
Theorem all_nil_is_done : forall f acts, no_spawn acts = true ->
  ref_direct (S f) (CAll []) acts = ref_direct (S f) c_done acts.
Proof.
  intros f acts NS. unfold ref_direct. cbn [start map]. fold (start [] c_done). rewrite start_done.
  apply (simR_trace (S f) (S f) Rall0); [| | |exact NS|].
  - intros a b n (-> & Hb). rewrite (done_bag_run f n b Hb). cbn [run].
    split; [split; [reflexivity | apply done_bag1_is] | repeat split; reflexivity].
  - intros rid v a b (-> & Hb). rewrite (done_bag_deliver rid v b Hb). cbn [deliver map existsb fst snd].
    split; [reflexivity | split; [reflexivity | exact Hb]].
  - intros rid a b (-> & Hb). rewrite (done_bag_drop rid b Hb). split; [reflexivity | exact Hb].
  - unfold simR; cbn [r_c r_n r_effs r_evs r_reqs]. repeat split; try reflexivity. apply done_bag0_is.
Qed.

(* ---------- then done c = c (left unit), as whole traces ---------- *)
(* more fuel never hurts *)
Lemma run_mono : forall f en c n r, run f en c n = Some r -> run (S f) en c n = Some r.
Proof.
  induction f as [|f IH]; intros en c n r E; [discriminate|].
  destruct c as [b|a b|l|k a|k a]; cbn [run] in E; remember (S f) as g eqn:Eg; cbn [run]; subst g.
  - exact E.
  - destruct (run f en a n) as [[[a1 n1] o1]|] eqn:EA; [|discriminate].
    rewrite (IH _ _ _ _ EA). destruct (rdone a1); [|exact E].
    destruct (run f en (start en b) n1) as [[[b2 n2] o2]|] eqn:EB; [|discriminate].
    rewrite (IH _ _ _ _ EB). exact E.
  - match type of E with match ?gg l n with _ => _ end = _ => set (go := gg) in * end.
    match goal with |- match ?gg l n with _ => _ end = _ => set (go' := gg) end.
    assert (G : forall l n x, go l n = Some x -> go' l n = Some x).
    { clear E. induction l0 as [|x l0 IHl]; intros n0 y E0; [exact E0|].
      change (go (x :: l0) n0) with (match run f en x n0 with None => None | Some (x', n1, o1) =>
               match go l0 n1 with Some (r', n2, o2) => Some (x' :: r', n2, ro_app o1 o2) | None => None end end) in E0.
      change (go' (x :: l0) n0) with (match run (S f) en x n0 with None => None | Some (x', n1, o1) =>
               match go' l0 n1 with Some (r', n2, o2) => Some (x' :: r', n2, ro_app o1 o2) | None => None end end).
      destruct (run f en x n0) as [[[x1 m1] p1]|] eqn:EX; [|discriminate].
      rewrite (IH _ _ _ _ EX).
      destruct (go l0 m1) as [[[r1 m2] p2]|] eqn:EG; [|discriminate].
      rewrite (IHl _ _ EG). exact E0. }
    destruct (go l n) as [[[l1 n1] o1]|] eqn:EG; [|discriminate]. rewrite (G _ _ _ EG). exact E.
  - destruct (run f en a n) as [[[a1 n1] o1]|] eqn:EA; [|discriminate]. rewrite (IH _ _ _ _ EA). exact E.
  - destruct (run f en a n) as [[[a1 n1] o1]|] eqn:EA; [|discriminate]. rewrite (IH _ _ _ _ EA). exact E.
Qed.

(* a command that has not been run yet waits on nothing: no answer is taken by it, no drop changes it *)
Lemma fresh_strand_deliver rid v u en t : deliver_strand rid v (mkRS u en (RRun t) []) = (false, mkRS u en (RRun t) []).
Proof. reflexivity. Qed.
Lemma fresh_strand_kill rid u en t : kill_waiter rid (mkRS u en (RRun t) []) = mkRS u en (RRun t) [].
Proof. reflexivity. Qed.
Definition fresh_strand (s : rstrand) : Prop := exists u en t, s = mkRS u en (RRun t) [].
Lemma fresh_strands_deliver rid v l : Forall fresh_strand l ->
  map (deliver_strand rid v) l = map (fun s => (false, s)) l.
Proof. induction 1 as [|s l (u & en & t & ->) _ IH]; cbn [map]; [reflexivity|]. rewrite fresh_strand_deliver, IH. reflexivity. Qed.
Lemma fresh_strands_kill rid l : Forall fresh_strand l -> map (kill_waiter rid) l = l.
Proof. induction 1 as [|s l (u & en & t & ->) _ IH]; cbn [map]; [reflexivity|]. rewrite fresh_strand_kill, IH. reflexivity. Qed.
Lemma map_false_fst {A} (l : list A) : existsb fst (map (fun s => (false, s)) l) = false.
Proof. induction l; cbn; auto. Qed.
Lemma map_false_snd {A} (l : list A) : map snd (map (fun s : A => (false, s)) l) = l.
Proof. induction l as [|x l IH]; cbn; [reflexivity|]. rewrite IH. reflexivity. Qed.
Lemma start_bag_fresh en m ex : Forall fresh_strand (b_strands (start_bag en m ex)).
Proof.
  unfold start_bag; cbn [b_strands]. constructor; [exists 0, en, m; reflexivity|].
  apply Forall_forall. intros s Hs. apply in_map_iff in Hs as ((i & t) & <- & _). exists (S i), en, t. reflexivity.
Qed.
Lemma bag_fresh_deliver rid v b : Forall fresh_strand (b_strands b) -> deliver rid v (RBag b) = (false, RBag b).
Proof.
  intros F. cbn [deliver]. rewrite (fresh_strands_deliver rid v _ F), map_false_fst, map_false_snd. destruct b; reflexivity.
Qed.
Lemma bag_fresh_drop rid b : Forall fresh_strand (b_strands b) -> dropreq rid (RBag b) = RBag b.
Proof. intros F. cbn [dropreq]. rewrite (fresh_strands_kill rid _ F). destruct b; reflexivity. Qed.

Lemma start_deliver rid v en : forall c, deliver rid v (start en c) = (false, start en c).
Proof.
  fix IH 1. intros c.
  assert (L : forall cs, map (deliver rid v) (map (start en) cs) = map (fun x => (false, x)) (map (start en) cs)).
  { induction cs as [|x cs IHl]; cbn [map]; [reflexivity|]. rewrite (IH x), IHl. reflexivity. }
  destruct c; cbn [start]; try (apply bag_fresh_deliver, start_bag_fresh).
  - cbn [deliver]. rewrite (IH c1). reflexivity.
  - change (RPar [start en c1; start en c2]) with (RPar (map (start en) [c1; c2])).
    cbn [deliver]. rewrite L, map_false_fst, map_false_snd. reflexivity.
  - cbn [deliver]. rewrite L, map_false_fst, map_false_snd. reflexivity.
  - cbn [deliver]. rewrite (IH c). reflexivity.
  - cbn [deliver]. rewrite (IH c). reflexivity.
  - cbn [deliver]. rewrite (IH c). reflexivity.
  - cbn [deliver]. rewrite (IH c). reflexivity.
  - cbn [deliver]. rewrite (IH c). reflexivity.
  - apply IH.
Qed.
Lemma start_drop rid en : forall c, dropreq rid (start en c) = start en c.
Proof.
  fix IH 1. intros c.
  assert (L : forall cs, map (dropreq rid) (map (start en) cs) = map (start en) cs).
  { induction cs as [|x cs IHl]; cbn [map]; [reflexivity|]. rewrite (IH x), IHl. reflexivity. }
  destruct c; cbn [start]; try (apply bag_fresh_drop, start_bag_fresh).
  - cbn [dropreq]. rewrite (IH c1). reflexivity.
  - change (RPar [start en c1; start en c2]) with (RPar (map (start en) [c1; c2])). cbn [dropreq]. rewrite L. reflexivity.
  - cbn [dropreq]. rewrite L. reflexivity.
  - cbn [dropreq]. rewrite (IH c). reflexivity.
  - cbn [dropreq]. rewrite (IH c). reflexivity.
  - cbn [dropreq]. rewrite (IH c). reflexivity.
  - cbn [dropreq]. rewrite (IH c). reflexivity.
  - cbn [dropreq]. rewrite (IH c). reflexivity.
  - apply IH.
Qed.

(* one-directional simulation: whenever the bare command's run succeeds (its fuel suffices), the wrapped
   one - with at least as much fuel - gives the same trace *)
Section SimFwd.
  Variables fl fr : nat.
  Variable R : rc -> rc -> Prop.
  Hypothesis R_run : forall a b n b' n' o, R a b -> run fr [] b n = Some (b', n', o) ->
    exists a' o', run fl [] a n = Some (a', n', o') /\ R a' b' /\ ro_effs o' = ro_effs o /\ ro_evs o' = ro_evs o /\ rdone a' = rdone b'.
  Hypothesis R_deliver : forall rid v a b, R a b ->
    fst (deliver rid v a) = fst (deliver rid v b) /\ R (snd (deliver rid v a)) (snd (deliver rid v b)).
  Hypothesis R_drop : forall rid a b, R a b -> R (dropreq rid a) (dropreq rid b).

  Lemma fwd_advance s1 s2 a2 : simR R s1 s2 -> radvance fr s2 = Some a2 ->
    exists a1, radvance fl s1 = Some a1 /\ simR R a1 a2 /\ rdone (r_c a1) = rdone (r_c a2).
  Proof.
    intros (Rc & En & Ee & Ev & Er). unfold radvance. rewrite En.
    destruct (run fr [] (r_c s2) (r_n s2)) as [[[b' n2] o2]|] eqn:EB; [|discriminate].
    intros E; inversion E; subst a2; clear E.
    destruct (R_run _ _ _ _ _ _ Rc EB) as (a' & o' & EA & R' & E1 & E2 & D). rewrite EA.
    eexists; split; [reflexivity|]. split; [|exact D].
    unfold simR; cbn [r_c r_n r_effs r_evs r_reqs]. rewrite Ee, Ev, Er, E1, E2. repeat split; try reflexivity. exact R'.
  Qed.

  Lemma fwd_step a s1 s2 o2 t2 : not_spawn a = true -> simR R s1 s2 -> rstep fr a s2 = Some (o2, t2) ->
    exists t1, rstep fl a s1 = Some (o2, t1) /\ simR R t1 t2.
  Proof.
    intros NS S0 E. pose proof S0 as (Rc & En & Ee & Ev & Er).
    destruct a; unfold rstep in *; try discriminate NS.
    - destruct (radvance fr s2) as [a2|] eqn:EA; [|discriminate].
      destruct (fwd_advance s1 s2 a2 S0 EA) as (a1 & -> & (Ac & An & Ae & Av & Ar) & _).
      inversion E; subst; clear E. rewrite Ae, Av, Ar, An. eexists; split; [reflexivity|].
      unfold simR; cbn [r_c r_n r_effs r_evs r_reqs]. repeat split; try reflexivity. exact Ac.
    - destruct (radvance fr s2) as [a2|] eqn:EA; [|discriminate].
      destruct (fwd_advance s1 s2 a2 S0 EA) as (a1 & -> & (Ac & An & Ae & Av & Ar) & _).
      inversion E; subst; clear E. rewrite Ae, Av, Ar, An. eexists; split; [reflexivity|].
      unfold simR; cbn [r_c r_n r_effs r_evs r_reqs]. repeat split; try reflexivity. exact Ac.
    - destruct (radvance fr s2) as [a2|] eqn:EA; [|discriminate].
      destruct (fwd_advance s1 s2 a2 S0 EA) as (a1 & -> & A & D). pose proof A as (Ac & An & Ae & Av & Ar).
      inversion E; subst; clear E. rewrite Ae, Av, D. eexists; split; [reflexivity | exact A].
    - rewrite Er. destruct (find_rr tg v occ 0 (r_reqs s2)) as [i|]; [|inversion E; subst; eexists; split; [reflexivity | exact S0]].
      set (r := nth i (r_reqs s2) _) in *.
      pose proof (R_deliver (re_rid (rr_eff r)) out (r_c s1) (r_c s2) Rc) as (Df & Dr).
      destruct (rr_state r) as [|[|[|k]]].
      + inversion E; subst; eexists; split; [reflexivity | exact S0].
      + destruct (deliver (re_rid (rr_eff r)) out (r_c s1)) as [t1' c1], (deliver (re_rid (rr_eff r)) out (r_c s2)) as [t2' c2].
        cbn [fst snd] in *. inversion E; subst; clear E. eexists; split; [reflexivity|].
        unfold simR; cbn [r_c r_n r_effs r_evs r_reqs]. rewrite En, Ee, Ev. repeat split; try reflexivity. exact Dr.
      + destruct (deliver (re_rid (rr_eff r)) out (r_c s1)) as [t1' c1], (deliver (re_rid (rr_eff r)) out (r_c s2)) as [t2' c2].
        cbn [fst snd] in *. subst t2'. destruct t1'; inversion E; subst; clear E.
        * eexists; split; [reflexivity|]. unfold simR; cbn [r_c r_n r_effs r_evs r_reqs]. rewrite En, Ee, Ev. repeat split; try reflexivity. exact Dr.
        * eexists; split; [reflexivity | exact S0].
      + inversion E; subst; eexists; split; [reflexivity | exact S0].
    - rewrite Er. destruct (find_rr tg v occ 0 (r_reqs s2)) as [i|]; [|inversion E; subst; eexists; split; [reflexivity | exact S0]].
      set (r := nth i (r_reqs s2) _) in *.
      pose proof (R_drop (re_rid (rr_eff r)) (r_c s1) (r_c s2) Rc) as Dr.
      destruct (rr_state r) as [|[|[|[|k]]]]; inversion E; subst; clear E;
        try (eexists; split; [reflexivity | exact S0]);
        (eexists; split; [reflexivity|]; unfold simR; cbn [r_c r_n r_effs r_evs r_reqs]; rewrite ?En, ?Ee, ?Ev; repeat split; try reflexivity; assumption).
    - inversion E; subst; eexists; split; [reflexivity | exact S0].
    - inversion E; subst; eexists; split; [reflexivity | exact S0].
    - inversion E; subst; eexists; split; [reflexivity | exact S0].
  Qed.

  Theorem fwd_trace : forall acts s1 s2 t, no_spawn acts = true -> simR R s1 s2 -> rrun fr acts s2 = Some t -> rrun fl acts s1 = Some t.
  Proof.
    induction acts as [|a acts IH]; intros s1 s2 t NS S0 E; cbn [rrun] in *; [exact E|].
    unfold no_spawn in NS. cbn [forallb] in NS. apply andb_prop in NS as [NS1 NS2].
    destruct (rstep fr a s2) as [[o2 t2]|] eqn:E2; [|discriminate].
    destruct (fwd_step a s1 s2 o2 t2 NS1 S0 E2) as (t1 & -> & S1).
    destruct (rrun fr acts t2) as [os|] eqn:E3; [|discriminate].
    rewrite (IH t1 t2 os NS2 S1 E3). exact E.
  Qed.
End SimFwd.

Definition Rtl (c : cmd) (a b : rc) : Prop := (a = RSeq done_bag0 c /\ b = start [] c) \/ a = b.
Theorem then_done_left_trace : forall f c acts t, no_spawn acts = true ->
  ref_direct f c acts = Some t -> ref_direct (S f) (CThen c_done c) acts = Some t.
Proof.
  intros f c acts t NS E. unfold ref_direct in *. cbn [start]. rewrite start_done.
  apply (fwd_trace (S f) f (Rtl c)) with (s2 := mkRSt (start [] c) 0 [] [] []); [| | |exact NS| |exact E].
  - intros a b n b' n' o [(-> & ->) | ->] EB.
    + assert (Ef : exists f', f = S f') by (destruct f as [|f']; [discriminate EB | exists f'; reflexivity]).
      destruct Ef as [f' Ef]. cbn [run].
      assert (Ed : run f [] done_bag0 n = Some (done_bag1, n, ro0)) by (rewrite Ef; apply done_bag_run, done_bag0_is).
      rewrite Ed. cbn [rdone done_bag1 b_strands]. rewrite EB.
      exists b', (ro_app ro0 o). split; [reflexivity|]. split; [right; reflexivity|]. repeat split; reflexivity.
    + exists b', o. split; [apply run_mono; exact EB|]. split; [right; reflexivity|]. repeat split; reflexivity.
  - intros rid v a b [(-> & ->) | ->].
    + cbn [deliver]. rewrite (done_bag_deliver rid v _ done_bag0_is), start_deliver. cbn [fst snd]. split; [reflexivity | left; split; reflexivity].
    + split; [reflexivity | right; reflexivity].
  - intros rid a b [(-> & ->) | ->].
    + cbn [dropreq]. rewrite (done_bag_drop rid _ done_bag0_is), start_drop. left; split; reflexivity.
    + right; reflexivity.
  - unfold simR; cbn [r_c r_n r_effs r_evs r_reqs]. repeat split; try reflexivity. left; split; reflexivity.
Qed.
