(* Reference semantics of an app under the Core: what a call to process_event / resolve MEANS, with no
   executor, queues, wakers or channels.  The app of the generated cases is a handler table: update(e)
   returns the command registered for e's tag with e's value in variable 0.  The state is the set of
   residual commands (Ref.rc) started so far; a call runs every command until none can move, applies
   every event any of them emitted (each starts one more command) and repeats until no event is left;
   its result is every effect requested meanwhile and the log of events applied.  Requests made through
   a legacy capability and requests made through the command context are the same thing here.
   Cancellation is outside (as in Ref.v); so are calls that hand the shell two indistinguishable
   requests at once (the schedule names a request by operation and arrival rank, and the arrival order
   inside one call is the executor's business, not the semantics'). *)
From Coq Require Import List Arith Bool.
From Crux Require Import Rt.Lang Rt.Rt Rt.Host Rt.Ref.
Import ListNotations.

Record kcmd := mkKC { kc_env : env; kc_rc : rc }.
Record kst := mkKS {
  ks_cmds : list kcmd; ks_n : nat;
  ks_q : list event;          (* emitted, not yet applied *)
  ks_log : list event;        (* applied by update, in order *)
  ks_out : list reff;         (* requested during the current call *)
  ks_reqs : list rreq;        (* what the shell holds *)
  ks_amb : bool               (* some call handed over two requests with equal operations *)
}.
Definition ks0 := mkKS [] 0 [] [] [] [] false.

Fixpoint run_cmds (fuel : nat) (l : list kcmd) (n : nat) : option (list kcmd * nat * routs) :=
  match l with
  | [] => Some ([], n, ro0)
  | c :: r =>
    match run fuel (kc_env c) (kc_rc c) n with
    | None => None
    | Some (c', n1, o1) =>
      match run_cmds fuel r n1 with
      | None => None
      | Some (r', n2, o2) => Some ((if rdone c' then r' else mkKC (kc_env c) c' :: r'), n2, ro_app o1 o2)
      end
    end
  end.

Definition handler_of (hs : handlers) (e : event) : cmd :=
  match v_maps e with [] => lookup (v_tag e) hs | _ :: _ => c_done end.

Fixpoint kprocess (fuel : nat) (hs : handlers) (st : kst) : option kst :=
  match fuel with 0 => None | S f =>
  match run_cmds RF (ks_cmds st) (ks_n st) with
  | None => None
  | Some (l', n', o) =>
    let q := ks_q st ++ ro_evs o in
    let out := ks_out st ++ ro_effs o in
    match q with
    | [] => Some (mkKS l' n' [] (ks_log st) out (ks_reqs st) (ks_amb st))
    | e :: rest =>
      kprocess f hs (mkKS (l' ++ [mkKC [v_val e] (start [v_val e] (handler_of hs e))]) n' rest
                          (ks_log st ++ [e]) out (ks_reqs st) (ks_amb st))
    end
  end end.

Inductive kobs := KCall (code : nat) (effs : list reff) (lg : list event) | KResolve (code : nat) | KNone.

Definition same_op (a b : reff) : bool := Nat.eqb (re_tag a) (re_tag b) && Nat.eqb (re_val a) (re_val b).
Fixpoint has_twins (l : list reff) : bool :=
  match l with [] => false | x :: r => existsb (same_op x) r || has_twins r end.

(* the call returns: the shell now holds what was requested *)
Definition kreturn (st : kst) : kobs * kst :=
  (KCall 0 (ks_out st) (ks_log st),
   mkKS (ks_cmds st) (ks_n st) (ks_q st) (ks_log st) []
        (ks_reqs st ++ map (fun e => mkRR e (if Nat.eqb (re_kind e) 3 then 1 else re_kind e)) (ks_out st)) (ks_amb st || has_twins (ks_out st))).

Definition with_cmds (l : list kcmd) (st : kst) := mkKS l (ks_n st) (ks_q st) (ks_log st) (ks_out st) (ks_reqs st) (ks_amb st).
Definition with_reqs (l : list rreq) (st : kst) := mkKS (ks_cmds st) (ks_n st) (ks_q st) (ks_log st) (ks_out st) l (ks_amb st).
Definition kdeliver (rid v : nat) (l : list kcmd) : bool * list kcmd :=
  let rs := map (fun c => let (t, c') := deliver rid v (kc_rc c) in (t, mkKC (kc_env c) c')) l in
  (existsb fst rs, map snd rs).

Definition kstep (hs : handlers) (a : action) (st : kst) : option (kobs * kst) :=
  match a with
  | AEvent tg v =>
      let e := mkEv tg v [] in
      let st1 := mkKS (ks_cmds st ++ [mkKC [v] (start [v] (lookup tg hs))]) (ks_n st) (ks_q st) (ks_log st ++ [e])
                      (ks_out st) (ks_reqs st) (ks_amb st) in
      match kprocess RF hs st1 with None => None | Some st2 => Some (kreturn st2) end
  | AResolve tg v occ out =>
      match find_rr tg v occ 0 (ks_reqs st) with
      | None => Some (KResolve 3, st)
      | Some i =>
        let r := nth i (ks_reqs st) (mkRR (mkRE 0 0 [] 0 0) 3) in
        match rr_state r with
        | 0 => Some (KCall 1 [] (ks_log st), st)
        | 1 => let (_, l') := kdeliver (re_rid (rr_eff r)) out (ks_cmds st) in
               match kprocess RF hs (with_reqs (set_nth i (mkRR (rr_eff r) 0) (ks_reqs st)) (with_cmds l' st)) with
               | None => None | Some st2 => Some (kreturn st2) end
        | 2 => let (took, l') := kdeliver (re_rid (rr_eff r)) out (ks_cmds st) in
               if took then match kprocess RF hs (with_cmds l' st) with None => None | Some st2 => Some (kreturn st2) end
               else Some (KCall 2 [] (ks_log st), st)
        | _ => Some (KResolve 3, st)
        end
      end
  | ADropReq tg v occ =>
      match find_rr tg v occ 0 (ks_reqs st) with
      | None => Some (KNone, st)
      | Some i =>
        let r := nth i (ks_reqs st) (mkRR (mkRE 0 0 [] 0 0) 3) in
        match rr_state r with
        | 3 => Some (KNone, st)
        | 0 => Some (KNone, with_reqs (set_nth i (mkRR (rr_eff r) 3) (ks_reqs st)) st)
        | _ =>
          (* a dropped context request ends its strand (one-shot) or its loop (stream); a dropped
             capability request is never answered and nobody is told: its strand waits for ever *)
          if Nat.eqb (re_kind (rr_eff r)) 3 then Some (KNone, with_reqs (set_nth i (mkRR (rr_eff r) 3) (ks_reqs st)) st) else
          Some (KNone, with_reqs (set_nth i (mkRR (rr_eff r) 3) (ks_reqs st))
                              (with_cmds (map (fun c => mkKC (kc_env c) (dropreq (re_rid (rr_eff r)) (kc_rc c))) (ks_cmds st)) st))
        end
      end
  | _ => Some (KNone, st)
  end.

Fixpoint krun (hs : handlers) (acts : list action) (st : kst) : option (list kobs * bool) :=
  match acts with
  | [] => Some ([], ks_amb st)
  | a :: r => match kstep hs a st with
              | None => None
              | Some (o, st') => match krun hs r st' with None => None | Some (os, amb) => Some (o :: os, amb) end
              end
  end.
(* the trace, and whether the schedule's request names were ambiguous somewhere *)
Definition ref_core (hs : handlers) (acts : list action) : option (list kobs * bool) := krun hs acts ks0.

(* the fragment: no cancellation anywhere *)
Fixpoint task_cancel_free (t : task) : bool :=
  match t with
  | TRet => true
  | TEmit _ _ k | TNotify _ _ k | TReq _ _ _ k | TJoin _ k | TYield _ k | TLegReq _ _ _ k => task_cancel_free k
  | TBoth _ _ _ _ _ _ k | TBothL _ _ _ _ _ _ k | TBothJ _ _ _ _ k | TRace _ _ _ _ _ k => task_cancel_free k
  | TForEach _ _ _ b k => task_cancel_free b && task_cancel_free k
  | TSpawn c _ k => task_cancel_free c && task_cancel_free k
  | TAbortT _ _ | TAbortC _ _ => false
  | THost _ _ _ _ _ _ => false
  end.
Fixpoint cmd_cancel_free (c : cmd) : bool :=
  match c with
  | CNew m ex => task_cancel_free m && forallb task_cancel_free ex
  | CThen a b | CAnd a b => cmd_cancel_free a && cmd_cancel_free b
  | CAll cs => forallb cmd_cancel_free cs
  | CMapEff _ c' | CMapEv _ c' | CIdEff c' | CIdEv c' | CInto c' => cmd_cancel_free c'
  | CAbortable _ _ => false
  | CSendR _ _ | CSendS _ _ => true
  end.
Definition handlers_cancel_free (hs : handlers) : bool := forallb (fun h => cmd_cancel_free (snd h)) hs.
