(* Kernel-checked evaluation of the small-scope refinement (Rt/SmallScope.v), and its reading as a statement
   about every command and schedule of the scope. *)
From Coq Require Import List Arith Bool NArith.
From Crux Require Import Rt.Lang Rt.Rt Rt.Host Rt.Ref Rt.Check Rt.SmallScope.
Import ListNotations.

Theorem small_scope_refines : small_scope_ok = true.
Proof. vm_cast_no_check (eq_refl true). Qed.

Theorem small_scope_refines_each : forall c acts, In c small_cmds -> In acts (scheds c) ->
  exists t r, direct FUEL0 c acts = Some t /\ ref_direct RF c acts = Some r /\ list_eqb2 robs_obs_eqb r t = true /\
              in_fragment (false, false, c, [], acts, t) = true.
Proof.
  intros c acts Ic Ia. pose proof small_scope_refines as E. unfold small_scope_ok in E.
  rewrite forallb_forall in E. specialize (E c Ic). rewrite forallb_forall in E. specialize (E acts Ia).
  unfold refines in E. apply andb_prop in E as [E0 E]. apply andb_prop in E0 as [E0 E3]. apply andb_prop in E0 as [E1 E2].
  destruct (direct FUEL0 c acts) as [t|]; [|discriminate]. destruct (ref_direct RF c acts) as [r|]; [|discriminate].
  exists t, r. repeat split; try reflexivity; [exact E|]. unfold in_fragment. cbn [negb andb]. rewrite E1, E2, E3. reflexivity.
Qed.

(* how large the scope is (number of commands, number of command x schedule cases) *)
Theorem small_scope_counts : (N.of_nat (length small_cmds), small_scope_size) = (1505%N, 24111%N).
Proof. vm_compute. reflexivity. Qed.
