(* C01, the probe on the runtime model: a call that starts Command::done() on an idle Core (executor
   queues empty, no event pending, nothing in the request channel) returns no effect, applies exactly
   its own event and leaves the Core idle, whatever else the heap holds.  The command is executed
   symbolically on an ARBITRARY heap H: every intermediate heap is kept in the normal form
   [N H fl cm wk lg] = H with one more task flag fl, one more command cm, more waker generations and log
   notes - everything else of H (channels, other commands, ready queue, request channel) untouched. *)
From Coq Require Import List Arith Bool Lia.
From Crux Require Import Rt.Lang Rt.Rt Rt.Host Rt.Tables.
Import ListNotations.

Lemma nth_app_len {A} (l : list A) x d : nth (length l) (l ++ [x]) d = x.
Proof. induction l as [|y l IH]; simpl; [reflexivity | exact IH]. Qed.
Lemma updd_app_len {A} (d : A) f l x : updd d (length l) f (l ++ [x]) = l ++ [f x].
Proof. induction l as [|y l IH]; simpl; [reflexivity | rewrite IH; reflexivity]. Qed.

Definition N (H : heap) (fl : tflag) (cm : cmdst) (wk : list bool) (lg : list nat) : heap :=
  mkH (chans H) (tfl H ++ [fl]) (cmds H ++ [cm]) (woken H ++ wk) (xready H) (aborted H) (lg ++ log H) (hout H).

Section Norm.
  Variable H : heap.
  Let cid := length (cmds H).
  Let u0 := length (tfl H).
  Lemma gcmd_N fl cm wk lg : gcmd cid (N H fl cm wk lg) = cm.
  Proof. unfold gcmd, getd, N; simpl. apply nth_app_len. Qed.
  Lemma ucmd_N f fl cm wk lg : ucmd cid f (N H fl cm wk lg) = N H fl (f cm) wk lg.
  Proof. unfold ucmd, N; simpl. unfold cid. rewrite updd_app_len. reflexivity. Qed.
  Lemma gtf_N fl cm wk lg : gtf u0 (N H fl cm wk lg) = fl.
  Proof. unfold gtf, getd, N; simpl. apply nth_app_len. Qed.
  Lemma utf_N f fl cm wk lg : utf u0 f (N H fl cm wk lg) = N H (f fl) cm wk lg.
  Proof. unfold utf, N; simpl. unfold u0. rewrite updd_app_len. reflexivity. Qed.
  Lemma note_N n fl cm wk lg : note n (N H fl cm wk lg) = N H fl cm wk (n :: lg).
  Proof. reflexivity. Qed.
  Lemma gen_N fl cm wk lg :
    mkH (chans (N H fl cm wk lg)) (tfl (N H fl cm wk lg)) (cmds (N H fl cm wk lg)) (woken (N H fl cm wk lg) ++ [false])
        (xready (N H fl cm wk lg)) (aborted (N H fl cm wk lg)) (log (N H fl cm wk lg)) (hout (N H fl cm wk lg))
    = N H fl cm (wk ++ [false]) lg.
  Proof. unfold N; simpl. rewrite <- app_assoc. reflexivity. Qed.
  Lemma was_aborted_N fl cm wk lg : c_names cm = [] -> was_aborted cid (N H fl cm wk lg) = false.
  Proof. intros E. unfold was_aborted. rewrite gcmd_N, E. reflexivity. Qed.
  Lemma new_cmd_N en m : new_cmd [] None en m [] H =
    (cid, N H (mkTF false false true []) (mkCmd true [0] [] [Occ (mkT u0 (fs_of en m))] 1 1 [] [] None [] u0 cid) [] []).
  Proof. unfold new_cmd, new_tflag, N; simpl. rewrite app_nil_r. reflexivity. Qed.
End Norm.

Ltac nf := repeat first [ rewrite gcmd_N | rewrite ucmd_N | rewrite gtf_N | rewrite utf_N | rewrite note_N | rewrite gen_N ].
Lemma drop_fs_run d en t H : drop_fs (S d) (mkF en (LRun t) []) H = H.
Proof. reflexivity. Qed.
Ltac ev := unfold set_atomic, set_spawnq, set_ready, set_eff, set_evs, set_alive, set_slab, slab_set, slab_remove, slab_get, slab_clear, spawn_one, kill_flag, fs_of;
  cbn [rsettle rloop rdrain rrun_task rpoll step_funs settle_body loop_body drain_body run_task_body poll_body finish_task
       c_alive c_ready c_spawnq c_ent c_next c_len c_eff c_evs c_atomic c_names c_task0 c_epoch
       tf_fin tf_abort tf_alive tf_joinw t_uid t_fs f_env f_leaf f_stack
       nth_error fold_left negb orb andb Nat.eqb pred updd].

(* what is left of a Command::done() after its one poll *)
Definition fl_done := mkTF true false false [].
Definition cm_done (H : heap) (w : waker) :=
  mkCmd true [] [] [Vac 1] 0 0 [] [] (Some w) [] (length (tfl H)) (length (cmds H)).

(* the executor polls a freshly spawned Command::done(): one task, finished at its first poll; the
   command stream reports None at once; nothing is woken, nothing reaches any queue of H *)
Definition fl_new := mkTF false false true [].
Definition cm_new (H : heap) (en : env) :=
  mkCmd true [0] [] [Occ (mkT (length (tfl H)) (fs_of en TRet))] 1 1 [] [] None [] (length (tfl H)) (length (cmds H)).
Lemma new_done_N en H : new_cmd [] None en TRet [] H = (length (cmds H), N H fl_new (cm_new H en) [] []).
Proof. apply new_cmd_N. Qed.
Lemma poll_next_done f w en H :
  poll_next (S (S (S (S (S (S f)))))) (length (cmds H)) w (N H fl_new (cm_new H en) [] [])
  = Some (PNDone, N H fl_done (cm_done H w) [false] []).
Proof.
  unfold fl_new, cm_new.
  unfold poll_next. cbn [funs step_funs rpoll_next]. unfold poll_next_body.
  nf. ev.
  unfold settle_body at 1. rewrite was_aborted_N by reflexivity.
  ev. unfold loop_body at 1. nf. ev. nf. ev.
  unfold drain_body at 1. nf. ev. nf. unfold run_task_body at 1. nf. ev. rewrite was_aborted_N by reflexivity. rewrite Nat.eqb_refl. ev.
  cbn [funs step_funs rpoll]. ev. nf. ev.
  unfold finish_task. nf. ev. nf. ev. unfold dfuel. rewrite drop_fs_run. nf. ev.
  unfold drain_body at 1. nf. ev.
  unfold loop_body at 1. nf. ev. nf. ev.
  unfold settle_body at 1. rewrite was_aborted_N by reflexivity. ev. unfold loop_body at 1. nf. ev. nf. ev.
  nf. ev. reflexivity.
Qed.

(* dropping it afterwards touches nothing else either *)
Lemma drop_done H w : drop_cmd (dfuel (N H fl_done (cm_done H w) [false] [])) (length (cmds H)) (N H fl_done (cm_done H w) [false] [])
  = N H fl_done (mkCmd false [] [] [] 0 0 [] [] (Some w) [] (length (tfl H)) (length (cmds H))) [false] [].
Proof. unfold dfuel. cbn [drop_cmd]. nf. unfold cm_done. ev. reflexivity. Qed.

(* ---------- the Core ---------- *)
Lemma xget_xinsert cid s q sl : xinsert cid s = (q, sl) -> xget q sl = Some cid.
Proof.
  unfold xinsert, xget. destruct (Nat.eqb (snd s) (length (fst s))) eqn:E; intros X; inversion X; subst; cbn [fst].
  - apply Nat.eqb_eq in E. rewrite E. unfold getd. rewrite nth_app_len. reflexivity.
  - rewrite getd_updd_same. reflexivity.
Qed.

Section Core.
  Variable F : nat.
  Notation FUEL := (S (S (S (S (S (S F)))))).
  Definition cm_gone (H : heap) (w : waker) := mkCmd false [] [] [] 0 0 [] [] (Some w) [] (length (tfl H)) (length (cmds H)).

  Lemma xrun_done g q H sp sl ev out lg rq en :
    xget q sl = Some (length (cmds H)) ->
    xrun_task FUEL (S g) q (mkC (N H fl_new (cm_new H en) [] []) sp sl ev out lg rq)
    = Some (mkC (N H fl_done (cm_gone H (WExec q)) [false] []) sp (xremove q sl) ev out lg rq).
  Proof.
    intros X. cbn [xrun_task k_slab k_H]. rewrite X. rewrite poll_next_done.
    cbn [k_spawn k_slab k_events k_out k_log k_reqs]. rewrite drop_done. reflexivity.
  Qed.

  Definition KD (H : heap) (q : nat) sl ev out lg rq := mkC (N H fl_done (cm_gone H (WExec q)) [false] []) [] sl ev out lg rq.

  Lemma xspawn_done g H slab q sl ev out lg rq en :
    xinsert (length (cmds H)) slab = (q, sl) ->
    xspawn_all FUEL (S (S g)) (mkC (N H fl_new (cm_new H en) [] []) [length (cmds H)] slab ev out lg rq)
    = Some (KD H q (xremove q sl) ev out lg rq).
  Proof.
    intros X. cbn [xspawn_all k_spawn k_slab k_H k_events k_out k_log k_reqs]. rewrite X.
    rewrite (xrun_done _ q H [] sl ev out lg rq en (xget_xinsert _ _ _ _ X)). reflexivity.
  Qed.
  Lemma xready_done g H q sl ev out lg rq : xready H = [] ->
    xready_all FUEL (S g) (KD H q sl ev out lg rq) = Some (KD H q sl ev out lg rq).
  Proof. intros R. cbn [xready_all KD k_H]. unfold N; cbn [xready]. rewrite R. reflexivity. Qed.
  Lemma run_all_done g H slab q sl ev out lg rq en :
    xready H = [] -> xinsert (length (cmds H)) slab = (q, sl) ->
    run_all FUEL (S (S g)) (mkC (N H fl_new (cm_new H en) [] []) [length (cmds H)] slab ev out lg rq)
    = Some (KD H q (xremove q sl) ev out lg rq).
  Proof.
    intros R X. cbn [run_all k_spawn].
    rewrite (xspawn_done _ H slab q sl ev out lg rq en X).
    rewrite (xready_done _ H q _ ev out lg rq R).
    cbn [KD k_spawn k_H]. unfold N; cbn [xready]. rewrite R. reflexivity.
  Qed.

  (* the call: an event whose handler returns Command::done(), on an idle Core *)
  Theorem probe_silent_model hs tg v k :
    lookup tg hs = c_done ->
    k_spawn k = [] -> xready (k_H k) = [] -> k_events k = [] -> hout (k_H k) = [] ->
    exists k', cstep FUEL hs (AEvent tg v) k = Some (OCall 0 [] (k_log k ++ [mkEv tg v []]), k') /\
               k_spawn k' = [] /\ xready (k_H k') = [] /\ k_events k' = [] /\ hout (k_H k') = [] /\
               k_log k' = k_log k ++ [mkEv tg v []] /\ k_reqs k' = k_reqs k.
  Proof.
    intros Hd Hs Hr He Ho. cbn [cstep]. rewrite Hd. unfold spawn_cmd. cbn [compile c_done cx_name cx_main cx_extra k_H].
    rewrite new_done_N. cbn [k_spawn k_slab k_events k_out k_log k_reqs]. rewrite Hs. cbn [app].
    destruct (xinsert (length (cmds (k_H k))) (k_slab k)) as [q sl] eqn:X.
    cbn [process].
    rewrite (run_all_done _ (k_H k) (k_slab k) q sl _ _ _ _ [v] Hr X).
    cbn [KD k_events]. rewrite He.
    unfold take_out, KD. cbn [k_H k_spawn k_slab k_events k_log k_reqs]. unfold N at 1 2. cbn [hout]. rewrite Ho. cbn [map app].
    eexists. split; [reflexivity|]. cbn [k_H k_spawn k_events k_log k_reqs]. unfold set_hout, N; cbn [xready hout].
    repeat split; try reflexivity; try assumption. rewrite Ho. cbn [map]. apply app_nil_r.
  Qed.
End Core.

(* ---------- C01_ok holds of every trace of the Core model ---------- *)
From Crux Require Import Rt.HostProps Rt.Check.

Definition idle4 (k : core) : Prop := k_spawn k = [] /\ xready (k_H k) = [] /\ k_events k = [] /\ hout (k_H k) = [].
Definition pinv (prev : option (list event)) (k : core) : Prop :=
  match prev with Some plog => idle4 k /\ k_log k = plog | None => True end.

Lemma take_out_idle FU fuel hs k0 k1 code o k' :
  process FU fuel hs k0 = Some k1 -> take_out code k1 = (o, k') -> idle4 k' /\ o = OCall code (map oeff_of (hout (k_H k1))) (k_log k1) /\ k_log k' = k_log k1.
Proof.
  intros P T. apply process_idle in P. destruct P as (S1 & R1 & E1).
  unfold take_out in T. inversion T; subst. cbn [k_H k_spawn k_events k_log].
  split; [|split; reflexivity]. unfold idle4, set_hout; cbn [k_spawn k_H k_events xready hout]. repeat split; assumption.
Qed.

Lemma resolve_reject_idle e v H code e' H' :
  resolve_req e v H = (code, e', H') -> code <> 0 -> xready H' = xready H /\ hout H' = hout H.
Proof.
  unfold resolve_req. destruct (e_res e) as [|ch|ch|ch].
  - intros E _; inversion E; subst. split; reflexivity.
  - destruct (chan_send ch v H) as [ok H1]. intros E C; inversion E; subst. congruence.
  - unfold chan_send. destruct (ch_rx (gch ch H)); intros E C; inversion E; subst; [congruence|]. split; reflexivity.
  - destruct (chan_send ch v H) as [ok H1]. intros E C; inversion E; subst. congruence.
Qed.

Lemma list_eqb_refl_ev l : list_eqb event_eqb l l = true.
Proof. induction l as [|x l IH]; cbn [list_eqb]; [reflexivity|]. rewrite event_eqb_refl. exact IH. Qed.

Section Trace.
  Variable F : nat.
  Notation FUEL := (S (S (S (S (S (S F)))))).
  Variable hs : handlers.
  Hypothesis Hprobe : lookup 99 hs = c_done.

  Lemma cstep_pinv a k o k' prev :
    cstep FUEL hs a k = Some (o, k') -> pinv prev k ->
    match o with
    | OCall 0 effs lg =>
        (match a, prev with
         | AEvent 99 0, Some plog => match effs with [] => list_eqb event_eqb lg (plog ++ [mkEv 99 0 []]) | _ :: _ => false end
         | _, _ => true end) = true /\ pinv (Some lg) k'
    | OCall _ _ _ => pinv prev k'
    | OResolve _ | OLive _ => pinv prev k'
    | OPanic => False
    | _ => True
    end.
  Proof.
    intros E P. destruct a; cbn [cstep] in E.
    - inversion E; subst. exact I.
    - inversion E; subst. exact I.
    - inversion E; subst. exact I.
    - (* AResolve *)
      destruct (find_rq tg v occ 0 (k_reqs k)) as [i|]; [|inversion E; subst; exact P].
      set (r := nth i (k_reqs k) _) in *.
      destruct (rq_dropped r); [inversion E; subst; exact P|].
      destruct (resolve_req (rq_eff r) out (k_H k)) as [[code e'] H1] eqn:ER.
      destruct (Nat.eqb code 0) eqn:EC.
      + match type of E with match process _ _ _ ?k1 with _ => _ end = _ => destruct (process FUEL FUEL hs k1) as [k2|] eqn:EP; [|discriminate] end.
        destruct (take_out 0 k2) as [o2 k3] eqn:ET. inversion E; subst.
        destruct (take_out_idle _ _ _ _ _ _ _ _ EP ET) as (I3 & -> & L3).
        split; [reflexivity | split; [exact I3 | exact L3]].
      + inversion E; subst. apply Nat.eqb_neq in EC. destruct code as [|c]; [congruence|].
        destruct prev as [plog|]; [|exact I]. destruct P as ((S0 & R0 & E0 & O0) & L0).
        destruct (resolve_reject_idle _ _ _ _ _ _ ER ltac:(discriminate)) as [RX HX].
        split; [|exact L0]. unfold idle4; cbn [k_spawn k_H k_events]. rewrite RX, HX. repeat split; assumption.
    - (* ADropReq *)
      destruct (find_rq tg v occ 0 (k_reqs k)) as [i|]; [|inversion E; subst; exact I].
      destruct (rq_dropped _); inversion E; subst; exact I.
    - inversion E; subst. exact I.
    - (* AEvent *)
      destruct prev as [plog|].
      + destruct P as ((S0 & R0 & E0 & O0) & L0).
        destruct (Nat.eq_dec tg 99) as [->|Ntg].
        * destruct (probe_silent_model F hs 99 v k Hprobe S0 R0 E0 O0) as (k2 & EK & S2 & R2 & E2 & O2 & L2 & Q2).
          change (cstep FUEL hs (AEvent 99 v) k = Some (o, k')) in E. rewrite EK in E. inversion E; subst. split.
          -- destruct v as [|v0]; [|reflexivity]. apply list_eqb_refl_ev.
          -- split; [repeat split; assumption | exact L2].
        * match type of E with match process _ _ _ ?k1 with _ => _ end = _ => destruct (process FUEL FUEL hs k1) as [k2|] eqn:EP; [|discriminate] end.
          destruct (take_out 0 k2) as [o2 k3] eqn:ET. inversion E; subst.
          destruct (take_out_idle _ _ _ _ _ _ _ _ EP ET) as (I3 & -> & L3).
          split; [|split; [exact I3 | exact L3]].
          do 99 (destruct tg as [|tg]; [reflexivity|]). destruct tg; [congruence | reflexivity].
      + match type of E with match process _ _ _ ?k1 with _ => _ end = _ => destruct (process FUEL FUEL hs k1) as [k2|] eqn:EP; [|discriminate] end.
        destruct (take_out 0 k2) as [o2 k3] eqn:ET. inversion E; subst.
        destruct (take_out_idle _ _ _ _ _ _ _ _ EP ET) as (I3 & -> & L3).
        split; [|split; [exact I3 | exact L3]].
        destruct tg as [|tg]; reflexivity || (do 98 (destruct tg as [|tg]; [reflexivity|]); destruct tg; [destruct v|]; reflexivity).
    - inversion E; subst. exact P.
    - inversion E; subst. exact I.
  Qed.

  Lemma crun_probes : forall acts k os prev,
    crun FUEL hs acts k = Some os -> pinv prev k -> C01_probes acts os prev = true /\ no_panic os = true.
  Proof.
    induction acts as [|a acts IH]; intros k os prev E P; cbn [crun] in E.
    - inversion E; subst. split; reflexivity.
    - destruct (cstep FUEL hs a k) as [[o k1]|] eqn:EC; [|discriminate].
      destruct (crun FUEL hs acts k1) as [os1|] eqn:ER; [|discriminate]. inversion E; subst.
      pose proof (cstep_pinv a k o k1 prev EC P) as Q.
      cbn [C01_probes no_panic forallb].
      destruct o as [l|l|b n|c|c effs lg|n| |].
      + destruct (IH k1 os1 None ER I) as [A B]. rewrite A. exact (conj eq_refl B).
      + destruct (IH k1 os1 None ER I) as [A B]. rewrite A. exact (conj eq_refl B).
      + destruct (IH k1 os1 None ER I) as [A B]. rewrite A. exact (conj eq_refl B).
      + destruct (IH k1 os1 prev ER Q) as [A B]. rewrite A. exact (conj eq_refl B).
      + destruct c as [|c].
        * destruct Q as [Q1 Q2]. destruct (IH k1 os1 (Some lg) ER Q2) as [A B]. rewrite Q1, A. exact (conj eq_refl B).
        * destruct (IH k1 os1 prev ER Q) as [A B]. rewrite A. exact (conj eq_refl B).
      + destruct (IH k1 os1 prev ER Q) as [A B]. rewrite A. exact (conj eq_refl B).
      + contradiction.
      + destruct (IH k1 os1 None ER I) as [A B]. rewrite A. exact (conj eq_refl B).
  Qed.

  (* C01's observable form, of every trace of the Core model: for every app whose event 99 has no handler,
     every history and every fuel >= 6 *)
  Theorem C01_ok_of_model d p acts os :
    under_core FUEL hs acts = Some os -> C01_ok (true, d, p, hs, acts, os) = true.
  Proof.
    intros E. unfold under_core in E. destruct (crun_probes acts (core0) os None E I) as [A B].
    unfold C01_ok. rewrite B, A. reflexivity.
  Qed.
End Trace.
