(* Hosts of the runtime model: (1) direct inspection of a Command (effects()/events()/is_done(),
   Request::resolve, drop, AbortHandle::abort), (2) Core with the command API (core/mod.rs process_event /
   resolve / process, capability/executor.rs run_all / run_task, capability/mod.rs CommandSpawner::spawn).
   Observations are what the Rust harness can see through the public API.  No proofs here. *)
From Coq Require Import List Arith Bool.
From Crux Require Import Rt.Lang Rt.Rt.
Import ListNotations.
Set Implicit Arguments.

Definition FUEL0 := 2000.   (* the fuel the generated case files run the model with *)

(* ---------- observations ---------- *)
Inductive rk := KNever | KOnce | KMany.
Definition kind_of (e : effect) : rk := match e_res e with RNever => KNever | ROnce _ | RLegacy _ => KOnce | RMany _ => KMany end.
Record oeff := mkOE { oe_tag : nat; oe_val : nat; oe_maps : list nat; oe_kind : rk }.
Definition oeff_of (e : effect) := mkOE (e_tag e) (e_val e) (e_maps e) (kind_of e).
Inductive obs :=
| OEffects (l : list oeff)
| OEvents (l : list event)
| ODone (b : bool) (live : nat)    (* is_done(), and the number of tasks held afterwards (hook) *)
| OResolve (code : nat)            (* 0 Ok | 1 Err Never | 2 Err FinishedMany | 3 no such request held *)
| OCall (code : nat) (effs : list oeff) (applog : list event)   (* Core call: result code, returned effects, view *)
| OLive (n : nat)                  (* tasks held by the host (Command / Core executor), read through the hook *)
| OPanic                           (* the implementation panicked (harness catch_unwind); never produced by the model *)
| ONone.

(* the shell's table of received requests, arrival order; None = the shell dropped it *)
Definition reqtab := list (option effect).
Fixpoint find_req (tg v occ : nat) (i : nat) (l : reqtab) : option nat :=
  match l with
  | [] => None
  | o :: rest =>
    let hit := match o with Some e => Nat.eqb (e_tag e) tg && Nat.eqb (e_val e) v | None => false end in
    (* dropped entries still count towards the occurrence number through their tombstone *)
    if hit then (match occ with 0 => Some i | S occ' => find_req tg v occ' (S i) rest end)
    else find_req tg v occ (S i) rest
  end.
(* tombstones must keep (tag,val) so that occurrence numbers are stable: keep the effect with RNever
   and a separate dropped flag *)
Record rq := mkRq { rq_eff : effect; rq_dropped : bool }.
Fixpoint find_rq (tg v occ : nat) (i : nat) (l : list rq) : option nat :=
  match l with
  | [] => None
  | r :: rest =>
    if Nat.eqb (e_tag (rq_eff r)) tg && Nat.eqb (e_val (rq_eff r)) v
    then (match occ with 0 => Some i | S occ' => find_rq tg v occ' (S i) rest end)
    else find_rq tg v occ (S i) rest
  end.

(* Resolve::resolve *)
Definition resolve_req (e : effect) (v : nat) (H : heap) : nat * effect * heap :=
  match e_res e with
  | RNever => (1, e, H)
  | ROnce ch => let (_, H1) := chan_send ch v H in
                (0, mkEff (e_tag e) (e_val e) (e_maps e) RNever, chan_drop_tx ch H1)
  | RMany ch => let (ok, H1) := chan_send ch v H in ((if ok then 0 else 2), e, H1)
  | RLegacy ch =>
      (* the closure upgrades its weak reference: if the future is gone nothing happens; Ok either way *)
      let (_, H1) := chan_send ch v H in (0, mkEff (e_tag e) (e_val e) (e_maps e) RNever, H1)
  end.

Definition set_nth {A} (i : nat) (x : A) (l : list A) : list A :=
  firstn i l ++ match skipn i l with [] => [] | _ :: t => x :: t end.

(* Everything below is parametric in the fuel handed to the runtime functions, so that the theorems
   about hosts hold for every fuel and no proof ever has to normalise a concrete numeral. *)
Section WithFuel.
Variable FUEL : nat.

(* ---------- direct host ---------- *)
Record dstate := mkD { d_reqs : list rq; d_H : heap }.

Definition dstep (top : nat) (a : action) (st : dstate) : option (obs * dstate) :=
  let H := d_H st in
  match a with
  | AEffects => match settle FUEL top H with None => None | Some H1 =>
      let es := c_eff (gcmd top H1) in
      Some (OEffects (map oeff_of es),
            mkD (d_reqs st ++ map (fun e => mkRq e false) es) (ucmd top (set_eff []) H1)) end
  | AEvents => match settle FUEL top H with None => None | Some H1 =>
      Some (OEvents (c_evs (gcmd top H1)), mkD (d_reqs st) (ucmd top (set_evs []) H1)) end
  | AIsDone => match settle FUEL top H with None => None | Some H1 =>
      let cm := gcmd top H1 in
      let d := match c_eff cm, c_evs cm with [], [] => Nat.eqb (c_len cm) 0 | _, _ => false end in
      Some (ODone d (c_len cm), mkD (d_reqs st) H1) end
  | AResolve tg v occ out =>
      match find_rq tg v occ 0 (d_reqs st) with
      | None => Some (OResolve 3, st)
      | Some i =>
        let r := nth i (d_reqs st) (mkRq (mkEff 0 0 [] RNever) true) in
        if rq_dropped r then Some (OResolve 3, st) else
        let '(code, e', H1) := resolve_req (rq_eff r) out H in
        Some (OResolve code, mkD (set_nth i (mkRq e' false) (d_reqs st)) H1)
      end
  | ADropReq tg v occ =>
      match find_rq tg v occ 0 (d_reqs st) with
      | None => Some (ONone, st)
      | Some i =>
        let r := nth i (d_reqs st) (mkRq (mkEff 0 0 [] RNever) true) in
        if rq_dropped r then Some (ONone, st) else
        Some (ONone, mkD (set_nth i (mkRq (rq_eff r) true) (d_reqs st)) (drop_req (rq_eff r) H))
      end
  | AAbort name => Some (ONone, mkD (d_reqs st) (add_aborted name H))
  | AEvent _ _ => Some (ONone, st)
  | ALive => Some (OLive (c_len (gcmd top H)), st)
  | ASpawn t =>
      (* CommandContext::spawn: build the task, send it to the spawn queue; nothing runs yet *)
      let (u, H1) := new_tflag H in
      Some (ONone, mkD (d_reqs st) (ucmd top (fun cm => set_spawnq (c_spawnq cm ++ [mkT u (fs_of [] t)]) cm) H1))
  end.

Fixpoint drun (top : nat) (acts : list action) (st : dstate) : option (list obs) :=
  match acts with
  | [] => Some []
  | a :: r => match dstep top a st with
              | None => None
              | Some (o, st') => match drun top r st' with None => None | Some os => Some (o :: os) end
              end
  end.

Definition direct (c : cmd) (acts : list action) : option (list obs) :=
  let cc := compile c in
  let (top, H) := new_cmd (cx_name cc) None [] (cx_main cc) (cx_extra cc) H0 in
  drun top acts (mkD [] H).

(* coverage: the branch tags hit by a run *)
Fixpoint drun_log (top : nat) (acts : list action) (st : dstate) : list nat :=
  match acts with
  | [] => log (d_H st)
  | a :: r => match dstep top a st with None => log (d_H st) | Some (_, st') => drun_log top r st' end
  end.
Definition direct_log (c : cmd) (acts : list action) : list nat :=
  let cc := compile c in
  let (top, H) := new_cmd (cx_name cc) None [] (cx_main cc) (cx_extra cc) H0 in
  nodup Nat.eq_dec (drun_log top acts (mkD [] H)).

(* ---------- Core host ---------- *)
(* the app: update(event) = the command of the handler registered for the event's tag, with the
   event's value in variable 0; unknown tags (and mapped events) return Command::done() *)
Definition handlers := list (nat * cmd).
Fixpoint lookup (tg : nat) (hs : handlers) : cmd :=
  match hs with [] => c_done | (t, c) :: r => if Nat.eqb t tg then c else lookup tg r end.

(* the executor's Slab<Option<BoxFuture>> (slab 0.4.9): vacant entries form a LIFO free list through
   their next pointers.  The keys matter: a waker that outlives its task (it sits in a channel whose
   receiver is gone) names a slot, and wakes whatever task holds that slot now *)
Inductive xent := XOcc (cid : nat) | XVac (next : nat).
Definition xslab := (list xent * nat)%type.
Definition xget (q : nat) (s : xslab) : option nat :=
  match getd (XVac 0) q (fst s) with XOcc c => Some c | XVac _ => None end.
Definition xinsert (cid : nat) (s : xslab) : nat * xslab :=
  let key := snd s in
  if Nat.eqb key (length (fst s)) then (key, (fst s ++ [XOcc cid], S key))
  else let nx := match getd (XVac 0) key (fst s) with XVac n => n | XOcc _ => 0 end in
       (key, (updd (XVac 0) key (fun _ => XOcc cid) (fst s), nx)).
Definition xremove (q : nat) (s : xslab) : xslab := (updd (XVac 0) q (fun _ => XVac (snd s)) (fst s), q).
Definition xlive (s : xslab) : nat := length (filter (fun e => match e with XOcc _ => true | XVac _ => false end) (fst s)).

Record core := mkC {
  k_H : heap;
  k_spawn : list nat;            (* executor spawn_queue: commands handed to CommandSpawner::spawn *)
  k_slab : xslab;                (* executor task slots: which command the task hosts *)
  k_events : list event;         (* capability_events channel *)
  k_out : list effect;           (* requests channel *)
  k_log : list event;            (* the app's model: every event applied, in order *)
  k_reqs : list rq
}.
Definition setH (H : heap) (k : core) := mkC H (k_spawn k) (k_slab k) (k_events k) (k_out k) (k_log k) (k_reqs k).

(* QueuingExecutor::run_task on a CommandSpawner task *)
Fixpoint xrun_task (fuel : nat) (q : nat) (k : core) : option core :=
  match fuel with 0 => None | S f =>
  match xget q (k_slab k) with
  | None => Some k                                   (* Missing *)
  | Some cid =>
    match poll_next FUEL cid (WExec q) (k_H k) with
    | None => None
    | Some (PNEffect e, H1) => xrun_task f q (mkC (push_hout e H1) (k_spawn k) (k_slab k) (k_events k) (k_out k) (k_log k) (k_reqs k))
    | Some (PNEvent e, H1) => xrun_task f q (mkC H1 (k_spawn k) (k_slab k) (k_events k ++ [e]) (k_out k) (k_log k) (k_reqs k))
    | Some (PNDone, H1) =>
        Some (mkC (drop_cmd (dfuel H1) cid H1) (k_spawn k) (xremove q (k_slab k)) (k_events k) (k_out k) (k_log k) (k_reqs k))
    | Some (PNPending, H1) => Some (setH H1 k)
    end
  end end.

Fixpoint xspawn_all (fuel : nat) (k : core) : option core :=
  match fuel with 0 => None | S f =>
  match k_spawn k with
  | [] => Some k
  | cid :: rest =>
    let (q, sl) := xinsert cid (k_slab k) in
    match xrun_task FUEL q (mkC (k_H k) rest sl (k_events k) (k_out k) (k_log k) (k_reqs k)) with
    | None => None | Some k1 => xspawn_all f k1 end
  end end.
Fixpoint xready_all (fuel : nat) (k : core) : option core :=
  match fuel with 0 => None | S f =>
  match xready (k_H k) with
  | [] => Some k
  | q :: rest =>
    match xrun_task FUEL q (setH (set_xready rest (k_H k)) k) with
    | None => None | Some k1 => xready_all f k1 end
  end end.
Fixpoint run_all (fuel : nat) (k : core) : option core :=
  match fuel with 0 => None | S f =>
  match k_spawn k, xready (k_H k) with
  | [], [] => Some k
  | _, _ => match xspawn_all FUEL k with None => None | Some k1 =>
            match xready_all FUEL k1 with None => None | Some k2 => run_all f k2 end end
  end end.

Definition spawn_cmd (c : cmd) (en : env) (k : core) : core :=
  let cc := compile c in
  let (cid, H1) := new_cmd (cx_name cc) None en (cx_main cc) (cx_extra cc) (k_H k) in
  mkC H1 (k_spawn k ++ [cid]) (k_slab k) (k_events k) (k_out k) (k_log k) (k_reqs k).

Fixpoint process (fuel : nat) (hs : handlers) (k : core) : option core :=
  match fuel with 0 => None | S f =>
  match run_all FUEL k with None => None | Some k1 =>
  match k_events k1 with
  | [] => Some k1
  | e :: rest =>
    let k2 := mkC (k_H k1) (k_spawn k1) (k_slab k1) rest (k_out k1) (k_log k1 ++ [e]) (k_reqs k1) in
    let c := match v_maps e with [] => lookup (v_tag e) hs | _ :: _ => c_done end in
    process f hs (spawn_cmd c [v_val e] k2)
  end end end.

Definition take_out (code : nat) (k : core) : obs * core :=
  let out := hout (k_H k) in    (* self.requests.drain() *)
  (OCall code (map oeff_of out) (k_log k),
   mkC (set_hout [] (k_H k)) (k_spawn k) (k_slab k) (k_events k) [] (k_log k) (k_reqs k ++ map (fun e => mkRq e false) out)).

Definition cstep (hs : handlers) (a : action) (k : core) : option (obs * core) :=
  match a with
  | AEvent tg v =>
      let e := mkEv tg v [] in
      let k1 := mkC (k_H k) (k_spawn k) (k_slab k) (k_events k) (k_out k) (k_log k ++ [e]) (k_reqs k) in
      match process FUEL hs (spawn_cmd (lookup tg hs) [v] k1) with None => None | Some k2 => Some (take_out 0 k2) end
  | AResolve tg v occ out =>
      match find_rq tg v occ 0 (k_reqs k) with
      | None => Some (OResolve 3, k)
      | Some i =>
        let r := nth i (k_reqs k) (mkRq (mkEff 0 0 [] RNever) true) in
        if rq_dropped r then Some (OResolve 3, k) else
        let '(code, e', H1) := resolve_req (rq_eff r) out (k_H k) in
        let k1 := mkC H1 (k_spawn k) (k_slab k) (k_events k) (k_out k) (k_log k) (set_nth i (mkRq e' false) (k_reqs k)) in
        (* Core::resolve: `resolve_result?; Ok(self.process())` *)
        if Nat.eqb code 0
        then match process FUEL hs k1 with None => None | Some k2 => Some (take_out 0 k2) end
        else Some (OCall code [] (k_log k1), k1)
      end
  | ADropReq tg v occ =>
      match find_rq tg v occ 0 (k_reqs k) with
      | None => Some (ONone, k)
      | Some i =>
        let r := nth i (k_reqs k) (mkRq (mkEff 0 0 [] RNever) true) in
        if rq_dropped r then Some (ONone, k) else
        Some (ONone, mkC (drop_req (rq_eff r) (k_H k)) (k_spawn k) (k_slab k) (k_events k) (k_out k) (k_log k)
                         (set_nth i (mkRq (rq_eff r) true) (k_reqs k)))
      end
  | AAbort name => Some (ONone, setH (add_aborted name (k_H k)) k)
  | AEffects | AEvents | AIsDone | ASpawn _ => Some (ONone, k)
  | ALive => Some (OLive (xlive (k_slab k)), k)
  end.

Fixpoint crun (hs : handlers) (acts : list action) (k : core) : option (list obs) :=
  match acts with
  | [] => Some []
  | a :: r => match cstep hs a k with
              | None => None
              | Some (o, k') => match crun hs r k' with None => None | Some os => Some (o :: os) end
              end
  end.
Definition core0 := mkC H0 [] ([], 0) [] [] [] [].
Definition under_core (hs : handlers) (acts : list action) : option (list obs) := crun hs acts core0.

End WithFuel.

(* ---------- decidable equality of observations (used by generated case files) ---------- *)
Fixpoint list_eqb {A} (eqb : A -> A -> bool) (a b : list A) : bool :=
  match a, b with
  | [], [] => true
  | x :: a', y :: b' => eqb x y && list_eqb eqb a' b'
  | _, _ => false
  end.
Definition rk_eqb (a b : rk) := match a, b with KNever, KNever | KOnce, KOnce | KMany, KMany => true | _, _ => false end.
(* the resolve kind of a Request is not readable through the public API, so the harness cannot
   observe it; it is compared through the result codes of resolutions instead *)
Definition oeff_eqb (a b : oeff) :=
  Nat.eqb (oe_tag a) (oe_tag b) && Nat.eqb (oe_val a) (oe_val b) && list_eqb Nat.eqb (oe_maps a) (oe_maps b).
Definition event_eqb (a b : event) :=
  Nat.eqb (v_tag a) (v_tag b) && Nat.eqb (v_val a) (v_val b) && list_eqb Nat.eqb (v_maps a) (v_maps b).
Definition obs_eqb (a b : obs) : bool :=
  match a, b with
  | OEffects x, OEffects y => list_eqb oeff_eqb x y
  | OEvents x, OEvents y => list_eqb event_eqb x y
  | ODone x n, ODone y m => Bool.eqb x y && Nat.eqb n m
  | OResolve x, OResolve y => Nat.eqb x y
  | OCall c x l, OCall c' y l' => Nat.eqb c c' && list_eqb oeff_eqb x y && list_eqb event_eqb l l'
  | ONone, ONone => true
  | OLive n, OLive m => Nat.eqb n m
  | _, _ => false
  end.
Definition trace_eqb (a b : option (list obs)) : bool :=
  match a, b with Some x, Some y => list_eqb obs_eqb x y | _, _ => false end.
