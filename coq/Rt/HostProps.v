(* Theorems about the host layers of the model (Host.v) and the trace predicates of Check.v. *)
From Coq Require Import List Arith Bool Lia.
From Crux Require Import Rt.Lang Rt.Rt Rt.Host Rt.Check Rt.Frame Rt.Perm.
Import ListNotations.

Section WithFuel.
Variable FUEL : nat.

(* ---------- C07: a command that reports done holds no task (every model trace) ---------- *)
Lemma dstep_done_sound top a st o st' :
  dstep FUEL top a st = Some (o, st') -> match o with ODone true (S _) => False | _ => True end.
Proof.
  destruct a; simpl; intros E;
    repeat match type of E with
    | match ?x with _ => _ end = Some _ => destruct x eqn:?; try discriminate
    | (if ?b then _ else _) = Some _ => destruct b eqn:?
    | (let '(_, _) := ?x in _) = Some _ => destruct x eqn:?
    end; inversion E; subst; auto.
  (* AIsDone *)
  destruct (c_eff (gcmd top h)); auto. destruct (c_evs (gcmd top h)); auto.
  destruct (c_len (gcmd top h)); simpl; auto.
Qed.

Theorem drun_done_sound : forall acts top st os,
  drun FUEL top acts st = Some os -> C07_done_sound os = true.
Proof.
  induction acts as [|a acts IH]; intros top st os E; simpl in E.
  - inversion E; reflexivity.
  - destruct (dstep FUEL top a st) as [[o st']|] eqn:E1; [|discriminate].
    destruct (drun FUEL top acts st') as [os'|] eqn:E2; [|discriminate].
    inversion E; subst. unfold C07_done_sound. simpl. apply andb_true_iff. split.
    + apply dstep_done_sound in E1. destruct o; auto. destruct b; auto. destruct live; auto.
    + apply (IH top st'); exact E2.
Qed.

Corollary direct_done_sound c acts os : direct FUEL c acts = Some os -> C07_done_sound os = true.
Proof.
  unfold direct. destruct (new_cmd _ _ _ _ _ _) as [top H]. apply drun_done_sound.
Qed.

(* ---------- C03: the app's log only grows, and a submitted event is applied first ---------- *)
Lemma event_eqb_refl e : event_eqb e e = true.
Proof.
  unfold event_eqb. rewrite !Nat.eqb_refl. simpl.
  induction (v_maps e) as [|x l IH]; simpl; [reflexivity|]. rewrite Nat.eqb_refl. exact IH.
Qed.
Lemma is_prefix_app a b : is_prefix a (a ++ b) = true.
Proof. induction a as [|x a IH]; simpl; [reflexivity|]. rewrite event_eqb_refl. exact IH. Qed.
Lemma is_prefix_refl a : is_prefix a a = true.
Proof. rewrite <- (app_nil_r a) at 2. apply is_prefix_app. Qed.

(* [inversion]/[injection] normalise fuelled subterms; peel [Some] with congruence instead *)
Ltac some_eq E := match type of E with Some ?a = Some ?b => let X := fresh "X" in assert (X : a = b) by congruence; rewrite <- X end.

Definition extends (a b : list event) : Prop := exists l, b = a ++ l.
Lemma extends_refl a : extends a a. Proof. exists []. rewrite app_nil_r; reflexivity. Qed.
Lemma extends_trans a b c : extends a b -> extends b c -> extends a c.
Proof. intros [l1 ->] [l2 ->]. exists (l1 ++ l2). rewrite app_assoc; reflexivity. Qed.

Lemma xrun_task_log : forall fuel q k k', xrun_task FUEL fuel q k = Some k' -> k_log k' = k_log k.
Proof.
  induction fuel as [|f IH]; intros q k k' E; [discriminate|]. cbn [xrun_task] in E.
  destruct (xget q (k_slab k)); [|some_eq E; reflexivity].
  destruct (poll_next FUEL n (WExec q) (k_H k)) as [[r H1]|]; [|discriminate].
  destruct r.
  - some_eq E; reflexivity.
  - some_eq E; reflexivity.
  - apply IH in E; exact E.
  - apply IH in E; exact E.
Qed.
Lemma xspawn_all_log : forall fuel k k', xspawn_all FUEL fuel k = Some k' -> k_log k' = k_log k.
Proof.
  induction fuel as [|f IH]; intros k k' E; [discriminate|]. cbn [xspawn_all] in E.
  destruct (k_spawn k); [inversion E; reflexivity|].
  destruct (xinsert n (k_slab k)) as [q sl].
  match type of E with match ?x with _ => _ end = _ => destruct x as [k1|] eqn:E1; [|discriminate] end.
  apply xrun_task_log in E1. apply IH in E. rewrite E, E1. reflexivity.
Qed.
Lemma xready_all_log : forall fuel k k', xready_all FUEL fuel k = Some k' -> k_log k' = k_log k.
Proof.
  induction fuel as [|f IH]; intros k k' E; [discriminate|]. cbn [xready_all] in E.
  destruct (xready (k_H k)); [inversion E; reflexivity|].
  match type of E with match ?x with _ => _ end = _ => destruct x as [k1|] eqn:E1; [|discriminate] end.
  apply xrun_task_log in E1. apply IH in E. rewrite E, E1. reflexivity.
Qed.
Lemma run_all_log : forall fuel k k', run_all FUEL fuel k = Some k' -> k_log k' = k_log k.
Proof.
  induction fuel as [|f IH]; intros k k' E; [discriminate|]. cbn [run_all] in E.
  assert (Hstep : forall k1 k2, xspawn_all FUEL FUEL k = Some k1 -> xready_all FUEL FUEL k1 = Some k2 ->
                  run_all FUEL f k2 = Some k' -> k_log k' = k_log k).
  { intros k1 k2 E1 E2 E3. apply xspawn_all_log in E1. apply xready_all_log in E2. apply IH in E3. congruence. }
  destruct (k_spawn k) eqn:ES; destruct (xready (k_H k)) eqn:ER.
  - some_eq E; reflexivity.
  - destruct (xspawn_all FUEL FUEL k) as [k1|] eqn:E1; [|discriminate].
    destruct (xready_all FUEL FUEL k1) as [k2|] eqn:E2; [|discriminate]. eapply Hstep; eauto.
  - destruct (xspawn_all FUEL FUEL k) as [k1|] eqn:E1; [|discriminate].
    destruct (xready_all FUEL FUEL k1) as [k2|] eqn:E2; [|discriminate]. eapply Hstep; eauto.
  - destruct (xspawn_all FUEL FUEL k) as [k1|] eqn:E1; [|discriminate].
    destruct (xready_all FUEL FUEL k1) as [k2|] eqn:E2; [|discriminate]. eapply Hstep; eauto.
Qed.
Lemma spawn_cmd_log c en k : k_log (spawn_cmd c en k) = k_log k.
Proof. unfold spawn_cmd. destruct (new_cmd _ _ _ _ _ _). reflexivity. Qed.

Lemma process_log : forall fuel hs k k', process FUEL fuel hs k = Some k' -> extends (k_log k) (k_log k').
Proof.
  induction fuel as [|f IH]; intros hs k k' E; [discriminate|]. cbn [process] in E.
  destruct (run_all FUEL FUEL k) as [k1|] eqn:E1; [|discriminate].
  apply run_all_log in E1.
  destruct (k_events k1) as [|e rest].
  - some_eq E. rewrite E1. apply extends_refl.
  - apply IH in E. rewrite spawn_cmd_log in E. cbn [k_log] in E. rewrite E1 in E.
    eapply extends_trans; [|exact E]. exists [e]. reflexivity.
Qed.

(* a call returns only when the executor has nothing to run and every emitted event has been applied *)
Lemma run_all_idle : forall fuel k k', run_all FUEL fuel k = Some k' -> k_spawn k' = [] /\ xready (k_H k') = [].
Proof.
  induction fuel as [|f IH]; intros k k' E; [discriminate|]. cbn [run_all] in E.
  destruct (k_spawn k) eqn:ES; destruct (xready (k_H k)) eqn:ER.
  - some_eq E. split; assumption.
  - destruct (xspawn_all FUEL FUEL k) as [k1|]; [|discriminate].
    destruct (xready_all FUEL FUEL k1) as [k2|]; [|discriminate]. eapply IH; eauto.
  - destruct (xspawn_all FUEL FUEL k) as [k1|]; [|discriminate].
    destruct (xready_all FUEL FUEL k1) as [k2|]; [|discriminate]. eapply IH; eauto.
  - destruct (xspawn_all FUEL FUEL k) as [k1|]; [|discriminate].
    destruct (xready_all FUEL FUEL k1) as [k2|]; [|discriminate]. eapply IH; eauto.
Qed.
Theorem process_idle : forall fuel hs k k', process FUEL fuel hs k = Some k' ->
  k_spawn k' = [] /\ xready (k_H k') = [] /\ k_events k' = [].
Proof.
  induction fuel as [|f IH]; intros hs k k' E; [discriminate|]. cbn [process] in E.
  destruct (run_all FUEL FUEL k) as [k1|] eqn:E1; [|discriminate].
  apply run_all_idle in E1. destruct E1 as [S1 R1].
  destruct (k_events k1) as [|e rest] eqn:EV.
  - some_eq E. split; [exact S1 | split; [exact R1 | exact EV]].
  - eapply IH; eauto.
Qed.

(* ---------- C01: every requested effect is handed over exactly once ---------- *)
(* Effects reach the shell through the core's request channel.  No step of a call - polling any task of
   any command at any depth, dropping finished commands, spawning the commands update returns - removes or
   rewrites anything in it: during a call the channel only grows; the call then returns the WHOLE channel,
   leaves it empty and records each returned request once in the shell's table.  So an effect that reached
   the channel is in the return value of exactly that call: not dropped, not duplicated, not left for a later
   call. *)
Lemma new_cmd_hout names ep en m ex H cid H1 : new_cmd names ep en m ex H = (cid, H1) -> Rhout H H1.
Proof.
  apply (R_new_cmd Rhout Rhout_refl Rhout_trans (fun c f H _ => Rhout_same H (ucmd c f H) eq_refl)); intros; apply Rhout_same; reflexivity.
Qed.
Lemma xrun_task_hout : forall fuel q k k', xrun_task FUEL fuel q k = Some k' -> Rhout (k_H k) (k_H k').
Proof.
  induction fuel as [|f IH]; intros q k k' E; [discriminate|]. cbn [xrun_task] in E.
  destruct (xget q (k_slab k)); [|some_eq E; apply Rhout_refl].
  destruct (poll_next FUEL n (WExec q) (k_H k)) as [[r H1]|] eqn:EP; [|discriminate].
  apply hout_poll_next in EP.
  destruct r as [| |eff|ev].
  - some_eq E. exact EP.
  - some_eq E. cbn [k_H]. eapply Rhout_trans; [exact EP | apply hout_drop_cmd].
  - apply IH in E. cbn [k_H] in E. eapply Rhout_trans; [exact EP|]. eapply Rhout_trans; [|exact E]. exists [eff]. reflexivity.
  - apply IH in E. cbn [k_H] in E. eapply Rhout_trans; [exact EP | exact E].
Qed.
Lemma xspawn_all_hout : forall fuel k k', xspawn_all FUEL fuel k = Some k' -> Rhout (k_H k) (k_H k').
Proof.
  induction fuel as [|f IH]; intros k k' E; [discriminate|]. cbn [xspawn_all] in E.
  destruct (k_spawn k); [some_eq E; apply Rhout_refl|].
  destruct (xinsert n (k_slab k)) as [q sl].
  match type of E with match ?x with _ => _ end = _ => destruct x as [k1|] eqn:E1; [|discriminate] end.
  apply xrun_task_hout in E1. apply IH in E. cbn [k_H] in E1. eapply Rhout_trans; [exact E1 | exact E].
Qed.
Lemma xready_all_hout : forall fuel k k', xready_all FUEL fuel k = Some k' -> Rhout (k_H k) (k_H k').
Proof.
  induction fuel as [|f IH]; intros k k' E; [discriminate|]. cbn [xready_all] in E.
  destruct (xready (k_H k)); [some_eq E; apply Rhout_refl|].
  match type of E with match ?x with _ => _ end = _ => destruct x as [k1|] eqn:E1; [|discriminate] end.
  apply xrun_task_hout in E1. apply IH in E. cbn [k_H setH] in E1.
  eapply Rhout_trans; [|exact E]. eapply Rhout_trans; [|exact E1]. apply Rhout_same. reflexivity.
Qed.
Lemma run_all_hout : forall fuel k k', run_all FUEL fuel k = Some k' -> Rhout (k_H k) (k_H k').
Proof.
  induction fuel as [|f IH]; intros k k' E; [discriminate|]. cbn [run_all] in E.
  assert (Hstep : forall k1 k2, xspawn_all FUEL FUEL k = Some k1 -> xready_all FUEL FUEL k1 = Some k2 ->
                  run_all FUEL f k2 = Some k' -> Rhout (k_H k) (k_H k')).
  { intros k1 k2 E1 E2 E3. apply xspawn_all_hout in E1. apply xready_all_hout in E2. apply IH in E3.
    eapply Rhout_trans; [exact E1 | eapply Rhout_trans; [exact E2 | exact E3]]. }
  destruct (k_spawn k) eqn:ES; destruct (xready (k_H k)) eqn:ER.
  - some_eq E; apply Rhout_refl.
  - destruct (xspawn_all FUEL FUEL k) as [k1|] eqn:E1; [|discriminate].
    destruct (xready_all FUEL FUEL k1) as [k2|] eqn:E2; [|discriminate]. eapply Hstep; eauto.
  - destruct (xspawn_all FUEL FUEL k) as [k1|] eqn:E1; [|discriminate].
    destruct (xready_all FUEL FUEL k1) as [k2|] eqn:E2; [|discriminate]. eapply Hstep; eauto.
  - destruct (xspawn_all FUEL FUEL k) as [k1|] eqn:E1; [|discriminate].
    destruct (xready_all FUEL FUEL k1) as [k2|] eqn:E2; [|discriminate]. eapply Hstep; eauto.
Qed.
Lemma spawn_cmd_hout c en k : Rhout (k_H k) (k_H (spawn_cmd c en k)).
Proof.
  unfold spawn_cmd. destruct (new_cmd _ _ _ _ _ _) as [cid H1] eqn:E. cbn [k_H]. eapply new_cmd_hout; exact E.
Qed.
Theorem process_hout : forall fuel hs k k', process FUEL fuel hs k = Some k' -> Rhout (k_H k) (k_H k').
Proof.
  induction fuel as [|f IH]; intros hs k k' E; [discriminate|]. cbn [process] in E.
  destruct (run_all FUEL FUEL k) as [k1|] eqn:E1; [|discriminate].
  apply run_all_hout in E1.
  destruct (k_events k1) as [|e rest].
  - some_eq E. exact E1.
  - apply IH in E. eapply Rhout_trans; [exact E1|]. eapply Rhout_trans; [|exact E].
    match goal with |- Rhout _ (k_H (spawn_cmd ?c ?en ?kk)) => eapply Rhout_trans; [|apply (spawn_cmd_hout c en kk)] end.
    apply Rhout_refl.
Qed.
(* the hand-over itself *)
Theorem take_out_hands_over_everything code k :
  fst (take_out code k) = OCall code (map oeff_of (hout (k_H k))) (k_log k) /\
  hout (k_H (snd (take_out code k))) = [] /\
  k_reqs (snd (take_out code k)) = k_reqs k ++ map (fun e => mkRq e false) (hout (k_H k)).
Proof. unfold take_out. cbn. auto. Qed.

(* ---------- C03: first in, first out between the event channel and update ---------- *)
(* The pipeline of a core: the events already applied followed by those still in the channel.  Every
   step of the model only ever APPENDS to it - the executor puts emitted events at the end of the channel,
   the event loop moves the head of the channel to the end of the log - so no event overtakes another,
   none is lost and none is applied twice between the moment it reaches the core's channel and update. *)
Definition pipeline (k : core) : list event := k_log k ++ k_events k.

Lemma xrun_task_pipeline : forall fuel q k k', xrun_task FUEL fuel q k = Some k' -> extends (pipeline k) (pipeline k').
Proof.
  induction fuel as [|f IH]; intros q k k' E; [discriminate|]. cbn [xrun_task] in E.
  destruct (xget q (k_slab k)); [|some_eq E; apply extends_refl].
  destruct (poll_next FUEL n (WExec q) (k_H k)) as [[r H1]|]; [|discriminate].
  destruct r as [| |eff|ev].
  - some_eq E; apply extends_refl.
  - some_eq E; apply extends_refl.
  - apply IH in E; exact E.
  - apply IH in E. eapply extends_trans; [|exact E]. unfold pipeline; cbn [k_log k_events].
    exists [ev]. rewrite app_assoc. reflexivity.
Qed.
Lemma xspawn_all_pipeline : forall fuel k k', xspawn_all FUEL fuel k = Some k' -> extends (pipeline k) (pipeline k').
Proof.
  induction fuel as [|f IH]; intros k k' E; [discriminate|]. cbn [xspawn_all] in E.
  destruct (k_spawn k); [some_eq E; apply extends_refl|].
  destruct (xinsert n (k_slab k)) as [q sl].
  match type of E with match ?x with _ => _ end = _ => destruct x as [k1|] eqn:E1; [|discriminate] end.
  apply xrun_task_pipeline in E1. apply IH in E. eapply extends_trans; [exact E1 | exact E].
Qed.
Lemma xready_all_pipeline : forall fuel k k', xready_all FUEL fuel k = Some k' -> extends (pipeline k) (pipeline k').
Proof.
  induction fuel as [|f IH]; intros k k' E; [discriminate|]. cbn [xready_all] in E.
  destruct (xready (k_H k)); [some_eq E; apply extends_refl|].
  match type of E with match ?x with _ => _ end = _ => destruct x as [k1|] eqn:E1; [|discriminate] end.
  apply xrun_task_pipeline in E1. apply IH in E. eapply extends_trans; [exact E1 | exact E].
Qed.
Lemma run_all_pipeline : forall fuel k k', run_all FUEL fuel k = Some k' -> extends (pipeline k) (pipeline k').
Proof.
  induction fuel as [|f IH]; intros k k' E; [discriminate|]. cbn [run_all] in E.
  assert (Hstep : forall k1 k2, xspawn_all FUEL FUEL k = Some k1 -> xready_all FUEL FUEL k1 = Some k2 ->
                  run_all FUEL f k2 = Some k' -> extends (pipeline k) (pipeline k')).
  { intros k1 k2 E1 E2 E3. apply xspawn_all_pipeline in E1. apply xready_all_pipeline in E2. apply IH in E3.
    eapply extends_trans; [exact E1 | eapply extends_trans; [exact E2 | exact E3]]. }
  destruct (k_spawn k) eqn:ES; destruct (xready (k_H k)) eqn:ER.
  - some_eq E; apply extends_refl.
  - destruct (xspawn_all FUEL FUEL k) as [k1|] eqn:E1; [|discriminate].
    destruct (xready_all FUEL FUEL k1) as [k2|] eqn:E2; [|discriminate]. eapply Hstep; eauto.
  - destruct (xspawn_all FUEL FUEL k) as [k1|] eqn:E1; [|discriminate].
    destruct (xready_all FUEL FUEL k1) as [k2|] eqn:E2; [|discriminate]. eapply Hstep; eauto.
  - destruct (xspawn_all FUEL FUEL k) as [k1|] eqn:E1; [|discriminate].
    destruct (xready_all FUEL FUEL k1) as [k2|] eqn:E2; [|discriminate]. eapply Hstep; eauto.
Qed.
Lemma spawn_cmd_pipeline c en k : pipeline (spawn_cmd c en k) = pipeline k.
Proof. unfold spawn_cmd, pipeline. destruct (new_cmd _ _ _ _ _ _). reflexivity. Qed.
Theorem process_pipeline : forall fuel hs k k', process FUEL fuel hs k = Some k' -> extends (pipeline k) (pipeline k').
Proof.
  induction fuel as [|f IH]; intros hs k k' E; [discriminate|]. cbn [process] in E.
  destruct (run_all FUEL FUEL k) as [k1|] eqn:E1; [|discriminate].
  apply run_all_pipeline in E1.
  destruct (k_events k1) as [|e rest] eqn:EV.
  - some_eq E. exact E1.
  - apply IH in E. rewrite spawn_cmd_pipeline in E.
    eapply extends_trans; [exact E1|]. eapply extends_trans; [|exact E].
    unfold pipeline; cbn [k_log k_events]. rewrite EV. exists []. rewrite app_nil_r, <- app_assoc. reflexivity.
Qed.
(* when the call returns nothing is pending, so what was applied during the call is exactly what was
   pending before it followed by what was emitted meanwhile, in channel order *)
Corollary process_applies_in_channel_order : forall fuel hs k k', process FUEL fuel hs k = Some k' ->
  exists emitted, k_log k' = k_log k ++ k_events k ++ emitted.
Proof.
  intros fuel hs k k' E. pose proof (process_idle fuel hs k k' E) as (_ & _ & EV).
  apply process_pipeline in E. destruct E as [l El]. unfold pipeline in El. rewrite EV, app_nil_r in El.
  exists l. rewrite El, app_assoc. reflexivity.
Qed.

Lemma extends_prefix a b : extends a b -> is_prefix a b = true.
Proof. intros [l ->]. apply is_prefix_app. Qed.
Lemma skipn_app_len {A} (a l : list A) : skipn (length a) (a ++ l) = l.
Proof. induction a; simpl; auto. Qed.

Theorem crun_log_ok : forall acts hs k os,
  crun FUEL hs acts k = Some os -> C03_log acts os (k_log k) = true.
Proof.
  induction acts as [|a acts IH]; intros hs k os E; simpl in E.
  - inversion E; reflexivity.
  - destruct (cstep FUEL hs a k) as [[o k']|] eqn:E1; [|discriminate].
    destruct (crun FUEL hs acts k') as [os'|] eqn:E2; [|discriminate].
    inversion E; subst; clear E. apply IH in E2.
    destruct a; simpl in E1.
    + inversion E1; subst. simpl. exact E2.
    + inversion E1; subst. simpl. exact E2.
    + inversion E1; subst. simpl. exact E2.
    + (* AResolve *)
      destruct (find_rq tg v occ 0 (k_reqs k)) as [i|]; [|inversion E1; subst; simpl; exact E2].
      destruct (rq_dropped _); [inversion E1; subst; simpl; exact E2|].
      destruct (resolve_req _ _ _) as [[code e'] H1].
      destruct (Nat.eqb code 0).
      * match type of E1 with match ?x with _ => _ end = _ => destruct x as [k2|] eqn:E3; [|discriminate] end.
        apply process_log in E3. simpl in E3.
        unfold take_out in E1. inversion E1; subst; clear E1. simpl in *.
        rewrite (extends_prefix _ _ E3). exact E2.
      * inversion E1; subst; clear E1. simpl in *. rewrite is_prefix_refl. exact E2.
    + (* ADropReq *)
      destruct (find_rq tg v occ 0 (k_reqs k)) as [i|]; [|inversion E1; subst; simpl; exact E2].
      destruct (rq_dropped _); inversion E1; subst; simpl; exact E2.
    + inversion E1; subst. simpl. exact E2.
    + (* AEvent *)
      match type of E1 with match ?x with _ => _ end = _ => destruct x as [k2|] eqn:E3; [|discriminate] end.
      apply process_log in E3. rewrite spawn_cmd_log in E3. simpl in E3.
      unfold take_out in E1. inversion E1; subst; clear E1. simpl in *.
      destruct E3 as [l El]. rewrite El in *.
      rewrite E2. rewrite <- app_assoc. rewrite is_prefix_app.
      rewrite skipn_app_len. cbn [app]. rewrite event_eqb_refl. reflexivity.
    + (* ALive *) inversion E1; subst. simpl. exact E2.
    + (* ASpawn *) inversion E1; subst. simpl. exact E2.
Qed.

Corollary under_core_log_ok hs acts os : under_core FUEL hs acts = Some os -> C03_log acts os [] = true.
Proof. unfold under_core. intros E. apply (crun_log_ok acts hs core0 os E). Qed.

End WithFuel.
