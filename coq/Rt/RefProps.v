(* Laws of the reference semantics: wrappers that the combinator definitions introduce are
   transparent.  A wrapper W is transparent when done / deliver / drop / run commute with it; then
   every schedule gives the wrapped command exactly the trace of the bare one (one unit of fuel more
   per wrapper level, the fuel being the recursion depth of [run]). *)
From Coq Require Import List Arith Bool.
From Crux Require Import Rt.Lang Rt.Rt Rt.Ref.
Import ListNotations.

Section Transparent.
  Variable W : rc -> rc.
  Hypothesis W_done : forall r, rdone (W r) = rdone r.
  Hypothesis W_deliver : forall rid v r, deliver rid v (W r) = (fst (deliver rid v r), W (snd (deliver rid v r))).
  Hypothesis W_drop : forall rid r, dropreq rid (W r) = W (dropreq rid r).
  Hypothesis W_run : forall f en r n,
    run (S f) en (W r) n =
    match run f en r n with
    | Some (r', n', o) => Some (W r', n', o)
    | None => None
    end
    \/ (exists r' n' o o', run f en r n = Some (r', n', o) /\ run (S f) en (W r) n = Some (W r', n', o')
                           /\ ro_effs o' = ro_effs o /\ ro_evs o' = ro_evs o)
    \/ (run f en r n = None /\ run (S f) en (W r) n = None).

  Definition simW (s1 s2 : rstate) : Prop :=
    r_c s1 = W (r_c s2) /\ r_n s1 = r_n s2 /\ r_effs s1 = r_effs s2 /\ r_evs s1 = r_evs s2 /\ r_reqs s1 = r_reqs s2.

  Lemma sim_advance f s1 s2 : simW s1 s2 ->
    match radvance (S f) s1, radvance f s2 with
    | Some a1, Some a2 => simW a1 a2
    | None, None => True
    | _, _ => False
    end.
  Proof.
    intros (Ec & En & Ee & Ev & Er). unfold radvance. rewrite Ec, En.
    destruct (W_run f [] (r_c s2) (r_n s2)) as [E | [(r' & n' & o & o' & E2 & E1 & Eo1 & Eo2) | (E2 & E1)]].
    - rewrite E. destruct (run f [] (r_c s2) (r_n s2)) as [[[r' n'] o]|]; [|exact I].
      unfold simW; simpl. rewrite Ee, Ev, Er. repeat split; reflexivity.
    - rewrite E1, E2. unfold simW; simpl. rewrite Ee, Ev, Er, Eo1, Eo2. repeat split; reflexivity.
    - rewrite E1, E2. exact I.
  Qed.

  Definition not_spawn (a : action) : bool := match a with ASpawn _ => false | _ => true end.

  Lemma sim_step f a s1 s2 : not_spawn a = true -> simW s1 s2 ->
    match rstep (S f) a s1, rstep f a s2 with
    | Some (o1, t1), Some (o2, t2) => o1 = o2 /\ simW t1 t2
    | None, None => True
    | _, _ => False
    end.
  Proof.
    intros NS S0. pose proof S0 as (Ec & En & Ee & Ev & Er).
    destruct a; unfold rstep; try discriminate NS.
    - (* AEffects *)
      pose proof (sim_advance f s1 s2 S0) as A.
      destruct (radvance (S f) s1) as [a1|], (radvance f s2) as [a2|]; try contradiction; [|exact I].
      destruct A as (Ac & An & Ae & Av & Ar). rewrite Ae, Av, Ar, An. split; [reflexivity|].
      unfold simW; simpl. rewrite Ac. repeat split; reflexivity.
    - pose proof (sim_advance f s1 s2 S0) as A.
      destruct (radvance (S f) s1) as [a1|], (radvance f s2) as [a2|]; try contradiction; [|exact I].
      destruct A as (Ac & An & Ae & Av & Ar). rewrite Ae, Av, Ar, An. split; [reflexivity|].
      unfold simW; simpl. rewrite Ac. repeat split; reflexivity.
    - pose proof (sim_advance f s1 s2 S0) as A.
      destruct (radvance (S f) s1) as [a1|], (radvance f s2) as [a2|]; try contradiction; [|exact I].
      pose proof A as (Ac & An & Ae & Av & Ar). rewrite Ae, Av, Ac, W_done. split; [reflexivity|exact A].
    - (* AResolve *)
      rewrite Er. destruct (find_rr tg v occ 0 (r_reqs s2)) as [i|]; [|split; [reflexivity|exact S0]].
      set (r := nth i (r_reqs s2) _).
      destruct (rr_state r) as [|[|[|k]]].
      + split; [reflexivity|exact S0].
      + rewrite Ec, W_deliver. destruct (deliver (re_rid (rr_eff r)) out (r_c s2)) as [t c']; simpl.
        split; [reflexivity|]. unfold simW; simpl. rewrite En, Ee, Ev. repeat split; reflexivity.
      + rewrite Ec, W_deliver. destruct (deliver (re_rid (rr_eff r)) out (r_c s2)) as [t c']; simpl.
        destruct t.
        * split; [reflexivity|]. unfold simW; simpl. rewrite En, Ee, Ev. repeat split; reflexivity.
        * split; [reflexivity|exact S0].
      + split; [reflexivity|exact S0].
    - (* ADropReq *)
      rewrite Er. destruct (find_rr tg v occ 0 (r_reqs s2)) as [i|]; [|split; [reflexivity|exact S0]].
      set (r := nth i (r_reqs s2) _).
      destruct (rr_state r) as [|[|[|[|k]]]]; try (split; [reflexivity|exact S0]).
      + split; [reflexivity|]. unfold simW; simpl. rewrite Ec, En, Ee, Ev. repeat split; reflexivity.
      + split; [reflexivity|]. unfold simW; simpl. rewrite Ec, W_drop, En, Ee, Ev. repeat split; reflexivity.
      + split; [reflexivity|]. unfold simW; simpl. rewrite Ec, W_drop, En, Ee, Ev. repeat split; reflexivity.
      + split; [reflexivity|]. unfold simW; simpl. rewrite Ec, W_drop, En, Ee, Ev. repeat split; reflexivity.
    - split; [reflexivity|exact S0].
    - split; [reflexivity|exact S0].
    - split; [reflexivity|exact S0].
  Qed.

  Theorem sim_trace : forall acts f s1 s2, forallb not_spawn acts = true -> simW s1 s2 -> rrun (S f) acts s1 = rrun f acts s2.
  Proof.
    induction acts as [|a acts IH]; intros f s1 s2 NS S0; simpl; [reflexivity|].
    simpl in NS. apply andb_prop in NS as [NS1 NS2].
    pose proof (sim_step f a s1 s2 NS1 S0) as A.
    destruct (rstep (S f) a s1) as [[o1 t1]|], (rstep f a s2) as [[o2 t2]|]; try contradiction; [|reflexivity].
    destruct A as (-> & S1). rewrite (IH f t1 t2 NS2 S1). reflexivity.
  Qed.
End Transparent.

(* ---------- instances ---------- *)
Lemma par1_done r : rdone (RPar [r]) = rdone r.
Proof. simpl. apply andb_true_r. Qed.
Lemma par1_deliver rid v r : deliver rid v (RPar [r]) = (fst (deliver rid v r), RPar [snd (deliver rid v r)]).
Proof. simpl. rewrite orb_false_r. reflexivity. Qed.
Lemma par1_drop rid r : dropreq rid (RPar [r]) = RPar [dropreq rid r].
Proof. reflexivity. Qed.
Lemma par1_run f en r n :
    run (S f) en (RPar [r]) n =
    match run f en r n with Some (r', n', o) => Some (RPar [r'], n', o) | None => None end
    \/ (exists r' n' o o', run f en r n = Some (r', n', o) /\ run (S f) en (RPar [r]) n = Some (RPar [r'], n', o')
                           /\ ro_effs o' = ro_effs o /\ ro_evs o' = ro_evs o)
    \/ (run f en r n = None /\ run (S f) en (RPar [r]) n = None).
Proof.
  cbn [run]. destruct (run f en r n) as [[[r' n'] o]|].
  - right; left. exists r', n', o, (ro_app o ro0). repeat split; simpl; apply app_nil_r.
  - right; right. split; reflexivity.
Qed.

Lemma mapeff0_run f en r n :
    run (S f) en (RMapEff 0 r) n =
    match run f en r n with Some (r', n', o) => Some (RMapEff 0 r', n', o) | None => None end
    \/ (exists r' n' o o', run f en r n = Some (r', n', o) /\ run (S f) en (RMapEff 0 r) n = Some (RMapEff 0 r', n', o')
                           /\ ro_effs o' = ro_effs o /\ ro_evs o' = ro_evs o)
    \/ (run f en r n = None /\ run (S f) en (RMapEff 0 r) n = None).
Proof. left. cbn [run]. destruct (run f en r n) as [[[r' n'] o]|]; reflexivity. Qed.
Lemma mapev0_run f en r n :
    run (S f) en (RMapEv 0 r) n =
    match run f en r n with Some (r', n', o) => Some (RMapEv 0 r', n', o) | None => None end
    \/ (exists r' n' o o', run f en r n = Some (r', n', o) /\ run (S f) en (RMapEv 0 r) n = Some (RMapEv 0 r', n', o')
                           /\ ro_effs o' = ro_effs o /\ ro_evs o' = ro_evs o)
    \/ (run f en r n = None /\ run (S f) en (RMapEv 0 r) n = None).
Proof. left. cbn [run]. destruct (run f en r n) as [[[r' n'] o]|]; reflexivity. Qed.
Lemma mapeff_deliver k rid v r : deliver rid v (RMapEff k r) = (fst (deliver rid v r), RMapEff k (snd (deliver rid v r))).
Proof. simpl. destruct (deliver rid v r); reflexivity. Qed.
Lemma mapev_deliver k rid v r : deliver rid v (RMapEv k r) = (fst (deliver rid v r), RMapEv k (snd (deliver rid v r))).
Proof. simpl. destruct (deliver rid v r); reflexivity. Qed.

Lemma init_sim (W : rc -> rc) r : simW W (mkRSt (W r) 0 [] [] []) (mkRSt r 0 [] [] []).
Proof. unfold simW; simpl. repeat split; reflexivity. Qed.

(* all of one command is that command *)
Definition no_spawn (acts : list action) : bool := forallb not_spawn acts.
Theorem all_singleton : forall f c acts, no_spawn acts = true -> ref_direct (S f) (CAll [c]) acts = ref_direct f c acts.
Proof.
  intros f c acts NS. unfold ref_direct. cbn [start map].
  apply (sim_trace (fun r => RPar [r]) par1_done par1_deliver par1_drop par1_run); [exact NS|]. apply (init_sim (fun r => RPar [r]) (start [] c)).
Qed.
(* mapping with the identity changes nothing *)
Theorem map_effect_id : forall f c acts, no_spawn acts = true -> ref_direct (S f) (CIdEff c) acts = ref_direct f c acts.
Proof.
  intros f c acts NS. unfold ref_direct. cbn [start].
  apply (sim_trace (RMapEff 0) (fun r => eq_refl) (mapeff_deliver 0) (fun rid r => eq_refl) mapeff0_run); [exact NS|]. apply (init_sim (RMapEff 0) (start [] c)).
Qed.
Theorem map_event_id : forall f c acts, no_spawn acts = true -> ref_direct (S f) (CIdEv c) acts = ref_direct f c acts.
Proof.
  intros f c acts NS. unfold ref_direct. cbn [start].
  apply (sim_trace (RMapEv 0) (fun r => eq_refl) (mapev_deliver 0) (fun rid r => eq_refl) mapev0_run); [exact NS|]. apply (init_sim (RMapEv 0) (start [] c)).
Qed.
(* Command::into / from with identity conversions changes nothing *)
Theorem into_id : forall f c acts, no_spawn acts = true -> ref_direct (S (S f)) (CInto c) acts = ref_direct f c acts.
Proof.
  intros f c acts NS. unfold ref_direct. cbn [start].
  rewrite (sim_trace (RMapEv 0) (fun r => eq_refl) (mapev_deliver 0) (fun rid r => eq_refl) mapev0_run acts (S f)
             _ (mkRSt (RMapEff 0 (start [] c)) 0 [] [] []) NS) by apply (init_sim (RMapEv 0) (RMapEff 0 (start [] c))).
  apply (sim_trace (RMapEff 0) (fun r => eq_refl) (mapeff_deliver 0) (fun rid r => eq_refl) mapeff0_run); [exact NS|]. apply (init_sim (RMapEff 0) (start [] c)).
Qed.
(* nesting such wrappers to any depth changes nothing *)
Fixpoint wrapn (k : nat) (c : cmd) : cmd := match k with 0 => c | S k' => CAll [CIdEv (CIdEff (wrapn k' c))] end.
Theorem nesting_invariant : forall k f c acts, no_spawn acts = true -> ref_direct (3 * k + f) (wrapn k c) acts = ref_direct f c acts.
Proof.
  induction k as [|k IH]; intros f c acts NS; [reflexivity|].
  replace (3 * S k + f) with (S (S (S (3 * k + f)))) by (simpl; rewrite <- !plus_n_Sm, Nat.add_0_r; reflexivity).
  cbn [wrapn]. rewrite all_singleton, map_event_id, map_effect_id by exact NS. apply IH. exact NS.
Qed.

(* then: the second part starts exactly when the first has nothing left - with done as the first part
   that is at once: after one step the residual, the request counter and the outputs are those of c *)
Theorem then_done_left : forall f en c n,
  run (S (S f)) en (start en (CThen c_done c)) n =
  match run (S f) en (start en c) n with
  | Some (c', n', o) => Some (c', n', mkRO (ro_effs o) (ro_evs o))
  | None => None
  end.
Proof.
  intros f en c n. cbn [start]. unfold c_done at 1. cbn [start].
  change (run (S (S f)) en (RSeq (RBag (start_bag en TRet [])) c) n) with
    (match run (S f) en (RBag (start_bag en TRet [])) n with
     | None => None
     | Some (a', n1, o1) =>
       if rdone a' then
         match run (S f) en (start en c) n1 with Some (b', n2, o2) => Some (b', n2, ro_app o1 o2) | None => None end
       else Some (RSeq a' c, n1, o1)
     end).
  assert (E : run (S f) en (RBag (start_bag en TRet [])) n = Some (RBag (mkRB [] 1 [0]), n, ro0)) by reflexivity.
  rewrite E. cbn [rdone b_strands].
  destruct (run (S f) en (start en c) n) as [[[c' n'] o]|]; reflexivity.
Qed.
(* ... and while the first part still has a strand, nothing of the second has started *)
Theorem then_waits : forall f en a b n a' n1 o1,
  run f en a n = Some (a', n1, o1) -> rdone a' = false ->
  run (S f) en (RSeq a b) n = Some (RSeq a' b, n1, o1).
Proof. intros f en a b n a' n1 o1 E D. cbn [run]. rewrite E, D. reflexivity. Qed.
(* and / all are done exactly when all parts are *)
Theorem par_done_iff : forall l, rdone (RPar l) = true <-> forall r, In r l -> rdone r = true.
Proof. intros l. simpl. apply forallb_forall. Qed.
(* maps transform every output exactly once and change nothing else *)
Theorem map_eff_outputs : forall f en k a n a' n' o,
  run f en a n = Some (a', n', o) ->
  run (S f) en (RMapEff k a) n = Some (RMapEff k a', n', ro_map_eff k o).
Proof. intros f en k a n a' n' o E. cbn [run]. rewrite E. reflexivity. Qed.
Theorem map_ev_outputs : forall f en k a n a' n' o,
  run f en a n = Some (a', n', o) ->
  run (S f) en (RMapEv k a) n = Some (RMapEv k a', n', ro_map_ev k o).
Proof. intros f en k a n a' n' o E. cbn [run]. rewrite E. reflexivity. Qed.
