(* Executable model of the crux_core command runtime, function for function:
     command/executor.rs  run_until_settled / run_task / spawn_new_tasks / CommandWaker::wake_by_ref /
                          JoinHandle::poll / AbortHandle
     command/stream.rs    Stream::poll_next, host (= map(Ok).forward(CommandSink))
     command/context.rs   request_from_shell / stream_from_shell / ShellStream / ShellRequest / spawn
     command/mod.rs       new / is_done / effects / events (combinators are compiled in Lang.v)
     core/resolve.rs      Resolve::{Never,Once,Many}::resolve
   plus the library behaviour they rely on (futures mpsc unbounded channel, AtomicWaker, slab 0.4.9,
   Arc strong counts of the per-poll CommandWaker), modelled by the rules stated in DESIGN.md section 2.
   No proofs in this file. *)
From Coq Require Import List Arith Bool.
From Crux Require Import Rt.Lang.
Import ListNotations.
Set Implicit Arguments.

(* ---------- tables: lists used as total functions (reads default, writes extend) ---------- *)
Definition getd {A} (d : A) (n : nat) (l : list A) : A := nth n l d.
Fixpoint updd {A} (d : A) (n : nat) (f : A -> A) (l : list A) : list A :=
  match n, l with
  | 0, [] => [f d]
  | 0, x :: xs => f x :: xs
  | S m, [] => d :: updd d m f []
  | S m, x :: xs => x :: updd d m f xs
  end.

(* ---------- values ---------- *)
Definition env := list nat.
Fixpoint eval (en : env) (e : expr) : nat :=
  match e with K n => n | V x => getd 0 x en | Plus a b => eval en a + eval en b end.
Definition setv (x v : nat) (en : env) : env := updd 0 x (fun _ => v) en.

(* ---------- wakers, channels, effects ---------- *)
Inductive waker := WCmd (c slot g : nat) | WExec (q : nat).
(* futures mpsc::unbounded, one per shell request *)
Record chan := mkChan { ch_buf : list nat; ch_tx : bool; ch_rx : bool; ch_wk : option waker }.
Definition chan0 := mkChan [] true true None.
Inductive rkind := RNever | ROnce (c : nat) | RMany (c : nat)
| RLegacy (c : nat).   (* a one-shot request of the legacy capability API: its closure holds a weak reference to the future's cell *)
Record effect := mkEff { e_tag : nat; e_val : nat; e_maps : list nat; e_res : rkind }.
Record event := mkEv { v_tag : nat; v_val : nat; v_maps : list nat }.

(* ---------- resumable futures ---------- *)
(* one ShellRequest inside a join! / select!: not yet sent | waiting | fused-dead | finished with a value *)
Inductive subreq := SQ (sent dead : bool) (tg v ch : nat) | SDone (m : nat)
| SL (sent : bool) (tg v ch : nat)
| SJ (u : nat).                       (* a JoinHandle on the task whose flag is u, polled inside join! *)   (* a legacy-capability ShellRequest: waker refreshed on every poll, never dead *)
Inductive leaf :=
| LRun (t : task)
| LReq (sent dead : bool) (tg v ch x : nat) (k : task)
| LStr                                   (* polling the stream of the innermost loop frame *)
| LJoin (uid : nat) (k : task)
| LHost (cid meff mev : nat) (k : task)
| LYield (n : nat) (k : task)
| LLeg (sent : bool) (tg v ch x : nat) (k : task)   (* capability/shell_request.rs ShellRequest awaited in a Command task *)
| LBoth (a b : subreq) (x1 x2 : nat) (k : task)
| LRace (a b : subreq) (x : nat) (k : task).
Record frame := mkFr { fr_sent : bool; fr_tg : nat; fr_v : nat; fr_ch : nat; fr_x : nat;
                       fr_body : task; fr_k : task }.
Record fstate := mkF { f_env : env; f_leaf : leaf; f_stack : list frame }.

Record trec := mkT { t_uid : nat; t_fs : fstate }.
(* the Arcs a Task shares with its JoinHandles *)
Record tflag := mkTF { tf_fin : bool; tf_abort : bool; tf_alive : bool; tf_joinw : list waker }.
Definition tf0 := mkTF false false false [].
Inductive entry := Occ (t : trec) | Vac (next : nat).

Record cmdst := mkCmd {
  c_alive : bool;                (* false once the Command value has been dropped *)
  c_ready : list nat;            (* ready_queue (slab keys) *)
  c_spawnq : list trec;          (* spawn_queue *)
  c_ent : list entry; c_next : nat; c_len : nat;   (* slab 0.4.9 *)
  c_eff : list effect; c_evs : list event;         (* effects / events channels *)
  c_atomic : option waker;       (* Arc<AtomicWaker> shared with every task waker *)
  c_names : list nat;            (* names under which the harness holds this command's AbortHandle *)
  c_task0 : nat;                 (* uid of the task created by Command::new: it shares the command's abort flag *)
  c_epoch : nat                  (* which top-level construction this command belongs to (its root's id):
                                    an abort through a name reaches the handles that existed when it was called *)
}.
Definition cmd0 := mkCmd false [] [] [] 0 0 [] [] None [] 0 0.

Record heap := mkH {
  chans : list chan; tfl : list tflag; cmds : list cmdst;
  woken : list bool;             (* per-poll CommandWaker.woken, indexed by generation *)
  xready : list nat;             (* the hosting executor's ready queue (Core layer) *)
  aborted : list (nat * nat);    (* (name, n): abort called on the handles named so of commands with epoch < n *)
  log : list nat;                (* branch tags, for coverage *)
  hout : list effect             (* the core's request channel: effects sent straight to it, by the executor task that
                                    forwards a hosted command's effects and by legacy capability contexts *)
}.
Definition H0 := mkH [] [] [] [] [] [] [] [].

Definition gcmd c (H : heap) := getd cmd0 c (cmds H).
Definition ucmd c f (H : heap) := mkH (chans H) (tfl H) (updd cmd0 c f (cmds H)) (woken H) (xready H) (aborted H) (log H) (hout H).
Definition gch c (H : heap) := getd chan0 c (chans H).
Definition uch c f (H : heap) := mkH (updd chan0 c f (chans H)) (tfl H) (cmds H) (woken H) (xready H) (aborted H) (log H) (hout H).
Definition gtf u (H : heap) := getd tf0 u (tfl H).
Definition utf u f (H : heap) := mkH (chans H) (updd tf0 u f (tfl H)) (cmds H) (woken H) (xready H) (aborted H) (log H) (hout H).
Definition note n (H : heap) := mkH (chans H) (tfl H) (cmds H) (woken H) (xready H) (aborted H) (n :: log H) (hout H).
Definition set_woken g (H : heap) := mkH (chans H) (tfl H) (cmds H) (updd false g (fun _ => true) (woken H)) (xready H) (aborted H) (log H) (hout H).
Definition push_xready q (H : heap) := mkH (chans H) (tfl H) (cmds H) (woken H) (xready H ++ [q]) (aborted H) (log H) (hout H).
Definition set_xready l (H : heap) := mkH (chans H) (tfl H) (cmds H) (woken H) l (aborted H) (log H) (hout H).
Definition push_hout e (H : heap) := mkH (chans H) (tfl H) (cmds H) (woken H) (xready H) (aborted H) (log H) (hout H ++ [e]).
Definition set_hout l (H : heap) := mkH (chans H) (tfl H) (cmds H) (woken H) (xready H) (aborted H) (log H) l.
Definition add_aborted n (H : heap) := mkH (chans H) (tfl H) (cmds H) (woken H) (xready H) ((n, length (cmds H)) :: aborted H) (log H) (hout H).

(* branch tags *)
Definition B_AtomicEmpty := 1.
Definition B_ClosedPending := 2.
Definition B_Missing := 3.
Definition B_AbortedBeforePoll := 4.
Definition B_Evict := 5.
Definition B_AbortClear := 6.
Definition B_SpawnInLoop := 7.
Definition B_JoinDead := 8.
Definition B_StreamEnd := 9.
Definition B_SendClosed := 10.
Definition B_HostDone := 11.

(* field setters *)
Definition set_ready l (c : cmdst) := mkCmd (c_alive c) l (c_spawnq c) (c_ent c) (c_next c) (c_len c) (c_eff c) (c_evs c) (c_atomic c) (c_names c) (c_task0 c) (c_epoch c).
Definition set_spawnq l (c : cmdst) := mkCmd (c_alive c) (c_ready c) l (c_ent c) (c_next c) (c_len c) (c_eff c) (c_evs c) (c_atomic c) (c_names c) (c_task0 c) (c_epoch c).
Definition set_eff l (c : cmdst) := mkCmd (c_alive c) (c_ready c) (c_spawnq c) (c_ent c) (c_next c) (c_len c) l (c_evs c) (c_atomic c) (c_names c) (c_task0 c) (c_epoch c).
Definition set_evs l (c : cmdst) := mkCmd (c_alive c) (c_ready c) (c_spawnq c) (c_ent c) (c_next c) (c_len c) (c_eff c) l (c_atomic c) (c_names c) (c_task0 c) (c_epoch c).
Definition set_atomic a (c : cmdst) := mkCmd (c_alive c) (c_ready c) (c_spawnq c) (c_ent c) (c_next c) (c_len c) (c_eff c) (c_evs c) a (c_names c) (c_task0 c) (c_epoch c).
Definition set_alive b (c : cmdst) := mkCmd b (c_ready c) (c_spawnq c) (c_ent c) (c_next c) (c_len c) (c_eff c) (c_evs c) (c_atomic c) (c_names c) (c_task0 c) (c_epoch c).
Definition set_slab ent nx len (c : cmdst) := mkCmd (c_alive c) (c_ready c) (c_spawnq c) ent nx len (c_eff c) (c_evs c) (c_atomic c) (c_names c) (c_task0 c) (c_epoch c).

(* ---------- slab 0.4.9 ---------- *)
Definition slab_insert (t : trec) (c : cmdst) : nat * cmdst :=
  let key := c_next c in
  if Nat.eqb key (length (c_ent c)) then
    (key, set_slab (c_ent c ++ [Occ t]) (S key) (S (c_len c)) c)
  else
    let nx := match getd (Vac 0) key (c_ent c) with Vac n => n | Occ _ => 0 end in
    (key, set_slab (updd (Vac 0) key (fun _ => Occ t) (c_ent c)) nx (S (c_len c)) c).
Definition slab_get (k : nat) (c : cmdst) : option trec :=
  match nth_error (c_ent c) k with Some (Occ t) => Some t | _ => None end.
Definition slab_set (k : nat) (t : trec) (c : cmdst) : cmdst :=
  set_slab (updd (Vac 0) k (fun _ => Occ t) (c_ent c)) (c_next c) (c_len c) c.
Definition slab_remove (k : nat) (c : cmdst) : cmdst :=
  set_slab (updd (Vac 0) k (fun _ => Vac (c_next c)) (c_ent c)) k (pred (c_len c)) c.
Definition slab_clear (c : cmdst) := set_slab [] 0 0 c.
(* one iteration of spawn_new_tasks: tasks.insert(task); ready_sender.send(id) *)
Definition spawn_one (t : trec) (cm : cmdst) : cmdst :=
  let '(k, cm') := slab_insert t cm in set_ready (c_ready cm' ++ [k]) cm'.

(* ---------- CommandWaker::wake_by_ref / TaskWaker::wake_by_ref ---------- *)
Fixpoint wake (fuel : nat) (w : waker) (H : heap) : heap :=
  match w with
  | WExec q => push_xready q H
  | WCmd c s g =>
    (* ready_queue.send fails silently when the Command (receiver) is gone *)
    let H1 := if c_alive (gcmd c H) then ucmd c (fun cm => set_ready (c_ready cm ++ [s]) cm) H else H in
    let H2 := set_woken g H1 in
    match c_atomic (gcmd c H2) with
    | Some w' =>
      (* the fuel only bounds how far UP the chain of hosts the wake is followed; what the waker does to its own
         command (enqueue, mark woken) does not depend on it.  A chain deeper than the fuel leaves the remaining
         hosts registered and un-woken (never reached when wakes start with [wfuel]: see below) *)
      match fuel with
      | 0 => H2
      | S f => wake f w' (ucmd c (set_atomic None) H2)
      end
    | None => note B_AtomicEmpty H2
    end
  end.
(* the fuel a wake starts with: a command is created after the command of the task that hosts it, so the ids along a
   chain of hosts strictly decrease and [S c] steps are enough to follow the whole chain above command c
   (EvictHost.wake_fuel_suffices, under the order invariants); there is no bound on the nesting depth in the model *)
Definition wfuel (w : waker) : nat := match w with WCmd c _ _ => S c | WExec _ => 0 end.

(* ---------- futures mpsc::unbounded ---------- *)
Definition wake_cell (ch : nat) (H : heap) : heap :=
  match ch_wk (gch ch H) with
  | Some w => wake (wfuel w) w (uch ch (fun c => mkChan (ch_buf c) (ch_tx c) (ch_rx c) None) H)
  | None => H
  end.
Definition chan_send (ch v : nat) (H : heap) : bool * heap :=
  if ch_rx (gch ch H)
  then (true, wake_cell ch (uch ch (fun c => mkChan (ch_buf c ++ [v]) (ch_tx c) (ch_rx c) (ch_wk c)) H))
  else (false, note B_SendClosed H).
Definition chan_drop_tx (ch : nat) (H : heap) : heap :=
  if ch_tx (gch ch H)
  then wake_cell ch (uch ch (fun c => mkChan (ch_buf c) false (ch_rx c) (ch_wk c)) H)
  else H.
Definition chan_drop_rx (ch : nat) (H : heap) : heap :=
  uch ch (fun c => mkChan [] (ch_tx c) false (ch_wk c)) H.
Definition chan_reg (ch : nat) (w : waker) (H : heap) :=
  uch ch (fun c => mkChan (ch_buf c) (ch_tx c) (ch_rx c) (Some w)) H.
Definition new_chan (H : heap) : nat * heap :=
  (length (chans H), mkH (chans H ++ [chan0]) (tfl H) (cmds H) (woken H) (xready H) (aborted H) (log H) (hout H)).

Definition drop_req (e : effect) (H : heap) : heap :=
  match e_res e with RNever | RLegacy _ => H | ROnce ch | RMany ch => chan_drop_tx ch H end.

(* strong count of a per-poll CommandWaker = 1 (the executor's Arc) + cells holding a clone *)
Definition wk_gen (w : waker) (g : nat) := match w with WCmd _ _ g' => Nat.eqb g g' | WExec _ => false end.
Definition owk_gen (o : option waker) g := match o with Some w => wk_gen w g | None => false end.
Definition holds (g : nat) (H : heap) : bool :=
  existsb (fun c => owk_gen (ch_wk c) g) (chans H) ||
  existsb (fun t => existsb (fun w => wk_gen w g) (tf_joinw t)) (tfl H) ||
  existsb (fun c => owk_gen (c_atomic c) g) (cmds H).

(* ---------- Command::new + cmd.spawn(..) ---------- *)
Definition new_tflag (H : heap) : nat * heap :=
  (length (tfl H), mkH (chans H) (tfl H ++ [mkTF false false true []]) (cmds H) (woken H) (xready H) (aborted H) (log H) (hout H)).
Definition fs_of (en : env) (t : task) := mkF en (LRun t) [].
Definition new_cmd (names : list nat) (ep : option nat) (en : env) (main : task) (extra : list task) (H : heap) : nat * heap :=
  let (u0, H1) := new_tflag H in
  let cid := length (cmds H1) in
  let c := mkCmd true [0] [] [Occ (mkT u0 (fs_of en main))] 1 1 [] [] None names u0 (match ep with Some e => e | None => cid end) in
  let H2 := mkH (chans H1) (tfl H1) (cmds H1 ++ [c]) (woken H1) (xready H1) (aborted H1) (log H1) (hout H1) in
  let H3 := fold_left (fun Hh t => let (u, Hh') := new_tflag Hh in
               ucmd cid (fun cm => set_spawnq (c_spawnq cm ++ [mkT u (fs_of en t)]) cm) Hh') extra H2 in
  (cid, H3).

Definition was_aborted (cid : nat) (H : heap) : bool :=
  let c := gcmd cid H in
  existsb (fun n => existsb (fun a => Nat.eqb n (fst a) && Nat.ltb (c_epoch c) (snd a)) (aborted H)) (c_names c).

(* ---------- drop glue ---------- *)
Definition sub_drop (q : subreq) (H : heap) : heap :=
  match q with SQ _ dead _ _ ch => if dead then H else chan_drop_rx ch H | SDone _ => H | SL _ _ _ ch => chan_drop_rx ch H | SJ _ => H end.

(* the fuel a drop starts with: dropping follows hosting futures into the commands they host, whose ids are larger
   than the command of the hosting task; 2 steps per command are enough for the whole table
   (DropFuel.drop_cmd_fuel_suffices, under the order invariant); no constant bounds the nesting depth *)
Definition dfuel (H : heap) : nat := S (S (2 * length (cmds H))).
Definition kill_flag u (H : heap) := utf u (fun tf => mkTF (tf_fin tf) (tf_abort tf) false (tf_joinw tf)) H.
Fixpoint drop_fs (fuel : nat) (fs : fstate) (H : heap) : heap :=
  match fuel with 0 => H | S f =>
  let H1 := match f_leaf fs with
            | LReq _ dead _ _ ch _ _ => if dead then H else chan_drop_rx ch H
            | LLeg _ _ _ ch _ _ => chan_drop_rx ch H
            | LHost cid _ _ _ => drop_cmd f cid H
            | LBoth a b _ _ _ | LRace a b _ _ => sub_drop b (sub_drop a H)
            | _ => H end in
  fold_left (fun Hh fr => chan_drop_rx (fr_ch fr) Hh) (f_stack fs) H1
  end
with drop_cmd (fuel : nat) (cid : nat) (H : heap) : heap :=
  match fuel with 0 => H | S f =>
  let c := gcmd cid H in
  (* field order of Command: effects, events, ..., spawn_queue, tasks *)
  let H1 := ucmd cid (fun cm => set_alive false (set_eff [] (set_evs [] (slab_clear (set_spawnq [] (set_ready [] cm)))))) H in
  let H2 := fold_left (fun Hh e => drop_req e Hh) (c_eff c) H1 in
  let H3 := fold_left (fun Hh t => kill_flag (t_uid t) (drop_fs f (t_fs t) Hh)) (c_spawnq c) H2 in
  fold_left (fun Hh e => match e with Occ t => kill_flag (t_uid t) (drop_fs f (t_fs t) Hh) | Vac _ => Hh end) (c_ent c) H3
  end.

(* ---------- polling ---------- *)
Inductive pres := Pend (fs : fstate) | Rdy.
Definition push_ev c (e : event) := ucmd c (fun cm => set_evs (c_evs cm ++ [e]) cm).
Definition push_eff c (e : effect) := ucmd c (fun cm => set_eff (c_eff cm ++ [e]) cm).
Definition map_eff (k : nat) (e : effect) := if Nat.eqb k 0 then e else mkEff (e_tag e) (e_val e) (k :: e_maps e) (e_res e).
Definition map_ev (k : nat) (e : event) := if Nat.eqb k 0 then e else mkEv (v_tag e) (v_val e) (k :: v_maps e).

(* ShellRequest::poll (Fuse<StreamFuture<ShellStream>>), shared by LReq and the join!/select! leaves:
   returns the value if ready, the new (sent, dead) flags and the heap *)
Definition req_poll (c : nat) (w : waker) (sent dead : bool) (tg v ch : nat) (H : heap) : option nat * bool * bool * heap :=
  if dead then (None, sent, true, H) else
  if negb sent then (None, true, false, push_eff c (mkEff tg v [] (ROnce ch)) (chan_reg ch w H))
  else match ch_buf (gch ch H) with
       | m :: _ => (Some m, true, false, chan_drop_rx ch H)
       | [] => if ch_tx (gch ch H) then (None, true, false, chan_reg ch w H)
               else (None, true, true, note B_ClosedPending (chan_drop_rx ch H))
       end.
Definition sub_poll (c : nat) (w : waker) (q : subreq) (H : heap) : subreq * heap :=
  match q with
  | SDone m => (SDone m, H)
  | SL sent tg v ch =>
      let H1 := if sent then H else push_hout (mkEff tg v [] (RLegacy ch)) H in
      match ch_buf (gch ch H1) with
      | m :: _ => (SDone m, chan_drop_rx ch H1)
      | [] => (SL true tg v ch, chan_reg ch w H1)
      end
  | SQ sent dead tg v ch =>
      match req_poll c w sent dead tg v ch H with
      | (Some m, _, _, H') => (SDone m, H')
      | (None, s', d', H') => (SQ s' d' tg v ch, H')
      end
  | SJ u =>
      (* JoinHandle::poll: finished (or gone) -> ready; else hand this poll's waker to the task *)
      if tf_fin (gtf u H) then (SDone 0, H)
      else if tf_alive (gtf u H)
        then (SJ u, utf u (fun tf => mkTF (tf_fin tf) (tf_abort tf) (tf_alive tf) (tf_joinw tf ++ [w])) H)
        else (SDone 0, note B_JoinDead H)
  end.

Inductive tstate := Missing | Suspended | Completed | Cancelled.
Inductive pn := PNPending | PNDone | PNEffect (e : effect) | PNEvent (e : event).

(* The five mutually recursive functions are written in open-recursion style: a body takes the
   record of the functions at the next lower fuel level, and [funs] ties the knot on fuel.  Every
   recursive call in the code decreases fuel by exactly one, so this is the same function as the
   mutual Fixpoint would be, with unfolding lemmas that hold by reflexivity. *)
Record rtfuns := mkFuns {
  rpoll : nat -> waker -> fstate -> heap -> option (pres * heap);
  rpoll_next : nat -> waker -> heap -> option (pn * heap);
  rsettle : nat -> heap -> option heap;
  rloop : nat -> heap -> option heap;
  rdrain : nat -> heap -> option heap;
  rrun_task : nat -> nat -> heap -> option (tstate * heap)
}.
Definition funs0 : rtfuns :=
  mkFuns (fun _ _ _ _ => None) (fun _ _ _ => None) (fun _ _ => None) (fun _ _ => None) (fun _ _ => None) (fun _ _ _ => None).

Definition poll_body (F : rtfuns) (c : nat) (w : waker) (fs : fstate) (H : heap) : option (pres * heap) :=
  let en := f_env fs in let st := f_stack fs in
  let go l := rpoll F c w (mkF en l st) in
  let go_env en' k := rpoll F c w (mkF en' (LRun k) st) in
  match f_leaf fs with
  | LRun t =>
    match t with
    | TRet => match st with
              | [] => Some (Rdy, H)
              | _ :: _ => rpoll F c w (mkF en LStr st) H
              end
    | TEmit tg e k => rpoll F c w (mkF en (LRun k) st) (push_ev c (mkEv tg (eval en e) []) H)
    | TNotify tg e k => rpoll F c w (mkF en (LRun k) st) (push_eff c (mkEff tg (eval en e) [] RNever) H)
    | TReq tg e x k => let (ch, H1) := new_chan H in rpoll F c w (mkF en (LReq false false tg (eval en e) ch x k) st) H1
    | TForEach tg e x body k =>
        let (ch, H1) := new_chan H in
        rpoll F c w (mkF en LStr (mkFr false tg (eval en e) ch x body k :: st)) H1
    | TSpawn child h k =>
        let (u, H1) := new_tflag H in
        rpoll F c w (mkF (setv h u en) (LRun k) st)
             (ucmd c (fun cm => set_spawnq (c_spawnq cm ++ [mkT u (fs_of en child)]) cm) H1)
    | TJoin h k => rpoll F c w (mkF en (LJoin (getd 0 h en) k) st) H
    | TAbortT h k => rpoll F c w (mkF en (LRun k) st)
                       (utf (getd 0 h en) (fun tf => mkTF (tf_fin tf) true (tf_alive tf) (tf_joinw tf)) H)
    | TYield n k => rpoll F c w (mkF en (LYield n k) st) H
    | TAbortC n k => rpoll F c w (mkF en (LRun k) st) (add_aborted n H)
    | TLegReq tg e x k => let (ch, H1) := new_chan H in rpoll F c w (mkF en (LLeg false tg (eval en e) ch x k) st) H1
    | TBoth tg1 e1 x1 tg2 e2 x2 k =>
        let (ch1, H1) := new_chan H in let (ch2, H2) := new_chan H1 in
        rpoll F c w (mkF en (LBoth (SQ false false tg1 (eval en e1) ch1) (SQ false false tg2 (eval en e2) ch2) x1 x2 k) st) H2
    | TBothL tg1 e1 x1 tg2 e2 x2 k =>
        let (ch1, H1) := new_chan H in let (ch2, H2) := new_chan H1 in
        rpoll F c w (mkF en (LBoth (SL false tg1 (eval en e1) ch1) (SQ false false tg2 (eval en e2) ch2) x1 x2 k) st) H2
    | TBothJ h tg e x k =>
        let (ch, H1) := new_chan H in
        rpoll F c w (mkF en (LBoth (SJ (getd 0 h en)) (SQ false false tg (eval en e) ch) 23 x k) st) H1
    | TRace tg1 e1 tg2 e2 x k =>
        let (ch1, H1) := new_chan H in let (ch2, H2) := new_chan H1 in
        rpoll F c w (mkF en (LRace (SQ false false tg1 (eval en e1) ch1) (SQ false false tg2 (eval en e2) ch2) x k) st) H2
    | THost names meff mev m ex k =>
        let (cid, H1) := new_cmd names (Some (c_epoch (gcmd c H))) en m ex H in rpoll F c w (mkF en (LHost cid meff mev k) st) H1
    end
  | LReq sent dead tg v ch x k =>
    match req_poll c w sent dead tg v ch H with
    | (Some m, _, _, H1) => rpoll F c w (mkF (setv x m en) (LRun k) st) H1
    | (None, s', d', H1) => Some (Pend (mkF en (LReq s' d' tg v ch x k) st), H1)
    end
  | LStr =>
    match st with
    | [] => Some (Rdy, H)   (* unreachable: LStr is only entered with a frame *)
    | fr :: rest =>
      let ch := fr_ch fr in
      if negb (fr_sent fr) then
        let H1 := chan_reg ch w H in
        Some (Pend (mkF en LStr (mkFr true (fr_tg fr) (fr_v fr) ch (fr_x fr) (fr_body fr) (fr_k fr) :: rest)),
              push_eff c (mkEff (fr_tg fr) (fr_v fr) [] (RMany ch)) H1)
      else match ch_buf (gch ch H) with
        | m :: more => rpoll F c w (mkF (setv (fr_x fr) m en) (LRun (fr_body fr)) st)
                         (uch ch (fun cc => mkChan more (ch_tx cc) (ch_rx cc) (ch_wk cc)) H)
        | [] => if ch_tx (gch ch H) then Some (Pend fs, chan_reg ch w H)
                else rpoll F c w (mkF en (LRun (fr_k fr)) rest) (note B_StreamEnd (chan_drop_rx ch H))
        end
    end
  | LJoin u k =>
    if tf_fin (gtf u H) then go (LRun k) H
    else if tf_alive (gtf u H)
      then Some (Pend fs, utf u (fun tf => mkTF (tf_fin tf) (tf_abort tf) (tf_alive tf) (tf_joinw tf ++ [w])) H)
      else go (LRun k) (note B_JoinDead H)
  | LYield n k =>
    match n with
    | 0 => go (LRun k) H
    | S m => Some (Pend (mkF en (LYield m k) st), wake (wfuel w) w H)
    end
  | LLeg sent tg v ch x k =>
    (* legacy ShellRequest::poll: send on the first poll (straight to the core's channel), then take the
       result if it is there, else store the CURRENT waker (refreshed on every poll) *)
    let H1 := if sent then H else push_hout (mkEff tg v [] (RLegacy ch)) H in
    match ch_buf (gch ch H1) with
    | m :: _ => go_env (setv x m en) k (chan_drop_rx ch H1)
    | [] => Some (Pend (mkF en (LLeg true tg v ch x k) st), chan_reg ch w H1)
    end
  | LBoth a b x1 x2 k =>
    (* join!: poll both (in order) with the same waker; ready when both are done *)
    let (a', H1) := sub_poll c w a H in
    let (b', H2) := sub_poll c w b H1 in
    match a', b' with
    | SDone m1, SDone m2 => go_env (setv x2 m2 (setv x1 m1 en)) k H2
    | _, _ => Some (Pend (mkF en (LBoth a' b' x1 x2 k) st), H2)
    end
  | LRace a b x k =>
    (* select_biased!: the first branch that is ready wins; both futures are dropped afterwards *)
    let (a', H1) := sub_poll c w a H in
    match a' with
    | SDone m => go_env (setv x m en) k (sub_drop b H1)
    | SQ _ _ _ _ _ | SL _ _ _ _ | SJ _ =>
      let (b', H2) := sub_poll c w b H1 in
      match b' with
      | SDone m => go_env (setv x m en) k (sub_drop a' H2)
      | SQ _ _ _ _ _ | SL _ _ _ _ | SJ _ => Some (Pend (mkF en (LRace a' b' x k) st), H2)
      end
    end
  | LHost cid meff mev k =>
    (* Forward: loop { poll_next: Some(item) => start_send; None => Ready; Pending => Pending } *)
    match rpoll_next F cid w H with
    | None => None
    | Some (r, H1) =>
      match r with
      | PNPending => Some (Pend fs, H1)
      | PNDone => go (LRun k) (note B_HostDone (drop_cmd (dfuel H1) cid H1))
      | PNEffect e => rpoll F c w fs (push_eff c (map_eff meff e) H1)
      | PNEvent e => rpoll F c w fs (push_ev c (map_ev mev e) H1)
      end
    end
  end.
Definition poll_next_body (F : rtfuns) (cid : nat) (w : waker) (H : heap) : option (pn * heap) :=
  let H0' := ucmd cid (set_atomic (Some w)) H in
  match rsettle F cid H0' with None => None | Some H1 =>
  let cm := gcmd cid H1 in
  match c_evs cm with
  | e :: rest => Some (PNEvent e, ucmd cid (set_evs rest) H1)
  | [] =>
    match c_eff cm with
    | e :: rest => Some (PNEffect e, ucmd cid (set_eff rest) H1)
    | [] =>
      (* `if self.is_done()`: is_done settles AGAIN before looking (this is where an abort raised
         during the first settle is noticed) and then wants no output and no task *)
      match rsettle F cid H1 with None => None | Some H2 =>
      let cm2 := gcmd cid H2 in
      match c_eff cm2, c_evs cm2 with
      | [], [] => if Nat.eqb (c_len cm2) 0 then Some (PNDone, H2) else Some (PNPending, H2)
      | _, _ => Some (PNPending, H2)
      end end
    end
  end end.
Definition settle_body (F : rtfuns) (cid : nat) (H : heap) : option heap :=
  (* run_until_settled: the abort flag is looked at once, on entry *)
  if was_aborted cid H then
    (* self.tasks.clear(); return *)
    let c := gcmd cid H in
    let H1 := ucmd cid slab_clear H in
    Some (note B_AbortClear
      (fold_left (fun Hh e => match e with Occ t => kill_flag (t_uid t) (drop_fs (dfuel Hh) (t_fs t) Hh) | Vac _ => Hh end) (c_ent c) H1))
  else rloop F cid H.
(* loop { spawn_new_tasks(); if ready_queue.is_empty() { break }; drain the ready queue } *)
Definition loop_body (F : rtfuns) (cid : nat) (H : heap) : option heap :=
  let c := gcmd cid H in
  let H1 := fold_left (fun Hh t => ucmd cid (spawn_one t) Hh) (c_spawnq c) (ucmd cid (set_spawnq []) H) in
  match c_ready (gcmd cid H1) with
  | [] => Some H1
  | _ :: _ => match rdrain F cid H1 with None => None | Some H2 => rloop F cid H2 end
  end.
(* a Completed / Cancelled task: tasks.remove(id); finished.store(true); wake_join_handles(); drop(task) *)
Definition finish_task (cid s : nat) (t : trec) (H2 : heap) : heap :=
  let H4 := ucmd cid (slab_remove s) H2 in
  let ws := tf_joinw (gtf (t_uid t) H4) in
  let H5 := utf (t_uid t) (fun tf => mkTF true (tf_abort tf) (tf_alive tf) []) H4 in
  let H6 := fold_left (fun Hh wk => wake (wfuel wk) wk Hh) ws H5 in
  kill_flag (t_uid t) (drop_fs (dfuel H6) (t_fs t) H6).
Definition drain_body (F : rtfuns) (cid : nat) (H : heap) : option heap :=
  match c_ready (gcmd cid H) with
  | [] => Some H
  | s :: rest =>
    let H1 := ucmd cid (set_ready rest) H in
    match rrun_task F cid s H1 with None => None | Some (st, H2) =>
    let H3 := match st with
      | Completed | Cancelled =>
        match slab_get s (gcmd cid H2) with
        | Some t => finish_task cid s t H2
        | None => H2 end
      | Missing | Suspended => H2 end in
    rdrain F cid H3 end
  end.
Definition run_task_body (F : rtfuns) (cid slot : nat) (H : heap) : option (tstate * heap) :=
  match slab_get slot (gcmd cid H) with
  | None => Some (Missing, note B_Missing H)
  | Some t =>
    (* task.is_aborted(): its own flag, or - for the task made by Command::new - the command's flag *)
    if tf_abort (gtf (t_uid t) H) || (Nat.eqb (t_uid t) (c_task0 (gcmd cid H)) && was_aborted cid H)
    then Some (Completed, note B_AbortedBeforePoll H) else
    let g := length (woken H) in
    let H1 := mkH (chans H) (tfl H) (cmds H) (woken H ++ [false]) (xready H) (aborted H) (log H) (hout H) in
    match rpoll F cid (WCmd cid slot g) (t_fs t) H1 with
    | None => None
    | Some (Rdy, H2) => Some (Completed, ucmd cid (slab_set slot (mkT (t_uid t) (mkF [] (LRun TRet) []))) H2)
    | Some (Pend fs', H2) =>
      let H3 := ucmd cid (slab_set slot (mkT (t_uid t) fs')) H2 in
      if getd false g (woken H3) || holds g H3 then Some (Suspended, H3)
      else Some (Cancelled, note B_Evict H3)
    end
  end.

Definition step_funs (F : rtfuns) : rtfuns :=
  mkFuns (poll_body F) (poll_next_body F) (settle_body F) (loop_body F) (drain_body F) (run_task_body F).
Fixpoint funs (fuel : nat) : rtfuns :=
  match fuel with 0 => funs0 | S f => step_funs (funs f) end.
Definition poll (fuel : nat) := rpoll (funs fuel).
Definition poll_next (fuel : nat) := rpoll_next (funs fuel).
Definition settle (fuel : nat) := rsettle (funs fuel).
Definition settle_loop (fuel : nat) := rloop (funs fuel).
Definition drain (fuel : nat) := rdrain (funs fuel).
Definition run_task (fuel : nat) := rrun_task (funs fuel).
