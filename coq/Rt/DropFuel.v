(* Drop glue always has enough fuel.  drop_fs / drop_cmd recurse through the heap (a hosting future drops the command
   it hosts, which drops its tasks, ...), so they carry a fuel; the runtime model starts every drop with
   [dfuel H] = 2 * (number of commands) + 2.  A task only hosts commands created after its own command (the first
   clause of the order invariant), dropping never adds a task to any command, and commands beyond the table have no
   tasks: so the ids along a chain of drops strictly increase below the table size and the fuel cannot run out -
   more fuel changes nothing.  The model has no bound on the nesting depth of drops. *)
From Coq Require Import List Arith Bool Lia.
From Crux Require Import Rt.Lang Rt.Rt Rt.Tables Rt.EvictHost.
Import ListNotations.

(* ---------- dropping (and waking) never adds a task to any command ---------- *)
Definition Rna (H H' : heap) : Prop := forall c t, tasks_of (gcmd c H') t -> tasks_of (gcmd c H) t.
Lemma Rna_refl H : Rna H H. Proof. intros c t T; exact T. Qed.
Lemma Rna_trans a b c : Rna a b -> Rna b c -> Rna a c. Proof. intros A B x t T. apply A, B, T. Qed.
Lemma Rna_same H H' : cmds H' = cmds H -> Rna H H'. Proof. intros E c t T. unfold gcmd in *. rewrite E in T. exact T. Qed.
Lemma Rna_ucmd c f H : (forall cm t, tasks_of (f cm) t -> tasks_of cm t) -> Rna H (ucmd c f H).
Proof.
  intros Hf c' t T. destruct (Nat.eq_dec c c') as [->|Hn].
  - rewrite gcmd_ucmd_same in T. apply Hf, T.
  - rewrite gcmd_ucmd_other in T by exact Hn. exact T.
Qed.
Lemma Rna_fold {A} (g : heap -> A -> heap) (l : list A) : (forall x H, Rna H (g H x)) -> forall H, Rna H (fold_left g l H).
Proof. intros Hg. induction l as [|x l IH]; intros H; simpl; [apply Rna_refl|]. eapply Rna_trans; [apply Hg | apply IH]. Qed.

Ltac keep_tasks := apply Rna_ucmd; intros cm t T; destruct cm; exact T.

Lemma Rna_wake : forall f w H, Rna H (wake f w H).
Proof.
  induction f as [|f IH]; intros w H; unfold wake; fold wake;
    (destruct w as [c s g|q]; [|apply Rna_same; reflexivity]);
    set (H1 := if c_alive (gcmd c H) then ucmd c (fun cm => set_ready (c_ready cm ++ [s]) cm) H else H);
    (assert (S1 : Rna H H1) by (subst H1; destruct (c_alive (gcmd c H)); [keep_tasks | apply Rna_refl]));
    (assert (S2 : Rna H (set_woken g H1)) by (eapply Rna_trans; [exact S1 | apply Rna_same; reflexivity]));
    destruct (c_atomic (gcmd c (set_woken g H1))) as [w'|]; try exact S2;
    try (eapply Rna_trans; [exact S2 | apply Rna_same; reflexivity]).
  eapply Rna_trans; [exact S2|]. eapply Rna_trans; [|apply IH]. keep_tasks.
Qed.
Lemma Rna_uch c f H : Rna H (uch c f H). Proof. apply Rna_same; reflexivity. Qed.
Lemma Rna_utf u f H : Rna H (utf u f H). Proof. apply Rna_same; reflexivity. Qed.
Lemma Rna_wake_cell ch H : Rna H (wake_cell ch H).
Proof. unfold wake_cell. destruct (ch_wk (gch ch H)); [|apply Rna_refl]. eapply Rna_trans; [apply Rna_uch | apply Rna_wake]. Qed.
Lemma Rna_chan_drop_tx ch H : Rna H (chan_drop_tx ch H).
Proof. unfold chan_drop_tx. destruct (ch_tx (gch ch H)); [|apply Rna_refl]. eapply Rna_trans; [apply Rna_uch | apply Rna_wake_cell]. Qed.
Lemma Rna_chan_drop_rx ch H : Rna H (chan_drop_rx ch H). Proof. apply Rna_uch. Qed.
Lemma Rna_drop_req e H : Rna H (drop_req e H).
Proof. unfold drop_req. destruct (e_res e); [apply Rna_refl | apply Rna_chan_drop_tx | apply Rna_chan_drop_tx | apply Rna_refl]. Qed.
Lemma Rna_kill_flag u H : Rna H (kill_flag u H). Proof. apply Rna_utf. Qed.
Lemma Rna_sub_drop q H : Rna H (sub_drop q H).
Proof. unfold sub_drop. destruct q as [s d tg v ch|m|s tg v ch|u]; [|apply Rna_refl|apply Rna_chan_drop_rx|apply Rna_refl]. destruct d; [apply Rna_refl | apply Rna_chan_drop_rx]. Qed.

Lemma Rna_drop : forall fuel, (forall fs H, Rna H (drop_fs fuel fs H)) /\ (forall cid H, Rna H (drop_cmd fuel cid H)).
Proof.
  induction fuel as [|f [IHfs IHcmd]]; split; intros; try apply Rna_refl.
  - unfold drop_fs; fold drop_fs; fold drop_cmd.
    match goal with |- Rna H (fold_left ?g ?l ?H1) => eapply Rna_trans; [|apply (Rna_fold g)] end.
    + destruct (f_leaf fs); try apply Rna_refl.
      * destruct dead; [apply Rna_refl | apply Rna_chan_drop_rx].
      * apply IHcmd.
      * apply Rna_chan_drop_rx.
      * eapply Rna_trans; apply Rna_sub_drop.
      * eapply Rna_trans; apply Rna_sub_drop.
    + intros fr Hh. apply Rna_chan_drop_rx.
  - unfold drop_cmd; fold drop_fs; fold drop_cmd.
    repeat match goal with |- Rna _ (fold_left ?g ?l ?H1) => eapply Rna_trans; [|apply (Rna_fold g)] end.
    + apply Rna_ucmd. intros cm t T. destruct cm; unfold tasks_of in T; simpl in T. destruct T as [[]|[]].
    + intros e Hh. apply Rna_drop_req.
    + intros t Hh. eapply Rna_trans; [apply IHfs | apply Rna_kill_flag].
    + intros e Hh. destruct e; [|apply Rna_refl]. eapply Rna_trans; [apply IHfs | apply Rna_kill_flag].
Qed.
Lemma Rna_drop_fs fuel fs H : Rna H (drop_fs fuel fs H). Proof. apply Rna_drop. Qed.
Lemma Rna_drop_cmd fuel cid H : Rna H (drop_cmd fuel cid H). Proof. apply Rna_drop. Qed.

(* ---------- the invariant the fuel argument needs ---------- *)
(* tasks host later commands only (first clause of OrdH), and no command from W on has a task *)
Definition OrdT (H : heap) : Prop := forall c t, tasks_of (gcmd c H) t -> host_gt c (t_fs t).
Definition NoTasksFrom (W : nat) (H : heap) : Prop := forall c t, W <= c -> ~ tasks_of (gcmd c H) t.
Definition PW (W : nat) (H : heap) : Prop := OrdT H /\ NoTasksFrom W H.
Lemma PW_Rna W H H' : Rna H H' -> PW W H -> PW W H'.
Proof. intros R (O & N). split; [intros c t T; apply O, R, T | intros c t L T; apply (N c t L), R, T]. Qed.
Lemma OrdH_OrdT H : OrdH H -> OrdT H. Proof. intros (O & _). exact O. Qed.
Lemma gcmd_out_of_range c H : length (cmds H) <= c -> gcmd c H = cmd0.
Proof. intros L. unfold gcmd, getd. apply nth_overflow. exact L. Qed.
Lemma NoTasksFrom_length H : NoTasksFrom (length (cmds H)) H.
Proof. intros c t L T. rewrite (gcmd_out_of_range c H L) in T. destruct T as [[]|[]]. Qed.

Lemma fold_left_ext_inv {A} (P : heap -> Prop) (g1 g2 : heap -> A -> heap) (l : list A) :
  (forall H a, In a l -> P H -> g1 H a = g2 H a) -> (forall H a, In a l -> P H -> P (g2 H a)) ->
  forall H, P H -> fold_left g1 l H = fold_left g2 l H.
Proof.
  induction l as [|a l IH]; intros E Pr H PH; [reflexivity|]. cbn [fold_left].
  rewrite (E H a (or_introl eq_refl) PH). apply IH.
  - intros H' a' I' P'. apply E; [right; exact I' | exact P'].
  - intros H' a' I' P'. apply Pr; [right; exact I' | exact P'].
  - apply Pr; [left; reflexivity | exact PH].
Qed.

(* the fuel a future needs: one step for itself, and enough for the command it hosts *)
Definition fs_need (W : nat) (fs : fstate) (f : nat) : Prop :=
  1 <= f /\ match f_leaf fs with LHost x _ _ _ => 2 * (W - x) + 2 <= f | _ => True end.

Theorem drop_one_more_changes_nothing : forall W f,
  (forall x H, PW W H -> 2 * (W - x) + 1 <= f -> drop_cmd (S f) x H = drop_cmd f x H) /\
  (forall fs H, PW W H -> fs_need W fs f -> drop_fs (S f) fs H = drop_fs f fs H).
Proof.
  intros W. induction f as [|f [IHc IHf]]; split.
  - intros x H _ L. lia.
  - intros fs H _ (L & _). lia.
  - (* drop_cmd (S (S f)) = drop_cmd (S f): the tasks are dropped with fuel S f resp. f *)
    intros x H P L.
    change (drop_cmd (S (S f)) x H) with
      (let c := gcmd x H in
       let H1 := ucmd x (fun cm => set_alive false (set_eff [] (set_evs [] (slab_clear (set_spawnq [] (set_ready [] cm)))))) H in
       let H2 := fold_left (fun Hh e => drop_req e Hh) (c_eff c) H1 in
       let H3 := fold_left (fun Hh t => kill_flag (t_uid t) (drop_fs (S f) (t_fs t) Hh)) (c_spawnq c) H2 in
       fold_left (fun Hh e => match e with Occ t => kill_flag (t_uid t) (drop_fs (S f) (t_fs t) Hh) | Vac _ => Hh end) (c_ent c) H3).
    change (drop_cmd (S f) x H) with
      (let c := gcmd x H in
       let H1 := ucmd x (fun cm => set_alive false (set_eff [] (set_evs [] (slab_clear (set_spawnq [] (set_ready [] cm)))))) H in
       let H2 := fold_left (fun Hh e => drop_req e Hh) (c_eff c) H1 in
       let H3 := fold_left (fun Hh t => kill_flag (t_uid t) (drop_fs f (t_fs t) Hh)) (c_spawnq c) H2 in
       fold_left (fun Hh e => match e with Occ t => kill_flag (t_uid t) (drop_fs f (t_fs t) Hh) | Vac _ => Hh end) (c_ent c) H3).
    cbv zeta.
    set (H1 := ucmd x (fun cm => set_alive false (set_eff [] (set_evs [] (slab_clear (set_spawnq [] (set_ready [] cm)))))) H).
    set (H2 := fold_left (fun Hh e => drop_req e Hh) (c_eff (gcmd x H)) H1).
    assert (P2 : PW W H2).
    { apply (PW_Rna W H); [|exact P]. eapply Rna_trans; [|apply (Rna_fold (fun Hh e => drop_req e Hh)); intros; apply Rna_drop_req].
      apply Rna_ucmd. intros cm t T. destruct cm; unfold tasks_of in T; simpl in T. destruct T as [[]|[]]. }
    (* what a task of x needs is covered by f *)
    assert (Need : forall t, tasks_of (gcmd x H) t -> fs_need W (t_fs t) f).
    { intros t T. destruct P as (O & N).
      assert (Lx : x < W) by (destruct (le_lt_dec W x) as [Ge|Lt]; [exfalso; exact (N x t Ge T) | exact Lt]).
      pose proof (O x t T) as G. unfold host_gt in G. unfold fs_need. split; [lia|].
      destruct (f_leaf (t_fs t)); try exact I. lia. }
    assert (E3 : fold_left (fun Hh t => kill_flag (t_uid t) (drop_fs (S f) (t_fs t) Hh)) (c_spawnq (gcmd x H)) H2 =
                 fold_left (fun Hh t => kill_flag (t_uid t) (drop_fs f (t_fs t) Hh)) (c_spawnq (gcmd x H)) H2).
    { apply (fold_left_ext_inv (PW W)); [| |exact P2].
      - intros Hh t I Ph. rewrite (IHf (t_fs t) Hh Ph (Need t (or_intror I))). reflexivity.
      - intros Hh t I Ph. apply (PW_Rna W Hh); [|exact Ph]. eapply Rna_trans; [apply Rna_drop_fs | apply Rna_kill_flag]. }
    rewrite E3.
    set (H3 := fold_left (fun Hh t => kill_flag (t_uid t) (drop_fs f (t_fs t) Hh)) (c_spawnq (gcmd x H)) H2).
    assert (P3 : PW W H3).
    { apply (PW_Rna W H2); [|exact P2]. apply (Rna_fold (fun Hh t => kill_flag (t_uid t) (drop_fs f (t_fs t) Hh))).
      intros t Hh. eapply Rna_trans; [apply Rna_drop_fs | apply Rna_kill_flag]. }
    apply (fold_left_ext_inv (PW W)); [| |exact P3].
    + intros Hh e I Ph. destruct e as [t|n]; [|reflexivity]. rewrite (IHf (t_fs t) Hh Ph (Need t (or_introl I))). reflexivity.
    + intros Hh e I Ph. destruct e as [t|n]; [|exact Ph]. apply (PW_Rna W Hh); [|exact Ph]. eapply Rna_trans; [apply Rna_drop_fs | apply Rna_kill_flag].
  - (* drop_fs (S (S f)) = drop_fs (S f): only a hosting leaf looks at the fuel *)
    intros fs H P (L1 & Lh).
    change (drop_fs (S (S f)) fs H) with
      (fold_left (fun Hh fr => chan_drop_rx (fr_ch fr) Hh) (f_stack fs)
         (match f_leaf fs with
          | LReq _ dead _ _ ch _ _ => if dead then H else chan_drop_rx ch H
          | LLeg _ _ _ ch _ _ => chan_drop_rx ch H
          | LHost cid _ _ _ => drop_cmd (S f) cid H
          | LBoth a b _ _ _ | LRace a b _ _ => sub_drop b (sub_drop a H)
          | _ => H end)).
    change (drop_fs (S f) fs H) with
      (fold_left (fun Hh fr => chan_drop_rx (fr_ch fr) Hh) (f_stack fs)
         (match f_leaf fs with
          | LReq _ dead _ _ ch _ _ => if dead then H else chan_drop_rx ch H
          | LLeg _ _ _ ch _ _ => chan_drop_rx ch H
          | LHost cid _ _ _ => drop_cmd f cid H
          | LBoth a b _ _ _ | LRace a b _ _ => sub_drop b (sub_drop a H)
          | _ => H end)).
    destruct (f_leaf fs); try reflexivity.
    rewrite (IHc cid H P) by lia. reflexivity.
Qed.

Corollary drop_cmd_more_fuel : forall W n f x H, PW W H -> 2 * W + 1 <= f -> drop_cmd (n + f) x H = drop_cmd f x H.
Proof.
  intros W. induction n as [|n IH]; intros f x H P L; [reflexivity|].
  change (S n + f) with (S (n + f)). rewrite (proj1 (drop_one_more_changes_nothing W (n + f))) by (exact P || lia). apply IH; assumption.
Qed.
Corollary drop_fs_more_fuel : forall W n f fs H, PW W H -> 2 * W + 2 <= f -> drop_fs (n + f) fs H = drop_fs f fs H.
Proof.
  intros W. induction n as [|n IH]; intros f fs H P L; [reflexivity|].
  change (S n + f) with (S (n + f)). rewrite (proj2 (drop_one_more_changes_nothing W (n + f))).
  - apply IH; assumption.
  - exact P.
  - split; [lia|]. destruct (f_leaf fs); try exact I. lia.
Qed.

(* ---------- the fuel the model starts a drop with is enough ---------- *)
Theorem drop_cmd_fuel_suffices : forall n x H, OrdH H -> drop_cmd (n + dfuel H) x H = drop_cmd (dfuel H) x H.
Proof.
  intros n x H O. apply (drop_cmd_more_fuel (length (cmds H))).
  - split; [apply OrdH_OrdT, O | apply NoTasksFrom_length].
  - unfold dfuel. lia.
Qed.
Theorem drop_fs_fuel_suffices : forall n fs H, OrdH H -> drop_fs (n + dfuel H) fs H = drop_fs (dfuel H) fs H.
Proof.
  intros n fs H O. apply (drop_fs_more_fuel (length (cmds H))).
  - split; [apply OrdH_OrdT, O | apply NoTasksFrom_length].
  - unfold dfuel. lia.
Qed.
