(* What only ever moves one way (frame principle, fourth instance).  Through every step of the runtime -
   waking, channel operations, drop glue, polling any task of any command at any nesting level, settling,
   hosting - for every fuel and every heap:
     - a closed receiving end of a channel stays closed, and so does a closed sending end
       (a dropped request can never be delivered to again; a dropped receiver never reappears);
     - a task's abort flag stays set, its finished flag stays set;
     - the flag of a task that is gone stays that of a task that is gone, a dropped Command stays dropped;
     - nothing is ever deallocated (tables only grow).
   These are the "final" halves of C06 and the "released" half of C13, and C07's "a finished task stays
   finished" - stated of the model, proved once by the induction of Frame.v. *)
From Coq Require Import List Arith Bool Lia.
From Crux Require Import Rt.Lang Rt.Rt Rt.Tables Rt.Frame.
Import ListNotations.

Record Rperm (H H' : heap) : Prop := mkRperm {
  pm_chans : length (chans H) <= length (chans H');
  pm_tfl : length (tfl H) <= length (tfl H');
  pm_cmds : length (cmds H) <= length (cmds H');
  pm_rx : forall ch, ch_rx (gch ch H) = false -> ch_rx (gch ch H') = false;
  pm_tx : forall ch, ch_tx (gch ch H) = false -> ch_tx (gch ch H') = false;
  pm_abort : forall u, tf_abort (gtf u H) = true -> tf_abort (gtf u H') = true;
  pm_fin : forall u, tf_fin (gtf u H) = true -> tf_fin (gtf u H') = true;
  pm_gone : forall u, u < length (tfl H) -> tf_alive (gtf u H) = false -> tf_alive (gtf u H') = false;
  pm_dead : forall c, c < length (cmds H) -> c_alive (gcmd c H) = false -> c_alive (gcmd c H') = false
}.

Lemma Rperm_refl H : Rperm H H.
Proof. constructor; auto. Qed.
Lemma Rperm_trans a b c : Rperm a b -> Rperm b c -> Rperm a c.
Proof.
  intros [A1 A2 A3 A4 A5 A6 A7 A8 A9] [B1 B2 B3 B4 B5 B6 B7 B8 B9]. constructor; try lia; auto.
  - intros u L E. apply B8; [lia | apply A8; assumption].
  - intros x L E. apply B9; [lia | apply A9; assumption].
Qed.
(* steps that leave the three tables alone *)
Lemma Rperm_same H H' : chans H' = chans H -> tfl H' = tfl H -> cmds H' = cmds H -> Rperm H H'.
Proof. intros E1 E2 E3. constructor; unfold gch, gtf, gcmd; rewrite ?E1, ?E2, ?E3; auto. Qed.

Lemma Rperm_ucmd c f H : good f -> Rperm H (ucmd c f H).
Proof.
  intros G. constructor; try (unfold ucmd; simpl; auto; fail).
  - unfold ucmd; simpl. apply length_updd.
  - intros x L E. destruct (Nat.eq_dec c x) as [->|Hne].
    + rewrite gcmd_ucmd_same. apply (proj2 (G _)). exact E.
    + rewrite gcmd_ucmd_other by exact Hne. exact E.
Qed.
Lemma gch_uch_same c f H : gch c (uch c f H) = f (gch c H).
Proof. unfold gch, uch; simpl. apply getd_updd_same. Qed.
Lemma gch_uch_other c c' f H : c <> c' -> gch c' (uch c f H) = gch c' H.
Proof. intros Hne. unfold gch, uch; simpl. apply getd_updd_other; exact Hne. Qed.
Lemma gtf_utf_same u f H : gtf u (utf u f H) = f (gtf u H).
Proof. unfold gtf, utf; simpl. apply getd_updd_same. Qed.
Lemma gtf_utf_other u u' f H : u <> u' -> gtf u' (utf u f H) = gtf u' H.
Proof. intros Hne. unfold gtf, utf; simpl. apply getd_updd_other; exact Hne. Qed.

Lemma Rperm_uch c f H : goodch f -> Rperm H (uch c f H).
Proof.
  intros G. constructor; try (unfold uch; simpl; auto; fail).
  - unfold uch; simpl. apply length_updd.
  - intros x E. destruct (Nat.eq_dec c x) as [->|Hne].
    + rewrite gch_uch_same. apply (proj1 (G _)). exact E.
    + rewrite gch_uch_other by exact Hne. exact E.
  - intros x E. destruct (Nat.eq_dec c x) as [->|Hne].
    + rewrite gch_uch_same. apply (proj2 (G _)). exact E.
    + rewrite gch_uch_other by exact Hne. exact E.
Qed.
Lemma Rperm_utf u f H : goodtf f -> Rperm H (utf u f H).
Proof.
  intros G. constructor; try (unfold utf; simpl; auto; fail).
  - unfold utf; simpl. apply length_updd.
  - intros x E. destruct (Nat.eq_dec u x) as [->|Hne].
    + rewrite gtf_utf_same. apply (proj1 (G _)). exact E.
    + rewrite gtf_utf_other by exact Hne. exact E.
  - intros x E. destruct (Nat.eq_dec u x) as [->|Hne].
    + rewrite gtf_utf_same. apply (proj1 (proj2 (G _))). exact E.
    + rewrite gtf_utf_other by exact Hne. exact E.
  - intros x L E. destruct (Nat.eq_dec u x) as [->|Hne].
    + rewrite gtf_utf_same. apply (proj2 (proj2 (G _))). exact E.
    + rewrite gtf_utf_other by exact Hne. exact E.
Qed.

Lemma nth_app_keep {A} (d : A) n l x : n < length l \/ nth n l d = d -> nth n (l ++ [x]) d = nth n l d \/ length l <= n.
Proof.
  intros _. destruct (Nat.lt_ge_cases n (length l)) as [L|L]; [left; apply app_nth1; exact L | right; exact L].
Qed.

Lemma Rperm_add_chan c H : Rperm H (mkH (chans H ++ [c]) (tfl H) (cmds H) (woken H) (xready H) (aborted H) (log H) (hout H)).
Proof.
  constructor; simpl; auto; try (rewrite app_length; simpl; lia).
  - intros ch E. unfold gch, getd in *; simpl.
    destruct (Nat.lt_ge_cases ch (length (chans H))) as [L|L]; [rewrite app_nth1 by exact L; exact E|].
    rewrite nth_overflow in E by exact L. discriminate.
  - intros ch E. unfold gch, getd in *; simpl.
    destruct (Nat.lt_ge_cases ch (length (chans H))) as [L|L]; [rewrite app_nth1 by exact L; exact E|].
    rewrite nth_overflow in E by exact L. discriminate.
Qed.
Lemma Rperm_add_tflag t H : Rperm H (mkH (chans H) (tfl H ++ [t]) (cmds H) (woken H) (xready H) (aborted H) (log H) (hout H)).
Proof.
  constructor; simpl; auto; try (rewrite app_length; simpl; lia).
  - intros u E. unfold gtf, getd in *; simpl.
    destruct (Nat.lt_ge_cases u (length (tfl H))) as [L|L]; [rewrite app_nth1 by exact L; exact E|].
    rewrite nth_overflow in E by exact L. discriminate.
  - intros u E. unfold gtf, getd in *; simpl.
    destruct (Nat.lt_ge_cases u (length (tfl H))) as [L|L]; [rewrite app_nth1 by exact L; exact E|].
    rewrite nth_overflow in E by exact L. discriminate.
  - intros u L E. unfold gtf, getd in *; simpl. rewrite app_nth1 by exact L. exact E.
Qed.
Lemma Rperm_add_cmd c H : Rperm H (mkH (chans H) (tfl H) (cmds H ++ [c]) (woken H) (xready H) (aborted H) (log H) (hout H)).
Proof.
  constructor; simpl; auto; try (rewrite app_length; simpl; lia).
  intros x L E. unfold gcmd, getd in *; simpl. rewrite app_nth1 by exact L. exact E.
Qed.

Definition frame_perm := frame_all Rperm Rperm_refl Rperm_trans Rperm_ucmd Rperm_uch Rperm_utf
  (fun n H => Rperm_same H (note n H) eq_refl eq_refl eq_refl)
  (fun g H => Rperm_same H (set_woken g H) eq_refl eq_refl eq_refl)
  (fun q H => Rperm_same H (push_xready q H) eq_refl eq_refl eq_refl)
  Rperm_add_chan Rperm_add_tflag
  (fun H => Rperm_same H (mkH (chans H) (tfl H) (cmds H) (woken H ++ [false]) (xready H) (aborted H) (log H) (hout H)) eq_refl eq_refl eq_refl)
  (fun n H => Rperm_same H (add_aborted n H) eq_refl eq_refl eq_refl)
  (fun e H => Rperm_same H (push_hout e H) eq_refl eq_refl eq_refl)
  Rperm_add_cmd.

(* the same for the shell's own actions on a request: resolving and dropping *)
Lemma perm_wake fuel w H : Rperm H (wake fuel w H).
Proof.
  apply (R_wake Rperm Rperm_refl Rperm_trans Rperm_ucmd); intros; apply Rperm_same; reflexivity.
Qed.
Lemma perm_chan_send ch v H : Rperm H (snd (chan_send ch v H)).
Proof.
  apply (R_chan_send Rperm Rperm_refl Rperm_trans Rperm_ucmd Rperm_uch); intros; apply Rperm_same; reflexivity.
Qed.
Lemma perm_chan_drop_tx ch H : Rperm H (chan_drop_tx ch H).
Proof.
  apply (R_chan_drop_tx Rperm Rperm_refl Rperm_trans Rperm_ucmd Rperm_uch); intros; apply Rperm_same; reflexivity.
Qed.
Lemma perm_drop_req e H : Rperm H (drop_req e H).
Proof.
  apply (R_drop_req Rperm Rperm_refl Rperm_trans Rperm_ucmd Rperm_uch); intros; apply Rperm_same; reflexivity.
Qed.

(* ---------- the statements used by the property files ---------- *)
Theorem perm_settle fuel cid H H' : settle fuel cid H = Some H' -> Rperm H H'.
Proof. intros E. unfold settle in E. apply (frame_perm fuel) in E. exact E. Qed.
Theorem perm_poll_next fuel cid w H r H' : poll_next fuel cid w H = Some (r, H') -> Rperm H H'.
Proof. intros E. unfold poll_next in E. apply (frame_perm fuel) in E. exact E. Qed.
Theorem perm_poll fuel c w fs H r H' : poll fuel c w fs H = Some (r, H') -> Rperm H H'.
Proof. intros E. unfold poll in E. apply (frame_perm fuel) in E. exact E. Qed.
Theorem perm_run_task fuel cid s H r H' : run_task fuel cid s H = Some (r, H') -> Rperm H H'.
Proof. intros E. unfold run_task in E. apply (frame_perm fuel) in E. exact E. Qed.

(* a task whose abort flag is set is never polled again: run_task answers without calling poll *)
Theorem aborted_task_never_polled : forall F G cid slot H t,
  slab_get slot (gcmd cid H) = Some t -> tf_abort (gtf (t_uid t) H) = true ->
  rrun_task (step_funs F) cid slot H = Some (Completed, note B_AbortedBeforePoll H) /\
  rrun_task (step_funs F) cid slot H = rrun_task (step_funs G) cid slot H.
Proof.
  intros F G cid slot H t Es Ea. cbn [step_funs rrun_task]. unfold run_task_body. rewrite Es, Ea. cbn [orb]. split; reflexivity.
Qed.

(* a value sent to a request whose receiver is gone is refused and changes nothing but the coverage log;
   the receiver stays gone (pm_rx), so every later one is refused as well *)
Theorem send_to_closed_refused ch v H : ch_rx (gch ch H) = false -> chan_send ch v H = (false, note B_SendClosed H).
Proof. intros E. unfold chan_send. rewrite E. reflexivity. Qed.

(* dropping a request closes its sending end, for good *)
Lemma wake_cell_perm ch H : Rperm H (wake_cell ch H).
Proof.
  apply (R_wake_cell Rperm Rperm_refl Rperm_trans Rperm_ucmd Rperm_uch); intros; apply Rperm_same; reflexivity.
Qed.
Theorem drop_tx_closes ch H : ch_tx (gch ch (chan_drop_tx ch H)) = false.
Proof.
  unfold chan_drop_tx. destruct (ch_tx (gch ch H)) eqn:E; [|exact E].
  apply (pm_tx _ _ (wake_cell_perm ch _)). rewrite gch_uch_same. reflexivity.
Qed.
Theorem drop_rx_closes ch H : ch_rx (gch ch (chan_drop_rx ch H)) = false.
Proof. unfold chan_drop_rx. rewrite gch_uch_same. reflexivity. Qed.
(* a one-shot request that was answered has its sending end closed as well (Resolve::Once is consumed) *)
Lemma perm_drop_fs fuel fs H : Rperm H (drop_fs fuel fs H).
Proof.
  apply (R_drop_fs Rperm Rperm_refl Rperm_trans Rperm_ucmd Rperm_uch Rperm_utf); intros; apply Rperm_same; reflexivity.
Qed.
Lemma perm_drop_cmd fuel cid H : Rperm H (drop_cmd fuel cid H).
Proof.
  apply (R_drop_cmd Rperm Rperm_refl Rperm_trans Rperm_ucmd Rperm_uch Rperm_utf); intros; apply Rperm_same; reflexivity.
Qed.
Lemma perm_kill_flag u H : Rperm H (kill_flag u H).
Proof. unfold kill_flag. apply Rperm_utf. solve_goodtf. Qed.
Lemma perm_fold {A} (g : heap -> A -> heap) (l : list A) :
  (forall x H, Rperm H (g H x)) -> forall H, Rperm H (fold_left g l H).
Proof. apply (R_fold Rperm Rperm_refl Rperm_trans). Qed.

(* dropping a Command value releases it: whatever its tasks' drop glue does meanwhile (closing
   receivers, dropping nested commands, waking whoever waited), the command is dead afterwards *)
Theorem drop_cmd_dead f cid H : cid < length (cmds H) -> c_alive (gcmd cid (drop_cmd (S f) cid H)) = false.
Proof.
  intros L. unfold drop_cmd; fold drop_fs; fold drop_cmd.
  match goal with |- context[ucmd cid ?ff H] => set (H1 := ucmd cid ff H) end.
  assert (L1 : cid < length (cmds H1)).
  { subst H1. unfold ucmd; simpl. eapply Nat.lt_le_trans; [exact L | apply length_updd]. }
  assert (D1 : c_alive (gcmd cid H1) = false).
  { subst H1. rewrite gcmd_ucmd_same. destruct (gcmd cid H); reflexivity. }
  match goal with |- c_alive (gcmd cid ?Hf) = false => assert (P : Rperm H1 Hf) end.
  { repeat match goal with |- Rperm _ (fold_left ?g ?l ?Hb) => eapply Rperm_trans; [|apply (perm_fold g)] end.
    - apply Rperm_refl.
    - intros e Hh. apply perm_drop_req.
    - intros t Hh. eapply Rperm_trans; [apply perm_drop_fs | apply perm_kill_flag].
    - intros e Hh. destruct e; [|apply Rperm_refl]. eapply Rperm_trans; [apply perm_drop_fs | apply perm_kill_flag]. }
  exact (pm_dead _ _ P cid L1 D1).
Qed.

(* ---------- the core's request channel only grows (fifth instance) ---------- *)
(* Effects reach the shell through the core's request channel (heap field hout: written by the executor task
   that forwards a hosted command's effects, and by capability contexts).  No step of the runtime ever removes
   or rewrites anything in it: what was requested stays requested, in order, until the call hands the whole
   channel over. *)
Definition Rhout (H H' : heap) : Prop := exists l, hout H' = hout H ++ l.
Lemma Rhout_refl H : Rhout H H. Proof. exists []. rewrite app_nil_r. reflexivity. Qed.
Lemma Rhout_trans a b c : Rhout a b -> Rhout b c -> Rhout a c.
Proof. intros [l1 E1] [l2 E2]. exists (l1 ++ l2). rewrite E2, E1, app_assoc. reflexivity. Qed.
Lemma Rhout_same H H' : hout H' = hout H -> Rhout H H'.
Proof. intros E. exists []. rewrite E, app_nil_r. reflexivity. Qed.
Definition frame_hout := frame_all Rhout Rhout_refl Rhout_trans
  (fun c f H _ => Rhout_same H (ucmd c f H) eq_refl)
  (fun c f H _ => Rhout_same H (uch c f H) eq_refl)
  (fun u f H _ => Rhout_same H (utf u f H) eq_refl)
  (fun n H => Rhout_same H (note n H) eq_refl)
  (fun g H => Rhout_same H (set_woken g H) eq_refl)
  (fun q H => Rhout_same H (push_xready q H) eq_refl)
  (fun c H => Rhout_same H (mkH (chans H ++ [c]) (tfl H) (cmds H) (woken H) (xready H) (aborted H) (log H) (hout H)) eq_refl)
  (fun t H => Rhout_same H (mkH (chans H) (tfl H ++ [t]) (cmds H) (woken H) (xready H) (aborted H) (log H) (hout H)) eq_refl)
  (fun H => Rhout_same H (mkH (chans H) (tfl H) (cmds H) (woken H ++ [false]) (xready H) (aborted H) (log H) (hout H)) eq_refl)
  (fun n H => Rhout_same H (add_aborted n H) eq_refl)
  (fun e H => ex_intro _ [e] eq_refl)
  (fun c H => Rhout_same H (mkH (chans H) (tfl H) (cmds H ++ [c]) (woken H) (xready H) (aborted H) (log H) (hout H)) eq_refl).
Theorem hout_poll_next fuel cid w H r H' : poll_next fuel cid w H = Some (r, H') -> Rhout H H'.
Proof. intros E. unfold poll_next in E. apply (frame_hout fuel) in E. exact E. Qed.
Lemma hout_drop_cmd fuel cid H : Rhout H (drop_cmd fuel cid H).
Proof.
  apply (R_drop_cmd Rhout Rhout_refl Rhout_trans (fun c f H _ => Rhout_same H (ucmd c f H) eq_refl)
           (fun c f H _ => Rhout_same H (uch c f H) eq_refl) (fun u f H _ => Rhout_same H (utf u f H) eq_refl));
    intros; apply Rhout_same; reflexivity.
Qed.

(* ---------- waking touches no channel; a resolution goes into the request's own channel only ---------- *)
Definition Rchans (H H' : heap) : Prop := chans H' = chans H.
Lemma wake_chans fuel w H : chans (wake fuel w H) = chans H.
Proof.
  apply (R_wake Rchans (fun H => eq_refl) (fun a b c (E1 : Rchans a b) (E2 : Rchans b c) => eq_trans E2 E1)
           (fun c f H _ => eq_refl)); intros; reflexivity.
Qed.
Lemma wake_cell_chan ch H c : c <> ch -> gch c (wake_cell ch H) = gch c H.
Proof.
  intros Hne. unfold wake_cell. destruct (ch_wk (gch ch H)); [|reflexivity].
  unfold gch at 1. rewrite wake_chans. fold (gch c (uch ch (fun c0 => mkChan (ch_buf c0) (ch_tx c0) (ch_rx c0) None) H)).
  apply gch_uch_other. auto.
Qed.
Lemma wake_cell_buf ch H c : ch_buf (gch c (wake_cell ch H)) = ch_buf (gch c H).
Proof.
  unfold wake_cell. destruct (ch_wk (gch ch H)); [|reflexivity].
  unfold gch at 1. rewrite wake_chans. fold (gch c (uch ch (fun c0 => mkChan (ch_buf c0) (ch_tx c0) (ch_rx c0) None) H)).
  destruct (Nat.eq_dec ch c) as [->|Hne]; [rewrite gch_uch_same; reflexivity | rewrite gch_uch_other by exact Hne; reflexivity].
Qed.
(* Sending v on channel ch: every other channel keeps its buffer; ch's buffer gains exactly v at its end
   when the receiver is alive and is unchanged when it is gone *)
Theorem chan_send_routes ch v H c :
  ch_buf (gch c (snd (chan_send ch v H))) =
  if Nat.eqb c ch then (if ch_rx (gch ch H) then ch_buf (gch ch H) ++ [v] else ch_buf (gch ch H)) else ch_buf (gch c H).
Proof.
  unfold chan_send. destruct (ch_rx (gch ch H)) eqn:Erx; cbn [snd].
  - rewrite wake_cell_buf. destruct (Nat.eqb_spec c ch) as [->|Hne].
    + rewrite gch_uch_same. reflexivity.
    + rewrite gch_uch_other by auto. reflexivity.
  - destruct (Nat.eqb_spec c ch) as [->|Hne]; reflexivity.
Qed.
Theorem chan_drop_tx_keeps_buffers ch H c : ch_buf (gch c (chan_drop_tx ch H)) = ch_buf (gch c H).
Proof.
  unfold chan_drop_tx. destruct (ch_tx (gch ch H)); [|reflexivity].
  rewrite wake_cell_buf. destruct (Nat.eq_dec ch c) as [->|Hne]; [rewrite gch_uch_same; reflexivity | rewrite gch_uch_other by exact Hne; reflexivity].
Qed.

(* ---------- notifications of the outermost host are never dropped (sixth instance) ---------- *)
(* The hosting executor's ready queue (xready) is written by TaskWaker::wake_by_ref only.  No step of the
   runtime removes an entry: whatever else happens during a poll, a wake-up that reached the outermost host
   stays queued until the host itself takes it. *)
Definition Rxready (H H' : heap) : Prop := exists l, xready H' = xready H ++ l.
Lemma Rxready_refl H : Rxready H H. Proof. exists []. rewrite app_nil_r. reflexivity. Qed.
Lemma Rxready_trans a b c : Rxready a b -> Rxready b c -> Rxready a c.
Proof. intros [l1 E1] [l2 E2]. exists (l1 ++ l2). rewrite E2, E1, app_assoc. reflexivity. Qed.
Lemma Rxready_same H H' : xready H' = xready H -> Rxready H H'.
Proof. intros E. exists []. rewrite E, app_nil_r. reflexivity. Qed.
Definition frame_xready := frame_all Rxready Rxready_refl Rxready_trans
  (fun c f H _ => Rxready_same H (ucmd c f H) eq_refl)
  (fun c f H _ => Rxready_same H (uch c f H) eq_refl)
  (fun u f H _ => Rxready_same H (utf u f H) eq_refl)
  (fun n H => Rxready_same H (note n H) eq_refl)
  (fun g H => Rxready_same H (set_woken g H) eq_refl)
  (fun q H => ex_intro _ [q] eq_refl)
  (fun c H => Rxready_same H (mkH (chans H ++ [c]) (tfl H) (cmds H) (woken H) (xready H) (aborted H) (log H) (hout H)) eq_refl)
  (fun t H => Rxready_same H (mkH (chans H) (tfl H ++ [t]) (cmds H) (woken H) (xready H) (aborted H) (log H) (hout H)) eq_refl)
  (fun H => Rxready_same H (mkH (chans H) (tfl H) (cmds H) (woken H ++ [false]) (xready H) (aborted H) (log H) (hout H)) eq_refl)
  (fun n H => Rxready_same H (add_aborted n H) eq_refl)
  (fun e H => Rxready_same H (push_hout e H) eq_refl)
  (fun c H => Rxready_same H (mkH (chans H) (tfl H) (cmds H ++ [c]) (woken H) (xready H) (aborted H) (log H) (hout H)) eq_refl).
Theorem xready_poll_next fuel cid w H r H' : poll_next fuel cid w H = Some (r, H') -> Rxready H H'.
Proof. intros E. unfold poll_next in E. apply (frame_xready fuel) in E. exact E. Qed.
Theorem xready_settle fuel cid H H' : settle fuel cid H = Some H' -> Rxready H H'.
Proof. intros E. unfold settle in E. apply (frame_xready fuel) in E. exact E. Qed.
Lemma xready_chan_send ch v H : Rxready H (snd (chan_send ch v H)).
Proof.
  apply (R_chan_send Rxready Rxready_refl Rxready_trans (fun c f H _ => Rxready_same H (ucmd c f H) eq_refl)
           (fun c f H _ => Rxready_same H (uch c f H) eq_refl)); intros; try (apply Rxready_same; reflexivity).
  exists [q]. reflexivity.
Qed.
Lemma xready_drop_req e H : Rxready H (drop_req e H).
Proof.
  apply (R_drop_req Rxready Rxready_refl Rxready_trans (fun c f H _ => Rxready_same H (ucmd c f H) eq_refl)
           (fun c f H _ => Rxready_same H (uch c f H) eq_refl)); intros; try (apply Rxready_same; reflexivity).
  exists [q]. reflexivity.
Qed.
