(* Theorems about the host of the LEGACY capability API (Legacy.v: QueuingExecutor::run_all with its
   did_some_work flag, CapabilityContext spawn / notify_shell / update_app / request_from_shell /
   stream_from_shell, Core::process): the same C01 / C03 statements as for the command-API host.
     - run_all returns only with the spawn queue and the ready queue empty, and the event loop only with no
       event unapplied (a call runs to quiescence);
     - the pipeline (events applied ++ events waiting) only ever grows at its end: first in, first out and
       exactly once between update_app and update;
     - the request channel only grows during a call and the call hands over all of it.
   For every handler table (app), every core state and every fuel. *)
From Coq Require Import List Arith Bool Lia.
From Crux Require Import Rt.Lang Rt.Rt Rt.Host Rt.Legacy.
Import ListNotations.

Definition lextends {A} (a b : list A) : Prop := exists l, b = a ++ l.
Lemma lext_refl {A} (a : list A) : lextends a a. Proof. exists []. rewrite app_nil_r. reflexivity. Qed.
Lemma lext_trans {A} (a b c : list A) : lextends a b -> lextends b c -> lextends a c.
Proof. intros [l1 ->] [l2 ->]. exists (l1 ++ l2). rewrite app_assoc. reflexivity. Qed.

(* what a step of the executor may do to the three channels the theorems are about *)
Definition Lst (k k' : lcore) : Prop :=
  l_log k' = l_log k /\ lextends (l_events k) (l_events k') /\ lextends (l_out k) (l_out k').
Lemma Lst_refl k : Lst k k. Proof. repeat split; apply lext_refl. Qed.
Lemma Lst_trans a b c : Lst a b -> Lst b c -> Lst a c.
Proof. intros (A1 & A2 & A3) (B1 & B2 & B3). repeat split; [congruence | eapply lext_trans; eauto | eapply lext_trans; eauto]. Qed.
Lemma Lst_same k k' : l_log k' = l_log k -> l_events k' = l_events k -> l_out k' = l_out k -> Lst k k'.
Proof. intros E1 E2 E3. repeat split; [exact E1 | rewrite E2; apply lext_refl | rewrite E3; apply lext_refl]. Qed.
Lemma Lst_push_ev e k : Lst k (lpush_ev e k).
Proof. repeat split; [exists [e]; reflexivity | apply lext_refl]. Qed.
Lemma Lst_push_out r k : Lst k (lpush_out r k).
Proof. repeat split; [apply lext_refl | exists [r]; reflexivity]. Qed.
Lemma Lst_ucell c f k : Lst k (ucell c f k). Proof. apply Lst_same; reflexivity. Qed.
Lemma Lst_new_cell k c k1 : new_cell k = (c, k1) -> Lst k k1.
Proof. unfold new_cell. intros E; inversion E; subst. apply Lst_same; reflexivity. Qed.

Lemma lpoll_Lst : forall fuel q fs k r k', lpoll fuel q fs k = Some (r, k') -> Lst k k'.
Proof.
  induction fuel as [|f IH]; intros q fs k r k' E; [discriminate|]. cbn [lpoll] in E.
  destruct (lf_leaf fs) as [t|sent tg v c x t'| |n t'].
  - destruct t.
    + destruct (lf_stack fs); [inversion E; subst; apply Lst_refl | apply IH in E; exact E].
    + apply IH in E. eapply Lst_trans; [apply Lst_push_ev | exact E].
    + apply IH in E. eapply Lst_trans; [apply Lst_push_out | exact E].
    + destruct (new_cell k) as [c k1] eqn:E1. apply IH in E. eapply Lst_trans; [eapply Lst_new_cell; exact E1 | exact E].
    + destruct (new_cell k) as [c k1] eqn:E1. apply IH in E. eapply Lst_trans; [eapply Lst_new_cell; exact E1 | exact E].
    + apply IH in E. eapply Lst_trans; [|exact E]. apply Lst_same; reflexivity.
    + apply IH in E; exact E.
    + apply IH in E; exact E.
    + apply IH in E; exact E.
    + apply IH in E; exact E.
    + apply IH in E; exact E.
    + apply IH in E; exact E.
    + apply IH in E; exact E.
    + apply IH in E; exact E.
    + apply IH in E; exact E.
    + apply IH in E; exact E.
  - set (k1 := if sent then k else lpush_out (mkLR tg v 1 c false) k) in *.
    assert (S1 : Lst k k1) by (subst k1; destruct sent; [apply Lst_refl | apply Lst_push_out]).
    destruct (lc_queue (gcell c k1)).
    + inversion E; subst. eapply Lst_trans; [exact S1 | apply Lst_ucell].
    + apply IH in E. eapply Lst_trans; [exact S1|]. eapply Lst_trans; [apply Lst_ucell | exact E].
  - destruct (lf_stack fs) as [|fr rest]; [inversion E; subst; apply Lst_refl|].
    set (k1 := if lf_sent fr then k else lpush_out (mkLR (lf_tg fr) (lf_v fr) 2 (lf_cell fr) false) k) in *.
    assert (S1 : Lst k k1) by (subst k1; destruct (lf_sent fr); [apply Lst_refl | apply Lst_push_out]).
    destruct (lc_queue (gcell (lf_cell fr) k1)).
    + destruct (lc_tx (gcell (lf_cell fr) k1)).
      * inversion E; subst. eapply Lst_trans; [exact S1 | apply Lst_ucell].
      * apply IH in E. eapply Lst_trans; [exact S1|]. eapply Lst_trans; [apply Lst_ucell | exact E].
    + apply IH in E. eapply Lst_trans; [exact S1|]. eapply Lst_trans; [apply Lst_ucell | exact E].
  - destruct n; [apply IH in E; exact E|]. inversion E; subst. apply Lst_same; reflexivity.
Qed.

Ltac peel E := match type of E with Some (?a, ?b) = Some (?c, ?d) =>
  let X := fresh "X" in let Y := fresh "Y" in assert (X : a = c) by congruence; assert (Y : b = d) by congruence; clear E end.
Lemma lrun_task_Lst q k r k' : lrun_task q k = Some (r, k') -> Lst k k'.
Proof.
  unfold lrun_task. destruct (nth_error (l_ent k) q) as [[[fs|]|n]|]; try (intros E; peel E; subst; apply Lst_refl).
  destruct (lpoll LF q fs k) as [[[fs'|] k1]|] eqn:E1; [| |discriminate]; apply lpoll_Lst in E1; intros E; peel E; subst;
    (eapply Lst_trans; [exact E1 | apply Lst_same; reflexivity]).
Qed.
(* a task that was not polled changed nothing at all *)
Lemma lrun_task_not_polled q k r k' : lrun_task q k = Some (r, k') -> r = LMissing \/ r = LUnavailable -> k' = k.
Proof.
  unfold lrun_task. destruct (nth_error (l_ent k) q) as [[[fs|]|n]|]; try (intros E _; peel E; subst; reflexivity).
  destruct (lpoll LF q fs k) as [[[fs'|] k1]|]; [| |discriminate]; intros E [X|X]; peel E; subst; discriminate.
Qed.

Lemma lspawn_pass_spec : forall fuel k did k' did', lspawn_pass fuel k did = Some (k', did') ->
  Lst k k' /\ l_spawn k' = [] /\ (did' = false -> did = false /\ k' = k).
Proof.
  induction fuel as [|f IH]; intros k did k' did' E; [discriminate|]. cbn [lspawn_pass] in E.
  destruct (l_spawn k) as [|t rest] eqn:ES.
  - inversion E; subst. split; [apply Lst_refl | split; [exact ES | intros ->; split; reflexivity]].
  - set (k0 := mkLK (l_cells k) (l_ent k) (l_next k) rest (l_ready k) (l_events k) (l_out k) (l_log k) (l_reqs k)) in *.
    destruct (lslab_insert t k0) as [q k1] eqn:EI.
    assert (S1 : Lst k k1).
    { unfold lslab_insert in EI. destruct (Nat.eqb (l_next k0) (length (l_ent k0))); inversion EI; subst; apply Lst_same; reflexivity. }
    destruct (lrun_task q k1) as [[r k2]|] eqn:ER; [|discriminate].
    apply lrun_task_Lst in ER. destruct (IH _ _ _ _ E) as (S3 & Sp & Sd).
    split; [eapply Lst_trans; [exact S1 | eapply Lst_trans; [exact ER | exact S3]] | split; [exact Sp|]].
    intros ->. destruct (Sd eq_refl) as [X _]. discriminate.
Qed.
Lemma lready_pass_spec : forall fuel k did k' did', lready_pass fuel k did = Some (k', did') ->
  Lst k k' /\ l_ready k' = [] /\ (did' = false -> did = false /\ l_spawn k' = l_spawn k).
Proof.
  induction fuel as [|f IH]; intros k did k' did' E; [discriminate|]. cbn [lready_pass] in E.
  destruct (l_ready k) as [|q rest] eqn:ER.
  - inversion E; subst. split; [apply Lst_refl | split; [exact ER | intros ->; split; reflexivity]].
  - set (k0 := mkLK (l_cells k) (l_ent k) (l_next k) (l_spawn k) rest (l_events k) (l_out k) (l_log k) (l_reqs k)) in *.
    assert (S0 : Lst k k0) by (apply Lst_same; reflexivity).
    destruct (lrun_task q k0) as [[r k1]|] eqn:ET; [|discriminate].
    pose proof (lrun_task_Lst _ _ _ _ ET) as S1.
    destruct r.
    + (* Missing *) pose proof (lrun_task_not_polled _ _ _ _ ET (or_introl eq_refl)) as ->.
      destruct (IH _ _ _ _ E) as (S3 & Sp & Sd). split; [eapply Lst_trans; [exact S0 | exact S3] | split; [exact Sp|]].
      intros X. destruct (Sd X) as [D Ss]. split; [exact D | rewrite Ss; reflexivity].
    + (* Unavailable *) pose proof (lrun_task_not_polled _ _ _ _ ET (or_intror eq_refl)) as ->.
      destruct (IH _ _ _ _ E) as (S3 & Sp & Sd).
      split; [eapply Lst_trans; [exact S0|]; eapply Lst_trans; [|exact S3]; apply Lst_same; reflexivity | split; [exact Sp|]].
      intros X. destruct (Sd X) as [D Ss]. split; [exact D | rewrite Ss; reflexivity].
    + destruct (IH _ _ _ _ E) as (S3 & Sp & Sd). split; [eapply Lst_trans; [exact S0 | eapply Lst_trans; [exact S1 | exact S3]] | split; [exact Sp|]].
      intros X. destruct (Sd X) as [D _]. discriminate.
    + destruct (IH _ _ _ _ E) as (S3 & Sp & Sd). split; [eapply Lst_trans; [exact S0 | eapply Lst_trans; [exact S1 | exact S3]] | split; [exact Sp|]].
      intros X. destruct (Sd X) as [D _]. discriminate.
Qed.

(* run_all returns only with both queues empty *)
Theorem lrun_all_spec : forall fuel k k', lrun_all fuel k = Some k' -> Lst k k' /\ l_spawn k' = [] /\ l_ready k' = [].
Proof.
  induction fuel as [|f IH]; intros k k' E; [discriminate|]. cbn [lrun_all] in E.
  destruct (lspawn_pass LF k false) as [[k1 d1]|] eqn:E1; [|discriminate].
  destruct (lready_pass LF k1 d1) as [[k2 d2]|] eqn:E2; [|discriminate].
  destruct (lspawn_pass_spec _ _ _ _ _ E1) as (S1 & Sp1 & _).
  destruct (lready_pass_spec _ _ _ _ _ E2) as (S2 & Sr2 & Sd2).
  destruct d2.
  - destruct (IH _ _ E) as (S3 & A & B). split; [eapply Lst_trans; [exact S1 | eapply Lst_trans; [exact S2 | exact S3]] | split; assumption].
  - inversion E; subst. destruct (Sd2 eq_refl) as [_ Ss]. split; [eapply Lst_trans; [exact S1 | exact S2] | split; [rewrite Ss; exact Sp1 | exact Sr2]].
Qed.

(* the event loop *)
Definition lpipeline (k : lcore) : list event := l_log k ++ l_events k.
Lemma Lst_pipeline k k' : Lst k k' -> lextends (lpipeline k) (lpipeline k').
Proof. intros (E1 & [l E2] & _). unfold lpipeline. rewrite E1, E2. exists l. rewrite app_assoc. reflexivity. Qed.
Lemma fold_spawn_channels v : forall ts kx,
  l_log (fold_left (fun kk t => lpush_spawn (mkLF [v] (LLRun t) []) kk) ts kx) = l_log kx /\
  l_events (fold_left (fun kk t => lpush_spawn (mkLF [v] (LLRun t) []) kk) ts kx) = l_events kx /\
  l_out (fold_left (fun kk t => lpush_spawn (mkLF [v] (LLRun t) []) kk) ts kx) = l_out kx.
Proof.
  induction ts as [|t ts IH]; intros kx; cbn [fold_left]; [auto|].
  destruct (IH (lpush_spawn (mkLF [v] (LLRun t) []) kx)) as (A & B & C). rewrite A, B, C. auto.
Qed.
Lemma lupdate_channels hs e k : l_log (lupdate hs e k) = l_log k ++ [e] /\ l_events (lupdate hs e k) = l_events k /\ l_out (lupdate hs e k) = l_out k.
Proof.
  unfold lupdate.
  match goal with |- context[fold_left _ ?ts ?k0] => destruct (fold_spawn_channels (v_val e) ts k0) as (A & B & C) end.
  rewrite A, B, C. auto.
Qed.

Theorem lprocess_spec : forall fuel hs k k', lprocess fuel hs k = Some k' ->
  lextends (lpipeline k) (lpipeline k') /\ lextends (l_out k) (l_out k') /\
  l_spawn k' = [] /\ l_ready k' = [] /\ l_events k' = [].
Proof.
  induction fuel as [|f IH]; intros hs k k' E; [discriminate|]. cbn [lprocess] in E.
  destruct (lrun_all LF k) as [k1|] eqn:E1; [|discriminate].
  destruct (lrun_all_spec _ _ _ E1) as (S1 & Sp & Sr).
  destruct (l_events k1) as [|e rest] eqn:EV.
  - inversion E; subst. split; [apply Lst_pipeline; exact S1 | split; [apply S1 | auto]].
  - set (k2 := mkLK (l_cells k1) (l_ent k1) (l_next k1) (l_spawn k1) (l_ready k1) rest (l_out k1) (l_log k1) (l_reqs k1)) in *.
    destruct (IH _ _ _ E) as (P3 & O3 & R3).
    destruct (lupdate_channels hs e k2) as (U1 & U2 & U3).
    split; [|split; [|exact R3]].
    + eapply lext_trans; [apply Lst_pipeline; exact S1|]. eapply lext_trans; [|exact P3].
      unfold lpipeline. rewrite U1, U2, EV. subst k2; cbn [l_log l_events]. exists []. rewrite app_nil_r, <- app_assoc. reflexivity.
    + eapply lext_trans; [apply S1|]. rewrite U3 in O3. exact O3.
Qed.

(* the hand-over *)
Theorem ltake_out_hands_over_everything code k :
  fst (ltake_out code k) = OCall code (map loeff (l_out k)) (l_log k) /\
  l_out (snd (ltake_out code k)) = [] /\ l_reqs (snd (ltake_out code k)) = l_reqs k ++ l_out k.
Proof. unfold ltake_out. cbn. auto. Qed.

(* ---------- the trace predicates of Check.v hold of every trace of the legacy host ---------- *)
From Crux Require Import Rt.Check Rt.HostProps.

Lemma lextends_prefix a b : lextends a b -> is_prefix a b = true.
Proof. intros [l ->]. apply is_prefix_app. Qed.
Lemma lprocess_log fuel hs k k' : lprocess fuel hs k = Some k' -> lextends (l_log k) (l_log k').
Proof.
  intros E. destruct (lprocess_spec fuel hs k k' E) as ([l P] & _ & _ & _ & EV).
  unfold lpipeline in P. rewrite EV, app_nil_r in P. exists (l_events k ++ l). rewrite P, app_assoc. reflexivity.
Qed.
Lemma lupdate_log hs e k : l_log (lupdate hs e k) = l_log k ++ [e].
Proof. apply lupdate_channels. Qed.

(* C03_log: the log only grows, a submitted event is applied first *)
Theorem lcrun_log_ok : forall acts hs k os, lcrun hs acts k = Some os -> C03_log acts os (l_log k) = true.
Proof.
  induction acts as [|a acts IH]; intros hs k os E; cbn [lcrun] in E.
  - assert (os = []) by congruence. subst. reflexivity.
  - destruct (lstep hs a k) as [[o k']|] eqn:E1; [|discriminate].
    destruct (lcrun hs acts k') as [os'|] eqn:E2; [|discriminate].
    assert (X : os = o :: os') by congruence. subst os. clear E. apply IH in E2.
    assert (Same : forall o0, (match o0 with OCall _ _ _ => False | _ => True end) -> l_log k' = l_log k -> C03_log (a :: acts) (o0 :: os') (l_log k) = true).
    { intros o0 No El. cbn [C03_log]. destruct o0; try contradiction; rewrite <- El; exact E2. }
    destruct a; cbn [lstep] in E1;
      try (assert (Y : o = ONone /\ k' = k) by (split; congruence); destruct Y as [-> ->]; apply Same; [exact I | reflexivity]).
    + (* AResolve *)
      destruct (find_lr tg v occ 0 (l_reqs k)) as [i|]; [|assert (Y : o = OResolve 3 /\ k' = k) by (split; congruence); destruct Y as [-> ->]; apply Same; [exact I | reflexivity]].
      set (r := nth i (l_reqs k) (mkLR 0 0 0 0 true)) in *.
      destruct (lr_dropped r); [assert (Y : o = OResolve 3 /\ k' = k) by (split; congruence); destruct Y as [-> ->]; apply Same; [exact I | reflexivity]|].
      destruct (lr_kind r) as [|[|[|n]]].
      * assert (Y : o = OCall 1 [] (l_log k) /\ k' = k) by (split; congruence). destruct Y as [-> ->].
        cbn [C03_log]. rewrite is_prefix_refl. exact E2.
      * match type of E1 with match ?x with _ => _ end = _ => destruct x as [k2|] eqn:E3; [|discriminate] end.
        apply lprocess_log in E3.
        assert (Y : ltake_out 0 k2 = (o, k')) by congruence. unfold ltake_out in Y. inversion Y; subst o k'; clear Y.
        unfold ltake_out in *. cbn [fst snd l_log] in *. cbn [C03_log].
        match type of E3 with lextends (l_log ?kk) _ => assert (EL : l_log kk = l_log k) end.
        { unfold lset_req. cbn [l_log]. destruct (lc_alive (gcell (lr_cell r) k)); [|reflexivity].
          unfold lwake_cell. destruct (lc_waker (gcell (lr_cell r) (ucell (lr_cell r) _ k))); reflexivity. }
        rewrite EL in E3. rewrite (lextends_prefix _ _ E3). exact E2.
      * destruct (lc_alive (gcell (lr_cell r) k)).
        -- match type of E1 with match ?x with _ => _ end = _ => destruct x as [k2|] eqn:E3; [|discriminate] end.
           apply lprocess_log in E3.
           assert (Y : ltake_out 0 k2 = (o, k')) by congruence. unfold ltake_out in Y. inversion Y; subst o k'; clear Y.
           unfold ltake_out in *. cbn [fst snd l_log] in *. cbn [C03_log].
           match type of E3 with lextends (l_log ?kk) _ => assert (EL : l_log kk = l_log k) end.
           { unfold lwake_cell. destruct (lc_waker (gcell (lr_cell r) (ucell (lr_cell r) _ k))); reflexivity. }
           rewrite EL in E3. rewrite (lextends_prefix _ _ E3). exact E2.
        -- assert (Y : o = OCall 2 [] (l_log k) /\ k' = k) by (split; congruence). destruct Y as [-> ->].
           cbn [C03_log]. rewrite is_prefix_refl. exact E2.
      * assert (Y : o = OCall 1 [] (l_log k) /\ k' = k) by (split; congruence). destruct Y as [-> ->].
        cbn [C03_log]. rewrite is_prefix_refl. exact E2.
    + (* ADropReq *)
      destruct (find_lr tg v occ 0 (l_reqs k)) as [i|]; [|assert (Y : o = ONone /\ k' = k) by (split; congruence); destruct Y as [-> ->]; apply Same; [exact I | reflexivity]].
      set (r := nth i (l_reqs k) (mkLR 0 0 0 0 true)) in *.
      destruct (lr_dropped r); [assert (Y : o = ONone /\ k' = k) by (split; congruence); destruct Y as [-> ->]; apply Same; [exact I | reflexivity]|].
      assert (Y : o = ONone) by congruence. subst o. apply Same; [exact I|].
      assert (Z : k' = lset_req i (mkLR (lr_tag r) (lr_val r) (lr_kind r) (lr_cell r) true)
                         (match lr_kind r with 2 => ucell (lr_cell r) (fun y => mkLC (lc_alive y) (lc_queue y) (lc_waker y) false) k | _ => k end)) by congruence.
      rewrite Z. unfold lset_req. cbn [l_log]. destruct (lr_kind r) as [|[|[|n]]]; reflexivity.
    + (* AEvent *)
      match type of E1 with match ?x with _ => _ end = _ => destruct x as [k2|] eqn:E3; [|discriminate] end.
      apply lprocess_log in E3. rewrite lupdate_log in E3.
      assert (Y : ltake_out 0 k2 = (o, k')) by congruence. unfold ltake_out in Y. inversion Y; subst o k'; clear Y.
      unfold ltake_out in *. cbn [fst snd l_log] in *. cbn [C03_log].
      destruct E3 as [l El]. rewrite El in *. rewrite E2, <- app_assoc, is_prefix_app, skipn_app_len. cbn [app]. rewrite event_eqb_refl. reflexivity.
    + (* ALive *)
      inversion E1; subst. apply Same; [exact I | reflexivity].
Qed.
Corollary under_legacy_core_log_ok hs acts os : under_legacy_core hs acts = Some os -> C03_log acts os [] = true.
Proof. unfold under_legacy_core. intros E. apply (lcrun_log_ok acts hs lcore0 os E). Qed.

(* ---------- C01_ok (the Noop probe) holds of every trace of the legacy host ---------- *)
Definition lidle (k : lcore) : Prop := l_spawn k = [] /\ l_ready k = [] /\ l_events k = [] /\ l_out k = [].
Lemma LF_S : exists n, LF = S n. Proof. exists 399. reflexivity. Qed.
Lemma lrun_all_idle f k : l_spawn k = [] -> l_ready k = [] -> lrun_all (S f) k = Some k.
Proof.
  intros Es Er. cbn [lrun_all]. destruct LF_S as [n ->]. cbn [lspawn_pass]. rewrite Es. cbn [lready_pass]. rewrite Er. reflexivity.
Qed.
Lemma lprocess_of_idle f hs k : l_spawn k = [] -> l_ready k = [] -> l_events k = [] -> lprocess (S f) hs k = Some k.
Proof.
  intros Es Er Ee. cbn [lprocess]. destruct LF_S as [n En]. rewrite En. rewrite (lrun_all_idle n k Es Er). rewrite Ee. reflexivity.
Qed.
Lemma ltake_out_idle code k2 : l_spawn k2 = [] -> l_ready k2 = [] -> l_events k2 = [] -> lidle (snd (ltake_out code k2)).
Proof. intros A B C. unfold ltake_out, lidle. cbn. auto. Qed.

Theorem lcrun_probes_ok : forall hs, llookup 99 hs = [] -> forall acts k os prev,
  lcrun hs acts k = Some os ->
  match prev with Some plog => lidle k /\ plog = l_log k | None => True end ->
  C01_probes acts os prev = true.
Proof.
  intros hs Hp. induction acts as [|a acts IH]; intros k os prev E Pv; cbn [lcrun] in E.
  - assert (os = []) by congruence. subst. reflexivity.
  - destruct (lstep hs a k) as [[o k']|] eqn:E1; [|discriminate].
    destruct (lcrun hs acts k') as [os'|] eqn:E2; [|discriminate].
    assert (X : os = o :: os') by congruence. subst os. clear E.
    (* the three ways a step can relate to the probe bookkeeping *)
    assert (Keep : k' = k -> (match o with OCall 0 _ _ => False | OCall _ _ _ | OResolve _ | OLive _ => True | _ => False end) ->
                   C01_probes (a :: acts) (o :: os') prev = true).
    { intros -> Ho. cbn [C01_probes]. destruct o as [| | |c|c effs lg|n| |]; try contradiction; try (apply (IH k os' prev E2 Pv)).
      destruct c; [contradiction | apply (IH k os' prev E2 Pv)]. }
    assert (Reset : (match o with ONone => True | _ => False end) -> C01_probes (a :: acts) (o :: os') prev = true).
    { intros Ho. destruct o; try contradiction. cbn [C01_probes]. apply (IH k' os' None E2 I). }
    assert (Call : forall k2 ok, l_spawn k2 = [] -> l_ready k2 = [] -> l_events k2 = [] -> ltake_out 0 k2 = (o, k') ->
                   (ok = true) ->
                   (match a, prev with AEvent 99 0, Some plog => l_out k2 = [] /\ l_log k2 = plog ++ [mkEv 99 0 []] | _, _ => True end) ->
                   C01_probes (a :: acts) (o :: os') prev = true).
    { intros k2 ok A B Cc Y _ Pr. unfold ltake_out in Y. inversion Y; subst o k'; clear Y. cbn [C01_probes].
      match goal with |- (?chk && _) = true => assert (Ck : chk = true) end.
      { destruct a; try reflexivity. destruct (Nat.eq_dec tg 99) as [->|N99].
        - destruct v; [|reflexivity]. destruct prev as [plog|]; [|reflexivity].
          destruct Pr as (Po & Pl). rewrite Po. cbn [map]. rewrite Pl. clear. induction (plog ++ [mkEv 99 0 []]) as [|x l IHl]; cbn; [reflexivity|]. rewrite event_eqb_refl. exact IHl.
        - (* not the probe tag *)
          do 99 (destruct tg as [|tg]; [reflexivity|]). destruct tg; [exfalso; apply N99; reflexivity | reflexivity]. }
      rewrite Ck. cbn [andb].
      apply (IH _ os' (Some (l_log k2)) E2). split; [|reflexivity].
      unfold lidle. cbn. auto. }
    destruct a; cbn [lstep] in E1;
      try (assert (Y : o = ONone) by congruence; apply Reset; rewrite Y; exact I).
    + (* AResolve *)
      destruct (find_lr tg v occ 0 (l_reqs k)) as [i|]; [|apply Keep; [congruence | assert (o = OResolve 3) by congruence; subst; exact I]].
      set (r := nth i (l_reqs k) (mkLR 0 0 0 0 true)) in *.
      destruct (lr_dropped r); [apply Keep; [congruence | assert (o = OResolve 3) by congruence; subst; exact I]|].
      destruct (lr_kind r) as [|[|[|n]]].
      * apply Keep; [congruence | assert (o = OCall 1 [] (l_log k)) by congruence; subst; exact I].
      * match type of E1 with match ?x with _ => _ end = _ => destruct x as [k2|] eqn:E3; [|discriminate] end.
        destruct (lprocess_spec _ _ _ _ E3) as (_ & _ & A & B & Cc).
        apply (Call k2 true A B Cc); [congruence | reflexivity | exact I].
      * destruct (lc_alive (gcell (lr_cell r) k)).
        -- match type of E1 with match ?x with _ => _ end = _ => destruct x as [k2|] eqn:E3; [|discriminate] end.
           destruct (lprocess_spec _ _ _ _ E3) as (_ & _ & A & B & Cc).
           apply (Call k2 true A B Cc); [congruence | reflexivity | exact I].
        -- apply Keep; [congruence | assert (o = OCall 2 [] (l_log k)) by congruence; subst; exact I].
      * apply Keep; [congruence | assert (o = OCall 1 [] (l_log k)) by congruence; subst; exact I].
    + (* ADropReq *)
      destruct (find_lr tg v occ 0 (l_reqs k)) as [i|]; [|apply Reset; assert (o = ONone) by congruence; subst; exact I].
      destruct (lr_dropped _); apply Reset; assert (o = ONone) by congruence; subst; exact I.
    + (* AEvent *)
      match type of E1 with match ?x with _ => _ end = _ => destruct x as [k2|] eqn:E3; [|discriminate] end.
      destruct (lprocess_spec _ _ _ _ E3) as (_ & _ & A & B & Cc).
      apply (Call k2 true A B Cc); [congruence | reflexivity|].
      destruct (Nat.eq_dec tg 99) as [->|N99]; [|do 99 (destruct tg as [|tg]; [exact I|]); destruct tg; [exfalso; apply N99; reflexivity | exact I]].
      destruct v; [|exact I]. destruct prev as [plog|]; [|exact I]. destruct Pv as ((Is & Ir & Ie & Io) & ->).
      (* a probe on an idle core: update spawns nothing, the executor has nothing to run *)
      assert (U : lupdate hs (mkEv 99 0 []) k = mkLK (l_cells k) (l_ent k) (l_next k) (l_spawn k) (l_ready k) (l_events k) (l_out k) (l_log k ++ [mkEv 99 0 []]) (l_reqs k)).
      { unfold lupdate. cbn [v_maps v_tag]. rewrite Hp. reflexivity. }
      rewrite U in E3. destruct LF_S as [n En]. rewrite En in E3.
      rewrite (lprocess_of_idle n hs (mkLK (l_cells k) (l_ent k) (l_next k) (l_spawn k) (l_ready k) (l_events k) (l_out k) (l_log k ++ [mkEv 99 0 []]) (l_reqs k)) Is Ir Ie) in E3. assert (k2 = mkLK (l_cells k) (l_ent k) (l_next k) (l_spawn k) (l_ready k) (l_events k) (l_out k) (l_log k ++ [mkEv 99 0 []]) (l_reqs k)) by congruence.
      subst k2. cbn [l_out l_log]. split; [exact Io | reflexivity].
    + (* ALive *)
      apply Keep; [congruence|]. inversion E1; subst. exact I.
Qed.
Corollary C01_ok_holds_of_legacy_model hs acts os : llookup 99 hs = [] ->
  under_legacy_core hs acts = Some os -> C01_probes acts os None = true.
Proof. intros Hp E. apply (lcrun_probes_ok hs Hp acts lcore0 os None E I). Qed.
