(* The frame principle again, closed under the ACTUAL primitive updates of a command record instead of under every
   "good" update: the hypotheses name the dozen shapes of update the runtime performs (queue pushes, slab updates,
   the cell, the clearing done by drop) and, separately, the two POPS of Stream::poll_next (which only ever take the
   first element off the event / effect queue).  Relations that say HOW a command's queues and task table may change
   (FIFO order of the output queues, "no task is ever added by dropping") can be instantiated here; Frame.v's
   instances (what never changes / only moves one way) follow from this one (prim_good). *)
From Coq Require Import List Arith Bool Lia.
From Crux Require Import Rt.Lang Rt.Rt Rt.Frame.
Import ListNotations.

Inductive prim : (cmdst -> cmdst) -> Prop :=
| p_ready_push s : prim (fun cm => set_ready (c_ready cm ++ [s]) cm)
| p_atomic a : prim (set_atomic a)
| p_spawnq_push t : prim (fun cm => set_spawnq (c_spawnq cm ++ [t]) cm)
| p_dropped : prim (fun cm => set_alive false (set_eff [] (set_evs [] (slab_clear (set_spawnq [] (set_ready [] cm))))))
| p_ev_push e : prim (fun cm => set_evs (c_evs cm ++ [e]) cm)
| p_eff_push e : prim (fun cm => set_eff (c_eff cm ++ [e]) cm)
| p_slab_clear : prim slab_clear
| p_spawnq_clear : prim (set_spawnq [])
| p_spawn_one t : prim (spawn_one t)
| p_slab_remove s : prim (slab_remove s)
| p_ready_set l : prim (set_ready l)
| p_slab_set s t : prim (slab_set s t).
Ltac solve_prim := first [ apply p_ready_push | apply p_atomic | apply p_spawnq_push | apply p_dropped | apply p_ev_push | apply p_eff_push
  | apply p_slab_clear | apply p_spawnq_clear | apply p_spawn_one | apply p_slab_remove | apply p_ready_set | apply p_slab_set ].

Lemma prim_good f : prim f -> good f.
Proof. intros P. destruct P; solve_good. Qed.

Section Frame2.
  Variable R : heap -> heap -> Prop.
  Hypothesis R_refl : forall H, R H H.
  Hypothesis R_trans : forall a b c, R a b -> R b c -> R a c.
  Hypothesis R_ucmd : forall c f H, prim f -> R H (ucmd c f H).
  (* taking the first element off a command's event / effect queue (Stream::poll_next hands it to the host) *)
  Hypothesis R_pop_ev : forall c e rest H, c_evs (gcmd c H) = e :: rest -> R H (ucmd c (set_evs rest) H).
  Hypothesis R_pop_eff : forall c e rest H, c_eff (gcmd c H) = e :: rest -> R H (ucmd c (set_eff rest) H).
  Hypothesis R_uch : forall c f H, goodch f -> R H (uch c f H).
  Hypothesis R_utf : forall u f H, goodtf f -> R H (utf u f H).
  Hypothesis R_note : forall n H, R H (note n H).
  Hypothesis R_set_woken : forall g H, R H (set_woken g H).
  Hypothesis R_push_xready : forall q H, R H (push_xready q H).
  Hypothesis R_add_chan : forall c H, R H (mkH (chans H ++ [c]) (tfl H) (cmds H) (woken H) (xready H) (aborted H) (log H) (hout H)).
  Hypothesis R_add_tflag : forall t H, R H (mkH (chans H) (tfl H ++ [t]) (cmds H) (woken H) (xready H) (aborted H) (log H) (hout H)).
  Hypothesis R_add_gen : forall H, R H (mkH (chans H) (tfl H) (cmds H) (woken H ++ [false]) (xready H) (aborted H) (log H) (hout H)).
  Hypothesis R_add_aborted : forall n H, R H (add_aborted n H).
  Hypothesis R_push_hout : forall e H, R H (push_hout e H).
  Hypothesis R_add_cmd : forall c H, R H (mkH (chans H) (tfl H) (cmds H ++ [c]) (woken H) (xready H) (aborted H) (log H) (hout H)).

  Lemma R_fold {A} (g : heap -> A -> heap) (l : list A) :
    (forall x H, R H (g H x)) -> forall H, R H (fold_left g l H).
  Proof.
    intros Hg. induction l as [|x l IH]; intros H; simpl; [apply R_refl|].
    eapply R_trans; [apply Hg | apply IH].
  Qed.

  Lemma R_wake : forall fuel w H, R H (wake fuel w H).
  Proof.
    induction fuel as [|f IH]; intros w H; unfold wake; fold wake;
      (destruct w as [c s g|q]; [|apply R_push_xready]);
      set (H1 := if c_alive (gcmd c H) then ucmd c (fun cm => set_ready (c_ready cm ++ [s]) cm) H else H);
      (assert (R1 : R H H1) by (subst H1; destruct (c_alive (gcmd c H)); [apply R_ucmd; solve_prim | apply R_refl]));
      (assert (R2 : R H (set_woken g H1)) by (eapply R_trans; [exact R1 | apply R_set_woken]));
      destruct (c_atomic (gcmd c (set_woken g H1))) as [w'|]; try (eapply R_trans; [exact R2 | apply R_note]).
    all: try exact R2.
    eapply R_trans; [exact R2|]. eapply R_trans; [|apply IH]. apply R_ucmd; solve_prim.
  Qed.

  Lemma R_wake_cell ch H : R H (wake_cell ch H).
  Proof.
    unfold wake_cell. destruct (ch_wk (gch ch H)); [|apply R_refl].
    eapply R_trans; [|apply R_wake]; apply R_uch; solve_goodch.
  Qed.
  Lemma R_chan_send ch v H : R H (snd (chan_send ch v H)).
  Proof.
    unfold chan_send. destruct (ch_rx (gch ch H)); simpl; [|apply R_note].
    eapply R_trans; [|apply R_wake_cell]; apply R_uch; solve_goodch.
  Qed.
  Lemma R_chan_drop_tx ch H : R H (chan_drop_tx ch H).
  Proof.
    unfold chan_drop_tx. destruct (ch_tx (gch ch H)); [|apply R_refl].
    eapply R_trans; [|apply R_wake_cell]; apply R_uch; solve_goodch.
  Qed.
  Lemma R_chan_drop_rx ch H : R H (chan_drop_rx ch H).
  Proof. unfold chan_drop_rx. apply R_uch; solve_goodch. Qed.
  Lemma R_chan_reg ch w H : R H (chan_reg ch w H).
  Proof. unfold chan_reg. apply R_uch; solve_goodch. Qed.
  Lemma R_drop_req e H : R H (drop_req e H).
  Proof. unfold drop_req. destruct (e_res e); [apply R_refl | apply R_chan_drop_tx | apply R_chan_drop_tx | apply R_refl]. Qed.
  Lemma R_kill_flag u H : R H (kill_flag u H).
  Proof. unfold kill_flag. apply R_utf; solve_goodtf. Qed.
  Lemma R_push_ev c e H : R H (push_ev c e H).
  Proof. unfold push_ev. apply R_ucmd; solve_prim. Qed.
  Lemma R_push_eff c e H : R H (push_eff c e H).
  Proof. unfold push_eff. apply R_ucmd; solve_prim. Qed.
  Lemma R_new_chan H ch H1 : new_chan H = (ch, H1) -> R H H1.
  Proof. unfold new_chan. intros E. inversion E; subst. apply R_add_chan. Qed.
  Lemma R_new_tflag H u H1 : new_tflag H = (u, H1) -> R H H1.
  Proof. unfold new_tflag. intros E. inversion E; subst. apply R_add_tflag. Qed.

  Lemma R_new_cmd names ep en m ex H cid H1 : new_cmd names ep en m ex H = (cid, H1) -> R H H1.
  Proof.
    unfold new_cmd, new_tflag. intros E. inversion E; subst; clear E.
    match goal with |- R H (fold_left ?g ex ?Hb) => eapply R_trans; [|apply (R_fold g)] end.
    - eapply R_trans; [apply R_add_tflag|].
      match goal with |- R ?H0 (mkH _ _ (_ ++ [?c]) _ _ _ _ _) => exact (R_add_cmd c H0) end.
    - intros t Hh. cbv beta iota.
      eapply R_trans; [apply R_add_tflag|]. apply R_ucmd; solve_prim.
  Qed.

  Lemma R_req_poll c w sent dead tg v ch H o s' d' H' :
    req_poll c w sent dead tg v ch H = (o, s', d', H') -> R H H'.
  Proof.
    unfold req_poll. destruct dead; [intros E; inversion E; subst; apply R_refl|].
    destruct (negb sent).
    - intros E; inversion E; subst. eapply R_trans; [apply R_chan_reg | apply R_push_eff].
    - destruct (ch_buf (gch ch H)).
      + destruct (ch_tx (gch ch H)); intros E; inversion E; subst.
        * apply R_chan_reg.
        * eapply R_trans; [apply R_chan_drop_rx | apply R_note].
      + intros E; inversion E; subst. apply R_chan_drop_rx.
  Qed.
  Lemma R_sub_poll c w q H q' H' : sub_poll c w q H = (q', H') -> R H H'.
  Proof.
    unfold sub_poll. destruct q as [sent dead tg v ch|m|sent tg v ch|u].
    - destruct (req_poll c w sent dead tg v ch H) as [[[o s'] d'] H1] eqn:E1. apply R_req_poll in E1.
      destruct o; intros E; inversion E; subst; exact E1.
    - intros E; inversion E; subst; apply R_refl.
    - set (H1 := if sent then H else push_hout (mkEff tg v [] (RLegacy ch)) H).
      assert (R1 : R H H1) by (subst H1; destruct sent; [apply R_refl | apply R_push_hout]).
      destruct (ch_buf (gch ch H1)); intros E; inversion E; subst.
      + eapply R_trans; [exact R1 | apply R_chan_reg].
      + eapply R_trans; [exact R1 | apply R_chan_drop_rx].
    - destruct (tf_fin (gtf u H)); [intros E; inversion E; subst; apply R_refl|].
      destruct (tf_alive (gtf u H)); intros E; inversion E; subst; [apply R_utf; solve_goodtf | apply R_note].
  Qed.
  Lemma R_sub_drop q H : R H (sub_drop q H).
  Proof. unfold sub_drop. destruct q as [sent dead tg v ch|m|sent tg v ch|u]; [|apply R_refl|apply R_chan_drop_rx|apply R_refl]. destruct dead; [apply R_refl | apply R_chan_drop_rx]. Qed.

  Lemma R_drop : forall fuel,
    (forall fs H, R H (drop_fs fuel fs H)) /\ (forall cid H, R H (drop_cmd fuel cid H)).
  Proof.
    induction fuel as [|f [IHfs IHcmd]]; split; intros; try apply R_refl.
    - unfold drop_fs; fold drop_fs; fold drop_cmd.
      match goal with |- R H (fold_left ?g ?l ?H1) => eapply R_trans; [|apply (R_fold g)] end.
      + destruct (f_leaf fs); try apply R_refl.
        * destruct dead; [apply R_refl | apply R_chan_drop_rx].
        * apply IHcmd.
        * apply R_chan_drop_rx.
        * eapply R_trans; apply R_sub_drop.
        * eapply R_trans; apply R_sub_drop.
      + intros fr Hh. apply R_chan_drop_rx.
    - unfold drop_cmd; fold drop_fs; fold drop_cmd.
      repeat match goal with |- R _ (fold_left ?g ?l ?H1) => eapply R_trans; [|apply (R_fold g)] end.
      + apply R_ucmd; solve_prim.
      + intros e Hh. apply R_drop_req.
      + intros t Hh. eapply R_trans; [apply IHfs | apply R_kill_flag].
      + intros e Hh. destruct e; [|apply R_refl]. eapply R_trans; [apply IHfs | apply R_kill_flag].
  Qed.
  Lemma R_drop_fs fuel fs H : R H (drop_fs fuel fs H).
  Proof. apply R_drop. Qed.
  Lemma R_drop_cmd fuel cid H : R H (drop_cmd fuel cid H).
  Proof. apply R_drop. Qed.
  Lemma R_finish_task cid s t H : R H (finish_task cid s t H).
  Proof.
    unfold finish_task. cbv zeta.
    eapply R_trans; [|apply R_kill_flag]. eapply R_trans; [|apply R_drop_fs].
    match goal with |- R _ (fold_left ?g ?l ?H1) => eapply R_trans; [|apply (R_fold g)] end.
    - apply (R_trans _ (ucmd cid (slab_remove s) H)); [apply R_ucmd; solve_prim | apply R_utf; solve_goodtf].
    - intros wk Hh. apply R_wake.
  Qed.

  (* solve R H (op1 (op2 ... H)) for explicit compositions of primitives *)
  Ltac primt :=
    first [ apply R_push_ev | apply R_push_eff | apply R_note | apply R_chan_reg
          | apply R_chan_drop_rx | apply R_chan_drop_tx | (apply R_uch; solve_goodch) | (apply R_utf; solve_goodtf) | apply R_wake
          | apply R_drop_cmd | apply R_drop_fs | apply R_sub_drop | apply R_kill_flag | apply R_set_woken | apply R_add_gen
          | (apply R_ucmd; solve_prim) ].
  (* R H (op1 (op2 (... H))): peel one primitive at a time from the outside *)
  Ltac rsolve :=
    first [ assumption | apply R_refl | primt
          | (eapply R_trans; [| solve [primt]]; rsolve) ].

  Definition spec (F : rtfuns) : Prop :=
    (forall c w fs H r H', rpoll F c w fs H = Some (r, H') -> R H H') /\
    (forall cid w H r H', rpoll_next F cid w H = Some (r, H') -> R H H') /\
    (forall cid H H', rsettle F cid H = Some H' -> R H H') /\
    (forall cid H H', rloop F cid H = Some H' -> R H H') /\
    (forall cid H H', rdrain F cid H = Some H' -> R H H') /\
    (forall cid s H r H', rrun_task F cid s H = Some (r, H') -> R H H').

  Lemma spec_funs0 : spec funs0.
  Proof. repeat split; simpl; intros; discriminate. Qed.

  Lemma spec_step : forall F, spec F -> spec (step_funs F).
  Proof.
    intros F (IHp & IHn & IHs & IHl & IHd & IHr).
    repeat split.
    - (* poll *)
      intros c w fs H r H' E. cbn [step_funs rpoll] in E. unfold poll_body in E.
      destruct (f_leaf fs) as [t|sent dead tg v ch x k| |u k|cid meff mev k|n k|lsent ltg lv lch lx k|qa qb x1 x2 k|qa qb x k] eqn:EL.
      + (* LRun *)
        destruct t.
        * destruct (f_stack fs); [inversion E; subst; apply R_refl | apply IHp in E; exact E].
        * apply IHp in E. eapply R_trans; [|exact E]. rsolve.
        * apply IHp in E. eapply R_trans; [|exact E]. rsolve.
        * destruct (new_chan H) as [ch H1] eqn:E1. apply R_new_chan in E1. apply IHp in E. eapply R_trans; eassumption.
        * destruct (new_chan H) as [ch H1] eqn:E1. apply R_new_chan in E1. apply IHp in E. eapply R_trans; eassumption.
        * destruct (new_tflag H) as [u H1] eqn:E1. apply R_new_tflag in E1. apply IHp in E.
          eapply R_trans; [exact E1|]. eapply R_trans; [|exact E]. rsolve.
        * apply IHp in E. exact E.
        * apply IHp in E. eapply R_trans; [|exact E]. rsolve.
        * apply IHp in E. exact E.
        * destruct (new_chan H) as [ch H1] eqn:E1. apply R_new_chan in E1. apply IHp in E. eapply R_trans; eassumption.
        * apply IHp in E. eapply R_trans; [apply R_add_aborted | exact E].
        * destruct (new_chan H) as [ch1 H1] eqn:E1. destruct (new_chan H1) as [ch2 H2] eqn:E2.
          apply R_new_chan in E1. apply R_new_chan in E2. apply IHp in E.
          eapply R_trans; [exact E1|]. eapply R_trans; eassumption.
        * destruct (new_chan H) as [ch1 H1] eqn:E1. destruct (new_chan H1) as [ch2 H2] eqn:E2.
          apply R_new_chan in E1. apply R_new_chan in E2. apply IHp in E.
          eapply R_trans; [exact E1|]. eapply R_trans; eassumption.
        * destruct (new_chan H) as [ch H1] eqn:E1. apply R_new_chan in E1. apply IHp in E. eapply R_trans; eassumption.
        * destruct (new_chan H) as [ch1 H1] eqn:E1. destruct (new_chan H1) as [ch2 H2] eqn:E2.
          apply R_new_chan in E1. apply R_new_chan in E2. apply IHp in E.
          eapply R_trans; [exact E1|]. eapply R_trans; eassumption.
        * destruct (new_cmd names (Some (c_epoch (gcmd c H))) (f_env fs) t1 extra H) as [cid H1] eqn:E1.
          apply R_new_cmd in E1. apply IHp in E. eapply R_trans; eassumption.
      + (* LReq *)
        destruct (req_poll c w sent dead tg v ch H) as [[[o s'] d'] H1] eqn:E1. apply R_req_poll in E1.
        destruct o.
        * apply IHp in E. eapply R_trans; eassumption.
        * inversion E; subst. exact E1.
      + (* LStr *)
        destruct (f_stack fs) as [|fr rest]; [inversion E; subst; apply R_refl|].
        destruct (negb (fr_sent fr)); [inversion E; subst; rsolve|].
        destruct (ch_buf (gch (fr_ch fr) H)).
        * destruct (ch_tx (gch (fr_ch fr) H)); [inversion E; subst; rsolve|].
          apply IHp in E. eapply R_trans; [|exact E]. rsolve.
        * apply IHp in E. eapply R_trans; [|exact E]. rsolve.
      + (* LJoin *)
        destruct (tf_fin (gtf u H)); [apply IHp in E; exact E|].
        destruct (tf_alive (gtf u H)); [inversion E; subst; rsolve|].
        apply IHp in E. eapply R_trans; [|exact E]. rsolve.
      + (* LHost *)
        destruct (rpoll_next F cid w H) as [[rr H1]|] eqn:E1; [|discriminate].
        apply IHn in E1.
        destruct rr.
        * inversion E; subst. exact E1.
        * apply IHp in E. eapply R_trans; [exact E1|]. eapply R_trans; [|exact E]. rsolve.
        * apply IHp in E. eapply R_trans; [exact E1|]. eapply R_trans; [|exact E]. rsolve.
        * apply IHp in E. eapply R_trans; [exact E1|]. eapply R_trans; [|exact E]. rsolve.
      + (* LYield *)
        destruct n; [apply IHp in E; exact E|]. inversion E; subst. rsolve.
      + (* LLeg *)
        set (H1 := if lsent then H else push_hout (mkEff ltg lv [] (RLegacy lch)) H) in *.
        assert (R1 : R H H1) by (subst H1; destruct lsent; [apply R_refl | apply R_push_hout]).
        destruct (ch_buf (gch lch H1)).
        * inversion E; subst. eapply R_trans; [exact R1 | apply R_chan_reg].
        * apply IHp in E. eapply R_trans; [exact R1|]. eapply R_trans; [apply R_chan_drop_rx | exact E].
      + (* LBoth *)
        destruct (sub_poll c w qa H) as [a' H1] eqn:E1. destruct (sub_poll c w qb H1) as [b' H2] eqn:E2.
        apply R_sub_poll in E1. apply R_sub_poll in E2.
        assert (R02 : R H H2) by (eapply R_trans; eassumption).
        destruct a'; try (inversion E; subst; exact R02).
        destruct b'; try (inversion E; subst; exact R02).
        apply IHp in E. eapply R_trans; eassumption.
      + (* LRace *)
        destruct (sub_poll c w qa H) as [a' H1] eqn:E1. apply R_sub_poll in E1.
        destruct a'.
        * destruct (sub_poll c w qb H1) as [b' H2] eqn:E2. apply R_sub_poll in E2.
          destruct b'; try (inversion E; subst; eapply R_trans; eassumption).
          apply IHp in E. eapply R_trans; [exact E1|]. eapply R_trans; [exact E2|]. eapply R_trans; [|exact E]. apply R_sub_drop.
        * apply IHp in E. eapply R_trans; [exact E1|]. eapply R_trans; [|exact E]. apply R_sub_drop.
        * destruct (sub_poll c w qb H1) as [b' H2] eqn:E2. apply R_sub_poll in E2.
          destruct b'; try (inversion E; subst; eapply R_trans; eassumption).
          apply IHp in E. eapply R_trans; [exact E1|]. eapply R_trans; [exact E2|]. eapply R_trans; [|exact E]. apply R_sub_drop.
        * destruct (sub_poll c w qb H1) as [b' H2] eqn:E2. apply R_sub_poll in E2.
          destruct b'; try (inversion E; subst; eapply R_trans; eassumption).
          apply IHp in E. eapply R_trans; [exact E1|]. eapply R_trans; [exact E2|]. eapply R_trans; [|exact E]. apply R_sub_drop.
    - (* poll_next *)
      intros cid w H r H' E. cbn [step_funs rpoll_next] in E. unfold poll_next_body in E.
      destruct (rsettle F cid (ucmd cid (set_atomic (Some w)) H)) as [H1|] eqn:E1; [|discriminate].
      apply IHs in E1.
      assert (R0 : R H H1) by (eapply R_trans; [|exact E1]; rsolve).
      destruct (c_evs (gcmd cid H1)) as [|ev evs] eqn:EV.
      * destruct (c_eff (gcmd cid H1)) as [|ef efs] eqn:EF.
        -- destruct (rsettle F cid H1) as [H2|] eqn:E2; [|discriminate].
           apply IHs in E2. assert (R2 : R H H2) by (eapply R_trans; eassumption).
           destruct (c_eff (gcmd cid H2)); [destruct (c_evs (gcmd cid H2)); [destruct (c_len (gcmd cid H2) =? 0)|]|];
             inversion E; subst; exact R2.
        -- inversion E; subst. eapply R_trans; [exact R0|]. eapply R_pop_eff; exact EF.
      * inversion E; subst. eapply R_trans; [exact R0|]. eapply R_pop_ev; exact EV.
    - (* settle *)
      intros cid H H' E. cbn [step_funs rsettle] in E. unfold settle_body in E.
      destruct (was_aborted cid H).
      + inversion E; subst; clear E.
        eapply R_trans; [|apply R_note].
        match goal with |- R H (fold_left ?g ?l ?H1) => eapply R_trans; [|apply (R_fold g)] end.
        * rsolve.
        * intros e Hh. destruct e; [|apply R_refl]. rsolve.
      + apply IHl in E. exact E.
    - (* loop *)
      intros cid H H' E. cbn [step_funs rloop] in E. unfold loop_body in E.
      match type of E with context[fold_left ?g ?l ?H0] => assert (R1 : R H (fold_left g l H0)) end.
      { match goal with |- R H (fold_left ?g ?l ?H0) => eapply R_trans; [|apply (R_fold g)] end.
        - rsolve.
        - intros t Hh. rsolve. }
      match type of E with context[fold_left ?g ?l ?H0] => set (H1 := fold_left g l H0) in * end.
      destruct (c_ready (gcmd cid H1)); [inversion E; subst; exact R1|].
      destruct (rdrain F cid H1) as [H2|] eqn:E2; [|discriminate].
      apply IHd in E2. apply IHl in E. eapply R_trans; [exact R1|]. eapply R_trans; eassumption.
    - (* drain *)
      intros cid H H' E. cbn [step_funs rdrain] in E. unfold drain_body in E.
      destruct (c_ready (gcmd cid H)) as [|s rest]; [inversion E; subst; apply R_refl|].
      destruct (rrun_task F cid s (ucmd cid (set_ready rest) H)) as [[st H2]|] eqn:E2; [|discriminate].
      apply IHr in E2. apply IHd in E.
      eapply R_trans; [|exact E].
      eapply R_trans; [|]. { eapply R_trans; [|exact E2]. rsolve. }
      destruct st; try apply R_refl; (destruct (slab_get s (gcmd cid H2)) as [t|]; [apply R_finish_task | apply R_refl]).
    - (* run_task *)
      intros cid s H r H' E. cbn [step_funs rrun_task] in E. unfold run_task_body in E.
      destruct (slab_get s (gcmd cid H)) as [t|]; [|inversion E; subst; apply R_note].
      match type of E with (if ?b then _ else _) = _ => destruct b end; [inversion E; subst; apply R_note|].
      match type of E with context[rpoll F cid ?w ?fs ?H1] => destruct (rpoll F cid w fs H1) as [[pr H2]|] eqn:E2; [|discriminate] end.
      apply IHp in E2.
      assert (R0 : R H H2) by (eapply R_trans; [|exact E2]; apply R_add_gen).
      destruct pr.
      + match type of E with context[if ?b then _ else _] => destruct b end; inversion E; subst.
        * eapply R_trans; [exact R0|]. rsolve.
        * eapply R_trans; [exact R0|]. rsolve.
      + inversion E; subst. eapply R_trans; [exact R0|]. rsolve.
  Qed.

  Theorem frame_all : forall fuel, spec (funs fuel).
  Proof. induction fuel as [|f IH]; [apply spec_funs0 | apply spec_step; exact IH]. Qed.

  Lemma frame_settle fuel cid H H' : settle fuel cid H = Some H' -> R H H'.
  Proof. apply (frame_all fuel). Qed.
  Lemma frame_loop fuel cid H H' : settle_loop fuel cid H = Some H' -> R H H'.
  Proof. apply (frame_all fuel). Qed.
  Lemma frame_poll_next fuel cid w H r H' : poll_next fuel cid w H = Some (r, H') -> R H H'.
  Proof. apply (frame_all fuel). Qed.
  Lemma frame_poll fuel c w fs H r H' : poll fuel c w fs H = Some (r, H') -> R H H'.
  Proof. apply (frame_all fuel). Qed.
  Lemma frame_drain fuel cid H H' : drain fuel cid H = Some H' -> R H H'.
  Proof. apply (frame_all fuel). Qed.
  Lemma frame_run_task fuel cid s H r H' : run_task fuel cid s H = Some (r, H') -> R H H'.
  Proof. apply (frame_all fuel). Qed.
End Frame2.
