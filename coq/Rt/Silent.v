(* Cancellation is final and silent (C06), at every nesting level: once a command X is aborted, no
   step of the runtime - on any command, its host, its nested commands, or X itself - ever adds an
   effect or an event to X's output queues; they can only be emptied (taken by the host, or dropped).
   Proved for every fuel and every heap, with no well-formedness assumption on the heap. *)
From Coq Require Import List Arith Bool Lia.
From Crux Require Import Rt.Lang Rt.Rt Rt.Tables Rt.Frame Rt.Props.
Import ListNotations.

Definition is_suffix {A} (l' l : list A) : Prop := exists pre, l = pre ++ l'.
Lemma suffix_refl {A} (l : list A) : is_suffix l l. Proof. exists []. reflexivity. Qed.
Lemma suffix_trans {A} (a b c : list A) : is_suffix b a -> is_suffix c b -> is_suffix c a.
Proof. intros [p1 ->] [p2 ->]. exists (p1 ++ p2). rewrite app_assoc. reflexivity. Qed.
Lemma suffix_nil {A} (l : list A) : is_suffix [] l. Proof. exists l. rewrite app_nil_r. reflexivity. Qed.
Lemma suffix_tl {A} (x : A) (l : list A) : is_suffix l (x :: l). Proof. exists [x]. reflexivity. Qed.

Lemma rm_new_chan H ch H1 : new_chan H = (ch, H1) -> Rmeta H H1.
Proof. unfold new_chan; intros E; inversion E; subst; apply Rmeta_same_cmds; reflexivity. Qed.
Lemma rm_new_tflag H u H1 : new_tflag H = (u, H1) -> Rmeta H H1.
Proof. unfold new_tflag; intros E; inversion E; subst; apply Rmeta_same_cmds; reflexivity. Qed.

Lemma rm_note n H : Rmeta H (note n H).
Proof. apply Rmeta_same_cmds; reflexivity. Qed.

Section Silent.
  Variable X : nat.
  Definition outs (H : heap) := (c_eff (gcmd X H), c_evs (gcmd X H)).
  Definition suffX (H H' : heap) : Prop :=
    is_suffix (c_eff (gcmd X H')) (c_eff (gcmd X H)) /\ is_suffix (c_evs (gcmd X H')) (c_evs (gcmd X H)).
  Lemma sx_refl H : suffX H H. Proof. split; apply suffix_refl. Qed.
  Lemma sx_trans a b c : suffX a b -> suffX b c -> suffX a c.
  Proof. intros [A1 A2] [B1 B2]. split; eapply suffix_trans; eassumption. Qed.
  Lemma sx_same H H' : cmds H' = cmds H -> suffX H H'.
  Proof. intros E. unfold suffX, gcmd. rewrite E. split; apply suffix_refl. Qed.
  Lemma sx_note n H : suffX H (note n H). Proof. apply sx_same; reflexivity. Qed.
  Lemma sx_ucmd_other c f H : c <> X -> suffX H (ucmd c f H).
  Proof. intros Hne. unfold suffX. rewrite gcmd_ucmd_other by exact Hne. split; apply suffix_refl. Qed.
  Lemma sx_ucmd_keep c f H : (forall cm, c_eff (f cm) = c_eff cm /\ c_evs (f cm) = c_evs cm) -> suffX H (ucmd c f H).
  Proof.
    intros Hf. destruct (Nat.eq_dec c X) as [->|Hne]; [|apply sx_ucmd_other; exact Hne].
    unfold suffX. rewrite gcmd_ucmd_same. destruct (Hf (gcmd X H)) as [-> ->]. split; apply suffix_refl.
  Qed.
  Lemma sx_ucmd_shrink c f H :
    (forall cm, is_suffix (c_eff (f cm)) (c_eff cm) /\ is_suffix (c_evs (f cm)) (c_evs cm)) -> suffX H (ucmd c f H).
  Proof.
    intros Hf. destruct (Nat.eq_dec c X) as [->|Hne]; [|apply sx_ucmd_other; exact Hne].
    unfold suffX. rewrite gcmd_ucmd_same. apply Hf.
  Qed.
  Ltac keep := apply sx_ucmd_keep; intros cm; destruct cm; simpl;
    repeat match goal with |- context[if ?b then _ else _] => destruct b end; split; reflexivity.
  Lemma sx_pop_eff cid e rest H : c_eff (gcmd cid H) = e :: rest -> suffX H (ucmd cid (set_eff rest) H).
  Proof.
    intros E. unfold suffX. destruct (Nat.eq_dec cid X) as [->|Hn].
    - rewrite gcmd_ucmd_same. destruct (gcmd X H); simpl in *. subst. split; [apply suffix_tl | apply suffix_refl].
    - rewrite gcmd_ucmd_other by exact Hn. split; apply suffix_refl.
  Qed.
  Lemma sx_pop_ev cid e rest H : c_evs (gcmd cid H) = e :: rest -> suffX H (ucmd cid (set_evs rest) H).
  Proof.
    intros E. unfold suffX. destruct (Nat.eq_dec cid X) as [->|Hn].
    - rewrite gcmd_ucmd_same. destruct (gcmd X H); simpl in *. subst. split; [apply suffix_refl | apply suffix_tl].
    - rewrite gcmd_ucmd_other by exact Hn. split; apply suffix_refl.
  Qed.
  Lemma sx_fold {A} (g : heap -> A -> heap) (l : list A) :
    (forall x H, suffX H (g H x)) -> forall H, suffX H (fold_left g l H).
  Proof. intros Hg. induction l as [|x l IH]; intros H; simpl; [apply sx_refl|]. eapply sx_trans; [apply Hg | apply IH]. Qed.

  (* ---- part A: wakes, channels, drop glue never add an output anywhere ---- *)
  Lemma sx_wake : forall fuel w H, suffX H (wake fuel w H).
  Proof.
    induction fuel as [|f IH]; intros w H; unfold wake; fold wake;
      (destruct w as [c s g|q]; [|apply sx_same; reflexivity]);
      set (H1 := if c_alive (gcmd c H) then ucmd c (fun cm => set_ready (c_ready cm ++ [s]) cm) H else H);
      (assert (R1 : suffX H H1) by (subst H1; destruct (c_alive (gcmd c H)); [keep | apply sx_refl]));
      (assert (R2 : suffX H (set_woken g H1)) by (eapply sx_trans; [exact R1 | apply sx_same; reflexivity]));
      destruct (c_atomic (gcmd c (set_woken g H1))) as [w'|]; try (eapply sx_trans; [exact R2|]; apply sx_same; reflexivity).
    all: try exact R2.
    eapply sx_trans; [exact R2|]. eapply sx_trans; [|apply IH]. keep.
  Qed.
  Lemma sx_wake_cell ch H : suffX H (wake_cell ch H).
  Proof. unfold wake_cell. destruct (ch_wk (gch ch H)); [|apply sx_refl]. eapply sx_trans; [|apply sx_wake]. apply sx_same; reflexivity. Qed.
  Lemma sx_chan_send ch v H : suffX H (snd (chan_send ch v H)).
  Proof. unfold chan_send. destruct (ch_rx (gch ch H)); simpl; [|apply sx_same; reflexivity]. eapply sx_trans; [|apply sx_wake_cell]. apply sx_same; reflexivity. Qed.
  Lemma sx_chan_drop_tx ch H : suffX H (chan_drop_tx ch H).
  Proof. unfold chan_drop_tx. destruct (ch_tx (gch ch H)); [|apply sx_refl]. eapply sx_trans; [|apply sx_wake_cell]. apply sx_same; reflexivity. Qed.
  Lemma sx_chan_drop_rx ch H : suffX H (chan_drop_rx ch H). Proof. apply sx_same; reflexivity. Qed.
  Lemma sx_chan_reg ch w H : suffX H (chan_reg ch w H). Proof. apply sx_same; reflexivity. Qed.
  Lemma sx_drop_req e H : suffX H (drop_req e H).
  Proof. unfold drop_req. destruct (e_res e); [apply sx_refl | apply sx_chan_drop_tx | apply sx_chan_drop_tx | apply sx_refl]. Qed.
  Lemma sx_kill_flag u H : suffX H (kill_flag u H). Proof. apply sx_same; reflexivity. Qed.
  Lemma sx_sub_drop q H : suffX H (sub_drop q H).
  Proof. unfold sub_drop. destruct q as [s d tg v ch|m|s tg v ch|u]; [|apply sx_refl|apply sx_chan_drop_rx|apply sx_refl]. destruct d; [apply sx_refl | apply sx_chan_drop_rx]. Qed.
  Lemma sx_drop : forall fuel,
    (forall fs H, suffX H (drop_fs fuel fs H)) /\ (forall cid H, suffX H (drop_cmd fuel cid H)).
  Proof.
    induction fuel as [|f [IHfs IHcmd]]; split; intros; try apply sx_refl.
    - unfold drop_fs; fold drop_fs; fold drop_cmd.
      match goal with |- suffX H (fold_left ?g ?l ?H1) => eapply sx_trans; [|apply (sx_fold g)] end.
      + destruct (f_leaf fs); try apply sx_refl.
        * destruct dead; [apply sx_refl | apply sx_chan_drop_rx].
        * apply IHcmd.
        * apply sx_chan_drop_rx.
        * eapply sx_trans; apply sx_sub_drop.
        * eapply sx_trans; apply sx_sub_drop.
      + intros fr Hh. apply sx_chan_drop_rx.
    - unfold drop_cmd; fold drop_fs; fold drop_cmd.
      repeat match goal with |- suffX _ (fold_left ?g ?l ?H1) => eapply sx_trans; [|apply (sx_fold g)] end.
      + apply sx_ucmd_shrink. intros cm; destruct cm; simpl. split; apply suffix_nil.
      + intros e Hh. apply sx_drop_req.
      + intros t Hh. eapply sx_trans; [apply IHfs | apply sx_kill_flag].
      + intros e Hh. destruct e; [|apply sx_refl]. eapply sx_trans; [apply IHfs | apply sx_kill_flag].
  Qed.
  Lemma sx_drop_fs fuel fs H : suffX H (drop_fs fuel fs H). Proof. apply sx_drop. Qed.
  Lemma sx_drop_cmd fuel cid H : suffX H (drop_cmd fuel cid H). Proof. apply sx_drop. Qed.

  Lemma sx_finish_task cid s t H : cid <> X -> suffX H (finish_task cid s t H).
  Proof.
    intros Hne. unfold finish_task. cbv zeta.
    eapply sx_trans; [|apply sx_kill_flag]. eapply sx_trans; [|apply sx_drop_fs].
    match goal with |- suffX _ (fold_left ?g ?l ?Hx) => eapply sx_trans; [|apply (sx_fold g)] end.
    - apply (sx_trans _ (ucmd cid (slab_remove s) H)); [apply sx_ucmd_other; exact Hne | apply sx_same; reflexivity].
    - intros wk Hh. apply sx_wake.
  Qed.

  (* appending a fresh command or flag changes no existing queue; a new command starts with none *)
  Lemma gcmd_app_new H c : c_eff c = [] -> c_evs c = [] ->
    c_eff (getd cmd0 X (cmds H ++ [c])) = c_eff (gcmd X H) /\ c_evs (getd cmd0 X (cmds H ++ [c])) = c_evs (gcmd X H).
  Proof.
    intros E1 E2. unfold gcmd, getd. destruct (Nat.lt_ge_cases X (length (cmds H))) as [L|L].
    - rewrite app_nth1 by exact L. split; reflexivity.
    - rewrite (nth_overflow (cmds H)) by exact L.
      destruct (Nat.eq_dec X (length (cmds H))) as [->|Hne].
      + rewrite app_nth2 by lia. rewrite Nat.sub_diag. simpl. rewrite E1, E2. split; reflexivity.
      + rewrite nth_overflow by (rewrite app_length; simpl; lia). split; reflexivity.
  Qed.
  Lemma sx_new_tflag H u H1 : new_tflag H = (u, H1) -> suffX H H1.
  Proof. unfold new_tflag. intros E; inversion E; subst. apply sx_same; reflexivity. Qed.
  Lemma sx_new_chan H ch H1 : new_chan H = (ch, H1) -> suffX H H1.
  Proof. unfold new_chan. intros E; inversion E; subst. apply sx_same; reflexivity. Qed.
  Lemma sx_new_cmd names ep en m ex H cid H1 : new_cmd names ep en m ex H = (cid, H1) -> suffX H H1.
  Proof.
    unfold new_cmd, new_tflag. intros E. inversion E; subst; clear E.
    match goal with |- suffX H (fold_left ?g ex ?Hb) => eapply sx_trans; [|apply (sx_fold g)] end.
    - unfold suffX. simpl.
      match goal with |- context[cmds H ++ [?c]] => destruct (gcmd_app_new H c eq_refl eq_refl) as [E1 E2] end.
      unfold gcmd at 1 3. simpl. rewrite E1, E2. split; apply suffix_refl.
    - intros t Hh. cbv beta iota. eapply sx_trans; [|keep]. apply sx_same; reflexivity.
  Qed.
  Lemma sx_req_poll c w sent dead tg v ch H o s' d' H' :
    c <> X -> req_poll c w sent dead tg v ch H = (o, s', d', H') -> suffX H H'.
  Proof.
    intros Hne. unfold req_poll. destruct dead; [intros E; inversion E; subst; apply sx_refl|].
    destruct (negb sent).
    - intros E; inversion E; subst. apply (sx_trans _ (chan_reg ch w H)); [apply sx_chan_reg | unfold push_eff; apply sx_ucmd_other; exact Hne].
    - destruct (ch_buf (gch ch H)).
      + destruct (ch_tx (gch ch H)); intros E; inversion E; subst; [apply sx_chan_reg|].
        apply (sx_trans _ (chan_drop_rx ch H)); [apply sx_chan_drop_rx | apply sx_same; reflexivity].
      + intros E; inversion E; subst. apply sx_chan_drop_rx.
  Qed.
  Lemma sx_sub_poll c w q H q' H' : c <> X -> sub_poll c w q H = (q', H') -> suffX H H'.
  Proof.
    intros Hne. unfold sub_poll. destruct q as [sent dead tg v ch|m|sent tg v ch|u].
    - destruct (req_poll c w sent dead tg v ch H) as [[[o s'] d'] H1] eqn:E1. apply (sx_req_poll _ _ _ _ _ _ _ _ _ _ _ _ Hne) in E1.
      destruct o; intros E; inversion E; subst; exact E1.
    - intros E; inversion E; subst; apply sx_refl.
    - set (H1 := if sent then H else push_hout (mkEff tg v [] (RLegacy ch)) H).
      assert (S1 : suffX H H1) by (subst H1; destruct sent; [apply sx_refl | apply sx_same; reflexivity]).
      destruct (ch_buf (gch ch H1)); intros E; inversion E; subst.
      + eapply sx_trans; [exact S1 | apply sx_chan_reg].
      + eapply sx_trans; [exact S1 | apply sx_chan_drop_rx].
    - destruct (tf_fin (gtf u H)); [intros E; inversion E; subst; apply sx_refl|].
      destruct (tf_alive (gtf u H)); intros E; inversion E; subst; [apply sx_same; reflexivity | apply sx_note].
  Qed.

  (* ---- part B: the five runtime functions, while X is aborted ---- *)
  Definition ab (H : heap) : Prop := X < length (cmds H) /\ was_aborted X H = true.
  Lemma ab_step H H' : ab H -> Rmeta H H' -> ab H'.
  Proof. intros [L A] R. split; [destruct R as (_ & L' & _); lia | eapply was_aborted_mono; eauto]. Qed.

  Definition specS (F : rtfuns) : Prop :=
    (forall c w fs H r H', c <> X -> ab H -> rpoll F c w fs H = Some (r, H') -> suffX H H') /\
    (forall cid w H r H', ab H -> rpoll_next F cid w H = Some (r, H') -> suffX H H') /\
    (forall cid H H', ab H -> rsettle F cid H = Some H' -> suffX H H') /\
    (forall cid H H', cid <> X -> ab H -> rloop F cid H = Some H' -> suffX H H') /\
    (forall cid H H', cid <> X -> ab H -> rdrain F cid H = Some H' -> suffX H H') /\
    (forall cid s H r H', cid <> X -> ab H -> rrun_task F cid s H = Some (r, H') -> suffX H H').

  Lemma specS0 : specS funs0.
  Proof. unfold specS. split; [|split; [|split; [|split; [|split]]]]; simpl; intros; discriminate. Qed.

  (* Rmeta of one whole sub-call, used to carry [ab] to the intermediate heaps *)
  Variable F : rtfuns.
  Hypothesis FM : spec Rmeta F.

  (* E : call ... H1 = Some (.., H').  suffX H H1 by tacS, Rmeta H H1 by tacM, the rest by the IH *)
  Ltac go_ih IH Hne E A tacM tacS :=
    match type of E with ?f ?H1 = _ =>
      apply (sx_trans _ H1); [ tacS | eapply IH; [exact Hne | eapply ab_step; [exact A | tacM] | exact E] ]
    end.
  Ltac push_other Hne := first [ unfold push_ev; apply sx_ucmd_other; exact Hne | unfold push_eff; apply sx_ucmd_other; exact Hne ].

  Lemma specS_step : specS F -> specS (step_funs F).
  Proof.
    destruct FM as (Mp & Mn & Ms & Ml & Md & Mr).
    intros (IHp & IHn & IHs & IHl & IHd & IHr).
    unfold specS. split; [|split; [|split; [|split; [|split]]]].
    - (* poll *)
      intros c w fs H r H' Hne A E. cbn [step_funs rpoll] in E. unfold poll_body in E.
      destruct (f_leaf fs) as [t|sent dead tg v ch x k| |u k|cid meff mev k|n k|lsent ltg lv lch lx k|qa qb x1 x2 k|qa qb x k] eqn:EL.
      + destruct t.
        * destruct (f_stack fs); [inversion E; subst; apply sx_refl | eapply IHp; eauto].
        * go_ih IHp Hne E A ltac:(apply Rmeta_ucmd; solve_good) ltac:(push_other Hne).
        * go_ih IHp Hne E A ltac:(apply Rmeta_ucmd; solve_good) ltac:(push_other Hne).
        * destruct (new_chan H) as [ch H1] eqn:E1.
          go_ih IHp Hne E A ltac:(eapply rm_new_chan; exact E1) ltac:(eapply sx_new_chan; exact E1).
        * destruct (new_chan H) as [ch H1] eqn:E1.
          go_ih IHp Hne E A ltac:(eapply rm_new_chan; exact E1) ltac:(eapply sx_new_chan; exact E1).
        * destruct (new_tflag H) as [u H1] eqn:E1.
          assert (M1 : Rmeta H H1) by (eapply rm_new_tflag; exact E1).
          go_ih IHp Hne E A ltac:(eapply Rmeta_trans; [exact M1 | apply Rmeta_ucmd; solve_good])
                ltac:(eapply sx_trans; [eapply sx_new_tflag; exact E1 | apply sx_ucmd_keep; intros cm; destruct cm; simpl; split; reflexivity]).
        * eapply IHp; eauto.
        * go_ih IHp Hne E A ltac:(apply Rmeta_same_cmds; reflexivity) ltac:(apply sx_same; reflexivity).
        * eapply IHp; eauto.
        * destruct (new_chan H) as [ch H1] eqn:E1.
          go_ih IHp Hne E A ltac:(eapply rm_new_chan; exact E1) ltac:(eapply sx_new_chan; exact E1).
        * go_ih IHp Hne E A ltac:(apply Rmeta_add_aborted) ltac:(apply sx_same; reflexivity).
        * destruct (new_chan H) as [ch1 H1] eqn:E1. destruct (new_chan H1) as [ch2 H2] eqn:E2.
          go_ih IHp Hne E A ltac:(eapply Rmeta_trans; [eapply rm_new_chan; exact E1 | eapply rm_new_chan; exact E2])
                ltac:(eapply sx_trans; [eapply sx_new_chan; exact E1 | eapply sx_new_chan; exact E2]).
        * destruct (new_chan H) as [ch1 H1] eqn:E1. destruct (new_chan H1) as [ch2 H2] eqn:E2.
          go_ih IHp Hne E A ltac:(eapply Rmeta_trans; [eapply rm_new_chan; exact E1 | eapply rm_new_chan; exact E2])
                ltac:(eapply sx_trans; [eapply sx_new_chan; exact E1 | eapply sx_new_chan; exact E2]).
        * destruct (new_chan H) as [ch H1] eqn:E1.
          go_ih IHp Hne E A ltac:(eapply rm_new_chan; exact E1) ltac:(eapply sx_new_chan; exact E1).
        * destruct (new_chan H) as [ch1 H1] eqn:E1. destruct (new_chan H1) as [ch2 H2] eqn:E2.
          go_ih IHp Hne E A ltac:(eapply Rmeta_trans; [eapply rm_new_chan; exact E1 | eapply rm_new_chan; exact E2])
                ltac:(eapply sx_trans; [eapply sx_new_chan; exact E1 | eapply sx_new_chan; exact E2]).
        * destruct (new_cmd _ _ _ _ _ _) as [cid H1] eqn:E1.
          go_ih IHp Hne E A ltac:(eapply (R_new_cmd Rmeta Rmeta_refl Rmeta_trans Rmeta_ucmd); [intros; apply Rmeta_same_cmds; reflexivity | apply Rmeta_add_cmd | exact E1])
                ltac:(eapply sx_new_cmd; exact E1).
      + (* LReq *)
        destruct (req_poll c w sent dead tg v ch H) as [[[o s'] d'] H1] eqn:E1.
        pose proof (sx_req_poll _ _ _ _ _ _ _ _ _ _ _ _ Hne E1) as S1.
        assert (M1 : Rmeta H H1).
        { eapply (R_req_poll Rmeta Rmeta_refl Rmeta_trans Rmeta_ucmd); [intros; apply Rmeta_same_cmds; reflexivity | intros; apply Rmeta_same_cmds; reflexivity | exact E1]. }
        destruct o; [|inversion E; subst; exact S1].
        go_ih IHp Hne E A ltac:(exact M1) ltac:(exact S1).
      + (* LStr *)
        destruct (f_stack fs) as [|fr rest]; [inversion E; subst; apply sx_refl|].
        destruct (negb (fr_sent fr)).
        * inversion E; subst. eapply sx_trans; [apply sx_chan_reg | push_other Hne].
        * destruct (ch_buf (gch (fr_ch fr) H)).
          -- destruct (ch_tx (gch (fr_ch fr) H)); [inversion E; subst; apply sx_chan_reg|].
             go_ih IHp Hne E A ltac:(apply Rmeta_same_cmds; reflexivity) ltac:(apply sx_same; reflexivity).
          -- go_ih IHp Hne E A ltac:(apply Rmeta_same_cmds; reflexivity) ltac:(apply sx_same; reflexivity).
      + (* LJoin *)
        destruct (tf_fin (gtf u H)); [eapply IHp; eauto|].
        destruct (tf_alive (gtf u H)); [inversion E; subst; apply sx_same; reflexivity|].
        go_ih IHp Hne E A ltac:(apply Rmeta_same_cmds; reflexivity) ltac:(apply sx_same; reflexivity).
      + (* LHost *)
        destruct (rpoll_next F cid w H) as [[rr H1]|] eqn:E1; [|discriminate].
        pose proof (IHn _ _ _ _ _ A E1) as S1. pose proof (Mn _ _ _ _ _ E1) as M1.
        destruct rr.
        * inversion E; subst. exact S1.
        * go_ih IHp Hne E A ltac:(eapply Rmeta_trans; [exact M1|]; apply (Rmeta_trans _ (drop_cmd (dfuel H1) cid H1)); [apply (R_drop_cmd Rmeta Rmeta_refl Rmeta_trans Rmeta_ucmd); intros; apply Rmeta_same_cmds; reflexivity | apply rm_note])
                ltac:(eapply sx_trans; [exact S1|]; apply (sx_trans _ (drop_cmd (dfuel H1) cid H1)); [apply sx_drop_cmd | apply sx_note]).
        * go_ih IHp Hne E A ltac:(eapply Rmeta_trans; [exact M1 | apply Rmeta_ucmd; solve_good]) ltac:(eapply sx_trans; [exact S1 | push_other Hne]).
        * go_ih IHp Hne E A ltac:(eapply Rmeta_trans; [exact M1 | apply Rmeta_ucmd; solve_good]) ltac:(eapply sx_trans; [exact S1 | push_other Hne]).
      + (* LYield *)
        destruct n; [eapply IHp; eauto|]. inversion E; subst. apply sx_wake.
      + (* LLeg *)
        set (H1 := if lsent then H else push_hout (mkEff ltg lv [] (RLegacy lch)) H) in *.
        assert (S1 : suffX H H1) by (subst H1; destruct lsent; [apply sx_refl | apply sx_same; reflexivity]).
        assert (M1 : Rmeta H H1) by (subst H1; destruct lsent; [apply Rmeta_refl | apply Rmeta_same_cmds; reflexivity]).
        destruct (ch_buf (gch lch H1)).
        * inversion E; subst. eapply sx_trans; [exact S1 | apply sx_chan_reg].
        * go_ih IHp Hne E A ltac:(eapply Rmeta_trans; [exact M1 | apply Rmeta_same_cmds; reflexivity]) ltac:(eapply sx_trans; [exact S1 | apply sx_chan_drop_rx]).
      + (* LBoth *)
        destruct (sub_poll c w qa H) as [a' H1] eqn:E1. destruct (sub_poll c w qb H1) as [b' H2] eqn:E2.
        pose proof (sx_sub_poll _ _ _ _ _ _ Hne E1) as S1. pose proof (sx_sub_poll _ _ _ _ _ _ Hne E2) as S2.
        assert (M12 : Rmeta H H2).
        { eapply Rmeta_trans; eapply (R_sub_poll Rmeta Rmeta_refl Rmeta_trans Rmeta_ucmd); try eassumption; intros; apply Rmeta_same_cmds; reflexivity. }
        assert (S02 : suffX H H2) by (eapply sx_trans; eassumption).
        destruct a'; try (inversion E; subst; exact S02). destruct b'; try (inversion E; subst; exact S02).
        go_ih IHp Hne E A ltac:(exact M12) ltac:(exact S02).
      + (* LRace *)
        destruct (sub_poll c w qa H) as [a' H1] eqn:E1.
        pose proof (sx_sub_poll _ _ _ _ _ _ Hne E1) as S1.
        assert (M1 : Rmeta H H1).
        { eapply (R_sub_poll Rmeta Rmeta_refl Rmeta_trans Rmeta_ucmd); try eassumption; intros; apply Rmeta_same_cmds; reflexivity. }
        destruct a'.
        * destruct (sub_poll c w qb H1) as [b' H2] eqn:E2.
          pose proof (sx_sub_poll _ _ _ _ _ _ Hne E2) as S2.
          assert (M2 : Rmeta H1 H2).
          { eapply (R_sub_poll Rmeta Rmeta_refl Rmeta_trans Rmeta_ucmd); try eassumption; intros; apply Rmeta_same_cmds; reflexivity. }
          destruct b'; try (inversion E; subst; eapply sx_trans; eassumption).
          go_ih IHp Hne E A ltac:(eapply Rmeta_trans; [exact M1|]; eapply Rmeta_trans; [exact M2|]; apply (R_sub_drop Rmeta Rmeta_refl); intros; apply Rmeta_same_cmds; reflexivity)
                   ltac:(eapply sx_trans; [exact S1|]; eapply sx_trans; [exact S2 | apply sx_sub_drop]).
        * go_ih IHp Hne E A ltac:(eapply Rmeta_trans; [exact M1|]; apply (R_sub_drop Rmeta Rmeta_refl); intros; apply Rmeta_same_cmds; reflexivity)
                ltac:(eapply sx_trans; [exact S1 | apply sx_sub_drop]).
        * destruct (sub_poll c w qb H1) as [b' H2] eqn:E2.
          pose proof (sx_sub_poll _ _ _ _ _ _ Hne E2) as S2.
          assert (M2 : Rmeta H1 H2).
          { eapply (R_sub_poll Rmeta Rmeta_refl Rmeta_trans Rmeta_ucmd); try eassumption; intros; apply Rmeta_same_cmds; reflexivity. }
          destruct b'; try (inversion E; subst; eapply sx_trans; eassumption).
          go_ih IHp Hne E A ltac:(eapply Rmeta_trans; [exact M1|]; eapply Rmeta_trans; [exact M2|]; apply (R_sub_drop Rmeta Rmeta_refl); intros; apply Rmeta_same_cmds; reflexivity)
                   ltac:(eapply sx_trans; [exact S1|]; eapply sx_trans; [exact S2 | apply sx_sub_drop]).
        * destruct (sub_poll c w qb H1) as [b' H2] eqn:E2.
          pose proof (sx_sub_poll _ _ _ _ _ _ Hne E2) as S2.
          assert (M2 : Rmeta H1 H2).
          { eapply (R_sub_poll Rmeta Rmeta_refl Rmeta_trans Rmeta_ucmd); try eassumption; intros; apply Rmeta_same_cmds; reflexivity. }
          destruct b'; try (inversion E; subst; eapply sx_trans; eassumption).
          go_ih IHp Hne E A ltac:(eapply Rmeta_trans; [exact M1|]; eapply Rmeta_trans; [exact M2|]; apply (R_sub_drop Rmeta Rmeta_refl); intros; apply Rmeta_same_cmds; reflexivity)
                   ltac:(eapply sx_trans; [exact S1|]; eapply sx_trans; [exact S2 | apply sx_sub_drop]).
    - (* poll_next *)
      intros cid w H r H' A E. cbn [step_funs rpoll_next] in E. unfold poll_next_body in E.
      set (H0 := ucmd cid (set_atomic (Some w)) H) in *.
      assert (S0 : suffX H H0) by (subst H0; apply sx_ucmd_keep; intros cm; destruct cm; simpl; split; reflexivity).
      assert (A0 : ab H0) by (eapply ab_step; [exact A|]; subst H0; apply Rmeta_ucmd; solve_good).
      destruct (rsettle F cid H0) as [H1|] eqn:E1; [|discriminate].
      pose proof (IHs _ _ _ A0 E1) as S1. pose proof (Ms _ _ _ E1) as M1.
      assert (A1 : ab H1) by (eapply ab_step; eauto).
      assert (S01 : suffX H H1) by (eapply sx_trans; eassumption).
      destruct (c_evs (gcmd cid H1)) as [|e rest] eqn:EV.
      + destruct (c_eff (gcmd cid H1)) as [|e rest] eqn:EF.
        * destruct (rsettle F cid H1) as [H2|] eqn:E2; [|discriminate].
          pose proof (IHs _ _ _ A1 E2) as S2.
          assert (S02 : suffX H H2) by (eapply sx_trans; eassumption).
          destruct (c_eff (gcmd cid H2)); [destruct (c_evs (gcmd cid H2)); [destruct (c_len (gcmd cid H2) =? 0)|]|];
            inversion E; subst; exact S02.
        * inversion E; subst. eapply sx_trans; [exact S01|]. apply (sx_pop_eff cid e rest H1 EF).
      + inversion E; subst. eapply sx_trans; [exact S01|]. apply (sx_pop_ev cid e rest H1 EV).
    - (* settle *)
      intros cid H H' A E. cbn [step_funs rsettle] in E. unfold settle_body in E.
      destruct (was_aborted cid H) eqn:EA.
      + inversion E; subst; clear E. eapply sx_trans; [|apply sx_note].
        match goal with |- suffX H (fold_left ?g ?l ?H1) => eapply sx_trans; [|apply (sx_fold g)] end.
        * apply sx_ucmd_keep. intros cm; destruct cm; simpl; split; reflexivity.
        * intros e Hh. destruct e; [|apply sx_refl]. eapply sx_trans; [apply sx_drop_fs | apply sx_kill_flag].
      + destruct (Nat.eq_dec cid X) as [->|Hne]; [destruct A as [_ A]; rewrite A in EA; discriminate|].
        eapply IHl; eauto.
    - (* loop *)
      intros cid H H' Hne A E. cbn [step_funs rloop] in E. unfold loop_body in E.
      match type of E with context[fold_left ?g ?l ?H0] => set (H1 := fold_left g l H0) in * end.
      assert (S1 : suffX H H1).
      { subst H1. match goal with |- suffX H (fold_left ?g ?l ?H0) => eapply sx_trans; [|apply (sx_fold g)] end.
        - apply sx_ucmd_other; exact Hne.
        - intros t Hh. apply sx_ucmd_other; exact Hne. }
      assert (M1 : Rmeta H H1).
      { subst H1. eapply Rmeta_trans; [apply (Rmeta_ucmd cid (set_spawnq [])); solve_good|].
        apply (R_fold Rmeta Rmeta_refl Rmeta_trans). intros t Hh. apply Rmeta_ucmd. solve_good. }
      destruct (c_ready (gcmd cid H1)); [inversion E; subst; exact S1|].
      destruct (rdrain F cid H1) as [H2|] eqn:E2; [|discriminate].
      assert (A1 : ab H1) by (eapply ab_step; eauto).
      pose proof (IHd _ _ _ Hne A1 E2) as S2. pose proof (Md _ _ _ E2) as M2.
      eapply sx_trans; [exact S1|]. eapply sx_trans; [exact S2|]. eapply IHl; [exact Hne| |exact E]. eapply ab_step; eauto.
    - (* drain *)
      intros cid H H' Hne A E. cbn [step_funs rdrain] in E. unfold drain_body in E.
      destruct (c_ready (gcmd cid H)) as [|s rest]; [inversion E; subst; apply sx_refl|].
      set (H0 := ucmd cid (set_ready rest) H) in *.
      assert (S0 : suffX H H0) by (subst H0; apply sx_ucmd_other; exact Hne).
      assert (A0 : ab H0) by (eapply ab_step; [exact A|]; subst H0; apply Rmeta_ucmd; solve_good).
      destruct (rrun_task F cid s H0) as [[st H2]|] eqn:E2; [|discriminate].
      pose proof (IHr _ _ _ _ _ Hne A0 E2) as S2. pose proof (Mr _ _ _ _ _ E2) as M2.
      assert (A2 : ab H2) by (eapply ab_step; eauto).
      match type of E with rdrain F cid ?H3 = _ => assert (S3 : suffX H2 H3 /\ Rmeta H2 H3) end.
      { destruct st; try (split; [apply sx_refl | apply Rmeta_refl]);
          (destruct (slab_get s (gcmd cid H2)) as [t|]; [|split; [apply sx_refl | apply Rmeta_refl]]);
          (split; [apply sx_finish_task; exact Hne
                  | apply (R_finish_task Rmeta Rmeta_refl Rmeta_trans Rmeta_ucmd); intros; apply Rmeta_same_cmds; reflexivity]). }
      destruct S3 as [S3 M3].
      eapply sx_trans; [exact S0|]. eapply sx_trans; [exact S2|]. eapply sx_trans; [exact S3|].
      eapply IHd; [exact Hne| |exact E]. eapply ab_step; eauto.
    - (* run_task *)
      intros cid s H r H' Hne A E. cbn [step_funs rrun_task] in E. unfold run_task_body in E.
      destruct (slab_get s (gcmd cid H)) as [t|]; [|inversion E; subst; apply sx_same; reflexivity].
      match type of E with (if ?b then _ else _) = _ => destruct b end; [inversion E; subst; apply sx_same; reflexivity|].
      match type of E with context[rpoll F cid ?w ?fs ?H1] => destruct (rpoll F cid w fs H1) as [[pr H2]|] eqn:E2; [|discriminate] end.
      assert (S2 : suffX H H2).
      { match type of E2 with rpoll F cid _ _ ?Hg = _ => apply (sx_trans _ Hg) end; [apply sx_same; reflexivity|].
        eapply IHp; [exact Hne| |exact E2]. eapply ab_step; [exact A|]. apply Rmeta_same_cmds; reflexivity. }
      destruct pr.
      + match type of E with context[if ?b then _ else _] => destruct b end; inversion E; subst.
        * eapply sx_trans; [exact S2|]. apply sx_ucmd_other; exact Hne.
        * eapply sx_trans; [exact S2|]. eapply sx_trans; [|apply sx_note]. apply sx_ucmd_other; exact Hne.
      + inversion E; subst. eapply sx_trans; [exact S2|]. apply sx_ucmd_other; exact Hne.
  Qed.
End Silent.

Theorem silent_all : forall X fuel, specS X (funs fuel).
Proof.
  intros X. induction fuel as [|f IH]; [apply specS0|].
  apply specS_step; [apply (frame_meta f) | exact IH].
Qed.

(* the two entry points a host uses *)
Theorem aborted_outputs_only_shrink_settle : forall X fuel cid H H',
  X < length (cmds H) -> was_aborted X H = true -> settle fuel cid H = Some H' -> suffX X H H'.
Proof.
  intros X fuel cid H H' L A E. destruct (silent_all X fuel) as (_ & _ & Hs & _).
  apply (Hs cid H H'); [split; assumption | exact E].
Qed.
Theorem aborted_outputs_only_shrink_poll_next : forall X fuel cid w H r H',
  X < length (cmds H) -> was_aborted X H = true -> poll_next fuel cid w H = Some (r, H') -> suffX X H H'.
Proof.
  intros X fuel cid w H r H' L A E. destruct (silent_all X fuel) as (_ & Hn & _).
  apply (Hn cid w H r H'); [split; assumption | exact E].
Qed.
