(* C07, "done is stable" on the runtime model: a command that is quiet - not aborted, nothing in its ready queue,
   nothing waiting to be spawned - is not changed at all by run_until_settled; so once is_done() has answered true
   (no output, no task, and by settle_quiescent both queues empty) every further is_done() / effects() / events() finds
   exactly the same heap and gives the same answers, until something is spawned on the command or one of its wakers
   fires.  For every heap and fuel >= 2. *)
From Coq Require Import List Arith Bool Lia.
From Crux Require Import Rt.Lang Rt.Rt Rt.Tables Rt.Frame.
Import ListNotations.

Lemma updd_id {A} (d : A) f : forall n l, n < length l -> f (getd d n l) = getd d n l -> updd d n f l = l.
Proof.
  induction n as [|n IH]; intros [|x xs] L E; simpl in L; try lia.
  - unfold getd in E; simpl in E. change (updd d 0 f (x :: xs)) with (f x :: xs). rewrite E. reflexivity.
  - change (updd d (S n) f (x :: xs)) with (x :: updd d n f xs). rewrite IH; [reflexivity | lia | exact E].
Qed.
Lemma ucmd_id c f H : c < length (cmds H) -> f (gcmd c H) = gcmd c H -> ucmd c f H = H.
Proof.
  intros L E. unfold ucmd. rewrite (updd_id cmd0 f c (cmds H) L E). destruct H; reflexivity.
Qed.

Theorem settle_of_a_quiet_command_changes_nothing : forall f x H,
  x < length (cmds H) -> was_aborted x H = false -> c_ready (gcmd x H) = [] -> c_spawnq (gcmd x H) = [] ->
  settle (S (S f)) x H = Some H.
Proof.
  intros f x H L A Er Es. unfold settle. cbn [funs step_funs rsettle]. unfold settle_body. rewrite A.
  cbn [funs step_funs rloop]. unfold loop_body. rewrite Es. cbn [fold_left].
  assert (Id : ucmd x (set_spawnq []) H = H).
  { apply ucmd_id; [exact L|]. destruct (gcmd x H) eqn:G; unfold set_spawnq; cbn in *. subst. reflexivity. }
  rewrite Id. rewrite Er. reflexivity.
Qed.

(* is_done(): settle, then look *)
Definition is_done_model (fuel x : nat) (H : heap) : option (bool * heap) :=
  match settle fuel x H with
  | None => None
  | Some H1 => let c := gcmd x H1 in
               Some (match c_eff c, c_evs c with [], [] => Nat.eqb (c_len c) 0 | _, _ => false end, H1)
  end.
Theorem done_is_stable : forall f x H,
  x < length (cmds H) -> was_aborted x H = false -> c_ready (gcmd x H) = [] -> c_spawnq (gcmd x H) = [] ->
  c_eff (gcmd x H) = [] -> c_evs (gcmd x H) = [] -> c_len (gcmd x H) = 0 ->
  is_done_model (S (S f)) x H = Some (true, H).
Proof.
  intros f x H L A Er Es Ef Ev El. unfold is_done_model.
  rewrite (settle_of_a_quiet_command_changes_nothing f x H L A Er Es). cbv zeta. rewrite Ef, Ev, El. reflexivity.
Qed.

(* ... and hosted: Stream::poll_next of such a command registers the host's waker and answers Ready(None) at once *)
Lemma was_aborted_set_atomic x a H : was_aborted x (ucmd x (set_atomic a) H) = was_aborted x H.
Proof. unfold was_aborted. rewrite gcmd_ucmd_same. destruct (gcmd x H); reflexivity. Qed.
Theorem done_command_reports_done_to_its_host : forall f x w H,
  x < length (cmds H) -> was_aborted x H = false -> c_ready (gcmd x H) = [] -> c_spawnq (gcmd x H) = [] ->
  c_eff (gcmd x H) = [] -> c_evs (gcmd x H) = [] -> c_len (gcmd x H) = 0 ->
  poll_next (S (S (S f))) x w H = Some (PNDone, ucmd x (set_atomic (Some w)) H).
Proof.
  intros f x w H L A Er Es Ef Ev El.
  remember (S (S f)) as n eqn:En.
  unfold poll_next. cbn [funs step_funs rpoll_next]. unfold poll_next_body.
  set (H0' := ucmd x (set_atomic (Some w)) H).
  assert (L0 : x < length (cmds H0')) by (unfold H0', ucmd; simpl; pose proof (length_updd cmd0 x (set_atomic (Some w)) (cmds H)); lia).
  assert (G : gcmd x H0' = set_atomic (Some w) (gcmd x H)) by (unfold H0'; apply gcmd_ucmd_same).
  assert (A0 : was_aborted x H0' = false) by (unfold H0'; rewrite was_aborted_set_atomic; exact A).
  assert (Q : c_ready (gcmd x H0') = [] /\ c_spawnq (gcmd x H0') = [] /\ c_eff (gcmd x H0') = [] /\ c_evs (gcmd x H0') = [] /\ c_len (gcmd x H0') = 0).
  { rewrite G. destruct (gcmd x H); unfold set_atomic; cbn in *. repeat split; assumption. }
  destruct Q as (Er0 & Es0 & Ef0 & Ev0 & El0).
  pose proof (settle_of_a_quiet_command_changes_nothing f x H0' L0 A0 Er0 Es0) as S0. unfold settle in S0. rewrite <- En in S0.
  rewrite S0. rewrite Ev0, Ef0. rewrite S0. rewrite Ef0, Ev0, El0. reflexivity.
Qed.
