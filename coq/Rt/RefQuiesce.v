(* C01 on the reference semantics under a Core (RefCore.v): a call runs to a fixpoint.  When a call
   returns, running every command of the app again produces nothing and changes nothing (nothing runnable
   is left behind, nothing is deferred to a later call), so a call that starts no work - an event whose
   handler returns Command::done() - returns no effect and only appends its event to the log. *)
From Coq Require Import List Arith Bool Lia.
From Crux Require Import Rt.Lang Rt.Rt Rt.Host Rt.Ref Rt.RefCore Rt.RefCoreProps.
Import ListNotations.

Lemma SF_S : exists g, SF = S g. Proof. exists 1999. reflexivity. Qed.
Lemma RF_S : exists g, RF = S g. Proof. exists 1999. reflexivity. Qed.

(* ---------- a bag: run_bag stops only when no strand can move ---------- *)
Lemma run_bag_stuck : forall fuel b n o b' n' o',
  run_bag fuel b n o = Some (b', n', o') -> pick b' [] (b_strands b') = None.
Proof.
  induction fuel as [|f IH]; intros b n o b' n' o' E; [discriminate|]. cbn [run_bag] in E.
  destruct (pick b [] (b_strands b)) as [[[pre s] post]|] eqn:EP.
  - destruct (run_strand SF (unblock s) (b_next b) n [] o) as [[[[[os spawned] nu] n1] o1]|]; [|discriminate].
    destruct os; eapply IH; exact E.
  - inversion E; subst. exact EP.
Qed.
Lemma run_bag_of_stuck g b n o : pick b [] (b_strands b) = None -> run_bag (S g) b n o = Some (b, n, o).
Proof. intros EP. cbn [run_bag]. rewrite EP. reflexivity. Qed.

Lemma ro_map_eff0 k : ro_map_eff k ro0 = ro0.
Proof. unfold ro_map_eff. destruct (Nat.eqb k 0); reflexivity. Qed.
Lemma ro_map_ev0 k : ro_map_ev k ro0 = ro0.
Proof. unfold ro_map_ev. destruct (Nat.eqb k 0); reflexivity. Qed.

(* ---------- a residual command: run is idempotent (from any counter: a stuck term allocates nothing) ---------- *)
Lemma run_idem : forall fuel en c n c' n' o,
  run fuel en c n = Some (c', n', o) -> forall g m, fuel <= g -> run g en c' m = Some (c', m, ro0).
Proof.
  induction fuel as [|f IH]; intros en c n c' n' o E g m L; [discriminate|].
  destruct g as [|g]; [lia|]. assert (L' : f <= g) by lia.
  destruct c as [b|a b|l|k a|k a]; cbn [run] in E.
  - destruct (run_bag SF b n ro0) as [[[b1 n1] o1]|] eqn:EB; [|discriminate].
    inversion E; subst. apply run_bag_stuck in EB. cbn [run]. destruct SF_S as [s ->].
    rewrite (run_bag_of_stuck s b1 m ro0 EB). reflexivity.
  - destruct (run f en a n) as [[[a1 n1] o1]|] eqn:EA; [|discriminate].
    destruct (rdone a1) eqn:ED.
    + destruct (run f en (start en b) n1) as [[[b2 n2] o2]|] eqn:EB; [|discriminate].
      inversion E; subst. eapply IH; [exact EB | lia].
    + inversion E; subst. cbn [run]. rewrite (IH _ _ _ _ _ _ EA g m L'), ED. reflexivity.
  - match type of E with match ?gg l n with _ => _ end = _ => set (go := gg) in * end.
    destruct (go l n) as [[[l1 n1] o1]|] eqn:EG; [|discriminate]. inversion E; subst. clear E.
    cbn [run].
    match goal with |- match ?gg l1 m with _ => _ end = _ => set (go' := gg) end.
    assert (G : forall l n l1 n1 o1, go l n = Some (l1, n1, o1) -> forall m, go' l1 m = Some (l1, m, ro0)).
    { clear EG. induction l0 as [|x l0 IHl]; intros n0 l2 n2 o2 E0 m0; cbn in E0.
      - inversion E0; subst. reflexivity.
      - destruct (run f en x n0) as [[[x1 m1] p1]|] eqn:EX; [|discriminate].
        destruct (go l0 m1) as [[[r1 m2] p2]|] eqn:EG; [|discriminate]. inversion E0; subst.
        cbn. rewrite (IH _ _ _ _ _ _ EX g m0 L'). fold go'. rewrite (IHl _ _ _ _ EG m0). reflexivity. }
    rewrite (G _ _ _ _ _ EG m). reflexivity.
  - destruct (run f en a n) as [[[a1 n1] o1]|] eqn:EA; [|discriminate]. inversion E; subst.
    cbn [run]. rewrite (IH _ _ _ _ _ _ EA g m L'), ro_map_eff0. reflexivity.
  - destruct (run f en a n) as [[[a1 n1] o1]|] eqn:EA; [|discriminate]. inversion E; subst.
    cbn [run]. rewrite (IH _ _ _ _ _ _ EA g m L'), ro_map_ev0. reflexivity.
Qed.

(* ---------- all the commands of the app ---------- *)
Definition settled (l : list kcmd) : Prop := forall m, run_cmds RF l m = Some (l, m, ro0).

Lemma run_cmds_settled : forall l n l' n' o, run_cmds RF l n = Some (l', n', o) -> settled l'.
Proof.
  induction l as [|c l IH]; intros n l' n' o E; cbn [run_cmds] in E.
  - inversion E; subst. intros m. reflexivity.
  - destruct (run RF (kc_env c) (kc_rc c) n) as [[[c1 n1] o1]|] eqn:EC; [|discriminate].
    destruct (run_cmds RF l n1) as [[[l2 n2] o2]|] eqn:EL; [|discriminate].
    inversion E; subst. specialize (IH _ _ _ _ EL).
    destruct (rdone c1) eqn:ED; [exact IH|].
    intros m. cbn [run_cmds kc_env kc_rc]. rewrite (run_idem _ _ _ _ _ _ _ EC RF m (le_n _)), (IH m), ED. reflexivity.
Qed.

(* the state a call leaves behind *)
Definition idle (st : kst) : Prop := ks_q st = [] /\ settled (ks_cmds st).

Lemma kprocess_idle : forall fuel hs st st', kprocess fuel hs st = Some st' -> idle st'.
Proof.
  induction fuel as [|f IH]; intros hs st st' E; [discriminate|]. cbn [kprocess] in E.
  destruct (run_cmds RF (ks_cmds st) (ks_n st)) as [[[l1 n1] o1]|] eqn:ER; [|discriminate].
  destruct (ks_q st ++ ro_evs o1) as [|e rest].
  - inversion E; subst. split; [reflexivity|]. cbn [ks_cmds]. eapply run_cmds_settled; exact ER.
  - eapply IH; exact E.
Qed.

Lemma kreturn_idle st : idle st -> idle (snd (kreturn st)).
Proof. intros I. exact I. Qed.

(* every accepted call (an event, a resolution the arity allows) leaves the app idle *)
Theorem call_leaves_idle hs a st effs lg st' : kstep hs a st = Some (KCall 0 effs lg, st') -> idle st'.
Proof.
  intros E. destruct a; cbn [kstep] in E; try (inversion E; fail).
  - destruct (find_rr tg v occ 0 (ks_reqs st)) as [i|]; [|inversion E].
    set (q := nth i (ks_reqs st) _) in *.
    destruct (rr_state q) as [|[|[|k]]]; try (inversion E; fail).
    + destruct (kdeliver (re_rid (rr_eff q)) out (ks_cmds st)) as [t l'].
      match type of E with match kprocess RF hs ?s1 with _ => _ end = _ => destruct (kprocess RF hs s1) as [st2|] eqn:EP; [|discriminate] end.
      inversion E; subst. apply kreturn_idle. eapply kprocess_idle; exact EP.
    + destruct (kdeliver (re_rid (rr_eff q)) out (ks_cmds st)) as [t l'].
      destruct t; [|inversion E].
      match type of E with match kprocess RF hs ?s1 with _ => _ end = _ => destruct (kprocess RF hs s1) as [st2|] eqn:EP; [|discriminate] end.
      inversion E; subst. apply kreturn_idle. eapply kprocess_idle; exact EP.
  - destruct (find_rr tg v occ 0 (ks_reqs st)) as [i|]; [|inversion E].
    set (q := nth i (ks_reqs st) _) in *.
    destruct (rr_state q) as [|[|[|[|k]]]]; try (inversion E; fail); destruct (Nat.eqb (re_kind (rr_eff q)) 3); inversion E.
  - match type of E with match kprocess RF hs ?s1 with _ => _ end = _ => destruct (kprocess RF hs s1) as [st2|] eqn:EP; [|discriminate] end.
    inversion E; subst. apply kreturn_idle. eapply kprocess_idle; exact EP.
Qed.

(* ---------- the probe ---------- *)
Lemma run_cmds_app : forall a b n a' n1 oa b' n2 ob,
  run_cmds RF a n = Some (a', n1, oa) -> run_cmds RF b n1 = Some (b', n2, ob) ->
  run_cmds RF (a ++ b) n = Some (a' ++ b', n2, ro_app oa ob).
Proof.
  induction a as [|c a IH]; intros b n a' n1 oa b' n2 ob EA EB; cbn [run_cmds app] in *.
  - inversion EA; subst. rewrite EB. destruct ob; reflexivity.
  - destruct (run RF (kc_env c) (kc_rc c) n) as [[[c1 m1] o1]|]; [|discriminate].
    destruct (run_cmds RF a m1) as [[[a2 m2] o2]|] eqn:EL; [|discriminate].
    inversion EA; subst. rewrite (IH _ _ _ _ _ _ _ _ EL EB).
    destruct (rdone c1); cbn [app]; unfold ro_app; cbn [ro_effs ro_evs]; rewrite !app_assoc; reflexivity.
Qed.

Lemma run_done_cmd v n : run_cmds RF [mkKC [v] (start [v] c_done)] n = Some ([], n, ro0).
Proof. vm_compute. reflexivity. Qed.

Lemma kprocess_S g hs st : kprocess (S g) hs st =
  match run_cmds RF (ks_cmds st) (ks_n st) with
  | None => None
  | Some (l', n', o) =>
    match ks_q st ++ ro_evs o with
    | [] => Some (mkKS l' n' [] (ks_log st) (ks_out st ++ ro_effs o) (ks_reqs st) (ks_amb st))
    | e :: rest =>
      kprocess g hs (mkKS (l' ++ [mkKC [v_val e] (start [v_val e] (handler_of hs e))]) n' rest
                          (ks_log st ++ [e]) (ks_out st ++ ro_effs o) (ks_reqs st) (ks_amb st))
    end
  end.
Proof. reflexivity. Qed.

Lemma kprocess_probe hs v st lg :
  idle st -> ks_out st = [] ->
  kprocess RF hs (mkKS (ks_cmds st ++ [mkKC [v] (start [v] c_done)]) (ks_n st) (ks_q st) lg (ks_out st) (ks_reqs st) (ks_amb st))
  = Some (mkKS (ks_cmds st) (ks_n st) [] lg [] (ks_reqs st) (ks_amb st)).
Proof.
  intros [Q S] O. destruct RF_S as [g EG]. rewrite EG at 1. rewrite kprocess_S. cbn [ks_cmds ks_n ks_q ks_out ks_log ks_reqs ks_amb].
  rewrite (run_cmds_app _ _ _ _ _ _ _ _ _ (S (ks_n st)) (run_done_cmd v (ks_n st))).
  rewrite Q, O, !app_nil_r. cbn [ro_app ro0 ro_effs ro_evs app]. reflexivity.
Qed.

(* an event whose handler returns Command::done(), submitted to an idle app, returns no effect, applies
   exactly itself, starts nothing and leaves the app idle: nothing had been left behind *)
Theorem probe_silent hs tg v st :
  idle st -> ks_out st = [] -> lookup tg hs = c_done ->
  exists st', kstep hs (AEvent tg v) st = Some (KCall 0 [] (ks_log st ++ [mkEv tg v []]), st') /\
              ks_cmds st' = ks_cmds st /\ ks_n st' = ks_n st /\ ks_reqs st' = ks_reqs st /\ idle st'.
Proof.
  intros I O Hd. cbn [kstep]. rewrite Hd, (kprocess_probe hs v st _ I O).
  eexists. split; [reflexivity|]. cbn [snd kreturn ks_cmds ks_n ks_reqs ks_out map]. rewrite app_nil_r.
  split; [reflexivity | split; [reflexivity | split; [reflexivity|]]].
  destruct I as [Q S]. split; [reflexivity | exact S].
Qed.

(* ---------- C07 on the reference semantics: done means no strand, and done is final ---------- *)
Lemma rdone_no_strands : forall c, rdone c = true -> strands_rc c = [].
Proof.
  fix IH 1. intros c. destruct c as [b|a b|l|k a|k a]; cbn [rdone strands_rc]; intros D; try (apply IH; exact D); try discriminate.
  - destruct (b_strands b); [reflexivity | discriminate].
  - induction l as [|x l IHl]; cbn [map concat forallb] in *; [reflexivity|].
    apply andb_prop in D as [D1 D2]. rewrite (IH x D1), (IHl D2). reflexivity.
Qed.
Lemma no_strands_deliver rid v : forall c, strands_rc c = [] -> deliver rid v c = (false, c).
Proof.
  fix IH 1. intros c. destruct c as [b|a b|l|k a|k a]; cbn [strands_rc deliver]; intros E.
  - destruct b as [ss nx fin]. cbn [b_strands] in *. subst ss. reflexivity.
  - rewrite (IH a E). reflexivity.
  - assert (A : map (deliver rid v) l = map (fun x => (false, x)) l).
    { induction l as [|x l IHl]; cbn [map concat] in *; [reflexivity|].
      apply app_eq_nil in E as [E1 E2]. rewrite (IH x E1), (IHl E2). reflexivity. }
    rewrite A, !map_map. cbn [fst snd]. rewrite map_id. f_equal.
    clear. induction l as [|x l IHl]; [reflexivity | exact IHl].
  - rewrite (IH a E). reflexivity.
  - rewrite (IH a E). reflexivity.
Qed.
Lemma no_strands_dropreq rid : forall c, strands_rc c = [] -> dropreq rid c = c.
Proof.
  fix IH 1. intros c. destruct c as [b|a b|l|k a|k a]; cbn [strands_rc dropreq]; intros E.
  - destruct b as [ss nx fin]. cbn [b_strands] in *. subst ss. reflexivity.
  - rewrite (IH a E). reflexivity.
  - f_equal. induction l as [|x l IHl]; cbn [map concat] in *; [reflexivity|].
    apply app_eq_nil in E as [E1 E2]. rewrite (IH x E1), (IHl E2). reflexivity.
  - rewrite (IH a E). reflexivity.
  - rewrite (IH a E). reflexivity.
Qed.
(* fuel that certainly suffices to walk a residual term once *)
Fixpoint rdepth (c : rc) : nat :=
  match c with
  | RBag _ => 1
  | RSeq a _ => S (rdepth a)
  | RPar l => S (list_sum (map rdepth l))
  | RMapEff _ a | RMapEv _ a => S (rdepth a)
  end.
Lemma rdone_run : forall c, rdone c = true -> forall g en n, rdepth c <= g -> run g en c n = Some (c, n, ro0).
Proof.
  fix IH 1. intros c. destruct c as [b|a b|l|k a|k a]; cbn [rdone rdepth]; intros D g en n L; try discriminate;
    (destruct g as [|g]; [lia|]); cbn [run].
  - destruct SF_S as [s ->]. cbn [run_bag]. destruct (b_strands b) eqn:EB; [|discriminate].
    cbn [pick]. reflexivity.
  - match goal with |- match ?gg l n with _ => _ end = _ => set (go := gg) end.
    assert (G : forall l, forallb rdone l = true -> list_sum (map rdepth l) <= g -> forall m, go l m = Some (l, m, ro0)).
    { clear D L. induction l0 as [|x l0 IHl]; intros D L m; cbn; [reflexivity|].
      cbn [forallb] in D. apply andb_prop in D as [D1 D2]. cbn [map] in L. rewrite ls_cons in L.
      rewrite (IH x D1 g en m) by lia. fold go. rewrite (IHl D2) by lia. reflexivity. }
    rewrite (G l D) by lia. reflexivity.
  - rewrite (IH a D g en n) by lia. rewrite ro_map_eff0. reflexivity.
  - rewrite (IH a D g en n) by lia. rewrite ro_map_ev0. reflexivity.
Qed.

(* a command that is done has no strand; no answer is taken by it, no drop changes it, running it again
   produces nothing: it stays done and silent whatever the shell does next *)
Theorem done_is_final c : rdone c = true ->
  strands_rc c = [] /\
  (forall rid v, deliver rid v c = (false, c)) /\
  (forall rid, dropreq rid c = c) /\
  (forall g en n, rdepth c <= g -> run g en c n = Some (c, n, ro0)).
Proof.
  intros D. pose proof (rdone_no_strands c D) as E.
  split; [exact E | split; [intros; apply no_strands_deliver; exact E | split; [intros; apply no_strands_dropreq; exact E | apply rdone_run; exact D]]].
Qed.
