(* Reference semantics of commands: what the combinators MEAN, with no queues, wakers, slabs,
   generations or forwarding.  A running command is a residual term: a bag of sequential strands
   (Command::new and everything it spawned), a sequence (then), a parallel composition (and / all), or
   a mapped residual.  [then a b] starts b only when a has nothing left; and/all are done when all
   parts are; maps post-compose every output exactly once; a request strand waits for its answer; a
   stream strand runs its body once per item; a dropped one-shot request kills its strand; a dropped
   stream request ends its loop.  Cancellation (abort handles, JoinHandle::abort) is NOT part of this
   semantics: C04 is checked on the abort-free fragment, cancellation is C06's. *)
From Coq Require Import List Arith Bool.
From Crux Require Import Rt.Lang Rt.Rt.
Import ListNotations.

(* one request inside a join! / select!: waiting on rid | answered | its request was dropped *)
Inductive rslot := SWait (rid : nat) | SVal (v : nat) | SGone.
Inductive rleaf :=
| RRun (t : task)
| RReq (rid x : nat) (k : task)
| RStr                                   (* waiting for the next item of the innermost loop *)
| RJoin (uid : nat) (k : task)
| RDead                                  (* its one-shot request was dropped: removed at the next step *)
| RBoth (a b : rslot) (x1 x2 : nat) (k : task)     (* join! of two requests *)
| RRace (a b : rslot) (x : nat) (k : task)         (* select_biased! of two requests *)
| RBothJ (uid : nat) (b : rslot) (x : nat) (k : task).   (* join! of a JoinHandle on strand uid and a request *)
Record rframe := mkRF { rf_rid : nat; rf_x : nat; rf_body : task; rf_k : task; rf_buf : list nat; rf_closed : bool }.
Record rstrand := mkRS { s_uid : nat; s_env : env; s_leaf : rleaf; s_stack : list rframe }.
Record rbag := mkRB { b_strands : list rstrand; b_next : nat; b_fin : list nat }.

Inductive rc :=
| RBag (b : rbag)
| RSeq (a : rc) (b : cmd)
| RPar (l : list rc)
| RMapEff (k : nat) (a : rc)
| RMapEv (k : nat) (a : rc).

(* outputs of a step; an effect carries the id under which the shell can answer it *)
Record reff := mkRE { re_tag : nat; re_val : nat; re_maps : list nat; re_rid : nat; re_kind : nat (* 0 never 1 once 2 many 3 once, asked through a capability *) }.
Record routs := mkRO { ro_effs : list reff; ro_evs : list event }.
Definition ro0 := mkRO [] [].
Definition ro_app (a b : routs) := mkRO (ro_effs a ++ ro_effs b) (ro_evs a ++ ro_evs b).
Definition ro_map_eff k (o : routs) :=
  if Nat.eqb k 0 then o else
  (* a request made through a capability is not one of the command's effects: map_effect never sees it *)
  mkRO (map (fun e => if Nat.eqb (re_kind e) 3 then e else mkRE (re_tag e) (re_val e) (k :: re_maps e) (re_rid e) (re_kind e)) (ro_effs o)) (ro_evs o).
Definition ro_map_ev k (o : routs) :=
  if Nat.eqb k 0 then o else mkRO (ro_effs o) (map (map_ev k) (ro_evs o)).

Definition memn n l := existsb (Nat.eqb n) l.

(* run one strand until it blocks or finishes.  n = next request id.
   result: (Some strand | None = finished, strands it spawned, bag's next uid, next rid, outputs) *)
Fixpoint run_strand (fuel : nat) (s : rstrand) (nu n : nat) (acc : list rstrand) (o : routs)
  : option (option rstrand * list rstrand * nat * nat * routs) :=
  match fuel with 0 => None | S f =>
  let u := s_uid s in let en := s_env s in let st := s_stack s in
  match s_leaf s with
  | RRun t =>
    match t with
    | TRet => match st with
              | [] => Some (None, acc, nu, n, o)
              | _ :: _ => run_strand f (mkRS u en RStr st) nu n acc o
              end
    | TEmit tg e k => run_strand f (mkRS u en (RRun k) st) nu n acc (ro_app o (mkRO [] [mkEv tg (eval en e) []]))
    | TNotify tg e k => run_strand f (mkRS u en (RRun k) st) nu (S n) acc (ro_app o (mkRO [mkRE tg (eval en e) [] n 0] []))
    | TReq tg e x k => Some (Some (mkRS u en (RReq n x k) st), acc, nu, S n, ro_app o (mkRO [mkRE tg (eval en e) [] n 1] []))
    | TForEach tg e x body k =>
        Some (Some (mkRS u en RStr (mkRF n x body k [] false :: st)), acc, nu, S n, ro_app o (mkRO [mkRE tg (eval en e) [] n 2] []))
    | TSpawn child h k =>
        run_strand f (mkRS u (setv h nu en) (RRun k) st) (S nu) n (acc ++ [mkRS nu en (RRun child) []]) o
    | TJoin h k => Some (Some (mkRS u en (RJoin (getd 0 h en) k) st), acc, nu, n, o)
    | TBoth tg1 e1 x1 tg2 e2 x2 k =>
        Some (Some (mkRS u en (RBoth (SWait n) (SWait (S n)) x1 x2 k) st), acc, nu, S (S n),
              ro_app o (mkRO [mkRE tg1 (eval en e1) [] n 1; mkRE tg2 (eval en e2) [] (S n) 1] []))
    | TBothJ h tg e x k =>
        Some (Some (mkRS u en (RBothJ (getd 0 h en) (SWait n) x k) st), acc, nu, S n, ro_app o (mkRO [mkRE tg (eval en e) [] n 1] []))
    | TRace tg1 e1 tg2 e2 x k =>
        Some (Some (mkRS u en (RRace (SWait n) (SWait (S n)) x k) st), acc, nu, S (S n),
              ro_app o (mkRO [mkRE tg1 (eval en e1) [] n 1; mkRE tg2 (eval en e2) [] (S n) 1] []))
    (* a request made through a legacy capability MEANS what a request made through the context means *)
    | TLegReq tg e x k => Some (Some (mkRS u en (RReq n x k) st), acc, nu, S n, ro_app o (mkRO [mkRE tg (eval en e) [] n 3] []))
    | TBothL tg1 e1 x1 tg2 e2 x2 k =>
        Some (Some (mkRS u en (RBoth (SWait n) (SWait (S n)) x1 x2 k) st), acc, nu, S (S n),
              ro_app o (mkRO [mkRE tg1 (eval en e1) [] n 3; mkRE tg2 (eval en e2) [] (S n) 1] []))
    | TAbortT _ k | TAbortC _ k => run_strand f (mkRS u en (RRun k) st) nu n acc o      (* outside the fragment *)
    | TYield _ k => run_strand f (mkRS u en (RRun k) st) nu n acc o
    | THost _ _ _ _ _ k => run_strand f (mkRS u en (RRun k) st) nu n acc o (* never in source programs *)
    end
  | RStr =>
    match st with
    | [] => Some (None, acc, nu, n, o)
    | fr :: rest =>
      match rf_buf fr with
      | m :: more => run_strand f (mkRS u (setv (rf_x fr) m en) (RRun (rf_body fr))
                                   (mkRF (rf_rid fr) (rf_x fr) (rf_body fr) (rf_k fr) more (rf_closed fr) :: rest)) nu n acc o
      | [] => if rf_closed fr then run_strand f (mkRS u en (RRun (rf_k fr)) rest) nu n acc o
              else Some (Some s, acc, nu, n, o)
      end
    end
  | RReq _ _ _ | RJoin _ _ | RBothJ _ _ _ _ => Some (Some s, acc, nu, n, o)   (* RBothJ moves only once [unblock] has turned it into an RBoth *)
  | RDead => Some (None, acc, nu, n, o)
  | RBoth a b x1 x2 k =>
      match a, b with
      | SVal m1, SVal m2 => run_strand f (mkRS u (setv x2 m2 (setv x1 m1 en)) (RRun k) st) nu n acc o
      | SWait _, _ | _, SWait _ => Some (Some s, acc, nu, n, o)
      | _, _ => Some (None, acc, nu, n, o)          (* a dropped half: the join can never complete *)
      end
  | RRace a b x k =>
      match a, b with
      | SVal m, _ => run_strand f (mkRS u (setv x m en) (RRun k) st) nu n acc o
      | _, SVal m => run_strand f (mkRS u (setv x m en) (RRun k) st) nu n acc o
      | SGone, SGone => Some (None, acc, nu, n, o)
      | _, _ => Some (Some s, acc, nu, n, o)
      end
  end end.

Definition can_move (b : rbag) (s : rstrand) : bool :=
  match s_leaf s with
  | RRun _ => true
  | RStr => match s_stack s with fr :: _ => negb (match rf_buf fr with [] => true | _ => false end) || rf_closed fr | [] => true end
  | RJoin uid _ => memn uid (b_fin b) || negb (existsb (fun r => Nat.eqb (s_uid r) uid) (b_strands b))
  | RReq _ _ _ => false
  | RDead => true
  | RBoth a b _ _ _ => match a, b with SWait _, _ | _, SWait _ => false | _, _ => true end
  | RRace a b _ _ => match a, b with SVal _, _ | _, SVal _ => true | SGone, SGone => true | _, _ => false end
  (* the awaited strand has finished and the request is answered or gone (a strand whose request was
     dropped is discarded only once nothing else can wake it: when the awaited strand has finished) *)
  | RBothJ uid q _ _ => (memn uid (b_fin b) || negb (existsb (fun r => Nat.eqb (s_uid r) uid) (b_strands b)))
                        && match q with SWait _ => false | _ => true end
  end.
Definition unblock (s : rstrand) : rstrand :=
  match s_leaf s with
  | RJoin _ k => mkRS (s_uid s) (s_env s) (RRun k) (s_stack s)
  | RBothJ _ q x k => mkRS (s_uid s) (s_env s) (RBoth (SVal 0) q 23 x k) (s_stack s)
  | _ => s
  end.

Fixpoint pick (b : rbag) (pre l : list rstrand) : option (list rstrand * rstrand * list rstrand) :=
  match l with
  | [] => None
  | s :: r => if can_move b s then Some (rev pre, s, r) else pick b (s :: pre) r
  end.

Definition SF := 2000.
Fixpoint run_bag (fuel : nat) (b : rbag) (n : nat) (o : routs) : option (rbag * nat * routs) :=
  match fuel with 0 => None | S f =>
  match pick b [] (b_strands b) with
  | None => Some (b, n, o)
  | Some (pre, s, post) =>
    match run_strand SF (unblock s) (b_next b) n [] o with
    | None => None
    | Some (None, spawned, nu, n', o') => run_bag f (mkRB (pre ++ post ++ spawned) nu (s_uid s :: b_fin b)) n' o'
    | Some (Some s', spawned, nu, n', o') => run_bag f (mkRB (pre ++ post ++ spawned ++ [s']) nu (b_fin b)) n' o'
    end
  end end.

Definition start_bag (en : env) (m : task) (ex : list task) : rbag :=
  mkRB (mkRS 0 en (RRun m) [] :: map (fun it => mkRS (S (fst it)) en (RRun (snd it)) []) (combine (seq 0 (length ex)) ex))
       (S (length ex)) [].

Fixpoint start (en : env) (c : cmd) : rc :=
  match c with
  | CNew m ex => RBag (start_bag en m ex)
  | CThen a b => RSeq (start en a) b
  | CAnd a b => RPar [start en a; start en b]
  | CAll cs => RPar (map (start en) cs)
  | CMapEff k c' => RMapEff k (start en c')
  | CMapEv k c' => RMapEv k (start en c')
  | CIdEff c' => RMapEff 0 (start en c')
  | CIdEv c' => RMapEv 0 (start en c')
  | CInto c' => RMapEv 0 (RMapEff 0 (start en c'))
  | CAbortable _ c' => start en c'
  | CSendR r ev => RBag (start_bag en (task_of_rb r (fun v => TEmit ev v TRet)) [])
  | CSendS s ev => RBag (start_bag en (task_of_sb s (fun v => TEmit ev v TRet)) [])
  end.

Fixpoint rdone (c : rc) : bool :=
  match c with
  | RBag b => match b_strands b with [] => true | _ => false end
  | RSeq _ _ => false
  | RPar l => forallb rdone l
  | RMapEff _ a | RMapEv _ a => rdone a
  end.

(* advance everything that can move.  [then]: when the first part has nothing left, the second starts
   in the same step (and the sequence node disappears) *)
Fixpoint run (fuel : nat) (en : env) (c : rc) (n : nat) : option (rc * nat * routs) :=
  match fuel with 0 => None | S f =>
  match c with
  | RBag b => match run_bag SF b n ro0 with Some (b', n', o) => Some (RBag b', n', o) | None => None end
  | RSeq a b =>
      match run f en a n with
      | None => None
      | Some (a', n1, o1) =>
        if rdone a' then
          match run f en (start en b) n1 with Some (b', n2, o2) => Some (b', n2, ro_app o1 o2) | None => None end
        else Some (RSeq a' b, n1, o1)
      end
  | RPar l =>
      match (fix go (l : list rc) (n : nat) : option (list rc * nat * routs) :=
         match l with
         | [] => Some ([], n, ro0)
         | x :: r => match run f en x n with
                     | None => None
                     | Some (x', n1, o1) => match go r n1 with Some (r', n2, o2) => Some (x' :: r', n2, ro_app o1 o2) | None => None end
                     end
         end) l n with
      | Some (l', n', o) => Some (RPar l', n', o)
      | None => None
      end
  | RMapEff k a => match run f en a n with Some (a', n', o) => Some (RMapEff k a', n', ro_map_eff k o) | None => None end
  | RMapEv k a => match run f en a n with Some (a', n', o) => Some (RMapEv k a', n', ro_map_ev k o) | None => None end
  end end.

(* ---------- the shell's inputs ---------- *)
(* deliver a value to the strand waiting on request rid (one-shot), or buffer it at the loop fed by
   stream rid.  Returns whether some strand took it. *)
Definition fill_slot (rid v : nat) (q : rslot) : bool * rslot :=
  match q with SWait r => if Nat.eqb r rid then (true, SVal v) else (false, q) | _ => (false, q) end.
Definition gone_slot (rid : nat) (q : rslot) : rslot :=
  match q with SWait r => if Nat.eqb r rid then SGone else q | _ => q end.
Definition deliver_strand (rid v : nat) (s : rstrand) : bool * rstrand :=
  match s_leaf s with
  | RBoth a b x1 x2 k =>
      let (ta, a') := fill_slot rid v a in let (tb, b') := fill_slot rid v b in
      if ta || tb then (true, mkRS (s_uid s) (s_env s) (RBoth a' b' x1 x2 k) (s_stack s)) else
      (existsb (fun fr => Nat.eqb (rf_rid fr) rid) (s_stack s),
       mkRS (s_uid s) (s_env s) (s_leaf s)
            (map (fun fr => if Nat.eqb (rf_rid fr) rid then mkRF (rf_rid fr) (rf_x fr) (rf_body fr) (rf_k fr) (rf_buf fr ++ [v]) (rf_closed fr) else fr) (s_stack s)))
  | RRace a b x k =>
      let (ta, a') := fill_slot rid v a in let (tb, b') := fill_slot rid v b in
      if ta || tb then (true, mkRS (s_uid s) (s_env s) (RRace a' b' x k) (s_stack s)) else
      (existsb (fun fr => Nat.eqb (rf_rid fr) rid) (s_stack s),
       mkRS (s_uid s) (s_env s) (s_leaf s)
            (map (fun fr => if Nat.eqb (rf_rid fr) rid then mkRF (rf_rid fr) (rf_x fr) (rf_body fr) (rf_k fr) (rf_buf fr ++ [v]) (rf_closed fr) else fr) (s_stack s)))
  | RBothJ uid b x k =>
      let (tb, b') := fill_slot rid v b in
      if tb then (true, mkRS (s_uid s) (s_env s) (RBothJ uid b' x k) (s_stack s)) else
      (existsb (fun fr => Nat.eqb (rf_rid fr) rid) (s_stack s),
       mkRS (s_uid s) (s_env s) (s_leaf s)
            (map (fun fr => if Nat.eqb (rf_rid fr) rid then mkRF (rf_rid fr) (rf_x fr) (rf_body fr) (rf_k fr) (rf_buf fr ++ [v]) (rf_closed fr) else fr) (s_stack s)))
  | RReq r x k => if Nat.eqb r rid then (true, mkRS (s_uid s) (setv x v (s_env s)) (RRun k) (s_stack s)) else
      (existsb (fun fr => Nat.eqb (rf_rid fr) rid) (s_stack s),
       mkRS (s_uid s) (s_env s) (s_leaf s)
            (map (fun fr => if Nat.eqb (rf_rid fr) rid then mkRF (rf_rid fr) (rf_x fr) (rf_body fr) (rf_k fr) (rf_buf fr ++ [v]) (rf_closed fr) else fr) (s_stack s)))
  | _ =>
      (existsb (fun fr => Nat.eqb (rf_rid fr) rid) (s_stack s),
       mkRS (s_uid s) (s_env s) (s_leaf s)
            (map (fun fr => if Nat.eqb (rf_rid fr) rid then mkRF (rf_rid fr) (rf_x fr) (rf_body fr) (rf_k fr) (rf_buf fr ++ [v]) (rf_closed fr) else fr) (s_stack s)))
  end.
Fixpoint deliver (rid v : nat) (c : rc) : bool * rc :=
  match c with
  | RBag b =>
      let rs := map (deliver_strand rid v) (b_strands b) in
      (existsb fst rs, RBag (mkRB (map snd rs) (b_next b) (b_fin b)))
  | RSeq a b => let (t, a') := deliver rid v a in (t, RSeq a' b)
  | RPar l => let rs := map (deliver rid v) l in (existsb fst rs, RPar (map snd rs))
  | RMapEff k a => let (t, a') := deliver rid v a in (t, RMapEff k a')
  | RMapEv k a => let (t, a') := deliver rid v a in (t, RMapEv k a')
  end.

(* the shell dropped request rid: a strand waiting on it as a one-shot can never continue and is
   removed at the next step - the code notices it lazily, at its next run_until_settled, and until
   then its streams still accept items - (its task then counts as finished for joiners); a loop fed by
   it ends after its buffered items *)
Definition waits_once (rid : nat) (s : rstrand) : bool :=
  match s_leaf s with RReq r _ _ => Nat.eqb r rid | _ => false end.
Definition close_frames (rid : nat) (s : rstrand) : rstrand :=
  mkRS (s_uid s) (s_env s) (s_leaf s)
       (map (fun fr => if Nat.eqb (rf_rid fr) rid then mkRF (rf_rid fr) (rf_x fr) (rf_body fr) (rf_k fr) (rf_buf fr) true else fr) (s_stack s)).
Definition kill_waiter (rid : nat) (s : rstrand) : rstrand :=
  if waits_once rid s then mkRS (s_uid s) (s_env s) RDead (s_stack s) else
  match s_leaf s with
  | RBoth a b x1 x2 k => close_frames rid (mkRS (s_uid s) (s_env s) (RBoth (gone_slot rid a) (gone_slot rid b) x1 x2 k) (s_stack s))
  | RRace a b x k => close_frames rid (mkRS (s_uid s) (s_env s) (RRace (gone_slot rid a) (gone_slot rid b) x k) (s_stack s))
  | RBothJ uid b x k => close_frames rid (mkRS (s_uid s) (s_env s) (RBothJ uid (gone_slot rid b) x k) (s_stack s))
  | _ => close_frames rid s
  end.
Fixpoint dropreq (rid : nat) (c : rc) : rc :=
  match c with
  | RBag b => RBag (mkRB (map (kill_waiter rid) (b_strands b)) (b_next b) (b_fin b))
  | RSeq a b => RSeq (dropreq rid a) b
  | RPar l => RPar (map (dropreq rid) l)
  | RMapEff k a => RMapEff k (dropreq rid a)
  | RMapEv k a => RMapEv k (dropreq rid a)
  end.

(* ---------- direct host of the reference semantics ---------- *)
Record rreq := mkRR { rr_eff : reff; rr_state : nat (* 0 never/used, 1 once-open, 2 many, 3 dropped *) }.
Record rstate := mkRSt { r_c : rc; r_n : nat; r_effs : list reff; r_evs : list event; r_reqs : list rreq }.

Fixpoint find_rr (tg v occ : nat) (i : nat) (l : list rreq) : option nat :=
  match l with
  | [] => None
  | r :: rest =>
    if Nat.eqb (re_tag (rr_eff r)) tg && Nat.eqb (re_val (rr_eff r)) v
    then (match occ with 0 => Some i | S occ' => find_rr tg v occ' (S i) rest end)
    else find_rr tg v occ (S i) rest
  end.
Definition set_nth {A} (i : nat) (x : A) (l : list A) : list A :=
  firstn i l ++ match skipn i l with [] => [] | _ :: t => x :: t end.

Inductive robs :=
| ROEffects (l : list reff) | ROEvents (l : list event) | RODone (b : bool) | ROResolve (code : nat) | RONone.

Definition RF := 2000.   (* the fuel the generated case files use *)
Definition radvance (fuel : nat) (st : rstate) : option rstate :=
  match run fuel [] (r_c st) (r_n st) with
  | None => None
  | Some (c', n', o) => Some (mkRSt c' n' (r_effs st ++ ro_effs o) (r_evs st ++ ro_evs o) (r_reqs st))
  end.

Definition rstep (fuel : nat) (a : action) (st : rstate) : option (robs * rstate) :=
  match a with
  | AEffects => match radvance fuel st with None => None | Some s1 =>
      Some (ROEffects (r_effs s1), mkRSt (r_c s1) (r_n s1) [] (r_evs s1)
              (r_reqs s1 ++ map (fun e => mkRR e (re_kind e)) (r_effs s1))) end
  | AEvents => match radvance fuel st with None => None | Some s1 =>
      Some (ROEvents (r_evs s1), mkRSt (r_c s1) (r_n s1) (r_effs s1) [] (r_reqs s1)) end
  | AIsDone => match radvance fuel st with None => None | Some s1 =>
      Some (RODone (rdone (r_c s1) && match r_effs s1, r_evs s1 with [], [] => true | _, _ => false end), s1) end
  | AResolve tg v occ out =>
      match find_rr tg v occ 0 (r_reqs st) with
      | None => Some (ROResolve 3, st)
      | Some i =>
        let r := nth i (r_reqs st) (mkRR (mkRE 0 0 [] 0 0) 3) in
        match rr_state r with
        | 0 => Some (ROResolve 1, st)
        | 1 => let (_, c') := deliver (re_rid (rr_eff r)) out (r_c st) in
               Some (ROResolve 0, mkRSt c' (r_n st) (r_effs st) (r_evs st) (set_nth i (mkRR (rr_eff r) 0) (r_reqs st)))
        | 2 => let (took, c') := deliver (re_rid (rr_eff r)) out (r_c st) in
               if took then Some (ROResolve 0, mkRSt c' (r_n st) (r_effs st) (r_evs st) (r_reqs st))
               else Some (ROResolve 2, st)
        | _ => Some (ROResolve 3, st)
        end
      end
  | ADropReq tg v occ =>
      match find_rr tg v occ 0 (r_reqs st) with
      | None => Some (RONone, st)
      | Some i =>
        let r := nth i (r_reqs st) (mkRR (mkRE 0 0 [] 0 0) 3) in
        match rr_state r with
        | 3 => Some (RONone, st)
        | 0 => Some (RONone, mkRSt (r_c st) (r_n st) (r_effs st) (r_evs st) (set_nth i (mkRR (rr_eff r) 3) (r_reqs st)))
        | _ => Some (RONone, mkRSt (dropreq (re_rid (rr_eff r)) (r_c st)) (r_n st) (r_effs st) (r_evs st) (set_nth i (mkRR (rr_eff r) 3) (r_reqs st)))
        end
      end
  | AAbort _ | AEvent _ _ | ALive => Some (RONone, st)
  | ASpawn t =>
      (* one more strand of the outermost command: it runs beside whatever is there *)
      Some (RONone, mkRSt (RPar [r_c st; RBag (start_bag [] t [])]) (r_n st) (r_effs st) (r_evs st) (r_reqs st))
  end.

Fixpoint rrun (fuel : nat) (acts : list action) (st : rstate) : option (list robs) :=
  match acts with
  | [] => Some []
  | a :: r => match rstep fuel a st with
              | None => None
              | Some (o, st') => match rrun fuel r st' with None => None | Some os => Some (o :: os) end
              end
  end.
Definition ref_direct (fuel : nat) (c : cmd) (acts : list action) : option (list robs) :=
  rrun fuel acts (mkRSt (start [] c) 0 [] [] []).

(* the abort-free fragment *)
Fixpoint task_abort_free (t : task) : bool :=
  match t with
  | TRet => true
  | TEmit _ _ k | TNotify _ _ k | TReq _ _ _ k | TJoin _ k | TYield _ k => task_abort_free k
  | TBoth _ _ _ _ _ _ k | TBothJ _ _ _ _ k | TRace _ _ _ _ _ k => task_abort_free k
  | TForEach _ _ _ b k => task_abort_free b && task_abort_free k
  | TSpawn c _ k => task_abort_free c && task_abort_free k
  | TAbortT _ _ | TAbortC _ _ | TLegReq _ _ _ _ | TBothL _ _ _ _ _ _ _ => false
  | THost _ _ _ _ _ _ => false
  end.
Fixpoint cmd_abort_free (c : cmd) : bool :=
  match c with
  | CNew m ex => task_abort_free m && forallb task_abort_free ex
  | CThen a b | CAnd a b => cmd_abort_free a && cmd_abort_free b
  | CAll cs => forallb cmd_abort_free cs
  | CMapEff _ c' | CMapEv _ c' | CIdEff c' | CIdEv c' | CInto c' => cmd_abort_free c'
  | CAbortable _ _ => false
  | CSendR _ _ | CSendS _ _ => true
  end.
Definition sched_abort_free (acts : list action) : bool :=
  forallb (fun a => match a with AAbort _ => false | ASpawn t => task_abort_free t | _ => true end) acts.
