(* C13 at the level of one task: what the executor does to a task that completed, was aborted, or was evicted
   (run_until_settled's `tasks.remove(id); finished.store(true); wake_join_handles(); drop(task)` = finish_task)
   releases it: its slot in the command's slab is vacant, its flag says finished and gone, the list of join waiters is
   empty (all of them have been woken), and the drop of its future has run.  Wakes and drop glue never put anything
   back: they leave every command's task table as it is or empty it. *)
From Coq Require Import List Arith Bool Lia.
From Crux Require Import Rt.Lang Rt.Rt Rt.Tables Rt.Frame Rt.Perm.
Import ListNotations.

(* the task table of every command is left alone or emptied *)
Definition Rent (H H' : heap) : Prop := forall c, c_ent (gcmd c H') = c_ent (gcmd c H) \/ c_ent (gcmd c H') = [].
Lemma Rent_refl H : Rent H H. Proof. intros c; left; reflexivity. Qed.
Lemma Rent_trans a b c : Rent a b -> Rent b c -> Rent a c.
Proof. intros A B x. destruct (B x) as [E|E]; [rewrite E; apply A | right; exact E]. Qed.
Lemma Rent_same H H' : cmds H' = cmds H -> Rent H H'. Proof. intros E c. unfold gcmd. rewrite E. left; reflexivity. Qed.
Lemma Rent_ucmd c f H : (forall cm, c_ent (f cm) = c_ent cm \/ c_ent (f cm) = []) -> Rent H (ucmd c f H).
Proof.
  intros Hf c'. destruct (Nat.eq_dec c c') as [->|Hn].
  - rewrite gcmd_ucmd_same. apply Hf.
  - rewrite gcmd_ucmd_other by exact Hn. left; reflexivity.
Qed.
Lemma Rent_fold {A} (g : heap -> A -> heap) (l : list A) : (forall x H, Rent H (g H x)) -> forall H, Rent H (fold_left g l H).
Proof. intros Hg. induction l as [|x l IH]; intros H; simpl; [apply Rent_refl|]. eapply Rent_trans; [apply Hg | apply IH]. Qed.
Ltac keep_ent := apply Rent_ucmd; intros cm; left; destruct cm; reflexivity.

Lemma Rent_wake : forall f w H, Rent H (wake f w H).
Proof.
  induction f as [|f IH]; intros w H; unfold wake; fold wake;
    (destruct w as [c s g|q]; [|apply Rent_same; reflexivity]);
    set (H1 := if c_alive (gcmd c H) then ucmd c (fun cm => set_ready (c_ready cm ++ [s]) cm) H else H);
    (assert (S1 : Rent H H1) by (subst H1; destruct (c_alive (gcmd c H)); [keep_ent | apply Rent_refl]));
    (assert (S2 : Rent H (set_woken g H1)) by (eapply Rent_trans; [exact S1 | apply Rent_same; reflexivity]));
    destruct (c_atomic (gcmd c (set_woken g H1))) as [w'|]; try exact S2;
    try (eapply Rent_trans; [exact S2 | apply Rent_same; reflexivity]).
  eapply Rent_trans; [exact S2|]. eapply Rent_trans; [|apply IH]. keep_ent.
Qed.
Lemma Rent_uch c f H : Rent H (uch c f H). Proof. apply Rent_same; reflexivity. Qed.
Lemma Rent_utf u f H : Rent H (utf u f H). Proof. apply Rent_same; reflexivity. Qed.
Lemma Rent_wake_cell ch H : Rent H (wake_cell ch H).
Proof. unfold wake_cell. destruct (ch_wk (gch ch H)); [|apply Rent_refl]. eapply Rent_trans; [apply Rent_uch | apply Rent_wake]. Qed.
Lemma Rent_chan_drop_tx ch H : Rent H (chan_drop_tx ch H).
Proof. unfold chan_drop_tx. destruct (ch_tx (gch ch H)); [|apply Rent_refl]. eapply Rent_trans; [apply Rent_uch | apply Rent_wake_cell]. Qed.
Lemma Rent_chan_drop_rx ch H : Rent H (chan_drop_rx ch H). Proof. apply Rent_uch. Qed.
Lemma Rent_drop_req e H : Rent H (drop_req e H).
Proof. unfold drop_req. destruct (e_res e); [apply Rent_refl | apply Rent_chan_drop_tx | apply Rent_chan_drop_tx | apply Rent_refl]. Qed.
Lemma Rent_kill_flag u H : Rent H (kill_flag u H). Proof. apply Rent_utf. Qed.
Lemma Rent_sub_drop q H : Rent H (sub_drop q H).
Proof. unfold sub_drop. destruct q as [s d tg v ch|m|s tg v ch|u]; [|apply Rent_refl|apply Rent_chan_drop_rx|apply Rent_refl]. destruct d; [apply Rent_refl | apply Rent_chan_drop_rx]. Qed.

Lemma Rent_drop : forall fuel, (forall fs H, Rent H (drop_fs fuel fs H)) /\ (forall cid H, Rent H (drop_cmd fuel cid H)).
Proof.
  induction fuel as [|f [IHfs IHcmd]]; split; intros; try apply Rent_refl.
  - unfold drop_fs; fold drop_fs; fold drop_cmd.
    match goal with |- Rent H (fold_left ?g ?l ?H1) => eapply Rent_trans; [|apply (Rent_fold g)] end.
    + destruct (f_leaf fs); try apply Rent_refl.
      * destruct dead; [apply Rent_refl | apply Rent_chan_drop_rx].
      * apply IHcmd.
      * apply Rent_chan_drop_rx.
      * eapply Rent_trans; apply Rent_sub_drop.
      * eapply Rent_trans; apply Rent_sub_drop.
    + intros fr Hh. apply Rent_chan_drop_rx.
  - unfold drop_cmd; fold drop_fs; fold drop_cmd.
    repeat match goal with |- Rent _ (fold_left ?g ?l ?H1) => eapply Rent_trans; [|apply (Rent_fold g)] end.
    + apply Rent_ucmd. intros cm. right. destruct cm; reflexivity.
    + intros e Hh. apply Rent_drop_req.
    + intros t Hh. eapply Rent_trans; [apply IHfs | apply Rent_kill_flag].
    + intros e Hh. destruct e; [|apply Rent_refl]. eapply Rent_trans; [apply IHfs | apply Rent_kill_flag].
Qed.

(* a vacant slot stays vacant when the table is left alone or emptied *)
Lemma slab_get_nil s cm : c_ent cm = [] -> slab_get s cm = None.
Proof. intros E. unfold slab_get. rewrite E. destruct s; reflexivity. Qed.
Lemma Rent_vacant H H' c s : Rent H H' -> slab_get s (gcmd c H) = None -> slab_get s (gcmd c H') = None.
Proof.
  intros R V. destruct (R c) as [E|E]; [|apply slab_get_nil; exact E].
  unfold slab_get in *. rewrite E. exact V.
Qed.
Lemma slab_get_remove s cm : slab_get s (slab_remove s cm) = None.
Proof.
  unfold slab_get, slab_remove, set_slab. destruct cm; simpl.
  match goal with |- match nth_error (updd ?d s ?f ?l) s with _ => _ end = None =>
    assert (X : nth_error (updd d s f l) s = Some (f (getd d s l))) end.
  { clear. revert s. induction c_ent as [|x l IH]; intros [|s]; cbn [updd nth_error getd nth]; try reflexivity.
    - induction s as [|s IHs]; cbn [updd nth_error]; [reflexivity|]. exact IHs.
    - apply IH. }
  rewrite X. reflexivity.
Qed.

(* the flags of the finished task *)
Lemma gtf_utf_same u f H : gtf u (utf u f H) = f (gtf u H).
Proof. unfold gtf, utf; cbn [tfl]. apply getd_updd_same. Qed.

Theorem finish_task_releases : forall cid s t H,
  let H' := finish_task cid s t H in
  slab_get s (gcmd cid H') = None /\
  tf_alive (gtf (t_uid t) H') = false /\
  tf_fin (gtf (t_uid t) H') = true.
Proof.
  intros cid s t H. unfold finish_task. cbv zeta.
  set (H4 := ucmd cid (slab_remove s) H).
  set (H5 := utf (t_uid t) (fun tf => mkTF true (tf_abort tf) (tf_alive tf) []) H4).
  set (H6 := fold_left (fun Hh wk => wake (wfuel wk) wk Hh) (tf_joinw (gtf (t_uid t) H4)) H5).
  assert (V4 : slab_get s (gcmd cid H4) = None) by (unfold H4; rewrite gcmd_ucmd_same; apply slab_get_remove).
  assert (R : Rent H4 (kill_flag (t_uid t) (drop_fs (dfuel H6) (t_fs t) H6))).
  { eapply Rent_trans; [|apply Rent_kill_flag]. eapply Rent_trans; [|apply (proj1 (Rent_drop _))].
    apply (Rent_trans _ H5); [unfold H5; apply Rent_utf|]. apply (Rent_fold (fun Hh wk => wake (wfuel wk) wk Hh)). intros wk Hh. apply Rent_wake. }
  split; [exact (Rent_vacant _ _ cid s R V4)|]. split.
  - unfold kill_flag. rewrite gtf_utf_same. reflexivity.
  - unfold kill_flag. rewrite gtf_utf_same. cbn [tf_fin].
    assert (F5 : tf_fin (gtf (t_uid t) H5) = true) by (unfold H5; rewrite gtf_utf_same; reflexivity).
    assert (P : Rperm H5 (drop_fs (dfuel H6) (t_fs t) H6)).
    { eapply Rperm_trans.
      - apply (R_fold Rperm Rperm_refl Rperm_trans (fun Hh wk => wake (wfuel wk) wk Hh)). intros wk Hh.
        apply (R_wake Rperm Rperm_refl Rperm_trans Rperm_ucmd); intros; apply Rperm_same; reflexivity.
      - apply (R_drop_fs Rperm Rperm_refl Rperm_trans Rperm_ucmd Rperm_uch Rperm_utf); intros; apply Rperm_same; reflexivity. }
    exact (pm_fin _ _ P _ F5).
Qed.

(* ---------- containment: the other tasks are left exactly as they were ---------- *)
Lemma nth_error_updd_other {A} (d : A) f : forall n l m, n <> m ->
  nth_error (updd d n f l) m = nth_error l m \/ (nth_error l m = None /\ nth_error (updd d n f l) m = Some d).
Proof.
  induction n as [|n IH]; intros l m Hne.
  - destruct m as [|m]; [congruence|]. destruct l as [|x xs]; left.
    + change (updd d 0 f []) with [f d]. destruct m; reflexivity.
    + change (updd d 0 f (x :: xs)) with (f x :: xs). reflexivity.
  - destruct l as [|x xs].
    + change (updd d (S n) f []) with (d :: updd d n f []). destruct m as [|m].
      * right. split; reflexivity.
      * change (nth_error (d :: updd d n f []) (S m)) with (nth_error (updd d n f []) m).
        change (nth_error (@nil A) (S m)) with (@None A).
        destruct (IH [] m ltac:(congruence)) as [E|(E1 & E2)].
        -- left. rewrite E. destruct m; reflexivity.
        -- right. split; [reflexivity | exact E2].
    + change (updd d (S n) f (x :: xs)) with (x :: updd d n f xs). destruct m as [|m]; [left; reflexivity|].
      change (nth_error (x :: updd d n f xs) (S m)) with (nth_error (updd d n f xs) m).
      change (nth_error (x :: xs) (S m)) with (nth_error xs m). apply IH. congruence.
Qed.
Lemma slab_get_remove_other s s' cm : s <> s' -> slab_get s' (slab_remove s cm) = slab_get s' cm.
Proof.
  intros Hne. unfold slab_get, slab_remove, set_slab. destruct cm; simpl.
  destruct (nth_error_updd_other (Vac 0) (fun _ : entry => Vac c_next) s c_ent s' Hne) as [E|(E1 & E2)]; [rewrite E; reflexivity|].
  rewrite E1, E2. reflexivity.
Qed.

Theorem finish_task_contained : forall cid s t H,
  let H' := finish_task cid s t H in
  (forall s', s' <> s -> slab_get s' (gcmd cid H') = slab_get s' (gcmd cid H) \/ c_ent (gcmd cid H') = []) /\
  (forall c', c' <> cid -> c_ent (gcmd c' H') = c_ent (gcmd c' H) \/ c_ent (gcmd c' H') = []).
Proof.
  intros cid s t H. unfold finish_task. cbv zeta.
  set (H4 := ucmd cid (slab_remove s) H).
  set (H5 := utf (t_uid t) (fun tf => mkTF true (tf_abort tf) (tf_alive tf) []) H4).
  set (H6 := fold_left (fun Hh wk => wake (wfuel wk) wk Hh) (tf_joinw (gtf (t_uid t) H4)) H5).
  assert (R : Rent H4 (kill_flag (t_uid t) (drop_fs (dfuel H6) (t_fs t) H6))).
  { eapply Rent_trans; [|apply Rent_kill_flag]. eapply Rent_trans; [|apply (proj1 (Rent_drop _))].
    apply (Rent_trans _ H5); [unfold H5; apply Rent_utf|]. apply (Rent_fold (fun Hh wk => wake (wfuel wk) wk Hh)). intros wk Hh. apply Rent_wake. }
  split.
  - intros s' Hne. destruct (R cid) as [E|E]; [left | right; exact E].
    unfold slab_get at 1. rewrite E. unfold H4. rewrite gcmd_ucmd_same.
    change (slab_get s' (slab_remove s (gcmd cid H)) = slab_get s' (gcmd cid H)). apply slab_get_remove_other. congruence.
  - intros c' Hne. destruct (R c') as [E|E]; [left | right; exact E].
    rewrite E. unfold H4. rewrite gcmd_ucmd_other by congruence. reflexivity.
Qed.

(* ---------- command-level abort: run_until_settled of an aborted command ---------- *)
(* `self.tasks.clear(); return`: the tasks of the aborted command are dropped; every OTHER command's task table is left
   alone or - for the commands hosted below the aborted one, which are dropped with their hosting futures - emptied. *)
Theorem aborted_settle_contained : forall f x H H',
  was_aborted x H = true -> settle (S f) x H = Some H' ->
  forall c', c_ent (gcmd c' H') = c_ent (gcmd c' H) \/ c_ent (gcmd c' H') = [].
Proof.
  intros f x H H' A E. unfold settle in E. cbn [funs step_funs rsettle] in E. unfold settle_body in E. rewrite A in E.
  inversion E; subst; clear E.
  assert (R : Rent H (note B_AbortClear
     (fold_left (fun Hh e => match e with Occ t => kill_flag (t_uid t) (drop_fs (dfuel Hh) (t_fs t) Hh) | Vac _ => Hh end)
                (c_ent (gcmd x H)) (ucmd x slab_clear H)))).
  { eapply Rent_trans; [|apply Rent_same; reflexivity].
    eapply Rent_trans; [|apply (Rent_fold (fun Hh e => match e with Occ t => kill_flag (t_uid t) (drop_fs (dfuel Hh) (t_fs t) Hh) | Vac _ => Hh end))].
    - apply Rent_ucmd. intros cm. right. destruct cm; reflexivity.
    - intros e Hh. destruct e; [|apply Rent_refl]. eapply Rent_trans; [apply (proj1 (Rent_drop (dfuel Hh))) | apply Rent_kill_flag]. }
  exact R.
Qed.

(* ---------- the OUTPUT queues of every command are left alone or emptied by wakes and drop glue ---------- *)
Definition Rout (H H' : heap) : Prop := forall c,
  (c_evs (gcmd c H') = c_evs (gcmd c H) /\ c_eff (gcmd c H') = c_eff (gcmd c H)) \/ (c_evs (gcmd c H') = [] /\ c_eff (gcmd c H') = []).
Lemma Rout_refl H : Rout H H. Proof. intros c; left; split; reflexivity. Qed.
Lemma Rout_trans a b c : Rout a b -> Rout b c -> Rout a c.
Proof. intros A B x. destruct (B x) as [(E1 & E2)|E]; [rewrite E1, E2; apply A | right; exact E]. Qed.
Lemma Rout_same H H' : cmds H' = cmds H -> Rout H H'. Proof. intros E c. unfold gcmd. rewrite E. left; split; reflexivity. Qed.
Lemma Rout_ucmd c f H : (forall cm, (c_evs (f cm) = c_evs cm /\ c_eff (f cm) = c_eff cm) \/ (c_evs (f cm) = [] /\ c_eff (f cm) = [])) -> Rout H (ucmd c f H).
Proof.
  intros Hf c'. destruct (Nat.eq_dec c c') as [->|Hn].
  - rewrite gcmd_ucmd_same. apply Hf.
  - rewrite gcmd_ucmd_other by exact Hn. left; split; reflexivity.
Qed.
Lemma Rout_fold {A} (g : heap -> A -> heap) (l : list A) : (forall x H, Rout H (g H x)) -> forall H, Rout H (fold_left g l H).
Proof. intros Hg. induction l as [|x l IH]; intros H; simpl; [apply Rout_refl|]. eapply Rout_trans; [apply Hg | apply IH]. Qed.
Ltac keep_out := apply Rout_ucmd; intros cm; left; destruct cm; split; reflexivity.

Lemma Rout_wake : forall f w H, Rout H (wake f w H).
Proof.
  induction f as [|f IH]; intros w H; unfold wake; fold wake;
    (destruct w as [c s g|q]; [|apply Rout_same; reflexivity]);
    set (H1 := if c_alive (gcmd c H) then ucmd c (fun cm => set_ready (c_ready cm ++ [s]) cm) H else H);
    (assert (S1 : Rout H H1) by (subst H1; destruct (c_alive (gcmd c H)); [keep_out | apply Rout_refl]));
    (assert (S2 : Rout H (set_woken g H1)) by (eapply Rout_trans; [exact S1 | apply Rout_same; reflexivity]));
    destruct (c_atomic (gcmd c (set_woken g H1))) as [w'|]; try exact S2;
    try (eapply Rout_trans; [exact S2 | apply Rout_same; reflexivity]).
  eapply Rout_trans; [exact S2|]. eapply Rout_trans; [|apply IH]. keep_out.
Qed.
Lemma Rout_uch c f H : Rout H (uch c f H). Proof. apply Rout_same; reflexivity. Qed.
Lemma Rout_utf u f H : Rout H (utf u f H). Proof. apply Rout_same; reflexivity. Qed.
Lemma Rout_wake_cell ch H : Rout H (wake_cell ch H).
Proof. unfold wake_cell. destruct (ch_wk (gch ch H)); [|apply Rout_refl]. eapply Rout_trans; [apply Rout_uch | apply Rout_wake]. Qed.
Lemma Rout_chan_drop_tx ch H : Rout H (chan_drop_tx ch H).
Proof. unfold chan_drop_tx. destruct (ch_tx (gch ch H)); [|apply Rout_refl]. eapply Rout_trans; [apply Rout_uch | apply Rout_wake_cell]. Qed.
Lemma Rout_chan_drop_rx ch H : Rout H (chan_drop_rx ch H). Proof. apply Rout_uch. Qed.
Lemma Rout_drop_req e H : Rout H (drop_req e H).
Proof. unfold drop_req. destruct (e_res e); [apply Rout_refl | apply Rout_chan_drop_tx | apply Rout_chan_drop_tx | apply Rout_refl]. Qed.
Lemma Rout_kill_flag u H : Rout H (kill_flag u H). Proof. apply Rout_utf. Qed.
Lemma Rout_sub_drop q H : Rout H (sub_drop q H).
Proof. unfold sub_drop. destruct q as [s d tg v ch|m|s tg v ch|u]; [|apply Rout_refl|apply Rout_chan_drop_rx|apply Rout_refl]. destruct d; [apply Rout_refl | apply Rout_chan_drop_rx]. Qed.

Lemma Rout_drop : forall fuel, (forall fs H, Rout H (drop_fs fuel fs H)) /\ (forall cid H, Rout H (drop_cmd fuel cid H)).
Proof.
  induction fuel as [|f [IHfs IHcmd]]; split; intros; try apply Rout_refl.
  - unfold drop_fs; fold drop_fs; fold drop_cmd.
    match goal with |- Rout H (fold_left ?g ?l ?H1) => eapply Rout_trans; [|apply (Rout_fold g)] end.
    + destruct (f_leaf fs); try apply Rout_refl.
      * destruct dead; [apply Rout_refl | apply Rout_chan_drop_rx].
      * apply IHcmd.
      * apply Rout_chan_drop_rx.
      * eapply Rout_trans; apply Rout_sub_drop.
      * eapply Rout_trans; apply Rout_sub_drop.
    + intros fr Hh. apply Rout_chan_drop_rx.
  - unfold drop_cmd; fold drop_fs; fold drop_cmd.
    repeat match goal with |- Rout _ (fold_left ?g ?l ?H1) => eapply Rout_trans; [|apply (Rout_fold g)] end.
    + apply Rout_ucmd. intros cm. right. destruct cm; split; reflexivity.
    + intros e Hh. apply Rout_drop_req.
    + intros t Hh. eapply Rout_trans; [apply IHfs | apply Rout_kill_flag].
    + intros e Hh. destruct e; [|apply Rout_refl]. eapply Rout_trans; [apply IHfs | apply Rout_kill_flag].
Qed.


(* disposing of a cancelled task, and settling an aborted command, never add to, reorder or take from the output
   queues of any OTHER command: each is left exactly as it was, or (a command dropped on the way) emptied *)
Theorem finish_task_outputs_contained : forall cid s t H c',
  c' <> cid ->
  (c_evs (gcmd c' (finish_task cid s t H)) = c_evs (gcmd c' H) /\ c_eff (gcmd c' (finish_task cid s t H)) = c_eff (gcmd c' H)) \/
  (c_evs (gcmd c' (finish_task cid s t H)) = [] /\ c_eff (gcmd c' (finish_task cid s t H)) = []).
Proof.
  intros cid s t H c' Hne. unfold finish_task. cbv zeta.
  set (H4 := ucmd cid (slab_remove s) H).
  set (H5 := utf (t_uid t) (fun tf => mkTF true (tf_abort tf) (tf_alive tf) []) H4).
  set (H6 := fold_left (fun Hh wk => wake (wfuel wk) wk Hh) (tf_joinw (gtf (t_uid t) H4)) H5).
  assert (R : Rout H4 (kill_flag (t_uid t) (drop_fs (dfuel H6) (t_fs t) H6))).
  { eapply Rout_trans; [|apply Rout_kill_flag]. eapply Rout_trans; [|apply (proj1 (Rout_drop _))].
    apply (Rout_trans _ H5); [unfold H5; apply Rout_utf|]. apply (Rout_fold (fun Hh wk => wake (wfuel wk) wk Hh)). intros wk Hh. apply Rout_wake. }
  destruct (R c') as [(E1 & E2)|E]; [left | right; exact E].
  rewrite E1, E2. unfold H4. rewrite gcmd_ucmd_other by congruence. split; reflexivity.
Qed.
Theorem aborted_settle_outputs_contained : forall f x H H',
  was_aborted x H = true -> settle (S f) x H = Some H' ->
  forall c', c' <> x ->
  (c_evs (gcmd c' H') = c_evs (gcmd c' H) /\ c_eff (gcmd c' H') = c_eff (gcmd c' H)) \/ (c_evs (gcmd c' H') = [] /\ c_eff (gcmd c' H') = []).
Proof.
  intros f x H H' A E c' Hne. unfold settle in E. cbn [funs step_funs rsettle] in E. unfold settle_body in E. rewrite A in E.
  inversion E; subst; clear E.
  assert (R : Rout (ucmd x slab_clear H) (note B_AbortClear
     (fold_left (fun Hh e => match e with Occ t => kill_flag (t_uid t) (drop_fs (dfuel Hh) (t_fs t) Hh) | Vac _ => Hh end)
                (c_ent (gcmd x H)) (ucmd x slab_clear H)))).
  { eapply Rout_trans; [|apply Rout_same; reflexivity].
    apply (Rout_fold (fun Hh e => match e with Occ t => kill_flag (t_uid t) (drop_fs (dfuel Hh) (t_fs t) Hh) | Vac _ => Hh end)).
    intros e Hh. destruct e; [|apply Rout_refl]. eapply Rout_trans; [apply (proj1 (Rout_drop (dfuel Hh))) | apply Rout_kill_flag]. }
  destruct (R c') as [(E1 & E2)|E0]; [left | right; exact E0].
  rewrite E1, E2. rewrite gcmd_ucmd_other by congruence. split; reflexivity.
Qed.
