(* Eviction soundness (C07): when run_task answers Cancelled, the task was not blocked on anything the
   shell or another task can still complete: a pending poll registers the poll's waker in every open
   cell of the future's wait-set ("poll_registers"), and a registered waker makes run_task answer
   Suspended.  Proved for every leaf future of the task language except the hosting leaf. *)
From Coq Require Import List Arith Bool Lia.
From Crux Require Import Rt.Lang Rt.Rt Rt.Tables Rt.Frame Rt.Props.
Import ListNotations.

Definition registered (ch : nat) (w : waker) (H : heap) : Prop :=
  ch_wk (gch ch H) = Some w /\ ch < length (chans H).
Definition sub_ok (w : waker) (q : subreq) (H : heap) : Prop :=
  match q with SQ _ false _ _ ch => registered ch w H | SL _ _ _ ch => registered ch w H
  | SJ u => In w (tf_joinw (gtf u H)) /\ u < length (tfl H) | _ => True end.
Definition woken_of (w : waker) (H : heap) : Prop :=
  match w with WCmd _ _ g => getd false g (woken H) = true | WExec _ => True end.

(* what a Pending poll guarantees about the state it leaves behind *)
Definition post (w : waker) (fs' : fstate) (H' : heap) : Prop :=
  match f_leaf fs' with
  | LRun _ => False
  | LReq _ dead _ _ ch _ _ => dead = false -> registered ch w H'
  | LStr => match f_stack fs' with fr :: _ => registered (fr_ch fr) w H' | [] => False end
  | LJoin u _ => In w (tf_joinw (gtf u H')) /\ u < length (tfl H')
  | LBoth a b _ _ _ | LRace a b _ _ => sub_ok w a H' /\ sub_ok w b H'
  | LYield _ _ => woken_of w H'
  | LLeg _ _ _ ch _ _ => registered ch w H'
  | LHost _ _ _ _ => True
  end.

(* ---------- small facts about channels ---------- *)
Lemma gch_uch_same c f H : gch c (uch c f H) = f (gch c H).
Proof. unfold gch, uch; simpl. apply getd_updd_same. Qed.
Lemma gch_uch_other c c' f H : c <> c' -> gch c' (uch c f H) = gch c' H.
Proof. intros Hne. unfold gch, uch; simpl. apply getd_updd_other; exact Hne. Qed.
Lemma length_uch c f H : length (chans H) <= length (chans (uch c f H)).
Proof. unfold uch; simpl. apply length_updd. Qed.

Lemma registered_chan_reg ch w H : registered ch w (chan_reg ch w H).
Proof.
  unfold registered, chan_reg. rewrite gch_uch_same. split; [reflexivity|].
  unfold uch; simpl. apply lt_length_updd.
Qed.
(* operations that keep a registration: anything that leaves chans alone *)
Lemma registered_same_chans ch w H H' : chans H' = chans H -> registered ch w H -> registered ch w H'.
Proof. unfold registered, gch. intros ->. auto. Qed.
Lemma registered_push_eff ch w c e H : registered ch w H -> registered ch w (push_eff c e H).
Proof. apply registered_same_chans. reflexivity. Qed.
Lemma registered_push_hout ch w e H : registered ch w H -> registered ch w (push_hout e H).
Proof. apply registered_same_chans. reflexivity. Qed.
Lemma registered_note ch w n H : registered ch w H -> registered ch w (note n H).
Proof. apply registered_same_chans. reflexivity. Qed.
(* re-registering the same waker elsewhere, or closing another receiver, keeps it *)
Lemma registered_uch_keep ch w c f H :
  (forall x, ch_wk x = Some w -> ch_wk (f x) = Some w) -> c <> ch \/ True ->
  registered ch w H -> registered ch w (uch c f H).
Proof.
  intros Hf _ (E & L). split.
  - destruct (Nat.eq_dec c ch) as [->|Hne]; [rewrite gch_uch_same; apply Hf; exact E | rewrite gch_uch_other by exact Hne; exact E].
  - pose proof (length_uch c f H). lia.
Qed.
Lemma registered_chan_reg_other ch w c H : registered ch w H -> registered ch w (chan_reg c w H).
Proof. intros R. unfold chan_reg. apply registered_uch_keep; auto. Qed.
Lemma registered_chan_drop_rx ch w c H : registered ch w H -> registered ch w (chan_drop_rx c H).
Proof. intros R. unfold chan_drop_rx. apply registered_uch_keep; auto. Qed.

(* req_poll: a pending, not-dead request has registered the waker; other registrations of w survive *)
Lemma req_poll_registers c w sent dead tg v ch H s' d' H' :
  req_poll c w sent dead tg v ch H = (None, s', d', H') -> d' = false -> registered ch w H'.
Proof.
  unfold req_poll. destruct dead; [intros E; inversion E; subst; discriminate|].
  destruct (negb sent).
  - intros E _; inversion E; subst. apply registered_push_eff, registered_chan_reg.
  - destruct (ch_buf (gch ch H)); [|intros E; inversion E].
    destruct (ch_tx (gch ch H)); intros E D; inversion E; subst; [apply registered_chan_reg | discriminate].
Qed.
Lemma req_poll_keeps c w sent dead tg v ch H o s' d' H' ch0 :
  req_poll c w sent dead tg v ch H = (o, s', d', H') -> registered ch0 w H -> registered ch0 w H'.
Proof.
  unfold req_poll. destruct dead; [intros E; inversion E; subst; auto|].
  destruct (negb sent).
  - intros E R; inversion E; subst. apply registered_push_eff, registered_chan_reg_other, R.
  - destruct (ch_buf (gch ch H)).
    + destruct (ch_tx (gch ch H)); intros E R; inversion E; subst.
      * apply registered_chan_reg_other, R.
      * apply registered_note, registered_chan_drop_rx, R.
    + intros E R; inversion E; subst. apply registered_chan_drop_rx, R.
Qed.
Definition joined (u : nat) (w : waker) (H : heap) : Prop := In w (tf_joinw (gtf u H)) /\ u < length (tfl H).
Lemma joined_same_tfl u w H H' : tfl H' = tfl H -> joined u w H -> joined u w H'.
Proof. unfold joined, gtf. intros ->. auto. Qed.
Lemma registered_utf ch w u f H : registered ch w H -> registered ch w (utf u f H).
Proof. apply registered_same_chans. reflexivity. Qed.
Lemma joined_utf_app u0 w u w' H :
  joined u0 w H -> joined u0 w (utf u (fun tf => mkTF (tf_fin tf) (tf_abort tf) (tf_alive tf) (tf_joinw tf ++ [w'])) H).
Proof.
  intros (I & L). unfold joined, gtf, utf; simpl. split.
  - destruct (Nat.eq_dec u u0) as [->|Hne].
    + rewrite getd_updd_same. simpl. apply in_or_app. left. exact I.
    + rewrite getd_updd_other by exact Hne. exact I.
  - pose proof (length_updd tf0 u (fun tf => mkTF (tf_fin tf) (tf_abort tf) (tf_alive tf) (tf_joinw tf ++ [w'])) (tfl H)). lia.
Qed.
Lemma joined_utf_new u w H :
  joined u w (utf u (fun tf => mkTF (tf_fin tf) (tf_abort tf) (tf_alive tf) (tf_joinw tf ++ [w])) H).
Proof.
  unfold joined, gtf, utf; simpl. split.
  - rewrite getd_updd_same. simpl. apply in_or_app. right. left. reflexivity.
  - apply lt_length_updd.
Qed.
Lemma req_poll_tfl c w sent dead tg v ch H o s' d' H' : req_poll c w sent dead tg v ch H = (o, s', d', H') -> tfl H' = tfl H.
Proof.
  unfold req_poll. destruct dead; [intros E; inversion E; reflexivity|].
  destruct (negb sent); [intros E; inversion E; reflexivity|].
  destruct (ch_buf (gch ch H)); [|intros E; inversion E; reflexivity].
  destruct (ch_tx (gch ch H)); intros E; inversion E; reflexivity.
Qed.

Lemma sub_poll_ok c w q H q' H' : sub_poll c w q H = (q', H') -> sub_ok w q' H'.
Proof.
  unfold sub_poll. destruct q as [sent dead tg v ch|m|sent tg v ch|u].
  - destruct (req_poll c w sent dead tg v ch H) as [[[o s'] d'] H1] eqn:E1.
    destruct o; intros E; inversion E; subst; [exact I|].
    unfold sub_ok. destruct d'; [exact I|]. eapply req_poll_registers; eauto.
  - intros E; inversion E; subst; exact I.
  - match goal with |- context[ch_buf (gch ch ?Hx)] => destruct (ch_buf (gch ch Hx)) end; intros E; inversion E; subst.
    + unfold sub_ok. apply registered_chan_reg.
    + exact I.
  - destruct (tf_fin (gtf u H)); [intros E; inversion E; subst; exact I|].
    destruct (tf_alive (gtf u H)); intros E; inversion E; subst; [|exact I].
    unfold sub_ok. apply joined_utf_new.
Qed.
Lemma sub_ok_keep w q0 H H' :
  (forall ch0, registered ch0 w H -> registered ch0 w H') ->
  (forall u0, joined u0 w H -> joined u0 w H') -> sub_ok w q0 H -> sub_ok w q0 H'.
Proof.
  intros K KJ. unfold sub_ok. destruct q0 as [s0 d0 t0 v0 c0|m0|s0 t0 v0 c0|u0].
  - destruct d0; [auto | apply K].
  - auto.
  - apply K.
  - apply KJ.
Qed.
Lemma sub_poll_keeps c w q H q' H' q0 : sub_poll c w q H = (q', H') -> sub_ok w q0 H -> sub_ok w q0 H'.
Proof.
  unfold sub_poll. destruct q as [sent dead tg v ch|m|sent tg v ch|u].
  - destruct (req_poll c w sent dead tg v ch H) as [[[o s'] d'] H1] eqn:E1.
    intros E. assert (H' = H1) by (destruct o; inversion E; reflexivity). subst H1.
    apply sub_ok_keep; [intros ch0; eapply req_poll_keeps; eauto | intros u0; apply joined_same_tfl; eapply req_poll_tfl; eauto].
  - intros E; inversion E; subst; auto.
  - set (H1 := if sent then H else push_hout (mkEff tg v [] (RLegacy ch)) H).
    assert (K1 : forall ch0, registered ch0 w H -> registered ch0 w H1)
      by (intros ch0 R; subst H1; destruct sent; [exact R | apply registered_push_hout, R]).
    assert (T1 : tfl H1 = tfl H) by (subst H1; destruct sent; reflexivity).
    destruct (ch_buf (gch ch H1)); intros E; inversion E; subst; apply sub_ok_keep.
    + intros ch0 R. apply registered_chan_reg_other, K1, R.
    + intros u0. apply joined_same_tfl. exact T1.
    + intros ch0 R. apply registered_chan_drop_rx, K1, R.
    + intros u0. apply joined_same_tfl. exact T1.
  - destruct (tf_fin (gtf u H)); [intros E; inversion E; subst; auto|].
    destruct (tf_alive (gtf u H)); intros E; inversion E; subst; apply sub_ok_keep.
    + intros ch0. apply registered_utf.
    + intros u0. apply joined_utf_app.
    + intros ch0. apply registered_note.
    + intros u0. apply joined_same_tfl. reflexivity.
Qed.

(* ---------- woken flags only ever go from false to true ---------- *)
Definition Rwoken (H H' : heap) : Prop := forall g, getd false g (woken H) = true -> getd false g (woken H') = true.
Lemma Rwoken_refl H : Rwoken H H. Proof. intros g E; exact E. Qed.
Lemma Rwoken_trans a b c : Rwoken a b -> Rwoken b c -> Rwoken a c.
Proof. intros A B g E. apply B, A, E. Qed.
Lemma Rwoken_same H H' : woken H' = woken H -> Rwoken H H'.
Proof. intros E g. rewrite E. auto. Qed.
Lemma Rwoken_set g H : Rwoken H (set_woken g H).
Proof.
  intros g' E. unfold set_woken; simpl. destruct (Nat.eq_dec g g') as [->|Hne].
  - apply getd_updd_same.
  - rewrite getd_updd_other by exact Hne. exact E.
Qed.
Lemma Rwoken_add_gen H : Rwoken H (mkH (chans H) (tfl H) (cmds H) (woken H ++ [false]) (xready H) (aborted H) (log H) (hout H)).
Proof.
  intros g E. simpl. unfold getd in *. destruct (Nat.lt_ge_cases g (length (woken H))) as [L|L].
  - rewrite app_nth1 by exact L. exact E.
  - rewrite nth_overflow in E by exact L. discriminate.
Qed.
Definition frame_woken := frame_all Rwoken Rwoken_refl Rwoken_trans
  (fun c f H _ => Rwoken_same H (ucmd c f H) eq_refl)
  (fun c f H _ => Rwoken_same H (uch c f H) eq_refl)
  (fun u f H _ => Rwoken_same H (utf u f H) eq_refl)
  (fun n H => Rwoken_same H (note n H) eq_refl)
  Rwoken_set
  (fun q H => Rwoken_same H (push_xready q H) eq_refl)
  (fun c H => Rwoken_same H _ eq_refl)
  (fun t H => Rwoken_same H _ eq_refl)
  Rwoken_add_gen
  (fun n H => Rwoken_same H (add_aborted n H) eq_refl)
  (fun e H => Rwoken_same H (push_hout e H) eq_refl)
  (fun c H => Rwoken_same H _ eq_refl).
Lemma wake_sets_woken f c s g H : getd false g (woken (wake (S f) (WCmd c s g) H)) = true.
Proof.
  unfold wake; fold wake.
  set (H1 := if c_alive (gcmd c H) then _ else H).
  assert (E : getd false g (woken (set_woken g H1)) = true) by (unfold set_woken; simpl; apply getd_updd_same).
  destruct (c_atomic (gcmd c (set_woken g H1))).
  - assert (R : Rwoken (set_woken g H1) (wake f w (ucmd c (set_atomic None) (set_woken g H1)))).
    { eapply Rwoken_trans; [apply (Rwoken_same _ (ucmd c (set_atomic None) (set_woken g H1))); reflexivity|].
      apply (R_wake Rwoken Rwoken_refl Rwoken_trans (fun c f H _ => Rwoken_same H (ucmd c f H) eq_refl)
               (fun n H => Rwoken_same H (note n H) eq_refl) Rwoken_set (fun q H => Rwoken_same H (push_xready q H) eq_refl)). }
    apply R, E.
  - exact E.
Qed.

(* ---------- poll_registers ---------- *)
Definition spec_post (F : rtfuns) : Prop :=
  forall c w fs H fs' H', rpoll F c w fs H = Some (Pend fs', H') -> post w fs' H'.

Lemma post_step : forall F, spec_post F -> spec_post (step_funs F).
Proof.
  intros F IH c w fs H fs' H' E. cbn [step_funs rpoll] in E. unfold poll_body in E.
  destruct (f_leaf fs) as [t|sent dead tg v ch x k| |u k|cid meff mev k|n k|lsent ltg lv lch lx k|qa qb x1 x2 k|qa qb x k] eqn:EL.
  - (* LRun *)
    destruct t.
    + destruct (f_stack fs); [discriminate | apply IH in E; exact E].
    + apply IH in E; exact E.
    + apply IH in E; exact E.
    + destruct (new_chan H) as [ch H1]. apply IH in E; exact E.
    + destruct (new_chan H) as [ch H1]. apply IH in E; exact E.
    + destruct (new_tflag H) as [u H1]. apply IH in E; exact E.
    + apply IH in E; exact E.
    + apply IH in E; exact E.
    + apply IH in E; exact E.
    + destruct (new_chan H) as [ch H1]. apply IH in E; exact E.
    + apply IH in E; exact E.
    + destruct (new_chan H) as [ch1 H1]. destruct (new_chan H1) as [ch2 H2]. apply IH in E; exact E.
    + destruct (new_chan H) as [ch1 H1]. destruct (new_chan H1) as [ch2 H2]. apply IH in E; exact E.
    + destruct (new_chan H) as [ch H1]. apply IH in E; exact E.
    + destruct (new_chan H) as [ch1 H1]. destruct (new_chan H1) as [ch2 H2]. apply IH in E; exact E.
    + destruct (new_cmd _ _ _ _ _ _) as [cid H1]. apply IH in E; exact E.
  - (* LReq *)
    destruct (req_poll c w sent dead tg v ch H) as [[[o s'] d'] H1] eqn:E1.
    destruct o; [apply IH in E; exact E|].
    inversion E; subst. unfold post; simpl. intros D. eapply req_poll_registers; eauto.
  - (* LStr *)
    destruct (f_stack fs) as [|fr rest] eqn:ES; [discriminate|].
    destruct (negb (fr_sent fr)).
    + inversion E; subst. unfold post; simpl. apply registered_push_eff, registered_chan_reg.
    + destruct (ch_buf (gch (fr_ch fr) H)).
      * destruct (ch_tx (gch (fr_ch fr) H)); [|apply IH in E; exact E].
        inversion E; subst. unfold post. rewrite EL, ES. apply registered_chan_reg.
      * apply IH in E; exact E.
  - (* LJoin *)
    destruct (tf_fin (gtf u H)); [apply IH in E; exact E|].
    destruct (tf_alive (gtf u H)); [|apply IH in E; exact E].
    inversion E; subst. unfold post. rewrite EL. unfold gtf, utf; simpl. rewrite getd_updd_same. simpl. split.
    + apply in_or_app. right. left. reflexivity.
    + apply lt_length_updd.
  - (* LHost *)
    destruct (rpoll_next F cid w H) as [[rr H1]|]; [|discriminate].
    destruct rr; try (apply IH in E; exact E).
    inversion E; subst. unfold post. rewrite EL. exact I.
  - (* LYield *)
    destruct n; [apply IH in E; exact E|].
    inversion E; subst. unfold post; simpl. unfold woken_of. destruct w as [c0 s0 g0|q]; [|exact I].
    cbn [wfuel]. apply wake_sets_woken.
  - (* LLeg *)
    match type of E with context[ch_buf (gch lch ?Hx)] => destruct (ch_buf (gch lch Hx)) end; [|apply IH in E; exact E].
    inversion E; subst. unfold post; simpl. apply registered_chan_reg.
  - (* LBoth *)
    destruct (sub_poll c w qa H) as [a' H1] eqn:E1. destruct (sub_poll c w qb H1) as [b' H2] eqn:E2.
    pose proof (sub_poll_ok _ _ _ _ _ _ E1) as Oa. pose proof (sub_poll_keeps _ _ _ _ _ _ a' E2 Oa) as Oa2.
    pose proof (sub_poll_ok _ _ _ _ _ _ E2) as Ob.
    destruct a'; try (inversion E; subst; unfold post; simpl; split; assumption).
    destruct b'; try (inversion E; subst; unfold post; simpl; split; assumption).
    apply IH in E; exact E.
  - (* LRace *)
    destruct (sub_poll c w qa H) as [a' H1] eqn:E1.
    pose proof (sub_poll_ok _ _ _ _ _ _ E1) as Oa.
    destruct a' as [sent dead tg v ch|m|sent tg v ch|u]; [|apply IH in E; exact E| |].
    + destruct (sub_poll c w qb H1) as [b' H2] eqn:E2.
      pose proof (sub_poll_keeps _ _ _ _ _ _ (SQ sent dead tg v ch) E2 Oa) as Oa2.
      pose proof (sub_poll_ok _ _ _ _ _ _ E2) as Ob.
      destruct b'; try (inversion E; subst; unfold post; simpl; split; assumption).
      apply IH in E; exact E.
    + destruct (sub_poll c w qb H1) as [b' H2] eqn:E2.
      pose proof (sub_poll_keeps _ _ _ _ _ _ (SL sent tg v ch) E2 Oa) as Oa2.
      pose proof (sub_poll_ok _ _ _ _ _ _ E2) as Ob.
      destruct b'; try (inversion E; subst; unfold post; simpl; split; assumption).
      apply IH in E; exact E.
    + destruct (sub_poll c w qb H1) as [b' H2] eqn:E2.
      pose proof (sub_poll_keeps _ _ _ _ _ _ (SJ u) E2 Oa) as Oa2.
      pose proof (sub_poll_ok _ _ _ _ _ _ E2) as Ob.
      destruct b'; try (inversion E; subst; unfold post; simpl; split; assumption).
      apply IH in E; exact E.
Qed.

Theorem poll_registers : forall fuel, spec_post (funs fuel).
Proof.
  induction fuel as [|f IH]; [intros c w fs H fs' H' E; discriminate|].
  apply post_step; exact IH.
Qed.

(* ---------- a registered waker is a held waker ---------- *)
Lemma holds_of_registered ch c s g H : registered ch (WCmd c s g) H -> holds g H = true.
Proof.
  intros (E & L). unfold holds. apply orb_true_iff; left. apply orb_true_iff; left.
  apply existsb_exists. exists (gch ch H). split.
  - unfold gch, getd. apply nth_In. exact L.
  - rewrite E. simpl. apply Nat.eqb_refl.
Qed.
Lemma holds_of_joinw u c s g H : In (WCmd c s g) (tf_joinw (gtf u H)) -> u < length (tfl H) -> holds g H = true.
Proof.
  intros I L. unfold holds. apply orb_true_iff; left. apply orb_true_iff; right.
  apply existsb_exists. exists (gtf u H). split.
  - unfold gtf, getd. apply nth_In. exact L.
  - apply existsb_exists. exists (WCmd c s g). split; [exact I|]. simpl. apply Nat.eqb_refl.
Qed.
(* what the task may be blocked on when it is evicted *)
Definition closed_sub (q : subreq) : Prop := match q with SQ _ dead _ _ _ => dead = true | SDone _ => True | SL sent _ _ _ => False | SJ _ => False end.
Definition evictable (fs' : fstate) : Prop :=
  match f_leaf fs' with
  | LReq _ dead _ _ _ _ _ => dead = true
  | LBoth a b _ _ _ | LRace a b _ _ => closed_sub a /\ closed_sub b
  | LHost _ _ _ _ => True
  | LRun _ | LStr | LJoin _ _ | LYield _ _ | LLeg _ _ _ _ _ _ => False
  end.

Lemma holds_ucmd_of_chan g c f H ch w : registered ch w H -> wk_gen w g = true -> holds g (ucmd c f H) = true.
Proof.
  intros (E & L) G. unfold holds. apply orb_true_iff; left. apply orb_true_iff; left.
  apply existsb_exists. exists (gch ch H). split.
  - unfold ucmd; simpl. unfold gch, getd. apply nth_In. exact L.
  - rewrite E. exact G.
Qed.
Lemma holds_ucmd_of_joinw g c f H u w : In w (tf_joinw (gtf u H)) -> u < length (tfl H) -> wk_gen w g = true -> holds g (ucmd c f H) = true.
Proof.
  intros I L G. unfold holds. apply orb_true_iff; left. apply orb_true_iff; right.
  apply existsb_exists. exists (gtf u H). split.
  - unfold ucmd; simpl. unfold gtf, getd. apply nth_In. exact L.
  - apply existsb_exists. exists w. split; assumption.
Qed.

Theorem evict_sound : forall fuel cid slot H H',
  run_task (S fuel) cid slot H = Some (Cancelled, H') ->
  exists t, slab_get slot (gcmd cid H') = Some t /\ evictable (t_fs t).
Proof.
  intros fuel cid slot H H' E. unfold run_task in E. cbn [funs step_funs rrun_task] in E. unfold run_task_body in E.
  destruct (slab_get slot (gcmd cid H)) as [t|] eqn:ES; [|discriminate].
  match type of E with (if ?b then _ else _) = _ => destruct b end; [discriminate|].
  set (g := length (woken H)) in *. set (w := WCmd cid slot g) in *.
  match type of E with context[rpoll (funs fuel) cid w ?fs ?H1] => destruct (rpoll (funs fuel) cid w fs H1) as [[pr H2]|] eqn:E2; [|discriminate] end.
  destruct pr as [fs'|]; [|discriminate].
  pose proof (poll_registers fuel _ _ _ _ _ _ E2) as P.
  set (H3 := ucmd cid (slab_set slot (mkT (t_uid t) fs')) H2) in *.
  destruct (getd false g (woken H3) || holds g H3) eqn:EH; [discriminate|].
  inversion E; subst H'. clear E.
  apply orb_false_iff in EH as (EW & EHo).
  assert (EHo' : holds g (ucmd cid (slab_set slot (mkT (t_uid t) fs')) H2) = false) by exact EHo.
  exists (mkT (t_uid t) fs'). split.
  - unfold note; simpl. unfold H3. unfold gcmd at 1. unfold ucmd; simpl. fold (gcmd cid H2).
    change (getd cmd0 cid (updd cmd0 cid (slab_set slot (mkT (t_uid t) fs')) (cmds H2))) with
           (gcmd cid (ucmd cid (slab_set slot (mkT (t_uid t) fs')) H2)).
    rewrite gcmd_ucmd_same. unfold slab_get, slab_set, set_slab; simpl.
    destruct (nth_error (updd (Vac 0) slot (fun _ => Occ (mkT (t_uid t) fs')) (c_ent (gcmd cid H2))) slot) eqn:EN.
    + assert (X : getd (Vac 0) slot (updd (Vac 0) slot (fun _ => Occ (mkT (t_uid t) fs')) (c_ent (gcmd cid H2))) = Occ (mkT (t_uid t) fs'))
        by apply getd_updd_same.
      unfold getd in X. apply nth_error_nth with (d := Vac 0) in EN. rewrite X in EN. subst e. reflexivity.
    + apply nth_error_None in EN. pose proof (lt_length_updd (Vac 0) slot (fun _ => Occ (mkT (t_uid t) fs')) (c_ent (gcmd cid H2))). lia.
  - unfold evictable. unfold post in P. simpl.
    assert (Gw : wk_gen w g = true) by (unfold w; simpl; apply Nat.eqb_refl).
    destruct (f_leaf fs') as [t0|sent dead tg v ch x k| |u k|cid' meff mev k|n k|lsent ltg lv lch lx k|qa qb x1 x2 k|qa qb x k].
    + exact P.
    + destruct dead; [reflexivity|]. exfalso.
      rewrite (holds_ucmd_of_chan g cid _ H2 ch w (P eq_refl) Gw) in EHo'. discriminate.
    + destruct (f_stack fs') as [|fr rest]; [exact P|]. exfalso.
      rewrite (holds_ucmd_of_chan g cid _ H2 (fr_ch fr) w P Gw) in EHo'. discriminate.
    + destruct P as (I & L). exfalso.
      rewrite (holds_ucmd_of_joinw g cid _ H2 u w I L Gw) in EHo'. discriminate.
    + exact I.
    + unfold woken_of, w in P. assert (EW' : getd false g (woken H2) = false) by exact EW. rewrite P in EW'. discriminate.
    + exfalso. rewrite (holds_ucmd_of_chan g cid _ H2 lch w P Gw) in EHo'. discriminate.
    + destruct P as (Pa & Pb). split.
      * destruct qa as [s d tg v ch|m|s tg v ch|u0]; [|exact I|exfalso; rewrite (holds_ucmd_of_chan g cid _ H2 ch w Pa Gw) in EHo'; discriminate
          |exfalso; destruct Pa as (Ij & Lj); rewrite (holds_ucmd_of_joinw g cid _ H2 u0 w Ij Lj Gw) in EHo'; discriminate].
        simpl. destruct d; [reflexivity|]. exfalso.
        rewrite (holds_ucmd_of_chan g cid _ H2 ch w Pa Gw) in EHo'. discriminate.
      * destruct qb as [s d tg v ch|m|s tg v ch|u0]; [|exact I|exfalso; rewrite (holds_ucmd_of_chan g cid _ H2 ch w Pb Gw) in EHo'; discriminate
          |exfalso; destruct Pb as (Ij & Lj); rewrite (holds_ucmd_of_joinw g cid _ H2 u0 w Ij Lj Gw) in EHo'; discriminate].
        simpl. destruct d; [reflexivity|]. exfalso.
        rewrite (holds_ucmd_of_chan g cid _ H2 ch w Pb Gw) in EHo'. discriminate.
    + destruct P as (Pa & Pb). split.
      * destruct qa as [s d tg v ch|m|s tg v ch|u0]; [|exact I|exfalso; rewrite (holds_ucmd_of_chan g cid _ H2 ch w Pa Gw) in EHo'; discriminate
          |exfalso; destruct Pa as (Ij & Lj); rewrite (holds_ucmd_of_joinw g cid _ H2 u0 w Ij Lj Gw) in EHo'; discriminate].
        simpl. destruct d; [reflexivity|]. exfalso.
        rewrite (holds_ucmd_of_chan g cid _ H2 ch w Pa Gw) in EHo'. discriminate.
      * destruct qb as [s d tg v ch|m|s tg v ch|u0]; [|exact I|exfalso; rewrite (holds_ucmd_of_chan g cid _ H2 ch w Pb Gw) in EHo'; discriminate
          |exfalso; destruct Pb as (Ij & Lj); rewrite (holds_ucmd_of_joinw g cid _ H2 u0 w Ij Lj Gw) in EHo'; discriminate].
        simpl. destruct d; [reflexivity|]. exfalso.
        rewrite (holds_ucmd_of_chan g cid _ H2 ch w Pb Gw) in EHo'. discriminate.
Qed.
