(* Core with the LEGACY capability API (capability/mod.rs CapabilityContext::{spawn, notify_shell,
   update_app}, capability/shell_request.rs, capability/shell_stream.rs, capability/executor.rs run_all /
   run_task, core/mod.rs process_event / resolve / process).  Tasks are spawned straight onto the
   QueuingExecutor; there is no eviction and a dropped request wakes nobody (the resolve closures hold
   weak references).  The fragment of the task language that the legacy API can express: emit
   (update_app), notify, request, stream loop, spawn (no handle), self-wake.  No proofs here. *)
From Coq Require Import List Arith Bool.
From Crux Require Import Rt.Lang Rt.Rt Rt.Host.
Import ListNotations.
Set Implicit Arguments.

(* shared state between a ShellRequest / ShellStream future and the Request's resolve closure *)
Record lcell := mkLC {
  lc_alive : bool;            (* the future (and so the Arc) still exists *)
  lc_queue : list nat;        (* result (request: at most one) / channel contents (stream) *)
  lc_waker : option nat;      (* executor task id to wake *)
  lc_tx : bool                (* the Request (sender side) still exists *)
}.
Definition lc0 := mkLC false [] None false.

Inductive lleaf :=
| LLRun (t : task)
| LLReq (sent : bool) (tg v cell x : nat) (k : task)
| LLStr
| LLYield (n : nat) (k : task).
Record lframe := mkLFr { lf_sent : bool; lf_tg : nat; lf_v : nat; lf_cell : nat; lf_x : nat; lf_body : task; lf_k : task }.
Record lfs := mkLF { lf_env : env; lf_leaf : lleaf; lf_stack : list lframe }.

(* what the shell holds: operation, kind (0 never / used, 1 once, 2 many), cell *)
Record lreq := mkLR { lr_tag : nat; lr_val : nat; lr_kind : nat; lr_cell : nat; lr_dropped : bool }.

Inductive lentry := LOcc (t : option lfs) | LVac (next : nat).
Record lcore := mkLK {
  l_cells : list lcell;
  l_ent : list lentry; l_next : nat;          (* Slab<Option<BoxFuture>> *)
  l_spawn : list lfs;                         (* spawn_queue *)
  l_ready : list nat;                         (* ready_queue *)
  l_events : list event;                      (* capability_events *)
  l_out : list lreq;                          (* requests channel *)
  l_log : list event;
  l_reqs : list lreq
}.
Definition lcore0 := mkLK [] [] 0 [] [] [] [] [] [].

Definition gcell c (k : lcore) := getd lc0 c (l_cells k).
Definition ucell c f (k : lcore) := mkLK (updd lc0 c f (l_cells k)) (l_ent k) (l_next k) (l_spawn k) (l_ready k) (l_events k) (l_out k) (l_log k) (l_reqs k).
Definition new_cell (k : lcore) : nat * lcore :=
  (length (l_cells k), mkLK (l_cells k ++ [mkLC true [] None true]) (l_ent k) (l_next k) (l_spawn k) (l_ready k) (l_events k) (l_out k) (l_log k) (l_reqs k)).
Definition lpush_ev e (k : lcore) := mkLK (l_cells k) (l_ent k) (l_next k) (l_spawn k) (l_ready k) (l_events k ++ [e]) (l_out k) (l_log k) (l_reqs k).
Definition lpush_out r (k : lcore) := mkLK (l_cells k) (l_ent k) (l_next k) (l_spawn k) (l_ready k) (l_events k) (l_out k ++ [r]) (l_log k) (l_reqs k).
Definition lpush_spawn t (k : lcore) := mkLK (l_cells k) (l_ent k) (l_next k) (l_spawn k ++ [t]) (l_ready k) (l_events k) (l_out k) (l_log k) (l_reqs k).
Definition lpush_ready q (k : lcore) := mkLK (l_cells k) (l_ent k) (l_next k) (l_spawn k) (l_ready k ++ [q]) (l_events k) (l_out k) (l_log k) (l_reqs k).
Definition lset_slab ent nx (k : lcore) := mkLK (l_cells k) ent nx (l_spawn k) (l_ready k) (l_events k) (l_out k) (l_log k) (l_reqs k).
Definition lwake_cell c (k : lcore) : lcore :=
  match lc_waker (gcell c k) with
  | Some q => lpush_ready q (ucell c (fun x => mkLC (lc_alive x) (lc_queue x) None (lc_tx x)) k)
  | None => k
  end.

Inductive lres := LPend (fs : lfs) | LRdy.

(* poll one legacy task; q = its executor id (TaskWaker) *)
Fixpoint lpoll (fuel : nat) (q : nat) (fs : lfs) (k : lcore) : option (lres * lcore) :=
  match fuel with 0 => None | S f =>
  let en := lf_env fs in let st := lf_stack fs in
  match lf_leaf fs with
  | LLRun t =>
    match t with
    | TRet => match st with [] => Some (LRdy, k) | _ :: _ => lpoll f q (mkLF en LLStr st) k end
    | TEmit tg e t' => lpoll f q (mkLF en (LLRun t') st) (lpush_ev (mkEv tg (eval en e) []) k)
    | TNotify tg e t' => lpoll f q (mkLF en (LLRun t') st) (lpush_out (mkLR tg (eval en e) 0 0 false) k)
    | TReq tg e x t' => let (c, k1) := new_cell k in lpoll f q (mkLF en (LLReq false tg (eval en e) c x t') st) k1
    | TForEach tg e x body t' =>
        let (c, k1) := new_cell k in lpoll f q (mkLF en LLStr (mkLFr false tg (eval en e) c x body t' :: st)) k1
    | TSpawn child _ t' => lpoll f q (mkLF en (LLRun t') st) (lpush_spawn (mkLF en (LLRun child) []) k)
    | TYield n t' => lpoll f q (mkLF en (LLYield n t') st) k
    | TLegReq tg e x t' => lpoll f q (mkLF en (LLRun (TReq tg e x t')) st) k   (* in a legacy task this IS the native request *)
    | TJoin _ t' | TAbortT _ t' | TAbortC _ t' => lpoll f q (mkLF en (LLRun t') st) k            (* outside the fragment *)
    | TBoth _ _ _ _ _ _ t' | TBothL _ _ _ _ _ _ t' | TBothJ _ _ _ _ t' | TRace _ _ _ _ _ t' => lpoll f q (mkLF en (LLRun t') st) k
    | THost _ _ _ _ _ t' => lpoll f q (mkLF en (LLRun t') st) k
    end
  | LLReq sent tg v c x t' =>
    (* send on first poll, then look for the result *)
    let k1 := if sent then k else lpush_out (mkLR tg v 1 c false) k in
    match lc_queue (gcell c k1) with
    | m :: _ => lpoll f q (mkLF (setv x m en) (LLRun t') st) (ucell c (fun _ => lc0) k1)   (* future dropped *)
    | [] => Some (LPend (mkLF en (LLReq true tg v c x t') st),
                  ucell c (fun y => mkLC (lc_alive y) (lc_queue y) (Some q) (lc_tx y)) k1)
    end
  | LLStr =>
    match st with
    | [] => Some (LRdy, k)
    | fr :: rest =>
      let c := lf_cell fr in
      let k1 := if lf_sent fr then k else lpush_out (mkLR (lf_tg fr) (lf_v fr) 2 c false) k in
      let fr' := mkLFr true (lf_tg fr) (lf_v fr) c (lf_x fr) (lf_body fr) (lf_k fr) in
      match lc_queue (gcell c k1) with
      | m :: more => lpoll f q (mkLF (setv (lf_x fr) m en) (LLRun (lf_body fr)) (fr' :: rest))
                       (ucell c (fun y => mkLC (lc_alive y) more (lc_waker y) (lc_tx y)) k1)
      | [] => if lc_tx (gcell c k1)
              then Some (LPend (mkLF en LLStr (fr' :: rest)), ucell c (fun y => mkLC (lc_alive y) [] (Some q) (lc_tx y)) k1)
              else lpoll f q (mkLF en (LLRun (lf_k fr)) rest) (ucell c (fun _ => lc0) k1)
      end
    end
  | LLYield n t' =>
    match n with
    | 0 => lpoll f q (mkLF en (LLRun t') st) k
    | S m => Some (LPend (mkLF en (LLYield m t') st), lpush_ready q k)
    end
  end end.

(* slab 0.4.9 over Option<BoxFuture> *)
Definition lslab_insert (t : lfs) (k : lcore) : nat * lcore :=
  let key := l_next k in
  if Nat.eqb key (length (l_ent k)) then (key, lset_slab (l_ent k ++ [LOcc (Some t)]) (S key) k)
  else let nx := match getd (LVac 0) key (l_ent k) with LVac n => n | LOcc _ => 0 end in
       (key, lset_slab (updd (LVac 0) key (fun _ => LOcc (Some t)) (l_ent k)) nx k).
Definition lslab_remove (key : nat) (k : lcore) : lcore :=
  lset_slab (updd (LVac 0) key (fun _ => LVac (l_next k)) (l_ent k)) key k.
(* drop a finished future's cells: nothing to do beyond what lpoll already cleared, except loop frames *)
Definition ldrop_frames (st : list lframe) (k : lcore) : lcore :=
  fold_left (fun kk fr => ucell (lf_cell fr) (fun _ => lc0) kk) st k.

Inductive lrun := LMissing | LUnavailable | LSuspended | LCompleted.
Definition LF := 400.
Definition lrun_task (q : nat) (k : lcore) : option (lrun * lcore) :=
  match nth_error (l_ent k) q with
  | Some (LOcc (Some fs)) =>
      (* task.take() leaves Some(None) in the slot while polling; single-threaded here *)
      match lpoll LF q fs k with
      | None => None
      | Some (LPend fs', k1) => Some (LSuspended, lset_slab (updd (LVac 0) q (fun _ => LOcc (Some fs')) (l_ent k1)) (l_next k1) k1)
      | Some (LRdy, k1) => Some (LCompleted, lslab_remove q k1)
      end
  | Some (LOcc None) => Some (LUnavailable, k)
  | _ => Some (LMissing, k)
  end.

(* run_all with its did_some_work flag, exactly *)
Fixpoint lspawn_pass (fuel : nat) (k : lcore) (did : bool) : option (lcore * bool) :=
  match fuel with 0 => None | S f =>
  match l_spawn k with
  | [] => Some (k, did)
  | t :: rest =>
    let k0 := mkLK (l_cells k) (l_ent k) (l_next k) rest (l_ready k) (l_events k) (l_out k) (l_log k) (l_reqs k) in
    let (q, k1) := lslab_insert t k0 in
    match lrun_task q k1 with None => None | Some (_, k2) => lspawn_pass f k2 true end
  end end.
Fixpoint lready_pass (fuel : nat) (k : lcore) (did : bool) : option (lcore * bool) :=
  match fuel with 0 => None | S f =>
  match l_ready k with
  | [] => Some (k, did)
  | q :: rest =>
    let k0 := mkLK (l_cells k) (l_ent k) (l_next k) (l_spawn k) rest (l_events k) (l_out k) (l_log k) (l_reqs k) in
    match lrun_task q k0 with
    | None => None
    | Some (LUnavailable, k1) => lready_pass f (lpush_ready q k1) did
    | Some (LMissing, k1) => lready_pass f k1 did
    | Some (_, k1) => lready_pass f k1 true
    end
  end end.
Fixpoint lrun_all (fuel : nat) (k : lcore) : option lcore :=
  match fuel with 0 => None | S f =>
  match lspawn_pass LF k false with None => None | Some (k1, d1) =>
  match lready_pass LF k1 d1 with None => None | Some (k2, d2) =>
  if d2 then lrun_all f k2 else Some k2 end end end.

(* the app: update(event) spawns, through the capability, the tasks registered for the event's tag
   (event value in variable 0) and returns Command::done() *)
Definition lhandlers := list (nat * list task).
Fixpoint llookup (tg : nat) (hs : lhandlers) : list task :=
  match hs with [] => [] | (t, ts) :: r => if Nat.eqb t tg then ts else llookup tg r end.
Definition lupdate (hs : lhandlers) (e : event) (k : lcore) : lcore :=
  let ts := match v_maps e with [] => llookup (v_tag e) hs | _ => [] end in
  fold_left (fun kk t => lpush_spawn (mkLF [v_val e] (LLRun t) []) kk)
            ts (mkLK (l_cells k) (l_ent k) (l_next k) (l_spawn k) (l_ready k) (l_events k) (l_out k) (l_log k ++ [e]) (l_reqs k)).

Fixpoint lprocess (fuel : nat) (hs : lhandlers) (k : lcore) : option lcore :=
  match fuel with 0 => None | S f =>
  match lrun_all LF k with None => None | Some k1 =>
  match l_events k1 with
  | [] => Some k1
  | e :: rest =>
    lprocess f hs (lupdate hs e (mkLK (l_cells k1) (l_ent k1) (l_next k1) (l_spawn k1) (l_ready k1) rest (l_out k1) (l_log k1) (l_reqs k1)))
  end end end.

Definition loeff (r : lreq) : oeff := mkOE (lr_tag r) (lr_val r) [] KNever.
Definition ltake_out (code : nat) (k : lcore) : obs * lcore :=
  (OCall code (map loeff (l_out k)) (l_log k),
   mkLK (l_cells k) (l_ent k) (l_next k) (l_spawn k) (l_ready k) (l_events k) [] (l_log k) (l_reqs k ++ l_out k)).

Fixpoint find_lr (tg v occ : nat) (i : nat) (l : list lreq) : option nat :=
  match l with
  | [] => None
  | r :: rest =>
    if Nat.eqb (lr_tag r) tg && Nat.eqb (lr_val r) v
    then (match occ with 0 => Some i | S occ' => find_lr tg v occ' (S i) rest end)
    else find_lr tg v occ (S i) rest
  end.
Definition lset_req i r (k : lcore) := mkLK (l_cells k) (l_ent k) (l_next k) (l_spawn k) (l_ready k) (l_events k) (l_out k) (l_log k) (set_nth i r (l_reqs k)).

Definition lstep (hs : lhandlers) (a : action) (k : lcore) : option (obs * lcore) :=
  match a with
  | AEvent tg v =>
      match lprocess LF hs (lupdate hs (mkEv tg v []) k) with None => None | Some k2 => Some (ltake_out 0 k2) end
  | AResolve tg v occ out =>
      match find_lr tg v occ 0 (l_reqs k) with
      | None => Some (OResolve 3, k)
      | Some i =>
        let r := nth i (l_reqs k) (mkLR 0 0 0 0 true) in
        if lr_dropped r then Some (OResolve 3, k) else
        match lr_kind r with
        | 1 => (* Once: the closure runs (if the future still exists) and the request becomes Never *)
          let c := lr_cell r in
          let k1 := if lc_alive (gcell c k)
                    then lwake_cell c (ucell c (fun y => mkLC (lc_alive y) [out] (lc_waker y) (lc_tx y)) k) else k in
          match lprocess LF hs (lset_req i (mkLR (lr_tag r) (lr_val r) 0 c false) k1) with
          | None => None | Some k2 => Some (ltake_out 0 k2) end
        | 2 =>
          let c := lr_cell r in
          if lc_alive (gcell c k) then
            let k1 := lwake_cell c (ucell c (fun y => mkLC (lc_alive y) (lc_queue y ++ [out]) (lc_waker y) (lc_tx y)) k) in
            match lprocess LF hs k1 with None => None | Some k2 => Some (ltake_out 0 k2) end
          else Some (OCall 2 [] (l_log k), k)
        | _ => Some (OCall 1 [] (l_log k), k)
        end
      end
  | ADropReq tg v occ =>
      match find_lr tg v occ 0 (l_reqs k) with
      | None => Some (ONone, k)
      | Some i =>
        let r := nth i (l_reqs k) (mkLR 0 0 0 0 true) in
        if lr_dropped r then Some (ONone, k) else
        let k1 := match lr_kind r with
                  | 2 => ucell (lr_cell r) (fun y => mkLC (lc_alive y) (lc_queue y) (lc_waker y) false) k   (* sender gone; nobody is woken *)
                  | _ => k end in
        Some (ONone, lset_req i (mkLR (lr_tag r) (lr_val r) (lr_kind r) (lr_cell r) true) k1)
      end
  | ALive => Some (OLive (length (filter (fun e => match e with LOcc _ => true | LVac _ => false end) (l_ent k))), k)
  | _ => Some (ONone, k)
  end.

Fixpoint lcrun (hs : lhandlers) (acts : list action) (k : lcore) : option (list obs) :=
  match acts with
  | [] => Some []
  | a :: r => match lstep hs a k with
              | None => None
              | Some (o, k') => match lcrun hs r k' with None => None | Some os => Some (o :: os) end
              end
  end.
Definition under_legacy_core (hs : lhandlers) (acts : list action) : option (list obs) := lcrun hs acts lcore0.
