(* The trace predicate C06_ok holds of every trace of the model (direct host, abort of the outermost
   command): after the abort the leftovers can be taken once, nothing new ever appears, the command is
   done as soon as both queues have been taken - whatever else the shell does afterwards (late
   resolutions, drops, further aborts, tasks spawned onto the aborted command).  Uses Silent.v. *)
From Coq Require Import List Arith Bool Lia.
From Crux Require Import Rt.Lang Rt.Rt Rt.Tables Rt.Frame Rt.Props Rt.Silent Rt.Host Rt.Check.
Import ListNotations.

Section Top.
  Variable X : nat.

  (* ---- an empty slab stays empty through wakes, channel operations and drop glue ---- *)
  Definition RL (H H' : heap) : Prop := c_len (gcmd X H) = 0 -> c_len (gcmd X H') = 0.
  Lemma rl_refl H : RL H H. Proof. intros E; exact E. Qed.
  Lemma rl_trans a b c : RL a b -> RL b c -> RL a c. Proof. intros A B E. apply B, A, E. Qed.
  Lemma rl_same H H' : cmds H' = cmds H -> RL H H'. Proof. intros E. unfold RL, gcmd. rewrite E. auto. Qed.
  Lemma rl_ucmd c f H : (forall cm, c_len cm = 0 -> c_len (f cm) = 0) -> RL H (ucmd c f H).
  Proof.
    intros Hf E. destruct (Nat.eq_dec c X) as [->|Hne].
    - rewrite gcmd_ucmd_same. apply Hf, E.
    - rewrite gcmd_ucmd_other by exact Hne. exact E.
  Qed.
  Ltac lenkeep := apply rl_ucmd; intros cm; destruct cm; simpl; auto.
  Lemma rl_kill_flag u H : RL H (kill_flag u H). Proof. apply rl_same; reflexivity. Qed.
  Lemma rl_fold {A} (g : heap -> A -> heap) (l : list A) :
    (forall x H, RL H (g H x)) -> forall H, RL H (fold_left g l H).
  Proof. intros Hg. induction l as [|x l IH]; intros H; simpl; [apply rl_refl|]. eapply rl_trans; [apply Hg | apply IH]. Qed.
  Lemma rl_wake : forall fuel w H, RL H (wake fuel w H).
  Proof.
    induction fuel as [|f IH]; intros w H; unfold wake; fold wake;
      (destruct w as [c s g|q]; [|apply rl_same; reflexivity]);
      set (H1 := if c_alive (gcmd c H) then ucmd c (fun cm => set_ready (c_ready cm ++ [s]) cm) H else H);
      (assert (R1 : RL H H1) by (subst H1; destruct (c_alive (gcmd c H)); [lenkeep | apply rl_refl]));
      (assert (R2 : RL H (set_woken g H1)) by (eapply rl_trans; [exact R1 | apply rl_same; reflexivity]));
      destruct (c_atomic (gcmd c (set_woken g H1))) as [w'|]; try (eapply rl_trans; [exact R2|]; apply rl_same; reflexivity).
    all: try exact R2.
    eapply rl_trans; [exact R2|]. eapply rl_trans; [|apply IH]. lenkeep.
  Qed.
  Lemma rl_wake_cell ch H : RL H (wake_cell ch H).
  Proof. unfold wake_cell. destruct (ch_wk (gch ch H)); [|apply rl_refl]. eapply rl_trans; [|apply rl_wake]. apply rl_same; reflexivity. Qed.
  Lemma rl_chan_drop_tx ch H : RL H (chan_drop_tx ch H).
  Proof. unfold chan_drop_tx. destruct (ch_tx (gch ch H)); [|apply rl_refl]. eapply rl_trans; [|apply rl_wake_cell]. apply rl_same; reflexivity. Qed.
  Lemma rl_drop_req e H : RL H (drop_req e H).
  Proof. unfold drop_req. destruct (e_res e); [apply rl_refl | apply rl_chan_drop_tx | apply rl_chan_drop_tx | apply rl_refl]. Qed.
  Lemma rl_sub_drop q H : RL H (sub_drop q H).
  Proof. unfold sub_drop. destruct q as [s d tg v ch|m|s tg v ch|u]; [|apply rl_refl|apply rl_same; reflexivity|apply rl_refl]. destruct d; [apply rl_refl | apply rl_same; reflexivity]. Qed.
  Lemma rl_drop : forall fuel,
    (forall fs H, RL H (drop_fs fuel fs H)) /\ (forall cid H, RL H (drop_cmd fuel cid H)).
  Proof.
    induction fuel as [|f [IHfs IHcmd]]; split; intros; try apply rl_refl.
    - unfold drop_fs; fold drop_fs; fold drop_cmd.
      match goal with |- RL H (fold_left ?g ?l ?H1) => eapply rl_trans; [|apply (rl_fold g)] end.
      + destruct (f_leaf fs); try apply rl_refl.
        * destruct dead; [apply rl_refl | apply rl_same; reflexivity].
        * apply IHcmd.
        * apply rl_same; reflexivity.
        * eapply rl_trans; apply rl_sub_drop.
        * eapply rl_trans; apply rl_sub_drop.
      + intros fr Hh. apply rl_same; reflexivity.
    - unfold drop_cmd; fold drop_fs; fold drop_cmd.
      repeat match goal with |- RL _ (fold_left ?g ?l ?H1) => eapply rl_trans; [|apply (rl_fold g)] end.
      + apply rl_ucmd. intros cm; destruct cm; simpl; auto.
      + intros e Hh. apply rl_drop_req.
      + intros t Hh. eapply rl_trans; [apply IHfs | apply rl_same; reflexivity].
      + intros e Hh. destruct e; [|apply rl_refl]. eapply rl_trans; [apply IHfs | apply rl_same; reflexivity].
  Qed.

  Lemma gcmd_note n H : gcmd X (note n H) = gcmd X H. Proof. reflexivity. Qed.

  (* settling an aborted command empties its slab and leaves its outputs alone or shorter *)
  Lemma settle_aborted_len0 fuel H H' :
    was_aborted X H = true -> settle (S fuel) X H = Some H' -> c_len (gcmd X H') = 0.
  Proof.
    intros A E. unfold settle in E. cbn [funs step_funs rsettle] in E. unfold settle_body in E. rewrite A in E.
    match type of E with Some ?a = Some _ => assert (Eq : a = H') by congruence; rewrite <- Eq; clear Eq E end.
    rewrite gcmd_note.
    assert (E0 : c_len (gcmd X (ucmd X slab_clear H)) = 0) by (rewrite gcmd_ucmd_same; destruct (gcmd X H); reflexivity).
    match goal with |- c_len (gcmd X (fold_left ?g ?l ?H1)) = 0 =>
      assert (RF : RL H1 (fold_left g l H1)); [apply (rl_fold g l) | exact (RF E0)] end.
    intros e Hh. destruct e; [|apply rl_refl].
    apply (rl_trans _ (drop_fs (dfuel Hh) (t_fs t) Hh)); [apply (proj1 (rl_drop (dfuel _))) | apply rl_kill_flag].
  Qed.
End Top.

(* ---- the invariant of the direct host after the outermost command was aborted ---- *)
Definition J (top : nat) (se sv : bool) (st : dstate) : Prop :=
  top < length (cmds (d_H st)) /\ was_aborted top (d_H st) = true /\
  (se = true -> c_eff (gcmd top (d_H st)) = []) /\ (sv = true -> c_evs (gcmd top (d_H st)) = []).

Lemma suffix_of_nil {A} (l : list A) : is_suffix l [] -> l = [].
Proof. intros [p E]. symmetry in E. apply app_eq_nil in E. apply E. Qed.

Definition frame_meta_settle := fun fuel cid H H' (E : settle fuel cid H = Some H') =>
  proj1 (proj2 (proj2 (frame_meta fuel))) cid H H' E.

Lemma rm_wake f w H : Rmeta H (wake f w H).
Proof. apply (R_wake Rmeta Rmeta_refl Rmeta_trans Rmeta_ucmd); intros; apply Rmeta_same_cmds; reflexivity. Qed.
Lemma rm_chan_send ch v H : Rmeta H (snd (chan_send ch v H)).
Proof. apply (R_chan_send Rmeta Rmeta_refl Rmeta_trans Rmeta_ucmd); intros; apply Rmeta_same_cmds; reflexivity. Qed.
Lemma rm_chan_drop_tx ch H : Rmeta H (chan_drop_tx ch H).
Proof. apply (R_chan_drop_tx Rmeta Rmeta_refl Rmeta_trans Rmeta_ucmd); intros; apply Rmeta_same_cmds; reflexivity. Qed.
Lemma rm_drop_req e H : Rmeta H (drop_req e H).
Proof. apply (R_drop_req Rmeta Rmeta_refl Rmeta_trans Rmeta_ucmd); intros; apply Rmeta_same_cmds; reflexivity. Qed.

Lemma J_move top se sv st H' :
  J top se sv st -> Rmeta (d_H st) H' -> suffX top (d_H st) H' -> forall rq, J top se sv (mkD rq H').
Proof.
  intros (L & A & Je & Jv) M (Se & Sv) rq. unfold J; simpl. repeat split.
  - destruct M as (_ & L' & _). lia.
  - eapply was_aborted_mono; eauto.
  - intros E. specialize (Je E). rewrite Je in Se. apply suffix_of_nil in Se. exact Se.
  - intros E. specialize (Jv E). rewrite Jv in Sv. apply suffix_of_nil in Sv. exact Sv.
Qed.

Lemma resolve_req_moves top e v H code e' H' :
  resolve_req e v H = (code, e', H') -> Rmeta H H' /\ suffX top H H'.
Proof.
  unfold resolve_req. destruct (e_res e).
  - intros E; inversion E; subst. split; [apply Rmeta_refl | apply sx_refl].
  - destruct (chan_send c v H) as [ok H1] eqn:E1. intros E; inversion E; subst.
    assert (M1 : Rmeta H H1) by (pose proof (rm_chan_send c v H) as M; rewrite E1 in M; exact M).
    assert (S1 : suffX top H H1) by (pose proof (sx_chan_send top c v H) as S; rewrite E1 in S; exact S).
    split; [eapply Rmeta_trans; [exact M1 | apply rm_chan_drop_tx] | eapply sx_trans; [exact S1 | apply sx_chan_drop_tx]].
  - destruct (chan_send c v H) as [ok H1] eqn:E1. intros E; inversion E; subst.
    split; [pose proof (rm_chan_send c v H) as M; rewrite E1 in M; exact M
           | pose proof (sx_chan_send top c v H) as S; rewrite E1 in S; exact S].
  - destruct (chan_send c v H) as [ok H1] eqn:E1. intros E; inversion E; subst.
    split; [pose proof (rm_chan_send c v H) as M; rewrite E1 in M; exact M
           | pose proof (sx_chan_send top c v H) as S; rewrite E1 in S; exact S].
Qed.

Theorem drun_after_abort : forall fuel top acts st os se sv,
  J top se sv st -> drun (S fuel) top acts st = Some os -> C06_after os acts se sv = true.
Proof.
  intros fuel top. induction acts as [|a acts IH]; intros st os se sv Jst E; simpl in E.
  - inversion E; reflexivity.
  - destruct (dstep (S fuel) top a st) as [[o st']|] eqn:E1; [|discriminate].
    destruct (drun (S fuel) top acts st') as [os'|] eqn:E2; [|discriminate].
    inversion E; subst; clear E.
    pose proof Jst as (L & A & Je & Jv).
    destruct a; cbn [dstep] in E1.
    + (* AEffects *)
      destruct (settle (S fuel) top (d_H st)) as [H1|] eqn:ES; [|discriminate]. inversion E1; subst; clear E1.
      pose proof (aborted_outputs_only_shrink_settle top (S fuel) top _ _ L A ES) as S1.
      pose proof (frame_meta_settle _ _ _ _ ES) as M1.
      pose proof (J_move top se sv st H1 Jst M1 S1 (d_reqs st)) as (L1 & A1 & Je1 & Jv1). simpl in *.
      cbn [C06_after]. apply andb_true_iff. split.
      * destruct se; [|reflexivity]. simpl. rewrite (Je1 eq_refl). reflexivity.
      * eapply IH; [|exact E2]. unfold J; simpl. repeat split.
        -- unfold ucmd; simpl. pose proof (length_updd cmd0 top (set_eff []) (cmds H1)). lia.
        -- eapply was_aborted_mono; [exact L1 | apply Rmeta_ucmd; solve_good | exact A1].
        -- intros _. rewrite gcmd_ucmd_same. destruct (gcmd top H1); reflexivity.
        -- intros Ev. rewrite gcmd_ucmd_same. specialize (Jv1 Ev). destruct (gcmd top H1); simpl in *. exact Jv1.
    + (* AEvents *)
      destruct (settle (S fuel) top (d_H st)) as [H1|] eqn:ES; [|discriminate]. inversion E1; subst; clear E1.
      pose proof (aborted_outputs_only_shrink_settle top (S fuel) top _ _ L A ES) as S1.
      pose proof (frame_meta_settle _ _ _ _ ES) as M1.
      pose proof (J_move top se sv st H1 Jst M1 S1 (d_reqs st)) as (L1 & A1 & Je1 & Jv1). simpl in *.
      cbn [C06_after]. apply andb_true_iff. split.
      * destruct sv; [|destruct se; reflexivity]. rewrite (Jv1 eq_refl). destruct se; reflexivity.
      * eapply IH; [|exact E2]. unfold J; simpl. repeat split.
        -- unfold ucmd; simpl. pose proof (length_updd cmd0 top (set_evs []) (cmds H1)). lia.
        -- eapply was_aborted_mono; [exact L1 | apply Rmeta_ucmd; solve_good | exact A1].
        -- intros Ee. rewrite gcmd_ucmd_same. specialize (Je1 Ee). destruct (gcmd top H1); simpl in *. exact Je1.
        -- intros _. rewrite gcmd_ucmd_same. destruct (gcmd top H1); reflexivity.
    + (* AIsDone *)
      destruct (settle (S fuel) top (d_H st)) as [H1|] eqn:ES; [|discriminate]. inversion E1; subst; clear E1.
      pose proof (aborted_outputs_only_shrink_settle top (S fuel) top _ _ L A ES) as S1.
      pose proof (frame_meta_settle _ _ _ _ ES) as M1.
      pose proof (settle_aborted_len0 top fuel _ _ A ES) as L0.
      pose proof (J_move top se sv st H1 Jst M1 S1 (d_reqs st)) as J1. pose proof J1 as (L1 & A1 & Je1 & Jv1). simpl in *.
      cbn [C06_after]. apply andb_true_iff. split.
      * destruct se; [|reflexivity]. destruct sv; [|reflexivity]. simpl.
        rewrite (Je1 eq_refl), (Jv1 eq_refl), L0. reflexivity.
      * eapply IH; [exact J1 | exact E2].
    + (* AResolve *)
      destruct (find_rq tg v occ 0 (d_reqs st)) as [i|]; [|inversion E1; subst; cbn [C06_after]; eapply IH; eauto].
      destruct (rq_dropped _); [inversion E1; subst; cbn [C06_after]; eapply IH; eauto|].
      destruct (resolve_req _ _ _) as [[code e'] H1] eqn:ER. inversion E1; subst; clear E1.
      destruct (resolve_req_moves top _ _ _ _ _ _ ER) as (M1 & S1).
      cbn [C06_after]. eapply IH; [|exact E2]. eapply J_move; eauto.
    + (* ADropReq *)
      destruct (find_rq tg v occ 0 (d_reqs st)) as [i|]; [|inversion E1; subst; cbn [C06_after]; eapply IH; eauto].
      destruct (rq_dropped _); inversion E1; subst; clear E1; cbn [C06_after]; [eapply IH; eauto|].
      eapply IH; [|exact E2]. eapply J_move; [exact Jst | apply rm_drop_req | apply sx_drop_req].
    + (* AAbort *)
      inversion E1; subst; clear E1. cbn [C06_after]. eapply IH; [|exact E2].
      eapply J_move; [exact Jst | apply Rmeta_add_aborted | apply sx_same; reflexivity].
    + (* AEvent *) inversion E1; subst. cbn [C06_after]. eapply IH; eauto.
    + (* ALive *) inversion E1; subst. cbn [C06_after]. eapply IH; eauto.
    + (* ASpawn *)
      destruct (new_tflag (d_H st)) as [u H1] eqn:ET. inversion E1; subst; clear E1.
      cbn [C06_after]. eapply IH; [|exact E2]. eapply J_move; [exact Jst | |].
      * eapply Rmeta_trans; [eapply rm_new_tflag; exact ET | apply Rmeta_ucmd; solve_good].
      * eapply sx_trans; [eapply sx_new_tflag; exact ET|].
        apply sx_ucmd_keep. intros cm; destruct cm; simpl; split; reflexivity.
Qed.

(* ---- every step of the direct host leaves abort bookkeeping and command identities alone ---- *)
Lemma dstep_meta fuel top a st o st' : dstep fuel top a st = Some (o, st') -> Rmeta (d_H st) (d_H st').
Proof.
  destruct a; cbn [dstep]; intros E.
  - destruct (settle fuel top (d_H st)) as [H1|] eqn:ES; [|discriminate]. inversion E; subst; simpl.
    eapply Rmeta_trans; [apply (frame_meta_settle _ _ _ _ ES) | apply Rmeta_ucmd; solve_good].
  - destruct (settle fuel top (d_H st)) as [H1|] eqn:ES; [|discriminate]. inversion E; subst; simpl.
    eapply Rmeta_trans; [apply (frame_meta_settle _ _ _ _ ES) | apply Rmeta_ucmd; solve_good].
  - destruct (settle fuel top (d_H st)) as [H1|] eqn:ES; [|discriminate]. inversion E; subst; simpl.
    apply (frame_meta_settle _ _ _ _ ES).
  - destruct (find_rq tg v occ 0 (d_reqs st)) as [i|]; [|inversion E; subst; apply Rmeta_refl].
    destruct (rq_dropped _); [inversion E; subst; apply Rmeta_refl|].
    destruct (resolve_req _ _ _) as [[code e'] H1] eqn:ER. inversion E; subst; simpl.
    apply (proj1 (resolve_req_moves top _ _ _ _ _ _ ER)).
  - destruct (find_rq tg v occ 0 (d_reqs st)) as [i|]; [|inversion E; subst; apply Rmeta_refl].
    destruct (rq_dropped _); inversion E; subst; simpl; [apply Rmeta_refl | apply rm_drop_req].
  - inversion E; subst; simpl. apply Rmeta_add_aborted.
  - inversion E; subst. apply Rmeta_refl.
  - inversion E; subst. apply Rmeta_refl.
  - destruct (new_tflag (d_H st)) as [u H1] eqn:ET. inversion E; subst; simpl.
    eapply Rmeta_trans; [eapply rm_new_tflag; exact ET | apply Rmeta_ucmd; solve_good].
Qed.

(* what the scan needs to know about the outermost command before the abort arrives *)
Definition K (top : nat) (names : list nat) (st : dstate) : Prop :=
  top < length (cmds (d_H st)) /\ c_names (gcmd top (d_H st)) = names /\ c_epoch (gcmd top (d_H st)) < length (cmds (d_H st)).
Lemma K_step top names st st' : K top names st -> Rmeta (d_H st) (d_H st') -> K top names st'.
Proof.
  intros (L & N & Ep) (_ & L' & M). specialize (M top L). unfold meta in M. inversion M as [[Mn Me]].
  unfold K. rewrite Mn, Me. repeat split; auto; lia.
Qed.
Lemma K_abort top names st n : K top names st -> existsb (Nat.eqb n) names = true ->
  J top false false (mkD (d_reqs st) (add_aborted n (d_H st))).
Proof.
  intros (L & N & Ep) Hn. unfold J; simpl. repeat split; try discriminate.
  - exact L.
  - unfold was_aborted, add_aborted, gcmd; simpl. fold (gcmd top (d_H st)). rewrite N.
    apply existsb_exists in Hn as (x & Hx & Ex). apply Nat.eqb_eq in Ex. subst x.
    apply existsb_exists. exists n. split; [exact Hx|]. simpl. rewrite Nat.eqb_refl. simpl.
    apply orb_true_iff. left. apply Nat.ltb_lt. exact Ep.
Qed.

Theorem drun_scan : forall fuel top names acts st os,
  K top names st -> drun (S fuel) top acts st = Some os -> C06_scan names acts os = true.
Proof.
  intros fuel top names. induction acts as [|a acts IH]; intros st os Kst E; simpl in E.
  - inversion E; reflexivity.
  - destruct (dstep (S fuel) top a st) as [[o st']|] eqn:E1; [|discriminate].
    destruct (drun (S fuel) top acts st') as [os'|] eqn:E2; [|discriminate].
    inversion E; subst; clear E.
    pose proof (K_step _ _ _ _ Kst (dstep_meta _ _ _ _ _ _ E1)) as K'.
    destruct a; cbn [C06_scan]; try (eapply IH; eassumption).
    destruct (existsb (Nat.eqb name) names) eqn:Hn; [|eapply IH; eassumption].
    cbn [dstep] in E1. inversion E1; subst; clear E1.
    eapply drun_after_abort; [|exact E2]. apply (K_abort top names); assumption.
Qed.

Lemma new_cmd_K names en m ex :
  K (fst (new_cmd names None en m ex H0)) names (mkD [] (snd (new_cmd names None en m ex H0))).
Proof.
  unfold new_cmd, new_tflag. cbn [fst snd H0 tfl cmds chans woken xready aborted log hout length app].
  set (c0 := mkCmd true [0] [] [Occ (mkT 0 (fs_of en m))] 1 1 [] [] None names 0 0).
  set (Hb := mkH [] [mkTF false false true []] [c0] [] [] [] [] []).
  match goal with |- K 0 names (mkD [] (fold_left ?g ex Hb)) =>
    assert (M : Rmeta Hb (fold_left g ex Hb)) end.
  { apply (R_fold Rmeta Rmeta_refl Rmeta_trans). intros t Hh. cbv beta iota.
    eapply Rmeta_trans; [|apply Rmeta_ucmd; solve_good]. apply Rmeta_same_cmds; reflexivity. }
  destruct M as (_ & L & Mm). specialize (Mm 0 (Nat.lt_0_succ 0)). unfold meta in Mm.
  pose proof (f_equal fst Mm) as Mn. pose proof (f_equal snd Mm) as Me. cbn [fst snd] in Mn, Me. clear Mm.
  match type of Mn with c_names (gcmd 0 ?Hx) = _ => set (Hf := Hx) in * end.
  assert (Ln : c_names (gcmd 0 Hf) = names) by (eapply eq_trans; [exact Mn | reflexivity]).
  assert (Le : c_epoch (gcmd 0 Hf) = 0) by (eapply eq_trans; [exact Me | reflexivity]).
  assert (L1 : 1 <= length (cmds Hf)) by exact L.
  unfold K. cbn [d_H]. repeat split.
  - apply (Nat.lt_le_trans 0 1); [lia | exact L1].
  - exact Ln.
  - assert (G : c_epoch (gcmd 0 Hf) < length (cmds Hf)) by (rewrite Le; apply (Nat.lt_le_trans 0 1); [lia | exact L1]).
    exact G.
Qed.

Theorem direct_C06_scan : forall fuel c acts os,
  direct (S fuel) c acts = Some os -> C06_scan (top_names c) acts os = true.
Proof.
  intros fuel c acts os. unfold direct, top_names.
  pose proof (new_cmd_K (cx_name (compile c)) [] (cx_main (compile c)) (cx_extra (compile c))) as Kn.
  destruct (new_cmd (cx_name (compile c)) None [] (cx_main (compile c)) (cx_extra (compile c)) H0) as [top H].
  simpl in Kn. intros E. eapply drun_scan; [exact Kn | exact E].
Qed.
