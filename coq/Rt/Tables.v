(* Lists used as total tables: algebra of getd / updd (no side conditions). *)
From Coq Require Import List Arith Bool Lia.
From Crux Require Import Rt.Lang Rt.Rt.
Import ListNotations.

(* ---------- tables ---------- *)
Lemma nth_nil {A} (d : A) n : nth n [] d = d.
Proof. destruct n; reflexivity. Qed.
Lemma getd_updd_same {A} (d : A) n f l : getd d n (updd d n f l) = f (getd d n l).
Proof.
  unfold getd. revert l; induction n as [|n IH]; intros [|x l]; simpl; auto;
    try (rewrite IH, nth_nil; reflexivity).
Qed.
Lemma getd_updd_other {A} (d : A) n m f l : n <> m -> getd d m (updd d n f l) = getd d m l.
Proof.
  unfold getd. revert m l; induction n as [|n IH]; intros [|m] [|x l] Hne; simpl; auto; try lia;
    try (apply nth_nil); try (rewrite IH by lia; apply nth_nil); try (apply IH; lia).
Qed.
Lemma length_updd {A} (d : A) n f l : length l <= length (updd d n f l).
Proof.
  revert l; induction n as [|n IH]; intros [|x l]; simpl; auto; try lia;
    try (specialize (IH l); lia).
Qed.

Lemma lt_length_updd {A} (d : A) n f l : n < length (updd d n f l).
Proof.
  revert l; induction n as [|n IH]; intros [|x l]; simpl; try lia.
  - specialize (IH []). lia.
  - specialize (IH l). lia.
Qed.

Lemma gcmd_ucmd_same c f H : gcmd c (ucmd c f H) = f (gcmd c H).
Proof. unfold gcmd, ucmd; simpl. apply getd_updd_same. Qed.
Lemma gcmd_ucmd_other c c' f H : c <> c' -> gcmd c' (ucmd c f H) = gcmd c' H.
Proof. intros Hne. unfold gcmd, ucmd; simpl. apply getd_updd_other; exact Hne. Qed.

