(* The refinement "runtime model ~ reference semantics" (C04_refines_full_statement) on an exhaustive small
   scope, decided inside the kernel: ALL commands built from tasks of at most two statements (emit, notify,
   request, stream loop with and without a body, spawn with and without join of three kinds of child, self-wake,
   join! and select! of two requests), an optional extra task, under five wrappers (none; then; all with a
   sibling request; map_event over map_effect identity; and with map_effect), x ALL schedules of at most two shell inputs (resolve or drop any request of the command,
   streams twice), inspecting effects / events / is_done before the first and after every input.  This is a
   finite statement (the bound is part of it), proved by evaluation of both models on every case; the general
   statement stays unproved. *)
From Coq Require Import List Arith Bool NArith.
From Crux Require Import Rt.Lang Rt.Rt Rt.Host Rt.Ref Rt.Check.
Import ListNotations.

(* ---------- statements (b = base for the request tags of this statement) ---------- *)
Definition child_of (i b : nat) : task :=
  match i with
  | 0 => TRet
  | 1 => TReq b (K 0) 0 (TEmit 102 (V 0) TRet)
  | _ => TEmit 103 (K 3) TRet
  end.
Definition stmts : list (nat -> task -> task) :=
  [ (fun _ k => TEmit 100 (K 1) k);
    (fun b k => TReq b (K 0) 0 k);
    (fun b k => TNotify b (K 2) k);
    (fun b k => TForEach b (K 0) 0 TRet k);
    (fun b k => TForEach b (K 0) 0 (TEmit 101 (V 0) TRet) k);
    (fun b k => TSpawn (child_of 0 (S b)) 8 k);
    (fun b k => TSpawn (child_of 1 (S b)) 8 k);
    (fun b k => TSpawn (child_of 2 (S b)) 8 k);
    (fun b k => TSpawn (child_of 0 (S b)) 8 (TJoin 8 k));
    (fun b k => TSpawn (child_of 1 (S b)) 8 (TJoin 8 k));
    (fun b k => TSpawn (child_of 2 (S b)) 8 (TJoin 8 k));
    (fun _ k => TYield 1 k);
    (fun b k => TBoth b (K 0) 0 (S b) (K 0) 1 k);
    (fun b k => TRace b (K 0) (S b) (K 0) 0 k) ].

Definition one_stmt : list task := TRet :: map (fun f => f 1 TRet) stmts.
Definition two_stmt : list task := flat_map (fun f => map (fun g => f 1 (g 10 TRet)) stmts) stmts.
Definition extras : list task := map (fun f => f 20 TRet) (firstn 6 stmts).

Definition bases : list cmd :=
  map (fun m => CNew m []) one_stmt ++ map (fun m => CNew m []) two_stmt ++
  flat_map (fun m => map (fun e => CNew m [e]) extras) one_stmt.
Definition wrap (w : nat) (c : cmd) : cmd :=
  match w with
  | 0 => c
  | 1 => CThen c (c_event 104 4)
  | 2 => CAll [c; c_req_send 30 0 105]
  | 3 => CMapEv 2 (CIdEff c)
  | _ => CAnd (CMapEff 3 c) (c_event 106 6)
  end.
Definition small_cmds : list cmd := flat_map (fun c => [wrap 0 c; wrap 1 c; wrap 2 c; wrap 3 c; wrap 4 c]) bases.

(* ---------- schedules ---------- *)
Fixpoint task_tags (t : task) : list nat :=
  match t with
  | TRet => []
  | TEmit _ _ k | TJoin _ k | TAbortT _ k | TYield _ k | TAbortC _ k => task_tags k
  | TNotify _ _ k => task_tags k
  | TReq tg _ _ k | TLegReq tg _ _ k => tg :: task_tags k
  | TForEach tg _ _ b k => tg :: task_tags b ++ task_tags k
  | TSpawn c _ k => task_tags c ++ task_tags k
  | TBoth t1 _ _ t2 _ _ k | TBothL t1 _ _ t2 _ _ k | TRace t1 _ t2 _ _ k => t1 :: t2 :: task_tags k
  | TBothJ _ tg _ _ k => tg :: task_tags k
  | THost _ _ _ m ex k => task_tags m ++ flat_map task_tags ex ++ task_tags k
  end.
Fixpoint cmd_tags (c : cmd) : list nat :=
  match c with
  | CNew m ex => task_tags m ++ flat_map task_tags ex
  | CThen a b | CAnd a b => cmd_tags a ++ cmd_tags b
  | CAll cs => flat_map cmd_tags cs
  | CMapEff _ c' | CMapEv _ c' | CIdEff c' | CIdEv c' | CInto c' | CAbortable _ c' => cmd_tags c'
  | CSendR _ _ | CSendS _ _ => []
  end.
Definition inputs_of (c : cmd) : list action :=
  flat_map (fun tg => [AResolve tg 0 0 7; ADropReq tg 0 0]) (nodup Nat.eq_dec (cmd_tags c)).
Definition inspect : list action := [AEffects; AEvents; AIsDone].
Definition scheds (c : cmd) : list (list action) :=
  let ins := inputs_of c in
  [inspect] ++
  map (fun a => inspect ++ a :: inspect) ins ++
  flat_map (fun a => map (fun b => inspect ++ a :: inspect ++ b :: inspect) ins) ins.

(* ---------- the check ---------- *)
Definition refines (c : cmd) (acts : list action) : bool :=
  cmd_abort_free c && cmd_flat_ok c && sched_abort_free acts &&
  match direct FUEL0 c acts, ref_direct RF c acts with
  | Some t, Some r => list_eqb2 robs_obs_eqb r t
  | _, _ => false
  end.
Definition small_scope_ok : bool := forallb (fun c => forallb (refines c) (scheds c)) small_cmds.
Definition small_scope_size : N := N.of_nat (length (flat_map scheds small_cmds)).
