(* C11 - the core is a deterministic function of its input history.  Statements only.

   A Gallina function is deterministic by construction; the statements have content exactly where the
   code consults something that is NOT a function of the history.  Those things are explicit arguments
   of the model: [o : hmap -> hmap], the iteration order of an http-types header HashMap (ANY
   rearrangement of the entries; a fresh one for every map and every process), and [c : N], the value
   of crux_time's process-wide timer counter when a replay starts.  Everything below is for ALL of them. *)
From Coq Require Import List NArith Bool Permutation.
From Crux Require Import Base.Res HttpReq.Model HttpReq.ModelProofs HttpReq.Eq HttpReq.EqProofs HttpReq.Replay HttpReq.ReplayProofs.
Import ListNotations.
Open Scope N_scope.

(* --- the emitted HTTP request does not depend on the hash map's iteration order --- *)
Theorem C11_http_request_order_independent :
  forall url_ok url_str o1 o2 method ops,
    (forall m, Permutation (o1 m) m) -> (forall m, Permutation (o2 m) m) ->
    send_cmd url_ok url_str o1 method ops = send_cmd url_ok url_str o2 method ops.
Proof. exact send_cmd_order_free. Qed.

Theorem C11_protocol_conversion_order_independent :
  forall url_str o1 o2 method r,
    (forall m, Permutation (o1 m) m) -> (forall m, Permutation (o2 m) m) -> NoDup (map fst (r_headers r)) ->
    into_protocol url_str o1 method r = into_protocol url_str o2 method r.
Proof. exact into_protocol_order_free. Qed.

(* before the fix: commit (entries emitted in iteration order) two oracles gave two requests *)
Theorem C11_header_order_before_fix_refuted :
  exists r o1 o2, (forall m, Permutation (o1 m) m) /\ (forall m, Permutation (o2 m) m) /\
    NoDup (map fst (r_headers r)) /\
    into_protocol_before_fix (fun _ => []) o1 [71] r <> into_protocol_before_fix (fun _ => []) o2 [71] r.
Proof.
  exists {| r_query := None; r_headers := [([97], [[49]]); ([98], [[50]])]; r_body := [] |}, (fun m => m), (@rev _).
  split; [intros m; apply Permutation_refl|]. split; [intros m; apply Permutation_sym; apply Permutation_rev|].
  split; [repeat constructor; simpl; intuition discriminate|]. vm_compute. discriminate.
Qed.

(* --- replaying a history: the trace of effect requests, canonical up to the renumbering of timer ids
   by first occurrence, is the same for every iteration oracle and every counter value --- *)
Theorem C11_replay_deterministic :
  forall o1 o2 c1 c2 h, (forall m, Permutation (o1 m) m) -> (forall m, Permutation (o2 m) m) ->
    renumber (replay o1 c1 h) = renumber (replay o2 c2 h).
Proof. exact replay_deterministic. Qed.

(* nothing but timer ids depends on the counter, and they depend on it by a shift, which preserves
   their order and which renumbering forgets *)
Theorem C11_timer_renumber :
  forall o c h, replay o c h = map (map (shift_effect c)) (replay o 0 h) /\
                renumber (map (map (shift_effect c)) (replay o 0 h)) = renumber (replay o 0 h).
Proof. intros o c h. split; [apply replay_shift|apply renumber_shift]. Qed.

(* within one process state (same counter) the raw traces are equal; across counters they are not,
   so the renumbering in the statement is necessary *)
Theorem C11_replay_same_counter :
  forall o1 o2 c h, (forall m, Permutation (o1 m) m) -> (forall m, Permutation (o2 m) m) ->
    replay o1 c h = replay o2 c h.
Proof. exact replay_order_free. Qed.
Theorem C11_raw_timer_ids_differ :
  replay (fun m => m) 1 [SEvent [AAfter Cap 5]] <> replay (fun m => m) 2 [SEvent [AAfter Cap 5]].
Proof. exact raw_ids_differ. Qed.

(* --- crux_http::Response: `==` is equality of contents, for every pair of iteration oracles --- *)
Theorem C11_response_eq_iff :
  forall o1 o2 a b ra rb, (forall m, Permutation (o1 m) m) -> (forall m, Permutation (o2 m) m) ->
    build_response a = Some ra -> build_response b = Some rb ->
    (resp_eq o1 o2 ra rb = true <-> same_contents ra rb).
Proof.
  intros o1 o2 a b ra rb P1 P2 Ha Hb. apply resp_eq_iff; try assumption; eapply build_response_wf; eassumption.
Qed.
Theorem C11_response_eq_iff_any_map :
  forall o1 o2 a b, (forall m, Permutation (o1 m) m) -> (forall m, Permutation (o2 m) m) ->
    NoDup (map fst (p_headers a)) -> NoDup (map fst (p_headers b)) ->
    (resp_eq o1 o2 a b = true <-> same_contents a b).
Proof. exact resp_eq_iff. Qed.
Theorem C11_response_eq_oracle_free :
  forall o1 o2 o1' o2' a b,
    (forall m, Permutation (o1 m) m) -> (forall m, Permutation (o2 m) m) ->
    (forall m, Permutation (o1' m) m) -> (forall m, Permutation (o2' m) m) ->
    NoDup (map fst (p_headers a)) -> NoDup (map fst (p_headers b)) ->
    resp_eq o1 o2 a b = resp_eq o1' o2' a b.
Proof. exact resp_eq_oracle_free. Qed.
(* ... hence an equivalence relation *)
Theorem C11_response_eq_equivalence :
  (forall a, same_contents a a) /\ (forall a b, same_contents a b -> same_contents b a) /\
  (forall a b c, same_contents a b -> same_contents b c -> same_contents a c).
Proof. split; [exact same_contents_refl|]. split; [exact same_contents_sym|exact same_contents_trans]. Qed.
(* the decidable form evaluated on the implementation's answers is that proposition *)
Theorem C11_same_contentsb_iff : forall a b, same_contentsb a b = true <-> same_contents a b.
Proof. exact same_contentsb_iff. Qed.

(* a serialized Response (inside an event or a view model) writes its headers in an order that does
   not depend on the oracle, and responses with equal contents serialize alike *)
Theorem C11_response_serialization_order_independent :
  forall o1 o2 r, (forall m, Permutation (o1 m) m) -> (forall m, Permutation (o2 m) m) ->
    NoDup (map fst (p_headers r)) -> resp_wire_headers o1 r = resp_wire_headers o2 r.
Proof. exact resp_wire_order_free. Qed.
Theorem C11_equal_responses_serialize_alike :
  forall o1 o2 a b, (forall m, Permutation (o1 m) m) -> (forall m, Permutation (o2 m) m) ->
    NoDup (map fst (p_headers a)) -> NoDup (map fst (p_headers b)) ->
    same_contents a b -> resp_wire_headers o1 a = resp_wire_headers o2 b.
Proof. exact resp_wire_same_contents. Qed.
Theorem C11_response_serialization_before_fix_refuted :
  let r := resp0 [([97], [[49]]); ([98], [[50]])] in
  resp_wire_headers_before_fix (fun m => m) r <> resp_wire_headers_before_fix (@rev _) r.
Proof. exact resp_wire_before_fix_differs. Qed.

(* before the fix: commit (header iterators zipped) both directions failed *)
Theorem C11_response_eq_before_fix_refuted :
  (resp_eq_before_fix (fun m => m) (fun m => m) (resp0 []) (resp0 [([97], [[98]])]) = true /\
   ~ same_contents (resp0 []) (resp0 [([97], [[98]])])) /\
  (let h := [([97], [[49]]); ([98], [[50]])] in
   (forall m, Permutation (@rev (bytes * list bytes) m) m) /\
   resp_eq_before_fix (fun m => m) (@rev _) (resp0 h) (resp0 h) = false /\ same_contents (resp0 h) (resp0 h)).
Proof. split; [exact before_fix_empty_equals_anything|exact before_fix_equal_compare_unequal]. Qed.

(* --- the protocol values with derived equality (HttpRequest, HttpResponse, HttpResult, HttpError,
   KeyValueOperation/Result/Response/Error, Value, TimeRequest, TimeResponse, TimerId, Instant,
   Duration): structural equality on their value trees --- *)
Theorem C11_derived_eq_iff : forall a b, val_eqb a b = true <-> a = b.
Proof. exact val_eqb_eq. Qed.

(* non-vacuity: a history with two HTTP requests of three headers each (one per API), a key-value
   operation, two timers and a clear, replayed with two different oracles and counters *)
Example C11_nonvacuous :
  let hs := [OHeader [98] [[49]]; OHeader [97] [[50]]; OAppend [99] [[51]; [52]]] in
  let h := [SEvent [AHttp Cap [71] true (fun _ => [47]) hs []; AAfter Cmd 7; AKv Cmd (KGet [107]);
                    AHttp Cmd [80] true (fun _ => [47]) hs []; AAt Cap 1 2];
            SResolve 0; SEvent [AClear 0; ARender Cap]; SView] in
  renumber (replay (fun m => m) 1 h) = renumber (replay (@rev _) 41 h) /\
  replay (fun m => m) 1 h <> replay (fun m => m) 41 h /\
  renumber (replay (fun m => m) 1 h) =
    [[EHttp {| q_method := [71]; q_url := [47]; q_headers := [([97],[50]); ([98],[49]); ([99],[51]); ([99],[52])]; q_body := [] |};
      ETime (TAt 0 1 2);
      ETime (TAfter 1 7); EKv (KGet [107]);
      EHttp {| q_method := [80]; q_url := [47]; q_headers := [([97],[50]); ([98],[49]); ([99],[51]); ([99],[52])]; q_body := [] |}];
     []; [ETime (TClear 0); ERender]; []].
Proof. vm_compute. repeat split. discriminate. Qed.
