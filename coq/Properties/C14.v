(* C14 - an HTTP request reaches the shell exactly as the app described it.  Statements only.

   A description is an entry point (URL, method) and the list of calls [ops] the app makes on the
   request builder / request; [send_cmd] and [send_cap] are the models of the command API and of the
   capability API.  Every theorem is for ALL descriptions and ALL oracles: [url_ok]/[url_str] (the
   `url` crate) and [iter_order] (the header hash map's iteration order, any rearrangement). *)
From Coq Require Import List NArith Bool Permutation.
From Crux Require Import Base.Res HttpReq.Model HttpReq.ModelProofs.
Import ListNotations.
Open Scope N_scope.

(* Full statement: whatever the app describes, the observation satisfies the trace predicate in its
   [full] reading (an explicit content type wins, otherwise the documented type of the body that is
   sent): one request with the described method, URL, body and per-name header values, or an explicit
   rejection with nothing sent when the description is malformed. *)
Definition C14_full_statement : Prop :=
  forall url_ok url_str iter_order, (forall m, Permutation (iter_order m) m) ->
  forall method ops,
    C14_ok true method url_ok url_str ops (obs_of_res (send_cmd url_ok url_str iter_order method ops)) = true.

(* Proved part: every description that does not set bodies of two different kinds. *)
Theorem C14_fidelity_partial :
  forall url_ok url_str iter_order, (forall m, Permutation (iter_order m) m) ->
  forall method ops, known_rebody ops = false ->
    C14_ok true method url_ok url_str ops (obs_of_res (send_cmd url_ok url_str iter_order method ops)) = true.
Proof. exact model_ok_full. Qed.

(* ... and the full statement is false of the faithful model: body_string then body_json leaves
   `content-type: text/plain;charset=utf-8` on a JSON body (http-types copies a body's MIME type only
   when no content type is present).  KNOWN_FINDINGS.txt class body_replaced_keeps_first_mime. *)
Theorem C14_content_type_of_replaced_body_refuted :
  known_rebody sticky_witness = true /\
  send_cmd true (fun _ => []) (fun m => m) [80;79;83;84] sticky_witness
    = Ok [{| q_method := [80;79;83;84]; q_url := []; q_headers := [(CT, mime_of MPlain)]; q_body := [49] |}] /\
  spec_vals true CT sticky_witness = [mime_of MJson] /\
  C14_ok true [80;79;83;84] true (fun _ => []) sticky_witness
    (obs_of_res (send_cmd true (fun _ => []) (fun m => m) [80;79;83;84] sticky_witness)) = false.
Proof. exact sticky_refuted. Qed.

(* With the content type read as http-types implements it (the type implied by the first body
   sticks) the statement holds of every description, no exception. *)
Theorem C14_fidelity_sticky :
  forall url_ok url_str iter_order, (forall m, Permutation (iter_order m) m) ->
  forall method ops,
    C14_ok false method url_ok url_str ops (obs_of_res (send_cmd url_ok url_str iter_order method ops)) = true.
Proof. exact model_ok_sticky. Qed.

(* The same as a proposition about the emitted request: exactly one, with the described method, URL
   (the oracle's serialisation with the last described query), body (the last described body) and, for
   EVERY name, exactly the described values in order; all names on the wire are lower-case. *)
Theorem C14_emitted_request :
  forall url_ok url_str iter_order, (forall m, Permutation (iter_order m) m) ->
  forall method ops l, send_cmd url_ok url_str iter_order method ops = Ok l ->
    exists r, l = [r] /\ described false method url_str ops r /\
              Forall (fun h => lower (fst h) = fst h) (q_headers r).
Proof. exact send_cmd_sound. Qed.

Theorem C14_emitted_request_full :
  forall url_ok url_str iter_order, (forall m, Permutation (iter_order m) m) ->
  forall method ops l, known_rebody ops = false -> send_cmd url_ok url_str iter_order method ops = Ok l ->
    exists r, l = [r] /\ described true method url_str ops r.
Proof.
  intros url_ok url_str io P method ops l Hk H.
  destruct (send_cmd_sound url_ok url_str io P method ops l H) as [r [Hl [Hd _]]].
  exists r. split; [exact Hl|]. apply described_full_sticky; assumption.
Qed.

(* exactly one request effect per accepted description; none for a malformed one *)
Theorem C14_once :
  forall url_ok url_str iter_order method ops l,
    send_cmd url_ok url_str iter_order method ops = Ok l -> length l = 1%nat.
Proof. exact send_cmd_once. Qed.
Theorem C14_accepted_sends_once :
  forall url_ok url_str iter_order method ops, desc_outcome url_ok ops = Sent ->
    exists r, send_cmd url_ok url_str iter_order method ops = Ok [r].
Proof. exact accepted_sends_once. Qed.
Theorem C14_malformed_sends_nothing :
  forall url_ok url_str iter_order method ops, desc_outcome url_ok ops <> Sent ->
    forall l, send_cmd url_ok url_str iter_order method ops <> Ok l.
Proof. exact malformed_sends_nothing. Qed.

(* nothing is added: a header on the wire carries a mentioned name and a described value *)
Theorem C14_nothing_added :
  forall full method url_str ops r n v, described full method url_str ops r ->
    In (n, v) (q_headers r) -> In n (mentioned ops) /\ In v (spec_vals full n ops).
Proof. exact described_nothing_added. Qed.

(* both APIs, both stages: a request described by builder calls and then by calls on the Request
   itself (from a per-request middleware) is the request of the concatenated description *)
Theorem C14_same_both_apis :
  forall url_ok url_str iter_order method ops1 ops2,
    send_cap url_ok url_str iter_order method ops1 ops2 = send_cmd url_ok url_str iter_order method (ops1 ++ ops2).
Proof. exact send_cap_cmd. Qed.

(* the request does not depend on the hash map's iteration order (shared with C11) *)
Theorem C14_order_independent :
  forall url_ok url_str o1 o2 method ops,
    (forall m, Permutation (o1 m) m) -> (forall m, Permutation (o2 m) m) ->
    send_cmd url_ok url_str o1 method ops = send_cmd url_ok url_str o2 method ops.
Proof. exact send_cmd_order_free. Qed.

(* what the trace predicate means when it is evaluated on ANY observation, the implementation's
   included: the property itself *)
Theorem C14_ok_sound_sent :
  forall full method url_ok url_str ops l, C14_ok full method url_ok url_str ops (ObsSent l) = true ->
    desc_outcome url_ok ops = Sent /\ exists r, l = [r] /\ described full method url_str ops r.
Proof. exact C14_ok_sent_sound. Qed.
Theorem C14_ok_sound_rejected :
  forall full method url_ok url_str ops o, C14_ok full method url_ok url_str ops o = true ->
    desc_outcome url_ok ops <> Sent ->
    (o = ObsRefused /\ desc_outcome url_ok ops = Refused) \/ (o = ObsPanic /\ desc_outcome url_ok ops = Panicked).
Proof. exact C14_ok_not_sent_sound. Qed.

(* non-vacuity: a description with mixed-case repeated names, an appended value, a removed name, a
   query and a body is accepted, is outside the known class, and its one request is as described *)
Example C14_nonvacuous :
  let ops := [OHeader [65;99] [[49]]; OAppend [97;67] [[50];[51]]; OHeader [88] [[52]]; ORemove [120];
              OQuery (Some [113]); OBody MJson (Some [123;125])] in
  desc_outcome true ops = Sent /\ known_rebody ops = false /\
  send_cmd true (fun q => match q with Some x => 47 :: 63 :: x | None => [47] end) (fun m => rev m) [71;69;84] ops
    = Ok [{| q_method := [71;69;84]; q_url := [47;63;113];
             q_headers := [([97;99], [49]); ([97;99], [50]); ([97;99], [51]); (CT, mime_of MJson)];
             q_body := [123;125] |}].
Proof. vm_compute. repeat split. Qed.
